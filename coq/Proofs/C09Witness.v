(* C09: computed witness - a hidden edge and an iteration order under which a schema precedes its dependency *)
From Coq Require Import String Ascii.
From Coq Require Import List Arith Lia Bool.
Require Import TT.Model.Base TT.Model.Str TT.Model.C07TypeParse TT.Model.C07Harvest TT.Model.C07Worklist TT.Model.C07Reach TT.Model.Topo.
Require Import TT.Spec.C07Spec TT.Spec.C07Known TT.Spec.C09Spec TT.Spec.C09Known.
Require Import TT.Proofs.TopoProofs TT.Proofs.C20Extra TT.Proofs.C09Proofs.
Import ListNotations.

(* the witness of the repaired defect C09-1: the edge Order -> Item is recorded now, and under the order
   that used to put OrderSchema first, under the default order and under the sorted orders of the repaired
   tool the dependency comes first *)
Lemma hidden_edge_repaired :
  ord_ok o_bad /\ in_domain w_hidden = true /\ spec_acyclic w_hidden = true /\
  edges_recorded_b w_hidden = true /\
  In (L "Item") (schema_refs w_hidden (L "Order")) /\
  emitted_zod o_bad w_hidden = Some [L "Item"; L "Order"] /\
  emitted_zod o_default w_hidden = Some [L "Item"; L "Order"] /\
  emitted_zod o_sorted w_hidden = Some [L "Item"; L "Order"].
Proof.
  split. { apply ord_ok_obs. repeat constructor; simpl; intuition discriminate. }
  split; [vm_compute; reflexivity|]. split; [vm_compute; reflexivity|]. split; [vm_compute; reflexivity|].
  split. { vm_compute. left. reflexivity. }
  split; [vm_compute; reflexivity|]. split; vm_compute; reflexivity.
Qed.

Lemma sample_premises :
  in_domain sample_dag = true /\ spec_acyclic sample_dag = true /\ ord_ok o_default /\
  exists disc out, discovered o_default sample_dag = Some disc /\ acyclic (dep_graph o_default sample_dag disc) /\
    edges_recorded_b sample_dag = true /\ emitted_zod o_default sample_dag = Some out /\ List.length out = 8.
Proof.
  split; [vm_compute; reflexivity|]. split; [vm_compute; reflexivity|]. split; [exact TT.Proofs.C07Concrete.ord_ok_default|].
  eexists. eexists. split; [vm_compute; reflexivity|]. split.
  { apply (rank_acyclic _ sample_rank). apply rank_check. vm_compute. reflexivity. }
  split; [vm_compute; reflexivity|]. split; [vm_compute; reflexivity|]. reflexivity.
Qed.
