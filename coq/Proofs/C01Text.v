(* C01: the interface template at TEXT level. The lexer turns the text of the model's chunks (fixed template text,
   name hole, key holes bare or quoted, type holes) into exactly the token rendering of the token-level skeleton
   theorem, chunk by chunk; so the text of the item is accepted by parse_module and is well formed (c01_ok).
   Framework: clex (one chunk) / cslex (a chunk list): the text lexes to the tokens in front of every continuation
   of a class, and lexing the chunks one by one gives the same tokens. *)
From Coq Require Import String Ascii.
From Coq Require Import List Arith Bool Lia.
Require Import TT.Model.Str TT.Model.TypeParse TT.Model.Pipeline.
Require Import TT.Spec.TsLex TT.Spec.TsModule TT.Spec.TsObs TT.Spec.C01Wf TT.Model.C01Emit.
Require Import TT.Proofs.LexFacts TT.Proofs.C01Holes TT.Proofs.C01Skeleton TT.Proofs.C01TypeHole TT.Proofs.C01Lex TT.Proofs.C01HoleLex TT.Proofs.C01Wrapper.
Import ListNotations.
Local Open Scope list_scope.
Local Open Scope char_scope.

Definition any : str -> Prop := fun _ => True.
Definition clex (P : str -> Prop) (c : chunk) (ts : list tk) : Prop := lexes P (chunk_text c) ts /\ chunk_lex c = ts.
Definition cslex (P : str -> Prop) (cs : list chunk) (ts : list tk) : Prop := lexes P (text cs) ts /\ toks_of cs = ts.

Lemma text_app a b : text (a ++ b) = text a ++ text b.
Proof. unfold text. rewrite map_app, concat_app. reflexivity. Qed.
Lemma toks_of_app a b : toks_of (a ++ b) = toks_of a ++ toks_of b.
Proof. unfold toks_of. apply flat_map_app. Qed.

Lemma cslex_nil P : cslex P [] [].
Proof. split; [apply lexes_nil|reflexivity]. Qed.
Lemma cslex_cons (P Q : str -> Prop) c r ta tb :
  clex P c ta -> cslex Q r tb -> (forall x, Q x -> P (text r ++ x)) -> cslex Q (c :: r) (ta ++ tb).
Proof. intros [H1 H2] [H3 H4] Hpq. split.
  - rewrite text_cons. apply (lexes_app P Q); assumption.
  - rewrite toks_of_cons, H2, H4. reflexivity. Qed.
Lemma cslex_app (P Q : str -> Prop) a b ta tb :
  cslex P a ta -> cslex Q b tb -> (forall x, Q x -> P (text b ++ x)) -> cslex Q (a ++ b) (ta ++ tb).
Proof. intros [H1 H2] [H3 H4] Hpq. split.
  - rewrite text_app. apply (lexes_app P Q); assumption.
  - rewrite toks_of_app, H2, H4. reflexivity. Qed.
Lemma cslex_eq P cs ts ts' : cslex P cs ts -> ts = ts' -> cslex P cs ts'.
Proof. intros H <-. exact H. Qed.
Lemma cslex_done (P : str -> Prop) cs ts : cslex P cs ts -> P [] -> lexed cs = ts /\ toks_of cs = ts.
Proof. intros [H1 H2] Hp. split; [|exact H2]. unfold lexed. apply (lexes_module P); assumption. Qed.

(* ---------------------------------------------------------------- fixed text: words, white space, single punctuators *)
Definition spc (c : ascii) : bool := is_ws c || single c.
Fixpoint sp_toks (s : str) : list tk :=
  match s with [] => [] | c :: r => if is_ws c then sp_toks r else KP [c] :: sp_toks r end.
Lemma lexes_sp (P : str -> Prop) : forall s, forallb spc s = true -> lexes P s (sp_toks s).
Proof. induction s as [|c r IH]; intros H; [apply lexes_nil|]. cbn [forallb] in H. apply andb_true_iff in H as [Hc Hr].
  cbn [sp_toks]. destruct (is_ws c) eqn:Ew.
  - apply (lexes_app any P [c] r [] (sp_toks r)); [|apply IH; exact Hr|intros; exact Logic.I].
    apply lexes_step. intros x f _. apply lex_ws. exact Ew.
  - unfold spc in Hc. rewrite Ew in Hc. cbn [orb] in Hc.
    apply (lexes_app any P [c] r [KP [c]] (sp_toks r)); [apply lexes_single; exact Hc|apply IH; exact Hr|intros; exact Logic.I]. Qed.
Lemma spc_not_id c : spc c = true -> is_id_char c = false.
Proof. destruct c as [[] [] [] [] [] [] [] []]; vm_compute; intros; congruence. Qed.

Inductive piece := W (w : str) | Sp (s : str).
Definition piece_text (p : piece) : str := match p with W w => w | Sp s => s end.
Definition piece_toks (p : piece) : list tk := match p with W w => [KId w] | Sp s => sp_toks s end.
(* every word is an identifier and is followed by a non-empty run of white space / single punctuators *)
Fixpoint pieces_ok (ps : list piece) : bool :=
  match ps with
  | [] => true
  | W w :: r => ident w && (match r with Sp (_ :: _) :: _ => true | _ => false end) && pieces_ok r
  | Sp s :: r => forallb spc s && pieces_ok r
  end.
Definition pieces_text (ps : list piece) : str := concat (map piece_text ps).
Definition pieces_toks (ps : list piece) : list tk := flat_map piece_toks ps.
Lemma lexes_pieces (P : str -> Prop) : forall ps, pieces_ok ps = true -> lexes P (pieces_text ps) (pieces_toks ps).
Proof. induction ps as [|p r IH]; intros H; [apply lexes_nil|]. destruct p as [w|s]; cbn [pieces_ok] in H.
  - apply andb_true_iff in H as [H Hr]. apply andb_true_iff in H as [Hw Hn].
    change (pieces_text (W w :: r)) with (w ++ pieces_text r). change (pieces_toks (W w :: r)) with ([KId w] ++ pieces_toks r).
    apply (lexes_app bnd P); [apply lexes_ident; [exact Hw|auto]|apply IH; exact Hr|].
    intros x _. destruct r as [|[w2|[|c s']] r']; try discriminate.
    cbn [pieces_ok] in Hr. apply andb_true_iff in Hr as [Hs _]. cbn [forallb] in Hs. apply andb_true_iff in Hs as [Hc _].
    change (bnd (c :: (s' ++ pieces_text r') ++ x)). cbn [bnd]. apply spc_not_id. exact Hc.
  - apply andb_true_iff in H as [Hs Hr].
    change (pieces_text (Sp s :: r)) with (s ++ pieces_text r). change (pieces_toks (Sp s :: r)) with (sp_toks s ++ pieces_toks r).
    apply (lexes_app any P); [apply lexes_sp; exact Hs|apply IH; exact Hr|intros; exact Logic.I]. Qed.
Lemma clex_pieces (P : str -> Prop) ps s : pieces_ok ps = true -> s = pieces_text ps -> clex P (Fixed s) (pieces_toks ps).
Proof. intros Hok ->. split; [apply lexes_pieces; exact Hok|].
  unfold chunk_lex. cbn [chunk_text]. apply (lexes_module any); [apply lexes_pieces; exact Hok|exact Logic.I]. Qed.

(* ---------------------------------------------------------------- holes *)
Lemma clex_hole h s : name_class h s -> hole_ok h s = true -> clex bnd (Hole h s) [hole_tok h s].
Proof. intros Hc Hok. split; [apply hole_lexes; assumption|apply hole_chunk_lex; assumption]. Qed.
Lemma clex_key k : clex bnd (key_chunk k) [gkey_tok (key_g k)].
Proof. unfold key_chunk, key_g. destruct (rust_ident_name k) eqn:E.
  - apply (clex_hole HKey k); [exact (rust_ident_is_ident k E)|]. cbn [hole_ok]. unfold key_text_ok. rewrite (rust_ident_is_ident k E). reflexivity.
  - apply (clex_hole (HStr DQ) (escape_js k)); [left; reflexivity|exact (str_hole_message k)]. Qed.
Lemma clex_type g t : leaves_ok g t = true -> clex Pc (Hole HType (render_m g t)) (rtoks g t).
Proof. intros Hl. split; [apply lexes_render; exact Hl|]. unfold chunk_lex. cbn [chunk_text]. apply lex_render_alone. exact Hl. Qed.
(* the optional mark in front of the colon *)
Definition before_colon (r : str) : Prop := exists r', r = ":" :: r'.
Lemma clex_qmark : clex before_colon (F "?") [P "?"].
Proof. split; [|reflexivity]. apply lexes_step. intros r f [r' ->]. change (P "?") with (KP ["?"]). apply lex_punct; reflexivity. Qed.

(* ---------------------------------------------------------------- a member line *)
Lemma member_cslex g k opt t : leaves_ok g t = true ->
  cslex any (member_chunks k opt (render_m g t)) (member_toks {| gm_key := key_g k; gm_opt := opt; gm_toks := rtoks g t |}).
Proof. intros Hl.
  assert (cslex any [F ": "; Hole HType (render_m g t); F ";"; NL] (P ":" :: rtoks g t ++ [P ";"])) as Htail.
  { eapply cslex_eq.
    - apply (cslex_cons any any _ _ [P ":"]); [apply (clex_pieces any [Sp [":"; " "]]); reflexivity| |intros; exact Logic.I].
      apply (cslex_cons Pc any _ _ (rtoks g t)); [apply clex_type; exact Hl| |].
      + apply (cslex_cons any any _ _ [P ";"]); [apply (clex_pieces any [Sp [";"]]); reflexivity| |intros; exact Logic.I].
        apply (cslex_cons any any _ _ []); [apply (clex_pieces any [Sp [nl]]); reflexivity|apply cslex_nil|intros; exact Logic.I].
      + intros x _. change (Pc (";" :: nl :: x)). apply Pc_cons; [reflexivity|discriminate].
    - cbn [app]. reflexivity. }
  unfold member_chunks, member_toks. cbn [gm_key gm_opt gm_toks]. destruct opt.
  - eapply cslex_eq.
    + apply (cslex_cons any any (F " ") _ []); [apply (clex_pieces any [Sp [" "]]); reflexivity| |intros; exact Logic.I].
      apply (cslex_cons bnd any (key_chunk k) _ [gkey_tok (key_g k)]); [apply clex_key| |intros x _; reflexivity].
      apply (cslex_cons before_colon any (F "?") _ [P "?"]); [apply clex_qmark|exact Htail|].
      intros x _. eexists. reflexivity.
    + reflexivity.
  - eapply cslex_eq.
    + apply (cslex_cons any any (F " ") _ []); [apply (clex_pieces any [Sp [" "]]); reflexivity| |intros; exact Logic.I].
      apply (cslex_cons bnd any (key_chunk k) _ [gkey_tok (key_g k)]); [apply clex_key|exact Htail|intros x _; reflexivity].
    + reflexivity. Qed.

(* ---------------------------------------------------------------- the interface item *)
Definition field_leaves_ok (g : c_cfg) (f : c_field) : bool := leaves_ok g (pts (qtts (cf_ty f))).
Lemma members_cslex g s : forall fs, forallb (field_leaves_ok g) (filter (fun f => negb (c_skipped (cf_serde f))) fs) = true ->
  cslex any (flat_map (fun f => if c_skipped (cf_serde f) then [] else member_chunks (field_ser g s f) (is_option (cf_ty f)) (ts_text g (cf_ty f))) fs)
            (flat_map member_toks (map (field_member g s) (filter (fun f => negb (c_skipped (cf_serde f))) fs))).
Proof. induction fs as [|f fs IH]; intros H; [apply cslex_nil|]. cbn [flat_map filter] in *.
  destruct (c_skipped (cf_serde f)); cbn [negb] in *.
  - cbn [app]. apply IH. exact H.
  - cbn [forallb map flat_map] in *. apply andb_true_iff in H as [Hf Hr].
    apply (cslex_app any any); [apply member_cslex; exact Hf|apply IH; exact Hr|intros; exact Logic.I]. Qed.

Theorem interface_cslex g s :
  is_binding_name (cs_name s) = true -> forallb (field_leaves_ok g) (listed_fields s) = true ->
  cslex any (interface_chunks g s) (struct_toks g s).
Proof. intros Hn Hf. unfold interface_chunks, struct_toks, interface_toks.
  apply (cslex_app any any).
  - eapply cslex_eq.
    + apply (cslex_cons any any (F "export interface ") _ [KId (L "export"); KId (L "interface")]);
        [apply (clex_pieces any [W (L "export"); Sp [" "]; W (L "interface"); Sp [" "]]); reflexivity| |intros; exact Logic.I].
      apply (cslex_cons bnd any (Hole HTyName (cs_name s)) _ [KId (cs_name s)]); [apply (clex_hole HTyName); [exact Logic.I|exact Hn]| |intros x _; reflexivity].
      apply (cslex_cons any any (F " {") _ [P "{"]); [apply (clex_pieces any [Sp [" "; "{"]]); reflexivity|apply cslex_nil|intros; exact Logic.I].
    + reflexivity.
  - apply (cslex_app any any); [apply members_cslex; exact Hf| |intros; exact Logic.I].
    eapply cslex_eq; [apply (cslex_cons any any (F " } ") [] [P "}"]); [apply (clex_pieces any [Sp [" "; "}"; " "]]); reflexivity|apply cslex_nil|intros; exact Logic.I]|reflexivity].
  - intros; exact Logic.I. Qed.

(* lexing the item text = lexing chunk by chunk = the token rendering of the skeleton theorem *)
Theorem interface_lexed g s :
  is_binding_name (cs_name s) = true -> forallb (field_leaves_ok g) (listed_fields s) = true ->
  lexed (interface_chunks g s) = struct_toks g s /\ toks_of (interface_chunks g s) = struct_toks g s.
Proof. intros Hn Hf. apply (cslex_done any); [apply interface_cslex; assumption|exact Logic.I]. Qed.

(* ---------------------------------------------------------------- from text to c01_ok *)
Lemma tok_ok_no_err l : forallb tok_ok l = true -> has_err l = false.
Proof. unfold has_err. induction l as [|t l IH]; [reflexivity|]. cbn [forallb existsb]. intros H. apply andb_true_iff in H as [Ht Hl].
  rewrite (IH Hl). destruct t; try reflexivity. discriminate. Qed.
Lemma member_toks_ok m : gkey_ok (gm_key m) = true -> forallb simple_tk (gm_toks m) = true -> forallb tok_ok (member_toks m) = true.
Proof. intros Hk Ht. unfold member_toks. cbn [forallb]. rewrite forallb_app. cbn [forallb tok_ok]. rewrite forallb_app.
  assert (forallb tok_ok (gm_toks m) = true) as H.
  { clear Hk. induction (gm_toks m) as [|t l IH]; [reflexivity|]. cbn [forallb] in *. apply andb_true_iff in Ht as [H1 H2]. rewrite (IH H2).
    destruct t; try discriminate; reflexivity. }
  rewrite H. destruct (gm_opt m); cbn [forallb tok_ok andb]; rewrite andb_true_r; destruct (gm_key m); cbn [gkey_tok tok_ok gkey_ok] in *; auto. Qed.
Lemma members_toks_ok g s fs : forallb tok_ok (flat_map member_toks (map (field_member g s) fs)) = true.
Proof. induction fs as [|f fs IH]; [reflexivity|]. cbn [map flat_map]. rewrite forallb_app, IH, andb_true_r.
  apply member_toks_ok; [apply key_g_ok|apply rtoks_simple]. Qed.
Lemma struct_toks_ok g s : forallb tok_ok (struct_toks g s) = true.
Proof. unfold struct_toks, interface_toks. rewrite !forallb_app, members_toks_ok. reflexivity. Qed.

Theorem interface_text_ok g s :
  is_binding_name (cs_name s) = true -> forallb (fun f => type_in_budget g (cf_ty f)) (listed_fields s) = true ->
  c01_ok (text (interface_chunks g s)) = true.
Proof. intros Hn Hf.
  assert (forallb (field_leaves_ok g) (listed_fields s) = true) as Hl.
  { rewrite forallb_forall in *. intros f Hin. specialize (Hf f Hin). unfold type_in_budget in Hf. apply andb_true_iff in Hf as [H _]. exact H. }
  destruct (interface_lexed g s Hn Hl) as [E _]. unfold lexed in E.
  destruct (interface_tokens_ok g s [] Hn Hf) as [asts [Ep Hok]]. rewrite app_nil_r in Ep.
  unfold c01_ok, parse_module. rewrite E. rewrite (tok_ok_no_err _ (struct_toks_ok g s)).
  assert (exists c r, struct_toks g s = c :: r) as [c [r Ec]] by (unfold struct_toks, interface_toks; eexists; eexists; reflexivity).
  rewrite Ec in *. cbn [List.length p_items]. rewrite Ep. cbn [rev app]. unfold wf_module_b.
  rewrite <- Ec, (struct_toks_ok g s). cbn [forallb andb]. rewrite Hok. reflexivity. Qed.

(* ---------------------------------------------------------------- any sequence of items: from text to c01_ok *)
(* an item at text level: its chunks lex (chunk by chunk) to tokens that p_item consumes in front of every
   continuation, giving a well-formed item; every token is well formed *)
Definition item_text_ok (cs : list chunk) : Prop :=
  exists ts, cslex any cs ts /\ ts <> [] /\ forallb tok_ok ts = true /\
             forall rest, exists it, p_item (ts ++ rest) = Some (it, rest) /\ item_ok it = true.

Lemma items_parse : forall items, Forall item_text_ok items ->
  exists ts, cslex any (concat items) ts /\ forallb tok_ok ts = true /\ List.length items <= List.length ts /\
             forall n acc, List.length items < n -> exists its, p_items n ts acc = Some (rev acc ++ its) /\ forallb item_ok its = true.
Proof. induction items as [|i r IH]; intros HF.
  - exists []. split; [apply cslex_nil|]. split; [reflexivity|]. split; [cbn; lia|]. intros n acc Hn. exists []. destruct n; [cbn in Hn; lia|].
    rewrite app_nil_r. split; reflexivity.
  - inversion HF as [|? ? Hi Hr]; subst. destruct Hi as [t1 [Hc1 [Hne [Hk1 Hp1]]]]. destruct (IH Hr) as [ts' [Hc [Hk [Hlen Hp]]]].
    exists (t1 ++ ts'). split; [cbn [concat]; apply (cslex_app any any); [exact Hc1|exact Hc|intros; exact Logic.I]|].
    split; [rewrite forallb_app, Hk1, Hk; reflexivity|]. split.
    { rewrite app_length. destruct t1; [congruence|]. cbn [List.length] in *. lia. }
    intros n acc Hn. destruct n as [|n]; [lia|]. destruct (Hp1 ts') as [it [E Hok]].
    destruct (Hp n (it :: acc)) as [its [E2 Hoks]]; [cbn [List.length] in Hn; lia|].
    exists (it :: its). split; [|cbn [forallb]; rewrite Hok, Hoks; reflexivity].
    destruct t1 as [|c t1']; [congruence|]. cbn [app p_items]. cbn [app] in E. rewrite E, E2. cbn [rev]. rewrite <- app_assoc. reflexivity. Qed.

Theorem items_c01_ok items : Forall item_text_ok items -> c01_ok (text (concat items)) = true.
Proof. intros HF. destruct (items_parse items HF) as [ts [Hc [Hk [Hlen Hp]]]].
  destruct (cslex_done any _ _ Hc Logic.I) as [E _]. unfold lexed in E. unfold c01_ok, parse_module. rewrite E, (tok_ok_no_err _ Hk).
  destruct (Hp (S (List.length ts)) []) as [its [Ep Hoks]]; [lia|]. rewrite Ep. cbn [rev app]. unfold wf_module_b. rewrite Hk, Hoks. reflexivity. Qed.

Theorem interface_item_text_ok g s :
  is_binding_name (cs_name s) = true -> forallb (fun f => type_in_budget g (cf_ty f)) (listed_fields s) = true ->
  item_text_ok (interface_chunks g s).
Proof. intros Hn Hf.
  assert (forallb (field_leaves_ok g) (listed_fields s) = true) as Hl.
  { rewrite forallb_forall in *. intros f Hin. specialize (Hf f Hin). unfold type_in_budget in Hf. apply andb_true_iff in Hf as [H _]. exact H. }
  exists (struct_toks g s). split; [apply interface_cslex; assumption|]. split; [unfold struct_toks, interface_toks; discriminate|].
  split; [apply struct_toks_ok|]. intros rest. destruct (interface_tokens_ok g s rest Hn Hf) as [asts [E Hok]]. eexists. split; eassumption. Qed.

(* ---------------------------------------------------------------- the enum alias item *)
Lemma clex_str (P : str -> Prop) q b : is_quote q -> str_body_ok q b = true -> clex P (Hole (HStr q) b) [KStr q b].
Proof. intros Hq Hb. split; [apply lexes_str_body; assumption|]. unfold chunk_lex. apply (lexes_module any); [apply lexes_str_body; assumption|exact Logic.I]. Qed.
Lemma clex_word w : ident w = true -> clex bnd (Fixed w) [KId w].
Proof. intros H. split; [apply lexes_ident; [exact H|auto]|]. unfold chunk_lex. cbn [chunk_text]. apply (lexes_module bnd); [apply lexes_ident; [exact H|auto]|exact Logic.I]. Qed.
(* space, one punctuator that needs look-ahead, space *)
Lemma lexes_sp_eq_sp (Q : str -> Prop) : lexes Q (L " = ") [P "="].
Proof. intros r f _ Hf. change (List.length (L " = " ++ r)) with (S (S (S (List.length r)))) in Hf.
  destruct f as [|[|[|f]]]; try lia. exists f. split; [lia|reflexivity]. Qed.
Lemma lexes_sp_bar_sp (Q : str -> Prop) : lexes Q (L " | ") [P "|"].
Proof. intros r f _ Hf. change (List.length (L " | " ++ r)) with (S (S (S (List.length r)))) in Hf.
  destruct f as [|[|[|f]]]; try lia. exists f. split; [lia|reflexivity]. Qed.
Lemma clex_fixed (Q : str -> Prop) s ts : (forall Q', lexes Q' s ts) -> clex Q (Fixed s) ts.
Proof. intros H. split; [apply H|]. unfold chunk_lex. cbn [chunk_text]. apply (lexes_module any); [apply H|exact Logic.I]. Qed.

Definition variant_lit (s : c_struct) (f : c_field) : str := escape_js (variant_ser s f).
Lemma alts_cslex g s : forall r f, cslex any (enum_alts g s (f :: r)) (utoks (map lit_item (map (variant_lit s) (f :: r)))).
Proof. induction r as [|f2 r IH]; intros f.
  - eapply cslex_eq; [apply (cslex_cons any any _ [] [KStr DQ (variant_lit s f)]); [apply clex_str; [left; reflexivity|exact (str_hole_message _)]|apply cslex_nil|intros; exact Logic.I]|reflexivity].
  - change (enum_alts g s (f :: f2 :: r)) with (Hole (HStr DQ) (variant_lit s f) :: F " | " :: enum_alts g s (f2 :: r)).
    eapply cslex_eq.
    + apply (cslex_cons any any _ _ [KStr DQ (variant_lit s f)]); [apply clex_str; [left; reflexivity|exact (str_hole_message _)]| |intros; exact Logic.I].
      apply (cslex_cons any any _ _ [P "|"]); [apply clex_fixed; intros; apply lexes_sp_bar_sp|apply IH|intros; exact Logic.I].
    + reflexivity. Qed.

Definition enum_item_toks (s : c_struct) : list tk :=
  match listed_variants s with [] => never_toks (cs_name s) | l => enum_toks (cs_name s) (map (variant_lit s) l) end.
Theorem enum_cslex g s : is_binding_name (cs_name s) = true -> cslex any (enum_chunks g s) (enum_item_toks s).
Proof. intros Hn. unfold enum_chunks, enum_item_toks.
  assert (cslex any [F "export type "; Hole HTyName (cs_name s); F " = "] [KId (L "export"); KId (L "type"); KId (cs_name s); P "="]) as Hhead.
  { eapply cslex_eq.
    - apply (cslex_cons any any (F "export type ") _ [KId (L "export"); KId (L "type")]);
        [apply (clex_pieces any [W (L "export"); Sp [" "]; W (L "type"); Sp [" "]]); reflexivity| |intros; exact Logic.I].
      apply (cslex_cons bnd any (Hole HTyName (cs_name s)) _ [KId (cs_name s)]); [apply (clex_hole HTyName); [exact Logic.I|exact Hn]| |intros x _; reflexivity].
      apply (cslex_cons any any (F " = ") _ [P "="]); [apply clex_fixed; intros; apply lexes_sp_eq_sp|apply cslex_nil|intros; exact Logic.I].
    - reflexivity. }
  assert (cslex any [F "; "] [P ";"]) as Htail.
  { eapply cslex_eq; [apply (cslex_cons any any (F "; ") [] [P ";"]); [apply (clex_pieces any [Sp [";"; " "]]); reflexivity|apply cslex_nil|intros; exact Logic.I]|reflexivity]. }
  destruct (listed_variants s) as [|f r].
  - eapply cslex_eq.
    + apply (cslex_app any any); [exact Hhead| |intros; exact Logic.I].
      apply (cslex_app bnd any); [|exact Htail|intros x _; reflexivity].
      eapply cslex_eq; [apply (cslex_cons bnd bnd (F "never") [] [KId (L "never")]); [apply clex_word; reflexivity|apply cslex_nil|intros x Hx; exact Hx]|reflexivity].
    + reflexivity.
  - unfold enum_toks. apply (cslex_app any any); [exact Hhead| |intros; exact Logic.I].
    apply (cslex_app any any); [apply alts_cslex|exact Htail|intros; exact Logic.I]. Qed.

Lemma lit_tok_ok b : tok_ok (KStr DQ (escape_js b)) = true.
Proof. exact (str_hole_message b). Qed.
Lemma utoks_lits_ok l : forallb tok_ok (utoks (map lit_item (map escape_js l))) = true.
Proof. destruct l as [|a l]; [reflexivity|]. cbn [map utoks itoks lit_item fst snd sfx app]. cbn [forallb]. rewrite lit_tok_ok. cbn [andb].
  induction l as [|b l IH]; [reflexivity|]. cbn [map flat_map itoks lit_item fst snd sfx app forallb]. rewrite lit_tok_ok. exact IH. Qed.
Theorem enum_item_text_ok g s : is_binding_name (cs_name s) = true -> item_text_ok (enum_chunks g s).
Proof. intros Hn. exists (enum_item_toks s). split; [apply enum_cslex; exact Hn|]. unfold enum_item_toks.
  destruct (listed_variants s) as [|f r] eqn:El.
  - split; [discriminate|]. split; [reflexivity|]. intros rest. destruct (enum_alias_never_ok (cs_name s) rest Hn) as [E Hok]. eexists. split; eassumption.
  - split; [unfold enum_toks; discriminate|]. split.
    + unfold enum_toks, variant_lit. rewrite !forallb_app. rewrite <- (map_map (variant_ser s) escape_js), utoks_lits_ok. reflexivity.
    + intros rest. destruct (enum_alias_ok (cs_name s) (map (variant_lit s) (f :: r)) rest Hn) as [t [E Hok]]; [discriminate|]. eexists. split; eassumption. Qed.

(* every candidate type declaration of the plain-mode types.ts (interface or enum alias), and any sequence of them *)
Theorem struct_item_text_ok g s :
  is_binding_name (cs_name s) = true ->
  (cs_enum s = false -> forallb (fun f => type_in_budget g (cf_ty f)) (listed_fields s) = true) ->
  item_text_ok (struct_chunks g s).
Proof. intros Hn Hf. unfold struct_chunks. destruct (cs_enum s); [apply enum_item_text_ok; exact Hn|apply interface_item_text_ok; auto]. Qed.
Definition struct_in_budget (g : c_cfg) (s : c_struct) : bool :=
  is_binding_name (cs_name s) && (cs_enum s || forallb (fun f => type_in_budget g (cf_ty f)) (listed_fields s)).
Theorem plain_structs_text_ok g ss : forallb (struct_in_budget g) ss = true -> c01_ok (text (concat (map (struct_chunks g) ss))) = true.
Proof. intros H. apply items_c01_ok. rewrite Forall_forall. intros cs Hin. apply in_map_iff in Hin as [s [<- Hs]].
  rewrite forallb_forall in H. specialize (H s Hs). unfold struct_in_budget in H. apply andb_true_iff in H as [Hn Hb].
  apply struct_item_text_ok; [exact Hn|]. intros He. rewrite He in Hb. exact Hb. Qed.

Definition ex_enum : c_struct :=
  {| cs_name := L "Status"; cs_enum := true; cs_serde := [SRenameAll (L "snake_case")];
     cs_fields := [ {| cf_name := L "InProgress"; cf_ty := QTuple []; cf_serde := []; cf_val := None |};
                    {| cf_name := L "Done"; cf_ty := QTuple []; cf_serde := [SRename (L "fin""ished")]; cf_val := None |} ] |}.
Lemma text_example :
  forallb (struct_in_budget g0) [ex_struct; ex_enum; ex_empty_enum] = true /\
  lexed (enum_chunks g0 ex_enum) = enum_item_toks ex_enum /\
  c01_ok (text (concat (map (struct_chunks g0) [ex_struct; ex_enum; ex_empty_enum]))) = true.
Proof. vm_compute. repeat split. Qed.

(* ---------------------------------------------------------------- the params interface item *)
Lemma clex_channel_open : clex starts_type (F ": Channel<") [P ":"; KId (L "Channel"); P "<"].
Proof. split; [|reflexivity].
  change (chunk_text (F ": Channel<")) with ([":"; " "] ++ L "Channel" ++ ["<"]).
  apply (lexes_app any starts_type _ _ [P ":"] [KId (L "Channel"); P "<"]); [apply (lexes_sp any [":"; " "]); reflexivity| |intros; exact Logic.I].
  apply (lexes_app bnd starts_type _ _ [KId (L "Channel")] [P "<"]); [apply lexes_ident; [reflexivity|auto]|apply lexes_lt2|intros x _; reflexivity]. Qed.
Lemma gt_ok_semi x : gt_ok (";" :: x).
Proof. split; [discriminate|intros E; discriminate]. Qed.
Lemma clex_channel_close : clex any (F ">;") [P ">"; P ";"].
Proof. apply clex_fixed. intros Q. change (L ">;") with ([">"] ++ [";"]).
  apply (lexes_app gt_ok Q _ _ [P ">"] [P ";"]); [apply lexes_gt2; auto|apply (lexes_sp Q [";"]); reflexivity|intros x _; apply gt_ok_semi]. Qed.

Lemma channel_member_cslex g c ch : leaves_ok g (pts (qtts (snd ch))) = true ->
  cslex any (channel_member g c ch) (member_toks (channel_member_g g c ch)).
Proof. intros Hl. unfold channel_member, member_toks, channel_member_g, chan_toks, ts_text. cbn [gm_key gm_opt gm_toks].
  eapply cslex_eq.
  - apply (cslex_cons any any (F " ") _ []); [apply (clex_pieces any [Sp [" "]]); reflexivity| |intros; exact Logic.I].
    apply (cslex_cons bnd any (key_chunk _) _ [gkey_tok (key_g (param_ser g c (fst ch)))]); [apply clex_key| |intros x _; reflexivity].
    apply (cslex_cons starts_type any _ _ [P ":"; KId (L "Channel"); P "<"]); [apply clex_channel_open| |].
    + apply (cslex_cons Pc any _ _ (rtoks g (pts (qtts (snd ch))))); [apply clex_type; exact Hl| |].
      * apply (cslex_cons any any _ _ [P ">"; P ";"]); [apply clex_channel_close| |intros; exact Logic.I].
        apply (cslex_cons any any _ _ []); [apply (clex_pieces any [Sp [nl]]); reflexivity|apply cslex_nil|intros; exact Logic.I].
      * intros x _. change (Pc (">" :: ";" :: nl :: x)). apply Pc_gt, Pc_cons; [reflexivity|discriminate].
    + intros x _. rewrite text_cons. cbn [chunk_text]. rewrite <- app_assoc. apply starts_type_app, render_head. exact Hl.
  - cbn [app]. rewrite <- app_assoc. reflexivity. Qed.

Lemma value_members_cslex g c : forall ps, forallb (fun p => leaves_ok g (pts (qtts (snd p)))) ps = true ->
  cslex any (flat_map (fun p => member_chunks (param_ser g c (fst p)) (is_option (snd p)) (ts_text g (snd p))) ps)
            (flat_map member_toks (map (param_member g c) ps)).
Proof. induction ps as [|p ps IH]; intros H; [apply cslex_nil|]. cbn [forallb map flat_map] in *. apply andb_true_iff in H as [Hp Hr].
  apply (cslex_app any any); [apply member_cslex; exact Hp|apply IH; exact Hr|intros; exact Logic.I]. Qed.
Lemma channel_members_cslex g c : forall chs, forallb (fun ch => leaves_ok g (pts (qtts (snd ch)))) chs = true ->
  cslex any (flat_map (channel_member g c) chs) (flat_map member_toks (map (channel_member_g g c) chs)).
Proof. induction chs as [|ch chs IH]; intros H; [apply cslex_nil|]. cbn [forallb map flat_map] in *. apply andb_true_iff in H as [Hp Hr].
  apply (cslex_app any any); [apply channel_member_cslex; exact Hp|apply IH; exact Hr|intros; exact Logic.I]. Qed.

Lemma index_sig_cslex : cslex any [F " [key: string]: unknown; } "] (index_tail []).
Proof. eapply cslex_eq.
  - apply (cslex_cons any any _ [] (index_tail [])); [|apply cslex_nil|intros; exact Logic.I].
    apply (clex_pieces any [Sp [" "; "["]; W (L "key"); Sp [":"; " "]; W (L "string"); Sp ["]"; ":"; " "]; W (L "unknown"); Sp [";"; " "; "}"; " "]]); reflexivity.
  - reflexivity. Qed.

Definition cmd_leaves_ok (g : c_cfg) (c : c_cmd) : bool :=
  forallb (fun p => leaves_ok g (pts (qtts (snd p)))) (c_values c) && forallb (fun ch => leaves_ok g (pts (qtts (snd ch)))) (c_channels c).
Theorem params_iface_cslex g c :
  cmd_has c = true -> is_binding_name (ty_ts c ++ L "Params") = true -> cmd_leaves_ok g c = true ->
  cslex any (params_iface_chunks g c) (cmd_params_toks g c).
Proof. intros Hh Hn Hl. apply andb_true_iff in Hl as [Hv Hc]. unfold params_iface_chunks. unfold cmd_has in Hh. rewrite Hh.
  unfold cmd_params_toks, params_iface_toks. rewrite flat_map_app, <- app_assoc.
  apply (cslex_app any any).
  - eapply cslex_eq.
    + apply (cslex_cons any any (F "export interface ") _ [KId (L "export"); KId (L "interface")]);
        [apply (clex_pieces any [W (L "export"); Sp [" "]; W (L "interface"); Sp [" "]]); reflexivity| |intros; exact Logic.I].
      apply (cslex_cons bnd any (Hole HTyName _) _ [KId (ty_ts c ++ L "Params")]); [apply (clex_hole HTyName); [exact Logic.I|exact Hn]| |intros x _; reflexivity].
      apply (cslex_cons any any (F " {") _ [P "{"]); [apply (clex_pieces any [Sp [" "; "{"]]); reflexivity|apply cslex_nil|intros; exact Logic.I].
    + reflexivity.
  - apply (cslex_app any any); [apply value_members_cslex; exact Hv| |intros; exact Logic.I].
    apply (cslex_app any any); [apply channel_members_cslex; exact Hc|apply index_sig_cslex|intros; exact Logic.I].
  - intros; exact Logic.I. Qed.

Lemma flat_members_ok ms : Forall (fun m => gkey_ok (gm_key m) = true /\ forallb simple_tk (gm_toks m) = true) ms ->
  forallb tok_ok (flat_map member_toks ms) = true.
Proof. induction 1 as [|m ms [Hk Ht] _ IH]; [reflexivity|]. cbn [flat_map]. rewrite forallb_app, IH, andb_true_r. apply member_toks_ok; assumption. Qed.
Lemma cmd_params_toks_ok g c : forallb tok_ok (cmd_params_toks g c) = true.
Proof. unfold cmd_params_toks, params_iface_toks. rewrite !forallb_app. rewrite flat_members_ok; [reflexivity|].
  apply Forall_app. split; rewrite Forall_forall; intros m Hm; apply in_map_iff in Hm as [p [<- _]]; (split; [apply key_g_ok|]); cbn [param_member channel_member_g gm_toks].
  - apply rtoks_simple.
  - unfold chan_toks. cbn [forallb simple_tk andb]. rewrite forallb_app, rtoks_simple. reflexivity. Qed.

Definition cmd_in_budget (g : c_cfg) (c : c_cmd) : bool :=
  is_binding_name (ty_ts c ++ L "Params") && forallb (fun p => type_in_budget g (snd p)) (c_values c) && forallb (fun ch => chan_in_budget g (snd ch)) (c_channels c).
Theorem params_item_text_ok g c : cmd_has c = true -> cmd_in_budget g c = true -> item_text_ok (params_iface_chunks g c).
Proof. intros Hh Hb. unfold cmd_in_budget in Hb. apply andb_true_iff in Hb as [Hb Hc]. apply andb_true_iff in Hb as [Hn Hv].
  exists (cmd_params_toks g c). split.
  - apply params_iface_cslex; [exact Hh|exact Hn|]. unfold cmd_leaves_ok. apply andb_true_iff. split; rewrite forallb_forall in *; intros p Hin.
    + specialize (Hv p Hin). unfold type_in_budget in Hv. apply andb_true_iff in Hv as [H _]. exact H.
    + specialize (Hc p Hin). unfold chan_in_budget in Hc. apply andb_true_iff in Hc as [H _]. exact H.
  - split; [unfold cmd_params_toks, params_iface_toks; discriminate|]. split; [apply cmd_params_toks_ok|].
    intros rest. destruct (params_interface_tokens_ok g c rest Hn Hv Hc) as [asts [E Hok]]. eexists. split; eassumption. Qed.

(* ---------------------------------------------------------------- the channel import and the whole plain-mode types.ts *)
Definition channel_import_toks : list tk :=
  [KId (L "import"); KId (L "type"); P "{"; KId (L "Channel"); P "}"; KId (L "from"); KStr SQ (L "@tauri-apps/api/core"); P ";"].
Lemma channel_import_text_ok : item_text_ok channel_import.
Proof. exists channel_import_toks. split; [|split; [discriminate|split; [reflexivity|]]].
  - eapply cslex_eq; [apply (cslex_cons any any _ [] channel_import_toks); [|apply cslex_nil|intros; exact Logic.I]|apply app_nil_r].
    apply clex_fixed. intros Q.
    change (L "import type { Channel } from '@tauri-apps/api/core'; ")
      with (pieces_text [W (L "import"); Sp [" "]; W (L "type"); Sp [" "; "{"; " "]; W (L "Channel"); Sp [" "; "}"; " "]; W (L "from"); Sp [" "]] ++
            ("'" :: L "@tauri-apps/api/core" ++ ["'"]) ++ [";"; " "]).
    apply (lexes_app any Q _ _ [KId (L "import"); KId (L "type"); P "{"; KId (L "Channel"); P "}"; KId (L "from")] [KStr SQ (L "@tauri-apps/api/core"); P ";"]);
      [apply (lexes_pieces any); reflexivity| |intros; exact Logic.I].
    apply (lexes_app any Q _ _ [KStr SQ (L "@tauri-apps/api/core")] [P ";"]); [apply lexes_str_body; [right; reflexivity|reflexivity]|apply (lexes_sp Q [";"; " "]); reflexivity|intros; exact Logic.I].
  - intros rest. eexists. split; [reflexivity|reflexivity]. Qed.

(* a possibly empty item (a command without parameters has no params interface) *)
Lemma items_c01_ok_opt items : Forall (fun cs => cs = [] \/ item_text_ok cs) items -> c01_ok (text (concat items)) = true.
Proof. intros HF.
  assert (concat items = concat (filter (fun cs => nonempty cs) items)) as E.
  { induction items as [|i r IH]; [reflexivity|]. inversion HF as [|? ? Hi Hr]; subst. cbn [concat filter]. destruct i as [|c i']; cbn [nonempty app concat]; [apply IH; exact Hr|].
    rewrite <- IH by exact Hr. reflexivity. }
  rewrite E. apply items_c01_ok. rewrite Forall_forall in *. intros cs Hin. apply filter_In in Hin as [Hin Hne].
  destruct (HF cs Hin) as [->|H]; [discriminate|exact H]. Qed.

(* C01_skeleton_full_statement for the plain-mode types.ts: the prefix followed by ANY selection of the model's items
   (params interfaces, candidate type declarations) in ANY order is accepted and well formed, for every project
   whose declared names are binding names and whose types have identifier leaves and nesting within the parser budget *)
Definition plain_types_in_budget (g : c_cfg) (ss : list c_struct) (cmds : list c_cmd) : bool :=
  forallb (struct_in_budget g) ss && forallb (fun c => negb (cmd_has c) || cmd_in_budget g c) cmds.
Theorem plain_types_text_ok g ss cmds items :
  plain_types_in_budget g ss cmds = true ->
  (forall cs, In cs items -> In cs (fl_required (plain_types g ss cmds)) \/ In cs (fl_optional (plain_types g ss cmds))) ->
  c01_ok (text (fl_prefix (plain_types g ss cmds) ++ concat items)) = true.
Proof. intros Hb Hin. apply andb_true_iff in Hb as [Hs Hc].
  assert (Forall (fun cs => cs = [] \/ item_text_ok cs) items) as HF.
  { rewrite Forall_forall. intros cs Hcs. destruct (Hin cs Hcs) as [H|H]; cbn [plain_types fl_required fl_optional] in H; apply in_map_iff in H as [x [<- Hx]].
    - rewrite forallb_forall in Hc. specialize (Hc x Hx). destruct (cmd_has x) eqn:Eh; cbn [negb orb] in Hc.
      + right. apply params_item_text_ok; assumption.
      + left. unfold params_iface_chunks. unfold cmd_has in Eh. rewrite Eh. reflexivity.
    - right. rewrite forallb_forall in Hs. specialize (Hs x Hx). unfold struct_in_budget in Hs. apply andb_true_iff in Hs as [Hn Hbud].
      apply struct_item_text_ok; [exact Hn|]. intros He. rewrite He in Hbud. exact Hbud. }
  cbn [plain_types fl_prefix]. destruct (any_channels cmds).
  - change (channel_import ++ concat items) with (concat (channel_import :: items)). apply items_c01_ok_opt. constructor; [right; apply channel_import_text_ok|exact HF].
  - cbn [app]. apply items_c01_ok_opt. exact HF. Qed.

Lemma plain_types_example :
  plain_types_in_budget g0 [ex_struct; ex_enum; ex_empty_enum] [ex_cmd] = true /\
  lexed (params_iface_chunks g0 ex_cmd) = cmd_params_toks g0 ex_cmd /\
  c01_ok (text (all_chunks (plain_types g0 [ex_struct; ex_enum; ex_empty_enum] [ex_cmd]))) = true.
Proof. vm_compute. repeat split. Qed.
