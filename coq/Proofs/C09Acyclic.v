(* C09: when the readers agree on defined names (agree_b), a cycle of the recorded dependency graph is a
   cycle of the type graph of the property text; so acyclicity of the latter is enough. *)
From Coq Require Import String Ascii.
From Coq Require Import List Arith Lia Bool.
Require Import TT.Model.Base TT.Model.Str TT.Model.C07TypeParse TT.Model.C07Harvest TT.Model.C07Worklist TT.Model.C07Reach TT.Model.Topo.
Require Import TT.Spec.C07Spec TT.Spec.C09Spec.
Require Import TT.Proofs.TopoProofs TT.Proofs.C20Extra TT.Proofs.WorklistSpike TT.Proofs.C07Proofs TT.Proofs.C07Concrete TT.Proofs.C09Proofs.
Import ListNotations.

Lemma deps_map_notin (f : str -> list str) : forall l u, ~ In u l -> deps (map (fun n => (n, f n)) l) u = [].
Proof. induction l as [|a l IH]; intros u Hu; auto. simpl.
  destruct (eq_dec u a) as [->|Hne]; [exfalso; apply Hu; left; auto|]. apply IH. intros H; apply Hu; right; auto. Qed.

Lemma reach1_src (g : Topo.graph str) a b : reach1 g a b -> exists x, edge g a x.
Proof. intros H. inversion H; subst; eauto. Qed.

Section Acyclic.
Variable o : orders.
Hypothesis Ho : ord_ok o.
Variable p : project.
Hypothesis Hagree : agree_b p = true.
Variable disc : list str.
Hypothesis Hdisc : discovered o p = Some disc.

Lemma disc_resolvable x : In x disc -> resolvable p x = true.
Proof. intros Hx. unfold discovered in Hdisc.
  destruct (work_exact str str_dec _ _ _ (resolvable_indexed p) _ _ _ Hdisc) as [_ Hin]. apply Hin in Hx. apply Hx. Qed.

Lemma edge_src_disc u v : edge (dep_graph o p disc) u v -> In u disc /\ In v (deps_of p u).
Proof. unfold edge, dep_graph. intros H. destruct (in_dec str_dec u disc) as [Hu|Hu].
  - rewrite (deps_map (fun n => o S_GRAPH n (deps_of p n))) in H by auto. split; auto.
    apply (proj2 (Ho S_GRAPH u (deps_of p u)) v); auto.
  - rewrite (deps_map_notin (fun n => o S_GRAPH n (deps_of p n))) in H by auto. contradiction. Qed.

Lemma spec_name_of x : spec_defined p x = true -> In x (spec_names p).
Proof. unfold spec_defined, spec_lookup, spec_names. destruct (find _ (spec_defs p)) as [d|] eqn:E; [|discriminate]. intros _.
  apply find_some in E as [Hin Hc]. apply andb_true_iff in Hc as [Hs Hn]. apply str_eqb_true in Hn. subst x.
  apply in_map. apply filter_In. auto. Qed.

Lemma edge_transfer u v : In u disc -> In v disc -> In v (deps_of p u) -> edge (spec_graph p) u v.
Proof.
  intros Hu Hv Hd. pose proof (disc_resolvable _ Hu) as Hru. pose proof (disc_resolvable _ Hv) as Hrv.
  pose proof (defined_agree p Hagree) as Hda.
  unfold edge, spec_graph. rewrite (deps_map (spec_edges p)) by (apply spec_name_of; rewrite <- Hda; auto).
  unfold spec_edges. apply filter_In. split; [|rewrite <- Hda; auto].
  pose proof Hagree as Ha. unfold agree_b in Ha. apply andb_true_iff in Ha as [Ha _]. apply andb_true_iff in Ha as [_ Ha2].
  rewrite forallb_forall in Ha2. specialize (Ha2 u (in_dnames p _ Hru)). rewrite forallb_forall in Ha2.
  specialize (Ha2 v (in_dnames p _ Hrv)). apply andb_true_iff in Ha2 as [H1 _]. apply (smemb_eq_iff _ _ _ H1). auto.
Qed.

Lemma reach1_transfer a b : reach1 (dep_graph o p disc) a b -> In b disc -> reach1 (spec_graph p) a b.
Proof.
  induction 1 as [a b He|a b c He Hr IH]; intros Hb.
  - destruct (edge_src_disc _ _ He) as [Ha Hd]. constructor 1. apply edge_transfer; auto.
  - destruct (edge_src_disc _ _ He) as [Ha Hd].
    destruct (reach1_src _ _ _ Hr) as (x & Hx). destruct (edge_src_disc _ _ Hx) as [Hbd _].
    econstructor 2; [apply edge_transfer; eauto|apply IH; auto].
Qed.

Theorem recorded_acyclic : acyclic (spec_graph p) -> acyclic (dep_graph o p disc).
Proof. intros Hac n Hn. apply (Hac n). apply reach1_transfer; auto.
  destruct (reach1_src _ _ _ Hn) as (x & Hx). apply (edge_src_disc _ _ Hx). Qed.
End Acyclic.

Theorem zod_order_spec o p out : ord_ok o -> agree_b p = true -> acyclic (spec_graph p) ->
  edges_recorded_b p = true -> emitted_zod o p = Some out ->
  NoDup out /\ forall u v, In u out -> In v out -> In v (schema_refs p u) -> idx_before out v u.
Proof.
  intros Ho Ha Hac Hrec He. pose proof He as He'. unfold emitted_zod in He'.
  destruct (discovered o p) as [disc|] eqn:Ed; [|discriminate].
  apply (zod_order o Ho p disc out Ed); auto. apply (recorded_acyclic o Ho p Ha disc Ed Hac).
Qed.
