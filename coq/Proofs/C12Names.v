(* C12: the payload condition reduced to a condition on payload type NAMES, using the payload classes *)
From Coq Require Import String Ascii List Arith Lia Bool.
Require Import TT.Model.Str TT.Model.TypeParse TT.Spec.TsLex TT.Spec.TsModule TT.Spec.TsObs TT.Model.Pipeline TT.Model.Events TT.Spec.C12Spec.
Require Import TT.Proofs.StrFacts TT.Proofs.C12Proofs TT.Proofs.C12Exact TT.Proofs.C12Payload TT.Proofs.C12Parse TT.Proofs.C12Lex TT.Proofs.C12Legal TT.Proofs.C12Full.
Import ListNotations.
Local Open Scope list_scope.

Definition unit_or_simple (p : expr) (env : renv) (sy : symtab) : Prop :=
  match evident_type p env with
  | Some t => (t = QTuple [] /\ infer_payload p sy = L "()") \/ (simple_type t = true /\ infer_payload p sy = type_name t)
  | None => infer_payload p sy = unknown end.

Lemma payload_core_simple : forall p env sy,
  kfp (core (S (xdepth p)) p) env sy = false -> degenerate (core (S (xdepth p)) p) = false -> unit_or_simple p env sy.
Proof.
  induction p as [r IHr m args|segs|b nm|l|path|u IHu|f args|es|ss|th el|arms|ss|ss|ss|x|x|]; intros env sy Hk Hd;
    unfold unit_or_simple; cbn [evident_type infer_payload]; try reflexivity.
  - destruct (str_eqb m (L "clone")) eqn:Em; [|reflexivity].
    apply IHr.
    + change (xdepth (XMethod r m args)) with (S (xdepth r)) in Hk. cbn [core] in Hk. rewrite Em in Hk. exact Hk.
    + change (xdepth (XMethod r m args)) with (S (xdepth r)) in Hd. cbn [core] in Hd. rewrite Em in Hd. exact Hd.
  - cbn [xdepth core] in Hk, Hd. destruct segs as [|x [|y r]].
    + reflexivity.
    + cbn [kfp] in Hk. destruct (lookup x sy) as [u|] eqn:El; [|discriminate Hk].
      destruct (rlookup x env) as [[t| |]|] eqn:Er; try discriminate Hk.
      apply orb_false_iff in Hk. destruct Hk as [Hk1 Hk]. apply negb_false_iff in Hk. rewrite Hk in Hk1. rewrite andb_true_r in Hk1.
      apply negb_false_iff in Hk1. apply str_eqb_eq in Hk. right. split; assumption.
    + reflexivity.
  - destruct l; try (right; split; reflexivity). reflexivity.
  - destruct path as [|a r]; [discriminate Hd|]. right. split; reflexivity.
  - apply IHu.
    + change (xdepth (XRef u)) with (S (xdepth u)) in Hk. rewrite core_ref in Hk. exact Hk.
    + change (xdepth (XRef u)) with (S (xdepth u)) in Hd. rewrite core_ref in Hd. exact Hd.
  - destruct es as [|e0 r]; [left; split; reflexivity|]. reflexivity.
Qed.

Lemma expect_simple mp : forall t, simple_type t = true -> expect_ty_m mp t = expect_ty_m mp (QPath [] (type_name t) false []).
Proof.
  induction t as [segs n angle args|u IH|ts]; intro H.
  - unfold simple_type in H. cbn [strip_ref] in H. destruct angle; [discriminate H|]. destruct args; [|discriminate H]. reflexivity.
  - cbn [expect_ty_m type_name]. apply IH. exact H.
  - discriminate H.
Qed.

(* the condition on one payload type name: its rendered text (after type_mappings) has one of the two shapes
   and denotes the translation of the plain type of that name *)
Definition name_ok (mp : list (str * str)) (n : str) : bool :=
  let x := pty_of_text (payload_ts (mapped_rust mp n)) in
  pty_ok x && ty_eqb (expect_ty_m mp (QPath [] n false [])) (pty_ty x).
Definition unknown_ok (mp : list (str * str)) : bool := match lookup unknown mp with None => true | Some _ => false end.
Definition site_name_ok (mp : list (str * str)) (s : site) : bool :=
  match evident_type (s_payload s) (s_env s) with
  | None | Some (QTuple []) => true                 (* nothing evident / the unit value: no type name involved *)
  | Some _ => name_ok mp (infer_payload (s_payload s) (s_sy s)) end.

Lemma site_ok_of_names mp s : kf_payload s = false -> degenerate (pcore s) = false -> unknown_ok mp = true ->
  site_name_ok mp s = true -> site_payload_ok mp s = true.
Proof.
  intros Hk Hd Hu Hn. rewrite kf_payload_kfp in Hk. pose proof (payload_core_simple (s_payload s) (s_env s) (s_sy s) Hk Hd) as H.
  unfold unit_or_simple in H. unfold site_payload_ok, site_text, expected_payload_m. unfold site_name_ok in Hn.
  unfold unknown_ok in Hu. destruct (lookup unknown mp) eqn:Elu; [discriminate Hu|].
  destruct (evident_type (s_payload s) (s_env s)) as [t|] eqn:Ev.
  - destruct H as [[-> Hi]|[Hs Hi]].
    + rewrite Hi. vm_compute. reflexivity.
    + rewrite (expect_simple mp t Hs). rewrite Hi in *.
      assert (Hn' : name_ok mp (type_name t) = true).
      { destruct t as [segs n angle args|u|ts]; try exact Hn. destruct ts; [discriminate Hs|exact Hn]. }
      exact Hn'.
  - rewrite H. unfold mapped_rust. change (prim_of unknown) with (@None str). rewrite Elu. vm_compute. reflexivity.
Qed.

(* the restriction of C12_full expressed on payload type names *)
Definition names_dom (p : project) : bool :=
  unknown_ok (p_mappings p) && forallb (fun s => negb (degenerate (pcore s)) && site_name_ok (p_mappings p) s) (project_sites p).
Lemma payload_dom_of_names p : kf_project p = false -> names_dom p = true -> payload_dom p = true.
Proof.
  intros Hk Hn. unfold kf_project in Hk. apply orb_false_iff in Hk. destruct Hk as [Hk _]. apply orb_false_iff in Hk. destruct Hk as [_ Hk].
  unfold names_dom in Hn. apply andb_true_iff in Hn. destruct Hn as [Hu Hn]. unfold payload_dom. rewrite forallb_forall in *. intros s Hs.
  specialize (Hn s Hs). apply andb_true_iff in Hn. destruct Hn as [Hd Hn]. apply negb_true_iff in Hd.
  apply site_ok_of_names; [|exact Hd|exact Hu|exact Hn].
  destruct (kf_payload s) eqn:E; [|reflexivity]. assert (existsb kf_payload (project_sites p) = true) by (apply existsb_exists; exists s; auto). congruence.
Qed.
Theorem full_on_names_dom : forall p, in_domain p = true -> kf_project p = false -> names_dom p = true -> model_complaints p = [].
Proof. intros p Hd Hk Hn. apply full_on_payload_dom; [exact Hd|exact Hk|apply payload_dom_of_names; assumption]. Qed.

(* ---- names for which the condition holds ---- *)
Require Import TT.Model.Render TT.Spec.C05Spec TT.Proofs.TypeParseProofs TT.Proofs.C12Prefix.
Local Open Scope string_scope.
Definition prim_names : list string :=
  ["String"; "str"; "i8"; "i16"; "i32"; "i64"; "i128"; "isize"; "u8"; "u16"; "u32"; "u64"; "u128"; "usize"; "f32"; "f64"; "bool"].
Local Close Scope string_scope.
Lemma named_in n l : Events.named n l = true -> In n (map L l).
Proof. unfold Events.named. intro H. apply existsb_exists in H. destruct H as [x [Hx E]]. apply str_eqb_eq in E. subst n. apply in_map, Hx. Qed.
Lemma prim_ts_cases n p : prim_ts n = Some p -> In n (map L prim_names).
Proof.
  unfold prim_ts. intro H.
  destruct (Events.named n ["String"; "str"]%string) eqn:E1.
  { apply named_in in E1. cbn [map In] in E1. cbn [map prim_names In]. tauto. }
  destruct (Events.named n ["i8"; "i16"; "i32"; "i64"; "i128"; "isize"; "u8"; "u16"; "u32"; "u64"; "u128"; "usize"; "f32"; "f64"]%string) eqn:E2.
  { apply named_in in E2. cbn [map In] in E2. cbn [map prim_names In]. tauto. }
  destruct (Events.named n ["bool"]%string) eqn:E3.
  { apply named_in in E3. cbn [map In] in E3. cbn [map prim_names In]. tauto. }
  discriminate H.
Qed.
Lemma name_ok_prim mp n p : prim_ts n = Some p -> name_ok mp n = true.
Proof.
  intro H. apply prim_ts_cases in H. cbn [map prim_names In] in H.
  repeat (destruct H as [<-|H]; [vm_compute; reflexivity|]). destruct H.
Qed.
Definition container (n : str) : bool := Events.named n ["Vec"; "HashSet"; "BTreeSet"; "Option"; "HashMap"; "BTreeMap"; "Result"]%string.
Lemma pty_of_custom n : pty_of_text (L "types." ++ n) = PCustom n.
Proof. reflexivity. Qed.
Lemma expect_custom mp n : prim_ts n = None -> container n = false -> lookup n mp = None ->
  expect_ty_m mp (QPath [] n false []) = TyRef [L "types"; n] [].
Proof.
  intros Hp Hc Hl. cbn [expect_ty_m]. rewrite Hp. unfold container, Events.named in Hc. cbn [existsb] in Hc.
  repeat (apply orb_false_iff in Hc; destruct Hc as [?E Hc]).
  unfold Events.named. cbn [existsb]. rewrite E, E0, E1, E2, E3, E4, E5. cbn [orb]. rewrite Hl. reflexivity.
Qed.
(* an unmapped custom type name *)
Lemma name_ok_custom mp n : ident n -> idstr n -> prim_of n = None -> builtin n = false -> prim_ts n = None ->
  container n = false -> lookup n mp = None -> is_ts_identifier n = true -> str_eqb n (L "listen") = false -> name_ok mp n = true.
Proof.
  intros Hi Hs Hp Hb Hpt Hc Hl Hid Hli. unfold name_ok. cbv zeta. unfold mapped_rust. rewrite Hp, Hl.
  rewrite (payload_ts_custom n Hi Hs Hp Hb), pty_of_custom. cbn [pty_ok]. rewrite Hid, Hli. cbn [negb andb].
  rewrite (expect_custom mp n Hpt Hc Hl). exact (ty_eqb_refl_pty (PCustom n)).
Qed.
