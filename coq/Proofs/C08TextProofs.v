(* C08 round 7: the generated text is a function of the view; the fingerprint covers the view. *)
From Coq Require Import String Ascii List Arith Lia Bool.
Require Import TT.Model.Str TT.Model.TypeParse TT.Model.Render TT.Spec.TsLex.
Require Import TT.Model.C08Fingerprint TT.Model.C08Text TT.Proofs.C08FpProofs.
Import ListNotations.
Local Open Scope list_scope.

(* ---- list plumbing ---- *)
Lemma flat_map_if_filter {A B} (sk : A -> bool) (g : A -> list B) l :
  flat_map (fun x => if sk x then [] else g x) l = flat_map g (filter (fun x => negb (sk x)) l).
Proof. induction l as [|x l IH]; cbn [flat_map filter]; [reflexivity|].
  destruct (sk x); cbn [negb flat_map app]; rewrite IH; reflexivity. Qed.

Lemma flat_map_map' {A B C} (f : A -> B) (g : B -> list C) l : flat_map g (map f l) = flat_map (fun x => g (f x)) l.
Proof. induction l as [|x l IH]; cbn [map flat_map]; [reflexivity|]. rewrite IH. reflexivity. Qed.

Lemma map_eq_transfer2 {A A' B C} (f : A -> B) (f' : A' -> B) (g : A -> C) (g' : A' -> C) :
  (forall x y, f x = f' y -> g x = g' y) -> forall l l', map f l = map f' l' -> map g l = map g' l'.
Proof. intros H. induction l as [|x l IH]; intros [|y l'] E; cbn [map] in *; try discriminate; [reflexivity|].
  inversion E. f_equal; auto. Qed.

Lemma map_inj_eq {A B} (f : A -> B) : (forall x y, f x = f y -> x = y) -> forall l l', map f l = map f l' -> l = l'.
Proof. intros H l l' E. rewrite <- (map_id l), <- (map_id l'). revert E. apply map_eq_transfer2. exact H. Qed.

Lemma flat_map_eq_transfer2 {A A' B C} (f : A -> B) (f' : A' -> B) (g : A -> list C) (g' : A' -> list C) :
  (forall x y, f x = f' y -> g x = g' y) -> forall l l', map f l = map f' l' -> flat_map g l = flat_map g' l'.
Proof. intros H l l' E. rewrite !flat_map_concat_map. f_equal. revert E. apply map_eq_transfer2. exact H. Qed.

Lemma insert_map {A B} (f : A -> B) (leA : A -> A -> bool) (leB : B -> B -> bool) :
  (forall x y, leA x y = leB (f x) (f y)) -> forall x l, map f (insert leA x l) = insert leB (f x) (map f l).
Proof. intros H x. induction l as [|y r IH]; cbn [insert map]; [reflexivity|]. rewrite <- H.
  destruct (leA x y); cbn [map]; [reflexivity|]. rewrite IH. reflexivity. Qed.
Lemma isort_map {A B} (f : A -> B) (leA : A -> A -> bool) (leB : B -> B -> bool) :
  (forall x y, leA x y = leB (f x) (f y)) -> forall l, map f (isort leA l) = isort leB (map f l).
Proof. intros H. induction l as [|x r IH]; cbn [isort map]; [reflexivity|]. rewrite (insert_map f leA leB H), IH. reflexivity. Qed.

Lemma pick_map {A B} (f : A -> B) d l w : pick (f d) (map f l) w = map f (pick d l w).
Proof. unfold pick. rewrite map_map. apply map_ext. intros i. apply map_nth. Qed.

Lemma list5_inj {A} (a b c d e a' b' c' d' e' : A) :
  [a; b; c; d; e] = [a'; b'; c'; d'; e'] -> a = a' /\ b = b' /\ c = c' /\ d = d' /\ e = e'.
Proof. intros H. inversion H. repeat split; assumption. Qed.

(* ---- the analysis commutes with the order of discovery ---- *)
Lemma analyse_abs_structs w p : a_structs (analyse w (abs_project p)) = map abs_struct' (t_structs w p).
Proof. unfold analyse, abs_project, t_structs. cbn [a_structs]. change empty_file with (abs_file empty_tfile).
  rewrite pick_map, flat_map_map'. generalize (pick empty_tfile p (w_files w)) as fs.
  induction fs as [|f fs IH]; cbn [flat_map]; [reflexivity|]. rewrite map_app, IH. f_equal.
  unfold abs_file. cbn [sf_structs]. rewrite map_map. reflexivity. Qed.
Lemma analyse_abs_cmds w p : a_cmds (analyse w (abs_project p)) = map abs_cmd' (t_cmds w p).
Proof. unfold analyse, abs_project, t_cmds. cbn [a_cmds]. change empty_file with (abs_file empty_tfile).
  rewrite pick_map, flat_map_map'. generalize (pick empty_tfile p (w_files w)) as fs.
  induction fs as [|f fs IH]; cbn [flat_map]; [reflexivity|]. rewrite map_app, IH. f_equal.
  unfold abs_file. cbn [sf_cmds]. rewrite map_map. reflexivity. Qed.

(* ---- the text-level generator models factor through the analysed data ---- *)
Lemma struct_factor path s : P.struct_toks s = ST (abs_struct path s).
Proof. unfold P.struct_toks, ST, ST3, abs_struct. cbn [s_name s_fields s_rename_all].
  rewrite flat_map_if_filter, flat_map_map'. reflexivity. Qed.

Lemma params_factor path t : P.params_iface_toks (t_def t) = PT (abs_cmd path t).
Proof. unfold P.params_iface_toks, PT, PT3, abs_cmd. cbn [c_name c_params c_chans].
  destruct (P.value_params (t_def t)) as [|v vs], (P.channels (t_def t)) as [|ch cs]; try reflexivity.
  - change (map abs_chan (ch :: cs)) with (map abs_chan (ch :: cs)). cbn [map].
    change (abs_chan ch :: map abs_chan cs) with (map abs_chan (ch :: cs)). rewrite flat_map_map'. reflexivity.
  - cbn [map]. change (abs_param v :: map abs_param vs) with (map abs_param (v :: vs)). rewrite flat_map_map'. reflexivity.
  - cbn [map]. change (abs_param v :: map abs_param vs) with (map abs_param (v :: vs)).
    change (abs_chan ch :: map abs_chan cs) with (map abs_chan (ch :: cs)). rewrite !flat_map_map'. reflexivity. Qed.

Lemma wrapper_factor path t : P.wrapper_toks (t_def t) = WT (abs_cmd path t).
Proof. unfold P.wrapper_toks, WT, WT4, abs_cmd. cbn [c_name c_params c_chans c_ret]. rewrite !map_length. reflexivity. Qed.

Lemma has_chan_factor (X : list (str * tfn)) :
  existsb (fun f => negb (Nat.eqb (List.length (P.channels f)) 0)) (map (fun x => t_def (snd x)) X) = has_chan_a (map abs_cmd' X).
Proof. unfold has_chan_a. induction X as [|x X IH]; [reflexivity|]. cbn [map existsb]. rewrite IH. f_equal.
  unfold abs_cmd', abs_cmd. cbn [c_chans]. rewrite map_length. reflexivity. Qed.

Lemma types_factor (S : list (str * P.struct_def)) (X : list (str * tfn)) :
  P.types_toks (map snd S) (map (fun x => t_def (snd x)) X) = types_toks_a (map abs_struct' S) (map abs_cmd' X).
Proof. unfold P.types_toks, types_toks_a. rewrite has_chan_factor, !flat_map_map'. f_equal. f_equal.
  - apply flat_map_ext. intros x. apply struct_factor.
  - apply flat_map_ext. intros x. apply params_factor. Qed.

Lemma commands_factor (X : list (str * tfn)) :
  P.commands_toks (map (fun x => t_def (snd x)) X) = commands_toks_a (map abs_cmd' X).
Proof. unfold P.commands_toks, commands_toks_a. rewrite has_chan_factor, !flat_map_map'. do 3 f_equal.
  apply flat_map_ext. intros x. apply wrapper_factor. Qed.

Lemma gen_structs_sorted w p : map abs_struct' (isort sleb (t_structs w p)) = a_structs_sorted (analyse w (abs_project p)).
Proof. unfold a_structs_sorted. rewrite analyse_abs_structs. apply isort_map. intros x y. reflexivity. Qed.
Lemma gen_cmds_sorted w p root :
  map abs_cmd' (isort (cleb root) (t_cmds w p)) = a_cmds_sorted root (analyse w (abs_project p)).
Proof. unfold a_cmds_sorted. rewrite analyse_abs_cmds. apply isort_map. intros x y. reflexivity. Qed.

Theorem types_ts_of_analysis w p c :
  types_ts w p c = types_toks_a (a_structs_sorted (analyse w (abs_project p))) (a_cmds_sorted (g_ppath c) (analyse w (abs_project p))).
Proof. unfold types_ts, gen_structs, gen_cmds. rewrite types_factor, gen_structs_sorted, gen_cmds_sorted. reflexivity. Qed.
Theorem commands_ts_of_analysis w p c :
  commands_ts w p c = commands_toks_a (a_cmds_sorted (g_ppath c) (analyse w (abs_project p))).
Proof. unfold commands_ts, gen_cmds. rewrite commands_factor, gen_cmds_sorted. reflexivity. Qed.

(* ---- the hashed data determine the text of every item ---- *)
Lemma hf_inj f f' : hf f = hf f' -> f = f'.
Proof. destruct f, f'. unfold hf. cbn [f_name f_type f_opt f_pub f_rename f_valid]. intros H. inversion H.
  repeat match goal with E : topt _ = topt _ |- _ => apply topt_inj in E end. subst. reflexivity. Qed.
Lemma hp_inj p p' : hp p = hp p' -> p = p'.
Proof. destruct p, p'. unfold hp. cbn [p_name p_type p_opt p_rename]. intros H. inversion H.
  repeat match goal with E : topt _ = topt _ |- _ => apply topt_inj in E end. subst. reflexivity. Qed.
Lemma hch_inj k k' : hch k = hch k' -> k = k'.
Proof. destruct k, k'. unfold hch. cbn [ch_param ch_msg]. intros H. inversion H. subst. reflexivity. Qed.

Lemma hs_determines r r' s s' : hs r s = hs r' s' ->
  s_name s = s_name s' /\ s_fields s = s_fields s' /\ s_rename_all s = s_rename_all s'.
Proof. unfold hs. intros H. apply TN_inj, list5_inj in H. destruct H as (Hn & _ & _ & Hf & Hr).
  apply TA_inj in Hn. apply TN_inj in Hf. apply (map_inj_eq hf hf_inj) in Hf. apply topt_inj in Hr. auto. Qed.
Lemma hc_determines r r' k k' : hc r k = hc r' k' ->
  c_name k = c_name k' /\ c_params k = c_params k' /\ c_ret k = c_ret k' /\ c_chans k = c_chans k'.
Proof. unfold hc. intros H. apply TN_inj, list7_inj in H. destruct H as (Hn & _ & Hp & Hr & _ & Hc & _).
  apply TA_inj in Hn. apply TA_inj in Hr. apply TN_inj in Hp. apply TN_inj in Hc.
  apply (map_inj_eq hp hp_inj) in Hp. apply (map_inj_eq hch hch_inj) in Hc. auto. Qed.

Lemma hs_ST r r' s s' : hs r s = hs r' s' -> ST s = ST s'.
Proof. intros H. apply hs_determines in H. destruct H as (Hn & Hf & Hr). unfold ST. rewrite Hn, Hf, Hr. reflexivity. Qed.
Lemma hc_PT r r' k k' : hc r k = hc r' k' -> PT k = PT k'.
Proof. intros H. apply hc_determines in H. destruct H as (Hn & Hp & Hr & Hc). unfold PT. rewrite Hn, Hp, Hc. reflexivity. Qed.
Lemma hc_WT r r' k k' : hc r k = hc r' k' -> WT k = WT k'.
Proof. intros H. apply hc_determines in H. destruct H as (Hn & Hp & Hr & Hc). unfold WT. rewrite Hn, Hp, Hc, Hr. reflexivity. Qed.
Lemma hc_chans r r' k k' : hc r k = hc r' k' -> c_chans k = c_chans k'.
Proof. intros H. apply hc_determines in H. tauto. Qed.

Lemma has_chan_a_chans cl : has_chan_a cl = existsb (fun cs => negb (Nat.eqb (List.length cs) 0)) (map c_chans cl).
Proof. unfold has_chan_a. induction cl as [|k cl IH]; cbn [map existsb]; [reflexivity|]. rewrite IH. reflexivity. Qed.

Lemma fp_cmds_sorted_eq r r' a a' : fp_cmds r a = fp_cmds r' a' ->
  map (hc r) (a_cmds_sorted r a) = map (hc r') (a_cmds_sorted r' a').
Proof. unfold fp_cmds, a_cmds_sorted. intros H. apply TN_inj in H. exact H. Qed.
Lemma fp_structs_sorted_eq r r' a a' : fp_structs r a = fp_structs r' a' ->
  map (hs r) (a_structs_sorted a) = map (hs r') (a_structs_sorted a').
Proof. unfold fp_structs, a_structs_sorted. intros H. apply TN_inj in H. exact H. Qed.

Lemma types_toks_a_of_hash r r' sl sl' cl cl' :
  map (hs r) sl = map (hs r') sl' -> map (hc r) cl = map (hc r') cl' -> types_toks_a sl cl = types_toks_a sl' cl'.
Proof. intros Hs Hc. unfold types_toks_a. rewrite !has_chan_a_chans.
  rewrite (map_eq_transfer2 (hc r) (hc r') c_chans c_chans (hc_chans r r') cl cl' Hc).
  rewrite (flat_map_eq_transfer2 (hs r) (hs r') ST ST (hs_ST r r') sl sl' Hs).
  rewrite (flat_map_eq_transfer2 (hc r) (hc r') PT PT (hc_PT r r') cl cl' Hc). reflexivity. Qed.
Lemma commands_toks_a_of_hash r r' cl cl' :
  map (hc r) cl = map (hc r') cl' -> commands_toks_a cl = commands_toks_a cl'.
Proof. intros Hc. unfold commands_toks_a. rewrite !has_chan_a_chans.
  rewrite (map_eq_transfer2 (hc r) (hc r') c_chans c_chans (hc_chans r r') cl cl' Hc).
  rewrite (flat_map_eq_transfer2 (hc r) (hc r') WT WT (hc_WT r r') cl cl' Hc). reflexivity. Qed.

(* ---- equal views give equal text ---- *)
Lemma view_types w p c w' p' c' : view_of w p c = view_of w' p' c' ->
  fp_cmds (g_ppath c) (analyse w (abs_project p)) = fp_cmds (g_ppath c') (analyse w' (abs_project p')) /\
  fp_structs (g_ppath c) (analyse w (abs_project p)) = fp_structs (g_ppath c') (analyse w' (abs_project p')) /\
  fp_cfg c = fp_cfg c'.
Proof. unfold view_of, files. cbn [app]. intros H. inversion H as [[Ht Hrest]].
  repeat split; assumption. Qed.

Theorem view_determines_types_ts w p c w' p' c' : view_of w p c = view_of w' p' c' -> types_ts w p c = types_ts w' p' c'.
Proof. intros H. apply view_types in H. destruct H as (Hc & Hs & _). rewrite !types_ts_of_analysis.
  apply (types_toks_a_of_hash (g_ppath c) (g_ppath c')); [apply fp_structs_sorted_eq|apply fp_cmds_sorted_eq]; assumption. Qed.
Theorem view_determines_commands_ts w p c w' p' c' : view_of w p c = view_of w' p' c' -> commands_ts w p c = commands_ts w' p' c'.
Proof. intros H. apply view_types in H. destruct H as (Hc & _ & _). rewrite !commands_ts_of_analysis.
  apply (commands_toks_a_of_hash (g_ppath c) (g_ppath c')). apply fp_cmds_sorted_eq. assumption. Qed.
