(* C08 round 7: the generated text is a function of the view; the fingerprint covers the view. *)
From Coq Require Import String Ascii List Arith Lia Bool.
Require Import TT.Model.Str TT.Model.TypeParse TT.Model.Render TT.Spec.TsLex.
Require Import TT.Model.C08Fingerprint TT.Model.C08Text TT.Proofs.C08FpProofs.
Import ListNotations.
Local Open Scope list_scope.

(* ---- list plumbing ---- *)
Lemma flat_map_if_filter {A B} (sk : A -> bool) (g : A -> list B) l :
  flat_map (fun x => if sk x then [] else g x) l = flat_map g (filter (fun x => negb (sk x)) l).
Proof. induction l as [|x l IH]; cbn [flat_map filter]; [reflexivity|].
  destruct (sk x); cbn [negb flat_map app]; rewrite IH; reflexivity. Qed.

Lemma flat_map_map' {A B C} (f : A -> B) (g : B -> list C) l : flat_map g (map f l) = flat_map (fun x => g (f x)) l.
Proof. induction l as [|x l IH]; cbn [map flat_map]; [reflexivity|]. rewrite IH. reflexivity. Qed.

Lemma map_eq_transfer2 {A A' B C} (f : A -> B) (f' : A' -> B) (g : A -> C) (g' : A' -> C) :
  (forall x y, f x = f' y -> g x = g' y) -> forall l l', map f l = map f' l' -> map g l = map g' l'.
Proof. intros H. induction l as [|x l IH]; intros [|y l'] E; cbn [map] in *; try discriminate; [reflexivity|].
  inversion E. f_equal; auto. Qed.

Lemma map_inj_eq {A B} (f : A -> B) : (forall x y, f x = f y -> x = y) -> forall l l', map f l = map f l' -> l = l'.
Proof. intros H l l' E. rewrite <- (map_id l), <- (map_id l'). revert E. apply map_eq_transfer2. exact H. Qed.

Lemma flat_map_eq_transfer2 {A A' B C} (f : A -> B) (f' : A' -> B) (g : A -> list C) (g' : A' -> list C) :
  (forall x y, f x = f' y -> g x = g' y) -> forall l l', map f l = map f' l' -> flat_map g l = flat_map g' l'.
Proof. intros H l l' E. rewrite !flat_map_concat_map. f_equal. revert E. apply map_eq_transfer2. exact H. Qed.

Lemma insert_map {A B} (f : A -> B) (leA : A -> A -> bool) (leB : B -> B -> bool) :
  (forall x y, leA x y = leB (f x) (f y)) -> forall x l, map f (insert leA x l) = insert leB (f x) (map f l).
Proof. intros H x. induction l as [|y r IH]; cbn [insert map]; [reflexivity|]. rewrite <- H.
  destruct (leA x y); cbn [map]; [reflexivity|]. rewrite IH. reflexivity. Qed.
Lemma isort_map {A B} (f : A -> B) (leA : A -> A -> bool) (leB : B -> B -> bool) :
  (forall x y, leA x y = leB (f x) (f y)) -> forall l, map f (isort leA l) = isort leB (map f l).
Proof. intros H. induction l as [|x r IH]; cbn [isort map]; [reflexivity|]. rewrite (insert_map f leA leB H), IH. reflexivity. Qed.

Lemma pick_map {A B} (f : A -> B) d l w : pick (f d) (map f l) w = map f (pick d l w).
Proof. unfold pick. rewrite map_map. apply map_ext. intros i. apply map_nth. Qed.

Lemma list5_inj {A} (a b c d e a' b' c' d' e' : A) :
  [a; b; c; d; e] = [a'; b'; c'; d'; e'] -> a = a' /\ b = b' /\ c = c' /\ d = d' /\ e = e'.
Proof. intros H. inversion H. repeat split; assumption. Qed.

(* ---- the analysis commutes with the order of discovery ---- *)
Lemma analyse_abs_structs w p : a_structs (analyse w (abs_project p)) = map abs_struct' (t_structs w p).
Proof. unfold analyse, abs_project, t_structs. cbn [a_structs]. change empty_file with (abs_file empty_tfile).
  rewrite pick_map, flat_map_map'. generalize (pick empty_tfile p (w_files w)) as fs.
  induction fs as [|f fs IH]; cbn [flat_map]; [reflexivity|]. rewrite map_app, IH. f_equal.
  unfold abs_file. cbn [sf_structs]. rewrite map_map. reflexivity. Qed.
Lemma analyse_abs_cmds w p : a_cmds (analyse w (abs_project p)) = map abs_cmd' (t_cmds w p).
Proof. unfold analyse, abs_project, t_cmds. cbn [a_cmds]. change empty_file with (abs_file empty_tfile).
  rewrite pick_map, flat_map_map'. generalize (pick empty_tfile p (w_files w)) as fs.
  induction fs as [|f fs IH]; cbn [flat_map]; [reflexivity|]. rewrite map_app, IH. f_equal.
  unfold abs_file. cbn [sf_cmds]. rewrite map_map. reflexivity. Qed.

(* ---- the text-level generator models factor through the analysed data ---- *)
Lemma struct_factor path s : Pipeline.struct_toks s = ST (abs_struct path s).
Proof. unfold Pipeline.struct_toks, ST, ST3, abs_struct. cbn [s_name s_fields s_rename_all].
  rewrite flat_map_if_filter, flat_map_map'. reflexivity. Qed.

Lemma params_factor path t : Pipeline.params_iface_toks (t_def t) = PT (abs_cmd path t).
Proof. unfold Pipeline.params_iface_toks, PT, PT3, abs_cmd. cbn [c_name c_params c_chans].
  destruct (Pipeline.value_params (t_def t)) as [|v vs], (Pipeline.channels (t_def t)) as [|ch cs]; try reflexivity.
  - change (map abs_chan (ch :: cs)) with (map abs_chan (ch :: cs)). cbn [map].
    change (abs_chan ch :: map abs_chan cs) with (map abs_chan (ch :: cs)). rewrite flat_map_map'. reflexivity.
  - cbn [map]. change (abs_param v :: map abs_param vs) with (map abs_param (v :: vs)). rewrite flat_map_map'. reflexivity.
  - cbn [map]. change (abs_param v :: map abs_param vs) with (map abs_param (v :: vs)).
    change (abs_chan ch :: map abs_chan cs) with (map abs_chan (ch :: cs)). rewrite !flat_map_map'. reflexivity. Qed.

Lemma wrapper_factor path t : Pipeline.wrapper_toks (t_def t) = WT (abs_cmd path t).
Proof. unfold Pipeline.wrapper_toks, WT, WT4, abs_cmd. cbn [c_name c_params c_chans c_ret]. rewrite !map_length. reflexivity. Qed.

Lemma has_chan_factor (X : list (str * tfn)) :
  existsb (fun f => negb (Nat.eqb (List.length (Pipeline.channels f)) 0)) (map (fun x => t_def (snd x)) X) = has_chan_a (map abs_cmd' X).
Proof. unfold has_chan_a. induction X as [|x X IH]; [reflexivity|]. cbn [map existsb]. rewrite IH. f_equal.
  unfold abs_cmd', abs_cmd. cbn [c_chans]. rewrite map_length. reflexivity. Qed.

Lemma types_factor (S : list (str * Pipeline.struct_def)) (X : list (str * tfn)) :
  Pipeline.types_toks (map snd S) (map (fun x => t_def (snd x)) X) = types_toks_a (map abs_struct' S) (map abs_cmd' X).
Proof. unfold Pipeline.types_toks, types_toks_a. rewrite has_chan_factor, !flat_map_map'. f_equal. f_equal.
  - apply flat_map_ext. intros x. apply struct_factor.
  - apply flat_map_ext. intros x. apply params_factor. Qed.

Lemma commands_factor (X : list (str * tfn)) :
  Pipeline.commands_toks (map (fun x => t_def (snd x)) X) = commands_toks_a (map abs_cmd' X).
Proof. unfold Pipeline.commands_toks, commands_toks_a. rewrite has_chan_factor, !flat_map_map'. do 3 f_equal.
  apply flat_map_ext. intros x. apply wrapper_factor. Qed.

Lemma gen_structs_sorted w p : map abs_struct' (isort sleb (t_structs w p)) = a_structs_sorted (analyse w (abs_project p)).
Proof. unfold a_structs_sorted. rewrite analyse_abs_structs. apply isort_map. intros x y. reflexivity. Qed.
Lemma gen_cmds_sorted w p root :
  map abs_cmd' (isort (cleb root) (t_cmds w p)) = a_cmds_sorted root (analyse w (abs_project p)).
Proof. unfold a_cmds_sorted. rewrite analyse_abs_cmds. apply isort_map. intros x y. reflexivity. Qed.

Theorem types_ts_of_analysis w p c :
  types_ts w p c = types_toks_a (a_structs_sorted (analyse w (abs_project p))) (a_cmds_sorted (g_ppath c) (analyse w (abs_project p))).
Proof. unfold types_ts, gen_structs, gen_cmds. rewrite types_factor, gen_structs_sorted, gen_cmds_sorted. reflexivity. Qed.
Theorem commands_ts_of_analysis w p c :
  commands_ts w p c = commands_toks_a (a_cmds_sorted (g_ppath c) (analyse w (abs_project p))).
Proof. unfold commands_ts, gen_cmds. rewrite commands_factor, gen_cmds_sorted. reflexivity. Qed.

(* ---- the hashed data determine the text of every item ---- *)
Lemma hf_inj f f' : hf f = hf f' -> f = f'.
Proof. destruct f as [a1 a2 a3 a4 a5 a6], f' as [b1 b2 b3 b4 b5 b6]. unfold hf. cbn [f_name f_type f_opt f_pub f_rename f_valid]. intros H. inversion H.
  repeat match goal with E : topt _ = topt _ |- _ => apply topt_inj in E end. subst. reflexivity. Qed.
Lemma hp_inj p p' : hp p = hp p' -> p = p'.
Proof. destruct p as [a1 a2 a3 a4], p' as [b1 b2 b3 b4]. unfold hp. cbn [p_name p_type p_opt p_rename]. intros H. inversion H.
  repeat match goal with E : topt _ = topt _ |- _ => apply topt_inj in E end. subst. reflexivity. Qed.
Lemma hch_inj k k' : hch k = hch k' -> k = k'.
Proof. destruct k as [a1 a2], k' as [b1 b2]. unfold hch. cbn [ch_param ch_msg]. intros H. inversion H. subst. reflexivity. Qed.

Lemma hs_determines r r' s s' : hs r s = hs r' s' ->
  s_name s = s_name s' /\ s_fields s = s_fields s' /\ s_rename_all s = s_rename_all s'.
Proof. unfold hs. intros H. apply TN_inj, list5_inj in H. destruct H as (Hn & _ & _ & Hf & Hr).
  apply TA_inj in Hn. apply TN_inj in Hf. apply (map_inj_eq hf hf_inj) in Hf. apply topt_inj in Hr. auto. Qed.
Lemma hc_determines r r' k k' : hc r k = hc r' k' ->
  c_name k = c_name k' /\ c_params k = c_params k' /\ c_ret k = c_ret k' /\ c_chans k = c_chans k'.
Proof. unfold hc. intros H. apply TN_inj, list7_inj in H. destruct H as (Hn & _ & Hp & Hr & _ & Hc & _).
  apply TA_inj in Hn. apply TA_inj in Hr. apply TN_inj in Hp. apply TN_inj in Hc.
  apply (map_inj_eq hp hp_inj) in Hp. apply (map_inj_eq hch hch_inj) in Hc. auto. Qed.

Lemma hs_ST r r' s s' : hs r s = hs r' s' -> ST s = ST s'.
Proof. intros H. apply hs_determines in H. destruct H as (Hn & Hf & Hr). unfold ST. rewrite Hn, Hf, Hr. reflexivity. Qed.
Lemma hc_PT r r' k k' : hc r k = hc r' k' -> PT k = PT k'.
Proof. intros H. apply hc_determines in H. destruct H as (Hn & Hp & Hr & Hc). unfold PT. rewrite Hn, Hp, Hc. reflexivity. Qed.
Lemma hc_WT r r' k k' : hc r k = hc r' k' -> WT k = WT k'.
Proof. intros H. apply hc_determines in H. destruct H as (Hn & Hp & Hr & Hc). unfold WT. rewrite Hn, Hp, Hc, Hr. reflexivity. Qed.
Lemma hc_chans r r' k k' : hc r k = hc r' k' -> c_chans k = c_chans k'.
Proof. intros H. apply hc_determines in H. tauto. Qed.

Lemma has_chan_a_chans cl : has_chan_a cl = existsb (fun cs => negb (Nat.eqb (List.length cs) 0)) (map c_chans cl).
Proof. unfold has_chan_a. induction cl as [|k cl IH]; cbn [map existsb]; [reflexivity|]. rewrite IH. reflexivity. Qed.

Lemma fp_cmds_sorted_eq r r' a a' : fp_cmds r a = fp_cmds r' a' ->
  map (hc r) (a_cmds_sorted r a) = map (hc r') (a_cmds_sorted r' a').
Proof. unfold fp_cmds, a_cmds_sorted. intros H. apply TN_inj in H. exact H. Qed.
Lemma fp_structs_sorted_eq r r' a a' : fp_structs r a = fp_structs r' a' ->
  map (hs r) (a_structs_sorted a) = map (hs r') (a_structs_sorted a').
Proof. unfold fp_structs, a_structs_sorted. intros H. apply TN_inj in H. exact H. Qed.

Lemma types_toks_a_of_hash r r' sl sl' cl cl' :
  map (hs r) sl = map (hs r') sl' -> map (hc r) cl = map (hc r') cl' -> types_toks_a sl cl = types_toks_a sl' cl'.
Proof. intros Hs Hc. unfold types_toks_a. rewrite !has_chan_a_chans.
  rewrite (map_eq_transfer2 (hc r) (hc r') c_chans c_chans (hc_chans r r') cl cl' Hc).
  rewrite (flat_map_eq_transfer2 (hs r) (hs r') ST ST (hs_ST r r') sl sl' Hs).
  rewrite (flat_map_eq_transfer2 (hc r) (hc r') PT PT (hc_PT r r') cl cl' Hc). reflexivity. Qed.
Lemma commands_toks_a_of_hash r r' cl cl' :
  map (hc r) cl = map (hc r') cl' -> commands_toks_a cl = commands_toks_a cl'.
Proof. intros Hc. unfold commands_toks_a. rewrite !has_chan_a_chans.
  rewrite (map_eq_transfer2 (hc r) (hc r') c_chans c_chans (hc_chans r r') cl cl' Hc).
  rewrite (flat_map_eq_transfer2 (hc r) (hc r') WT WT (hc_WT r r') cl cl' Hc). reflexivity. Qed.

(* ---- equal views give equal text ---- *)
Lemma view_types w p c w' p' c' : view_of w p c = view_of w' p' c' ->
  fp_cmds (g_ppath c) (analyse w (abs_project p)) = fp_cmds (g_ppath c') (analyse w' (abs_project p')) /\
  fp_structs (g_ppath c) (analyse w (abs_project p)) = fp_structs (g_ppath c') (analyse w' (abs_project p')) /\
  fp_cfg c = fp_cfg c'.
Proof. unfold view_of, files. cbn [app]. intros H.
  apply (f_equal (fun l => match l with x :: _ => snd x | [] => TN [] end)) in H. cbn beta iota in H. cbn [snd] in H.
  apply TN_inj, list4_inj in H. destruct H as (_ & Hc & Hs & Hg). repeat split; assumption. Qed.

Theorem view_determines_types_ts w p c w' p' c' : view_of w p c = view_of w' p' c' -> types_ts w p c = types_ts w' p' c'.
Proof. intros H. apply view_types in H. destruct H as (Hc & Hs & _). rewrite !types_ts_of_analysis.
  apply (types_toks_a_of_hash (g_ppath c) (g_ppath c')); [apply fp_structs_sorted_eq|apply fp_cmds_sorted_eq]; assumption. Qed.
Theorem view_determines_commands_ts w p c w' p' c' : view_of w p c = view_of w' p' c' -> commands_ts w p c = commands_ts w' p' c'.
Proof. intros H. apply view_types in H. destruct H as (Hc & _ & _). rewrite !commands_ts_of_analysis.
  apply (commands_toks_a_of_hash (g_ppath c) (g_ppath c')). apply fp_cmds_sorted_eq. assumption. Qed.

(* ---- zod mode: the same factorisation ---- *)
Lemma cat_map_if_filter {A} (sk : A -> bool) (g : A -> str) l :
  PipelineZod.cat (map (fun x => if sk x then [] else g x) l) = PipelineZod.cat (map g (filter (fun x => negb (sk x)) l)).
Proof. unfold PipelineZod.cat. rewrite <- !flat_map_concat_map. apply flat_map_if_filter. Qed.

Lemma zstruct_factor path s : PipelineZod.struct_schema_text s = ZST (abs_struct path s).
Proof. unfold PipelineZod.struct_schema_text, ZST, ZST3, abs_struct. cbn [s_name s_fields s_rename_all].
  rewrite cat_map_if_filter, map_map. reflexivity. Qed.
Lemma zparams_factor path t : PipelineZod.param_schema_text (t_def t) = ZPS (abs_cmd path t).
Proof. unfold PipelineZod.param_schema_text, ZPS, ZPS2, abs_cmd, PipelineZod.tname. cbn [c_name c_params].
  destruct (Pipeline.value_params (t_def t)) as [|v vs]; [reflexivity|].
  change (map abs_param (v :: vs)) with (abs_param v :: map abs_param vs).
  change (abs_param v :: map abs_param vs) with (map abs_param (v :: vs)) at 2.
  cbn [map]. rewrite map_map. reflexivity. Qed.
Lemma zchan_factor f : PipelineZod.chan_members f = ZCM (map abs_chan (Pipeline.channels f)).
Proof. unfold PipelineZod.chan_members, ZCM. rewrite map_map. reflexivity. Qed.
Lemma zalias_factor path t : PipelineZod.alias_text (t_def t) = ZAL (abs_cmd path t).
Proof. unfold PipelineZod.alias_text, ZAL, ZAL3, abs_cmd, PipelineZod.tname. cbn [c_name c_params c_chans]. rewrite zchan_factor.
  destruct (Pipeline.value_params (t_def t)) as [|v vs], (Pipeline.channels (t_def t)) as [|ch cs]; reflexivity. Qed.
Lemma zwrapper_factor path t : PipelineZod.zod_wrapper_text (t_def t) = ZWT (abs_cmd path t).
Proof. unfold PipelineZod.zod_wrapper_text, ZWT, ZWT4, abs_cmd, PipelineZod.tname. cbn [c_name c_params c_chans c_ret].
  rewrite !map_length, map_map. reflexivity. Qed.

Lemma zod_types_factor (S : list (str * Pipeline.struct_def)) (X : list (str * tfn)) :
  PipelineZod.zod_types_text (map snd S) (map (fun x => t_def (snd x)) X) = zod_types_a (map abs_struct' S) (map abs_cmd' X).
Proof. unfold PipelineZod.zod_types_text, zod_types_a, PipelineZod.has_chan. rewrite has_chan_factor, !map_map. do 2 f_equal.
  f_equal; [|f_equal]; f_equal; apply map_ext; intros x; [apply zstruct_factor|apply zparams_factor|apply zalias_factor]. Qed.
Lemma zod_commands_factor (X : list (str * tfn)) :
  PipelineZod.zod_commands_text (map (fun x => t_def (snd x)) X) = zod_commands_a (map abs_cmd' X).
Proof. unfold PipelineZod.zod_commands_text, zod_commands_a, PipelineZod.has_chan. rewrite has_chan_factor, !map_map. do 4 f_equal.
  apply map_ext. intros x. apply zwrapper_factor. Qed.

Theorem zod_types_ts_of_analysis w p c :
  zod_types_ts w p c = zod_types_a (a_structs_sorted (analyse w (abs_project p))) (a_cmds_sorted (g_ppath c) (analyse w (abs_project p))).
Proof. unfold zod_types_ts, gen_structs, gen_cmds. rewrite zod_types_factor, gen_structs_sorted, gen_cmds_sorted. reflexivity. Qed.
Theorem zod_commands_ts_of_analysis w p c :
  zod_commands_ts w p c = zod_commands_a (a_cmds_sorted (g_ppath c) (analyse w (abs_project p))).
Proof. unfold zod_commands_ts, gen_cmds. rewrite zod_commands_factor, gen_cmds_sorted. reflexivity. Qed.

Lemma hs_ZST r r' s s' : hs r s = hs r' s' -> ZST s = ZST s'.
Proof. intros H. apply hs_determines in H. destruct H as (Hn & Hf & Hr). unfold ZST. rewrite Hn, Hf, Hr. reflexivity. Qed.
Lemma hc_ZPS r r' k k' : hc r k = hc r' k' -> ZPS k = ZPS k'.
Proof. intros H. apply hc_determines in H. destruct H as (Hn & Hp & Hr & Hc). unfold ZPS. rewrite Hn, Hp. reflexivity. Qed.
Lemma hc_ZAL r r' k k' : hc r k = hc r' k' -> ZAL k = ZAL k'.
Proof. intros H. apply hc_determines in H. destruct H as (Hn & Hp & Hr & Hc). unfold ZAL. rewrite Hn, Hp, Hc. reflexivity. Qed.
Lemma hc_ZWT r r' k k' : hc r k = hc r' k' -> ZWT k = ZWT k'.
Proof. intros H. apply hc_determines in H. destruct H as (Hn & Hp & Hr & Hc). unfold ZWT. rewrite Hn, Hp, Hc, Hr. reflexivity. Qed.

Lemma zod_types_a_of_hash r r' sl sl' cl cl' :
  map (hs r) sl = map (hs r') sl' -> map (hc r) cl = map (hc r') cl' -> zod_types_a sl cl = zod_types_a sl' cl'.
Proof. intros Hs Hc. unfold zod_types_a. rewrite !has_chan_a_chans.
  rewrite (map_eq_transfer2 (hc r) (hc r') c_chans c_chans (hc_chans r r') cl cl' Hc).
  rewrite (map_eq_transfer2 (hs r) (hs r') ZST ZST (hs_ZST r r') sl sl' Hs).
  rewrite (map_eq_transfer2 (hc r) (hc r') ZPS ZPS (hc_ZPS r r') cl cl' Hc).
  rewrite (map_eq_transfer2 (hc r) (hc r') ZAL ZAL (hc_ZAL r r') cl cl' Hc). reflexivity. Qed.
Lemma zod_commands_a_of_hash r r' cl cl' :
  map (hc r) cl = map (hc r') cl' -> zod_commands_a cl = zod_commands_a cl'.
Proof. intros Hc. unfold zod_commands_a. rewrite !has_chan_a_chans.
  rewrite (map_eq_transfer2 (hc r) (hc r') c_chans c_chans (hc_chans r r') cl cl' Hc).
  rewrite (map_eq_transfer2 (hc r) (hc r') ZWT ZWT (hc_ZWT r r') cl cl' Hc). reflexivity. Qed.

Theorem view_determines_zod_types_ts w p c w' p' c' : view_of w p c = view_of w' p' c' -> zod_types_ts w p c = zod_types_ts w' p' c'.
Proof. intros H. apply view_types in H. destruct H as (Hc & Hs & _). rewrite !zod_types_ts_of_analysis.
  apply (zod_types_a_of_hash (g_ppath c) (g_ppath c')); [apply fp_structs_sorted_eq|apply fp_cmds_sorted_eq]; assumption. Qed.
Theorem view_determines_zod_commands_ts w p c w' p' c' : view_of w p c = view_of w' p' c' -> zod_commands_ts w p c = zod_commands_ts w' p' c'.
Proof. intros H. apply view_types in H. destruct H as (Hc & _ & _). rewrite !zod_commands_ts_of_analysis.
  apply (zod_commands_a_of_hash (g_ppath c) (g_ppath c')). apply fp_cmds_sorted_eq. assumption. Qed.

(* ---- events.ts ---- *)
Lemma u_events_pairs a a' : u_events a = u_events a' -> ev_pairs (a_events a) = ev_pairs (a_events a').
Proof. unfold u_events, ev_pairs. intros H. apply TN_inj in H. revert H. apply map_eq_transfer2.
  intros x y E. apply TN_inj in E. inversion E. reflexivity. Qed.
Lemma u_events_has a a' : u_events a = u_events a' -> has_events a = has_events a'.
Proof. unfold u_events, has_events. intros H. apply TN_inj in H.
  destruct (a_events a), (a_events a'); cbn [map] in H; try discriminate; reflexivity. Qed.
Lemma kv_tree_inj (x y : str * str) : TN [TA (fst x); TA (snd x)] = TN [TA (fst y); TA (snd y)] -> x = y.
Proof. destruct x, y. cbn [fst snd]. intros H. inversion H. reflexivity. Qed.
Lemma fp_cfg_determines c c' : fp_cfg c = fp_cfg c' -> g_lib c = g_lib c' /\ sorted_maps c = sorted_maps c' /\ g_viz c = g_viz c'.
Proof. unfold fp_cfg. intros H. apply TN_inj, list7_inj in H. destruct H as (Hl & _ & Hm & _ & _ & Hv & _).
  apply TA_inj in Hl. apply TB_inj in Hv. repeat split; try assumption.
  unfold hmaps in Hm. unfold sorted_maps. destruct (g_maps c) as [l|], (g_maps c') as [l'|]; try discriminate; [|reflexivity].
  apply TN_inj, list1_inj, TN_inj in Hm. revert Hm. apply map_inj_eq. exact kv_tree_inj. Qed.

Lemma ev_text_of_hash w p c w' p' c' :
  u_events (analyse w (abs_project p)) = u_events (analyse w' (abs_project p')) -> fp_cfg c = fp_cfg c' ->
  ev_text w p c = ev_text w' p' c'.
Proof. intros Hu Hg. unfold ev_text. apply u_events_pairs in Hu. apply fp_cfg_determines in Hg.
  destruct Hg as (_ & Hm & _). rewrite Hu, Hm. reflexivity. Qed.

Theorem view_determines_events_ts w p c w' p' c' : view_of w p c = view_of w' p' c' -> events_ts w p c = events_ts w' p' c'.
Proof. intros H. pose proof (view_types _ _ _ _ _ _ H) as (_ & _ & Hg). revert H. unfold view_of, files, events_ts.
  set (a := analyse w (abs_project p)). set (a' := analyse w' (abs_project p')). cbn [app].
  destruct (has_events a) eqn:E, (has_events a') eqn:E'; cbn [app]; intros H.
  - apply (f_equal (fun l => snd (nth 2 l (Types, TN [])))) in H. cbn [nth snd] in H.
    apply TN_inj, list3_inj in H. destruct H as (_ & Hu & _). f_equal. apply ev_text_of_hash; assumption.
  - apply (f_equal (fun l => fname_code (fst (nth 2 l (Types, TN []))))) in H. cbn [nth fst fname_code] in H. discriminate.
  - apply (f_equal (fun l => fname_code (fst (nth 2 l (Types, TN []))))) in H. cbn [nth fst fname_code] in H. discriminate.
  - reflexivity. Qed.

Theorem text_function_of_view w p c w' p' c' : view_of w p c = view_of w' p' c' ->
  types_ts w p c = types_ts w' p' c' /\ commands_ts w p c = commands_ts w' p' c' /\
  zod_types_ts w p c = zod_types_ts w' p' c' /\ zod_commands_ts w p c = zod_commands_ts w' p' c' /\
  events_ts w p c = events_ts w' p' c'.
Proof. intros H. split; [exact (view_determines_types_ts _ _ _ _ _ _ H)|].
  split; [exact (view_determines_commands_ts _ _ _ _ _ _ H)|]. split; [exact (view_determines_zod_types_ts _ _ _ _ _ _ H)|].
  split; [exact (view_determines_zod_commands_ts _ _ _ _ _ _ H)|exact (view_determines_events_ts _ _ _ _ _ _ H)]. Qed.

(* ---- (b) the fingerprint covers the view, and with it the text ---- *)
Theorem fp_covers_view w p c w' p' c' :
  fp_t w p c = fp_t w' p' c' -> unhashed_t w p c = unhashed_t w' p' c' -> view_of w p c = view_of w' p' c'.
Proof. unfold fp_t, unhashed_t, view_of. apply fp_sound_modulo_unhashed. Qed.

Lemma fp_t_components w p c w' p' c' : fp_t w p c = fp_t w' p' c' ->
  fp_cmds (g_ppath c) (analyse w (abs_project p)) = fp_cmds (g_ppath c') (analyse w' (abs_project p')) /\
  fp_structs (g_ppath c) (analyse w (abs_project p)) = fp_structs (g_ppath c') (analyse w' (abs_project p')) /\
  fp_cfg c = fp_cfg c' /\ u_events (analyse w (abs_project p)) = u_events (analyse w' (abs_project p')).
Proof. unfold fp_t, fp. intros H. apply TN_inj, list4_inj in H. exact H. Qed.

(* without the graph nothing unhashed reaches a file *)
Theorem fp_covers_view_no_graph w p c w' p' c' :
  fp_t w p c = fp_t w' p' c' -> g_viz c = false -> view_of w p c = view_of w' p' c'.
Proof. intros H Hv. apply fp_covers_view; [exact H|]. apply fp_t_components in H. destruct H as (_ & _ & Hg & _).
  apply fp_cfg_determines in Hg. destruct Hg as (_ & _ & Hv'). rewrite Hv in Hv'.
  unfold unhashed_t, unhashed, u_lines. rewrite Hv, <- Hv'. reflexivity. Qed.

(* the text files need no unhashed component at all *)
Theorem fp_covers_text w p c w' p' c' : fp_t w p c = fp_t w' p' c' ->
  types_ts w p c = types_ts w' p' c' /\ commands_ts w p c = commands_ts w' p' c' /\
  zod_types_ts w p c = zod_types_ts w' p' c' /\ zod_commands_ts w p c = zod_commands_ts w' p' c' /\
  events_ts w p c = events_ts w' p' c' /\ ev_text w p c = ev_text w' p' c' /\ is_zod c = is_zod c'.
Proof. intros H. apply fp_t_components in H. destruct H as (Hc & Hs & Hg & Hu).
  pose proof (fp_structs_sorted_eq _ _ _ _ Hs) as Hs'. pose proof (fp_cmds_sorted_eq _ _ _ _ Hc) as Hc'.
  assert (He : ev_text w p c = ev_text w' p' c') by (apply ev_text_of_hash; assumption).
  rewrite !types_ts_of_analysis, !commands_ts_of_analysis, !zod_types_ts_of_analysis, !zod_commands_ts_of_analysis.
  split; [apply (types_toks_a_of_hash (g_ppath c) (g_ppath c')); assumption|].
  split; [apply (commands_toks_a_of_hash (g_ppath c) (g_ppath c')); assumption|].
  split; [apply (zod_types_a_of_hash (g_ppath c) (g_ppath c')); assumption|].
  split; [apply (zod_commands_a_of_hash (g_ppath c) (g_ppath c')); assumption|].
  split; [unfold events_ts; rewrite (u_events_has _ _ Hu), He; reflexivity|].
  split; [exact He|]. unfold is_zod. apply fp_cfg_determines in Hg. destruct Hg as (Hl & _). rewrite Hl. reflexivity. Qed.

(* the write plan with text: determined by the fingerprint and the one unhashed component *)
Theorem fp_covers_text_files w p c w' p' c' :
  fp_t w p c = fp_t w' p' c' -> unhashed_t w p c = unhashed_t w' p' c' -> text_files w p c = text_files w' p' c'.
Proof. intros H Hu. unfold text_files. rewrite (fp_covers_view _ _ _ _ _ _ H Hu). apply map_ext. intros [f v]. cbn [fst snd].
  apply fp_covers_text in H. destruct H as (H1 & H2 & H3 & H4 & _ & H6 & H7).
  unfold text_content. rewrite H1, H2, H3, H4, H6, H7. reflexivity. Qed.

Lemma text_files_nodup w p c : NoDup (map fst (text_files w p c)).
Proof. unfold text_files. rewrite map_map. cbn [fst]. apply files_nodup. Qed.

(* ---- the run / cache machine with text contents ---- *)
Require Import TT.Model.C08Run TT.Proofs.C08RunProofs.
Notation InvW_t := (InvW tproject config sched fname content tree text_files fp_t).
Notation up_to_date_t := (up_to_date tproject config sched fname content tree text_files).
Notation sound_hit_t := (sound_hit tproject config sched fname content tree tree_eqb text_files fp_t has_commands_t g_force true).

Lemma kf_t_nil_sound_hit w sg : kf_C08_t w sg = [] -> sound_hit_t w sg.
Proof. destruct sg as [st g]. intros Hk g0 Hg Hca Hc Hf Hh. cbn [fst snd] in *. subst g.
  unfold kf_C08_t in Hk. rewrite Hc in Hk. unfold effective_force in Hf. cbn [orb] in Hf. rewrite Hf in Hk.
  unfold cache_hit_t in Hk. rewrite Hh in Hk. cbn [negb andb] in Hk.
  destruct g0 as [[w0 p0] c0]. cbn [gfiles_of gfp_of] in *.
  unfold cache_hit in Hh. rewrite Hca in Hh.
  destruct (tree_eqb (fp_t w0 p0 c0) (fp_t w (s_src st) (s_cfg st))) eqn:E; [|discriminate].
  apply tree_eqb_spec in E.
  assert (Hfiles : text_files w0 p0 c0 = text_files w (s_src st) (s_cfg st)).
  { apply fp_covers_text_files; [exact E|]. unfold unhashed_t, unhashed. f_equal.
    destruct (tree_eqb (u_lines _ _) (u_lines _ _)) eqn:E8 in Hk; [|discriminate]. apply tree_eqb_spec. exact E8. }
  split; [exact Hfiles|]. rewrite Hfiles. exact Hh. Qed.

Theorem cache_sound_text : forall (ops : list top) (sg0 : tstate * option tgen) (w : sched),
  InvW_t sg0 ->
  let sg := fold_left stepG_t ops sg0 in
  kf_C08_t w sg = [] ->
  forall r st', run_t w false None (fst sg) = (r, st') -> r = Success \/ r = UpToDate -> up_to_date_t w st'.
Proof. intros ops sg0 w HI sg Hk.
  apply (cache_sound_abstract tproject config sched fname content tree fname_eqb tree_eqb text_files fp_t has_commands_t g_force true
           fname_eqb_spec text_files_nodup ops sg0 w HI).
  apply kf_t_nil_sound_hit. exact Hk. Qed.

Lemma InvW_t_init p c : InvW_t (init_t p c, None).
Proof. intros h Hc. cbn in Hc. discriminate. Qed.

(* without the graph the class is empty: no premise left *)
Lemma kf_t_no_graph w (sg : tstate * option tgen) : g_viz (s_cfg (fst sg)) = false -> kf_C08_t w sg = [].
Proof. destruct sg as [st g]. cbn [fst]. intros Hv. unfold kf_C08_t.
  destruct (has_commands_t (s_src st) && negb (g_force (s_cfg st)) && cache_hit_t w st); [|reflexivity].
  destruct g as [[[w0 p0] c0]|]; [|reflexivity].
  destruct (tree_eqb (fp_t w0 p0 c0) (fp_t w (s_src st) (s_cfg st))) eqn:E; [|reflexivity].
  apply tree_eqb_spec, fp_t_components in E. destruct E as (_ & _ & Hg & _).
  apply fp_cfg_determines in Hg. destruct Hg as (_ & _ & Hv'). rewrite Hv in Hv'.
  unfold u_lines. rewrite Hv, Hv'. rewrite tree_eqb_refl. reflexivity. Qed.

Theorem cache_sound_text_no_graph : forall (ops : list top) (sg0 : tstate * option tgen) (w : sched),
  InvW_t sg0 ->
  let sg := fold_left stepG_t ops sg0 in
  g_viz (s_cfg (fst sg)) = false ->
  forall r st', run_t w false None (fst sg) = (r, st') -> r = Success \/ r = UpToDate -> up_to_date_t w st'.
Proof. intros ops sg0 w HI sg Hv. apply cache_sound_text; [exact HI|]. apply kf_t_no_graph. exact Hv. Qed.

(* ---- the other direction, for edit classes where it is immediate: a changed name changes the text ---- *)
Lemma flat_map_prefix_inv {A B} (g : A -> list B) pre x post x' post' :
  flat_map g (pre ++ x :: post) = flat_map g (pre ++ x' :: post') -> g x ++ flat_map g post = g x' ++ flat_map g post'.
Proof. rewrite !flat_map_app. cbn [flat_map]. apply app_inv_head. Qed.

(* struct name: types.ts *)
Lemma struct_toks_name s s' R R' : Pipeline.struct_toks s ++ R = Pipeline.struct_toks s' ++ R' -> Pipeline.s_name s = Pipeline.s_name s'.
Proof. unfold Pipeline.struct_toks. cbn [app]. intros H. inversion H. reflexivity. Qed.

Theorem struct_rename_changes_types_ts pre s post s' post' cmds :
  Pipeline.types_toks (pre ++ s :: post) cmds = Pipeline.types_toks (pre ++ s' :: post') cmds -> Pipeline.s_name s = Pipeline.s_name s'.
Proof. unfold Pipeline.types_toks. intros H. apply app_inv_head in H. rewrite !flat_map_app in H. cbn [flat_map] in H.
  rewrite <- !app_assoc in H. apply app_inv_head in H. apply struct_toks_name in H. exact H. Qed.

(* field key (a field name, a rename, a rename_all that changes the key) at any position, the fields before it unchanged *)
Definition with_fields (s : Pipeline.struct_def) (l : list Pipeline.field) : Pipeline.struct_def :=
  {| Pipeline.s_name := Pipeline.s_name s; Pipeline.s_serde := Pipeline.s_serde s; Pipeline.s_fields := l |}.
Theorem field_key_changes_struct_toks s pre f post f' post' R R' :
  Pipeline.skipped (Pipeline.f_serde f) = false -> Pipeline.skipped (Pipeline.f_serde f') = false ->
  Pipeline.ty_toks (Pipeline.field_key s f) = [KId (Pipeline.field_key s f)] -> Pipeline.ty_toks (Pipeline.field_key s f') = [KId (Pipeline.field_key s f')] ->
  Pipeline.struct_toks (with_fields s (pre ++ f :: post)) ++ R = Pipeline.struct_toks (with_fields s (pre ++ f' :: post')) ++ R' ->
  Pipeline.field_key s f = Pipeline.field_key s f'.
Proof. intros Hk Hk' Hi Hi'. unfold Pipeline.struct_toks, with_fields. cbn [Pipeline.s_name Pipeline.s_fields app]. intros H.
  inversion H as [H1]. clear H. rewrite <- !app_assoc in H1.
  change (fun f0 : Pipeline.field => if Pipeline.skipped (Pipeline.f_serde f0) then [] else Pipeline.member_toks (Pipeline.field_key {| Pipeline.s_name := Pipeline.s_name s; Pipeline.s_serde := Pipeline.s_serde s; Pipeline.s_fields := pre ++ f :: post |} f0) (Pipeline.is_option (Pipeline.f_ty f0)) (Pipeline.ts_of (Pipeline.f_ty f0)))
    with (fun f0 : Pipeline.field => if Pipeline.skipped (Pipeline.f_serde f0) then [] else Pipeline.member_toks (Pipeline.field_key s f0) (Pipeline.is_option (Pipeline.f_ty f0)) (Pipeline.ts_of (Pipeline.f_ty f0))) in H1.
  change (fun f0 : Pipeline.field => if Pipeline.skipped (Pipeline.f_serde f0) then [] else Pipeline.member_toks (Pipeline.field_key {| Pipeline.s_name := Pipeline.s_name s; Pipeline.s_serde := Pipeline.s_serde s; Pipeline.s_fields := pre ++ f' :: post' |} f0) (Pipeline.is_option (Pipeline.f_ty f0)) (Pipeline.ts_of (Pipeline.f_ty f0)))
    with (fun f0 : Pipeline.field => if Pipeline.skipped (Pipeline.f_serde f0) then [] else Pipeline.member_toks (Pipeline.field_key s f0) (Pipeline.is_option (Pipeline.f_ty f0)) (Pipeline.ts_of (Pipeline.f_ty f0))) in H1.
  rewrite !flat_map_app in H1. rewrite <- !app_assoc in H1. apply app_inv_head in H1. cbn [flat_map] in H1.
  rewrite Hk, Hk' in H1. unfold Pipeline.member_toks in H1. rewrite Hi, Hi' in H1. cbn [app] in H1. inversion H1. reflexivity. Qed.

(* command name: commands.ts prints it as the string literal of the invoke call *)
Lemma cons_inv_tail {A} (x y : A) l l' : x :: l = y :: l' -> l = l'.
Proof. intros H. inversion H. reflexivity. Qed.
Definition renamed (n : str) (f : Pipeline.fn_def) : Pipeline.fn_def :=
  {| Pipeline.fn_name := n; Pipeline.fn_attrs := Pipeline.fn_attrs f; Pipeline.fn_async := Pipeline.fn_async f; Pipeline.fn_params := Pipeline.fn_params f; Pipeline.fn_ret := Pipeline.fn_ret f |}.
Lemma wrapper_toks_name f n R R' : Pipeline.wrapper_toks f ++ R = Pipeline.wrapper_toks (renamed n f) ++ R' -> Pipeline.fn_name f = n.
Proof. unfold Pipeline.wrapper_toks, renamed, Pipeline.value_params, Pipeline.channels, Pipeline.ret_ts, Pipeline.ret_string. cbn [Pipeline.fn_name Pipeline.fn_params Pipeline.fn_ret].
  set (has := negb (Nat.eqb _ 0)). set (ret := Pipeline.ty_toks _). intros H.
  destruct has; cbn [app] in H; repeat (apply cons_inv_tail in H); rewrite <- !app_assoc in H; apply app_inv_head in H;
    cbn [app] in H; inversion H; reflexivity. Qed.

Lemma has_chan_renamed pre f n post :
  existsb (fun f => negb (Nat.eqb (List.length (Pipeline.channels f)) 0)) (pre ++ renamed n f :: post) =
  existsb (fun f => negb (Nat.eqb (List.length (Pipeline.channels f)) 0)) (pre ++ f :: post).
Proof. rewrite !existsb_app. cbn [existsb]. reflexivity. Qed.

Theorem command_rename_changes_commands_ts pre f n post :
  Pipeline.commands_toks (pre ++ f :: post) = Pipeline.commands_toks (pre ++ renamed n f :: post) -> Pipeline.fn_name f = n.
Proof. unfold Pipeline.commands_toks. rewrite has_chan_renamed. intros H. apply app_inv_head in H. apply app_inv_head in H.
  apply app_inv_head in H. apply flat_map_prefix_inv in H. apply wrapper_toks_name in H. exact H. Qed.

(* event name: events.ts prints it between single quotes *)
Lemma split_at_sep {A} (c : A) : forall a b r r', ~ In c a -> ~ In c b -> a ++ c :: r = b ++ c :: r' -> a = b.
Proof. induction a as [|x a IH]; intros [|y b] r r' Ha Hb H; cbn [app] in H.
  - reflexivity.
  - inversion H. subst. exfalso. apply Hb. left. reflexivity.
  - inversion H. subst. exfalso. apply Ha. left. reflexivity.
  - inversion H. subst. f_equal. apply (IH b r r'); [intros Hi; apply Ha; right; exact Hi|intros Hi; apply Hb; right; exact Hi|assumption]. Qed.

Theorem event_rename_changes_listener e e' R R' :
  ~ In "'"%char (fst e) -> ~ In "'"%char (fst e') ->
  Events.listener_text e ++ R = Events.listener_text e' ++ R' -> fst e = fst e'.
Proof. intros Hq Hq'. unfold Events.listener_text, PipelineZod.cat. cbn [concat]. rewrite <- !app_assoc. intros H.
  do 3 apply app_inv_head in H.
  change (PipelineZod.T "' events") with ("'"%char :: L " events") in H. cbn [app] in H.
  apply split_at_sep in H; assumption. Qed.
