(* C01: add_types_prefix3 (base/templates.rs add_types_prefix, a function on TEXT that strips suffixes and tests
   prefixes) applied to the rendered text of a type with identifier leaves is the structural prefixing ptext, and
   that text lexes to the token rendering ptoks of Proofs/C01Wrapper.v in front of every admissible continuation. *)
From Coq Require Import String Ascii.
From Coq Require Import List Arith Bool Lia.
Require Import TT.Model.Str TT.Model.TypeParse TT.Model.Pipeline.
Require Import TT.Spec.TsLex TT.Spec.TsModule TT.Spec.TsObs TT.Spec.C01Wf TT.Model.C01Emit.
Require Import TT.Proofs.LexFacts TT.Proofs.C01Holes TT.Proofs.C01Skeleton TT.Proofs.C01TypeHole TT.Proofs.C01Lex TT.Proofs.C01Wrapper.
Import ListNotations.
Local Open Scope list_scope.
Local Open Scope char_scope.

Definition ptext_leaf (n : str) : str := if name_in n atp_globals then n else L "types." ++ n.
Fixpoint ptext (g : c_cfg) (t : tstruct) : str :=
  match t with
  | TPrim p => ptext_leaf p
  | TCustom n => ptext_leaf (custom_ts g n)
  | TArr u | TSet u => ptext g u ++ L "[]"
  | TMap _ _ | TTuple _ => render_m g t
  | TOpt u => if head_map u then render_m g t else ptext g u ++ L " | null"
  | TRes u => ptext g u
  end.
Fixpoint layers (t : tstruct) : nat :=
  match t with TArr u | TSet u | TOpt u => S (layers u) | TRes u => layers u | _ => 0 end.

(* ---------------------------------------------------------------- string facts *)
Lemma starts_self p r : starts p (p ++ r) = true.
Proof. induction p as [|a p IH]; [reflexivity|]. cbn [app starts]. rewrite Ascii.eqb_refl, IH. reflexivity. Qed.
Lemma starts_in p : forall s c, starts p s = true -> In c p -> In c s.
Proof. induction p as [|a p IH]; intros s c H Hin; [destruct Hin|]. destruct s as [|b s]; [discriminate|]. cbn [starts] in H.
  apply andb_true_iff in H as [E H]. apply Ascii.eqb_eq in E. subst b. destruct Hin as [->|Hin]; [left; reflexivity|right; apply (IH s c H Hin)]. Qed.
Lemma starts_app_split : forall p n r, starts p (n ++ r) = true -> starts p n = true \/ exists c r', In c p /\ r = c :: r'.
Proof. induction p as [|a p IH]; intros n r H; [left; reflexivity|]. destruct n as [|b n].
  - cbn [app] in H. destruct r as [|c r']; [discriminate|]. cbn [starts] in H. apply andb_true_iff in H as [E _]. apply Ascii.eqb_eq in E. subst c.
    right. exists a, r'. split; [left; reflexivity|reflexivity].
  - cbn [app starts] in H. apply andb_true_iff in H as [E H]. destruct (IH n r H) as [H1|[c [r' [Hc ->]]]].
    + left. cbn [starts]. rewrite E, H1. reflexivity.
    + right. exists c, r'. split; [right; exact Hc|reflexivity]. Qed.
Lemma strip_suffix_app suf x : strip_suffix suf (x ++ suf) = Some x.
Proof. unfold strip_suffix. rewrite rev_app_distr, starts_self, app_length. f_equal.
  replace (List.length x + List.length suf - List.length suf) with (List.length x) by lia.
  rewrite firstn_app, Nat.sub_diag, firstn_all. cbn [firstn]. apply app_nil_r. Qed.
Lemma strip_suffix_absent suf s c : In c suf -> ~ In c s -> strip_suffix suf s = None.
Proof. unfold strip_suffix. intros H1 H2. destruct (starts (rev suf) (rev s)) eqn:E; [|reflexivity]. exfalso. apply H2.
  apply in_rev. apply (starts_in _ _ c E). apply in_rev in H1. exact H1. Qed.
Lemma strip_suffix_last suf y d c0 rs : rev suf = c0 :: rs -> c0 <> d -> strip_suffix suf (y ++ [d]) = None.
Proof. intros Hs Hd. unfold strip_suffix. rewrite rev_app_distr, Hs. cbn [rev app starts].
  destruct (Ascii.eqb c0 d) eqn:E; [apply Ascii.eqb_eq in E; contradiction|reflexivity]. Qed.
Lemma strip_brackets_tuple y d : d <> "[" -> strip_suffix (L "[]") ((y ++ [d]) ++ ["]"]) = None.
Proof. intros Hd. unfold strip_suffix. rewrite !rev_app_distr. cbn [rev app L list_ascii_of_string starts].
  destruct (Ascii.eqb "[" d) eqn:E; [apply Ascii.eqb_eq in E; congruence|]. rewrite andb_false_r. reflexivity. Qed.

Lemma globals_idchars n : name_in n atp_globals = true -> forallb is_id_char n = true.
Proof. unfold name_in, atp_globals. cbn [existsb]. intros H.
  repeat (apply orb_true_iff in H; destruct H as [H|H]); try discriminate; apply str_eqb_eq in H; subst n; reflexivity. Qed.
Lemma not_global s c : In c s -> is_id_char c = false -> name_in s atp_globals = false.
Proof. intros Hin Hc. destruct (name_in s atp_globals) eqn:E; [|reflexivity]. apply globals_idchars in E.
  rewrite forallb_forall in E. rewrite (E c Hin) in Hc. discriminate. Qed.
Lemma ident_chars n : is_ts_identifier n = true -> forallb is_id_char n = true.
Proof. destruct n as [|c r]; [discriminate|]. cbn [is_ts_identifier forallb]. intros H. apply andb_true_iff in H as [Hc Hr].
  rewrite Hr. unfold is_id_char. rewrite Hc. reflexivity. Qed.
Lemma idchars_no n c : forallb is_id_char n = true -> is_id_char c = false -> ~ In c n.
Proof. intros H Hc Hin. rewrite forallb_forall in H. rewrite (H c Hin) in Hc. discriminate. Qed.

(* ---------------------------------------------------------------- unfolding *)
Lemma atp3_S f s : atp3 (S f) s =
  if name_in s atp_globals then s else
  match strip_suffix (L "[]") s with
  | Some base => atp3 f base ++ L "[]"
  | None =>
    if starts (L "Record<") s || starts (L "Map<") s then s else
    match strip_suffix (L " | null") s with
    | Some base => atp3 f base ++ L " | null"
    | None =>
      match strip_suffix (L " | undefined") s with
      | Some base => atp3 f base ++ L " | undefined"
      | None => if starts (L "[") s && ends_with "]" s then s
                else if starts (L "types.") s then s else L "types." ++ s
      end end end.
Proof. reflexivity. Qed.

(* ---------------------------------------------------------------- leaves *)
Lemma atp3_leaf f n : leaf_ok n = true -> atp3 (S f) n = ptext_leaf n.
Proof. intros Hl. pose proof (ident_chars n (leaf_ident n Hl)) as Hid. rewrite atp3_S. unfold ptext_leaf.
  destruct (name_in n atp_globals); [reflexivity|].
  rewrite (strip_suffix_absent (L "[]") n "]"); [|right; left; reflexivity|apply idchars_no; [exact Hid|reflexivity]].
  assert (starts (L "Record<") n = false) as E1.
  { destruct (starts (L "Record<") n) eqn:E; [|reflexivity]. exfalso. apply (idchars_no n "<" Hid eq_refl). apply (starts_in _ _ "<" E). cbn. tauto. }
  assert (starts (L "Map<") n = false) as E2.
  { destruct (starts (L "Map<") n) eqn:E; [|reflexivity]. exfalso. apply (idchars_no n "<" Hid eq_refl). apply (starts_in _ _ "<" E). cbn. tauto. }
  rewrite E1, E2. cbn [orb].
  rewrite (strip_suffix_absent (L " | null") n " "); [|left; reflexivity|apply idchars_no; [exact Hid|reflexivity]].
  rewrite (strip_suffix_absent (L " | undefined") n " "); [|left; reflexivity|apply idchars_no; [exact Hid|reflexivity]].
  assert (starts (L "[") n = false) as E3.
  { destruct (starts (L "[") n) eqn:E; [|reflexivity]. exfalso. apply (idchars_no n "[" Hid eq_refl). apply (starts_in _ _ "[" E). cbn. tauto. }
  assert (starts (L "types.") n = false) as E4.
  { destruct (starts (L "types.") n) eqn:E; [|reflexivity]. exfalso. apply (idchars_no n "." Hid eq_refl). apply (starts_in _ _ "." E). cbn. tauto. }
  rewrite E3, E4. reflexivity. Qed.

(* ---------------------------------------------------------------- how a rendered text starts and ends *)
Definition soft (r : str) : Prop := match r with [] => True | c :: _ => c = " " \/ c = "[" end.
Lemma leaf_no_tag (p : str) n r :
  (forall c, In c p -> c <> " " /\ c <> "[") -> (exists c, In c p /\ is_id_char c = false) ->
  forallb is_id_char n = true -> soft r -> starts p (n ++ r) = false.
Proof. intros Hp [c0 [Hc0 Hn0]] Hid Hr. destruct (starts p (n ++ r)) eqn:E; [|reflexivity]. exfalso.
  destruct (starts_app_split p n r E) as [H|[c [r' [Hc ->]]]].
  - apply (idchars_no n c0 Hid Hn0). apply (starts_in _ _ c0 H Hc0).
  - destruct (Hp c Hc) as [H1 H2]. cbn [soft] in Hr. destruct Hr; contradiction. Qed.
Lemma tag_record : (forall c, In c (L "Record<") -> c <> " " /\ c <> "[") /\ (exists c, In c (L "Record<") /\ is_id_char c = false).
Proof. split; [|exists "<"; split; [cbn; tauto|reflexivity]]. intros c H. cbn in H. repeat (destruct H as [<-|H]; [split; discriminate|]). destruct H. Qed.
Lemma tag_map : (forall c, In c (L "Map<") -> c <> " " /\ c <> "[") /\ (exists c, In c (L "Map<") /\ is_id_char c = false).
Proof. split; [|exists "<"; split; [cbn; tauto|reflexivity]]. intros c H. cbn in H. repeat (destruct H as [<-|H]; [split; discriminate|]). destruct H. Qed.

Lemma head_starts g : forall u r, leaves_ok g u = true -> soft r ->
  starts (L "Record<") (render_m g u ++ r) = head_map u /\ starts (L "Map<") (render_m g u ++ r) = false.
Proof. induction u as [s|t IH|k v IHk IHv|t IH|l IHl|t IH|t IH|s] using tstruct_ind'; intros r Hl Hr; cbn [render_m head_map leaves_ok] in *.
  - pose proof (ident_chars s (leaf_ident s Hl)) as Hid. split; apply leaf_no_tag; try assumption; [apply tag_record|apply tag_record|apply tag_map|apply tag_map].
  - rewrite <- app_assoc. apply IH; [exact Hl|right; reflexivity].
  - rewrite <- !app_assoc. split; [apply starts_self|reflexivity].
  - rewrite <- app_assoc. apply IH; [exact Hl|right; reflexivity].
  - destruct l as [|x l]; split; reflexivity.
  - rewrite <- app_assoc. apply IH; [exact Hl|left; reflexivity].
  - apply IH; assumption.
  - pose proof (ident_chars _ (leaf_ident _ Hl)) as Hid. split; apply leaf_no_tag; try assumption; [apply tag_record|apply tag_record|apply tag_map|apply tag_map]. Qed.

Lemma join_last (sep : str) : forall (l : list str) x, exists y z, In z (x :: l) /\ join sep (x :: l) = y ++ z.
Proof. induction l as [|x2 l IH]; intros x.
  - exists [], x. split; [left; reflexivity|reflexivity].
  - destruct (IH x2) as [y [z [Hz E]]]. exists (x ++ sep ++ y), z. split; [right; exact Hz|].
    change (join sep (x :: x2 :: l)) with (x ++ sep ++ join sep (x2 :: l)). rewrite E, <- !app_assoc. reflexivity. Qed.
Lemma leaf_last n : leaf_ok n = true -> exists y d, n = y ++ [d] /\ d <> "[".
Proof. intros Hl. pose proof (ident_chars n (leaf_ident n Hl)) as Hid. destruct n as [|c r]; [discriminate|].
  destruct (@exists_last _ (c :: r)) as [y [d E]]; [discriminate|]. exists y, d. split; [exact E|]. intros ->.
  apply (idchars_no (c :: r) "[" Hid eq_refl). rewrite E. apply in_or_app. right. left. reflexivity. Qed.
Lemma render_last g : forall t, leaves_ok g t = true -> exists y d, render_m g t = y ++ [d] /\ d <> "[".
Proof. induction t as [s|t IH|k v IHk IHv|t IH|l IHl|t IH|t IH|s] using tstruct_ind'; intros Hl; cbn [render_m leaves_ok] in *.
  - apply leaf_last. exact Hl.
  - exists (render_m g t ++ ["["]), "]". split; [rewrite <- app_assoc; reflexivity|discriminate].
  - exists (L "Record<" ++ render_m g k ++ L ", " ++ render_m g v), ">". split; [rewrite <- !app_assoc; reflexivity|discriminate].
  - exists (render_m g t ++ ["["]), "]". split; [rewrite <- app_assoc; reflexivity|discriminate].
  - destruct l as [|x l]; [exists (L "voi"), "d"; split; [reflexivity|discriminate]|].
    exists (L "[" ++ join (L ", ") (map (render_m g) (x :: l))), "]". split; [rewrite <- app_assoc; reflexivity|discriminate].
  - exists (render_m g t ++ L " | nul"), "l". split; [rewrite <- app_assoc; reflexivity|discriminate].
  - apply IH. exact Hl.
  - apply leaf_last. exact Hl. Qed.

(* ---------------------------------------------------------------- the text-level prefixing is the structural one *)
Theorem atp3_render g : forall t f, leaves_ok g t = true -> layers t < f -> atp3 f (render_m g t) = ptext g t.
Proof. induction t as [s|t IH|k v IHk IHv|t IH|l IHl|t IH|t IH|s] using tstruct_ind'; intros f Hl Hf; (destruct f as [|f]; [lia|]).
  - apply atp3_leaf. exact Hl.
  - cbn [render_m ptext layers leaves_ok] in *. rewrite atp3_S.
    rewrite (not_global _ "]"); [|apply in_or_app; right; right; left; reflexivity|reflexivity].
    rewrite strip_suffix_app, IH; [reflexivity|exact Hl|lia].
  - cbn [ptext]. rewrite atp3_S. cbn [render_m].
    rewrite (not_global _ "<"); [|apply in_or_app; left; cbn; tauto|reflexivity].
    destruct (render_last g (TMap k v) Hl) as [y [d [E Hd]]]. cbn [render_m] in E.
    assert (d = ">") as ->.
    { assert (rev (L "Record<" ++ render_m g k ++ L ", " ++ render_m g v ++ L ">") = rev (y ++ [d])) as Er by (rewrite E; reflexivity).
      rewrite !rev_app_distr in Er. cbn [rev app L list_ascii_of_string] in Er. injection Er as Er _. symmetry. exact Er. }
    rewrite E, (strip_suffix_last (L "[]") y ">" "]" ["["]); [|reflexivity|discriminate]. rewrite <- E.
    rewrite starts_self. reflexivity.
  - cbn [render_m ptext layers leaves_ok] in *. rewrite atp3_S.
    rewrite (not_global _ "]"); [|apply in_or_app; right; right; left; reflexivity|reflexivity].
    rewrite strip_suffix_app, IH; [reflexivity|exact Hl|lia].
  - cbn [ptext]. destruct l as [|x l]; [reflexivity|]. rewrite atp3_S. cbn [render_m].
    rewrite (not_global _ "["); [|left; reflexivity|reflexivity].
    destruct (join_last (L ", ") (map (render_m g) l) (render_m g x)) as [y [z [Hz E]]].
    change (render_m g x :: map (render_m g) l) with (map (render_m g) (x :: l)) in *.
    apply in_map_iff in Hz as [e [<- He]].
    cbn [leaves_ok] in Hl. rewrite forallb_forall in Hl. rewrite Forall_forall in IHl.
    destruct (render_last g e (Hl e He)) as [y2 [d [E2 Hd]]].
    set (s := L "[" ++ join (L ", ") (map (render_m g) (x :: l)) ++ L "]").
    assert (s = ((L "[" ++ y ++ y2) ++ [d]) ++ ["]"]) as Es by (unfold s; rewrite E, E2, <- !app_assoc; reflexivity).
    rewrite Es, strip_brackets_tuple by exact Hd. rewrite <- Es.
    change (starts (L "Record<") s) with false. change (starts (L "Map<") s) with false. cbn [orb].
    rewrite Es. rewrite (strip_suffix_last (L " | null") _ "]" "l" (rev (L " | nul"))); [|reflexivity|discriminate].
    rewrite (strip_suffix_last (L " | undefined") _ "]" "d" (rev (L " | undefine"))); [|reflexivity|discriminate].
    rewrite <- Es. change (starts (L "[") s) with true.
    assert (ends_with "]" s = true) as Ee by (unfold ends_with; rewrite Es, rev_app_distr; reflexivity).
    rewrite Ee. reflexivity.
  - cbn [render_m ptext layers leaves_ok] in *. rewrite atp3_S.
    rewrite (not_global _ " "); [|apply in_or_app; right; left; reflexivity|reflexivity].
    assert (render_m g t ++ L " | null" = (render_m g t ++ L " | nul") ++ ["l"]) as El by (rewrite <- app_assoc; reflexivity).
    rewrite El, (strip_suffix_last (L "[]") _ "l" "]" ["["]); [|reflexivity|discriminate]. rewrite <- El.
    destruct (head_starts g t (L " | null") Hl (or_introl eq_refl)) as [H1 H2]. rewrite H1, H2.
    destruct (head_map t); [reflexivity|]. cbn [orb].
    rewrite strip_suffix_app, IH; [reflexivity|exact Hl|lia].
  - cbn [render_m ptext layers leaves_ok] in *. apply IH; [exact Hl|lia].
  - apply atp3_leaf. exact Hl.
Qed.

Lemma layers_le_len g : forall t, layers t <= List.length (render_m g t).
Proof. induction t as [s|t IH|k v IHk IHv|t IH|l IHl|t IH|t IH|s] using tstruct_ind'; cbn [layers render_m]; try lia;
  try (rewrite app_length; cbn [List.length L list_ascii_of_string]; lia). Qed.
Theorem add_types_prefix3_render g t : leaves_ok g t = true -> add_types_prefix3 (render_m g t) = ptext g t.
Proof. intros Hl. unfold add_types_prefix3. apply atp3_render; [exact Hl|]. pose proof (layers_le_len g t). lia. Qed.

(* ---------------------------------------------------------------- lexing the prefixed text *)
Lemma lexes_ptext_leaf n : leaf_ok n = true -> lexes Pc (ptext_leaf n) (pleaf n).
Proof. intros Hl. unfold ptext_leaf, pleaf. destruct (name_in n atp_globals).
  - apply lexes_ident; [apply leaf_is_ident; exact Hl|apply Pc_bnd].
  - assert (ident n = true) as Hi by (apply leaf_is_ident; exact Hl).
    change (L "types." ++ n) with (L "types" ++ ["."] ++ n).
    apply (lexes_app bnd Pc _ _ [KId (L "types")] [P "."; KId n]); [apply lexes_ident; [reflexivity|auto]| |intros x _; reflexivity].
    apply (lexes_app (fun r => exists c r', r = c :: r' /\ is_id_start c = true) Pc _ _ [P "."] [KId n]);
      [apply lexes_dot; auto|apply lexes_ident; [exact Hi|apply Pc_bnd]|].
    intros x _. destruct n as [|c r]; [discriminate|]. exists c, (r ++ x). split; [reflexivity|].
    cbn [ident] in Hi. apply andb_true_iff in Hi as [Hc _]. exact Hc. Qed.

Theorem lexes_ptext g : forall t, leaves_ok g t = true -> lexes Pc (ptext g t) (ptoks g t).
Proof. induction t as [s|t IH|k v IHk IHv|t IH|l IHl|t IH|t IH|s] using tstruct_ind'; intros Hl.
  - apply lexes_ptext_leaf. exact Hl.
  - cbn [ptext ptoks]. apply (lexes_app Pc Pc); [apply IH; exact Hl|apply lexes_brackets|intros x Hx; apply Pc_cons; [reflexivity|discriminate]].
  - apply (lexes_render g (TMap k v) Hl).
  - cbn [ptext ptoks]. apply (lexes_app Pc Pc); [apply IH; exact Hl|apply lexes_brackets|intros x Hx; apply Pc_cons; [reflexivity|discriminate]].
  - apply (lexes_render g (TTuple l) Hl).
  - cbn [ptext ptoks]. destruct (head_map t); [apply (lexes_render g (TOpt t) Hl)|].
    apply (lexes_app Pc Pc); [apply IH; exact Hl|apply lexes_opt_null|intros x Hx; apply Pc_cons; [reflexivity|discriminate]].
  - cbn [ptext ptoks]. apply IH. exact Hl.
  - apply lexes_ptext_leaf. exact Hl. Qed.

(* the return type hole of a wrapper: its text lexes to the tokens of the token-level wrapper theorem *)
Theorem ret_text_lexes g c : leaves_ok g (ret_struct c) = true -> lexes Pc (ret_text g c) (ptoks g (ret_struct c)).
Proof. intros Hl. unfold ret_text. change (render_m g (pts match cc_ret c with Some t => qtts t | None => L "()" end)) with (render_m g (ret_struct c)).
  rewrite (add_types_prefix3_render g _ Hl). apply lexes_ptext. exact Hl. Qed.
