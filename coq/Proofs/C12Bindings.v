(* C12, binding histories: proofs about the symbol table as a state machine (Spec/C12Bind.v). *)
From Coq Require Import String Ascii.
From Coq Require Import List Arith Lia Bool.
Require Import TT.Model.Str TT.Model.TypeParse TT.Spec.TsLex TT.Spec.TsModule TT.Spec.TsObs TT.Model.Pipeline TT.Model.Events TT.Spec.C12Spec TT.Spec.C12Bind.
Require Import TT.Proofs.StrFacts TT.Proofs.C12Proofs.
Import ListNotations.
Local Open Scope list_scope.

(* ---- one step ---- *)
Lemma lookup_insert x v t sy : lookup x (insert v t sy) = if str_eqb x v then Some t else lookup x sy.
Proof. reflexivity. Qed.

Lemma lookup_bind x s sy :
  lookup x (bind sy s) = match typed_as x s sy with Some t => Some t | None => lookup x sy end.
Proof.
  destruct s as [e|p init|]; try reflexivity.
  destruct p as [v|v t|]; cbn [bind bind_local typed_as].
  - destruct init as [i|]; [|reflexivity].
    destruct (str_eqb (infer_init i sy) unknown).
    + destruct (str_eqb x v); reflexivity.
    + rewrite lookup_insert. destruct (str_eqb x v); reflexivity.
  - rewrite lookup_insert. destruct (str_eqb x v); reflexivity.
  - destruct init; reflexivity.
Qed.

(* an un-typable binding leaves the WHOLE table untouched *)
Lemma untypable_bind_id x s sy : rebinds x s = true -> typed_as x s sy = None -> bind sy s = sy.
Proof.
  destruct s as [e|p init|]; try reflexivity.
  destruct p as [v|v t|]; cbn [rebinds pat_name typed_as bind bind_local]; intros R T.
  - destruct init as [i|]; [|reflexivity]. rewrite R in T.
    destruct (str_eqb (infer_init i sy) unknown); [reflexivity|discriminate].
  - rewrite R in T. discriminate.
  - discriminate.
Qed.

Lemma typed_rebinds x s sy t : typed_as x s sy = Some t -> rebinds x s = true.
Proof.
  destruct s as [e|p init|]; try discriminate.
  destruct p as [v|v q|]; cbn [rebinds pat_name typed_as].
  - destruct init as [i|]; [|discriminate]. destruct (str_eqb x v); [reflexivity|discriminate].
  - destruct (str_eqb x v); [reflexivity|discriminate].
  - destruct init; discriminate.
Qed.

(* ---- the run ---- *)
Lemma run_cons sy s r : run sy (s :: r) = run (bind sy s) r.
Proof. reflexivity. Qed.
Lemma run_app sy a b : run sy (a ++ b) = run (run sy a) b.
Proof. unfold run. apply fold_left_app. Qed.

(* (1) the table entry of x after the run is the LAST TYPABLE binding of x, else the old entry *)
Lemma lookup_run x : forall ss sy,
  lookup x (run sy ss) = match last_typable x sy ss with Some t => Some t | None => lookup x sy end.
Proof.
  induction ss as [|s r IH]; intro sy; [reflexivity|].
  rewrite run_cons, IH. cbn [last_typable].
  destruct (last_typable x (bind sy s) r) as [t|]; [reflexivity|].
  apply lookup_bind.
Qed.

Lemma infer_run x ss sy : infer (run sy ss) (XPath [x]) = hist_type x sy ss.
Proof.
  unfold infer, hist_type. cbn [infer_payload]. rewrite lookup_run.
  destruct (last_typable x sy ss); reflexivity.
Qed.

(* un-typable re-bindings are invisible: deleting one from the history changes no table *)
Lemma untypable_invisible x pre s post sy :
  rebinds x s = true -> typed_as x s (run sy pre) = None ->
  run sy (pre ++ s :: post) = run sy (pre ++ post).
Proof.
  intros R T. rewrite !run_app, run_cons. rewrite (untypable_bind_id x s _ R T). reflexivity.
Qed.

(* when the last binding is typable it is the last typable binding *)
Lemma last_kind_typable x : forall ss sy t, last_kind x sy ss = Some (Some t) -> last_typable x sy ss = Some t.
Proof.
  induction ss as [|s r IH]; intros sy t; [discriminate|].
  cbn [last_kind last_typable].
  destruct (last_kind x (bind sy s) r) as [k|] eqn:K.
  - intro E. injection E as ->. rewrite (IH _ _ K). reflexivity.
  - assert (N : last_typable x (bind sy s) r = None).
    { clear - K. revert K. generalize (bind sy s). induction r as [|s' r' IH']; intro sy'; [reflexivity|].
      cbn [last_kind last_typable]. destruct (last_kind x (bind sy' s') r') eqn:K'; [discriminate|].
      rewrite (IH' _ K'). destruct (rebinds x s') eqn:R; [discriminate|]. intros _.
      destruct (typed_as x s' sy') eqn:T; [|reflexivity]. apply typed_rebinds in T. congruence. }
    rewrite N. destruct (rebinds x s); [|discriminate]. intro E. injection E as ->. reflexivity.
Qed.
Lemma last_kind_none x : forall ss sy, last_kind x sy ss = None -> last_typable x sy ss = None.
Proof.
  induction ss as [|s r IH]; intros sy; [reflexivity|].
  cbn [last_kind last_typable]. destruct (last_kind x (bind sy s) r) eqn:K; [discriminate|].
  rewrite (IH _ K). destruct (rebinds x s) eqn:R; [discriminate|]. intros _.
  destruct (typed_as x s sy) eqn:T; [|reflexivity]. apply typed_rebinds in T. congruence.
Qed.

(* the inferred type at the emit is the type of the last typable binding: the last binding itself
   when it is typable *)
Lemma infer_last_typable x ss sy t :
  last_kind x sy ss = Some (Some t) -> infer (run sy ss) (XPath [x]) = t.
Proof. intro K. rewrite infer_run. unfold hist_type. rewrite (last_kind_typable _ _ _ _ K). reflexivity. Qed.

(* inside the class the answer is the stale entry, whatever the last binding was *)
Lemma scope_class_stale x ss sy :
  kf_bind_scope x sy ss = true ->
  exists u, lookup x (run sy ss) = Some u /\ infer (run sy ss) (XPath [x]) = u /\ last_kind x sy ss = Some None.
Proof.
  unfold kf_bind_scope. destruct (last_kind x sy ss) as [[t|]|]; try discriminate.
  destruct (lookup x (run sy ss)) as [u|] eqn:E; [|discriminate]. intros _.
  exists u. unfold infer. cbn [infer_payload]. rewrite E. auto.
Qed.

(* ---- the walker on a straight-line history ---- *)
Lemma walk_plain e sy : plain e = true -> walk_expr e sy = ([], sy).
Proof. destruct e; try discriminate; reflexivity. Qed.
Lemma walk_plain_stmt s sy : plain_stmt s = true -> walk_stmt walk_expr s sy = ([], bind sy s).
Proof.
  destruct s as [e|p init|]; cbn [plain_stmt walk_stmt bind]; intro H.
  - apply walk_plain, H.
  - destruct init as [i|]; [apply walk_plain, H|reflexivity].
  - reflexivity.
Qed.
Lemma walk_var_payload x : forall e sy, var_payload x e = true ->
  walk_expr e sy = ([], sy) /\ infer_payload e sy = infer_payload (XPath [x]) sy.
Proof.
  induction e; intros sy H; try discriminate.
  - (* XMethod *) cbn [var_payload] in H. destruct args; [|discriminate].
    apply andb_true_iff in H. destruct H as [Hm Hr]. apply str_eqb_eq in Hm. subst m.
    destruct (IHe sy Hr) as [W I]. split.
    + cbn [walk_expr walk_list]. rewrite W. reflexivity.
    + cbn [infer_payload]. rewrite str_eqb_refl. exact I.
  - (* XPath *) cbn [var_payload] in H. destruct segs as [|y [|z r]]; try discriminate.
    apply str_eqb_eq in H. subst y. split; reflexivity.
  - (* XRef *) cbn [var_payload] in H. destruct (IHe sy H) as [W I]. split; [reflexivity|exact I].
Qed.

Lemma walk_method_full recv m args sy :
  walk_expr (XMethod recv m args) sy =
  let here := if is_emit_name m && is_emitter recv then emit_event m args sy else [] in
  let '(a, s1) := walk_expr recv sy in
  let '(b, s2) := walk_list walk_expr args s1 in (here ++ a ++ b, s2).
Proof. reflexivity. Qed.
Lemma emit_here n p sy :
  (if is_emit_name (L "emit") && is_emitter (XPath [L "app"]) then emit_event (L "emit") [XLit (LStr n); p] sy else [])
  = [(n, infer_payload p sy)].
Proof. reflexivity. Qed.
Lemma walk_emit_stmt n p sy : walk_expr p sy = ([], sy) ->
  walk_stmt walk_expr (emit_stmt n p) sy = ([(n, infer_payload p sy)], sy).
Proof.
  intro W. unfold emit_stmt. cbn [walk_stmt]. rewrite walk_method_full. cbv zeta. rewrite emit_here.
  change (walk_expr (XPath [L "app"]) sy) with (@nil (str * str), sy).
  cbn [walk_list].
  change (walk_expr (XLit (LStr n)) sy) with (@nil (str * str), sy).
  cbv iota beta. rewrite W. reflexivity.
Qed.

Lemma walk_history n p x : forall ss sy, forallb plain_stmt ss = true -> var_payload x p = true ->
  walk_stmts walk_expr (ss ++ [emit_stmt n p]) sy = ([(n, infer (run sy ss) (XPath [x]))], run sy ss).
Proof.
  induction ss as [|s r IH]; intros sy P V.
  - destruct (walk_var_payload x p sy V) as [W I].
    cbn [List.app walk_stmts]. rewrite (walk_emit_stmt n p sy W).
    change (run sy []) with sy. unfold infer. rewrite <- I. reflexivity.
  - cbn [forallb] in P. apply andb_true_iff in P. destruct P as [Ps Pr].
    cbn [List.app walk_stmts]. rewrite (walk_plain_stmt s sy Ps). rewrite (IH _ Pr V). reflexivity.
Qed.

Lemma fn_events_history params ss n p x :
  forallb plain_stmt ss = true -> var_payload x p = true ->
  fn_events_p params (ss ++ [emit_stmt n p]) = [(n, hist_type x (param_symbols params) ss)].
Proof.
  intros P V. unfold fn_events_p. cbn [walk_expr]. rewrite (walk_history n p x ss _ P V).
  cbn [fst]. rewrite infer_run. reflexivity.
Qed.

(* the listener of a straight-line function: its payload type is the text of hist_type *)
Lemma bindings_listener_hist params ss n p x :
  forallb plain_stmt ss = true -> var_payload x p = true ->
  model_listeners (fn_events_p params (ss ++ [emit_stmt n p])) =
  [{| ml_ident := listener_name n; ml_event := n; ml_payload := payload_ts (hist_type x (param_symbols params) ss) |}].
Proof. intros P V. rewrite (fn_events_history _ _ _ _ _ P V). reflexivity. Qed.

(* listener theorem on the complement of the class, last binding typable *)
Lemma bindings_listener_typable params ss n p x t :
  forallb plain_stmt ss = true -> var_payload x p = true ->
  last_kind x (param_symbols params) ss = Some (Some t) ->
  model_listeners (fn_events_p params (ss ++ [emit_stmt n p])) =
  [{| ml_ident := listener_name n; ml_event := n; ml_payload := payload_ts t |}].
Proof.
  intros P V K. rewrite (bindings_listener_hist _ _ _ _ _ P V).
  unfold hist_type. rewrite (last_kind_typable _ _ _ _ K). reflexivity.
Qed.

(* the whole complement of the scope class, case by case *)
Lemma bindings_complement x sy ss :
  kf_bind_scope x sy ss = false ->
  infer (run sy ss) (XPath [x]) =
  match last_kind x sy ss with
  | Some (Some t) => t                                   (* the last binding, typable *)
  | Some None => unraw x                                 (* un-typable and no entry: class C12-name *)
  | None => match lookup x sy with Some t => t | None => unraw x end   (* never re-bound: the parameter *)
  end.
Proof.
  intro C. destruct (last_kind x sy ss) as [[t|]|] eqn:K.
  - apply infer_last_typable, K.
  - unfold kf_bind_scope in C. rewrite K in C. unfold infer. cbn [infer_payload].
    destruct (lookup x (run sy ss)); [discriminate|reflexivity].
  - rewrite infer_run. unfold hist_type. rewrite (last_kind_none _ _ _ K). reflexivity.
Qed.

(* ---- witnesses ---- *)
Definition hist_typable : list stmt :=
  [SLet (PIdent (L "u")) (Some (XCall (V "compute") []));
   SLet (PIdent (L "u")) (Some (XStruct [L "User"]));
   SLet (PIdent (L "w")) (Some (XCall (V "other") []))].
Definition hist_scope : list stmt :=
  [SLet (PIdent (L "u")) (Some (XStruct [L "User"]));
   SLet (PTyped (L "k") (T0 "u32")) None;
   SLet (PIdent (L "u")) (Some (XCall (V "compute") []))].
Definition w_bind_scope := mk1 (hist_scope ++ [emit_stmt (L "hist") (V "u")]) true.
Lemma witness_bind_scope :
  witness w_bind_scope "kf_scope" /\
  kf_bind_scope (L "u") (param_symbols (map (fun q => (Some (fst q), snd q)) worker_params)) hist_scope = true /\
  map ml_payload (model_listeners (project_events w_bind_scope)) = [L "types.User"].
Proof. vm_compute. repeat split; congruence. Qed.
