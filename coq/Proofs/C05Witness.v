(* C05: one computed witness per recorded class: an in-domain type that lies in that class only and
   whose printed text (the faithful model's) the specification rejects. *)
From Coq Require Import String Ascii.
From Coq Require Import List Arith Bool.
Require Import TT.Model.Str TT.Model.TypeParse TT.Spec.TsType TT.Model.Render TT.Model.C05Emit.
Require Import TT.Spec.C05Spec TT.Spec.C05Known TT.Proofs.TypeParseProofs.
Import ListNotations.
Local Open Scope string_scope.
Definition lf (s : string) : rty := RPath (L s) [].

(* ---- one computed witness per class: the model's text is rejected by the specification ---- *)
Definition refuted (s : site) (md : mode) (t : rty) (k : kclass) : Prop :=
  dom_b t = true /\ classes_of s md [] t = [k] /\
  option_map (c05_ok s md [] t) (emit_type s md [] t) = Some false.

Definition w_union := RPath (L "Vec") [RPath (L "Option") [lf "String"]].
Definition w_pfx_unqualified := RPath (L "HashMap") [lf "String"; lf "User"].
Definition w_pfx_unqualified_seq := RPath (L "Vec") [RPath (L "HashMap") [lf "User"; lf "i32"]].
Definition w_zod_optional := RPath (L "Option") [lf "String"].
Definition w_zod_set := RPath (L "HashSet") [lf "String"].
Definition w_zod_result := RPath (L "Result") [lf "String"; lf "String"].
(* witnesses of the repaired classes (C05-2, C05-3, C05-4) *)
Definition w_result := RPath (L "Result") [RPath (L "HashMap") [lf "String"; lf "User"]; lf "String"].
Definition w_tuple := RTuple [lf "User"; RPath (L "HashMap") [lf "String"; lf "i32"]].
Definition w_pfx_composite := RPath (L "Vec") [RPath (L "Vec") [lf "String"]].

Ltac witness := split; [vm_compute; reflexivity | split; vm_compute; reflexivity].
Lemma union_under_seq_refuted : refuted SField MNone w_union KUnionUnderSeq. Proof. witness. Qed.
Lemma prefix_unqualified_refuted : refuted SReturn MNone w_pfx_unqualified KPrefixUnqualified. Proof. witness. Qed.
Lemma prefix_unqualified_seq_refuted : refuted SReturn MNone w_pfx_unqualified_seq KPrefixUnqualified. Proof. witness. Qed.
Lemma zod_optional_refuted : refuted SField MZod w_zod_optional KZodOptional. Proof. witness. Qed.
Lemma zod_set_refuted : refuted SField MZod w_zod_set KZodSet. Proof. witness. Qed.
Lemma zod_result_refuted : refuted SField MZod w_zod_result KZodResult. Proof. witness. Qed.

(* the repaired classes: on the old witnesses the model (= the patched code) now satisfies the
   specification at the site where it used to fail *)
Definition repaired (s : site) (md : mode) (t : rty) (text : string) : Prop :=
  dom_b t = true /\ classes_of s md [] t = [] /\
  emit_type s md [] t = Some (L text) /\ c05_ok s md [] t (L text) = true.
Ltac fixed := split; [vm_compute; reflexivity | split; [vm_compute; reflexivity | split; vm_compute; reflexivity]].
Lemma result_ok_has_comma_repaired : repaired SField MNone w_result "Record<string, User>". Proof. fixed. Qed.
Lemma tuple_elem_has_comma_repaired : repaired SField MNone w_tuple "[User, Record<string, number>]". Proof. fixed. Qed.
Lemma prefix_composite_repaired : repaired SReturn MNone w_pfx_composite "string[][]". Proof. fixed. Qed.

(* what the model prints for the remaining witnesses (compare known_findings/C05.json) *)
Example w_union_text : emit_type SField MNone [] w_union = Some (L "string | null[]"). Proof. vm_compute. reflexivity. Qed.
Example w_pfx_unqualified_text : emit_type SReturn MNone [] w_pfx_unqualified = Some (L "Record<string, User>"). Proof. vm_compute. reflexivity. Qed.
Example w_pfx_unqualified_seq_text : emit_type SReturn MNone [] w_pfx_unqualified_seq = Some (L "Record<User, number>[]"). Proof. vm_compute. reflexivity. Qed.
Example w_zod_optional_text : emit_type SField MZod [] w_zod_optional = Some (L "z.string().optional()"). Proof. vm_compute. reflexivity. Qed.
Example w_zod_set_text : emit_type SField MZod [] w_zod_set = Some (L "z.set(z.string())"). Proof. vm_compute. reflexivity. Qed.
Example w_zod_result_text : emit_type SField MZod [] w_zod_result = Some (L "z.union([z.string(), z.object({ error: z.string() })])"). Proof. vm_compute. reflexivity. Qed.
