(* C07: the layout composition. The scanned project of the model is the project of the specification
   (C03: the component test of the code is the test of the property text), so C07_exact and the oracle
   reflection lift to projects-with-layout; membership of a declared type in an accepted, parsable file;
   ignored files are a frame. *)
From Coq Require Import String Ascii.
From Coq Require Import List Arith Bool Permutation.
Require Import TT.Model.Str TT.Model.C07Worklist TT.Model.C07Reach TT.Model.C07Layout.
Require Import TT.Spec.C07Spec TT.Spec.C07LayoutSpec.
Require Import TT.Proofs.C07Concrete TT.Proofs.C07Full TT.Proofs.C09Oracle.
Require TT.Model.C03Discover TT.Spec.C03Spec TT.Proofs.C03Proofs.
Import ListNotations.

Lemma scan_file_spec root f : scan_file root f = spec_file f.
Proof. destruct f as [c k]. unfold scan_file, spec_file. cbn [fst snd].
  rewrite C03Proofs.accepted_spec_accept. destruct k, (C03Spec.spec_accept c); reflexivity. Qed.

Theorem scanned_spec root lp : scanned root lp = spec_project lp.
Proof. unfold scanned, spec_project. apply flat_map_ext. intro f. apply scan_file_spec. Qed.

Theorem layout_exact o root lp decl : ord_ok o -> in_domain (spec_project lp) = true ->
  kf_c07_field_result (spec_project lp) = false -> kf_c07_odd_name (spec_project lp) = false ->
  kf_c07_inline_mod (spec_project lp) = false -> kf_c07_payload_expr (spec_project lp) = false ->
  layout_declared o root lp = Some decl ->
  NoDup decl /\ (forall x, In x decl <-> LayoutSpecReach lp x) /\ Permutation decl (layout_reachable lp).
Proof. unfold layout_declared, LayoutSpecReach, layout_reachable. rewrite scanned_spec.
  intros Ho Hd K1 K2 K3 K4 H. exact (declared_exact_full o (spec_project lp) decl Ho Hd K1 K2 K3 K4 H). Qed.

Theorem layout_oracle_spec lp ob : in_domain (spec_project lp) = true -> c07_layout_ok lp ob = true ->
  NoDup (ob_types ob) /\ (forall x, In x (ob_types ob) <-> LayoutSpecReach lp x)
  /\ Permutation (ob_types ob) (layout_reachable lp).
Proof. unfold c07_layout_ok, LayoutSpecReach, layout_reachable. intros Hd H.
  exact (c07_oracle_spec (spec_project lp) ob Hd H). Qed.

(* the component test as a proposition *)
Theorem accept_reflect comps : C03Spec.spec_accept comps = true <-> AcceptedPath comps.
Proof. unfold C03Spec.spec_accept, AcceptedPath. rewrite andb_true_iff, negb_true_iff.
  split; intros [H1 H2]; (split; [exact H1|]).
  - intros d Hd. split; intro E; unfold DirNamed in E; subst d;
      (assert (X : existsb C03Spec.excluded_dir (removelast comps) = true)
         by (apply existsb_exists; eexists; split; [exact Hd|vm_compute; reflexivity]); congruence).
  - destruct (existsb C03Spec.excluded_dir (removelast comps)) eqn:E; [|reflexivity].
    apply existsb_exists in E. destruct E as (d & Hd & He). destruct (H2 d Hd) as [A B].
    unfold C03Spec.excluded_dir, C03Spec.seg_is in He. apply orb_true_iff in He.
    destruct He as [He|He]; apply str_eqb_true in He; [elim A|elim B]; exact He.
Qed.

Lemma in_spec_project lp f : In f (spec_project lp) ->
  exists comps its, In (comps, LParsed its) lp /\ C03Spec.spec_accept comps = true /\ f = (rel_path comps, its).
Proof. unfold spec_project. intro H. apply in_flat_map in H. destruct H as ([c k] & Hl & Hf).
  unfold spec_file in Hf. cbn [fst snd] in Hf. destruct k as [its| |]; try contradiction.
  destruct (C03Spec.spec_accept c) eqn:E; [|contradiction].
  destruct Hf as [Hf|[]]. exists c, its. split; [exact Hl|]. split; [exact E|]. symmetry. exact Hf. Qed.

(* a type the specification counts is a serde type defined in an accepted, parsable file *)
Theorem reach_defined_in_accepted lp x : LayoutSpecReach lp x -> DefinedInAccepted lp x.
Proof. intros [Hdef _]. unfold spec_defined in Hdef.
  destruct (spec_lookup (spec_project lp) x) as [d|] eqn:E; [|discriminate].
  unfold spec_lookup in E. apply find_some in E. destruct E as [Hin Hb].
  apply andb_true_iff in Hb. destruct Hb as [Hs Hn]. apply str_eqb_true in Hn.
  unfold spec_defs in Hin. apply in_flat_map in Hin. destruct Hin as (f & Hf & Hd).
  apply in_spec_project in Hf. destruct Hf as (c & its & Hl & Ha & ->). cbn [snd] in Hd.
  exists c, its, d. split; [exact Hl|]. split; [apply accept_reflect; exact Ha|].
  split; [exact Hd|]. split; [exact Hs|exact Hn]. Qed.

(* a name all of whose definitions lie below a directory component named exactly target or .git (or in files that
   are not stem.rs) is not in the specification's set *)
Theorem only_excluded_not_reached lp x :
  (forall comps its d, In (comps, LParsed its) lp -> In d (flat_map item_defs its) -> d_name d = x ->
     C03Spec.rs_name (last comps []) = false \/
     exists c, In c (removelast comps) /\ (DirNamed "target" c \/ DirNamed ".git" c)) ->
  ~ LayoutSpecReach lp x.
Proof. intros H R. apply reach_defined_in_accepted in R.
  destruct R as (c & its & d & Hl & [Hr Hc] & Hd & _ & Hn).
  destruct (H c its d Hl Hd Hn) as [E|(k & Hk & [E|E])].
  - exact (eq_true_false_abs _ Hr E).
  - exact (proj1 (Hc k Hk) E).
  - exact (proj2 (Hc k Hk) E).
Qed.

(* ignored files are a frame, for the model and for the specification *)
Lemma ignored_spec_file f : ignored f = true -> spec_file f = [].
Proof. destruct f as [c k]. unfold ignored, spec_file. cbn [fst snd].
  destruct k, (C03Spec.spec_accept c); cbn; intro H; try reflexivity; discriminate. Qed.

Theorem ignored_frame o root pre f post : ignored f = true ->
  scanned root (pre ++ f :: post) = scanned root (pre ++ post) /\
  layout_declared o root (pre ++ f :: post) = layout_declared o root (pre ++ post) /\
  layout_reachable (pre ++ f :: post) = layout_reachable (pre ++ post).
Proof. intro H.
  assert (S : spec_project (pre ++ f :: post) = spec_project (pre ++ post)).
  { unfold spec_project. rewrite !flat_map_app. cbn [flat_map]. rewrite (ignored_spec_file f H). reflexivity. }
  unfold layout_declared, layout_reachable. rewrite !scanned_spec, S. auto. Qed.

(* the sample walk: Cache (defined only below target/) and Deep (only below src/targets/target/) are outside the
   specification's set although BuildPlan mentions them; by the membership theorem, not by running the worklist *)
Ltac excluded_only :=
  let comps := fresh "comps" in let its := fresh "its" in let d := fresh "d" in
  let Hl := fresh "Hl" in let Hd := fresh "Hd" in let Hn := fresh "Hn" in
  apply only_excluded_not_reached; intros comps its d Hl Hd Hn;
  unfold sample_walk in Hl; cbn [In] in Hl;
  repeat (destruct Hl as [Hl|Hl];
          [first [ discriminate Hl
                 | injection Hl as <- <-;
                   first [ right; exists (L "target"); split; [vm_compute; tauto|left; reflexivity]
                         | exfalso; cbn in Hd; repeat (destruct Hd as [<-|Hd]; [vm_compute in Hn; discriminate Hn|]); exact Hd ] ]
          | ]); contradiction.
Lemma sample_not_reached : ~ LayoutSpecReach sample_walk (L "Cache") /\ ~ LayoutSpecReach sample_walk (L "Deep").
Proof. split; excluded_only. Qed.
