(* C10: the two nesting budgets of the string-level theorems follow from one bound on the depth of the
   TypeStructure. *)
From Coq Require Import String Ascii.
From Coq Require Import List Arith Lia Bool.
Require Import TT.Model.Str TT.Model.TypeParse TT.Spec.TsLex TT.Spec.TsModule TT.Spec.TsObs.
Require Import TT.Spec.C10Shape TT.Model.C10Zod TT.Proofs.C10Proofs TT.Proofs.C10ParseTy TT.Proofs.C10ParseEx.
Import ListNotations.
Local Open Scope list_scope.

Fixpoint tsdepth (t : tstruct) : nat :=
  match t with
  | TPrim _ | TCustom _ => 0
  | TArr u | TSet u | TOpt u | TRes u => S (tsdepth u)
  | TMap k v => S (Nat.max (tsdepth k) (tsdepth v))
  | TTuple l => S (fold_right (fun x acc => Nat.max (tsdepth x) acc) 0 l)
  end.
Definition maxd (l : list tstruct) : nat := fold_right (fun x acc => Nat.max (tsdepth x) acc) 0 l.

Lemma maxe_map (g : tstruct -> ex) l b : (forall x, In x l -> enest (g x) <= 2 * tsdepth x + b) -> maxe (map g l) <= 2 * maxd l + b.
Proof.
  induction l as [|a r IH]; intros H; [cbn; lia|]. cbn [map maxe maxd fold_right].
  pose proof (H a (or_introl eq_refl)). assert (maxe (map g r) <= 2 * maxd r + b) by (apply IH; intros; apply H; right; assumption).
  unfold maxe, maxd in *. lia.
Qed.

Lemma enest_zcustom m n : enest (zcustom_ex m n) <= 2.
Proof.
  unfold zcustom_ex. destruct (lookup m n); [|cbn; lia].
  repeat match goal with |- context [if ?c then _ else _] => destruct c end; cbn; lia.
Qed.

Lemma enest_bound m : forall t key, enest (zex_of m t key) <= 2 * tsdepth t + 3.
Proof.
  induction t as [p|u IH|k v IHk IHv|u IH|l IH|u IH|u IH|n] using ts_ind2; intros key; cbn [zex_of tsdepth].
  - repeat match goal with |- context [if ?c then _ else _] => destruct c end; cbn; lia.
  - specialize (IH false). unfold zcall, zid. cbn [enest fold_right]. lia.
  - specialize (IHk true). specialize (IHv false). unfold zcall, zid. cbn [enest fold_right]. lia.
  - specialize (IH false). unfold zcall, zid. cbn [enest fold_right]. lia.
  - destruct l as [|a l']; [cbn; lia|]. remember (a :: l') as l0.
    unfold zcall, zid. cbn [enest fold_right]. fold (maxe (map (fun x => zex_of m x false) l0)). fold (maxd l0).
    assert (maxe (map (fun x => zex_of m x false) l0) <= 2 * maxd l0 + 3).
    { apply maxe_map. intros x Hx. rewrite Forall_forall in IH. apply IH; exact Hx. }
    lia.
  - specialize (IH key). unfold link. cbn [enest fold_right]. lia.
  - specialize (IH false). unfold zcall, zid, error_obj, zcall, zid. cbn [enest fold_right snd]. lia.
  - pose proof (enest_zcustom m n). lia.
Qed.

(* the TypeScript side: array suffix and null alternative do not nest *)
Lemma maxnest_map_last l : maxnest (map_last TyArr l) = maxnest l.
Proof.
  induction l as [|a r IH]; [reflexivity|]. destruct r as [|b r']; [reflexivity|].
  change (map_last TyArr (a :: b :: r')) with (a :: map_last TyArr (b :: r')). unfold maxnest in *. cbn [fold_right] in *. rewrite IH. reflexivity.
Qed.
Lemma maxnest_app a b : maxnest (a ++ b) = Nat.max (maxnest a) (maxnest b).
Proof. induction a as [|x r IH]; [reflexivity|]. unfold maxnest in *. cbn [app fold_right]. rewrite IH. lia. Qed.
Lemma nest_arr_of x : nest (arr_of x) = nest x.
Proof. destruct x; try reflexivity. cbn [arr_of nest]. apply maxnest_map_last. Qed.
Lemma nest_opt_of x : nest (opt_of x) = nest x.
Proof.
  destruct x as [p a|y|l|l|s|p|ps r|ms ix]; cbn [opt_of]; try (cbn [nest fold_right null_ty]; lia).
  cbn [nest]. fold (maxnest (l ++ [null_ty])). fold (maxnest l). rewrite maxnest_app. cbn. lia.
Qed.
Lemma maxnest_map (g : tstruct -> ty) l : (forall x, In x l -> nest (g x) <= tsdepth x) -> maxnest (map g l) <= maxd l.
Proof.
  induction l as [|a r IH]; intros H; [cbn; lia|]. cbn [map maxnest maxd fold_right].
  pose proof (H a (or_introl eq_refl)). assert (maxnest (map g r) <= maxd r) by (apply IH; intros; apply H; right; assumption).
  unfold maxnest, maxd in *. lia.
Qed.

Lemma nest_bound m : map_ok m = true -> forall t, nest (ts_ty_of m t) <= tsdepth t.
Proof.
  intros Hm. induction t as [p|u IH|k v IHk IHv|u IH|l IH|u IH|u IH|n] using ts_ind2; cbn [ts_ty_of tsdepth].
  - cbn; lia.
  - rewrite nest_arr_of. lia.
  - cbn [nest fold_right]. lia.
  - rewrite nest_arr_of. lia.
  - destruct l as [|a l']; [cbn; lia|]. remember (a :: l') as l0. cbn [nest]. fold (maxnest (map (ts_ty_of m) l0)). fold (maxd l0).
    assert (maxnest (map (ts_ty_of m) l0) <= maxd l0) by (apply maxnest_map; intros x Hx; rewrite Forall_forall in IH; apply IH; exact Hx). lia.
  - rewrite nest_opt_of. lia.
  - lia.
  - rewrite custom_ty_prim by exact Hm. cbn; lia.
Qed.

Lemma budgets m t key : map_ok m = true -> tsdepth t < 31 -> nest (ts_ty_of m t) < TYF /\ enest (zex_of m t key) < 64.
Proof.
  intros Hm Hd. pose proof (nest_bound m Hm t). pose proof (enest_bound m t key). unfold TYF. split; lia.
Qed.
