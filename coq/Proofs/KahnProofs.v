From Coq Require Import List Arith Lia Bool Permutation.
Require Import TT.Model.Base TT.Model.Kahn.
Import ListNotations.

Section Kahn.
Context {node : Type} {ED : EqDec node}.
Local Notation dep := (Kahn.dep node).

Definition before (v u : node) (l : list node) : Prop := exists l1 l2 l3, l = l1 ++ v :: l2 ++ u :: l3.
Definition topo_order (ns : list node) (deps : list dep) (l : list node) : Prop :=
  Permutation l ns /\ forall d, In d deps -> before (snd d) (fst d) l.
Definition closed (ns : list node) (deps : list dep) : Prop :=
  forall d, In d deps -> In (fst d) ns /\ In (snd d) ns.

(* number of dependencies of n whose target is not yet emitted *)
Definition pend_pred (R : list node) (n : node) (d : dep) : bool := eqb (fst d) n && negb (memb (snd d) R).
Definition pending (deps : list dep) (R : list node) (n : node) : nat := length (filter (pend_pred R n) deps).

Lemma eqb_true a b : eqb a b = true <-> a = b.
Proof. unfold eqb; destruct (eq_dec a b); split; congruence. Qed.
Lemma eqb_refl a : eqb a a = true. Proof. apply eqb_true; auto. Qed.
Lemma memb_true x l : memb x l = true <-> In x l.
Proof. unfold memb; destruct (in_dec eq_dec x l); split; auto; discriminate. Qed.
Lemma memb_false x l : memb x l = false <-> ~ In x l.
Proof. unfold memb; destruct (in_dec eq_dec x l); split; auto; try discriminate; tauto. Qed.

(* effect of the decrement fold *)
Lemma fold_dec : forall l dg q dg' q',
  (forall a, count_occ eq_dec l a <= dg a) ->
  fold_left dec_step l (dg, q) = (dg', q') ->
  (forall a, dg' a = dg a - count_occ eq_dec l a) /\
  exists new, q' = q ++ new /\ NoDup new /\
    (forall a, In a new <-> In a l /\ dg' a = 0).
Proof.
  induction l as [|x l IH]; intros dg q dg' q' Hc Hf; simpl in Hf.
  - inversion Hf; subst. split. intros; simpl; lia. exists []. rewrite app_nil_r. split; auto. split. constructor.
    intros a; split; [intros []|intros [[] _]].
  - pose proof (Hc x) as Hx. simpl in Hx. destruct (eq_dec x x) as [_|]; [|congruence].
    set (d := dg x - 1) in *.
    assert (Hc' : forall a, count_occ eq_dec l a <= upd dg x d a).
    { intros a. specialize (Hc a). simpl in Hc. unfold upd. destruct (eq_dec a x) as [->|Hn].
      - destruct (eq_dec x x); [|congruence]. unfold d. lia.
      - destruct (eq_dec x a); [congruence|]. lia. }
    destruct (IH _ _ _ _ Hc' Hf) as (Hdg & new & Hq & Hnd & Hnew).
    assert (Hdg' : forall a, dg' a = dg a - count_occ eq_dec (x :: l) a).
    { intros a. rewrite Hdg. unfold upd. simpl. destruct (eq_dec a x) as [->|Hn].
      - destruct (eq_dec x x); [|congruence]. unfold d. lia.
      - destruct (eq_dec x a); [congruence|]. lia. }
    split; auto.
    destruct (d =? 0) eqn:Ed.
    + apply Nat.eqb_eq in Ed.
      assert (Hxl : ~ In x l).
      { intro Hin. apply (count_occ_In eq_dec) in Hin. specialize (Hc' x). unfold upd in Hc'. destruct (eq_dec x x); [|congruence]. lia. }
      exists (x :: new). split. { rewrite Hq. rewrite <- app_assoc. reflexivity. }
      split. { constructor; auto. intro Hin. apply Hnew in Hin. tauto. }
      intros a; split.
      * intros [<-|Hin]. split; [left; auto|]. rewrite Hdg'. simpl. destruct (eq_dec x x); [|congruence]. unfold d in Ed. lia.
        apply Hnew in Hin. split; [right|]; tauto.
      * intros [[<-|Hin] H0]; [left; auto|]. right. apply Hnew. auto.
    + apply Nat.eqb_neq in Ed. exists new. split; auto. split; auto.
      intros a; split.
      * intros Hin. apply Hnew in Hin. split; [right|]; tauto.
      * intros [[<-|Hin] H0]. 
        -- (* x itself: dg' x = 0 means a later occurrence brought it to 0 *)
           apply Hnew. split; auto. apply (count_occ_In eq_dec). rewrite Hdg in H0. unfold upd in H0. destruct (eq_dec x x); [|congruence]. lia.
        -- apply Hnew. auto.
Qed.


(* ---------------- counting lemmas ---------------- *)
Lemma count_adj deps n a :
  count_occ eq_dec (adj deps n) a = length (filter (fun d => eqb (fst d) a && eqb (snd d) n) deps).
Proof. unfold adj. induction deps as [|[f t] deps IH]; simpl; auto.
  destruct (eqb t n) eqn:Et; simpl.
  - destruct (eq_dec f a) as [->|Hn]. + rewrite eqb_refl. simpl. rewrite IH. reflexivity.
    + replace (eqb f a) with false by (symmetry; unfold eqb; destruct (eq_dec f a); congruence). simpl. auto.
  - rewrite andb_false_r. auto. Qed.

Lemma memb_snoc_other t n R : t <> n -> memb t (R ++ [n]) = memb t R.
Proof. intros Htn. destruct (memb t R) eqn:E. apply memb_true. apply memb_true in E. apply in_or_app; auto.
  apply memb_false. apply memb_false in E. intro H. apply in_app_or in H as [|[|[]]]; auto. Qed.

Lemma pend_pred_eq R a f t : pend_pred R a (f, t) = eqb f a && negb (memb t R).
Proof. reflexivity. Qed.

Lemma pending_split deps R n a : ~ In n R ->
  pending deps R a = pending deps (R ++ [n]) a + length (filter (fun d => eqb (fst d) a && eqb (snd d) n) deps).
Proof. intros Hn. unfold pending.
  induction deps as [|[f t] deps IH]; [reflexivity|].
  cbn [filter]. rewrite !pend_pred_eq. cbn [fst snd].
  destruct (eqb f a) eqn:Ef; cbn [andb]; auto.
  destruct (eq_dec t n) as [->|Htn].
  - rewrite eqb_refl. replace (memb n (R ++ [n])) with true by (symmetry; apply memb_true; apply in_or_app; right; left; auto).
    replace (memb n R) with false by (symmetry; apply memb_false; auto). cbn [negb length]. rewrite IH. lia.
  - replace (eqb t n) with false by (symmetry; unfold eqb; destruct (eq_dec t n); congruence).
    rewrite (memb_snoc_other t n R Htn). destruct (negb (memb t R)); cbn [length]; rewrite IH; lia.
Qed.

Lemma pending_snoc deps R n a : ~ In n R ->
  pending deps (R ++ [n]) a = pending deps R a - count_occ eq_dec (adj deps n) a.
Proof. intros Hn. rewrite count_adj. rewrite (pending_split deps R n a Hn). lia. Qed.

Lemma count_le_pending deps R n a : ~ In n R -> count_occ eq_dec (adj deps n) a <= pending deps R a.
Proof. intros Hn. rewrite count_adj. rewrite (pending_split deps R n a Hn). lia. Qed.

Lemma pending_zero deps R a : pending deps R a = 0 <-> forall d, In d deps -> fst d = a -> In (snd d) R.
Proof. unfold pending. split.
  - intros H d Hd Hf. destruct (in_dec eq_dec (snd d) R) as [|Hn]; auto. exfalso.
    assert (Hin : In d (filter (pend_pred R a) deps)).
    { apply filter_In. split; auto. unfold pend_pred. subst a. rewrite eqb_refl. simpl. apply negb_true_iff. apply memb_false; auto. }
    apply length_zero_iff_nil in H. rewrite H in Hin. contradiction.
  - intros H. destruct (filter (pend_pred R a) deps) as [|d l] eqn:E; auto. exfalso.
    assert (Hd : In d (filter (pend_pred R a) deps)) by (rewrite E; left; auto).
    apply filter_In in Hd as [Hd Hb]. unfold pend_pred in Hb. apply andb_true_iff in Hb as [Hb1 Hb2]. apply eqb_true in Hb1.
    apply negb_true_iff in Hb2. apply memb_false in Hb2. apply Hb2. apply H; auto. Qed.

Lemma adj_in deps n a : In a (adj deps n) <-> exists d, In d deps /\ fst d = a /\ snd d = n.
Proof. unfold adj. rewrite in_map_iff. split.
  - intros (d & <- & Hd). apply filter_In in Hd as [Hd Hb]. apply eqb_true in Hb. eauto.
  - intros (d & Hd & <- & <-). exists d. split; auto. apply filter_In. split; auto. apply eqb_refl. Qed.

Lemma before_app_r v u l a : before v u l -> before v u (l ++ a).
Proof. intros (l1 & l2 & l3 & ->). exists l1, l2, (l3 ++ a).
  rewrite <- !app_assoc. simpl. rewrite <- !app_assoc. reflexivity. Qed.
Lemma before_split v u l m : In v l -> In u m -> before v u (l ++ m).
Proof. intros Hv Hu. apply in_split in Hv as (a & b & ->). apply in_split in Hu as (c & e & ->).
  exists a, (b ++ c), e. repeat rewrite <- app_assoc. simpl. repeat rewrite <- app_assoc. reflexivity. Qed.

Lemma NoDup_app_intro (l m : list node) : NoDup l -> NoDup m -> (forall a, In a m -> ~ In a l) -> NoDup (l ++ m).
Proof. intros Hl Hm Hd. induction Hl as [|x l Hx Hl IH]; simpl; auto.
  constructor. - intro H. apply in_app_or in H as [|H]; auto. apply (Hd x H). left; auto.
  - apply IH. intros a Ha Hal. apply (Hd a Ha). right; auto. Qed.

(* ---------------- loop invariant ---------------- *)
Section Inv.
Variable ns : list node.
Variable deps : list dep.
Hypothesis Hclosed : closed ns deps.

Record KInv (q : list node) (dg : node -> nat) (R : list node) : Prop := {
  k_nd : NoDup (R ++ q);
  k_in : incl (R ++ q) ns;
  k_dg : forall n, In n ns -> dg n = pending deps R n;
  k_zero : forall n, In n ns -> (In n (R ++ q) <-> dg n = 0);
  k_ord : forall d, In d deps -> In (fst d) (R ++ q) -> before (snd d) (fst d) (R ++ q)
}.

Lemma KInv_step n q1 dg R dg' q' :
  KInv (n :: q1) dg R -> fold_left dec_step (adj deps n) (dg, q1) = (dg', q') ->
  KInv q' dg' (R ++ [n]).
Proof.
  intros [Hnd Hin Hdg Hz Hord] Hf.
  assert (HnR : ~ In n R). { apply NoDup_remove_2 in Hnd. intro; apply Hnd. apply in_or_app; auto. }
  assert (Hnns : In n ns) by (apply Hin; apply in_or_app; right; left; auto).
  assert (Hpre : forall a, count_occ eq_dec (adj deps n) a <= dg a).
  { intros a. destruct (in_dec eq_dec a ns) as [Ha|Ha].
    - rewrite Hdg by auto. apply count_le_pending; auto.
    - replace (count_occ eq_dec (adj deps n) a) with 0; [lia|]. symmetry. apply count_occ_not_In.
      intro Hx. apply adj_in in Hx as (d & Hd & <- & _). apply Ha. apply Hclosed; auto. }
  destruct (fold_dec _ _ _ _ _ Hpre Hf) as (Hdg' & new & -> & Hndn & Hnew).
  assert (Heq : (R ++ [n]) ++ q1 ++ new = (R ++ n :: q1) ++ new) by (rewrite <- !app_assoc; reflexivity).
  assert (Hnewns : forall a, In a new -> In a ns).
  { intros a Ha. apply Hnew in Ha as [Ha _]. apply adj_in in Ha as (d & Hd & <- & _). apply Hclosed; auto. }
  assert (Hnewfresh : forall a, In a new -> ~ In a (R ++ n :: q1)).
  { intros a Ha Hold. pose proof (Hnewns a Ha) as Hans. apply Hz in Hold; auto.
    apply Hnew in Ha as [Ha _]. apply (count_occ_In eq_dec) in Ha. specialize (Hpre a). lia. }
  constructor.
  - rewrite Heq. apply NoDup_app_intro; auto. 
  - rewrite Heq. intros x Hx. apply in_app_or in Hx as [|]; auto.
  - intros a Ha. rewrite Hdg', Hdg by auto. symmetry. apply pending_snoc; auto.
  - intros a Ha. rewrite Heq. split.
    + intros Hx. apply in_app_or in Hx as [Hx|Hx].
      * apply Hz in Hx; auto. rewrite Hdg'. lia.
      * apply Hnew in Hx. tauto.
    + intros H0. destruct (Nat.eq_dec (dg a) 0) as [E|E].
      * apply in_or_app; left. apply Hz; auto.
      * apply in_or_app; right. apply Hnew. split; auto. apply (count_occ_In eq_dec). rewrite Hdg' in H0. lia.
  - intros d Hd Hx. rewrite Heq in *. apply in_app_or in Hx as [Hx|Hx].
    + apply before_app_r. apply Hord; auto.
    + assert (H0 : dg' (fst d) = 0) by (apply Hnew in Hx; tauto).
      assert (Hp : pending deps (R ++ [n]) (fst d) = 0).
      { rewrite pending_snoc by auto. rewrite <- Hdg by (apply Hnewns; auto). rewrite <- Hdg'. auto. }
      rewrite pending_zero in Hp. specialize (Hp d Hd eq_refl).
      apply before_split; auto. apply in_app_or in Hp as [|[<-|[]]]; apply in_or_app; auto. right; left; auto.
Qed.

Lemma loop_inv : forall fuel q dg R, KInv q dg R -> length ns - length R < fuel ->
  exists res, loop fuel deps q dg R = Some res /\ exists dg', KInv [] dg' res.
Proof.
  induction fuel as [|f IH]; intros q dg R HK Hf; [lia|].
  destruct q as [|n q1]; simpl.
  - exists R. split; auto. exists dg. auto.
  - destruct (fold_left dec_step (adj deps n) (dg, q1)) as [dg' q'] eqn:Ef.
    pose proof (KInv_step _ _ _ _ _ _ HK Ef) as HK'.
    apply (IH q' dg' (R ++ [n]) HK').
    destruct HK as [Hnd Hin _ _ _].
    pose proof (NoDup_incl_length Hnd Hin) as Hlen. rewrite !app_length in *. simpl in *. lia.
Qed.
End Inv.

Lemma filter_ext_len {A} (f g : A -> bool) l : (forall x, f x = g x) -> length (filter f l) = length (filter g l).
Proof. intros H. induction l; simpl; auto. rewrite H. destruct (g a); simpl; auto. Qed.

Lemma KInv_init order deps : NoDup order -> closed order deps ->
  KInv order deps (filter (fun n => indeg deps n =? 0) order) (indeg deps) [].
Proof. intros Hnd Hc. constructor; simpl.
  - apply NoDup_filter; auto.
  - intros x Hx. apply filter_In in Hx. tauto.
  - intros n _. unfold indeg, pending. apply filter_ext_len. intros d. unfold pend_pred. simpl. rewrite andb_true_r. auto.
  - intros n Hn. rewrite filter_In. rewrite Nat.eqb_eq. tauto.
  - intros d Hd Hx. apply filter_In in Hx as [_ Hx]. apply Nat.eqb_eq in Hx. exfalso.
    unfold indeg in Hx. apply length_zero_iff_nil in Hx.
    assert (In d (filter (fun d0 => eqb (fst d0) (fst d)) deps)) by (apply filter_In; split; auto; apply eqb_refl).
    rewrite Hx in H. contradiction.
Qed.

Lemma NoDup_split_unique (x : node) : forall a b a' b', NoDup (a ++ x :: b) -> a ++ x :: b = a' ++ x :: b' -> a = a'.
Proof. induction a as [|y a IH]; intros b a' b' Hnd E.
  - destruct a' as [|z a']; auto. simpl in *. inversion E; subst. inversion Hnd; subst. exfalso. apply H1. apply in_or_app; right; left; auto.
  - destruct a' as [|z a']; simpl in *.
    + inversion E; subst. inversion Hnd; subst. exfalso. apply H1. apply in_or_app; right; left; auto.
    + inversion E; subst. f_equal. inversion Hnd; subst. eapply IH; eauto.
Qed.

Lemma before_in_prefix L a x b v : NoDup L -> L = a ++ x :: b -> before v x L -> In v a.
Proof. intros Hnd E (l1 & l2 & l3 & E'). subst L.
  assert (a = l1 ++ v :: l2).
  { eapply (NoDup_split_unique x); eauto. rewrite E'. rewrite <- app_assoc. reflexivity. }
  subst a. apply in_or_app; right; left; auto. Qed.

(* ================= C20, build-order resolver ================= *)
Theorem kahn_never_out_of_fuel order deps : NoDup order -> closed order deps -> kahn order deps <> OutOfFuel.
Proof. intros Hnd Hc. unfold kahn.
  destruct (loop_inv order deps Hc (S (length order)) _ _ [] (KInv_init order deps Hnd Hc)) as (res & -> & _); [simpl; lia|].
  destruct (_ =? _); discriminate. Qed.

Theorem kahn_ok_valid order deps l : NoDup order -> closed order deps ->
  kahn order deps = Ok l -> topo_order order deps l.
Proof. intros Hnd Hc. unfold kahn.
  destruct (loop_inv order deps Hc (S (length order)) _ _ [] (KInv_init order deps Hnd Hc)) as (res & -> & dg' & HK); [simpl; lia|].
  destruct (length res =? length order) eqn:El; [|discriminate]. intros E; inversion E; subst l. apply Nat.eqb_eq in El.
  destruct HK as [Hnd' Hin _ _ Hord]. rewrite app_nil_r in *.
  assert (Hperm : Permutation res order) by (apply NoDup_Permutation_bis; auto; lia).
  split; auto. intros d Hd. apply Hord; auto.
  apply (Permutation_in _ (Permutation_sym Hperm)). apply Hc; auto. Qed.

Theorem kahn_complete order deps : NoDup order -> closed order deps ->
  (exists L, topo_order order deps L) -> exists l, kahn order deps = Ok l.
Proof. intros Hnd Hc (L & HpL & HoL). unfold kahn.
  destruct (loop_inv order deps Hc (S (length order)) _ _ [] (KInv_init order deps Hnd Hc)) as (res & -> & dg' & HK); [simpl; lia|].
  destruct HK as [Hnd' Hin Hdg Hz _]. rewrite app_nil_r in *.
  assert (HndL : NoDup L) by (eapply Permutation_NoDup; [apply Permutation_sym; eauto|auto]).
  assert (Hall : forall a b, L = a ++ b -> forall y, In y a -> In y res).
  { induction a as [|x a IH] using rev_ind; intros b E y Hy; [contradiction|].
    rewrite <- app_assoc in E. simpl in E.
    apply in_app_or in Hy as [Hy|[<-|[]]]; [eapply IH; eauto|].
    assert (Hx : In x order) by (apply (Permutation_in _ HpL); rewrite E; apply in_or_app; right; left; auto).
    apply Hz; auto. rewrite Hdg by auto. apply pending_zero.
    intros d Hd Hf. subst x. eapply IH; eauto. eapply before_in_prefix; eauto. }
  assert (Hincl : incl order res).
  { intros y Hy. apply (Hall L [] (eq_sym (app_nil_r L))). apply (Permutation_in _ (Permutation_sym HpL)); auto. }
  pose proof (NoDup_incl_length Hnd Hincl). pose proof (NoDup_incl_length Hnd' Hin).
  replace (length res =? length order) with true by (symmetry; apply Nat.eqb_eq; lia). eauto. Qed.

End Kahn.
