From Coq Require Import List Arith Lia Bool.
Import ListNotations.

Section Run.
  Variables src cfg fname content fpT : Type.
  Variable fname_dec : forall a b : fname, {a = b} + {a <> b}.
  Variable fp_dec : forall a b : fpT, {a = b} + {a <> b}.
  Variable files : src -> cfg -> list (fname * content).   (* forced generation, in write order *)
  Variable fp : src -> cfg -> fpT.
  Variable has_commands : src -> bool.
  Variable check_presence : bool.    (* false = faithful to the pinned code, true = repaired *)

  Hypothesis files_fun : forall s c, NoDup (map fst (files s c)).

  Record state := { s_src : src; s_cfg : cfg; s_out : fname -> option content; s_cache : option fpT }.

  Definition upd (o : fname -> option content) (f : fname) (x : option content) : fname -> option content :=
    fun g => if fname_dec g f then x else o g.

  (* write the first k files of the plan *)
  Fixpoint write_all (l : list (fname * content)) (o : fname -> option content) :=
    match l with [] => o | (f, x) :: l' => write_all l' (upd o f (Some x)) end.

  Definition present (o : fname -> option content) (l : list (fname * content)) : bool :=
    forallb (fun p => match o (fst p) with Some _ => true | None => false end) l.

  Inductive result := NoCommands | UpToDate | Success | Failure.

  Definition cache_hit (st : state) : bool :=
    match s_cache st with
    | Some h => if fp_dec h (fp (s_src st) (s_cfg st)) then
                  (if check_presence then present (s_out st) (files (s_src st) (s_cfg st)) else true)
                else false
    | None => false
    end.

  (* fault = Some k : the k-th write (0-based) fails; k = length plan means the cache write fails *)
  Definition run (force : bool) (fault : option nat) (st : state) : result * state :=
    if negb (has_commands (s_src st)) then (NoCommands, st)
    else if negb force && cache_hit st then (UpToDate, st)
    else
      let plan := files (s_src st) (s_cfg st) in
      match fault with
      | Some k =>
          if k <? length plan then
            (Failure, {| s_src := s_src st; s_cfg := s_cfg st;
                         s_out := write_all (firstn k plan) (s_out st); s_cache := s_cache st |})
          else (* cache write fails: warning only *)
            (Success, {| s_src := s_src st; s_cfg := s_cfg st;
                         s_out := write_all plan (s_out st); s_cache := None |})
      | None =>
          (Success, {| s_src := s_src st; s_cfg := s_cfg st;
                       s_out := write_all plan (s_out st);
                       s_cache := Some (fp (s_src st) (s_cfg st)) |})
      end.

  Inductive op := SetSrc (s : src) | SetCfg (c : cfg) | Delete (f : fname) | Run (force : bool).

  Definition step (st : state) (o : op) : state :=
    match o with
    | SetSrc s => {| s_src := s; s_cfg := s_cfg st; s_out := s_out st; s_cache := s_cache st |}
    | SetCfg c => {| s_src := s_src st; s_cfg := c; s_out := s_out st; s_cache := s_cache st |}
    | Delete f => {| s_src := s_src st; s_cfg := s_cfg st; s_out := upd (s_out st) f None; s_cache := s_cache st |}
    | Run force => snd (run force None st)
    end.

  (* the fingerprint determines the output *)
  Hypothesis fp_sound : forall s c s' c', fp s c = fp s' c' -> files s c = files s' c'.

  (* "the record never vouches for content that is present and different" *)
  Definition Inv (st : state) : Prop :=
    forall h, s_cache st = Some h -> forall s0 c0, fp s0 c0 = h ->
    forall f x, In (f, x) (files s0 c0) ->
      s_out st f = Some x \/ (check_presence = true /\ s_out st f = None).

  Lemma write_all_in : forall l o f x, NoDup (map fst l) -> In (f, x) l -> write_all l o f = Some x.
  Proof. induction l as [|[g y] l IH]; intros o f x Hnd Hin; simpl in *; [contradiction|].
    inversion Hnd; subst. destruct Hin as [E|Hin].
    - inversion E; subst. clear IH. 
      assert (forall l o, ~ In f (map fst l) -> write_all l o f = o f).
      { clear. induction l as [|[g y] l IH]; intros o Hn; simpl in *; auto.
        rewrite IH by tauto. unfold upd. destruct (fname_dec f g); auto. subst; tauto. }
      rewrite H by auto. unfold upd. destruct (fname_dec f f); congruence.
    - apply IH; auto.
  Qed.

  Lemma write_all_notin : forall l o f, ~ In f (map fst l) -> write_all l o f = o f.
  Proof. induction l as [|[g y] l IH]; intros o f Hn; simpl in *; auto.
    rewrite IH by tauto. unfold upd. destruct (fname_dec f g); auto. subst; tauto. Qed.

  Lemma present_true o l : present o l = true -> forall f x, In (f, x) l -> o f <> None.
  Proof. unfold present. rewrite forallb_forall. intros H f x Hin. specialize (H _ Hin). simpl in H.
    destruct (o f); congruence. Qed.

  Hypothesis repaired : check_presence = true.

  Lemma Inv_step st o : Inv st -> Inv (step st o).
  Proof. intros HI. destruct o as [s|c|f|force]; simpl.
    - exact HI.
    - exact HI.
    - intros h Hc s0 c0 Hfp g x Hin. simpl in *. specialize (HI h Hc s0 c0 Hfp g x Hin).
      unfold upd. destruct (fname_dec g f); [right; auto | exact HI].
    - unfold run. destruct (negb (has_commands (s_src st))); [exact HI|].
      destruct (negb force && cache_hit st); [exact HI|]. simpl.
      intros h Hc s0 c0 Hfp g x Hin. simpl in *.
      assert (Hf : files s0 c0 = files (s_src st) (s_cfg st)) by (apply fp_sound; congruence).
      left. apply write_all_in; auto. rewrite <- Hf. exact Hin.
  Qed.

  Lemma firstn_In {A} (x : A) : forall k l, In x (firstn k l) -> In x l.
  Proof. induction k; intros [|y l]; simpl; intros; try contradiction; auto. destruct H; auto. Qed.

  Lemma Inv_fold ops : forall st0, Inv st0 -> Inv (fold_left step ops st0).
  Proof. induction ops as [|o ops IH]; intros; simpl; auto. apply IH. apply Inv_step; auto. Qed.

  Definition up_to_date (st : state) : Prop :=
    forall f x, In (f, x) (files (s_src st) (s_cfg st)) -> s_out st f = Some x.

  (* C08: any history of edits, deletions and (un)forced runs, then a non-forced run that reports
     success or up-to-date leaves every file of a forced generation in place *)
  Theorem cache_sound : forall ops st0, Inv st0 ->
    let st := fold_left step ops st0 in
    forall r st', run false None st = (r, st') -> r = Success \/ r = UpToDate -> up_to_date st'.
  Proof. intros ops st0 HI0 st r st' Hrun Hr.
    assert (HI : Inv st) by (apply Inv_fold; auto).
    unfold run in Hrun. destruct (negb (has_commands (s_src st))); [inversion Hrun; subst; destruct Hr; discriminate|].
    simpl in Hrun. destruct (cache_hit st) eqn:Eh.
    - inversion Hrun; subst st' r. unfold cache_hit in Eh.
      destruct (s_cache st) as [h|] eqn:Ec; [|discriminate].
      destruct (fp_dec h (fp (s_src st) (s_cfg st))) as [E|]; [|discriminate]. rewrite repaired in Eh.
      intros f x Hin. destruct (HI h Ec _ _ (eq_sym E) f x Hin) as [|[_ Hn]]; auto.
      exfalso. eapply present_true; eauto.
    - inversion Hrun; subst st' r. intros f x Hin. simpl in *. apply write_all_in; auto.
  Qed.

  (* C14: a second non-forced run is a no-op, whatever happened before *)
  Theorem idempotent : forall st r st1, run false None st = (r, st1) -> r = Success \/ r = UpToDate ->
    run false None st1 = (UpToDate, st1).
  Proof. intros st r st1 Hrun Hr. unfold run in *.
    destruct (negb (has_commands (s_src st))) eqn:Ehc; [inversion Hrun; subst; destruct Hr; discriminate|].
    simpl in *. destruct (cache_hit st) eqn:Eh.
    - inversion Hrun; subst. rewrite Ehc, Eh. reflexivity.
    - inversion Hrun; subst; clear Hrun. simpl. rewrite Ehc.
      unfold cache_hit. simpl. destruct (fp_dec _ _); [|congruence]. rewrite repaired.
      replace (present _ _) with true; [reflexivity|]. symmetry. unfold present. apply forallb_forall.
      intros [f x] Hin. simpl. erewrite write_all_in; eauto.
  Qed.

  (* C17: a non-forced run in which the k-th write fails reports failure (unless only the cache write
     failed), never leaves a record that wrongly vouches for the current inputs, and the next run
     repairs everything *)
  Theorem fault_recovery : forall st k r st1, Inv st -> run false (Some k) st = (r, st1) ->
    r <> NoCommands -> r <> UpToDate ->
    (k < length (files (s_src st) (s_cfg st)) -> r = Failure) /\
    (cache_hit st1 = true -> up_to_date st1) /\
    forall r2 st2, run false None st1 = (r2, st2) -> (r2 = Success \/ r2 = UpToDate) /\ up_to_date st2.
  Proof. intros st k r st1 HI Hrun Hn1 Hn2. unfold run in Hrun.
    destruct (negb (has_commands (s_src st))) eqn:Ehc; [inversion Hrun; subst; congruence|].
    simpl in Hrun. destruct (cache_hit st) eqn:Eh; [inversion Hrun; subst; congruence|].
    set (plan := files (s_src st) (s_cfg st)) in *.
    assert (Hhit : forall st1, s_src st1 = s_src st -> s_cfg st1 = s_cfg st ->
              (forall f x, In (f, x) plan -> s_out st1 f = Some x \/ s_out st1 f = None) ->
              cache_hit st1 = true -> up_to_date st1).
    { intros t Es Ec Hout Hh f x Hin. rewrite Es, Ec in Hin. fold plan in Hin.
      destruct (Hout f x Hin) as [|Hnone]; auto. exfalso.
      unfold cache_hit in Hh. destruct (s_cache t); [|discriminate]. destruct (fp_dec _ _); [|discriminate].
      rewrite repaired in Hh. rewrite Es, Ec in Hh. eapply present_true; eauto. }
    assert (Hrec : forall st1, s_src st1 = s_src st -> s_cfg st1 = s_cfg st ->
              (cache_hit st1 = true -> up_to_date st1) ->
              forall r2 st2, run false None st1 = (r2, st2) -> (r2 = Success \/ r2 = UpToDate) /\ up_to_date st2).
    { intros t Es Ec Hup r2 st2 Hrun2. unfold run in Hrun2. rewrite Es in Hrun2 at 1. rewrite Ehc in Hrun2.
      simpl in Hrun2. destruct (cache_hit t) eqn:Et.
      - inversion Hrun2; subst. split; auto.
      - inversion Hrun2; subst. split; auto. intros f x Hin. simpl in *. apply write_all_in; auto. }
    destruct (k <? length plan) eqn:Ek.
    - inversion Hrun; subst r st1; clear Hrun. split; [auto|].
      assert (Hout : forall f x, In (f, x) plan ->
                 s_cache st = Some (fp (s_src st) (s_cfg st)) ->
                 write_all (firstn k plan) (s_out st) f = Some x \/ write_all (firstn k plan) (s_out st) f = None).
      { intros f x Hin Hc. destruct (in_dec fname_dec f (map fst (firstn k plan))) as [Hi|Hni].
        - left. apply in_map_iff in Hi as ([f' x'] & Ef & Hi'). simpl in Ef; subst f'.
          assert (x' = x).
          { pose proof (files_fun (s_src st) (s_cfg st)) as Hnd. fold plan in Hnd.
            assert (Hin' : In (f, x') plan) by (eapply firstn_In; eauto).
            clear -Hnd Hin Hin' fname_dec. induction plan as [|[g y] l IH]; simpl in *; [contradiction|].
            inversion Hnd; subst. destruct Hin as [E|Hin]; destruct Hin' as [E'|Hin'].
            + congruence.
            + inversion E; subst. exfalso. apply H1. apply in_map_iff. exists (f, x'); auto.
            + inversion E'; subst. exfalso. apply H1. apply in_map_iff. exists (f, x); auto.
            + auto. }
          subst x'. apply write_all_in; auto.
          pose proof (files_fun (s_src st) (s_cfg st)) as Hnd. fold plan in Hnd.
          clear -Hnd. revert k. induction plan as [|p l IH]; intros [|k]; simpl; try constructor.
          + inversion Hnd; subst. intro Hx. apply H1. apply in_map_iff in Hx as (q & Eq & Hq). apply in_map_iff. exists q. split; auto. eapply firstn_In; eauto.
          + inversion Hnd; auto.
        - rewrite write_all_notin by auto.
          destruct (HI _ Hc _ _ eq_refl f x Hin) as [|[_ ?]]; auto. }
      split.
      + intros Hh. apply Hhit; auto. simpl. intros f x Hin. apply Hout; auto.
        unfold cache_hit in Hh. simpl in Hh. destruct (s_cache st); [|discriminate]. destruct (fp_dec _ _); [congruence|discriminate].
      + apply Hrec; auto. intros Hh. apply Hhit; auto. simpl. intros f x Hin. apply Hout; auto.
        unfold cache_hit in Hh. simpl in Hh. destruct (s_cache st); [|discriminate]. destruct (fp_dec _ _); [congruence|discriminate].
    - inversion Hrun; subst r st1; clear Hrun. split; [intros H; apply Nat.ltb_ge in Ek; lia|].
      split. + intros Hh. unfold cache_hit in Hh. simpl in Hh. discriminate.
      + apply Hrec; auto. intros Hh. unfold cache_hit in Hh. simpl in Hh. discriminate.
  Qed.
End Run.
