(* C11: the full statement (field_chain does not panic and the oracle accepts the chain) on the sub-domain of
   canonical length validators with u64 bounds, on String and Vec of String fields under any number of Options. *)
From Coq Require Import String Ascii List Arith Lia Bool NArith ZArith.
Require Import TT.Model.Str TT.Model.C11Validator TT.Spec.C11Spec TT.Proofs.C11Proofs TT.Proofs.C11Scan TT.Proofs.C11Arr.
Require TT.Proofs.C11Dec.
Import ListNotations.
Local Open Scope char_scope.
Local Open Scope list_scope.

Definition oku64 (o : option str) : Prop := match o with Some a => u64_lit (Num false a) = true | None => True end.
(* the five replace calls give the declared literal the value the specification gives it *)
Definition msg_agrees (o : option str) : Prop := match o with Some b => lit_value b = unescape b | None => True end.

Lemma digit_num_char : forall c, is_digit c = true -> is_num_char c = true.
Proof. intros c H. unfold is_num_char. rewrite H. reflexivity. Qed.
Lemma digits_num_text : forall a, a <> [] -> forallb is_digit a = true -> num_text a = true.
Proof. intros a Hne H. unfold num_text. apply andb_true_iff. split.
  - destruct a; [contradiction|reflexivity].
  - apply forallb_forall. intros c Hc. rewrite forallb_forall in H. apply digit_num_char. apply H. exact Hc. Qed.
Lemma u64_lit_parts : forall a, u64_lit (Num false a) = true -> a <> [] /\ forallb is_digit a = true.
Proof. intros a H. unfold u64_lit in H. cbn [negb andb] in H. apply andb_true_iff in H as [H _]. apply andb_true_iff in H as [Hl Hd].
  split; [|exact Hd]. destruct a; [discriminate Hl|discriminate]. Qed.
Lemma oku64_okn : forall o, oku64 o -> okn o.
Proof. intros [a|] H; [|exact I]. cbn [oku64 okn] in *. destruct (u64_lit_parts a H) as [Hne Hd]. apply digits_num_text; assumption. Qed.

(* what a declared u64 bound becomes: printed text t, a number text, denoting the declared decimal *)
Lemma u64_bound : forall a, u64_lit (Num false a) = true ->
  exists t d, parse_u64 a = Some t /\ num_text t = true /\ dec_of_text t = Some d /\ dec_of_num (Num false a) = Some d.
Proof. intros a H. destruct (C11Dec.u64_bound_exact a H) as [t [Hp [Ht [Hd [Hn Hnn]]]]].
  destruct (dec_of_text a) as [d|] eqn:E; [|contradiction]. exists t, d. split; [exact Hp|]. split.
  - subst t. apply digits_num_text; [apply C11Dec.show_N_nonnil|apply C11Dec.show_N_is_digits].
  - split; [exact Hd|]. symmetry. exact Hn. Qed.

Lemma meths_cons_optional : forall k, meths_cons (repeat MOptional k) = Some [].
Proof. induction k as [|k IH]; [reflexivity|]. cbn [repeat meths_cons meth_cons]. rewrite IH. reflexivity. Qed.
Lemma kind_opt_ty : forall k t, kind_of (opt_ty k t) = kind_of t.
Proof. induction k as [|k IH]; intros t; [reflexivity|]. change (opt_ty (S k) t) with (TyOpt (opt_ty k t)). cbn [kind_of]. apply IH. Qed.
Lemma same_cons_refl : forall l, same_cons l l = true.
Proof. intros l. apply same_cons_iff. reflexivity. Qed.

Lemma args_cons_canon : forall o omin omax omsg, args_cons (canon_args o omin omax omsg) =
  match bound_cons CMin (option_map (Num false) omin) (option_map lit_value omsg),
        bound_cons CMax (option_map (Num false) omax) (option_map lit_value omsg) with
  | Some a, Some b => Some (a ++ b ++ [] ++ []) | _, _ => None end.
Proof. intros [|[|[|[|[|o]]]]] [a|] [b|] [m|]; reflexivity. Qed.

(* a declared bound under the numeric parse-and-print numf: the literal is a number text, the printed text is a
   number text and denotes the declared decimal. True of every u64 literal for parse_u64 (oku64_okb); for range
   bounds it is a premise on dispf (it fails exactly in class C11-9) *)
Definition okb (numf : str -> option str) (o : option str) : Prop :=
  match o with
  | Some a => num_text a = true /\ exists t d, numf a = Some t /\ num_text t = true /\ dec_of_text t = Some d /\ dec_of_num (Num false a) = Some d
  | None => True end.
Lemma oku64_okb : forall o, oku64 o -> okb parse_u64 o.
Proof. intros [a|] H; [|exact I]. cbn [okb]. split; [exact (oku64_okn (Some a) H)|]. cbn [oku64] in H.
  destruct (u64_bound a H) as [t [d Hx]]. exists t, d. exact Hx. Qed.
Lemma okb_okn : forall numf o, okb numf o -> okn o.
Proof. intros numf [a|] H; [|exact I]. cbn [okb okn] in *. tauto. Qed.

Section Full.
Variable dispf : str -> option str.
Variables (r : bool) (k o : nat) (omin omax omsg : option str).
Local Notation numf := (if r then dispf else parse_u64).
Hypothesis (Hmin : okb numf omin) (Hmax : okb numf omax) (Hmsg : okm omsg) (Hag : msg_agrees omsg).

Lemma canon_va_ok : va_ok (canon_va dispf r omin omax omsg) = true.
Proof. unfold va_ok, canon_va, canon_cstr, cstr_ok.
  assert (H : (match onum numf omin with Some n => num_text n | None => true end) &&
              (match onum numf omax with Some n => num_text n | None => true end) = true).
  { destruct omin as [a|], omax as [b|]; cbn [okb] in *; cbn [onum];
    repeat match goal with H : _ /\ exists t d, _ |- _ => destruct H as [_ [? [? [-> [-> _]]]]] end; reflexivity. }
  destruct r; cbn [v_length v_range c_min c_max]; rewrite H; reflexivity. Qed.

(* the constraints read back from the methods = the constraints the declaration demands *)
Lemma canon_cons_agree :
  exists ex, args_cons (canon_args o omin omax omsg) = Some ex /\
             meths_cons (cstr_meths (canon_cstr dispf r omin omax omsg) ++ repeat MOptional k) = Some ex.
Proof. rewrite args_cons_canon. unfold canon_cstr, cstr_meths. cbn [c_min c_max c_msg].
  assert (Em : option_map lit_value omsg = option_map unescape omsg).
  { destruct omsg as [b|]; [cbn [msg_agrees option_map] in *; rewrite Hag|]; reflexivity. }
  rewrite Em. set (m := option_map unescape omsg).
  destruct omin as [a|], omax as [b|]; cbn [okb] in *; cbn [onum option_map bound_cons];
  repeat match goal with H : _ /\ exists t d, _ |- _ => destruct H as [_ [? [? [-> [_ [? ->]]]]]] end;
  eexists; (split; [reflexivity|]); cbn [app meths_cons meth_cons];
  repeat match goal with H : dec_of_text _ = Some _ |- _ => rewrite H; clear H end; cbn [option_map];
  rewrite meths_cons_optional; reflexivity. Qed.

Lemma full_on (t : ty) (base : str) (inner : list schema) :
  base_ok (kind_of t) base inner = true -> forallb no_cons_schema inner = true ->
  forall chain, read_chain chain = Some (Sch base inner (cstr_meths (canon_cstr dispf r omin omax omsg) ++ repeat MOptional k)) ->
  c11_field_ok (canon_field (opt_ty k t) r o omin omax omsg) chain = true.
Proof. intros Hb Hi chain Hr. unfold c11_field_ok. rewrite Hr.
  destruct canon_cons_agree as [ex [He Hg]].
  assert (Hex : expected (canon_field (opt_ty k t) r o omin omax omsg) = Some ex).
  { unfold expected, field_items, canon_field. cbn [f_attrs flat_map attr_items app map].
    rewrite ?app_nil_r. destruct r; cbn [map item_cons concat_opt canon_item]; rewrite He; cbn [option_map]; rewrite ?app_nil_r; reflexivity. }
  rewrite Hex. cbn [f_ty canon_field]. rewrite kind_opt_ty, Hb, Hi, Hg. cbn [andb]. apply same_cons_refl. Qed.
End Full.

(* the full statement on canonical length validators with u64 bounds: String and Vec of String fields *)
Theorem full_canon_length : forall dispf k o omin omax omsg, oku64 omin -> oku64 omax -> okm omsg -> msg_agrees omsg ->
  (exists v chain, field_chain dispf (canon_field (opt_ty k TyString) false o omin omax omsg) = Ok (v, chain) /\
                   c11_field_ok (canon_field (opt_ty k TyString) false o omin omax omsg) chain = true) /\
  (exists v chain, field_chain dispf (canon_field (opt_ty k (TyVec TyString)) false o omin omax omsg) = Ok (v, chain) /\
                   c11_field_ok (canon_field (opt_ty k (TyVec TyString)) false o omin omax omsg) chain = true).
Proof. intros dispf k o omin omax omsg Hmin Hmax Hmsg Hag. apply oku64_okb in Hmin. apply oku64_okb in Hmax.
  destruct (exact_canon dispf k o omin omax omsg (okb_okn _ _ Hmin) (okb_okn _ _ Hmax) Hmsg) as [Hs [_ Hv]].
  pose proof (canon_va_ok dispf false omin omax omsg Hmin Hmax) as Hva.
  destruct (Hs Hva) as [c1 [F1 R1]]. destruct (Hv Hva) as [c2 [F2 R2]]. split.
  - exists (Some (canon_va dispf false omin omax omsg)), c1. split; [exact F1|].
    apply (full_on dispf false k o omin omax omsg Hmin Hmax Hmsg Hag TyString (L "z.string") []); try reflexivity. exact R1.
  - exists (Some (canon_va dispf false omin omax omsg)), c2. split; [exact F2|].
    apply (full_on dispf false k o omin omax omsg Hmin Hmax Hmsg Hag (TyVec TyString) (L "z.array") [Sch (L "z.string") [] []]); try reflexivity. exact R2.
Qed.
(* ... and on canonical range validators on numeric fields, for every f64 printing function that is exact on the
   declared bounds (okb dispf: outside class C11-9) *)
Theorem full_canon_range : forall dispf k o omin omax omsg, okb dispf omin -> okb dispf omax -> okm omsg -> msg_agrees omsg ->
  exists v chain, field_chain dispf (canon_field (opt_ty k TyNum) true o omin omax omsg) = Ok (v, chain) /\
                  c11_field_ok (canon_field (opt_ty k TyNum) true o omin omax omsg) chain = true.
Proof. intros dispf k o omin omax omsg Hmin Hmax Hmsg Hag.
  destruct (exact_canon dispf k o omin omax omsg (okb_okn _ _ Hmin) (okb_okn _ _ Hmax) Hmsg) as [_ [Hn _]].
  pose proof (canon_va_ok dispf true omin omax omsg Hmin Hmax) as Hva.
  destruct (Hn Hva) as [c1 [F1 R1]].
  exists (Some (canon_va dispf true omin omax omsg)), c1. split; [exact F1|].
  apply (full_on dispf true k o omin omax omsg Hmin Hmax Hmsg Hag TyNum (L "z.coerce.number") []); try reflexivity. exact R1. Qed.

(* ... and a length validator on Vec of ANY readable element type (the array read-back of C11Arr) *)
Theorem full_canon_length_vec : forall dispf k o omin omax omsg ti, readable (tstruct_of ti) = true ->
  oku64 omin -> oku64 omax -> okm omsg -> msg_agrees omsg ->
  exists v chain, field_chain dispf (canon_field (opt_ty k (TyVec ti)) false o omin omax omsg) = Ok (v, chain) /\
                  c11_field_ok (canon_field (opt_ty k (TyVec ti)) false o omin omax omsg) chain = true.
Proof. intros dispf k o omin omax omsg ti Hr Hmin Hmax Hmsg Hag. apply oku64_okb in Hmin. apply oku64_okb in Hmax.
  pose proof (canon_va_ok dispf false omin omax omsg Hmin Hmax) as Hva.
  exists (Some (canon_va dispf false omin omax omsg)), (build_schema (tstruct_of (opt_ty k (TyVec ti))) (Some (canon_va dispf false omin omax omsg))).
  split; [apply field_chain_canon; eauto using okb_okn|].
  apply (full_on dispf false k o omin omax omsg Hmin Hmax Hmsg Hag (TyVec ti) (L "z.array") [schema_of (tstruct_of ti)]).
  - reflexivity.
  - cbn [forallb]. rewrite schema_of_no_cons. reflexivity.
  - rewrite tstruct_opt_ty. cbn [tstruct_of]. rewrite (render_exact_arrays_all _ _ k Hr Hva). reflexivity. Qed.
