(* C18: the depth-2 sweep of the relational oracle over the model (table18, 2431 types x 5 sites x
   2 modes). Minutes of vm_compute; kept out of the closure of Properties/C18.v and compiled by the
   thorough tier. *)
From Coq Require Import String Ascii.
From Coq Require Import List Arith Bool.
Require Import TT.Model.Str TT.Model.TypeParse TT.Model.C05Emit TT.Spec.C05Spec TT.Spec.C18Spec TT.Spec.C18Known.
Require Import TT.Proofs.C05Sweep TT.Proofs.C18Proofs.
Import ListNotations.

Lemma sweep18_depth2 : sweep (subst_at table18) spines18_2 = true /\ forallb (dom_m table18) spines18_2 = true.
Proof. vm_compute. split; reflexivity. Qed.
