(* C17 over histories: an invariant of every run step, by induction over fold_left. *)
From Coq Require Import List Arith Lia Bool.
Require Import TT.Model.Str TT.Model.C08Fingerprint TT.Model.C08Run TT.Model.C17History.
Require Import TT.Proofs.C08RunProofs TT.Proofs.C08FpProofs.
Import ListNotations.

Section HistProofs.
  Variables proj cfg schedT fnameT content fpT : Type.
  Variable fn_eqb : fnameT -> fnameT -> bool.
  Variable fpt_eqb : fpT -> fpT -> bool.
  Variable gfiles : schedT -> proj -> cfg -> list (fnameT * content).
  Variable gfp : schedT -> proj -> cfg -> fpT.
  Variable ghas_commands : proj -> bool.
  Variable cfg_force : cfg -> bool.
  Variable check_presence : bool.
  Hypothesis fn_eqb_spec : forall a b, fn_eqb a b = true <-> a = b.
  Hypothesis files_fun : forall w s c, NoDup (map fst (gfiles w s c)).

  Notation state := (state proj cfg fnameT content fpT).
  Notation run := (run proj cfg schedT fnameT content fpT fn_eqb fpt_eqb gfiles gfp ghas_commands cfg_force check_presence).
  Notation step17 := (step17 proj cfg schedT fnameT content fpT fn_eqb fpt_eqb gfiles gfp ghas_commands cfg_force check_presence).
  Notation hstate17 := (hstate17 proj cfg schedT fnameT content fpT).
  Notation gfiles_of := (gfiles_of proj cfg schedT fnameT content gfiles).
  Notation gfp_of := (gfp_of proj cfg schedT fpT gfp).
  Notation write_all := (write_all fnameT content fn_eqb).

  (* whenever a record is on disk it is the fingerprint of the generation g0 that wrote it, and unless a failed run
     has written over the output since (dirty), every file of that generation is in place, complete *)
  Definition Inv17 (s : hstate17) : Prop :=
    let '(st, g, d) := s in
    forall h, s_cache st = Some h ->
      exists g0, g = Some g0 /\ h = gfp_of g0 /\
        (d = false -> forall f x, In (f, x) (gfiles_of g0) -> s_out st f = Some x).

  Lemma edited_out e (st : state) : s_out (edited proj cfg fnameT content fpT e st) = s_out st /\
                                    s_cache (edited proj cfg fnameT content fpT e st) = s_cache st.
  Proof. destruct e as [[p c]|]; split; reflexivity. Qed.

  Lemma Inv17_step s h : Inv17 s -> Inv17 (step17 s h).
  Proof. destruct s as [[st g] d]. destruct h as [e w flag fault]. intros HI.
    unfold C17History.step17.
    set (st0 := edited proj cfg fnameT content fpT e st).
    destruct (edited_out e st) as [Eo Ec]. fold st0 in Eo, Ec.
    assert (HI0 : forall h, s_cache st0 = Some h -> exists g0, g = Some g0 /\ h = gfp_of g0 /\
              (d = false -> forall f x, In (f, x) (gfiles_of g0) -> s_out st0 f = Some x)).
    { intros h Hh. rewrite Ec in Hh. rewrite Eo. exact (HI h Hh). }
    clearbody st0. clear HI Eo Ec.
    unfold C08Run.run.
    destruct (negb (ghas_commands (s_src st0))); [exact HI0|].
    destruct (negb _ && _); [exact HI0|].
    destruct fault as [k|].
    - destruct (k <? _).
      + cbn [fst snd s_cache]. intros h Hh. destruct (HI0 h Hh) as (g0 & Hg & Hfp & _).
        exists g0. split; [exact Hg|]. split; [exact Hfp|]. discriminate.
      + cbn [fst snd s_cache]. intros h Hh. discriminate.
    - cbn [fst snd s_cache]. intros h Hh. inversion Hh; subst h.
      exists (w, s_src st0, s_cfg st0). split; [reflexivity|]. split; [reflexivity|].
      intros _ f x Hin. cbn [s_out C08Run.gfiles_of] in *.
      apply write_all_in; [exact fn_eqb_spec|apply files_fun|exact Hin]. Qed.

  Theorem Inv17_history : forall steps s, Inv17 s -> Inv17 (fold_left step17 steps s).
  Proof. induction steps as [|h steps IH]; intros s H; cbn [fold_left]; [exact H|]. apply IH. apply Inv17_step. exact H. Qed.
End HistProofs.

(* ---------------- the concrete machine ---------------- *)
Require Import TT.Proofs.C08Examples.

Notation Inv17_c := (Inv17 project config sched fname tree tree files fp).
Notation up_to_date_c := (up_to_date project config sched fname tree tree files).

Lemma Inv17_init p c : Inv17_c (init17 p c).
Proof. intros h Hh. cbn in Hh. discriminate. Qed.

Lemma Inv17_history_c steps p c : Inv17_c (fold_left step17_c steps (init17 p c)).
Proof. apply (Inv17_history project config sched fname tree tree fname_eqb tree_eqb files fp has_commands g_force true
                fname_eqb_spec files_nodup). apply Inv17_init. Qed.

(* after any history of runs (forced or not, failing at any write or not, each possibly preceded by an edit), a
   non-forced run that reports success leaves exactly the files of a fresh generation; one that reports up to date
   does so provided no failed run has written over the output since the record was made (clean) and the state is
   outside the recorded class of C08 *)
Theorem history_success_current : forall steps p c w st g d,
  fold_left step17_c steps (init17 p c) = (st, g, d) ->
  forall r st', run_c true w false None st = (r, st') ->
  r = Success \/ (r = UpToDate /\ d = false /\ kf_C08 w (st, g) = []) -> up_to_date_c w st'.
Proof. intros steps p c w st g d Hfold r st' Hrun Hr.
  pose proof (Inv17_history_c steps p c) as HI. rewrite Hfold in HI. cbn beta iota in HI.
  unfold run_c, run in Hrun.
  destruct (negb (has_commands (s_src st))) eqn:Hc.
  { inversion Hrun; subst. destruct Hr as [Hr|[Hr _]]; discriminate. }
  destruct (negb (effective_force config g_force false (s_cfg st)) &&
            cache_hit project config sched fname tree tree tree_eqb files fp true w st) eqn:Hh.
  - inversion Hrun; subst r st'. destruct Hr as [Hr|(_ & Hd & Hk)]; [discriminate|].
    apply andb_prop in Hh. destruct Hh as [Hf Hhit]. apply negb_true_iff in Hf. apply negb_false_iff in Hc.
    pose proof Hhit as Hhit'. unfold cache_hit in Hhit'. destruct (s_cache st) as [h|] eqn:Ec; [|discriminate].
    destruct (HI h Ec) as (g0 & Hg & Hfp & Hfiles).
    destruct (kf_nil_sound_hit w (st, g) Hk g0 Hg) as [Heq _]; cbn [fst snd]; auto.
    { rewrite Ec, Hfp. reflexivity. }
    cbn [fst snd] in Heq. intros f x Hin. rewrite <- Heq in Hin. apply (Hfiles Hd). exact Hin.
  - set (plan := files w (s_src st) (s_cfg st)) in *.
    assert (Hst : st' = {| s_src := s_src st; s_cfg := s_cfg st; s_out := write_all fname tree fname_eqb plan (s_out st);
                           s_cache := Some (fp w (s_src st) (s_cfg st)) |}) by congruence.
    subst st'. intros f x Hin. cbn [s_src s_cfg s_out] in *. fold plan in Hin.
    apply (write_all_in fname tree fname_eqb fname_eqb_spec); [subst plan; apply files_nodup|exact Hin]. Qed.

(* the unrestricted statement is false on the model: A (no events) generated; edit to B (emits an event); the run fails at
   events.ts after having written B's types.ts and commands.ts, the record is still A's; revert to A: A's plan has no
   events.ts, every file of it is present, the record matches - up to date over B's files *)
Definition steps_refuting : list hstep17_c :=
  [H17 _ _ _ None w1 false None; H17 _ _ _ (Some (p0, c0)) w1 false (Some 2); H17 _ _ _ (Some (p_field_type, c0)) w1 false None].
Lemma history_full_refuted :
  let '(st, g, d) := fold_left step17_c steps_refuting (init17 p_field_type c0) in
  d = true /\ kf_C08 w1 (st, g) = [] /\ fst (run_c true w1 false None st) = UpToDate /\
  all_current w1 (snd (run_c true w1 false None st)) = false.
Proof. vm_compute. repeat split. Qed.

(* a non-trivial history inside the theorem: success; edit; run failing at the second write; run *)
Definition steps_example : list hstep17_c :=
  [H17 _ _ _ None w1 false None; H17 _ _ _ (Some (p_field_type, c0)) w1 false (Some 1)].
Lemma history_example :
  let '(st, g, d) := fold_left step17_c steps_example (init17 p0 c0) in
  d = true /\ fst (run_c true w1 false None st) = Success /\ all_current w1 (snd (run_c true w1 false None st)) = true.
Proof. vm_compute. repeat split. Qed.
