(* C10 proofs: the shapes the two renderer families denote agree outside the recorded classes. *)
From Coq Require Import String Ascii.
From Coq Require Import List Arith Lia Bool.
Require Import TT.Model.Str TT.Proofs.StrFacts TT.Model.TypeParse TT.Spec.TsLex TT.Spec.TsModule TT.Spec.TsObs.
Require Import TT.Spec.C10Shape TT.Model.C10Zod.
Import ListNotations.
Local Open Scope list_scope.

(* ---- induction principle for the nested type ---- *)
Section TsInd.
  Variable P : tstruct -> Prop.
  Hypothesis Hprim : forall p, P (TPrim p).
  Hypothesis Harr : forall u, P u -> P (TArr u).
  Hypothesis Hmap : forall k v, P k -> P v -> P (TMap k v).
  Hypothesis Hset : forall u, P u -> P (TSet u).
  Hypothesis Htup : forall l, Forall P l -> P (TTuple l).
  Hypothesis Hopt : forall u, P u -> P (TOpt u).
  Hypothesis Hres : forall u, P u -> P (TRes u).
  Hypothesis Hcus : forall n, P (TCustom n).
  Fixpoint ts_ind2 (t : tstruct) : P t :=
    match t with
    | TPrim p => Hprim p | TArr u => Harr u (ts_ind2 u) | TMap k v => Hmap k v (ts_ind2 k) (ts_ind2 v)
    | TSet u => Hset u (ts_ind2 u)
    | TTuple l => Htup l ((fix go l : Forall P l := match l with [] => Forall_nil _ | x :: l' => Forall_cons _ (ts_ind2 x) (go l') end) l)
    | TOpt u => Hopt u (ts_ind2 u) | TRes u => Hres u (ts_ind2 u) | TCustom n => Hcus n
    end.
End TsInd.

(* ---- small facts ---- *)
Lemma mk_opt_ff s : mk_opt false false s = s.
Proof. destruct s; reflexivity. Qed.
Definition is_shopt (s : shape) : bool := match s with ShOpt _ _ _ => true | _ => false end.
Lemma mk_opt_plain n o s : is_shopt s = false -> (n || o) = true -> mk_opt n o s = ShOpt n o s.
Proof. intros Hs Hno. destruct s; try discriminate; cbn [mk_opt]; rewrite Hno; reflexivity. Qed.
Lemma mk_opt_idem n o s : mk_opt n o (mk_opt n o s) = mk_opt n o s.
Proof.
  destruct s; cbn [mk_opt]; try (destruct (n || o) eqn:E; cbn [mk_opt]; [rewrite !orb_diag; reflexivity|rewrite E; reflexivity]).
  rewrite !orb_assoc, !orb_diag. reflexivity.
Qed.

Lemma existsb_app_false {A} (f : A -> bool) l x : existsb f (l ++ [x]) = existsb f l || f x.
Proof. rewrite existsb_app. cbn. rewrite orb_false_r. reflexivity. Qed.

(* appending the null alternative to a union sets the nullable flag *)
Lemma norm_union_snoc_null l : norm_union (l ++ [ShNull]) = mk_opt true false (norm_union l).
Proof.
  unfold norm_union.
  assert (filter (fun s => negb (is_null s)) (l ++ [ShNull]) = filter (fun s => negb (is_null s)) l) as ->
    by (rewrite filter_app; cbn; apply app_nil_r).
  assert (existsb is_null (l ++ [ShNull]) = true) as -> by (rewrite existsb_app; cbn; apply orb_true_r).
  destruct (existsb is_null l); [rewrite mk_opt_idem|]; reflexivity.
Qed.
Lemma norm_union_pair a : is_null a = false -> norm_union [a; ShNull] = mk_opt true false a.
Proof. intros H. unfold norm_union. cbn [filter existsb]. rewrite H. cbn. try rewrite orb_true_r. reflexivity. Qed.

Lemma in_names_cases n (l : list string) : in_names n l = true -> exists x, In x l /\ n = L x.
Proof.
  unfold in_names. intros H. apply existsb_exists in H. destruct H as [x [Hin He]].
  exists x. split; auto. apply str_eqb_eq; exact He.
Qed.

(* ---- intended shapes of the two sides ---- *)
Definition cust_t (m : mapping) (n : str) : shape :=
  let x := match lookup m n with Some x => x | None => n end in
  match prim_shape x with Some s => s | None => ShRef x end.
Definition cust_z (m : mapping) (n : str) : shape := zshape (zcustom_ex m n).

Fixpoint tsh (m : mapping) (t : tstruct) : shape :=
  match t with
  | TPrim p => match prim_shape p with Some s => s | None => ShRef p end
  | TArr u | TSet u => ShArr (tsh m u)
  | TMap k v => ShRec (tsh m k) (tsh m v)
  | TTuple [] => ShVoid
  | TTuple l => ShTuple (map (tsh m) l)
  | TOpt u => mk_opt true false (tsh m u)
  | TRes u => tsh m u
  | TCustom n => cust_t m n
  end.

Definition zprim (p : str) (key : bool) : shape :=
  if str_eqb p (L "string") then ShStr
  else if str_eqb p (L "number") then (if key then ShNum else ShCoerce ShNum)
  else if str_eqb p (L "boolean") then ShCoerce ShBool
  else if str_eqb p (L "void") then ShVoid else ShUnknown.
Definition err_shape : shape := ShObj [(L "error", ShStr)].
Fixpoint zsh (m : mapping) (t : tstruct) (key : bool) : shape :=
  match t with
  | TOpt u => mk_opt false true (zsh m u key)
  | TPrim p => zprim p key
  | TArr u => ShArr (zsh m u false)
  | TMap k v => ShRec (zsh m k true) (zsh m v false)
  | TSet u => ShNonJson (L "set") [zsh m u false]
  | TTuple [] => ShVoid
  | TTuple l => ShTuple (map (fun x => zsh m x false) l)
  | TRes u => norm_union [zsh m u false; err_shape]
  | TCustom n => cust_z m n
  end.

(* ---- the Zod side: zshape of the builder's tree ---- *)
Lemma zs_array e : zshape (zcall "array" [e]) = ShArr (zshape e). Proof. reflexivity. Qed.
Lemma zs_set e : zshape (zcall "set" [e]) = ShNonJson (L "set") [zshape e]. Proof. reflexivity. Qed.
Lemma zs_record k v : zshape (zcall "record" [k; v]) = ShRec (zshape k) (zshape v). Proof. reflexivity. Qed.
Lemma zs_tuple l : zshape (zcall "tuple" [EArr l]) = ShTuple (map zshape l). Proof. reflexivity. Qed.
Lemma zs_union l : zshape (zcall "union" [EArr l]) = norm_union (map zshape l). Proof. reflexivity. Qed.
Lemma zs_void : zshape (zcall "void" []) = ShVoid. Proof. reflexivity. Qed.
Lemma zs_err : zshape error_obj = err_shape. Proof. reflexivity. Qed.

Lemma is_z_schema n : is_z (EId (n ++ L "Schema")) = false.
Proof.
  cbn [is_z]. unfold s_is. apply str_eqb_neq. intros H.
  apply (f_equal (@List.length ascii)) in H. rewrite app_length in H. cbn in H. lia.
Qed.
Lemma zcustom_not_z m n : is_z (zcustom_ex m n) = false /\ is_z_coerce (zcustom_ex m n) = false.
Proof.
  unfold zcustom_ex. destruct (lookup m n) as [x|].
  - repeat match goal with |- context [if ?c then _ else _] => destruct c end; split; reflexivity.
  - split; [apply is_z_schema|reflexivity].
Qed.
Lemma zex_not_z m t key : is_z (zex_of m t key) = false /\ is_z_coerce (zex_of m t key) = false.
Proof.
  destruct t as [p|u|k v|u|l|u|u|n]; cbn [zex_of]; try (split; reflexivity).
  - repeat match goal with |- context [if ?c then _ else _] => destruct c end; split; reflexivity.
  - destruct l; split; reflexivity.
  - apply zcustom_not_z.
Qed.
Lemma zs_link_optional e : is_z e = false -> is_z_coerce e = false ->
  zshape (link e "optional") = mk_opt false true (zshape e).
Proof. intros H1 H2. unfold link. cbn [zshape]. rewrite H1, H2. reflexivity. Qed.

Lemma zprim_ok p key : zshape (zex_of [] (TPrim p) key) = zprim p key.
Proof.
  cbn [zex_of]. unfold zprim.
  destruct (str_eqb p (L "string")); [reflexivity|].
  destruct (str_eqb p (L "number")); [destruct key; reflexivity|].
  destruct (str_eqb p (L "boolean")); [reflexivity|].
  destruct (str_eqb p (L "void")); reflexivity.
Qed.

Lemma zshape_zex m : forall t key, zshape (zex_of m t key) = zsh m t key.
Proof.
  induction t as [p|u IH|k v IHk IHv|u IH|l IH|u IH|u IH|n] using ts_ind2; intros key.
  - exact (zprim_ok p key).
  - cbn [zex_of zsh]. rewrite zs_array, IH. reflexivity.
  - cbn [zex_of zsh]. rewrite zs_record, IHk, IHv. reflexivity.
  - cbn [zex_of zsh]. rewrite zs_set, IH. reflexivity.
  - destruct l as [|a l']; [reflexivity|].
    cbn [zex_of zsh]. rewrite zs_tuple. f_equal. rewrite map_map.
    apply map_ext_in. intros x Hx. rewrite Forall_forall in IH. apply IH; exact Hx.
  - cbn [zex_of zsh]. destruct (zex_not_z m u key) as [H1 H2]. rewrite zs_link_optional by assumption. rewrite IH. reflexivity.
  - cbn [zex_of zsh]. rewrite zs_union. cbn [map]. rewrite IH, zs_err. reflexivity.
  - reflexivity.
Qed.

(* ---- the TypeScript side: tshape of the plain renderer's tree ---- *)
Definition is_union (t : ty) : bool := match t with TyUnion _ => true | _ => false end.
Lemma arr_of_plain x : is_union x = false -> arr_of x = TyArr x.
Proof. destruct x; try discriminate; reflexivity. Qed.
Lemma opt_of_plain x : is_union x = false -> opt_of x = TyUnion [x; null_ty].
Proof. destruct x; try discriminate; reflexivity. Qed.
Lemma lookup_target0 m : map_ok m = true -> forall n x, lookup m n = Some x -> x = L "string" \/ x = L "number" \/ x = L "boolean".
Proof.
  induction m as [|[k v] r IH]; cbn [lookup map_ok forallb]; intros Hm n x; [discriminate|].
  apply andb_true_iff in Hm. destruct Hm as [Hv Hr]. cbn [snd] in Hv. destruct (str_eqb k n).
  - intros Hl. inversion Hl; subst. apply in_names_cases in Hv. destruct Hv as [y [Hin Hy]]. cbn in Hin. intuition (subst; auto).
  - apply IH; assumption.
Qed.
(* with primitive targets the tree of a (possibly mapped) custom type is a plain reference *)
Definition cname (m : mapping) (n : str) : str := match lookup m n with Some x => x | None => n end.
Lemma custom_ty_prim m : map_ok m = true -> forall n, custom_ty m n = TyRef [cname m n] [].
Proof.
  intros Hm n. unfold custom_ty, cname. destruct (lookup m n) as [x|] eqn:E; [|reflexivity].
  destruct (lookup_target0 m Hm n x E) as [->|[->| ->]]; reflexivity.
Qed.
Lemma not_union m : map_ok m = true -> forall u, opt_like u = false -> union_under_seq u = false -> is_union (ts_ty_of m u) = false.
Proof.
  intros Hm.
  induction u as [p|u IH|k v IHk IHv|u IH|l IH|u IH|u IH|n] using ts_ind2; intros Ho Hs; cbn [ts_ty_of]; try reflexivity;
    try (rewrite custom_ty_prim by exact Hm; reflexivity).
  - cbn [union_under_seq] in Hs. apply orb_false_iff in Hs. destruct Hs as [Ha Hb]. rewrite arr_of_plain by (apply IH; assumption). reflexivity.
  - cbn [union_under_seq] in Hs. apply orb_false_iff in Hs. destruct Hs as [Ha Hb]. rewrite arr_of_plain by (apply IH; assumption). reflexivity.
  - destruct l; reflexivity.
  - discriminate.
  - cbn [opt_like] in Ho. cbn [union_under_seq] in Hs. apply IH; assumption.
Qed.

Lemma tshape_null : tshape null_ty = ShNull. Proof. reflexivity. Qed.
Lemma tshape_record a b : tshape (TyRef [L "Record"] [a; b]) = ShRec (tshape a) (tshape b). Proof. reflexivity. Qed.

(* prim_shape of a documented primitive and of a legal project name *)
Lemma prim_names_shape p : in_names p prim_names = true ->
  p = L "string" \/ p = L "number" \/ p = L "boolean" \/ p = L "void".
Proof.
  intros H. apply in_names_cases in H. destruct H as [x [Hin ->]].
  cbn in Hin. intuition (subst; auto).
Qed.
Lemma name_ok_prim n : name_ok n = true -> prim_shape n = None /\ n <> [].
Proof.
  unfold name_ok. destruct n as [|c r]; [discriminate|]. intros H.
  apply andb_true_iff in H. destruct H as [_ H]. apply negb_true_iff in H.
  unfold in_names, taken_names in H. cbn [existsb] in H.
  repeat (apply orb_false_iff in H; destruct H as [? H]).
  split; [|discriminate]. unfold prim_shape, s_is.
  repeat match goal with Hx : str_eqb _ _ = false |- _ => rewrite Hx; clear Hx end. reflexivity.
Qed.

Section WithMap.
  Variable m : mapping.
  Hypothesis Hm : map_ok m = true.

  Lemma lookup_target n x : lookup m n = Some x -> x = L "string" \/ x = L "number" \/ x = L "boolean".
  Proof.
    clear - Hm. revert Hm. induction m as [|[k v] r IH]; cbn [lookup map_ok forallb]; [discriminate|].
    intros H Hl. apply andb_true_iff in H. destruct H as [Hv Hr]. cbn [snd] in Hv.
    destruct (str_eqb k n).
    - inversion Hl; subst. apply in_names_cases in Hv. destruct Hv as [y [Hin Hy]]. cbn in Hin. intuition (subst; auto).
    - apply IH; assumption.
  Qed.

  Lemma is_null_tsh : forall t, dom t = true -> is_null (tsh m t) = false.
  Proof.
    destruct t as [p|u|k v|u|l|u|u|n]; cbn [dom tsh]; intros Hd; try reflexivity.
    - apply prim_names_shape in Hd. destruct Hd as [->|[->|[->| ->]]]; reflexivity.
    - destruct l; reflexivity.
    - destruct (tsh m u); cbn; try reflexivity.
    - revert Hd. generalize u. fix REC 1. intros [p|u0|k v|u0|l|u0|u0|n] Hd; cbn [dom tsh] in *; try reflexivity.
      + apply prim_names_shape in Hd. destruct Hd as [->|[->|[->| ->]]]; reflexivity.
      + destruct l; reflexivity.
      + destruct (tsh m u0); cbn; try reflexivity.
      + apply REC; exact Hd.
      + unfold cust_t. destruct (lookup m n) as [x|] eqn:E.
        * destruct (lookup_target _ _ E) as [->|[->| ->]]; reflexivity.
        * destruct (name_ok_prim _ Hd) as [Hp _]. rewrite Hp. reflexivity.
    - unfold cust_t. destruct (lookup m n) as [x|] eqn:E.
      + destruct (lookup_target _ _ E) as [->|[->| ->]]; reflexivity.
      + destruct (name_ok_prim _ Hd) as [Hp _]. rewrite Hp. reflexivity.
  Qed.

  Lemma key_ok_dom k : key_ok k = true -> dom k = true /\ union_under_seq k = false.
  Proof.
    destruct k; try discriminate. cbn [key_ok dom]. intros H. split; [|reflexivity].
    apply in_names_cases in H. destruct H as [x [Hin ->]]. cbn in Hin. intuition (subst; reflexivity).
  Qed.

  Lemma tshape_ts : forall t, dom t = true -> union_under_seq t = false -> tshape (ts_ty_of m t) = tsh m t.
  Proof.
    induction t as [p|u IH|k v IHk IHv|u IH|l IH|u IH|u IH|n] using ts_ind2; intros Hd Hs.
    - reflexivity.
    - cbn [union_under_seq] in Hs. apply orb_false_iff in Hs. destruct Hs as [Ha Hb]. cbn [dom] in Hd.
      cbn [ts_ty_of tsh]. rewrite arr_of_plain by (apply not_union; assumption || exact Hm). cbn [tshape]. rewrite IH by assumption. reflexivity.
    - cbn [union_under_seq] in Hs. apply orb_false_iff in Hs. destruct Hs as [Ha Hb]. cbn [dom] in Hd.
      apply andb_true_iff in Hd. destruct Hd as [Hk Hv]. destruct (key_ok_dom _ Hk) as [Hk1 Hk2].
      cbn [ts_ty_of tsh]. rewrite tshape_record, IHk, IHv by assumption. reflexivity.
    - cbn [union_under_seq] in Hs. apply orb_false_iff in Hs. destruct Hs as [Ha Hb]. cbn [dom] in Hd.
      cbn [ts_ty_of tsh]. rewrite arr_of_plain by (apply not_union; assumption || exact Hm). cbn [tshape]. rewrite IH by assumption. reflexivity.
    - destruct l as [|a l']; [reflexivity|].
      cbn [ts_ty_of tsh tshape]. f_equal. rewrite map_map. apply map_ext_in. intros x Hx.
      rewrite Forall_forall in IH. apply IH; [exact Hx| |].
      + cbn [dom] in Hd. rewrite forallb_forall in Hd. apply Hd; exact Hx.
      + cbn [union_under_seq] in Hs. destruct (union_under_seq x) eqn:E; [|reflexivity].
        assert (existsb union_under_seq (a :: l') = true) as Hc by (apply existsb_exists; exists x; auto). congruence.
    - cbn [union_under_seq dom] in *. cbn [ts_ty_of tsh].
      destruct (is_union (ts_ty_of m u)) eqn:Eu.
      + destruct (ts_ty_of m u) as [pa ar|x|xs|xs|s|pa|ps r|ms ix] eqn:E; try discriminate.
        unfold opt_of.
        assert (tshape (TyUnion (xs ++ [null_ty])) = norm_union (map tshape xs ++ [ShNull])) as ->
          by (cbn [tshape]; rewrite map_app; reflexivity).
        rewrite norm_union_snoc_null.
        assert (norm_union (map tshape xs) = tshape (TyUnion xs)) as -> by reflexivity.
        rewrite IH by assumption. reflexivity.
      + rewrite opt_of_plain by assumption.
        assert (tshape (TyUnion [ts_ty_of m u; null_ty]) = norm_union [tshape (ts_ty_of m u); ShNull]) as -> by reflexivity.
        rewrite IH by assumption. rewrite norm_union_pair by (apply is_null_tsh; assumption). reflexivity.
    - cbn [union_under_seq dom] in *. cbn [ts_ty_of tsh]. apply IH; assumption.
    - cbn [ts_ty_of tsh]. rewrite custom_ty_prim by exact Hm. reflexivity.
  Qed.

  (* ---- agreement of the intended shapes ---- *)
  Definition top_opt (t : tstruct) : bool := match t with TOpt _ => true | _ => false end.

  Lemma strip_schema n : n <> [] -> strip_suffix (L "Schema") (n ++ L "Schema") = Some n.
  Proof.
    intros Hn. unfold strip_suffix. rewrite app_length.
    replace (List.length n + List.length (L "Schema") - List.length (L "Schema")) with (List.length n) by lia.
    assert ((List.length (L "Schema") <? List.length n + List.length (L "Schema")) = true) as ->.
    { apply Nat.ltb_lt. destruct n; [congruence|cbn; lia]. }
    rewrite skipn_app, skipn_all, Nat.sub_diag. cbn [skipn app].
    rewrite str_eqb_refl. cbn [andb]. rewrite firstn_app, firstn_all, Nat.sub_diag. cbn [firstn]. rewrite app_nil_r. reflexivity.
  Qed.

  Lemma cust_z_none n : lookup m n = None -> name_ok n = true -> cust_z m n = ShRef n.
  Proof.
    intros E Hn. unfold cust_z, zcustom_ex. rewrite E. cbn [zshape]. unfold ref_of_schema_name.
    rewrite strip_schema by (apply name_ok_prim; exact Hn). reflexivity.
  Qed.
  Lemma cust_t_none n : lookup m n = None -> name_ok n = true -> cust_t m n = ShRef n.
  Proof. intros E Hn. unfold cust_t. rewrite E. destruct (name_ok_prim _ Hn) as [-> _]. reflexivity. Qed.

  Lemma cust_agree n : name_ok n = true -> shape_agree (cust_z m n) (cust_t m n) = true.
  Proof.
    intros Hn. destruct (lookup m n) as [x|] eqn:E.
    - unfold cust_z, cust_t, zcustom_ex. rewrite E. destruct (lookup_target _ _ E) as [->|[->| ->]]; reflexivity.
    - rewrite cust_z_none, cust_t_none by assumption. cbn [shape_agree]. apply str_eqb_refl.
  Qed.

  Lemma cust_z_nonopt n : name_ok n = true -> is_shopt (cust_z m n) = false /\ nonjson (cust_z m n) = [].
  Proof.
    intros Hn. destruct (lookup m n) as [x|] eqn:E.
    - unfold cust_z, zcustom_ex. rewrite E. destruct (lookup_target _ _ E) as [->|[->| ->]]; split; reflexivity.
    - rewrite cust_z_none by assumption. split; reflexivity.
  Qed.
  Lemma cust_t_nonopt n : name_ok n = true -> is_shopt (cust_t m n) = false.
  Proof.
    intros Hn. destruct (lookup m n) as [x|] eqn:E.
    - unfold cust_t. rewrite E. destruct (lookup_target _ _ E) as [->|[->| ->]]; reflexivity.
    - rewrite cust_t_none by assumption. reflexivity.
  Qed.

  Lemma zprim_nonopt p key : is_shopt (zprim p key) = false.
  Proof. unfold zprim. repeat match goal with |- context [if ?c then _ else _] => destruct c end; reflexivity. Qed.

  Lemma zsh_nonopt t key : top_opt t = false -> has_res_t t = false -> dom t = true -> is_shopt (zsh m t key) = false.
  Proof.
    destruct t as [p|u|k v|u|l|u|u|n]; cbn [top_opt has_res_t dom zsh]; intros Ht Hr Hd; try reflexivity; try discriminate.
    - apply zprim_nonopt.
    - destruct l; reflexivity.
    - apply cust_z_nonopt; exact Hd.
  Qed.
  Lemma tsh_nonopt t : top_opt t = false -> has_res_t t = false -> dom t = true -> is_shopt (tsh m t) = false.
  Proof.
    destruct t as [p|u|k v|u|l|u|u|n]; cbn [top_opt has_res_t dom tsh]; intros Ht Hr Hd; try reflexivity; try discriminate.
    - apply prim_names_shape in Hd. destruct Hd as [->|[->|[->| ->]]]; reflexivity.
    - destruct l; reflexivity.
    - apply cust_t_nonopt; exact Hd.
  Qed.

  Fixpoint agree_list (l l' : list shape) : bool :=
    match l, l' with [], [] => true | a :: r, b :: r' => shape_agree a b && agree_list r r' | _, _ => false end.
  Lemma agree_tuple_eq l : forall l', shape_agree (ShTuple l) (ShTuple l') = agree_list l l'.
  Proof. induction l as [|a r IH]; destruct l' as [|b r']; try reflexivity; cbn [agree_list]; rewrite <- IH; reflexivity. Qed.
  Lemma agree_list_map {A} (f g : A -> shape) l :
    Forall (fun x => shape_agree (f x) (g x) = true) l -> agree_list (map f l) (map g l) = true.
  Proof. induction 1 as [|x r Hx Hr IH]; [reflexivity|]. cbn [map agree_list]. rewrite Hx, IH. reflexivity. Qed.

  Lemma key_ok_facts k : key_ok k = true -> dom k = true /\ has_set_t k = false /\ has_res_t k = false /\ has_opt_t k = false.
  Proof. destruct k; try discriminate. intros H. destruct (key_ok_dom (TPrim s) H) as [Hd _]. repeat split; auto. Qed.

  Lemma forallb_Forall {A} (f : A -> bool) l : forallb f l = true -> Forall (fun x => f x = true) l.
  Proof. intros H. apply Forall_forall. apply forallb_forall. exact H. Qed.
  Lemma existsb_false_Forall {A} (f : A -> bool) l : existsb f l = false -> Forall (fun x => f x = false) l.
  Proof.
    induction l as [|a r IH]; [constructor|]. cbn [existsb]. intros H. apply orb_false_iff in H. destruct H as [Ha Hr].
    constructor; auto.
  Qed.

  Lemma agree_sh : forall t, dom t = true -> has_set_t t = false -> has_res_t t = false ->
    forall key, shape_agree (zsh m t key) (tsh m t) = true.
  Proof.
    induction t as [p|u IH|k v IHk IHv|u IH|l IH|u IH|u IH|n] using ts_ind2; intros Hd Hs Hr key.
    - cbn [dom] in Hd. apply prim_names_shape in Hd. destruct Hd as [->|[->|[->| ->]]]; destruct key; reflexivity.
    - cbn [dom has_set_t has_res_t] in *. cbn [zsh tsh shape_agree]. apply IH; assumption.
    - cbn [dom has_set_t has_res_t] in *. apply andb_true_iff in Hd. destruct Hd as [Hk Hv].
      apply orb_false_iff in Hs. destruct Hs as [Hs1 Hs2]. apply orb_false_iff in Hr. destruct Hr as [Hr1 Hr2].
      destruct (key_ok_facts _ Hk) as [Hk1 [Hk2 [Hk3 _]]].
      cbn [zsh tsh shape_agree]. rewrite IHk, IHv by assumption. reflexivity.
    - discriminate.
    - destruct l as [|a l']; [reflexivity|].
      cbn [zsh tsh]. rewrite agree_tuple_eq. apply agree_list_map.
      cbn [dom has_set_t has_res_t] in *.
      apply forallb_Forall in Hd. apply existsb_false_Forall in Hs. apply existsb_false_Forall in Hr.
      rewrite Forall_forall in *. intros x Hx. apply IH; auto.
    - cbn [dom has_set_t has_res_t] in *. destruct (top_opt u) eqn:Et.
      + destruct u as [p|u'|k v|u'|l|u'|u'|n]; try discriminate.
        specialize (IH Hd Hs Hr key). cbn [zsh tsh] in IH |- *. rewrite !mk_opt_idem. exact IH.
      + cbn [zsh tsh]. rewrite (mk_opt_plain false true) by (try apply zsh_nonopt; auto).
        rewrite (mk_opt_plain true false) by (try apply tsh_nonopt; auto).
        cbn [shape_agree]. unfold flags_agree. cbn. apply IH; assumption.
    - discriminate.
    - cbn [dom] in Hd. cbn [zsh tsh]. apply cust_agree; exact Hd.
  Qed.

  (* Zod side never nullable, TypeScript side never omittable, at the top of a member type *)
  Lemma zsh_opt_form u key : has_res_t u = false -> dom u = true -> exists a, zsh m (TOpt u) key = ShOpt false true a.
  Proof.
    revert u. fix REC 1. intros u Hr Hd. destruct (top_opt u) eqn:Et.
    - destruct u as [p|u'|k v|u'|l|u'|u'|n]; try discriminate. cbn [has_res_t dom] in *.
      destruct (REC u' Hr Hd) as [a Ha]. exists a. cbn [zsh] in Ha |- *. rewrite mk_opt_idem. exact Ha.
    - exists (zsh m u key). cbn [zsh]. apply mk_opt_plain; [apply zsh_nonopt; assumption|reflexivity].
  Qed.

  Lemma agree_add_omit a t : shape_agree (ShOpt false true a) t = true ->
    shape_agree (ShOpt false true a) (mk_opt false true t) = true.
  Proof.
    destruct t; cbn [shape_agree]; try discriminate. intros H. apply andb_true_iff in H. destruct H as [_ H].
    cbn [mk_opt shape_agree orb]. rewrite H. unfold flags_agree. destruct nullable; reflexivity.
  Qed.

  (* ---- JSON clauses ---- *)
  Lemma flat_map_nil {A B} (f : A -> list B) l : Forall (fun x => f x = []) l -> flat_map f l = [].
  Proof. induction 1 as [|x r Hx Hr IH]; [reflexivity|]. cbn [flat_map]. rewrite Hx, IH. reflexivity. Qed.
  Lemma nonjson_mk_opt n o s : nonjson (mk_opt n o s) = nonjson s.
  Proof. destruct s; cbn [mk_opt]; try (destruct (n || o); reflexivity); try reflexivity. Qed.
  Lemma zprim_json p key : nonjson (zprim p key) = [].
  Proof. unfold zprim. repeat match goal with |- context [if ?c then _ else _] => destruct c end; reflexivity. Qed.

  Lemma json_sh : forall t, dom t = true -> has_set_t t = false -> has_res_t t = false ->
    forall key, nonjson (zsh m t key) = [].
  Proof.
    induction t as [p|u IH|k v IHk IHv|u IH|l IH|u IH|u IH|n] using ts_ind2; intros Hd Hs Hr key.
    - apply zprim_json.
    - cbn [dom has_set_t has_res_t] in *. cbn [zsh nonjson]. apply IH; assumption.
    - cbn [dom has_set_t has_res_t] in *. apply andb_true_iff in Hd. destruct Hd as [Hk Hv].
      apply orb_false_iff in Hs. destruct Hs as [Hs1 Hs2]. apply orb_false_iff in Hr. destruct Hr as [Hr1 Hr2].
      destruct (key_ok_facts _ Hk) as [Hk1 [Hk2 [Hk3 _]]].
      cbn [zsh nonjson]. rewrite IHk, IHv by assumption. reflexivity.
    - discriminate.
    - destruct l as [|a l']; [reflexivity|].
      cbn [zsh nonjson]. rewrite flat_map_concat_map, map_map, <- flat_map_concat_map. apply flat_map_nil.
      cbn [dom has_set_t has_res_t] in *.
      apply forallb_Forall in Hd. apply existsb_false_Forall in Hs. apply existsb_false_Forall in Hr.
      rewrite Forall_forall in *. intros x Hx. apply IH; auto.
    - cbn [dom has_set_t has_res_t] in *. cbn [zsh]. rewrite nonjson_mk_opt. apply IH; assumption.
    - discriminate.
    - cbn [dom] in Hd. cbn [zsh]. apply cust_z_nonopt; exact Hd.
  Qed.

  Fixpoint rejects_list (l l' : list shape) : list reject :=
    match l', l with b :: r', a :: r => rejects a b ++ rejects_list r r' | _, _ => [] end.
  Lemma rejects_tuple_eq l' : forall l, rejects (ShTuple l) (ShTuple l') = rejects_list l l'.
  Proof. induction l' as [|b r' IH]; destruct l as [|a r]; try reflexivity; cbn [rejects_list]; rewrite <- IH; reflexivity. Qed.
  Lemma rejects_list_map {A} (f g : A -> shape) l :
    Forall (fun x => rejects (f x) (g x) = []) l -> rejects_list (map f l) (map g l) = [].
  Proof. induction 1 as [|x r Hx Hr IH]; [reflexivity|]. cbn [map rejects_list]. rewrite Hx, IH. reflexivity. Qed.

  Lemma cust_rejects n : name_ok n = true -> rejects (cust_z m n) (cust_t m n) = [].
  Proof.
    intros Hn. destruct (lookup m n) as [x|] eqn:E.
    - unfold cust_z, cust_t, zcustom_ex. rewrite E. destruct (lookup_target _ _ E) as [->|[->| ->]]; reflexivity.
    - rewrite cust_z_none, cust_t_none by assumption. reflexivity.
  Qed.

  Lemma accept_sh : forall t, dom t = true -> has_set_t t = false -> has_res_t t = false -> has_opt_t t = false ->
    forall key, rejects (zsh m t key) (tsh m t) = [].
  Proof.
    induction t as [p|u IH|k v IHk IHv|u IH|l IH|u IH|u IH|n] using ts_ind2; intros Hd Hs Hr Ho key.
    - cbn [dom] in Hd. apply prim_names_shape in Hd. destruct Hd as [->|[->|[->| ->]]]; destruct key; reflexivity.
    - cbn [dom has_set_t has_res_t has_opt_t] in *. cbn [zsh tsh rejects uncoerce is_nonjson]. apply IH; assumption.
    - cbn [dom has_set_t has_res_t has_opt_t] in *. apply andb_true_iff in Hd. destruct Hd as [Hk Hv].
      apply orb_false_iff in Hs. destruct Hs as [Hs1 Hs2]. apply orb_false_iff in Hr. destruct Hr as [Hr1 Hr2].
      apply orb_false_iff in Ho. destruct Ho as [Ho1 Ho2].
      cbn [zsh tsh rejects uncoerce is_nonjson]. apply IHv; assumption.
    - discriminate.
    - destruct l as [|a l']; [reflexivity|].
      cbn [zsh tsh]. rewrite rejects_tuple_eq. apply rejects_list_map.
      cbn [dom has_set_t has_res_t has_opt_t] in *.
      apply forallb_Forall in Hd. apply existsb_false_Forall in Hs. apply existsb_false_Forall in Hr. apply existsb_false_Forall in Ho.
      rewrite Forall_forall in *. intros x Hx. apply IH; auto.
    - discriminate.
    - discriminate.
    - cbn [dom] in Hd. cbn [zsh tsh]. apply cust_rejects; exact Hd.
  Qed.
End WithMap.
