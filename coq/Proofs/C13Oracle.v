(* C13: the run-time oracle rel (Spec/C13Spec.v) decides exactly the relation between the item lists
   of two generated files. *)
From Coq Require Import List Arith Lia Bool Permutation String Ascii.
Require Import TT.Model.Str TT.Spec.TsLex TT.Spec.TsModule TT.Spec.TsObs TT.Spec.C13Spec.
Import ListNotations.
Local Open Scope list_scope.

Lemma str_eqb_true a b : str_eqb a b = true <-> a = b.
Proof. unfold str_eqb. destruct (list_eq_dec ascii_dec a b); split; auto; discriminate. Qed.
Lemma list_eqb_true a : forall b, list_eqb a b = true <-> a = b.
Proof. induction a as [|x a IH]; intros [|y b]; cbn [list_eqb]; split; intros H; try discriminate; auto.
  - apply andb_true_iff in H as [H1 H2]. apply str_eqb_true in H1. apply IH in H2. subst; auto.
  - inversion H; subst. apply andb_true_iff. split; [apply str_eqb_true; auto|apply IH; auto]. Qed.

Definition sdec := list_eq_dec ascii_dec.
Lemma count_occ_eq x l : count x l = count_occ sdec l x.
Proof. unfold count. induction l as [|y l IH]; cbn [filter count_occ List.length]; auto.
  destruct (sdec y x) as [->|N].
  - replace (str_eqb x x) with true by (symmetry; apply str_eqb_true; auto). cbn [List.length]. rewrite IH. reflexivity.
  - replace (str_eqb x y) with false; auto. symmetry. destruct (str_eqb x y) eqn:E; auto. apply str_eqb_true in E. congruence. Qed.

Lemma ms_eqb_true a b : ms_eqb a b = true <-> Permutation a b.
Proof. rewrite (Permutation_count_occ sdec). unfold ms_eqb. rewrite andb_true_iff, !forallb_forall. split.
  - intros [Ha Hb] x. rewrite <- !count_occ_eq.
    destruct (in_dec sdec x a) as [I|I]; [apply Nat.eqb_eq, Ha; auto|].
    destruct (in_dec sdec x b) as [J|J]; [apply Nat.eqb_eq, Hb; auto|].
    rewrite !count_occ_eq. rewrite (proj1 (count_occ_not_In sdec a x) I), (proj1 (count_occ_not_In sdec b x) J). reflexivity.
  - intros H. split; intros x _; apply Nat.eqb_eq; rewrite !count_occ_eq; apply H. Qed.

Theorem rel_exact : forall a b v, rel a b = v <-> rel_spec a b v.
Proof. intros a b v. unfold rel, rel_spec. destruct (file_items a) as [x|] eqn:Ea, (file_items b) as [y|] eqn:Eb.
  - destruct (list_eqb x y) eqn:E1.
    + apply list_eqb_true in E1. subst y. split.
      * intros <-. exists x. auto.
      * destruct v; auto.
        -- intros (x' & y' & H1 & H2 & N & _). congruence.
        -- intros (x' & y' & H1 & H2 & N). exfalso. apply N. inversion H1; inversion H2; subst. apply Permutation_refl.
        -- intros [H|H]; discriminate.
    + assert (N : x <> y) by (intros ->; rewrite (proj2 (list_eqb_true y y) eq_refl) in E1; discriminate).
      destruct (ms_eqb x y) eqn:E2.
      * apply ms_eqb_true in E2. split.
        -- intros <-. exists x, y. auto.
        -- destruct v; auto.
           ++ intros (x' & H1 & H2). congruence.
           ++ intros (x' & y' & H1 & H2 & N'). exfalso. inversion H1; inversion H2; subst. auto.
           ++ intros [H|H]; discriminate.
      * assert (N2 : ~ Permutation x y) by (intros P; apply ms_eqb_true in P; congruence). split.
        -- intros <-. exists x, y. auto.
        -- destruct v; auto.
           ++ intros (x' & H1 & H2). congruence.
           ++ intros (x' & y' & H1 & H2 & _ & P). exfalso. inversion H1; inversion H2; subst. auto.
           ++ intros [H|H]; discriminate.
  - split. intros <-. right; auto. destruct v; auto; try (intros (x' & y' & _ & H & _); discriminate).
    intros (x' & _ & H); discriminate.
  - split. intros <-. left; auto. destruct v; auto; try (intros (x' & y' & H & _); discriminate).
    intros (x' & H & _); discriminate.
  - split. intros <-. left; auto. destruct v; auto; try (intros (x' & y' & H & _); discriminate).
    intros (x' & H & _); discriminate.
Qed.
