(* C13: the run-time oracle rel (Spec/C13Spec.v) decides exactly the relation between the item lists
   of two generated files. *)
From Coq Require Import List Arith Lia Bool Permutation String Ascii.
Require Import TT.Model.Str TT.Spec.TsLex TT.Spec.TsModule TT.Spec.TsObs TT.Spec.C13Spec.
Import ListNotations.
Local Open Scope list_scope.

Lemma str_eqb_true a b : str_eqb a b = true <-> a = b.
Proof. unfold str_eqb. destruct (list_eq_dec ascii_dec a b); split; auto; discriminate. Qed.
Lemma list_eqb_true a : forall b, list_eqb a b = true <-> a = b.
Proof. induction a as [|x a IH]; intros [|y b]; cbn [list_eqb]; split; intros H; try discriminate; auto.
  - apply andb_true_iff in H as [H1 H2]. apply str_eqb_true in H1. apply IH in H2. subst; auto.
  - inversion H; subst. apply andb_true_iff. split; [apply str_eqb_true; auto|apply IH; auto]. Qed.

Definition sdec := list_eq_dec ascii_dec.
Lemma count_occ_eq x l : count x l = count_occ sdec l x.
Proof. unfold count. induction l as [|y l IH]; cbn [filter count_occ List.length]; auto.
  destruct (sdec y x) as [->|N].
  - replace (str_eqb x x) with true by (symmetry; apply str_eqb_true; auto). cbn [List.length]. rewrite IH. reflexivity.
  - replace (str_eqb x y) with false; auto. symmetry. destruct (str_eqb x y) eqn:E; auto. apply str_eqb_true in E. congruence. Qed.

Lemma ms_eqb_true a b : ms_eqb a b = true <-> Permutation a b.
Proof. rewrite (Permutation_count_occ sdec). unfold ms_eqb. rewrite andb_true_iff, !forallb_forall. split.
  - intros [Ha Hb] x. rewrite <- !count_occ_eq.
    destruct (in_dec sdec x a) as [I|I]; [apply Nat.eqb_eq, Ha; auto|].
    destruct (in_dec sdec x b) as [J|J]; [apply Nat.eqb_eq, Hb; auto|].
    rewrite !count_occ_eq. rewrite (proj1 (count_occ_not_In sdec a x) I), (proj1 (count_occ_not_In sdec b x) J). reflexivity.
  - intros H. split; intros x _; apply Nat.eqb_eq; rewrite !count_occ_eq; apply H. Qed.

Theorem rel_exact : forall a b v, rel a b = v <-> rel_spec a b v.
Proof. intros a b v. unfold rel, rel_spec. destruct (file_items a) as [x|] eqn:Ea, (file_items b) as [y|] eqn:Eb.
  - destruct (list_eqb x y) eqn:E1.
    + apply list_eqb_true in E1. subst y. split.
      * intros <-. exists x. auto.
      * destruct v; auto.
        -- intros (x' & y' & H1 & H2 & N & _). congruence.
        -- intros (x' & y' & H1 & H2 & N). exfalso. apply N. inversion H1; inversion H2; subst. apply Permutation_refl.
        -- intros [H|H]; discriminate.
    + assert (N : x <> y) by (intros ->; rewrite (proj2 (list_eqb_true y y) eq_refl) in E1; discriminate).
      destruct (ms_eqb x y) eqn:E2.
      * apply ms_eqb_true in E2. split.
        -- intros <-. exists x, y. auto.
        -- destruct v; auto.
           ++ intros (x' & H1 & H2). congruence.
           ++ intros (x' & y' & H1 & H2 & N'). exfalso. inversion H1; inversion H2; subst. auto.
           ++ intros [H|H]; discriminate.
      * assert (N2 : ~ Permutation x y) by (intros P; apply ms_eqb_true in P; congruence). split.
        -- intros <-. exists x, y. auto.
        -- destruct v; auto.
           ++ intros (x' & H1 & H2). congruence.
           ++ intros (x' & y' & H1 & H2 & _ & P). exfalso. inversion H1; inversion H2; subst. auto.
           ++ intros [H|H]; discriminate.
  - split. intros <-. right; auto. destruct v; auto; try (intros (x' & y' & _ & H & _); discriminate).
    intros (x' & _ & H); discriminate.
  - split. intros <-. left; auto. destruct v; auto; try (intros (x' & y' & H & _); discriminate).
    intros (x' & H & _); discriminate.
  - split. intros <-. left; auto. destruct v; auto; try (intros (x' & y' & H & _); discriminate).
    intros (x' & H & _); discriminate.
Qed.

(* ---------------- round 7: the canonical printer is injective ---------------- *)
Local Open Scope char_scope.
Lemma esc_inj a : forall a' r r', esc a ++ r = esc a' ++ r' -> a = a' /\ r = r'.
Proof. induction a as [|c a IH]; intros [|c' a'] r r' H; cbn [esc app] in H.
  - inversion H. auto.
  - discriminate H.
  - discriminate H.
  - inversion H as [[Hc Hr]]. destruct (IH _ _ _ Hr) as [-> ->]. auto. Qed.

Lemma sx_nested_ind (P : sx -> Prop) :
  (forall a, P (SA a)) -> (forall l, Forall P l -> P (SL l)) -> forall s, P s.
Proof. intros Ha Hl. fix go 1. intros [a|l]. apply Ha. apply Hl.
  induction l as [|x r IH]; constructor; [apply go|exact IH]. Qed.

Lemma sx_show_head x : exists c t, sx_show x = c :: t /\ c <> ")".
Proof. destruct x as [a|l]; cbn [sx_show]; eexists; eexists; (split; [reflexivity|]); intros E; discriminate E. Qed.

Definition show_pf (s : sx) : Prop := forall s' r r', sx_show s ++ r = sx_show s' ++ r' -> s = s' /\ r = r'.

Lemma show_list_pf l : Forall show_pf l -> forall l' r r',
  flat_map (fun x => sx_show x) l ++ ")" :: r = flat_map (fun x => sx_show x) l' ++ ")" :: r' -> l = l' /\ r = r'.
Proof. induction 1 as [|x l Hx _ IH]; intros [|x' l'] r r' H; cbn [flat_map app] in H.
  - inversion H. auto.
  - exfalso. destruct (sx_show_head x') as (c & t & E & N). rewrite E in H. cbn [app] in H. inversion H. congruence.
  - exfalso. destruct (sx_show_head x) as (c & t & E & N). rewrite E in H. cbn [app] in H. inversion H. congruence.
  - rewrite <- !app_assoc in H. destruct (Hx _ _ _ H) as [-> H']. destruct (IH _ _ _ H') as [-> ->]. auto. Qed.

Lemma sx_show_prefix_free : forall s, show_pf s.
Proof. apply sx_nested_ind.
  - intros a [a'|l'] r r' H; cbn [sx_show app] in H.
    + inversion H as [H1]. destruct (esc_inj _ _ _ _ H1) as [-> ->]. auto.
    + discriminate H.
  - intros l Hl [a'|l'] r r' H; cbn [sx_show app] in H.
    + discriminate H.
    + inversion H as [H1]. rewrite <- !app_assoc in H1. cbn [app] in H1.
      destruct (show_list_pf l Hl _ _ _ H1) as [-> ->]. auto. Qed.

Theorem sx_show_inj : forall s s', sx_show s = sx_show s' -> s = s'.
Proof. intros s s' H. destruct (sx_show_prefix_free s s' [] []) as [E _]; auto. rewrite !app_nil_r. exact H. Qed.

Lemma map_inj {A B} (f : A -> B) : (forall x y, f x = f y -> x = y) -> forall l l', map f l = map f l' -> l = l'.
Proof. intros Hf. induction l as [|x l IH]; intros [|y l'] H; cbn [map] in H; try discriminate; auto.
  inversion H. f_equal; auto. Qed.

(* the verdict same-items means: both versions parse and their items have the same s-expressions, in order *)
Theorem rel_same_items_sx : forall a b, rel a b = SameItems <->
  exists ma mb, parse_module a = Some ma /\ parse_module b = Some mb /\ map sx_item ma = map sx_item mb.
Proof. intros a b. rewrite rel_exact. unfold rel_spec, file_items. split.
  - intros (x & Ha & Hb). destruct (parse_module a) as [ma|]; [|discriminate]. destruct (parse_module b) as [mb|]; [|discriminate].
    exists ma, mb. repeat split; auto. inversion Ha; inversion Hb; subst.
    match goal with H : map _ mb = map _ ma |- _ => rename H into E end.
    rewrite <- !(map_map sx_item sx_show) in E. symmetry. apply (map_inj sx_show sx_show_inj). exact E.
  - intros (ma & mb & -> & -> & E). exists (map (fun it => sx_show (sx_item it)) ma). split; auto.
    rewrite <- !(map_map sx_item sx_show). rewrite E. reflexivity. Qed.
