(* C05: on the documented language the three type_to_string variants print the same text, tts. *)
From Coq Require Import String Ascii.
From Coq Require Import List Arith Bool.
Require Import TT.Model.Str TT.Proofs.StrFacts TT.Model.TypeParse TT.Proofs.TypeParseProofs TT.Model.C05TypeStr.
Import ListNotations.
Local Open Scope list_scope.

Lemma type_args_emb (f : xty -> str) l : type_args f (map (fun a => Some (emb a)) l) = map (fun a => f (emb a)) l.
Proof. unfold type_args. induction l as [|x l IH]; [reflexivity|]. cbn [map flat_map app]. rewrite IH. reflexivity. Qed.

Lemma map_emb_ext (f : xty -> str) l : Forall (fun t => f (emb t) = tts t) l -> map (fun a => f (emb a)) l = map tts l.
Proof. induction 1 as [|x l Hx _ IH]; [reflexivity|]. cbn [map]. rewrite Hx, IH. reflexivity. Qed.

Theorem printers_agree : forall t, pr_cmd (emb t) = tts t /\ pr_struct (emb t) = tts t /\ pr_chan (emb t) = tts t.
Proof.
  induction t as [n args IH|t IH|l IH] using rty_ind'.
  - destruct args as [|a args]; [repeat split; cbn; rewrite ?app_nil_r; reflexivity|].
    assert (H1 : Forall (fun t => pr_cmd (emb t) = tts t) (a :: args)) by (eapply Forall_impl; [|exact IH]; cbv beta; tauto).
    assert (H2 : Forall (fun t => pr_struct (emb t) = tts t) (a :: args)) by (eapply Forall_impl; [|exact IH]; cbv beta; tauto).
    assert (H3 : Forall (fun t => pr_chan (emb t) = tts t) (a :: args)) by (eapply Forall_impl; [|exact IH]; cbv beta; tauto).
    rewrite tts_path_cons. set (l := a :: args) in *.
    change (emb (RPath n l)) with (XPath [(n, Some (map (fun a => Some (emb a)) l))]).
    repeat split.
    + cbn [pr_cmd map fst snd join]. change (is_nil (map (fun a0 => Some (emb a0)) l)) with false. cbv iota.
      rewrite type_args_emb, (map_emb_ext pr_cmd l H1). reflexivity.
    + cbn [pr_struct map fst snd join]. rewrite map_map. rewrite (map_emb_ext pr_struct l H2). reflexivity.
    + cbn [pr_chan map fst snd join]. cbv zeta. rewrite type_args_emb, (map_emb_ext pr_chan l H3).
      change (is_nil (map tts l)) with false. reflexivity.
  - destruct IH as (A & B & C). cbn [emb pr_cmd pr_struct pr_chan]. rewrite A, B, C. rewrite tts_ref. repeat split; reflexivity.
  - destruct l as [|a l]; [repeat split; reflexivity|].
    assert (H1 : Forall (fun t => pr_cmd (emb t) = tts t) (a :: l)) by (eapply Forall_impl; [|exact IH]; cbv beta; tauto).
    assert (H2 : Forall (fun t => pr_struct (emb t) = tts t) (a :: l)) by (eapply Forall_impl; [|exact IH]; cbv beta; tauto).
    assert (H3 : Forall (fun t => pr_chan (emb t) = tts t) (a :: l)) by (eapply Forall_impl; [|exact IH]; cbv beta; tauto).
    rewrite tts_tuple. set (k := a :: l) in *. change (emb (RTuple k)) with (XTuple (map emb k)).
    assert (Hk : exists x xs, map emb k = x :: xs) by (exists (emb a), (map emb l); reflexivity).
    destruct Hk as (x & xs & Hk).
    repeat split.
    + change (pr_cmd (XTuple (map emb k))) with (match map emb k with [] => L "()" | _ => L "(" ++ join (L ", ") (map pr_cmd (map emb k)) ++ L ")" end).
      rewrite Hk. rewrite <- Hk. rewrite map_map, (map_emb_ext pr_cmd k H1). reflexivity.
    + cbn [pr_struct]. rewrite map_map, (map_emb_ext pr_struct k H2). reflexivity.
    + change (pr_chan (XTuple (map emb k))) with (match map emb k with [] => L "()" | _ => L "(" ++ join (L ", ") (map pr_chan (map emb k)) ++ L ")" end).
      rewrite Hk. rewrite <- Hk. rewrite map_map, (map_emb_ext pr_chan k H3). reflexivity.
Qed.
