(* C14 round 7: the per-file order premise of C14_fp_order_independent follows from the structure of the project: when the
   files (as one valid order enumerates them) have pairwise distinct relative paths and every command carries the path of
   its file, every valid order lists the commands of each single file in the same (source) order. *)
From Coq Require Import List Arith Bool Permutation.
Require Import TT.Model.Str TT.Model.C08Fingerprint TT.Proofs.SortInvSpike.
Import ListNotations.

Lemma filter_flat_map {A B} (q : B -> bool) (f : A -> list B) l :
  filter q (flat_map f l) = flat_map (fun x => filter q (f x)) l.
Proof. induction l as [|x l IH]; cbn [flat_map]; [reflexivity|]. rewrite filter_app, IH. reflexivity. Qed.

Lemma flat_map_all_nil {A B} (g : A -> list B) l : (forall x, In x l -> g x = []) -> flat_map g l = [].
Proof. induction l as [|x l IH]; intros H; cbn [flat_map]; [reflexivity|].
  rewrite (H x (or_introl eq_refl)), IH; [reflexivity|]. intros y Hy. apply H. right. exact Hy. Qed.

Lemma flat_map_single {A B} (g : A -> list B) f0 : forall l, NoDup l -> In f0 l ->
  (forall x, In x l -> x <> f0 -> g x = []) -> flat_map g l = g f0.
Proof. induction l as [|x l IH]; intros Hn Hin H; [destruct Hin|]. cbn [flat_map]. inversion Hn as [|? ? Hx Hn']; subst.
  destruct Hin as [->|Hin].
  - rewrite flat_map_all_nil; [apply app_nil_r|]. intros y Hy. apply H; [right; exact Hy|]. intros ->. contradiction.
  - rewrite (H x (or_introl eq_refl)); [|intros ->; contradiction]. cbn [app]. apply IH; [exact Hn'|exact Hin|].
    intros y Hy. apply H. right. exact Hy. Qed.

Lemma flat_map_perm_unique {A B} (g : A -> list B) l l' : Permutation l l' -> NoDup l ->
  (forall x y, In x l -> In y l -> g x <> [] -> g y <> [] -> x = y) -> flat_map g l = flat_map g l'.
Proof. intros Hp Hn Hu.
  destruct (find (fun x => match g x with [] => false | _ => true end) l) as [f0|] eqn:E.
  - apply find_some in E. destruct E as [Hin Hg].
    assert (Hne : g f0 <> []) by (destruct (g f0); [discriminate|discriminate]).
    assert (Hall : forall x, In x l -> x <> f0 -> g x = []).
    { intros x Hx Hd. destruct (g x) eqn:Ex; [reflexivity|]. exfalso. apply Hd. apply Hu; try assumption. rewrite Ex. discriminate. }
    rewrite (flat_map_single g f0 l Hn Hin Hall). symmetry. apply flat_map_single.
    + eapply Permutation_NoDup; eassumption.
    + eapply Permutation_in; eassumption.
    + intros x Hx. apply Hall. eapply Permutation_in; [apply Permutation_sym; exact Hp|exact Hx].
  - assert (Hall : forall x, In x l -> g x = []).
    { intros x Hx. pose proof (find_none _ _ E x Hx) as Hf. cbv beta in Hf. destruct (g x); [reflexivity|discriminate]. }
    rewrite (flat_map_all_nil g l Hall). symmetry. apply flat_map_all_nil. intros x Hx. apply Hall.
    eapply Permutation_in; [apply Permutation_sym; exact Hp|exact Hx]. Qed.

Lemma NoDup_map_inj {A B} (h : A -> B) : forall l, NoDup (map h l) -> forall a b, In a l -> In b l -> h a = h b -> a = b.
Proof. induction l as [|x l IH]; intros Hn a b Ha Hb E; [destruct Ha|]. cbn [map] in Hn. inversion Hn as [|? ? Hx Hn']; subst.
  destruct Ha as [->|Ha], Hb as [->|Hb]; try reflexivity.
  - exfalso. apply Hx. rewrite E. apply in_map. exact Hb.
  - exfalso. apply Hx. rewrite <- E. apply in_map. exact Ha.
  - apply IH; assumption. Qed.

Lemma NoDup_of_map {A B} (h : A -> B) l : NoDup (map h l) -> NoDup l.
Proof. induction l as [|x l IH]; intros H; [constructor|]. cbn [map] in H. inversion H as [|? ? Hx Hn]; subst. constructor.
  - intros Hin. apply Hx. apply in_map. exact Hin.
  - apply IH. exact Hn. Qed.

Lemma same_file_path root x k : same_file root x k = true -> rel_path root (c_file x) = rel_path root (c_file k).
Proof. unfold same_file, same, cmd_leb. intros H. apply andb_prop in H. destruct H as [H1 H2]. apply str_leb_antisym; assumption. Qed.

Theorem per_file_order_from_structure (root : str) (p : project) (wa wb : sched) :
  is_perm_of_seq (w_files wa) (length p) = true -> is_perm_of_seq (w_files wb) (length p) = true ->
  NoDup (map (fun f => rel_path root (sf_path f)) (pick empty_file p (w_files wa))) ->
  (forall f k, In f (pick empty_file p (w_files wa)) -> In k (sf_cmds f) -> c_file k = sf_path f) ->
  forall x, filter (same_file root x) (a_cmds (analyse wa p)) = filter (same_file root x) (a_cmds (analyse wb p)).
Proof. intros H1 H2 Hn Hc x. apply perm_of_seq in H1. apply perm_of_seq in H2.
  assert (Hp : Permutation (pick empty_file p (w_files wa)) (pick empty_file p (w_files wb))).
  { unfold pick. apply Permutation_map. eapply perm_trans; [apply Permutation_sym; exact H1|exact H2]. }
  unfold analyse. cbn [a_cmds]. rewrite !filter_flat_map. apply flat_map_perm_unique; [exact Hp|exact (NoDup_of_map _ _ Hn)|].
  intros f f' Hf Hf' Hg Hg'. apply (NoDup_map_inj _ _ Hn); [exact Hf|exact Hf'|].
  assert (Hkey : forall f0, In f0 (pick empty_file p (w_files wa)) -> filter (same_file root x) (sf_cmds f0) <> [] ->
                 rel_path root (c_file x) = rel_path root (sf_path f0)).
  { intros f0 Hin Hne. destruct (filter (same_file root x) (sf_cmds f0)) as [|k r] eqn:E; [contradiction|].
    assert (Hk : In k (filter (same_file root x) (sf_cmds f0))) by (rewrite E; left; reflexivity).
    apply filter_In in Hk. destruct Hk as [Hk Hs]. rewrite <- (Hc f0 k Hin Hk). apply same_file_path. exact Hs. }
  rewrite <- (Hkey f Hf Hg), <- (Hkey f' Hf' Hg'). reflexivity. Qed.

(* composed with fp_order_independent: no premise about discovery orders of commands is left *)
Require Import TT.Proofs.C08Examples.
Theorem fp_order_independent_structural (p : project) (c : config) (wa wb : sched) :
  valid_sched wa p c = true -> valid_sched wb p c = true ->
  NoDup (map (fun f => rel_path (g_ppath c) (sf_path f)) (pick empty_file p (w_files wa))) ->
  (forall f k, In f (pick empty_file p (w_files wa)) -> In k (sf_cmds f) -> c_file k = sf_path f) ->
  NoDup (map s_name (a_structs (analyse wa p))) ->
  u_events (analyse wa p) = u_events (analyse wb p) ->
  fp wa p c = fp wb p c.
Proof. intros Va Vb Hn Hc Hs He. apply fp_order_independent; try assumption.
  unfold valid_sched in Va, Vb. apply andb_prop in Va. apply andb_prop in Vb.
  apply per_file_order_from_structure; try assumption; tauto. Qed.

Lemma ex_structure :
  valid_sched w01 p2 c0 = true /\ valid_sched w10 p2 c0 = true /\
  NoDup (map (fun f => rel_path (g_ppath c0) (sf_path f)) (pick empty_file p2 (w_files w01))) /\
  (forall f k, In f (pick empty_file p2 (w_files w01)) -> In k (sf_cmds f) -> c_file k = sf_path f).
Proof. split; [reflexivity|]. split; [reflexivity|]. split.
  - vm_compute. constructor; [intros [H|[]]; discriminate H|]. constructor; [intros []|constructor].
  - intros f k Hf Hk. vm_compute in Hf. destruct Hf as [<-|[<-|[]]]; vm_compute in Hk; destruct Hk as [<-|[]]; reflexivity. Qed.
