From Coq Require Import String Ascii.
From Coq Require Import List Arith Lia Bool NArith.
Import ListNotations.
Local Open Scope list_scope.
Local Open Scope char_scope.

Definition str := list ascii.
Definition is_us (c : ascii) : bool := Ascii.eqb c "_".
Definition is_lower (c : ascii) : bool := (97 <=? N_of_ascii c)%N && (N_of_ascii c <=? 122)%N.
Definition is_upper (c : ascii) : bool := (65 <=? N_of_ascii c)%N && (N_of_ascii c <=? 90)%N.
Definition upper (c : ascii) : ascii := if is_lower c then ascii_of_N (N_of_ascii c - 32) else c.  (* to_ascii_uppercase *)
Definition lower (c : ascii) : ascii := if is_upper c then ascii_of_N (N_of_ascii c + 32) else c.  (* to_ascii_lowercase *)

(* ---- model: serde-rename-rule's apply_to_field, PascalCase and CamelCase ---- *)
Fixpoint pascal (cap : bool) (s : str) : str :=
  match s with
  | [] => []
  | c :: s' => if is_us c then pascal true s'
               else if cap then upper c :: pascal false s' else c :: pascal false s'
  end.
Inductive outcome (A : Type) := Panic | Ok (a : A).
Arguments Panic {A}. Arguments Ok {A} _.
Definition is_cont (b : ascii) : bool := (128 <=? N_of_ascii b)%N && (N_of_ascii b <? 192)%N.
(* pascal[..1].to_ascii_lowercase() + &pascal[1..] *)
Definition camel_b (s : str) : outcome str :=
  match pascal true s with
  | [] => Panic                                        (* [..1] out of range *)
  | c :: rest => match rest with
                 | r :: _ => if is_cont r then Panic else Ok (lower c :: rest)   (* 1 is not a char boundary *)
                 | [] => Ok [lower c]
                 end
  end.

(* ---- spec: Tauri's rule (heck lowerCamelCase on snake_case names): split on '_', drop empty
        words, capitalise every word but the first ---- *)
Fixpoint words_go (cur : str) (s : str) : list str :=
  match s with
  | [] => match cur with [] => [] | _ => [rev cur] end
  | c :: s' => if is_us c then match cur with [] => words_go [] s' | _ => rev cur :: words_go [] s' end
               else words_go (c :: cur) s'
  end.
Definition words (s : str) : list str := words_go [] s.
Definition capw (w : str) : str := match w with [] => [] | c :: r => upper c :: r end.
Definition tauri_camel (s : str) : str :=
  match words s with [] => [] | w :: ws => w ++ concat (map capw ws) end.

Definition snake_char (c : ascii) : bool :=
  is_us c || is_lower c || ((48 <=? N_of_ascii c)%N && (N_of_ascii c <=? 57)%N).

Eval vm_compute in (camel_b (list_ascii_of_string "a__b_1c_"), tauri_camel (list_ascii_of_string "a__b_1c_"),
                    camel_b (list_ascii_of_string "__")).

(* pascal in terms of words *)
Lemma pascal_words : forall s cur,
  (* in the middle of a word whose already-consumed part is cur (reversed, non-empty) *)
  (cur <> [] -> concat (map capw (words_go cur s)) = capw (rev cur) ++ pascal false s) /\
  (concat (map capw (words_go [] s)) = pascal true s).
Proof.
  induction s as [|c s IH]; intros cur; split.
  - intros Hc. simpl. destruct cur; [congruence|]. simpl. rewrite !app_nil_r. reflexivity.
  - reflexivity.
  - intros Hc. simpl. destruct (is_us c) eqn:E.
    + destruct cur as [|x cur]; [congruence|]. simpl. f_equal. apply (proj2 (IH [])).
    + destruct (IH (c :: cur)) as [H _]. rewrite H by discriminate.
      simpl. destruct (rev cur) as [|y r] eqn:Er.
      * destruct cur; [congruence|]. exfalso. apply (f_equal (@List.length _)) in Er. rewrite rev_length in Er. simpl in Er. lia.
      * simpl. rewrite <- app_assoc. reflexivity.
  - simpl. destruct (is_us c) eqn:E.
    + apply (proj2 (IH [])).
    + destruct (IH [c]) as [H _]. rewrite H by discriminate. reflexivity.
Qed.

(* finite sweep over all 256 bytes, lifted with forallb_forall *)
Definition all_bytes : list ascii := map (fun n => ascii_of_nat n) (seq 0 256).
Lemma all_bytes_complete c : In c all_bytes.
Proof. unfold all_bytes. apply in_map_iff. exists (nat_of_ascii c). split. apply ascii_nat_embedding.
  apply in_seq. pose proof (nat_ascii_bounded c). lia. Qed.

Definition char_facts (c : ascii) : bool :=
  implb (snake_char c && negb (is_us c))
        (Ascii.eqb (lower (upper c)) c && negb (is_cont c) && negb (is_cont (upper c)) && negb (is_us (upper c))).
Lemma char_facts_all : forallb char_facts all_bytes = true.
Proof. vm_compute. reflexivity. Qed.
Lemma char_facts_ok c : snake_char c = true -> is_us c = false ->
  lower (upper c) = c /\ is_cont c = false /\ is_cont (upper c) = false.
Proof. intros Hs Hu. pose proof (proj1 (forallb_forall _ _) char_facts_all c (all_bytes_complete c)) as H.
  unfold char_facts in H. rewrite Hs, Hu in H. simpl in H.
  apply andb_true_iff in H as [H H4]. apply andb_true_iff in H as [H H3]. apply andb_true_iff in H as [H1 H2].
  apply Ascii.eqb_eq in H1. apply negb_true_iff in H2. apply negb_true_iff in H3. auto. Qed.

Lemma words_go_snake : forall s cur, forallb snake_char s = true -> Forall (fun c => snake_char c = true /\ is_us c = false) cur ->
  Forall (fun w => w <> [] /\ Forall (fun c => snake_char c = true /\ is_us c = false) w) (words_go cur s).
Proof. induction s as [|c s IH]; intros cur Hs Hc; simpl.
  - destruct cur; constructor; auto. split; [intro E; apply (f_equal (@List.length _)) in E; rewrite rev_length in E; simpl in E; lia|].
    apply Forall_rev; auto.
  - simpl in Hs. apply andb_true_iff in Hs as [Hc1 Hs]. destruct (is_us c) eqn:E.
    + destruct cur as [|x cur]; [apply IH; auto|]. constructor; [|apply IH; auto].
      split; [intro E'; apply (f_equal (@List.length _)) in E'; rewrite rev_length in E'; simpl in E'; lia|]. apply Forall_rev; auto.
    + apply IH; auto. Qed.

Lemma capw_pascal_head w ws : w <> [] -> Forall (fun c => snake_char c = true /\ is_us c = false) w ->
  Forall (fun w => w <> [] /\ Forall (fun c => snake_char c = true /\ is_us c = false) w) ws ->
  match capw w ++ concat (map capw ws) with
  | [] => False
  | c :: rest => lower c :: rest = w ++ concat (map capw ws) /\
                 match rest with r :: _ => is_cont r = false | [] => True end
  end.
Proof. intros Hne Hw Hws. destruct w as [|c r]; [congruence|]. simpl. inversion Hw as [|? ? [Hs Hu] Hr]; subst.
  destruct (char_facts_ok c Hs Hu) as (Hl & _ & _). rewrite Hl. split; auto.
  destruct r as [|r0 r]; simpl.
  - destruct ws as [|w2 ws]; simpl; auto. inversion Hws as [|? ? [Hn2 Hf2] _]; subst.
    destruct w2 as [|c2 r2]; [congruence|]. simpl. inversion Hf2 as [|? ? [Hs2 Hu2] _]; subst.
    apply (char_facts_ok c2 Hs2 Hu2).
  - inversion Hr as [|? ? [Hs0 Hu0] _]; subst. apply (char_facts_ok r0 Hs0 Hu0). Qed.

(* C04_camel_agrees *)
Theorem camel_agrees s : forallb snake_char s = true -> existsb (fun c => negb (is_us c)) s = true ->
  camel_b s = Ok (tauri_camel s).
Proof. intros Hs Hne. unfold camel_b, tauri_camel, words.
  rewrite <- (proj2 (pascal_words s [])).
  pose proof (words_go_snake s [] Hs (Forall_nil _)) as Hw.
  destruct (words_go [] s) as [|w ws] eqn:E.
  - exfalso. (* some non-underscore char exists, so there is a word *)
    assert (forall s cur, words_go cur s = [] -> cur = [] /\ existsb (fun c => negb (is_us c)) s = false).
    { clear. induction s as [|c s IH]; intros cur H; simpl in *.
      - destruct cur; [auto|discriminate].
      - destruct (is_us c) eqn:Eu; simpl.
        + destruct cur; [apply IH in H; tauto|discriminate].
        + apply IH in H. destruct H; discriminate. }
    apply H in E. destruct E as [_ E]. congruence.
  - inversion Hw as [|? ? [Hn Hf] Hws]; subst. simpl map. simpl concat.
    pose proof (capw_pascal_head w ws Hn Hf Hws) as H.
    destruct (capw w ++ concat (map capw ws)) as [|c rest]; [contradiction|].
    destruct H as [H1 H2]. destruct rest as [|r rest].
    + rewrite <- H1. reflexivity.
    + rewrite H2. rewrite <- H1. reflexivity.
Qed.
