(* C04_camel_agrees: apply_to_field(CamelCase) as called (Model/C04Case.v camel_b, with its
   [..1] / [1..] slices) agrees with Tauri's word-splitting rule (Spec/C04TauriCase.v tauri_camel)
   on names over [a-z0-9_] that contain a non-underscore. *)
From Coq Require Import String Ascii.
From Coq Require Import List Arith Lia Bool NArith.
Import ListNotations.
Local Open Scope list_scope.
Local Open Scope char_scope.

Require Import TT.Model.Str TT.Model.C04Case TT.Model.C04Model TT.Spec.C04TauriCase.

Lemma snake_char_unfold c : snake_char c = is_us c || is_lower c || ((48 <=? N_of_ascii c)%N && (N_of_ascii c <=? 57)%N).
Proof. reflexivity. Qed.

(* pascal in terms of words *)
Lemma pascal_words : forall s cur,
  (* in the middle of a word whose already-consumed part is cur (reversed, non-empty) *)
  (cur <> [] -> concat (map capw (words_go cur s)) = capw (rev cur) ++ pascal false s) /\
  (concat (map capw (words_go [] s)) = pascal true s).
Proof.
  induction s as [|c s IH]; intros cur; split.
  - intros Hc. simpl. destruct cur; [congruence|]. simpl. rewrite !app_nil_r. reflexivity.
  - reflexivity.
  - intros Hc. simpl. destruct (is_us c) eqn:E.
    + destruct cur as [|x cur]; [congruence|]. simpl. f_equal. apply (proj2 (IH [])).
    + destruct (IH (c :: cur)) as [H _]. rewrite H by discriminate.
      simpl. destruct (rev cur) as [|y r] eqn:Er.
      * destruct cur; [congruence|]. exfalso. apply (f_equal (@List.length _)) in Er. rewrite rev_length in Er. simpl in Er. lia.
      * simpl. rewrite <- app_assoc. reflexivity.
  - simpl. destruct (is_us c) eqn:E.
    + apply (proj2 (IH [])).
    + destruct (IH [c]) as [H _]. rewrite H by discriminate. reflexivity.
Qed.

(* finite sweep over all 256 bytes, lifted with forallb_forall *)
Definition all_bytes : list ascii := map (fun n => ascii_of_nat n) (seq 0 256).
Lemma all_bytes_complete c : In c all_bytes.
Proof. unfold all_bytes. apply in_map_iff. exists (nat_of_ascii c). split. apply ascii_nat_embedding.
  apply in_seq. pose proof (nat_ascii_bounded c). lia. Qed.

Definition char_facts (c : ascii) : bool :=
  implb (snake_char c && negb (is_us c))
        (Ascii.eqb (lower (upper c)) c && negb (is_cont c) && negb (is_cont (upper c)) && negb (is_us (upper c))).
Lemma char_facts_all : forallb char_facts all_bytes = true.
Proof. vm_compute. reflexivity. Qed.
Lemma char_facts_ok c : snake_char c = true -> is_us c = false ->
  lower (upper c) = c /\ is_cont c = false /\ is_cont (upper c) = false.
Proof. intros Hs Hu. pose proof (proj1 (forallb_forall _ _) char_facts_all c (all_bytes_complete c)) as H.
  unfold char_facts in H. rewrite Hs, Hu in H. simpl in H.
  apply andb_true_iff in H as [H H4]. apply andb_true_iff in H as [H H3]. apply andb_true_iff in H as [H1 H2].
  apply Ascii.eqb_eq in H1. apply negb_true_iff in H2. apply negb_true_iff in H3. auto. Qed.

Lemma words_go_snake : forall s cur, forallb snake_char s = true -> Forall (fun c => snake_char c = true /\ is_us c = false) cur ->
  Forall (fun w => w <> [] /\ Forall (fun c => snake_char c = true /\ is_us c = false) w) (words_go cur s).
Proof. induction s as [|c s IH]; intros cur Hs Hc; simpl.
  - destruct cur; constructor; auto. split; [intro E; apply (f_equal (@List.length _)) in E; rewrite rev_length in E; simpl in E; lia|].
    apply Forall_rev; auto.
  - simpl in Hs. apply andb_true_iff in Hs as [Hc1 Hs]. destruct (is_us c) eqn:E.
    + destruct cur as [|x cur]; [apply IH; auto|]. constructor; [|apply IH; auto].
      split; [intro E'; apply (f_equal (@List.length _)) in E'; rewrite rev_length in E'; simpl in E'; lia|]. apply Forall_rev; auto.
    + apply IH; auto. Qed.

Lemma capw_pascal_head w ws : w <> [] -> Forall (fun c => snake_char c = true /\ is_us c = false) w ->
  Forall (fun w => w <> [] /\ Forall (fun c => snake_char c = true /\ is_us c = false) w) ws ->
  match capw w ++ concat (map capw ws) with
  | [] => False
  | c :: rest => lower c :: rest = w ++ concat (map capw ws) /\
                 match rest with r :: _ => is_cont r = false | [] => True end
  end.
Proof. intros Hne Hw Hws. destruct w as [|c r]; [congruence|]. simpl. inversion Hw as [|? ? [Hs Hu] Hr]; subst.
  destruct (char_facts_ok c Hs Hu) as (Hl & _ & _). rewrite Hl. split; auto.
  destruct r as [|r0 r]; simpl.
  - destruct ws as [|w2 ws]; simpl; auto. inversion Hws as [|? ? [Hn2 Hf2] _]; subst.
    destruct w2 as [|c2 r2]; [congruence|]. simpl. inversion Hf2 as [|? ? [Hs2 Hu2] _]; subst.
    apply (char_facts_ok c2 Hs2 Hu2).
  - inversion Hr as [|? ? [Hs0 Hu0] _]; subst. apply (char_facts_ok r0 Hs0 Hu0). Qed.

(* C04_camel_agrees *)
Theorem camel_agrees s : forallb snake_char s = true -> existsb (fun c => negb (is_us c)) s = true ->
  camel_b s = Ok (tauri_camel s).
Proof. intros Hs Hne. unfold camel_b, tauri_camel, words.
  rewrite <- (proj2 (pascal_words s [])).
  pose proof (words_go_snake s [] Hs (Forall_nil _)) as Hw.
  destruct (words_go [] s) as [|w ws] eqn:E.
  - exfalso. (* some non-underscore char exists, so there is a word *)
    assert (forall s cur, words_go cur s = [] -> cur = [] /\ existsb (fun c => negb (is_us c)) s = false).
    { clear. induction s as [|c s IH]; intros cur H; simpl in *.
      - destruct cur; [auto|discriminate].
      - destruct (is_us c) eqn:Eu; simpl.
        + destruct cur; [apply IH in H; tauto|discriminate].
        + apply IH in H. destruct H; discriminate. }
    apply H in E. destruct E as [_ E]. congruence.
  - inversion Hw as [|? ? [Hn Hf] Hws]; subst. simpl map. simpl concat.
    pose proof (capw_pascal_head w ws Hn Hf Hws) as H.
    destruct (capw w ++ concat (map capw ws)) as [|c rest]; [contradiction|].
    destruct H as [H1 H2]. destruct rest as [|r rest].
    + rewrite <- H1. reflexivity.
    + rewrite H2. rewrite <- H1. reflexivity.
Qed.

(* the call-site guard of apply_naming_convention returns what the crate's arm returns whenever that does not panic *)
Lemma camel_b_guard s x : camel_b s = Ok x -> camel_guard s = x.
Proof. unfold camel_b, camel_guard. destruct (pascal true s) as [|c rest]; [discriminate|].
  destruct rest as [|r rest]; [intros H; inversion H; reflexivity|].
  destruct (is_cont r); [discriminate|]. intros H; inversion H; reflexivity. Qed.
Theorem camel_guard_agrees s : forallb snake_char s = true -> existsb (fun c => negb (is_us c)) s = true ->
  camel_guard s = tauri_camel s.
Proof. intros Hs Hn. apply camel_b_guard. apply camel_agrees; assumption. Qed.
