(* C09, text level: the identifiers the specification parser reads from the printed initialiser of a struct /
   parameter schema constant are the identifiers of the C09 module model (struct_ids / params_ids), by
   composition of the C10 round trips (Proofs/C10ObjectText.v parse_struct_schema, parse_param_schema) with the
   identifier lemmas of Proofs/C09ModuleProofs.v; hence decl_before_use holds of the parsed module text. *)
From Coq Require Import String Ascii.
From Coq Require Import List Arith Lia Bool.
Require Import TT.Model.Base TT.Model.Str TT.Model.C07TypeParse TT.Model.C07Harvest TT.Model.C07Worklist TT.Model.C07Reach TT.Model.Topo.
Require TT.Model.TypeParse TT.Model.C10Zod TT.Model.C10ZodText TT.Spec.C10Check TT.Proofs.C10ObjectText TT.Proofs.C10ParseEx.
Require Import TT.Spec.TsLex TT.Spec.TsModule TT.Spec.TsObs TT.Spec.C07Spec TT.Spec.C07Known TT.Spec.C09Spec TT.Spec.C09Known TT.Model.C09Module TT.Model.C09Text.
Require Import TT.Proofs.StrFacts TT.Proofs.TopoProofs TT.Proofs.C20Extra TT.Proofs.C09Proofs TT.Proofs.C09Full TT.Proofs.C09Oracle TT.Proofs.C09ModuleProofs.
Import ListNotations.
Local Open Scope list_scope.

Module Z := TT.Model.C10Zod.
Module ZT := TT.Model.C10ZodText.
Module OT := TT.Proofs.C10ObjectText.

(* C10's premise on one printed line, without type mappings: identifier key, type in C10's domain, call /
   literal nesting of the member schema within the expression parser's budget *)
Definition line_ok (f : Z.member) : Prop := OT.field_line_ok [] f.

Lemma ids_zobject ps : ex_ids [] (Z.zcall "object" [EObj ps]) = L "z" :: flat_map (fun p => ex_ids [] (snd p)) ps.
Proof. unfold Z.zcall, Z.zid. cbn [ex_ids flat_map existsb app]. rewrite app_nil_r. reflexivity. Qed.

Lemma ids_members (g : Z.member -> option key * ex) :
  (forall f, ex_ids [] (snd (g f)) = ex_ids [] (Z.zex_of [] (Z.m_ty f) false)) ->
  forall fs l, members_of l fs -> flat_map (fun p => ex_ids [] (snd p)) (map g fs) = flat_map string_ids l.
Proof.
  intros Hg. induction fs as [|f fs IH]; intros [|s l] H; unfold members_of, parsed_fields in H; cbn [map] in H; try discriminate H.
  - reflexivity.
  - injection H as Hf Hr. cbn [map flat_map]. rewrite (IH l Hr), Hg. f_equal.
    unfold string_ids, field_ex. destruct (parse_type_structure s) as [t|]; [|discriminate Hf].
    cbn [option_map] in Hf. injection Hf as ->. reflexivity.
Qed.

Lemma flat_map_map' {A B C} (f : A -> B) (g : B -> list C) l : flat_map g (map f l) = flat_map (fun x => g (f x)) l.
Proof. induction l as [|a l IH]; [reflexivity|]. cbn [map flat_map]. rewrite IH. reflexivity. Qed.

(* the identifiers read from the printed struct schema are, as a list, the identifiers of the module model *)
Theorem struct_text_ids p n s : struct_sdef p n s -> Forall line_ok (Z.s_fields s) ->
  text_ids (ZT.struct_schema_text [] s) = struct_ids p n.
Proof.
  intros (l & Hl & Hm) Hok. unfold text_ids. rewrite (OT.parse_struct_schema [] eq_refl s Hok).
  rewrite ids_zobject. unfold struct_ids. rewrite Hl. f_equal. apply ids_members; [|exact Hm]. intros f. reflexivity.
Qed.

Theorem param_text_ids c d : cmd_cdef c d -> Forall line_ok (Z.c_params d) ->
  text_ids (ZT.param_schema_text [] d) = params_ids c.
Proof.
  intros Hm Hok. unfold text_ids. rewrite (OT.parse_param_schema [] eq_refl d Hok).
  rewrite ids_zobject. unfold params_ids. f_equal. rewrite <- (flat_map_map' tstr string_ids). apply ids_members; [|exact Hm].
  intros f. unfold Z.zod_param. cbn [snd]. destruct (Z.m_opt f); [|reflexivity].
  unfold Z.link. cbn [ex_ids flat_map]. apply app_nil_r.
Qed.

(* ... hence z and exactly the schema names of the custom names of the fields / parameters *)
Theorem struct_text_identifiers p n s x : struct_sdef p n s -> Forall line_ok (Z.s_fields s) ->
  (In x (text_ids (ZT.struct_schema_text [] s)) <-> x = L "z" \/ exists r, In r (schema_refs p n) /\ x = schema_name r).
Proof. intros Hs Hok. rewrite (struct_text_ids p n s Hs Hok). apply struct_ids_refs_plain. Qed.

Theorem param_text_identifiers c d x : cmd_cdef c d -> Forall line_ok (Z.c_params d) ->
  (In x (text_ids (ZT.param_schema_text [] d)) <->
   x = L "z" \/ exists t r, In t (cmd_params c) /\ In r (ts_of (tstr t)) /\ x = schema_name r).
Proof.
  intros Hs Hok. rewrite (param_text_ids c d Hs Hok). unfold params_ids. split.
  - intros [<-|Hx]; [left; reflexivity|]. apply in_flat_map in Hx as (t & Ht & Hx).
    unfold string_ids, field_ex in Hx. destruct (parse_type_structure (tstr t)) as [u|] eqn:Eu; [|destruct Hx].
    destruct (zex_ids_plain u false) as [H1 _]. destruct (H1 x Hx) as [->|(r & Hr & ->)]; [left; reflexivity|].
    right. exists t, r. unfold ts_of. rewrite Eu. auto.
  - intros [->|(t & r & Ht & Hr & ->)]; [left; reflexivity|right]. apply in_flat_map. exists t. split; [exact Ht|].
    unfold string_ids, field_ex. unfold ts_of in Hr. destruct (parse_type_structure (tstr t)) as [u|]; [|destruct Hr].
    apply (proj2 (zex_ids_plain u false)). exact Hr.
Qed.

(* ---------------- the module ---------------- *)
(* the text of the constant of an emitted type: the schema.ts.tera text of a struct declaration that renders it,
   or - for enums and unit structs, whose z.enum([..]) text has no C10 round trip yet - any text from which the
   specification parser reads just z (a premise on that text, checked by computation in the example) *)
Definition struct_const_text (p : project) (n : str) (txt : str) : Prop :=
  (exists s, struct_sdef p n s /\ Forall line_ok (Z.s_fields s) /\ txt = ZT.struct_schema_text [] s)
  \/ (field_strings p n = Some [] /\ text_ids txt = [L "z"]).
Definition param_const_text (c : fndef) (txt : str) : Prop :=
  exists d, cmd_cdef c d /\ Forall line_ok (Z.c_params d) /\ txt = ZT.param_schema_text [] d.
Definition with_params (p : project) : list fndef :=
  filter (fun c => match cmd_params c with [] => false | _ => true end) (commands p).
(* tm lists (constant name, initialiser text) as types.ts.tera prints them: the emitted types in order, then
   one parameter schema per command with parameters *)
Definition module_text (o : orders) (p : project) (tm : list (str * str)) : Prop :=
  exists out ta tb, emitted_zod o p = Some out /\ tm = ta ++ tb /\
    Forall2 (fun n nt => fst nt = schema_name n /\ struct_const_text p n (snd nt)) out ta /\
    Forall2 (fun c nt => fst nt = params_const c /\ param_const_text c (snd nt)) (with_params p) tb.

Lemma struct_const_ids p n txt : struct_const_text p n txt -> text_ids txt = struct_ids p n.
Proof.
  intros [(s & Hs & Hok & ->)|[Hf Hz]]; [apply struct_text_ids; assumption|].
  unfold struct_ids. rewrite Hf. exact Hz.
Qed.

Theorem module_text_consts o p tm : module_text o p tm -> zod_consts o p = Some (text_consts tm).
Proof.
  intros (out & ta & tb & Hout & -> & Ha & Hb). unfold zod_consts. rewrite Hout. cbn [option_map]. f_equal.
  unfold text_consts. rewrite map_app. clear Hout. f_equal.
  - clear Hb. induction Ha as [|n [a b] out ta [Hn Ht] _ IH]; [reflexivity|]. cbn [map fst snd] in *. subst a.
    rewrite (struct_const_ids p n b Ht), IH. reflexivity.
  - unfold param_consts. fold (with_params p). clear Ha. induction Hb as [|c [a b] cs tb [Hn (d & Hd & Hok & Ht)] _ IH]; [reflexivity|].
    cbn [map fst snd] in *. subst a b. rewrite (param_text_ids c d Hd Hok), IH. reflexivity.
Qed.

Theorem module_decl_before_use_text o (Ho : ord_ok o) p : in_domain p = true ->
  kf_c07_field_result p = false -> kf_c07_odd_name p = false -> kf_c07_inline_mod p = false ->
  kf_c07_payload_expr p = false ->
  acyclic (spec_graph p) -> no_params_suffix p = true ->
  forall tm, module_text o p tm -> decl_before_use (text_consts tm) = true.
Proof.
  intros Hd K5 K6 K7 K8 Hac Hnp tm H.
  exact (module_decl_before_use o Ho p Hd K5 K6 K7 K8 Hac Hnp _ (module_text_consts o p tm H)).
Qed.
