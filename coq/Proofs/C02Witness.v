(* C02: computed witnesses - each recorded class fails on the faithful model; the sample outside
   all classes meets every premise. *)
From Coq Require Import String Ascii.
From Coq Require Import List Arith Bool.
Require Import TT.Model.Str TT.Model.Pipeline TT.Spec.C02Closed TT.Model.C02Model TT.Model.C02Samples.
Require Import TT.Proofs.C02Reflect.
Import ListNotations.

Definition in_class (kf : bool) (p : proj) (zod : bool) : Prop :=
  wf p = true /\ closed_world p = true /\ kf = true /\ c02_ok (gen p zod) = false.

Lemma w_ok_premises : wf w_ok = true /\ closed_world w_ok = true /\ refs_declared w_ok = true /\
                      kf_C02 w_ok false = false /\ kf_C02 w_ok true = false /\ broken w_ok = false /\
                      used w_ok = [L "Team"; L "Status"; L "User"]%string.
Proof. vm_compute. repeat split; reflexivity. Qed.

Lemma w_garbage_broken : wf w_garbage = true /\ closed_world w_garbage = true /\ kf_garbage w_garbage = true /\ broken w_garbage = true.
Proof. vm_compute. repeat split; reflexivity. Qed.
Lemma w_prefix_fails : in_class (kf_prefix w_prefix) w_prefix false /\ in_class (kf_prefix w_prefix2) w_prefix2 false.
Proof. vm_compute. repeat split; reflexivity. Qed.
Lemma w_zod_enum_fails : in_class (kf_zod_enum w_zod_enum true) w_zod_enum true /\ c02_ok (gen w_zod_enum false) = true.
Proof. vm_compute. repeat split; reflexivity. Qed.
Lemma w_result1_fails : in_class (kf_result_one_arg w_result1) w_result1 false.
Proof. vm_compute. repeat split; reflexivity. Qed.
Lemma w_event_nested_fails : in_class (kf_event_nested w_event_nested) w_event_nested false.
Proof. vm_compute. repeat split; reflexivity. Qed.
Lemma w_event_head_fails : in_class (kf_event_head w_event_head) w_event_head false.
Proof. vm_compute. repeat split; reflexivity. Qed.
Lemma w_dup_listener_fails : in_class (kf_dup_listener w_dup_listener) w_dup_listener false.
Proof. vm_compute. repeat split; reflexivity. Qed.
Lemma w_collision_fails : in_class (kf_collision w_collision false) w_collision false /\ in_class (kf_collision w_collision true) w_collision true.
Proof. vm_compute. repeat split; reflexivity. Qed.

Theorem closed_world_refuted : exists p zod,
  wf p = true /\ closed_world p = true /\ ~ (closed (gen p zod) /\ exports_nodup (gen p zod)).
Proof. exists w_zod_enum, true. destruct w_zod_enum_fails as [[Hw [Hc [_ Hf]]] _]. split; [exact Hw|]. split; [exact Hc|].
  intros H. apply c02_ok_iff in H. rewrite Hf in H. discriminate. Qed.
