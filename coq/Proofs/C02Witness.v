(* C02: computed witnesses - each recorded class fails on the faithful model; the sample outside
   all classes meets every premise. *)
From Coq Require Import String Ascii.
From Coq Require Import List Arith Bool.
Require Import TT.Model.Str TT.Model.Pipeline TT.Spec.C02Closed TT.Model.C02Model TT.Spec.C02Domain TT.Model.C02Samples.
Require Import TT.Proofs.C02Reflect.
Import ListNotations.

Definition in_class (kf : bool) (p : proj) (zod : bool) : Prop :=
  wf p = true /\ dom p = true /\ closed_world p = true /\ kf = true /\ c02_ok (gen p zod) = false.

Lemma w_ok_premises : wf w_ok = true /\ closed_world w_ok = true /\ refs_declared w_ok = true /\
                      kf_C02 w_ok false = false /\ kf_C02 w_ok true = false /\ broken w_ok = false /\
                      used w_ok = [L "Team"; L "Status"; L "User"]%string.
Proof. vm_compute. repeat split; reflexivity. Qed.

(* the former comma-splitting witness at a return position is a type again, and now lies in the prefix class *)
Lemma w_garbage_now_prefix : in_class (kf_prefix w_garbage) w_garbage false /\ broken w_garbage = false.
Proof. vm_compute. repeat split; reflexivity. Qed.
Lemma w_prefix_fails : in_class (kf_prefix w_prefix) w_prefix false /\ in_class (kf_prefix w_prefix3) w_prefix3 false.
Proof. vm_compute. repeat split; reflexivity. Qed.
(* repaired defects: the former witnesses now satisfy the property, outside every class *)
Definition repaired (p : proj) (zod : bool) : Prop :=
  wf p = true /\ dom p = true /\ closed_world p = true /\ refs_declared p = true /\ kf_C02 p zod = false /\ c02_ok (gen p zod) = true.
Lemma w_batch3_repaired : repaired w_tuple_map_field false /\ repaired w_tuple_map_field true /\
                          repaired w_prefix2 false /\ repaired w_vecvec_user true.
Proof. vm_compute. repeat split; reflexivity. Qed.
Lemma w_zod_enum_repaired : repaired w_zod_enum true /\ repaired w_zod_enum false.
Proof. vm_compute. repeat split; reflexivity. Qed.
Lemma w_result1_repaired : repaired w_result1 false /\ repaired w_result1 true.
Proof. vm_compute. repeat split; reflexivity. Qed.
Lemma w_event_nested_repaired : repaired w_event_nested false /\ repaired w_event_nested true.
Proof. vm_compute. repeat split; reflexivity. Qed.
Lemma w_same_event_twice_repaired : repaired w_same_event_twice false /\ repaired w_same_event_twice true.
Proof. vm_compute. repeat split; reflexivity. Qed.
Lemma w_rebind_ok : repaired w_rebind false /\ repaired w_rebind true /\
  events w_rebind = [(L "summary-ready", L "Summary"); (L "copy-ready", L "Summary"); (L "other-ready", L "Other")]%string.
Proof. vm_compute. repeat split; reflexivity. Qed.
Lemma w_ipc_channel_ok : repaired w_ipc_channel false /\ repaired w_ipc_channel true.
Proof. vm_compute. repeat split; reflexivity. Qed.
Lemma w_event_head_fails : in_class (kf_event_head w_event_head) w_event_head false.
Proof. vm_compute. repeat split; reflexivity. Qed.
Lemma w_dup_listener_fails : in_class (kf_dup_listener w_dup_listener) w_dup_listener false.
Proof. vm_compute. repeat split; reflexivity. Qed.
Lemma w_collision_fails : in_class (kf_collision w_collision false) w_collision false /\ in_class (kf_collision w_collision true) w_collision true.
Proof. vm_compute. repeat split; reflexivity. Qed.

Theorem closed_world_refuted : exists p zod,
  wf p = true /\ dom p = true /\ closed_world p = true /\ ~ (closed (gen p zod) /\ exports_nodup (gen p zod)).
Proof. exists w_prefix, false. destruct w_prefix_fails as [[Hw [Hd [Hc [_ Hf]]]] _]. split; [exact Hw|]. split; [exact Hd|]. split; [exact Hc|].
  intros H. apply c02_ok_iff in H. rewrite Hf in H. discriminate. Qed.
