(* C12: on in-domain bodies the walker finds exactly the documented emit sites, in order. *)
From Coq Require Import String Ascii.
From Coq Require Import List Arith Lia Bool.
Require Import TT.Model.Str TT.Model.TypeParse TT.Spec.TsLex TT.Spec.TsModule TT.Spec.TsObs TT.Model.Pipeline TT.Model.Events TT.Spec.C12Spec.
Require Import TT.Proofs.StrFacts.
Import ListNotations.
Local Open Scope list_scope.

(* induction principle for the nested mutual syntax *)
Section Ind.
  Variable P : expr -> Prop.
  Variable Q : stmt -> Prop.
  Hypothesis Hmethod : forall r m args, P r -> Forall P args -> P (XMethod r m args).
  Hypothesis Hpath : forall s, P (XPath s).
  Hypothesis Hfield : forall b n, P b -> P (XField b n).
  Hypothesis Hlit : forall l, P (XLit l).
  Hypothesis Hstruct : forall p, P (XStruct p).
  Hypothesis Href : forall e, P e -> P (XRef e).
  Hypothesis Hcall : forall f args, P f -> Forall P args -> P (XCall f args).
  Hypothesis Htuple : forall es, Forall P es -> P (XTuple es).
  Hypothesis Hblock : forall ss, Forall Q ss -> P (XBlock ss).
  Hypothesis HifS : forall th x, Forall Q th -> P x -> P (XIf th (Some x)).
  Hypothesis HifN : forall th, Forall Q th -> P (XIf th None).
  Hypothesis Hmatch : forall arms, Forall P arms -> P (XMatch arms).
  Hypothesis Hloop : forall ss, Forall Q ss -> P (XLoop ss).
  Hypothesis Hwhile : forall ss, Forall Q ss -> P (XWhile ss).
  Hypothesis Hfor : forall ss, Forall Q ss -> P (XFor ss).
  Hypothesis Hawait : forall e, P e -> P (XAwait e).
  Hypothesis Htry : forall e, P e -> P (XTry e).
  Hypothesis Hother : P XOther.
  Hypothesis HSExpr : forall e, P e -> Q (SExpr e).
  Hypothesis HSLetS : forall p x, P x -> Q (SLet p (Some x)).
  Hypothesis HSLetN : forall p, Q (SLet p None).
  Hypothesis HSOther : Q SOther.
  Fixpoint expr_nind (e : expr) : P e :=
    let es := fix go (l : list expr) : Forall P l :=
      match l with [] => Forall_nil P | x :: t => Forall_cons x (expr_nind x) (go t) end in
    let sts := fix go (l : list stmt) : Forall Q l :=
      match l with [] => Forall_nil Q | s :: t => Forall_cons s (stmt_nind s) (go t) end in
    match e with
    | XMethod r m args => Hmethod r m args (expr_nind r) (es args)
    | XPath s => Hpath s
    | XField b n => Hfield b n (expr_nind b)
    | XLit l => Hlit l
    | XStruct p => Hstruct p
    | XRef u => Href u (expr_nind u)
    | XCall f args => Hcall f args (expr_nind f) (es args)
    | XTuple l => Htuple l (es l)
    | XBlock ss => Hblock ss (sts ss)
    | XIf th (Some x) => HifS th x (sts th) (expr_nind x)
    | XIf th None => HifN th (sts th)
    | XMatch arms => Hmatch arms (es arms)
    | XLoop ss => Hloop ss (sts ss)
    | XWhile ss => Hwhile ss (sts ss)
    | XFor ss => Hfor ss (sts ss)
    | XAwait u => Hawait u (expr_nind u)
    | XTry u => Htry u (expr_nind u)
    | XOther => Hother
    end
  with stmt_nind (s : stmt) : Q s :=
    match s with
    | SExpr e => HSExpr e (expr_nind e)
    | SLet p (Some x) => HSLetS p x (expr_nind x)
    | SLet p None => HSLetN p
    | SOther => HSOther
    end.
End Ind.

(* ---- inert expressions produce nothing and leave the table alone ---- *)
Section Lists.
  Variable W : expr -> symtab -> evs * symtab.
  Lemma walk_list_inert l :
    Forall (fun x => inert x = true -> forall sy, W x sy = ([], sy)) l -> forallb inert l = true ->
    forall sy, walk_list W l sy = ([], sy).
  Proof.
    induction 1 as [|x r Hx _ IH]; intros Hb sy; [reflexivity|].
    cbn [forallb] in Hb. apply andb_true_iff in Hb. destruct Hb as [H1 H2].
    cbn [walk_list]. rewrite (Hx H1 sy), (IH H2 sy). reflexivity.
  Qed.
  Lemma walk_stmts_inert l :
    Forall (fun s => inert_stmt inert s = true -> forall sy, walk_stmt W s sy = ([], sy)) l ->
    forallb (inert_stmt inert) l = true -> forall sy, walk_stmts W l sy = ([], sy).
  Proof.
    induction 1 as [|x r Hx _ IH]; intros Hb sy; [reflexivity|].
    cbn [forallb] in Hb. apply andb_true_iff in Hb. destruct Hb as [H1 H2].
    cbn [walk_stmts]. rewrite (Hx H1 sy), (IH H2 sy). reflexivity.
  Qed.
End Lists.

Lemma inert_walk : forall e, inert e = true -> forall sy, walk_expr e sy = ([], sy).
Proof.
  apply (expr_nind (fun e => inert e = true -> forall sy, walk_expr e sy = ([], sy))
                   (fun s => inert_stmt inert s = true -> forall sy, walk_stmt walk_expr s sy = ([], sy)));
    try (intros; reflexivity).
  - intros r m args IHr IHa H sy. cbn [inert] in H. apply andb_true_iff in H. destruct H as [H Ha].
    apply andb_true_iff in H. destruct H as [Hm Hr]. apply negb_true_iff in Hm.
    cbn [walk_expr]. rewrite Hm. cbn [andb]. rewrite (IHr Hr sy). rewrite (walk_list_inert walk_expr args IHa Ha sy). reflexivity.
  - intros ss IH H sy. cbn [inert] in H. cbn [walk_expr]. apply walk_stmts_inert; assumption.
  - intros th x IHt IHx H sy. cbn [inert] in H. apply andb_true_iff in H. destruct H as [H1 H2].
    cbn [walk_expr]. rewrite (walk_stmts_inert walk_expr th IHt H1 sy). rewrite (IHx H2 sy). reflexivity.
  - intros th IHt H sy. cbn [inert] in H. apply andb_true_iff in H. destruct H as [H1 _].
    cbn [walk_expr]. rewrite (walk_stmts_inert walk_expr th IHt H1 sy). reflexivity.
  - intros arms IH H sy. cbn [inert] in H. cbn [walk_expr]. apply walk_list_inert; assumption.
  - intros ss IH H sy. cbn [inert] in H. cbn [walk_expr]. apply walk_stmts_inert; assumption.
  - intros ss IH H sy. cbn [inert] in H. cbn [walk_expr]. apply walk_stmts_inert; assumption.
  - intros ss IH H sy. cbn [inert] in H. cbn [walk_expr]. apply walk_stmts_inert; assumption.
  - intros e IH H sy. cbn [inert] in H. cbn [walk_expr]. apply IH, H.
  - intros e IH H sy. cbn [inert] in H. cbn [walk_expr]. apply IH, H.
  - intros e IH H sy. cbn [inert_stmt] in H. cbn [walk_stmt]. apply IH, H.
  - intros p x _ H. discriminate H.
  - intros p H. discriminate H.
Qed.

Lemma inert_args : forall args, forallb inert args = true -> forall sy, walk_list walk_expr args sy = ([], sy).
Proof.
  intros args H sy. apply walk_list_inert; [|exact H]. apply Forall_forall. intros x _ Hx. apply inert_walk, Hx.
Qed.

(* ---- what the walker records for a site ---- *)
Definition ev_of (s : site) : str * str := (s_name s, infer_payload (s_payload s) (s_sy s)).

Lemma clear_receiver_agree r : clear_receiver r = true -> is_emitter r = doc_receiver r.
Proof.
  destruct r as [r0 m0 a0|segs|b nm| | | | | | | | | | | | | |]; cbn [clear_receiver]; try discriminate; try reflexivity.
  destruct segs as [|a [|b r]]; try discriminate. reflexivity.
Qed.

Lemma emit_name_cases m : is_emit_name m = true -> m = L "emit" \/ m = L "emit_to".
Proof.
  unfold is_emit_name. intro H. apply orb_true_iff in H. destruct H as [H|H]; apply str_eqb_eq in H; auto.
Qed.
Lemma not_emit_name_call m args : is_emit_name m = false -> emit_call m args = None.
Proof.
  unfold is_emit_name, emit_call. intro H. apply orb_false_iff in H. destruct H as [H1 H2]. rewrite H1, H2. reflexivity.
Qed.

Lemma emit_event_call m args sy : is_emit_name m = true ->
  emit_event m args sy = match emit_call m args with Some (n, p) => [(n, infer_payload p sy)] | None => [] end.
Proof.
  intro H. destruct (emit_name_cases m H) as [-> | ->]; unfold emit_event, emit_call, emit_args.
  - replace (str_eqb (L "emit") (L "emit_to")) with false by (vm_compute; reflexivity).
    replace (str_eqb (L "emit") (L "emit")) with true by (vm_compute; reflexivity).
    destruct args as [|a0 [|a1 rest]]; try reflexivity.
    + destruct a0 as [| | |l0| | | | | | | | | | | | |]; try reflexivity. destruct l0; reflexivity.
    + destruct a0 as [| | |l0| | | | | | | | | | | | |]; try reflexivity. destruct l0; reflexivity.
  - replace (str_eqb (L "emit_to") (L "emit_to")) with true by (vm_compute; reflexivity).
    replace (str_eqb (L "emit_to") (L "emit")) with false by (vm_compute; reflexivity).
    destruct args as [|a0 [|a1 [|a2 rest]]]; try reflexivity.
    + destruct a1 as [| | |l0| | | | | | | | | | | | |]; try reflexivity. destruct l0; reflexivity.
    + destruct a1 as [| | |l0| | | | | | | | | | | | |]; try reflexivity. destruct l0; reflexivity.
Qed.

Definition refines_e (e : expr) : Prop :=
  dom_expr e = true -> forall env sy,
  walk_expr e sy = (map ev_of (fst (sites_expr e env sy)), snd (sites_expr e env sy)).
Definition refines_s (s : stmt) : Prop :=
  dom_stmt dom_expr s = true -> forall env sy,
  walk_stmt walk_expr s sy = (map ev_of (fst (fst (sites_stmt sites_expr s env sy))), snd (sites_stmt sites_expr s env sy)).

Lemma refines_stmts ss : Forall refines_s ss -> forallb (dom_stmt dom_expr) ss = true -> forall env sy,
  walk_stmts walk_expr ss sy = (map ev_of (fst (sites_stmts sites_expr ss env sy)), snd (sites_stmts sites_expr ss env sy)).
Proof.
  induction 1 as [|s r Hs _ IH]; intros Hb env sy; [reflexivity|].
  cbn [forallb] in Hb. apply andb_true_iff in Hb. destruct Hb as [H1 H2].
  cbn [walk_stmts sites_stmts]. rewrite (Hs H1 env sy).
  destruct (sites_stmt sites_expr s env sy) as [[a env1] s1]. cbn [fst snd].
  rewrite (IH H2 env1 s1). destruct (sites_stmts sites_expr r env1 s1) as [b s2]. cbn [fst snd]. rewrite map_app. reflexivity.
Qed.
Lemma refines_list es : Forall refines_e es -> forallb dom_expr es = true -> forall env sy,
  walk_list walk_expr es sy = (map ev_of (fst (sites_list sites_expr es env sy)), snd (sites_list sites_expr es env sy)).
Proof.
  induction 1 as [|x r Hx _ IH]; intros Hb env sy; [reflexivity|].
  cbn [forallb] in Hb. apply andb_true_iff in Hb. destruct Hb as [H1 H2].
  cbn [walk_list sites_list]. rewrite (Hx H1 env sy).
  destruct (sites_expr x env sy) as [a s1]. cbn [fst snd].
  rewrite (IH H2 env s1). destruct (sites_list sites_expr r env s1) as [b s2]. cbn [fst snd]. rewrite map_app. reflexivity.
Qed.

Lemma walk_refines : forall e, refines_e e.
Proof.
  apply (expr_nind refines_e refines_s); unfold refines_e, refines_s.
  - (* method call *)
    intros r m args IHr _ H env sy. cbn [dom_expr] in H.
    apply andb_true_iff in H. destruct H as [H Ha]. apply andb_true_iff in H. destruct H as [Hm Hr].
    cbn [walk_expr sites_expr]. rewrite (IHr Hr env sy).
    destruct (sites_expr r env sy) as [a s1]. cbn [fst snd]. rewrite (inert_args args Ha s1).
    rewrite app_nil_r, map_app. f_equal. f_equal.
    destruct (is_emit_name m) eqn:Em.
    + apply andb_true_iff in Hm. destruct Hm as [Hc _]. rewrite (clear_receiver_agree r Hc). cbn [andb].
      destruct (doc_receiver r); [|reflexivity]. rewrite (emit_event_call m args sy Em).
      destruct (emit_call m args) as [[n p]|]; reflexivity.
    + cbn [andb]. rewrite (not_emit_name_call m args Em). destruct (doc_receiver r); reflexivity.
  - intros; reflexivity.
  - intros; reflexivity.
  - intros; reflexivity.
  - intros; reflexivity.
  - intros; reflexivity.
  - intros; reflexivity.
  - intros; reflexivity.
  - (* block *) intros ss IH H env sy. cbn [dom_expr] in H. cbn [walk_expr sites_expr]. apply refines_stmts; assumption.
  - (* if / else *)
    intros th x IHt IHx H env sy. cbn [dom_expr] in H. apply andb_true_iff in H. destruct H as [H1 H2].
    cbn [walk_expr sites_expr]. rewrite (refines_stmts th IHt H1 env sy).
    destruct (sites_stmts sites_expr th env sy) as [a s1]. cbn [fst snd]. rewrite (IHx H2 env s1).
    destruct (sites_expr x env s1) as [b s2]. cbn [fst snd]. rewrite map_app. reflexivity.
  - intros th IHt H env sy. cbn [dom_expr] in H. apply andb_true_iff in H. destruct H as [H1 _].
    cbn [walk_expr sites_expr]. rewrite (refines_stmts th IHt H1 env sy).
    destruct (sites_stmts sites_expr th env sy) as [a s1]. reflexivity.
  - (* match *) intros arms IH H env sy. cbn [dom_expr] in H. cbn [walk_expr sites_expr]. apply refines_list; assumption.
  - intros ss IH H env sy. cbn [dom_expr] in H. cbn [walk_expr sites_expr]. apply refines_stmts; assumption.
  - intros ss IH H env sy. cbn [dom_expr] in H. cbn [walk_expr sites_expr]. apply refines_stmts; assumption.
  - intros ss IH H env sy. cbn [dom_expr] in H. cbn [walk_expr sites_expr]. apply refines_stmts; assumption.
  - intros e IH H env sy. cbn [dom_expr] in H. cbn [walk_expr sites_expr]. apply IH, H.
  - intros e IH H env sy. cbn [dom_expr] in H. cbn [walk_expr sites_expr]. apply IH, H.
  - intros; reflexivity.
  - (* expression statement *)
    intros e IH H env sy. cbn [dom_stmt] in H. cbn [walk_stmt sites_stmt]. rewrite (IH H env sy).
    destruct (sites_expr e env sy) as [a s1]. reflexivity.
  - (* let with initialiser *)
    intros p x IH H env sy. cbn [dom_stmt] in H. cbn [walk_stmt sites_stmt]. rewrite (IH H env (bind_local p (Some x) sy)).
    destruct (sites_expr x env (bind_local p (Some x) sy)) as [a s1]. reflexivity.
  - intros; reflexivity.
  - intros; reflexivity.
Qed.

Lemma map_flat_map {A B C} (f : B -> C) (g : A -> list B) l : map f (flat_map g l) = flat_map (fun x => map f (g x)) l.
Proof. induction l as [|x r IH]; [reflexivity|]. cbn [flat_map]. rewrite map_app, IH. reflexivity. Qed.
Lemma flat_map_ext_in {A B} (f g : A -> list B) l : (forall x, In x l -> f x = g x) -> flat_map f l = flat_map g l.
Proof. induction l as [|x r IH]; intro H; [reflexivity|]. cbn [flat_map]. rewrite (H x (or_introl eq_refl)), IH; [reflexivity|]. intros y Hy. apply H. right. exact Hy. Qed.

Theorem walker_exact : forall p, in_domain p = true -> project_events p = map ev_of (project_sites p).
Proof.
  intros p H. unfold project_events, project_sites. rewrite map_flat_map.
  apply flat_map_ext_in. intros f Hf. unfold file_events. rewrite map_flat_map.
  apply flat_map_ext_in. intros d Hd.
  unfold in_domain in H. rewrite forallb_forall in H. specialize (H f Hf). rewrite forallb_forall in H. specialize (H d Hd).
  unfold fn_events_p, fn_sites.
  assert (Hd' : dom_expr (XBlock (fd_body d)) = true) by exact H.
  rewrite (walk_refines (XBlock (fd_body d)) Hd' (param_env (fd_params d)) (param_symbols (fd_params d))). reflexivity.
Qed.

Corollary event_names_exact : forall p, in_domain p = true -> map fst (project_events p) = site_names (project_sites p).
Proof. intros p H. rewrite (walker_exact p H). unfold site_names. rewrite map_map. reflexivity. Qed.

(* ---- the executable site list is sound for the inductive specification ---- *)
Lemma EmitsIn_cons s ss n p : EmitsIn ss n p -> EmitsIn (s :: ss) n p.
Proof.
  intros H. inversion H as [ss0 e n0 p0 Hin He|ss0 pt i n0 p0 Hin He]; subst.
  - eapply EI_expr; [right; exact Hin|exact He].
  - eapply EI_let; [right; exact Hin|exact He].
Qed.

Definition sound_e (e : expr) : Prop :=
  forall env sy s, In s (fst (sites_expr e env sy)) -> EmitsAt e (s_name s) (s_payload s).
Definition sound_s (st : stmt) : Prop :=
  forall env sy s, In s (fst (fst (sites_stmt sites_expr st env sy))) -> EmitsIn [st] (s_name s) (s_payload s).

Lemma sound_stmts ss : Forall sound_s ss -> forall env sy s,
  In s (fst (sites_stmts sites_expr ss env sy)) -> EmitsIn ss (s_name s) (s_payload s).
Proof.
  induction 1 as [|st r Hs _ IH]; intros env sy s Hin; [destruct Hin|].
  cbn [sites_stmts] in Hin. specialize (Hs env sy).
  destruct (sites_stmt sites_expr st env sy) as [[a env1] s1]. cbn [fst] in Hs.
  specialize (IH env1 s1). destruct (sites_stmts sites_expr r env1 s1) as [b s2]. cbn [fst] in *.
  apply in_app_or in Hin. destruct Hin as [Hin|Hin].
  - specialize (Hs s Hin). inversion Hs as [ss0 e n0 p0 Hi He|ss0 pt i n0 p0 Hi He]; subst.
    + destruct Hi as [->|[]]. eapply EI_expr; [left; reflexivity|exact He].
    + destruct Hi as [->|[]]. eapply EI_let; [left; reflexivity|exact He].
  - apply EmitsIn_cons. apply IH, Hin.
Qed.
Lemma sound_list es : Forall sound_e es -> forall env sy s,
  In s (fst (sites_list sites_expr es env sy)) -> exists a, In a es /\ EmitsAt a (s_name s) (s_payload s).
Proof.
  induction 1 as [|x r Hx _ IH]; intros env sy s Hin; [destruct Hin|].
  cbn [sites_list] in Hin. specialize (Hx env sy). destruct (sites_expr x env sy) as [a s1]. cbn [fst] in Hx.
  specialize (IH env s1). destruct (sites_list sites_expr r env s1) as [b s2]. cbn [fst] in *.
  apply in_app_or in Hin. destruct Hin as [Hin|Hin].
  - exists x. split; [left; reflexivity|apply Hx, Hin].
  - destruct (IH s Hin) as [a0 [Ha He]]. exists a0. split; [right; exact Ha|exact He].
Qed.

Lemma sites_sound : forall e, sound_e e.
Proof.
  apply (expr_nind sound_e sound_s); unfold sound_e, sound_s.
  - intros r m args IHr _ env sy s Hin. cbn [sites_expr] in Hin. specialize (IHr env sy).
    destruct (sites_expr r env sy) as [a s1]. cbn [fst] in *. apply in_app_or in Hin. destruct Hin as [Hin|Hin].
    + destruct (doc_receiver r) eqn:Hr; [|destruct Hin].
      destruct (emit_call m args) as [[n p]|] eqn:Hc; [|destruct Hin]. destruct Hin as [<-|[]]. cbn [s_name s_payload].
      apply EA_here; assumption.
    + apply EA_recv. apply IHr, Hin.
  - intros ? ? ? ? []. - intros ? ? ? ? ? ? []. - intros ? ? ? ? []. - intros ? ? ? ? [].
  - intros ? ? ? ? ? []. - intros ? ? ? ? ? ? ? []. - intros ? ? ? ? ? [].
  - intros ss IH env sy s Hin. apply EA_block. eapply sound_stmts; eauto.
  - intros th x IHt IHx env sy s Hin. cbn [sites_expr] in Hin.
    pose proof (sound_stmts th IHt env sy) as Ht. destruct (sites_stmts sites_expr th env sy) as [a s1]. cbn [fst] in *.
    specialize (IHx env s1). destruct (sites_expr x env s1) as [b s2]. cbn [fst] in *.
    apply in_app_or in Hin. destruct Hin as [Hin|Hin]; [apply EA_then, Ht, Hin|apply EA_else, IHx, Hin].
  - intros th IHt env sy s Hin. cbn [sites_expr] in Hin.
    pose proof (sound_stmts th IHt env sy) as Ht. destruct (sites_stmts sites_expr th env sy) as [a s1]. cbn [fst] in *.
    apply EA_then, Ht, Hin.
  - intros arms IH env sy s Hin. destruct (sound_list arms IH env sy s Hin) as [a [Ha He]]. eapply EA_arm; eauto.
  - intros ss IH env sy s Hin. apply EA_loop. eapply sound_stmts; eauto.
  - intros ss IH env sy s Hin. apply EA_while. eapply sound_stmts; eauto.
  - intros ss IH env sy s Hin. apply EA_for. eapply sound_stmts; eauto.
  - intros e IH env sy s Hin. apply EA_await. eapply IH; eauto.
  - intros e IH env sy s Hin. apply EA_try. eapply IH; eauto.
  - intros ? ? ? [].
  - intros e IH env sy s Hin. cbn [sites_stmt] in Hin. specialize (IH env sy). destruct (sites_expr e env sy) as [a s1]. cbn [fst] in *.
    eapply EI_expr; [left; reflexivity|apply IH, Hin].
  - intros p x IH env sy s Hin. cbn [sites_stmt] in Hin. specialize (IH env (bind_local p (Some x) sy)).
    destruct (sites_expr x env (bind_local p (Some x) sy)) as [a s1]. cbn [fst] in *.
    eapply EI_let; [left; reflexivity|apply IH, Hin].
  - intros p env sy s []. - intros env sy s [].
Qed.

(* in-domain: every event of the model comes from a documented emit of some top-level function *)
Theorem walker_sound : forall p n t, in_domain p = true -> In (n, t) (project_events p) ->
  exists f d pl, In f (p_files p) /\ In d f /\ EmitsIn (fd_body d) n pl.
Proof.
  intros p n t Hd Hin. rewrite (walker_exact p Hd) in Hin. apply in_map_iff in Hin. destruct Hin as [s [Hs Hin]].
  unfold project_sites in Hin. apply in_flat_map in Hin. destruct Hin as [f [Hf Hin]].
  apply in_flat_map in Hin. destruct Hin as [d [Hdd Hin]]. unfold fn_sites in Hin.
  pose proof (sites_sound (XBlock (fd_body d)) _ _ s Hin) as He. inversion He; subst.
  exists f, d, (s_payload s). unfold ev_of in Hs. inversion Hs; subst. auto.
Qed.
