(* C19 - proofs about Model/C19Config.v against Spec/C19Spec.v. *)
From Coq Require Import String Ascii List Bool Arith Lia.
Require Import TT.Model.C19Config TT.Spec.C19Spec.
Import ListNotations.
Local Open Scope string_scope.

(* ---------------------------------------------------------------- association lists *)
Lemma lookup_insert_same {A} k (v : A) kvs : lookup k (insert k v kvs) = Some v.
Proof.
  induction kvs as [|[k' v'] r IH]; cbn [insert lookup].
  - rewrite String.eqb_refl. reflexivity.
  - destruct (String.eqb k k') eqn:E; cbn [lookup].
    + rewrite String.eqb_refl. reflexivity.
    + rewrite E. exact IH.
Qed.

Lemma lookup_insert_other {A} k k2 (v : A) kvs : k2 <> k -> lookup k2 (insert k v kvs) = lookup k2 kvs.
Proof.
  intros Hn. induction kvs as [|[k' v'] r IH]; cbn [insert lookup].
  - destruct (String.eqb_spec k2 k); congruence.
  - destruct (String.eqb_spec k k') as [->|Hkk']; cbn [lookup].
    + destruct (String.eqb_spec k2 k'); congruence.
    + destruct (String.eqb_spec k2 k'); auto.
Qed.

(* ---------------------------------------------------------------- paths *)
Lemma get_key k q kvs :
  get (PKey k :: q) (JObj kvs) = match lookup k kvs with Some v => get q v | None => None end.
Proof. reflexivity. Qed.

Lemma pel_eqb_key k k' : pel_eqb (PKey k) (PKey k') = String.eqb k k'.
Proof. reflexivity. Qed.

(* an outside path starts with a key other than plugins, or with an index, or is
   plugins followed by something other than the key typegen *)
Inductive outside_shape : list pel -> Prop :=
| os_idx i q : outside_shape (PIdx i :: q)
| os_key k q : k <> "plugins" -> outside_shape (PKey k :: q)
| os_pl_idx i q : outside_shape (PKey "plugins" :: PIdx i :: q)
| os_pl_key k q : k <> "typegen" -> outside_shape (PKey "plugins" :: PKey k :: q).

Lemma outside_section_shape q : outside_section q = true -> outside_shape q.
Proof.
  unfold outside_section, P. intros H. apply andb_true_iff in H. destruct H as [H1 H2].
  apply negb_true_iff in H1. apply negb_true_iff in H2.
  destruct q as [|[k|i] q]; [discriminate| |apply os_idx].
  destruct (String.eqb_spec k "plugins") as [->|Hk]; [|apply os_key; exact Hk].
  destruct q as [|[k2|i2] q]; [discriminate| |apply os_pl_idx].
  destruct (String.eqb_spec k2 "typegen") as [->|Hk2]; [|apply os_pl_key; exact Hk2].
  cbn in H2. discriminate.
Qed.

(* ---------------------------------------------------------------- save_doc *)
(* what save_doc does to an object root, by cases on the plugins entry *)
Lemma save_doc_obj_none c kvs : lookup "plugins" kvs = None ->
  save_doc c (JObj kvs) =
  Some (JObj (insert "plugins" (JObj (insert "typegen" (typegen_json c) [])) (insert "plugins" (JObj []) kvs))).
Proof. intros E. unfold save_doc. rewrite E. rewrite lookup_insert_same. reflexivity. Qed.

Lemma save_doc_obj_obj c kvs p : lookup "plugins" kvs = Some (JObj p) ->
  save_doc c (JObj kvs) = Some (JObj (insert "plugins" (JObj (insert "typegen" (typegen_json c) p)) kvs)).
Proof. intros E. unfold save_doc. rewrite E. rewrite E. reflexivity. Qed.

(* C19_save_refused: the save is refused exactly on the documents that are not saveable *)
Theorem save_refused_iff c doc : save_doc c doc = None <-> saveable doc = false.
Proof.
  destruct doc as [| b | n | s | l | kvs]; try (split; reflexivity).
  unfold saveable. destruct (lookup "plugins" kvs) as [pl|] eqn:El.
  - destruct pl as [| | | |l|p]; unfold save_doc; rewrite El; rewrite El; split; try reflexivity; discriminate.
  - rewrite (save_doc_obj_none c kvs El). split; discriminate.
Qed.

Lemma save_doc_some c doc doc' : save_doc c doc = Some doc' ->
  exists kvs, doc = JObj kvs /\
    ((lookup "plugins" kvs = None /\
      doc' = JObj (insert "plugins" (JObj (insert "typegen" (typegen_json c) [])) (insert "plugins" (JObj []) kvs)))
     \/ exists p, lookup "plugins" kvs = Some (JObj p) /\
          doc' = JObj (insert "plugins" (JObj (insert "typegen" (typegen_json c) p)) kvs)).
Proof.
  intros H. destruct doc as [| b | n | s | l | kvs]; try discriminate. exists kvs. split; [reflexivity|].
  destruct (lookup "plugins" kvs) as [pl|] eqn:El.
  - destruct pl as [| | | |l|p]; try (unfold save_doc in H; rewrite El in H; rewrite El in H; discriminate).
    right. exists p. split; [reflexivity|]. rewrite (save_doc_obj_obj c kvs p El) in H. congruence.
  - left. split; [reflexivity|]. rewrite (save_doc_obj_none c kvs El) in H. congruence.
Qed.

(* C19_preserve *)
Theorem preserve c doc doc' q : save_doc c doc = Some doc' -> outside_section q = true ->
  get q doc' = get q doc.
Proof.
  intros Hs Hq. apply outside_section_shape in Hq.
  destruct (save_doc_some c doc doc' Hs) as (kvs & -> & [[El ->]|(p & El & ->)]).
  - inversion Hq as [i q'|k q' Hk|i q'|k q' Hk]; subst.
    + reflexivity.
    + rewrite !get_key. rewrite !lookup_insert_other by exact Hk. reflexivity.
    + rewrite !get_key. rewrite lookup_insert_same, El. reflexivity.
    + rewrite !get_key. rewrite lookup_insert_same, El. rewrite get_key.
      rewrite lookup_insert_other by exact Hk. reflexivity.
  - inversion Hq as [i q'|k q' Hk|i q'|k q' Hk]; subst.
    + reflexivity.
    + rewrite !get_key. rewrite lookup_insert_other by exact Hk. reflexivity.
    + rewrite !get_key. rewrite lookup_insert_same, El. reflexivity.
    + rewrite !get_key. rewrite lookup_insert_same, El. rewrite !get_key.
      rewrite lookup_insert_other by exact Hk. reflexivity.
Qed.

Lemma save_writes c doc doc' : save_doc c doc = Some doc' -> get P doc' = Some (typegen_json c).
Proof.
  intros Hs. unfold P.
  destruct (save_doc_some c doc doc' Hs) as (kvs & -> & [[El ->]|(p & El & ->)]);
    rewrite get_key, lookup_insert_same, get_key, lookup_insert_same; reflexivity.
Qed.

Lemma all_strs_map l : all_strs (map JStr l) = Some l.
Proof. induction l as [|x l IH]; cbn [map all_strs]; [reflexivity|]. rewrite IH. reflexivity. Qed.
Lemma all_str_vals_map l :
  all_str_vals (map (fun kv : string * string => (fst kv, JStr (snd kv))) l) = Some l.
Proof. induction l as [|[k v] l IH]; cbn [map all_str_vals fst snd]; [reflexivity|]. rewrite IH. reflexivity. Qed.

Lemma config_of_section_typegen c : config_of_section (typegen_json c) = normalise c.
Proof.
  destruct c as [pp op vl vb vd ip tm ep ipat pc fc fo].
  unfold config_of_section, normalise, typegen_json. cbn.
  f_equal.
  - destruct tm; cbn; [apply all_str_vals_map|reflexivity].
  - destruct ep; cbn; [apply all_strs_map|reflexivity].
  - destruct ipat; cbn; [apply all_strs_map|reflexivity].
Qed.

(* C19_roundtrip: every settings value, the two naming conventions included *)
Theorem roundtrip c doc doc' : save_doc c doc = Some doc' -> load_doc doc' = Some (normalise c).
Proof.
  intros Hs. unfold load_doc. rewrite (save_writes c doc doc' Hs). rewrite (config_of_section_typegen c). reflexivity.
Qed.

(* ---------------------------------------------------------------- precedence *)
(* the search loop returns what the configuration file says *)
Lemma search_the_file f ps :
  search f ps = match the_file f ps with
                | Some d => match load_doc d with Some c => c | None => dflt end
                | None => dflt
                end.
Proof.
  induction ps as [|p r IH]; [reflexivity|].
  cbn [search the_file]. unfold fs_exists, from_tauri_config_unvalidated.
  destruct (fs_get f p) as [[| |[d|]|o]|] eqn:Eg; try exact IH.
  destruct (load_doc d) as [c|]; reflexivity.
Qed.

Lemma load_doc_section d : load_doc d = option_map config_of_section (get P d).
Proof. unfold load_doc. destruct (get P d); reflexivity. Qed.

Definition loaded_or_default (sec : option json) : config :=
  match sec with Some tg => config_of_section tg | None => dflt end.

Lemma search_section f : search f cands = loaded_or_default (file_section f cands).
Proof.
  rewrite (search_the_file f cands).
  unfold file_section, loaded_or_default. destruct (the_file f cands) as [d|]; [|reflexivity].
  rewrite load_doc_section. destruct (get P d); reflexivity.
Qed.

(* the settings of a run, field by field, are flag over file over default *)
Lemma eff_precedence fl sec :
  eff_of fl (apply_flags fl (loaded_or_default sec)) =
  let v := effective (flag_of (f_verbose fl)) (sec_bool sec "verbose") false in
  {| e_project := effective (f_project fl) (sec_str sec "projectPath") "./src-tauri";
     e_output := effective (f_output fl) (sec_str sec "outputPath") "./src/generated";
     e_lib := effective (f_validation fl) (sec_str sec "validationLibrary") "none";
     e_verbose := v; e_log_verbose := v;
     e_visualize := effective (flag_of (f_visualize fl)) (sec_bool sec "visualizeDeps") false;
     e_force := effective (flag_of (f_force fl)) (sec_bool sec "force") false |}.
Proof.
  destruct fl as [fp fo fv fvb fvz ff].
  cbv zeta.
  unfold eff_of, apply_flags, effective, flag_of, loaded_or_default, sec_str, sec_bool, or_else in *.
  cbn [f_project f_output f_validation f_verbose f_visualize f_force
       project_path output_path validation_library verbose visualize_deps force] in *.
  destruct sec as [tg|].
  - unfold config_of_section.
    cbn [project_path output_path validation_library verbose visualize_deps force dflt].
    f_equal.
    + destruct fvb; [reflexivity|]. destruct (as_bool (get [PKey "verbose"] tg)); reflexivity.
    + destruct fvb; [reflexivity|]. destruct (as_bool (get [PKey "verbose"] tg)); reflexivity.
    + destruct fvz; [reflexivity|]. destruct (as_bool (get [PKey "visualizeDeps"] tg)); reflexivity.
    + destruct ff; [reflexivity|]. destruct (as_bool (get [PKey "force"] tg)); reflexivity.
  - cbn. destruct fp, fo, fv, fvb, fvz, ff; reflexivity.
Qed.

(* C19_precedence *)
Theorem precedence f fl : eff_of fl (apply_flags fl (search f cands)) = spec_eff f fl.
Proof. rewrite (search_section f). unfold spec_eff. apply eff_precedence. Qed.

(* the validity test of the run is the one of the specification *)
Lemma validate_spec f fl c : validate f c = None <-> spec_invalid f (eff_of fl c) = false.
Proof.
  unfold validate, spec_invalid, eff_of. cbn [e_lib e_project].
  destruct (lib_ok (validation_library c)); cbn; [|split; discriminate].
  destruct (fs_exists f (project_path c)); cbn; split; intros H; try reflexivity; discriminate.
Qed.

(* C19_generate_reject_first and the run case *)
Theorem generate_spec f fl :
  if spec_invalid f (spec_eff f fl)
  then exists e, run_generate f fl = RReject e f
  else (run_generate f fl = RNoCommands (spec_eff f fl) f /\ fs_get f (e_project (spec_eff f fl)) <> Some NProj)
       \/ exists f', run_generate f fl = RRun (spec_eff f fl) f' /\ fs_get f (e_project (spec_eff f fl)) = Some NProj
                     /\ forall p, norm p <> norm (e_output (spec_eff f fl)) -> fs_get f' p = fs_get f p.
Proof.
  pose proof (precedence f fl) as Hp. unfold run_generate.
  set (c := apply_flags fl (search f cands)) in *.
  destruct (validate f c) as [e|] eqn:Ev.
  - assert (spec_invalid f (eff_of fl c) = true) as Hi.
    { destruct (spec_invalid f (eff_of fl c)) eqn:E; [reflexivity|]. apply (validate_spec f fl c) in E. congruence. }
    rewrite Hp in Hi. rewrite Hi. exists e. reflexivity.
  - apply (validate_spec f fl c) in Ev. rewrite Hp in Ev. rewrite Ev. rewrite <- Hp.
    cbn [eff_of e_project e_output].
    destruct (fs_get f (project_path c)) as [[| | |]|] eqn:Eg;
      try (left; split; [reflexivity|discriminate]).
    right. eexists. split; [reflexivity|]. split; [reflexivity|].
    intros p Hn. unfold fs_get, fs_put. apply lookup_insert_other. exact Hn.
Qed.

(* ---------------------------------------------------------------- init *)
Lemma init_invalid_validate f il : init_invalid f il = true <-> validate f (init_config il) <> None.
Proof.
  unfold init_invalid, validate, init_config. cbn [validation_library project_path].
  destruct (lib_ok (init_lib il)); cbn; [|split; [discriminate|reflexivity]].
  destruct (fs_exists f (init_project il)); cbn; split; intros H; try discriminate; try reflexivity.
  exfalso. apply H. reflexivity.
Qed.

(* C19_init_reject_first: invalid settings are refused and every file is left alone *)
Theorem init_reject_first f il : init_invalid f il = true -> exists e, run_init f il = RReject e f.
Proof.
  intros Hi. apply init_invalid_validate in Hi. unfold run_init.
  destruct (validate f (init_config il)) as [e|]; [exists e; reflexivity|]. exfalso. apply Hi. reflexivity.
Qed.

(* a target the settings cannot be written into: error, every file left alone *)
Theorem init_unsaveable f il d :
  fs_get f (init_target il) = Some (NDoc (Some d)) -> saveable d = false ->
  run_init f il = RFail f \/ exists e, run_init f il = RReject e f.
Proof.
  intros Hg Hs. unfold run_init. destruct (validate f (init_config il)) as [e|]; [right; exists e; reflexivity|].
  left. rewrite Hg. apply (save_refused_iff (init_config il)) in Hs. rewrite Hs. reflexivity.
Qed.

Definition result_fs (r : result) : fs :=
  match r with RReject _ f | RFail f | RNoCommands _ f | RRun _ f => f end.

Lemma fs_get_put_same f p n : fs_get (fs_put f p n) p = Some n.
Proof. unfold fs_get, fs_put. apply lookup_insert_same. Qed.
Lemma fs_get_put_other f p p' n : norm p' <> norm p -> fs_get (fs_put f p n) p' = fs_get f p'.
Proof. intros H. unfold fs_get, fs_put. apply lookup_insert_other. exact H. Qed.

(* what a valid init leaves in its target is save_doc of what was there, so preserve and
   roundtrip apply to the document left behind *)
Theorem init_document f il d d' :
  init_invalid f il = false ->
  fs_get f (init_target il) = Some (NDoc (Some d)) ->
  save_doc (init_config il) d = Some d' ->
  norm (init_generated il) <> norm (init_target il) ->
  fs_get (result_fs (run_init f il)) (init_target il) = Some (NDoc (Some d')).
Proof.
  intros Hi Hg Hs Hn. unfold run_init.
  destruct (validate f (init_config il)) as [e|] eqn:Ev.
  { assert (init_invalid f il = true) as Hc by (apply init_invalid_validate; congruence). congruence. }
  rewrite Hg, Hs.
  set (f1 := fs_put f (init_target il) (NDoc (Some d'))).
  assert (fs_get f1 (init_target il) = Some (NDoc (Some d'))) as H1 by apply fs_get_put_same.
  unfold run_generate.
  set (c := apply_flags (init_flags il) (search f1 cands)).
  assert (output_path c = init_generated il) as Ho by reflexivity.
  destruct (validate f1 c); [exact H1|].
  destruct (fs_get f1 (project_path c)) as [[| | |]|]; try exact H1.
  cbn [result_fs]. rewrite Ho. rewrite fs_get_put_other; [exact H1|]. intros E. apply Hn. symmetry. exact E.
Qed.

(* the boolean oracles accept what the model itself produces outside the classes
   (ties the run-time oracles to the theorems) *)
Lemma config_eqb_refl c : config_eqb c c = true.
Proof.
  assert (forall l, strs_eqb l l = true) as Hs.
  { induction l as [|x l IH]; [reflexivity|]. cbn. rewrite String.eqb_refl, IH. reflexivity. }
  assert (forall l, pairs_eqb l l = true) as Hp.
  { induction l as [|[k v] l IH]; [reflexivity|]. cbn. rewrite !String.eqb_refl, IH. reflexivity. }
  assert (forall o, obool_eqb o o = true) as Hb by (intros [[|]|]; reflexivity).
  destruct c as [pp op vl vb vd ip tm ep ipat pc fc fo]. unfold config_eqb. cbn.
  rewrite !String.eqb_refl, !Hb. cbn.
  destruct tm as [tm|]; cbn; [rewrite Hp|]; destruct ep as [ep|]; cbn; [rewrite Hs| |rewrite Hs|];
    destruct ipat as [ipat|]; cbn; try rewrite Hs; reflexivity.
Qed.

Theorem oracle_roundtrip_model c doc doc' : save_doc c doc = Some doc' ->
  roundtrip_b c (load_doc doc') = true.
Proof. intros Hs. rewrite (roundtrip c doc doc' Hs). apply config_eqb_refl. Qed.

(* ---------------------------------------------------------------- the standalone file *)
Lemma run_generate_run_with f fl : run_generate f fl = run_with f fl (search f cands).
Proof. reflexivity. Qed.

(* save_to_file / from_file: exact round trip for every settings value *)
Lemma flat_json_shape c : flat_shape_ok (flat_json c) = true.
Proof. reflexivity. Qed.

Theorem flat_roundtrip c : from_flat (flat_json c) = Some c.
Proof.
  unfold from_flat. rewrite flat_json_shape.
  destruct c as [pp op vl vb vd ip tm ep ipat pc fc fo].
  unfold flat_at, flat_json, rd_str, rd_obool, rd_ostrs, rd_omap.
  cbn [lookup String.eqb Ascii.eqb Bool.eqb project_path output_path validation_library verbose visualize_deps
       include_private type_mappings exclude_patterns include_patterns default_parameter_case
       default_field_case force dflt].
  destruct vb as [[|]|], vd as [[|]|], ip as [[|]|], fo as [[|]|]; cbn [ojb];
    destruct tm as [tm|]; cbn [omap]; try rewrite all_str_vals_map; cbn [option_map];
    destruct ep as [ep|]; cbn [ostrs]; try rewrite all_strs_map; cbn [option_map];
    destruct ipat as [ipat|]; cbn [ostrs]; try rewrite all_strs_map; cbn [option_map]; reflexivity.
Qed.

Lemma rd_str_spec v dfl s : rd_str v dfl = Some s -> s = or_else (as_str v) dfl.
Proof. unfold rd_str. destruct v as [[]|]; cbn; intros H; try discriminate; congruence. Qed.
Lemma rd_obool_spec v o : rd_obool v = Some o -> or_else o false = or_else (as_bool v) false.
Proof. unfold rd_obool. destruct v as [[]|]; cbn; intros H; try discriminate; inversion H; reflexivity. Qed.

Lemma from_flat_fields doc c : from_flat doc = Some c ->
  flat_shape_ok doc = true /\
  rd_str (flat_at doc "project_path" 0) "./src-tauri" = Some (project_path c) /\
  rd_str (flat_at doc "output_path" 1) "./src/generated" = Some (output_path c) /\
  rd_str (flat_at doc "validation_library" 2) "none" = Some (validation_library c) /\
  rd_obool (flat_at doc "verbose" 3) = Some (verbose c) /\ rd_obool (flat_at doc "visualize_deps" 4) = Some (visualize_deps c) /\
  rd_obool (flat_at doc "force" 11) = Some (force c).
Proof.
  intros H. unfold from_flat in H.
  cbn [project_path output_path validation_library dflt default_parameter_case default_field_case] in H.
  destruct (flat_shape_ok doc); [|discriminate]. split; [reflexivity|].
  destruct (rd_str (flat_at doc "project_path" 0) "./src-tauri") as [pp|]; [|discriminate].
  destruct (rd_str (flat_at doc "output_path" 1) "./src/generated") as [op|]; [|discriminate].
  destruct (rd_str (flat_at doc "validation_library" 2) "none") as [vl|]; [|discriminate].
  destruct (rd_obool (flat_at doc "verbose" 3)) as [vb|]; [|discriminate].
  destruct (rd_obool (flat_at doc "visualize_deps" 4)) as [vd|]; [|discriminate].
  destruct (rd_obool (flat_at doc "include_private" 5)) as [ip|]; [|discriminate].
  destruct (rd_omap (flat_at doc "type_mappings" 6)) as [tm|]; [|discriminate].
  destruct (rd_ostrs (flat_at doc "exclude_patterns" 7)) as [ep|]; [|discriminate].
  destruct (rd_ostrs (flat_at doc "include_patterns" 8)) as [ipat|]; [|discriminate].
  destruct (rd_str (flat_at doc "default_parameter_case" 9) "camelCase") as [pc|]; [|discriminate].
  destruct (rd_str (flat_at doc "default_field_case" 10) "snake_case") as [fc|]; [|discriminate].
  destruct (rd_obool (flat_at doc "force" 11)) as [fo|]; [|discriminate].
  inversion H; subst c. cbn. repeat split; reflexivity.
Qed.

(* a standalone file that gives one of the twelve fields twice is refused; so is an array
   with more than twelve elements and any root that is neither an object nor an array *)
Theorem from_flat_dup d : dup_field d = true -> from_flat (JObj d) = None.
Proof. intros H. unfold from_flat, flat_shape_ok. rewrite H. reflexivity. Qed.
Theorem from_flat_shape doc : flat_shape_ok doc = false -> from_flat doc = None.
Proof. intros H. unfold from_flat. rewrite H. reflexivity. Qed.

(* flag over standalone file over default, setting by setting (a field of the file is found
   by name in an object and by position in an array) *)
Theorem precedence_c fl doc c0 : from_flat doc = Some c0 ->
  eff_of fl (apply_flags fl c0) = spec_eff_c fl doc.
Proof.
  intros H. destruct (from_flat_fields doc c0 H) as (_ & Hp & Ho & Hl & Hv & Hz & Hf).
  apply rd_str_spec in Hp. apply rd_str_spec in Ho. apply rd_str_spec in Hl.
  apply rd_obool_spec in Hv. apply rd_obool_spec in Hz. apply rd_obool_spec in Hf.
  unfold spec_eff_c, flat_str, flat_bool. cbv zeta.
  destruct fl as [fp fo fv fvb fvz ff].
  unfold eff_of, apply_flags, effective, flag_of.
  cbn [f_project f_output f_validation f_verbose f_visualize f_force
       project_path output_path validation_library verbose visualize_deps force].
  rewrite Hp, Ho, Hl. unfold or_else in *.
  f_equal.
  - destruct fvb; [reflexivity|]. exact Hv.
  - destruct fvb; [reflexivity|]. exact Hv.
  - destruct fvz; [reflexivity|]. exact Hz.
  - destruct ff; [reflexivity|]. exact Hf.
Qed.

(* what a run does once its starting configuration is known *)
Lemma run_with_spec f fl c0 e : eff_of fl (apply_flags fl c0) = e ->
  if spec_invalid f e
  then exists err, run_with f fl c0 = RReject err f
  else (run_with f fl c0 = RNoCommands e f /\ fs_get f (e_project e) <> Some NProj)
       \/ exists f', run_with f fl c0 = RRun e f' /\ fs_get f (e_project e) = Some NProj
                     /\ forall p, norm p <> norm (e_output e) -> fs_get f' p = fs_get f p.
Proof.
  intros Hp. unfold run_with.
  set (c := apply_flags fl c0) in *.
  destruct (validate f c) as [er|] eqn:Ev.
  - assert (spec_invalid f (eff_of fl c) = true) as Hi.
    { destruct (spec_invalid f (eff_of fl c)) eqn:E; [reflexivity|]. apply (validate_spec f fl c) in E. congruence. }
    rewrite Hp in Hi. rewrite Hi. exists er. reflexivity.
  - apply (validate_spec f fl c) in Ev. rewrite Hp in Ev. rewrite Ev. rewrite <- Hp.
    cbn [eff_of e_project e_output].
    destruct (fs_get f (project_path c)) as [[| | |]|] eqn:Eg;
      try (left; split; [reflexivity|discriminate]).
    right. eexists. split; [reflexivity|]. split; [reflexivity|].
    intros p Hn. unfold fs_get, fs_put. apply lookup_insert_other. exact Hn.
Qed.

(* generate -c: invalid effective settings are refused and the file system left alone;
   otherwise the run obeys flag over file over default *)
Theorem generate_c_spec f fl p d c0 :
  fs_get f p = Some (NDoc (Some d)) -> from_flat d = Some c0 ->
  if spec_invalid f (spec_eff_c fl d)
  then exists err, run_generate_c f fl p = RReject err f
  else (run_generate_c f fl p = RNoCommands (spec_eff_c fl d) f /\ fs_get f (e_project (spec_eff_c fl d)) <> Some NProj)
       \/ exists f', run_generate_c f fl p = RRun (spec_eff_c fl d) f'
                     /\ fs_get f (e_project (spec_eff_c fl d)) = Some NProj
                     /\ forall q, norm q <> norm (e_output (spec_eff_c fl d)) -> fs_get f' q = fs_get f q.
Proof.
  intros Hg Hd. unfold run_generate_c, from_file_unvalidated. rewrite Hg, Hd.
  exact (run_with_spec f fl c0 _ (precedence_c fl d c0 Hd)).
Qed.

Theorem generate_c_unreadable f fl p :
  (forall d c0, fs_get f p = Some (NDoc (Some d)) -> from_flat d = Some c0 -> False) ->
  run_generate_c f fl p = RFail f.
Proof.
  intros H. unfold run_generate_c, from_file_unvalidated.
  destruct (fs_get f p) as [[| |[d|]|o]|] eqn:Eg; try reflexivity.
  destruct (from_flat d) as [c0|] eqn:Ed; [|reflexivity]. exfalso. eapply H; [reflexivity|exact Ed].
Qed.

Theorem oracle_flat_roundtrip_model c : flat_roundtrip_b c (from_flat (flat_json c)) = true.
Proof. rewrite flat_roundtrip. apply config_eqb_refl. Qed.

(* ---------------------------------------------------------------- the build-script loader *)
Lemma eff_section tg : eff_of no_flags (config_of_section tg) = spec_eff_sec (Some tg).
Proof. exact (eff_precedence no_flags (Some tg)). Qed.
Lemma eff_default : eff_of no_flags dflt = spec_eff_sec None.
Proof. reflexivity. Qed.

Theorem build_precedence f : kf_build_fallback f = false ->
  eff_of no_flags (build_config f) = spec_eff_build f.
Proof.
  unfold kf_build_fallback, spec_eff_build, build_section, build_config, from_tauri_config, load_doc.
  destruct (fs_get f "tauri.conf.json") as [[| |[d|]|o]|] eqn:Et.
  3: { (* a readable document *)
    destruct (get P d) as [tg|].
    - destruct (validate f (config_of_section tg)); [discriminate|]. intros _. apply eff_section.
    - intros Hk. destruct (fs_get f "typegen.json") as [[| |[t|]|o]|] eqn:Eg.
      all: unfold from_file in *; rewrite Eg in *; try apply eff_default.
      destruct (from_flat t) as [c|] eqn:Ef; [|discriminate].
      destruct (validate f c); [discriminate|]. exact (precedence_c no_flags t c Ef). }
  all: intros Hk; destruct (fs_get f "typegen.json") as [[| |[t|]|o2]|] eqn:Eg.
  all: unfold from_file in *; rewrite Eg in *; try apply eff_default.
  all: destruct (from_flat t) as [c|] eqn:Ef; [|discriminate].
  all: destruct (validate f c); [discriminate|]; exact (precedence_c no_flags t c Ef).
Qed.

Lemma build_fallback_refuted : exists f e f',
  kf_build_fallback f = true /\ run_build f = RRun e f' /\ e_lib e = "none" /\ e_output e = "./src/generated".
Proof.
  exists [("src-tauri", NProj);
          ("tauri.conf.json", NDoc (Some (JObj [("plugins", JObj [("typegen",
             JObj [("validationLibrary", JStr "yup"); ("outputPath", JStr "./outF")])])])))].
  eexists. eexists. split; [reflexivity|]. split; [reflexivity|]. split; reflexivity.
Qed.

(* ---------------------------------------------------------------- the build script with project detection *)
Theorem build_precedence_at f tp gp : kf_build_fallback_at f tp gp = false ->
  eff_of no_flags (build_config_at f tp gp) = spec_eff_build_at f tp gp.
Proof.
  unfold kf_build_fallback_at, spec_eff_build_at, build_section_at, build_config_at, from_tauri_config, load_doc.
  assert (forall (Hk : match fs_get f gp with
                       | Some (NDoc (Some t)) => match from_file f gp with None => true | Some _ => false end
                       | _ => false end = false),
            eff_of no_flags (match from_file f gp with Some c => c | None => dflt end) =
            match fs_get f gp with Some (NDoc (Some t)) => spec_eff_c no_flags t | _ => spec_eff_sec None end) as Hg.
  { intros Hk. destruct (fs_get f gp) as [[| |[t|]|o]|] eqn:Eg.
    all: unfold from_file in *; rewrite Eg in *; try apply eff_default.
    destruct (from_flat t) as [c|] eqn:Ef; [|discriminate].
    destruct (validate f c); [discriminate|]. exact (precedence_c no_flags t c Ef). }
  destruct tp as [p|]; [|exact Hg].
  destruct (fs_get f p) as [[| |[d|]|o]|] eqn:Et; try exact Hg.
  destruct (get P d) as [tg|]; [|exact Hg].
  destruct (validate f (config_of_section tg)); [discriminate|]. intros _. apply eff_section.
Qed.

(* the build script, detection included: with a detected root and outside C19-9 the run uses
   the root's file over the defaults; without a detected root nothing is generated *)
Theorem build_detect_precedence f r : build_root f = Some r -> kf_build_fallback_detect f = false ->
  exists res, run_build_detect f = res /\
    (res = RNoCommands (spec_eff_build_detect f) f \/ exists f', res = RRun (spec_eff_build_detect f) f').
Proof.
  intros Hr Hk. unfold run_build_detect, spec_eff_build_detect, kf_build_fallback_detect in *. rewrite Hr in *.
  cbv zeta. rewrite (build_precedence_at f _ _ Hk). eexists. split; [reflexivity|].
  destruct (fs_get f (project_path _)) as [[| | |]|]; try (left; reflexivity). right. eexists. reflexivity.
Qed.

Theorem build_detect_none f : build_root f = None -> exists e, run_build_detect f = RNoCommands e f.
Proof. intros H. unfold run_build_detect. rewrite H. eexists. reflexivity. Qed.

(* run from the project root (no tauri.conf.js there) detection changes nothing *)
Theorem build_detect_here f : is_root f "" = true -> fs_exists f "tauri.conf.js" = false ->
  run_build_detect f = run_build f.
Proof.
  intros Hr Hj. unfold run_build_detect, build_root. rewrite Hr. unfold run_build. cbv zeta.
  assert (build_config_at f (build_conf_path f "") ("" ++ "typegen.json") = build_config f) as ->; [|reflexivity].
  unfold build_config_at, build_conf_path, build_config. cbn [append]. rewrite Hj.
  destruct (fs_exists f "tauri.conf.json") eqn:Ee; [reflexivity|].
  unfold fs_exists in Ee. unfold from_tauri_config. destruct (fs_get f "tauri.conf.json"); [discriminate|]. reflexivity.
Qed.

(* ---------------------------------------------------------------- init -o <standalone file> *)
Theorem init_file_reject_first f il force : init_invalid f il = true ->
  run_init_file f il force = RFail f \/ exists e, run_init_file f il force = RReject e f.
Proof.
  intros Hi. apply init_invalid_validate in Hi. unfold run_init_file.
  destruct (fs_exists f (or_else (i_output il) "tauri.conf.json") && negb force); [left; reflexivity|].
  destruct (validate f (init_config il)) as [e|]; [right; exists e; reflexivity|]. exfalso. apply Hi. reflexivity.
Qed.

Theorem init_file_no_overwrite f il : fs_exists f (or_else (i_output il) "tauri.conf.json") = true ->
  run_init_file f il false = RFail f.
Proof. intros H. unfold run_init_file. rewrite H. reflexivity. Qed.

(* a target that cannot be created (its directory does not exist, or a regular file is in
   the way, or the target is a directory): an error and every file left alone, whatever else *)
Theorem init_file_unwritable f il force :
  init_writable f (or_else (i_output il) "tauri.conf.json") = false ->
  run_init_file f il force = RFail f \/ exists e, run_init_file f il force = RReject e f.
Proof.
  intros Hw. unfold run_init_file.
  destruct (fs_exists f (or_else (i_output il) "tauri.conf.json") && negb force); [left; reflexivity|].
  destruct (validate f (init_config il)) as [e|]; [right; exists e; reflexivity|]. rewrite Hw. left. reflexivity.
Qed.

Theorem init_file_document f il force :
  init_invalid f il = false ->
  fs_exists f (or_else (i_output il) "tauri.conf.json") && negb force = false ->
  init_writable f (or_else (i_output il) "tauri.conf.json") = true ->
  norm (init_generated il) <> norm (or_else (i_output il) "tauri.conf.json") ->
  fs_get (result_fs (run_init_file f il force)) (or_else (i_output il) "tauri.conf.json")
    = Some (NDoc (Some (flat_json (init_config il))))
  /\ from_flat (flat_json (init_config il)) = Some (init_config il).
Proof.
  intros Hi He Hw Hn. split; [|apply flat_roundtrip]. unfold run_init_file. rewrite He.
  destruct (validate f (init_config il)) as [e|] eqn:Ev.
  { assert (init_invalid f il = true) as Hc by (apply init_invalid_validate; congruence). congruence. }
  rewrite Hw.
  set (t := or_else (i_output il) "tauri.conf.json") in *.
  set (f1 := fs_put f t (NDoc (Some (flat_json (init_config il))))).
  assert (fs_get f1 t = Some (NDoc (Some (flat_json (init_config il))))) as H1 by apply fs_get_put_same.
  unfold run_generate.
  set (c := apply_flags (init_flags il) (search f1 cands)).
  assert (output_path c = init_generated il) as Ho by reflexivity.
  destruct (validate f1 c); [exact H1|].
  destruct (fs_get f1 (project_path c)) as [[| | |]|]; try exact H1.
  cbn [result_fs]. rewrite Ho. rewrite fs_get_put_other; [exact H1|]. intros E. apply Hn. symmetry. exact E.
Qed.
