(* C19 - proofs about Model/C19Config.v against Spec/C19Spec.v. *)
From Coq Require Import String Ascii List Bool Arith Lia.
Require Import TT.Model.C19Config TT.Spec.C19Spec.
Import ListNotations.
Local Open Scope string_scope.

(* ---------------------------------------------------------------- association lists *)
Lemma lookup_insert_same {A} k (v : A) kvs : lookup k (insert k v kvs) = Some v.
Proof.
  induction kvs as [|[k' v'] r IH]; cbn [insert lookup].
  - rewrite String.eqb_refl. reflexivity.
  - destruct (String.eqb k k') eqn:E; cbn [lookup].
    + rewrite String.eqb_refl. reflexivity.
    + rewrite E. exact IH.
Qed.

Lemma lookup_insert_other {A} k k2 (v : A) kvs : k2 <> k -> lookup k2 (insert k v kvs) = lookup k2 kvs.
Proof.
  intros Hn. induction kvs as [|[k' v'] r IH]; cbn [insert lookup].
  - destruct (String.eqb_spec k2 k); congruence.
  - destruct (String.eqb_spec k k') as [->|Hkk']; cbn [lookup].
    + destruct (String.eqb_spec k2 k'); congruence.
    + destruct (String.eqb_spec k2 k'); auto.
Qed.

(* ---------------------------------------------------------------- paths *)
Lemma get_key k q kvs :
  get (PKey k :: q) (JObj kvs) = match lookup k kvs with Some v => get q v | None => None end.
Proof. reflexivity. Qed.

Lemma pel_eqb_key k k' : pel_eqb (PKey k) (PKey k') = String.eqb k k'.
Proof. reflexivity. Qed.

(* an outside path starts with a key other than plugins, or with an index, or is
   plugins followed by something other than the key typegen *)
Inductive outside_shape : list pel -> Prop :=
| os_idx i q : outside_shape (PIdx i :: q)
| os_key k q : k <> "plugins" -> outside_shape (PKey k :: q)
| os_pl_idx i q : outside_shape (PKey "plugins" :: PIdx i :: q)
| os_pl_key k q : k <> "typegen" -> outside_shape (PKey "plugins" :: PKey k :: q).

Lemma outside_section_shape q : outside_section q = true -> outside_shape q.
Proof.
  unfold outside_section, P. intros H. apply andb_true_iff in H. destruct H as [H1 H2].
  apply negb_true_iff in H1. apply negb_true_iff in H2.
  destruct q as [|[k|i] q]; [discriminate| |apply os_idx].
  destruct (String.eqb_spec k "plugins") as [->|Hk]; [|apply os_key; exact Hk].
  destruct q as [|[k2|i2] q]; [discriminate| |apply os_pl_idx].
  destruct (String.eqb_spec k2 "typegen") as [->|Hk2]; [|apply os_pl_key; exact Hk2].
  cbn in H2. discriminate.
Qed.

(* ---------------------------------------------------------------- save_doc *)
(* what save_doc does to an object root, by cases on the plugins entry *)
Lemma save_doc_obj_none c kvs : lookup "plugins" kvs = None ->
  save_doc c (JObj kvs) =
  JObj (insert "plugins" (JObj (insert "typegen" (typegen_json c) [])) (insert "plugins" (JObj []) kvs)).
Proof. intros E. unfold save_doc. rewrite E. rewrite lookup_insert_same. reflexivity. Qed.

Lemma save_doc_obj_obj c kvs p : lookup "plugins" kvs = Some (JObj p) ->
  save_doc c (JObj kvs) = JObj (insert "plugins" (JObj (insert "typegen" (typegen_json c) p)) kvs).
Proof. intros E. unfold save_doc. rewrite E. rewrite E. reflexivity. Qed.

Lemma save_doc_obj_other c kvs v : lookup "plugins" kvs = Some v ->
  (forall p, v <> JObj p) -> save_doc c (JObj kvs) = JObj kvs.
Proof. intros E Hv. unfold save_doc. rewrite E. rewrite E. destruct v; try reflexivity. exfalso. eapply Hv. reflexivity. Qed.

Lemma save_doc_nonobj c d : (forall kvs, d <> JObj kvs) ->
  save_doc c d = JObj [("plugins", JObj [("typegen", typegen_json c)])].
Proof. intros H. destruct d; try reflexivity. exfalso. eapply H. reflexivity. Qed.

(* preservation for an object root (no hypothesis on plugins) *)
Lemma preserve_obj c kvs q : outside_shape q -> get q (save_doc c (JObj kvs)) = get q (JObj kvs).
Proof.
  intros Hq. destruct (lookup "plugins" kvs) as [pl|] eqn:El.
  - destruct pl as [| | | |l|p];
      try (rewrite (save_doc_obj_other c kvs _ El) by (intros p0; discriminate); reflexivity).
    rewrite (save_doc_obj_obj c kvs p El).
    inversion Hq as [i q'|k q' Hk|i q'|k q' Hk]; subst.
    + reflexivity.
    + rewrite !get_key. rewrite lookup_insert_other by exact Hk. reflexivity.
    + rewrite !get_key. rewrite lookup_insert_same, El. reflexivity.
    + rewrite !get_key. rewrite lookup_insert_same, El. rewrite !get_key.
      rewrite lookup_insert_other by exact Hk. reflexivity.
  - rewrite (save_doc_obj_none c kvs El).
    inversion Hq as [i q'|k q' Hk|i q'|k q' Hk]; subst.
    + reflexivity.
    + rewrite !get_key. rewrite !lookup_insert_other by exact Hk. reflexivity.
    + rewrite !get_key. rewrite lookup_insert_same, El. reflexivity.
    + rewrite !get_key. rewrite lookup_insert_same, El. rewrite get_key.
      rewrite lookup_insert_other by exact Hk. reflexivity.
Qed.

(* C19_preserve *)
Theorem preserve c doc q : kf_root_array doc = false -> outside_section q = true ->
  get q (save_doc c doc) = get q doc.
Proof.
  intros Hr Hq. apply outside_section_shape in Hq.
  destruct doc as [| b | n | s | l | kvs]; try apply preserve_obj; try exact Hq.
  all: rewrite save_doc_nonobj by (intros kvs0; discriminate).
  all: inversion Hq as [i q'|k q' Hk|i q'|k q' Hk]; subst; try reflexivity.
  all: try (rewrite get_key; cbn [lookup]; destruct (String.eqb_spec k "plugins") as [E|_]; [contradiction|reflexivity]).
  all: try (rewrite get_key; cbn [lookup]; rewrite String.eqb_refl; rewrite get_key; cbn [lookup];
            destruct (String.eqb_spec k "typegen") as [E|_]; [contradiction|reflexivity]).
  (* root array: only the empty one is outside the class *)
  all: destruct l; [|discriminate]; cbn [get]; destruct i; reflexivity.
Qed.

Lemma preserve_refuted : exists c doc q,
  kf_root_array doc = true /\ outside_section q = true /\ get q (save_doc c doc) <> get q doc.
Proof. exists dflt, (JArr [JNum "1"]), [PIdx 0]. repeat split; try reflexivity. discriminate. Qed.

(* the section is written whenever plugins is absent or an object (any root) *)
Lemma save_writes c doc : kf_plugins_not_object doc = false -> get P (save_doc c doc) = Some (typegen_json c).
Proof.
  intros Hk. unfold P. destruct doc as [| b | n | s | l | kvs];
    try (rewrite save_doc_nonobj by (intros kvs0; discriminate); reflexivity).
  unfold kf_plugins_not_object in Hk.
  destruct (lookup "plugins" kvs) as [pl|] eqn:El.
  - destruct pl; try discriminate. rewrite (save_doc_obj_obj c kvs _ El).
    rewrite get_key, lookup_insert_same, get_key, lookup_insert_same. reflexivity.
  - rewrite (save_doc_obj_none c kvs El).
    rewrite get_key, lookup_insert_same, get_key, lookup_insert_same. reflexivity.
Qed.

Lemma all_strs_map l : all_strs (map JStr l) = Some l.
Proof. induction l as [|x l IH]; cbn [map all_strs]; [reflexivity|]. rewrite IH. reflexivity. Qed.
Lemma all_str_vals_map l :
  all_str_vals (map (fun kv : string * string => (fst kv, JStr (snd kv))) l) = Some l.
Proof. induction l as [|[k v] l IH]; cbn [map all_str_vals fst snd]; [reflexivity|]. rewrite IH. reflexivity. Qed.

Lemma kf_case_dropped_false c : kf_case_dropped c = false ->
  default_parameter_case c = "camelCase" /\ default_field_case c = "snake_case".
Proof.
  unfold kf_case_dropped. intros H. apply orb_false_iff in H. destruct H as [H1 H2].
  apply negb_false_iff in H1. apply negb_false_iff in H2.
  apply String.eqb_eq in H1. apply String.eqb_eq in H2. split; assumption.
Qed.

Lemma config_of_section_typegen c : kf_case_dropped c = false ->
  config_of_section (typegen_json c) = normalise c.
Proof.
  intros Hk. apply kf_case_dropped_false in Hk. destruct Hk as [Hp Hf].
  destruct c as [pp op vl vb vd ip tm ep ipat pc fc fo]. cbn in Hp, Hf. subst pc fc.
  unfold config_of_section, normalise, typegen_json. cbn.
  f_equal.
  - destruct tm; cbn; [apply all_str_vals_map|reflexivity].
  - destruct ep; cbn; [apply all_strs_map|reflexivity].
  - destruct ipat; cbn; [apply all_strs_map|reflexivity].
Qed.

(* C19_roundtrip *)
Theorem roundtrip c doc : kf_plugins_not_object doc = false -> kf_case_dropped c = false ->
  load_doc (save_doc c doc) = Some (normalise c).
Proof.
  intros Hd Hc. unfold load_doc. rewrite (save_writes c doc Hd). rewrite (config_of_section_typegen c Hc). reflexivity.
Qed.

Lemma roundtrip_refuted_plugins : exists c doc,
  kf_plugins_not_object doc = true /\ kf_case_dropped c = false /\ load_doc (save_doc c doc) = None
  /\ save_doc c doc = doc.
Proof. exists dflt, (JObj [("plugins", JArr [])]). repeat split; reflexivity. Qed.

Lemma roundtrip_refuted_case : exists c doc,
  kf_plugins_not_object doc = false /\ kf_case_dropped c = true /\
  load_doc (save_doc c doc) <> Some (normalise c).
Proof.
  exists {| project_path := "p"; output_path := "o"; validation_library := "none"; verbose := None;
            visualize_deps := None; include_private := None; type_mappings := None; exclude_patterns := None;
            include_patterns := None; default_parameter_case := "snake_case"; default_field_case := "snake_case";
            force := None |}, (JObj []).
  repeat split; try reflexivity. cbv. discriminate.
Qed.

(* ---------------------------------------------------------------- json_eqb decides equality *)
Fixpoint json_size (j : json) : nat :=
  match j with
  | JArr l => S (fold_right (fun x a => json_size x + a) 0 l)
  | JObj kvs => S (fold_right (fun kv a => json_size (snd kv) + a) 0 kvs)
  | _ => 1
  end.

Lemma json_eqb_eq_sized n : forall a b, json_size a <= n -> json_eqb a b = true -> a = b.
Proof.
  induction n as [|n IH]; intros a b Hs He.
  - destruct a; cbn in Hs; lia.
  - destruct a as [| x | x | x | x | x]; destruct b as [| y | y | y | y | y]; try discriminate; cbn in He.
    + reflexivity.
    + apply Bool.eqb_prop in He. congruence.
    + apply String.eqb_eq in He. congruence.
    + apply String.eqb_eq in He. congruence.
    + f_equal. cbn in Hs. apply le_S_n in Hs. revert y Hs He.
      induction x as [|u r IHr]; intros y Hs He; destruct y as [|w s]; try discriminate; [reflexivity|].
      apply andb_true_iff in He. destruct He as [H1 H2]. cbn in Hs.
      f_equal; [apply IH; [lia|exact H1]|apply IHr; [lia|exact H2]].
    + f_equal. cbn in Hs. apply le_S_n in Hs. revert y Hs He.
      induction x as [|[k1 u] r IHr]; intros y Hs He; destruct y as [|[k2 w] s]; try discriminate; [reflexivity|].
      apply andb_true_iff in He. destruct He as [H1 H2]. apply andb_true_iff in H1. destruct H1 as [H0 H1].
      apply String.eqb_eq in H0. cbn in Hs.
      f_equal; [f_equal; [exact H0|apply IH; [lia|exact H1]]|apply IHr; [lia|exact H2]].
Qed.

Lemma json_eqb_eq a b : json_eqb a b = true -> a = b.
Proof. apply (json_eqb_eq_sized (json_size a)). apply le_n. Qed.

(* preservation stated from the text's reference reading to the document written *)
Theorem preserve_from_reference c dref dserde q :
  kf_number_misread dref dserde = false -> kf_root_array dserde = false -> outside_section q = true ->
  get q (save_doc c dserde) = get q dref.
Proof.
  intros Hm Hr Hq. unfold kf_number_misread in Hm. apply negb_false_iff in Hm.
  apply json_eqb_eq in Hm. subst dserde. apply preserve; assumption.
Qed.

Lemma preserve_from_reference_refuted : exists c dref dserde q,
  kf_number_misread dref dserde = true /\ kf_root_array dserde = false /\ outside_section q = true /\
  get q (save_doc c dserde) <> get q dref.
Proof.
  exists dflt, (JObj [("a", JNum "f24798.800975902122")]), (JObj [("a", JNum "f24798.80097590212")]), [PKey "a"].
  repeat split; try reflexivity. cbv. discriminate.
Qed.

(* ---------------------------------------------------------------- precedence *)
(* outside the class the search loop returns what the configuration file says *)
Lemma search_the_file f ps : kf_file_invalid_in f ps = false ->
  search f ps = match the_file f ps with
                | Some d => match load_doc d with Some c => c | None => dflt end
                | None => dflt
                end.
Proof.
  induction ps as [|p r IH]; intros Hk; [reflexivity|].
  cbn [search the_file kf_file_invalid_in] in *. unfold fs_exists, from_tauri_config.
  destruct (fs_get f p) as [[| |[d|]|o]|] eqn:Eg; try (apply IH; exact Hk).
  destruct (load_doc d) as [c|]; [|reflexivity].
  destruct (validate f c); [discriminate|reflexivity].
Qed.

Lemma load_doc_section d : load_doc d = option_map config_of_section (get P d).
Proof. unfold load_doc. destruct (get P d); reflexivity. Qed.

Definition loaded_or_default (sec : option json) : config :=
  match sec with Some tg => config_of_section tg | None => dflt end.

Lemma search_section f : kf_file_invalid f = false ->
  search f cands = loaded_or_default (file_section f cands).
Proof.
  intros Hk. unfold kf_file_invalid in Hk. rewrite (search_the_file f cands Hk).
  unfold file_section, loaded_or_default. destruct (the_file f cands) as [d|]; [|reflexivity].
  rewrite load_doc_section. destruct (get P d); reflexivity.
Qed.

(* the settings of a run, field by field, are flag over file over default *)
Lemma eff_precedence fl sec : f_verbose fl = true \/ or_else (sec_bool sec "verbose") false = false ->
  eff_of fl (apply_flags fl (loaded_or_default sec)) =
  let v := effective (flag_of (f_verbose fl)) (sec_bool sec "verbose") false in
  {| e_project := effective (f_project fl) (sec_str sec "projectPath") "./src-tauri";
     e_output := effective (f_output fl) (sec_str sec "outputPath") "./src/generated";
     e_lib := effective (f_validation fl) (sec_str sec "validationLibrary") "none";
     e_verbose := v; e_log_verbose := v;
     e_visualize := effective (flag_of (f_visualize fl)) (sec_bool sec "visualizeDeps") false;
     e_force := effective (flag_of (f_force fl)) (sec_bool sec "force") false |}.
Proof.
  intros Hv. destruct fl as [fp fo fv fvb fvz ff]. cbn [f_verbose] in Hv.
  cbv zeta.
  unfold eff_of, apply_flags, effective, flag_of, loaded_or_default, sec_str, sec_bool, or_else in *.
  cbn [f_project f_output f_validation f_verbose f_visualize f_force
       project_path output_path validation_library verbose visualize_deps force] in *.
  destruct sec as [tg|].
  - unfold config_of_section.
    cbn [project_path output_path validation_library verbose visualize_deps force dflt].
    f_equal.
    + destruct fvb; [reflexivity|]. destruct (as_bool (get [PKey "verbose"] tg)); reflexivity.
    + destruct fvb; [reflexivity|]. destruct Hv as [Hv|Hv]; [discriminate|].
      destruct (as_bool (get [PKey "verbose"] tg)) as [b|]; cbn in Hv |- *; [subst b|]; reflexivity.
    + destruct fvz; [reflexivity|]. destruct (as_bool (get [PKey "visualizeDeps"] tg)); reflexivity.
    + destruct ff; [reflexivity|]. destruct (as_bool (get [PKey "force"] tg)); reflexivity.
  - cbn. destruct fp, fo, fv, fvb, fvz, ff; reflexivity.
Qed.

(* C19_precedence *)
Theorem precedence f fl : kf_file_invalid f = false -> kf_verbose_file_only f fl = false ->
  eff_of fl (apply_flags fl (search f cands)) = spec_eff f fl.
Proof.
  intros Hk Hv. rewrite (search_section f Hk). unfold spec_eff. apply eff_precedence.
  unfold kf_verbose_file_only in Hv. apply andb_false_iff in Hv. destruct Hv as [Hv|Hv].
  - left. apply negb_false_iff in Hv. exact Hv.
  - right. exact Hv.
Qed.

(* the validity test of the run is the one of the specification *)
Lemma validate_spec f fl c : validate f c = None <-> spec_invalid f (eff_of fl c) = false.
Proof.
  unfold validate, spec_invalid, eff_of. cbn [e_lib e_project].
  destruct (lib_ok (validation_library c)); cbn; [|split; discriminate].
  destruct (fs_exists f (project_path c)); cbn; split; intros H; try reflexivity; discriminate.
Qed.

(* C19_generate_reject_first and the run case *)
Theorem generate_spec f fl : kf_file_invalid f = false -> kf_verbose_file_only f fl = false ->
  if spec_invalid f (spec_eff f fl)
  then exists e, run_generate f fl = RReject e f
  else (run_generate f fl = RNoCommands (spec_eff f fl) f /\ fs_get f (e_project (spec_eff f fl)) <> Some NProj)
       \/ exists f', run_generate f fl = RRun (spec_eff f fl) f' /\ fs_get f (e_project (spec_eff f fl)) = Some NProj
                     /\ forall p, norm p <> norm (e_output (spec_eff f fl)) -> fs_get f' p = fs_get f p.
Proof.
  intros Hk Hv. pose proof (precedence f fl Hk Hv) as Hp. unfold run_generate.
  set (c := apply_flags fl (search f cands)) in *.
  destruct (validate f c) as [e|] eqn:Ev.
  - assert (spec_invalid f (eff_of fl c) = true) as Hi.
    { destruct (spec_invalid f (eff_of fl c)) eqn:E; [reflexivity|]. apply (validate_spec f fl c) in E. congruence. }
    rewrite Hp in Hi. rewrite Hi. exists e. reflexivity.
  - apply (validate_spec f fl c) in Ev. rewrite Hp in Ev. rewrite Ev. rewrite <- Hp.
    cbn [eff_of e_project e_output].
    destruct (fs_get f (project_path c)) as [[| | |]|] eqn:Eg;
      try (left; split; [reflexivity|discriminate]).
    right. eexists. split; [reflexivity|]. split; [reflexivity|].
    intros p Hn. unfold fs_get, fs_put. apply lookup_insert_other. exact Hn.
Qed.

Lemma precedence_refuted_file : exists f fl,
  kf_file_invalid f = true /\ spec_invalid f (spec_eff f fl) = true /\
  exists e f', run_generate f fl = RRun e f' /\ e_output e = "./src/generated".
Proof.
  exists [("src-tauri", NProj);
          ("tauri.conf.json", NDoc (Some (JObj [("plugins", JObj [("typegen",
             JObj [("validationLibrary", JStr "yup"); ("outputPath", JStr "./outF")])])])))],
         {| f_project := None; f_output := None; f_validation := None; f_verbose := false;
            f_visualize := false; f_force := false |}.
  split; [reflexivity|]. split; [reflexivity|]. eexists. eexists. split; reflexivity.
Qed.

Lemma precedence_refuted_verbose : exists f fl,
  kf_file_invalid f = false /\ kf_verbose_file_only f fl = true /\
  e_verbose (eff_of fl (apply_flags fl (search f cands))) = true /\
  e_log_verbose (eff_of fl (apply_flags fl (search f cands))) = false /\
  e_log_verbose (spec_eff f fl) = true.
Proof.
  exists [("src-tauri", NProj);
          ("tauri.conf.json", NDoc (Some (JObj [("plugins", JObj [("typegen", JObj [("verbose", JBool true)])])])))],
         {| f_project := None; f_output := None; f_validation := None; f_verbose := false;
            f_visualize := false; f_force := false |}.
  repeat split; reflexivity.
Qed.

(* ---------------------------------------------------------------- init *)
(* C19_init_reject_first: outside the class a refused init leaves every file alone *)
Theorem init_reject_first f il : init_invalid f il = true -> kf_init_writes_first f il = false ->
  run_init f il = RFail f.
Proof.
  intros Hi Hk. unfold kf_init_writes_first in Hk. rewrite Hi in Hk. cbn in Hk. unfold run_init.
  destruct (fs_get f (init_target il)) as [[| |[d|]|o]|]; try reflexivity. discriminate.
Qed.

Lemma init_reject_first_refuted : exists f il e f',
  init_invalid f il = true /\ kf_init_writes_first f il = true /\
  run_init f il = RReject e f' /\ f' <> f /\
  fs_get f' (init_target il) = Some (NDoc (Some (save_doc (init_config il) (JObj [("a", JNum "1")])))).
Proof.
  exists [("src-tauri", NProj); ("src-tauri/tauri.conf.json", NDoc (Some (JObj [("a", JNum "1")])))],
         {| i_project := None; i_generated := None; i_output := None; i_validation := Some "foo";
            i_verbose := false; i_visualize := false |}.
  eexists. eexists. split; [reflexivity|]. split; [reflexivity|]. split; [reflexivity|].
  split; [discriminate|reflexivity].
Qed.

(* what init does to its target when the document is readable: exactly save_doc, so
   preserve and roundtrip apply to the document left behind *)
Definition result_fs (r : result) : fs :=
  match r with RReject _ f | RFail f | RNoCommands _ f | RRun _ f => f end.

Lemma fs_get_put_same f p n : fs_get (fs_put f p n) p = Some n.
Proof. unfold fs_get, fs_put. apply lookup_insert_same. Qed.
Lemma fs_get_put_other f p p' n : norm p' <> norm p -> fs_get (fs_put f p n) p' = fs_get f p'.
Proof. intros H. unfold fs_get, fs_put. apply lookup_insert_other. exact H. Qed.

Theorem init_document f il d :
  fs_get f (init_target il) = Some (NDoc (Some d)) ->
  norm (init_generated il) <> norm (init_target il) ->
  fs_get (result_fs (run_init f il)) (init_target il) = Some (NDoc (Some (save_doc (init_config il) d))).
Proof.
  intros Hg Hn. unfold run_init. rewrite Hg.
  set (f1 := fs_put f (init_target il) (NDoc (Some (save_doc (init_config il) d)))).
  assert (fs_get f1 (init_target il) = Some (NDoc (Some (save_doc (init_config il) d)))) as H1
    by apply fs_get_put_same.
  unfold run_generate.
  set (c := apply_flags (init_flags il) (search f1 cands)).
  assert (output_path c = init_generated il) as Ho by reflexivity.
  destruct (validate f1 c); [exact H1|].
  destruct (fs_get f1 (project_path c)) as [[| | |]|]; try exact H1.
  cbn [result_fs]. rewrite Ho. rewrite fs_get_put_other; [exact H1|]. intros E. apply Hn. symmetry. exact E.
Qed.

(* the boolean oracles accept what the model itself produces outside the classes
   (ties the run-time oracles to the theorems) *)
Lemma config_eqb_refl c : config_eqb c c = true.
Proof.
  assert (forall l, strs_eqb l l = true) as Hs.
  { induction l as [|x l IH]; [reflexivity|]. cbn. rewrite String.eqb_refl, IH. reflexivity. }
  assert (forall l, pairs_eqb l l = true) as Hp.
  { induction l as [|[k v] l IH]; [reflexivity|]. cbn. rewrite !String.eqb_refl, IH. reflexivity. }
  assert (forall o, obool_eqb o o = true) as Hb by (intros [[|]|]; reflexivity).
  destruct c as [pp op vl vb vd ip tm ep ipat pc fc fo]. unfold config_eqb. cbn.
  rewrite !String.eqb_refl, !Hb. cbn.
  destruct tm as [tm|]; cbn; [rewrite Hp|]; destruct ep as [ep|]; cbn; [rewrite Hs| |rewrite Hs|];
    destruct ipat as [ipat|]; cbn; try rewrite Hs; reflexivity.
Qed.

Theorem oracle_roundtrip_model c doc : kf_plugins_not_object doc = false -> kf_case_dropped c = false ->
  roundtrip_b c (load_doc (save_doc c doc)) = true.
Proof. intros Hd Hc. rewrite (roundtrip c doc Hd Hc). apply config_eqb_refl. Qed.
