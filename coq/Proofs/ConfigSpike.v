From Coq Require Import String Ascii.
From Coq Require Import List Arith Lia Bool.
Import ListNotations.
Local Open Scope string_scope.

(* serde_json::Value; numbers are opaque (u64 / i64 / f64 as serde_json stores them) *)
Section Json.
Variable num : Type.

Inductive json :=
| JNull | JBool (b : bool) | JNum (n : num) | JStr (s : string)
| JArr (l : list json) | JObj (kvs : list (string * json)).

Fixpoint lookup (k : string) (kvs : list (string * json)) : option json :=
  match kvs with [] => None | (k', v) :: r => if String.eqb k k' then Some v else lookup k r end.
(* Map::insert: replace the value of an existing key, otherwise add the key *)
Fixpoint insert (k : string) (v : json) (kvs : list (string * json)) : list (string * json) :=
  match kvs with
  | [] => [(k, v)]
  | (k', v') :: r => if String.eqb k k' then (k, v) :: r else (k', v') :: insert k v r
  end.

Fixpoint get (q : list string) (j : json) : option json :=
  match q with
  | [] => Some j
  | k :: q' => match j with JObj kvs => match lookup k kvs with Some v => get q' v | None => None end | _ => None end
  end.

Lemma get_cons k q kvs : get (k :: q) (JObj kvs) = match lookup k kvs with Some v => get q v | None => None end.
Proof. reflexivity. Qed.

Lemma lookup_insert_same k v kvs : lookup k (insert k v kvs) = Some v.
Proof. induction kvs as [|[k' v'] r IH]; simpl. rewrite String.eqb_refl; auto.
  destruct (String.eqb k k') eqn:E; simpl. rewrite String.eqb_refl; auto. rewrite E; auto. Qed.
Lemma lookup_insert_other k k2 v kvs : k2 <> k -> lookup k2 (insert k v kvs) = lookup k2 kvs.
Proof. intros Hn. induction kvs as [|[k' v'] r IH]; simpl.
  - destruct (String.eqb_spec k2 k); congruence.
  - destruct (String.eqb_spec k k'); simpl.
    + subst. destruct (String.eqb_spec k2 k'); congruence.
    + destruct (String.eqb_spec k2 k'); auto. Qed.

(* ---- the settings written by save_to_tauri_config ---- *)
Record config := {
  project_path : string; output_path : string; validation_library : string;
  verbose : option bool; visualize_deps : option bool; include_private : option bool;
  type_mappings : option (list (string * string));
  exclude_patterns : option (list string); include_patterns : option (list string);
  force : option bool
}.
Definition ob (o : option bool) : json := JBool (match o with Some b => b | None => false end).
Definition ostrs (o : option (list string)) : json :=
  match o with Some l => JArr (map JStr l) | None => JNull end.
Definition omap (o : option (list (string * string))) : json :=
  match o with Some l => JObj (map (fun kv => (fst kv, JStr (snd kv))) l) | None => JNull end.

Definition typegen_json (c : config) : json := JObj [
  ("projectPath", JStr (project_path c)); ("outputPath", JStr (output_path c));
  ("validationLibrary", JStr (validation_library c));
  ("verbose", ob (verbose c)); ("visualizeDeps", ob (visualize_deps c));
  ("includePrivate", ob (include_private c)); ("typeMappings", omap (type_mappings c));
  ("excludePatterns", ostrs (exclude_patterns c)); ("includePatterns", ostrs (include_patterns c));
  ("force", ob (force c)) ].

(* config.rs save_to_tauri_config, on the parsed document *)
Definition save (c : config) (doc : json) : json :=
  let root := match doc with JObj kvs => kvs | _ => [] end in          (* non-object root is replaced by {} *)
  let root := match lookup "plugins" root with Some _ => root | None => insert "plugins" (JObj []) root end in
  match lookup "plugins" root with
  | Some (JObj p) => JObj (insert "plugins" (JObj (insert "typegen" (typegen_json c) p)) root)
  | _ => JObj root                                                    (* plugins is not an object: nothing inserted *)
  end.

Definition wf_doc (doc : json) : Prop :=
  exists kvs, doc = JObj kvs /\ match lookup "plugins" kvs with Some (JObj _) | None => True | Some _ => False end.

Definition P : list string := ["plugins"; "typegen"].
Fixpoint is_prefix (a b : list string) : bool :=
  match a, b with [], _ => true | x :: a', y :: b' => String.eqb x y && is_prefix a' b' | _, _ => false end.

(* C19_preserve: every path that neither leads to nor passes through plugins.typegen keeps its value *)
Theorem preserve c doc q : wf_doc doc -> is_prefix q P = false -> is_prefix P q = false ->
  get q (save c doc) = get q doc.
Proof.
  intros (kvs & -> & Hp) Hq1 Hq2. unfold save.
  destruct q as [|k q]; [discriminate|].
  destruct (lookup "plugins" kvs) as [pl|] eqn:El.
  - destruct pl; try contradiction. rewrite El. rewrite !get_cons.
    destruct (String.eqb_spec k "plugins") as [->|Hk].
    + rewrite lookup_insert_same, El.
      destruct q as [|k2 q]; [discriminate|]. rewrite !get_cons.
      destruct (String.eqb_spec k2 "typegen") as [->|Hk2]; [simpl in Hq2; discriminate|].
      rewrite lookup_insert_other by auto. reflexivity.
    + rewrite lookup_insert_other by auto. reflexivity.
  - rewrite lookup_insert_same. rewrite !get_cons.
    destruct (String.eqb_spec k "plugins") as [->|Hk].
    + rewrite lookup_insert_same, El.
      destruct q as [|k2 q]; [discriminate|]. rewrite get_cons.
      destruct (String.eqb_spec k2 "typegen") as [->|Hk2]; [simpl in Hq2; discriminate|].
      rewrite lookup_insert_other by auto. reflexivity.
    + rewrite !lookup_insert_other by auto. reflexivity.
Qed.

Theorem save_writes c doc : wf_doc doc -> get P (save c doc) = Some (typegen_json c).
Proof. intros (kvs & -> & Hp). unfold save, P.
  destruct (lookup "plugins" kvs) as [pl|] eqn:El.
  - destruct pl; try contradiction. rewrite El. rewrite !get_cons. rewrite lookup_insert_same. rewrite get_cons. rewrite lookup_insert_same. reflexivity.
  - rewrite lookup_insert_same. rewrite !get_cons. rewrite lookup_insert_same. rewrite get_cons. rewrite lookup_insert_same. reflexivity.
Qed.

(* config.rs from_tauri_config (before validate) *)
Definition as_str (j : option json) : option string := match j with Some (JStr s) => Some s | _ => None end.
Definition as_bool (j : option json) : option bool := match j with Some (JBool b) => Some b | _ => None end.
Fixpoint all_strs (l : list json) : option (list string) :=
  match l with [] => Some [] | JStr s :: r => option_map (cons s) (all_strs r) | _ => None end.
Fixpoint all_str_vals (l : list (string * json)) : option (list (string * string)) :=
  match l with [] => Some [] | (k, JStr s) :: r => option_map (cons (k, s)) (all_str_vals r) | _ => None end.
Definition dflt : config := {| project_path := "./src-tauri"; output_path := "./src/generated";
  validation_library := "none"; verbose := Some false; visualize_deps := Some false;
  include_private := Some false; type_mappings := None; exclude_patterns := None;
  include_patterns := None; force := Some false |}.
Definition or_else {A} (o : option A) (d : A) := match o with Some x => x | None => d end.
Definition load (doc : json) : option config :=
  match get P doc with
  | Some tg =>
      let f k := get [k] tg in
      Some {| project_path := or_else (as_str (f "projectPath")) (project_path dflt);
              output_path := or_else (as_str (f "outputPath")) (output_path dflt);
              validation_library := or_else (as_str (f "validationLibrary")) (validation_library dflt);
              verbose := match as_bool (f "verbose") with Some b => Some b | None => verbose dflt end;
              visualize_deps := match as_bool (f "visualizeDeps") with Some b => Some b | None => visualize_deps dflt end;
              include_private := match as_bool (f "includePrivate") with Some b => Some b | None => include_private dflt end;
              type_mappings := match f "typeMappings" with Some (JObj l) => all_str_vals l | _ => None end;
              exclude_patterns := match f "excludePatterns" with Some (JArr l) => all_strs l | _ => None end;
              include_patterns := match f "includePatterns" with Some (JArr l) => all_strs l | _ => None end;
              force := match as_bool (f "force") with Some b => Some b | None => force dflt end |}
  | None => None
  end.

Definition nb (o : option bool) : option bool := Some (match o with Some b => b | None => false end).
Definition normalise (c : config) : config :=
  {| project_path := project_path c; output_path := output_path c; validation_library := validation_library c;
     verbose := nb (verbose c); visualize_deps := nb (visualize_deps c); include_private := nb (include_private c);
     type_mappings := type_mappings c; exclude_patterns := exclude_patterns c; include_patterns := include_patterns c;
     force := nb (force c) |}.

Lemma all_strs_map l : all_strs (map JStr l) = Some l.
Proof. induction l; simpl; auto. rewrite IHl; auto. Qed.
Lemma all_str_vals_map l : all_str_vals (map (fun kv : string * string => (fst kv, JStr (snd kv))) l) = Some l.
Proof. induction l as [|[k v] l IH]; simpl; auto. rewrite IH; auto. Qed.

(* C19_roundtrip (settings level; validation is applied afterwards by both sides) *)
Theorem roundtrip c doc : wf_doc doc -> load (save c doc) = Some (normalise c).
Proof. intros Hw. unfold load. rewrite (save_writes c doc Hw). unfold normalise, typegen_json. simpl.
  f_equal. destruct c as [pp op vl vb vd ip tm ep ipat fo]; simpl. f_equal.
  - destruct tm; simpl; auto. apply all_str_vals_map.
  - destruct ep; simpl; auto. apply all_strs_map.
  - destruct ipat; simpl; auto. apply all_strs_map.
Qed.

(* outside wf_doc the claim fails: plugins is an array *)
Example not_wf_refuted c : get P (save c (JObj [("plugins", JArr [])])) = None.
Proof. reflexivity. Qed.
End Json.

(* C19_precedence: flag over file over default, per setting *)
Definition effective {A} (flag file : option A) (default : A) : A :=
  match flag with Some x => x | None => match file with Some y => y | None => default end end.
(* run_generate: start from the loaded config (file or defaults), then `if let Some(..)` overrides *)
Definition run_generate_setting {A} (flag file : option A) (default : A) : A :=
  let cfg := match file with Some y => y | None => default end in
  match flag with Some x => x | None => cfg end.
Lemma precedence {A} (flag file : option A) d : run_generate_setting flag file d = effective flag file d.
Proof. destruct flag, file; reflexivity. Qed.
(* boolean flags can only be given as "true" *)
Definition run_generate_bool (flag : bool) (file : option bool) : bool :=
  let cfg := match file with Some y => y | None => false end in if flag then true else cfg.
Lemma precedence_bool flag file : run_generate_bool flag file = (flag || match file with Some y => y | None => false end)%bool.
Proof. destruct flag; reflexivity. Qed.

