(* C10 deepening: the tag oracle of one comparison is exact with respect to the three specification
   predicates (shape agreement, JSON-serialisability, structural acceptance). *)
From Coq Require Import String Ascii.
From Coq Require Import List Arith Lia Bool.
Require Import TT.Model.Str TT.Spec.TsLex TT.Spec.TsModule TT.Spec.TsObs TT.Spec.C10Shape.
Import ListNotations.
Local Open Scope list_scope.

Lemma add_tag_nonempty t l : l <> [] -> add_tag t l <> [].
Proof. intros H. destruct t; cbn [add_tag]; (match goal with |- context [existsb ?g l] => destruct (existsb g l) end; [exact H|]; destruct l; [congruence|discriminate]). Qed.
Lemma add_tags_nonempty ts : forall l, l <> [] -> add_tags ts l <> [].
Proof. unfold add_tags. induction ts as [|a r IH]; intros l H; [exact H|]. cbn [fold_left]. apply IH. apply add_tag_nonempty. exact H. Qed.
Lemma add_tags_nil ts : add_tags ts [] = [] <-> ts = [].
Proof.
  split; [|intros ->; reflexivity]. destruct ts as [|a r]; [reflexivity|]. intros H. exfalso.
  unfold add_tags in H. cbn [fold_left] in H. revert H. apply (add_tags_nonempty r). destruct a; discriminate.
Qed.

Definition accepts (z t : shape) : Prop :=
  existsb (reject_eqb RejNull) (rejects z t) = false /\ existsb (reject_eqb RejOmitted) (rejects z t) = false.

(* no finding for a key  <->  the shapes agree and, for a parameter schema, every node is a JSON value
   and neither an explicit null nor an omitted optional key of the declared type is refused *)
Lemma compare_shapes_exact param z t :
  compare_shapes param z t = [] <->
  shape_agree z t = true /\ (param = true -> nonjson z = [] /\ accepts z t).
Proof.
  unfold compare_shapes, accepts. rewrite add_tags_nil.
  destruct (shape_agree z t); destruct param; destruct (has_set z); destruct (has_result_union z); destruct (has_null_array t);
    destruct (nonjson z); destruct (existsb (reject_eqb RejNull) (rejects z t)); destruct (existsb (reject_eqb RejOmitted) (rejects z t));
    cbn; split; intros H; try discriminate; try reflexivity; try (destruct H as [H1 H2]; try discriminate; destruct (H2 eq_refl) as [H3 [H4 H5]]; discriminate);
    try (split; [reflexivity|intros _; repeat split; reflexivity]); try (split; [reflexivity|intros; discriminate]).
Qed.
