(* C01: lexing of name / key / literal holes at text level, in front of every admissible continuation, and the
   chain rule that reduces  lexed cs = toks_of cs  (C01_lex_compositional_full_statement) to one fact per chunk
   plus one adjacency condition per chunk boundary. Built on Proofs/LexFacts.v. *)
From Coq Require Import String Ascii.
From Coq Require Import List Arith Bool Lia.
Require Import TT.Model.Str TT.Model.TypeParse TT.Model.Pipeline.
Require Import TT.Spec.TsLex TT.Spec.TsModule TT.Spec.TsObs TT.Spec.C01Wf TT.Model.C01Emit.
Require Import TT.Proofs.LexFacts TT.Proofs.C01Holes TT.Proofs.C01Skeleton TT.Proofs.C01TypeHole TT.Proofs.C01Lex.
Import ListNotations.
Local Open Scope list_scope.
Local Open Scope char_scope.

Definition is_quote (q : ascii) : Prop := q = """" \/ q = "'".

(* ---------------------------------------------------------------- literal holes: every well-formed body *)
Lemma hex_plain q h r : is_quote q -> is_hex h = true -> str_body_ok q (h :: r) = str_body_ok q r.
Proof. intros Hq Hh. destruct h as [[] [] [] [] [] [] [] []]; vm_compute in Hh; try discriminate; destruct Hq as [-> | ->]; reflexivity. Qed.

Lemma sbo_escape q e r' : is_quote q ->
  str_body_ok q ("\" :: e :: r') =
  (if Ascii.eqb e "x" then match r' with h1 :: h2 :: r'' => is_hex h1 && is_hex h2 && str_body_ok q r'' | _ => false end
   else if Ascii.eqb e "u" then
     match r' with
     | h1 :: h2 :: h3 :: h4 :: r'' =>
         if Ascii.eqb h1 "{" then str_body_ok q r' else is_hex h1 && is_hex h2 && is_hex h3 && is_hex h4 && str_body_ok q r''
     | _ => false end
   else if is_digit e then (n_of e =? 48)%nat && (match r' with d :: _ => negb (is_digit d) | [] => true end) && str_body_ok q r'
   else if is_line_term e then false else str_body_ok q r').
Proof. intros [-> | ->]; reflexivity. Qed.

(* whatever the escape is, the text after the backslash and the escaped character is again a well-formed body *)
Lemma body_after_escape q e r : is_quote q -> str_body_ok q ("\" :: e :: r) = true -> str_body_ok q r = true.
Proof. intros Hq H. rewrite (sbo_escape q e r Hq) in H.
  destruct (Ascii.eqb e "x").
  { destruct r as [|h1 [|h2 r'']]; try discriminate. apply andb_true_iff in H as [H H3]. apply andb_true_iff in H as [H1 H2].
    rewrite (hex_plain q h1 _ Hq H1), (hex_plain q h2 _ Hq H2). exact H3. }
  destruct (Ascii.eqb e "u").
  { destruct r as [|h1 [|h2 [|h3 [|h4 r'']]]]; try discriminate. destruct (Ascii.eqb h1 "{"); [exact H|].
    apply andb_true_iff in H as [H H5]. apply andb_true_iff in H as [H H4]. apply andb_true_iff in H as [H H3]. apply andb_true_iff in H as [H1 H2].
    rewrite (hex_plain q h1 _ Hq H1), (hex_plain q h2 _ Hq H2), (hex_plain q h3 _ Hq H3), (hex_plain q h4 _ Hq H4). exact H5. }
  destruct (is_digit e).
  { apply andb_true_iff in H as [_ H]. exact H. }
  destruct (is_line_term e); [discriminate|exact H]. Qed.

Lemma scan_str_body q : is_quote q -> forall n b acc r, List.length b <= n -> str_body_ok q b = true ->
  scan_str q (b ++ q :: r) acc = Some (rev acc ++ b, r).
Proof. intros Hq. induction n as [|n IH]; intros b acc r Hn Hb.
  - destruct b; [|cbn in Hn; lia]. cbn [app scan_str]. rewrite Ascii.eqb_refl, app_nil_r. reflexivity.
  - destruct b as [|c b']; [cbn [app scan_str]; rewrite Ascii.eqb_refl, app_nil_r; reflexivity|].
    pose proof Hb as Hb0. cbn [str_body_ok] in Hb.
    destruct (is_line_term c) eqn:El; [discriminate|]. destruct (Ascii.eqb c q) eqn:Eq; [discriminate|].
    assert ((n_of c =? 10)%nat = false) as E10.
    { unfold is_line_term in El. apply orb_false_iff in El as [E _]. exact E. }
    cbn [app scan_str]. rewrite Eq, E10.
    destruct (Ascii.eqb c "\") eqn:Eb.
    + apply Ascii.eqb_eq in Eb. subst c. destruct b' as [|e r']; [discriminate|]. cbn [app].
      rewrite IH; [cbn [rev]; rewrite <- !app_assoc; reflexivity|cbn [List.length] in Hn; lia|].
      apply (body_after_escape q e r' Hq Hb0).
    + rewrite IH; [cbn [rev]; rewrite <- app_assoc; reflexivity|cbn [List.length] in Hn; lia|exact Hb]. Qed.

Lemma lex_str_body q b r f : is_quote q -> str_body_ok q b = true ->
  lexm (S f) (q :: b ++ q :: r) = KStr q b :: lexm f r.
Proof. intros Hq Hb. pose proof (scan_str_body q Hq (List.length b) b [] r (le_n _) Hb) as E. cbn [rev app] in E.
  destruct Hq as [-> | ->]; cbn [lexm]; rewrite E; reflexivity. Qed.

(* a literal hole: quote, body, quote - whatever follows *)
Theorem lexes_str_body (P : str -> Prop) q b : is_quote q -> str_body_ok q b = true -> lexes P (q :: b ++ [q]) [KStr q b].
Proof.
  intros Hq Hb r f _ Hf. destruct f as [|f]; [lia|]. exists f. split.
  - cbn [app List.length] in Hf. rewrite !app_length in Hf. cbn [List.length] in Hf. lia.
  - cbn [app]. rewrite <- app_assoc. cbn [app]. rewrite lex_str_body by assumption. reflexivity.
Qed.

(* ---------------------------------------------------------------- name and key holes *)
Lemma ident_name_ident s : is_ident_name s = true -> ident s = true.
Proof. unfold is_ident_name. intros H. apply andb_true_iff in H as [H _]. exact H. Qed.
Theorem lexes_name (P : str -> Prop) s : is_ident_name s = true -> (forall r, P r -> bnd r) -> lexes P s [KId s].
Proof. intros H Hb. apply lexes_ident; [apply ident_name_ident; exact H|exact Hb]. Qed.

(* the hole classes of this file and the single token each one lexes to *)
Definition hole_tok (h : hclass) (s : str) : tk := match h with HStr q => KStr q s | _ => KId s end.
Definition name_class (h : hclass) (s : str) : Prop :=
  match h with
  | HFn | HTyName => True
  | HKey => is_ident_name s = true            (* numeric keys: never printed bare by the model (key_chunk quotes them) *)
  | HStr q => is_quote q
  | HType | HZ => False
  end.
(* C01_lex for name / key / literal holes: the lexer turns the chunk text of a good hole into its one token in front of
   every continuation that does not start with an identifier character (literal holes: every continuation) *)
Theorem hole_lexes h s : name_class h s -> hole_ok h s = true -> lexes bnd (chunk_text (Hole h s)) [hole_tok h s].
Proof. destruct h as [| | | |q|]; cbn [name_class hole_ok chunk_text hole_tok]; intros Hc Hok; try contradiction.
  - apply lexes_name; [|auto]. unfold is_binding_name in Hok. apply andb_true_iff in Hok as [Hok _]. apply andb_true_iff in Hok as [Hok _].
    apply andb_true_iff in Hok as [Hok _]. exact Hok.
  - apply lexes_name; [|auto]. unfold is_binding_name in Hok. apply andb_true_iff in Hok as [Hok _]. apply andb_true_iff in Hok as [Hok _].
    apply andb_true_iff in Hok as [Hok _]. exact Hok.
  - apply lexes_name; [exact Hc|auto].
  - apply lexes_str_body; assumption. Qed.
(* a literal hole does not even need the boundary condition *)
Theorem str_hole_lexes (P : str -> Prop) q b : is_quote q -> hole_ok (HStr q) b = true -> lexes P (chunk_text (Hole (HStr q) b)) [KStr q b].
Proof. intros Hq Hb. apply lexes_str_body; assumption. Qed.
(* on its own the chunk lexes to that token: chunk_lex of the chunk model *)
Theorem hole_chunk_lex h s : name_class h s -> hole_ok h s = true -> chunk_lex (Hole h s) = [hole_tok h s].
Proof. intros Hc Hok. unfold chunk_lex. apply (lexes_module bnd); [apply hole_lexes; assumption|exact Logic.I]. Qed.
(* type holes (C01Lex.lexes_render) in the same form *)
Theorem type_hole_chunk_lexes g t : leaves_ok g t = true ->
  lexes Pc (chunk_text (Hole HType (render_m g t))) (chunk_lex (Hole HType (render_m g t))).
Proof. intros Hl. unfold chunk_lex. cbn [chunk_text]. rewrite (lex_render_alone g t Hl). apply lexes_render. exact Hl. Qed.

(* ---------------------------------------------------------------- the chain rule *)
(* every chunk lexes to its own tokens in front of the continuations of some class that contains the text of the
   chunks after it: then lexing the concatenation is lexing chunk by chunk *)
Fixpoint chain (cs : list chunk) : Prop :=
  match cs with
  | [] => True
  | c :: r => (exists P : str -> Prop, lexes P (chunk_text c) (chunk_lex c) /\ P (text r)) /\ chain r
  end.
Lemma text_cons c r : text (c :: r) = chunk_text c ++ text r.
Proof. reflexivity. Qed.
Lemma toks_of_cons c r : toks_of (c :: r) = chunk_lex c ++ toks_of r.
Proof. reflexivity. Qed.
Lemma chain_lexes cs : chain cs -> lexes (fun r => r = []) (text cs) (toks_of cs).
Proof. induction cs as [|c r IH]; intros H.
  - apply lexes_nil.
  - destruct H as [[P [Hc Hp]] Hr]. rewrite text_cons, toks_of_cons.
    apply (lexes_app P (fun r => r = [])); [exact Hc|apply IH; exact Hr|]. intros r' ->. rewrite app_nil_r. exact Hp. Qed.
Theorem lex_compositional_chain cs : chain cs -> lexed cs = toks_of cs.
Proof. intros H. unfold lexed. apply (lexes_module (fun r => r = [])); [apply chain_lexes; exact H|reflexivity]. Qed.

(* the chain condition for a good name / key / literal hole: the text after it must not start with an identifier character *)
Lemma chain_hole h s r : name_class h s -> hole_ok h s = true -> bnd (text r) -> chain r -> chain (Hole h s :: r).
Proof. intros Hc Hok Hb Hr. split; [|exact Hr]. exists bnd. split; [|exact Hb]. rewrite (hole_chunk_lex h s Hc Hok). apply hole_lexes; assumption. Qed.
Lemma chain_type_hole g t r : leaves_ok g t = true -> Pc (text r) -> chain r -> chain (Hole HType (render_m g t) :: r).
Proof. intros Hl Hp Hr. split; [|exact Hr]. exists Pc. split; [apply type_hole_chunk_lexes; exact Hl|exact Hp]. Qed.
(* fixed text of one punctuation character *)
Lemma chain_single c r : single c = true -> chain r -> chain (Fixed [c] :: r).
Proof. intros Hs Hr. split; [|exact Hr]. exists (fun _ => True). split; [|exact Logic.I].
  assert (chunk_lex (Fixed [c]) = [KP [c]]) as E.
  { unfold chunk_lex. cbn [chunk_text]. apply (lexes_module (fun _ => True)); [apply lexes_single; exact Hs|exact Logic.I]. }
  rewrite E. apply lexes_single. exact Hs. Qed.
Lemma chain_space r : chain r -> chain (Fixed [" "] :: r).
Proof. intros Hr. split; [|exact Hr]. exists (fun _ => True). split; [|exact Logic.I]. apply (lexes_space (fun _ => True)). Qed.

(* a member line  key: type;  of the interface template with a quoted key, for EVERY key text and every type with
   identifier leaves: lexing the line is lexing its chunks (the quoted key goes through escape_js) *)
Theorem member_line_compositional g k t : leaves_ok g t = true ->
  let cs := [Hole (HStr DQ) (escape_js k); Fixed [":"]; Fixed [" "]; Hole HType (render_m g t); Fixed [";"]] in
  lexed cs = toks_of cs.
Proof. intros Hl cs. apply lex_compositional_chain. unfold cs.
  apply chain_hole; [left; reflexivity|exact (str_hole_message k)|exact (eq_refl : is_id_char ":" = false)|].
  apply chain_single; [reflexivity|]. apply chain_space.
  apply chain_type_hole; [exact Hl|apply Pc_cons; [reflexivity|discriminate]|].
  apply chain_single; [reflexivity|]. exact Logic.I. Qed.

Lemma chain_example :
  let cs := [Hole HKey (L "userId"); Fixed [":"]; Fixed [" "]; Hole (HStr DQ) (L "a\""b\x41"); Fixed [";"]] in
  chain cs /\ lexed cs = [KId (L "userId"); P ":"; KStr DQ (L "a\""b\x41"); P ";"].
Proof. intros cs. assert (chain cs) as H.
  { unfold cs. apply chain_hole; [reflexivity|reflexivity|exact (eq_refl : is_id_char ":" = false)|].
    apply chain_single; [reflexivity|]. apply chain_space.
    apply chain_hole; [left; reflexivity|reflexivity|exact (eq_refl : is_id_char ";" = false)|].
    apply chain_single; [reflexivity|]. exact Logic.I. }
  split; [exact H|]. rewrite (lex_compositional_chain cs H). vm_compute. reflexivity. Qed.

(* ---------------------------------------------------------------- numeric bare keys *)
Lemma span_split (p : ascii -> bool) : forall s a b, span p s = (a, b) -> s = a ++ b /\ forallb p a = true.
Proof. induction s as [|c r IH]; intros a b H; cbn [span] in H.
  - injection H as <- <-. split; reflexivity.
  - destruct (p c) eqn:E.
    + destruct (span p r) as [a' b'] eqn:Es. injection H as <- <-. destruct (IH a' b' eq_refl) as [-> Hf]. split; [reflexivity|]. cbn [forallb]. rewrite E, Hf. reflexivity.
    + injection H as <- <-. split; reflexivity. Qed.
Lemma digit_num c : is_digit c = true -> is_num_char c = true.
Proof. intros H. unfold is_num_char, is_id_char. rewrite H. rewrite orb_true_r. reflexivity. Qed.
Lemma digits_num s : forallb is_digit s = true -> forallb is_num_char s = true.
Proof. induction s as [|c r IH]; [reflexivity|]. cbn [forallb]. intros H. apply andb_true_iff in H as [Hc Hr]. rewrite (digit_num c Hc), (IH Hr). reflexivity. Qed.
Lemma all_digits_forallb s : all_digits s = true -> forallb is_digit s = true.
Proof. induction s as [|c r IH]; [reflexivity|]. cbn [all_digits forallb]. intros H. apply andb_true_iff in H as [Hc Hr]. rewrite Hc, (IH Hr). reflexivity. Qed.
(* the tail of a number after the integer part: [. digits] [e digits] *)
Definition num_tail_ok (r : str) : bool :=
  let r1 := match r with
            | c :: r' => if Ascii.eqb c "." then let '(fp, r'') := span is_digit r' in (match fp with [] => None | _ => Some r'' end) else Some r
            | [] => Some r end in
  match r1 with
  | None => false
  | Some [] => true
  | Some (e :: ex) => (Ascii.eqb e "e" || Ascii.eqb e "E") && (match ex with [] => false | _ => all_digits ex end)
  end.
Lemma exp_num e ex : (Ascii.eqb e "e" || Ascii.eqb e "E") && (match ex with [] => false | _ => all_digits ex end) = true -> forallb is_num_char (e :: ex) = true.
Proof. intros H. apply andb_true_iff in H as [He Hx]. cbn [forallb].
  assert (is_num_char e = true) as E1 by (apply orb_true_iff in He as [He|He]; apply Ascii.eqb_eq in He; subst e; reflexivity).
  rewrite E1. destruct ex; [discriminate|]. apply digits_num, all_digits_forallb. exact Hx. Qed.
Lemma num_tail_chars r : num_tail_ok r = true -> forallb is_num_char r = true.
Proof. unfold num_tail_ok. destruct r as [|c r']; [reflexivity|]. destruct (Ascii.eqb c ".") eqn:Ed.
  - apply Ascii.eqb_eq in Ed. subst c. destruct (span is_digit r') as [fp r''] eqn:Es. destruct (span_split _ _ _ _ Es) as [-> Hf].
    destruct fp as [|d fp']; [discriminate|]. intros H. cbn [forallb]. change (is_num_char ".") with true. cbn [andb].
    rewrite forallb_app, (digits_num _ Hf). destruct r'' as [|e ex]; [reflexivity|]. rewrite (exp_num e ex H). reflexivity.
  - intros H. apply (exp_num c r' H). Qed.
Lemma num_ok_chars s : num_ok s = true -> exists c r, s = c :: r /\ is_digit c = true /\ forallb is_num_char s = true.
Proof. unfold num_ok. destruct (span is_digit s) as [ip r] eqn:Es. destruct (span_split _ _ _ _ Es) as [-> Hf].
  destruct ip as [|d ip']; [discriminate|]. intros H. exists d, (ip' ++ r). split; [reflexivity|].
  cbn [forallb] in Hf. apply andb_true_iff in Hf as [Hd Hip]. split; [exact Hd|].
  assert (num_tail_ok r = true) as Ht.
  { destruct ip' as [|d2 ip'']; [exact H|]. destruct (Ascii.eqb d "0"); [discriminate|exact H]. }
  change ((d :: ip') ++ r) with (d :: ip' ++ r). cbn [forallb]. rewrite (digit_num d Hd), forallb_app, (digits_num _ Hip), (num_tail_chars r Ht). reflexivity. Qed.

Definition num_bnd (r : str) : Prop := match r with [] => True | c :: _ => is_num_char c = false end.
Lemma span_num n r : forallb is_num_char n = true -> num_bnd r -> span is_num_char (n ++ r) = (n, r).
Proof. intros Hn Hr. induction n as [|c n' IH].
  - cbn [app]. destruct r as [|d r']; [reflexivity|]. cbn [span num_bnd] in *. rewrite Hr. reflexivity.
  - cbn [forallb] in Hn. apply andb_true_iff in Hn as [Hc Hn']. cbn [app span]. rewrite Hc, (IH Hn'). reflexivity. Qed.
Lemma digit_facts c : is_digit c = true -> is_ws c = false /\ Ascii.eqb c "/" = false /\ is_id_start c = false.
Proof. destruct c as [[] [] [] [] [] [] [] []]; vm_compute; intros; try discriminate; repeat split. Qed.
Theorem lexes_num s : num_ok s = true -> lexes num_bnd s [KNum s].
Proof. intros H. destruct (num_ok_chars s H) as [c [r0 [-> [Hd Hn]]]]. intros r f Hr Hf. destruct f as [|f]; [lia|]. exists f. split.
  - cbn [app List.length] in Hf. rewrite app_length in Hf. lia.
  - destruct (digit_facts c Hd) as [H1 [H2 H3]]. pose proof (span_num (c :: r0) r Hn Hr) as Es.
    change ((c :: r0) ++ r) with (c :: r0 ++ r) in *. cbn [lexm]. rewrite H1, H2, H3, Hd. cbn [andb]. rewrite Es. reflexivity. Qed.
(* every good bare key: an identifier name or a decimal literal *)
Theorem key_hole_lexes s : hole_ok HKey s = true ->
  (is_ident_name s = true /\ lexes bnd s [KId s]) \/ (num_ok s = true /\ lexes num_bnd s [KNum s]).
Proof. cbn [hole_ok]. unfold key_text_ok. intros H. apply orb_true_iff in H as [H|H].
  - left. split; [exact H|apply lexes_name; [exact H|auto]].
  - right. split; [exact H|apply lexes_num; exact H]. Qed.

(* ---------------------------------------------------------------- the general statement is false *)
(* two good name holes side by side merge into one identifier: without adjacency conditions lexing the concatenation is
   NOT lexing chunk by chunk. The chain rule above is the correct form. *)
Lemma lex_compositional_general_refuted :
  ~ (forall cs, (forall h, In h (holes cs) -> hole_ok (fst h) (snd h) = true) -> lexed cs = toks_of cs).
Proof. intros H. specialize (H [Hole HFn (L "a"); Hole HFn (L "b")]).
  assert (lexed [Hole HFn (L "a"); Hole HFn (L "b")] = toks_of [Hole HFn (L "a"); Hole HFn (L "b")]) as E.
  { apply H. intros h Hin. cbn in Hin. destruct Hin as [<-|[<-|[]]]; reflexivity. }
  vm_compute in E. discriminate. Qed.
