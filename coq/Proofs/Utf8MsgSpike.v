From Coq Require Import String Ascii.
From Coq Require Import List Arith Lia Bool NArith.
Import ListNotations.
Local Open Scope list_scope.

Definition str := list ascii.
Definition L (s : string) : str := list_ascii_of_string s.

Definition byte_n (b : ascii) : N := N_of_ascii b.
Definition is_cont (b : ascii) : bool := (128 <=? byte_n b)%N && (byte_n b <? 192)%N.
Definition is_ascii (b : ascii) : bool := (byte_n b <? 128)%N.

(* i is a char boundary of s (Rust: str::is_char_boundary) *)
Definition boundary (s : str) (i : nat) : bool :=
  if i =? List.length s then true
  else match nth_error s i with Some b => negb (is_cont b) | None => false end.

Inductive outcome (A : Type) := Panic | Ok (a : A).
Arguments Panic {A}. Arguments Ok {A} _.

(* &s[..i] *)
Definition slice_to (s : str) (i : nat) : outcome str :=
  if boundary s i then Ok (firstn i s) else Panic.

(* the closing-quote scan of parse_message_from_content: returns the CHAR index of the closing quote *)
Fixpoint scan (q : ascii) (s : str) (i : nat) (escaped : bool) : option nat :=
  match s with
  | [] => None
  | b :: s' =>
      if is_cont b then scan q s' i escaped
      else if escaped then scan q s' (S i) false
      else if Ascii.eqb b "\"%char then scan q s' (S i) true
      else if Ascii.eqb b q then Some i
      else scan q s' (S i) false
  end.

(* faithful: message = &rest[..i] with i a char index *)
Definition message_b (q : ascii) (rest : str) : outcome (option str) :=
  match scan q rest 0 false with
  | None => Ok None
  | Some i => match slice_to rest i with Panic => Panic | Ok m => Ok (Some m) end
  end.

(* reference: bytes up to the closing quote *)
Fixpoint scan_bytes (q : ascii) (s : str) (acc : str) (escaped : bool) : option str :=
  match s with
  | [] => None
  | b :: s' =>
      if is_cont b then scan_bytes q s' (b :: acc) escaped
      else if escaped then scan_bytes q s' (b :: acc) false
      else if Ascii.eqb b "\"%char then scan_bytes q s' (b :: acc) true
      else if Ascii.eqb b q then Some (rev acc)
      else scan_bytes q s' (b :: acc) false
  end.
Definition message_i (q : ascii) (rest : str) : option str := scan_bytes q rest [] false.

(* witness: the message "é" : bytes C3 A9 then the closing quote *)
Definition e_acute : str := [ascii_of_N 195; ascii_of_N 169].
Example message_panics : message_b """"%char (e_acute ++ L """") = Panic.
Proof. vm_compute. reflexivity. Qed.
(* witness: "éa" is silently truncated to a different string: C3 A9 61 22 -> i = 2 is a boundary *)
Example message_truncated :
  message_b """"%char (e_acute ++ L "a""") = Ok (Some e_acute) /\
  message_i """"%char (e_acute ++ L "a""") = Some (e_acute ++ L "a").
Proof. vm_compute. split; reflexivity. Qed.

(* on ASCII-only input the char index is the byte index: faithful = reference, no panic *)
Lemma scan_ascii q : forall s i acc esc, forallb is_ascii s = true -> List.length acc = i ->
  match scan q s i esc, scan_bytes q s acc esc with
  | None, None => True
  | Some j, Some m => m = rev acc ++ firstn (j - i) s /\ i <= j /\ j - i < List.length s
  | _, _ => False
  end.
Proof.
  induction s as [|b s IH]; intros i acc esc Ha Hl; simpl; auto.
  simpl in Ha. apply andb_true_iff in Ha as [Hb Hs].
  assert (Hc : is_cont b = false).
  { unfold is_cont, is_ascii in *. apply N.ltb_lt in Hb. apply andb_false_iff. left. apply N.leb_gt. lia. }
  rewrite Hc.
  assert (Hstep : forall esc', match scan q s (S i) esc', scan_bytes q s (b :: acc) esc' with
           | None, None => True
           | Some j, Some m => m = rev acc ++ firstn (j - i) (b :: s) /\ i <= j /\ j - i < List.length (b :: s)
           | _, _ => False end).
  { intros esc'. specialize (IH (S i) (b :: acc) esc' Hs). simpl in IH. rewrite Hl in IH. specialize (IH eq_refl).
    destruct (scan q s (S i) esc'), (scan_bytes q s (b :: acc) esc'); auto.
    destruct IH as (-> & H1 & H2). replace (n - i) with (S (n - S i)) by lia. simpl. rewrite <- app_assoc. simpl. repeat split; auto; lia. }
  destruct esc; [apply Hstep|].
  destruct (Ascii.eqb b "\"%char); [apply Hstep|].
  destruct (Ascii.eqb b q); [|apply Hstep].
  rewrite Nat.sub_diag. simpl. rewrite app_nil_r. repeat split; auto; lia.
Qed.

Theorem message_ascii_ok q rest : forallb is_ascii rest = true ->
  message_b q rest = Ok (message_i q rest).
Proof. intros Ha. unfold message_b, message_i.
  pose proof (scan_ascii q rest 0 [] false Ha eq_refl) as H.
  destruct (scan q rest 0 false) as [j|], (scan_bytes q rest [] false) as [m|]; try contradiction; auto.
  destruct H as (-> & _ & Hj). simpl. rewrite Nat.sub_0_r in *.
  unfold slice_to, boundary.
  destruct (j =? List.length rest) eqn:E; [reflexivity|].
  destruct (nth_error rest j) as [b|] eqn:En.
  - assert (Hb : is_ascii b = true). { rewrite forallb_forall in Ha. apply Ha. eapply nth_error_In; eauto. }
    assert (Hc : is_cont b = false).
    { unfold is_cont, is_ascii in *. apply N.ltb_lt in Hb. apply andb_false_iff. left. apply N.leb_gt. lia. }
    rewrite Hc. reflexivity.
  - apply nth_error_None in En. lia.
Qed.
