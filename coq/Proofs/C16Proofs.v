(* C16 - proofs: frame property of every entry point on the abstract file system. *)
From Coq Require Import String Ascii List Bool Arith Lia.
Require Import TT.Model.Str TT.Proofs.StrFacts TT.Model.C16Fs TT.Spec.C16Reserved.
Import ListNotations.
Local Open Scope list_scope.

(* ------------------------------------------------------------------ paths, lookup *)
Lemma path_eqb_eq a b : path_eqb a b = true <-> a = b.
Proof. unfold path_eqb. destruct (list_eq_dec (list_eq_dec ascii_dec) a b); split; intros; congruence. Qed.
Lemma path_eqb_refl a : path_eqb a a = true.
Proof. apply path_eqb_eq. reflexivity. Qed.
Lemma path_eqb_neq a b : path_eqb a b = false <-> a <> b.
Proof. unfold path_eqb. destruct (list_eq_dec (list_eq_dec ascii_dec) a b); split; intros; congruence. Qed.

Lemma lookup_del s p q : lookup (del s p) q = if path_eqb p q then None else lookup s q.
Proof.
  induction s as [|[x n] s IH]; cbn [del filter lookup fst].
  - destruct (path_eqb p q); reflexivity.
  - destruct (path_eqb x p) eqn:Hxp; cbn [negb].
    + apply path_eqb_eq in Hxp. subst x. fold (del s p). rewrite IH.
      destruct (path_eqb p q); reflexivity.
    + cbn [lookup]. fold (del s p). rewrite IH.
      destruct (path_eqb x q) eqn:Hxq; [|reflexivity].
      apply path_eqb_eq in Hxq. subst x.
      destruct (path_eqb p q) eqn:Hpq; [|reflexivity].
      apply path_eqb_eq in Hpq. subst p. rewrite path_eqb_refl in Hxp. discriminate.
Qed.

Lemma lookup_set s p n q : lookup (set s p n) q = if path_eqb p q then Some n else lookup s q.
Proof.
  unfold set. cbn [lookup]. destruct (path_eqb p q) eqn:H; [reflexivity|].
  rewrite lookup_del, H. reflexivity.
Qed.

Lemma is_file_file_at s p : is_file s p = false <-> file_at s p = None.
Proof. unfold is_file, file_at. destruct (lookup s p) as [[c|]|]; split; intros; congruence. Qed.

(* ------------------------------------------------------------------ effects *)
(* A: regular files that may change; B: directories that may appear *)
Definition frame (A : path -> Prop) (s s' : fs) := forall q, ~ A q -> file_at s' q = file_at s q.
Definition dirs_mono (s s' : fs) := forall q, lookup s q = Some Dir -> lookup s' q = Some Dir.
Definition dirs_new (B : path -> Prop) (s s' : fs) := forall q, lookup s' q = Some Dir -> lookup s q = Some Dir \/ B q.
Definition Eff (A B : path -> Prop) (s s' : fs) := frame A s s' /\ dirs_mono s s' /\ dirs_new B s s'.

Lemma Eff_refl A B s : Eff A B s s.
Proof. repeat split; red; intros; auto. Qed.

Lemma Eff_trans A B s1 s2 s3 : Eff A B s1 s2 -> Eff A B s2 s3 -> Eff A B s1 s3.
Proof.
  intros (F1 & M1 & N1) (F2 & M2 & N2). repeat split; red; intros q H.
  - rewrite (F2 q H). apply F1. exact H.
  - apply M2, M1, H.
  - destruct (N2 q H) as [H2|H2]; [apply N1; exact H2|right; exact H2].
Qed.

Lemma Eff_weaken (A A' B B' : path -> Prop) s s' :
  (forall q, A q -> A' q) -> (forall q, B q -> B' q) -> Eff A B s s' -> Eff A' B' s s'.
Proof.
  intros HA HB (F & M & N). repeat split; red; intros q H.
  - apply F. intro HAq. apply H, HA, HAq.
  - apply M, H.
  - destruct (N q H) as [H1|H1]; [left; exact H1|right; apply HB, H1].
Qed.

Definition none : path -> Prop := fun _ => False.

(* a state change that is pointwise either nothing or the removal of a regular file in A *)
Lemma Eff_of_removals (A : path -> Prop) s s' :
  (forall q, lookup s' q = lookup s q \/ (lookup s' q = None /\ A q /\ is_file s q = true)) ->
  Eff A none s s'.
Proof.
  intros H. repeat split; red; intros q Hq.
  - destruct (H q) as [E|(E & HA & _)]; [unfold file_at; rewrite E; reflexivity|contradiction].
  - destruct (H q) as [E|(_ & _ & F)]; [rewrite E; exact Hq|].
    unfold is_file in F. rewrite Hq in F. discriminate.
  - destruct (H q) as [E|(E & _)]; [left; rewrite <- E; exact Hq|congruence].
Qed.

Lemma write_Eff s p c s' : write s p c = Some s' -> Eff (eq p) none s s'.
Proof.
  unfold write. destruct p as [|x p]; [discriminate|]. set (pp := x :: p).
  destruct (is_dir s (parent pp) && negb (is_dir s pp)) eqn:C; [|discriminate].
  intros E. injection E as <-. apply andb_prop in C. destruct C as [_ C].
  apply negb_true_iff in C.
  assert (ND : lookup s pp <> Some Dir).
  { intro H. unfold is_dir, pp in C. fold pp in C. rewrite H in C. discriminate. }
  repeat split; red; intros q Hq.
  - unfold file_at. rewrite lookup_set. destruct (path_eqb pp q) eqn:E; [|reflexivity].
    apply path_eqb_eq in E. contradiction.
  - rewrite lookup_set. destruct (path_eqb pp q) eqn:E; [|exact Hq].
    apply path_eqb_eq in E. subst q. contradiction.
  - rewrite lookup_set in Hq. destruct (path_eqb pp q); [discriminate|left; exact Hq].
Qed.

Lemma remove_file_Eff s p s' : remove_file s p = Some s' -> Eff (eq p) none s s'.
Proof.
  unfold remove_file. destruct (is_file s p) eqn:F; [|discriminate]. intros E. injection E as <-.
  eapply Eff_weaken; [| |apply (Eff_of_removals (eq p))]; auto.
  intros q. rewrite lookup_del. destruct (path_eqb p q) eqn:E; [|left; reflexivity].
  apply path_eqb_eq in E. subst q. right. auto.
Qed.

(* ------------------------------------------------------------------ prefixes *)
Lemma is_prefix_app a b : is_prefix a (a ++ b) = true.
Proof. induction a as [|x a IH]; cbn [is_prefix app]; [reflexivity|]. rewrite str_eqb_refl, IH. reflexivity. Qed.
Lemma is_prefix_refl a : is_prefix a a = true.
Proof. rewrite <- (app_nil_r a) at 2. apply is_prefix_app. Qed.

Lemma mkdir_go_spec : forall rest pre s s', mkdir_go s pre rest = Some s' ->
  forall q, lookup s' q = lookup s q
            \/ (lookup s q = None /\ lookup s' q = Some Dir /\ is_prefix q (pre ++ rest) = true).
Proof.
  induction rest as [|c rest IH]; intros pre s s' H q; cbn [mkdir_go] in H.
  - injection H as <-. left. reflexivity.
  - assert (Eapp : (pre ++ [c]) ++ rest = pre ++ c :: rest) by (rewrite <- app_assoc; reflexivity).
    destruct (lookup s (pre ++ [c])) as [[x|]|] eqn:L; [discriminate| |].
    + specialize (IH _ _ _ H q). rewrite Eapp in IH. exact IH.
    + specialize (IH _ _ _ H q). rewrite Eapp in IH. rewrite lookup_set in IH.
      destruct (path_eqb (pre ++ [c]) q) eqn:E.
      * apply path_eqb_eq in E. subst q. right. split; [exact L|]. split.
        -- destruct IH as [IH|(IH & _)]; [exact IH|discriminate].
        -- rewrite <- Eapp. apply is_prefix_app.
      * exact IH.
Qed.

Lemma mkdir_all_Eff s p s' : mkdir_all s p = Some s' -> Eff none (fun q => is_prefix q p = true) s s'.
Proof.
  unfold mkdir_all. intros H. pose proof (mkdir_go_spec _ _ _ _ H) as S. cbn [app] in S.
  repeat split; red; intros q Hq.
  - unfold file_at. destruct (S q) as [E|(E1 & E2 & _)]; [rewrite E; reflexivity|rewrite E1, E2; reflexivity].
  - destruct (S q) as [E|(E1 & _)]; [rewrite E; exact Hq|congruence].
  - destruct (S q) as [E|(_ & _ & P)]; [left; rewrite <- E; exact Hq|right; exact P].
Qed.

(* ------------------------------------------------------------------ plans *)
Definition step_ok (A B : path -> Prop) (op : step) := forall s s', op s = Some s' -> Eff A B s s'.

Lemma seq_Eff A B ops : Forall (step_ok A B) ops -> forall s, Eff A B s (fst (seq ops s)).
Proof.
  induction 1 as [|op ops Hop _ IH]; intros s; cbn [seq fst]; [apply Eff_refl|].
  destruct (op s) as [s1|] eqn:E; [|apply Eff_refl].
  eapply Eff_trans; [apply Hop, E|apply IH].
Qed.

(* ------------------------------------------------------------------ names *)
Lemma in_b_In n l : in_b n l = true <-> In n l.
Proof.
  unfold in_b. rewrite existsb_exists. split.
  - intros (x & Hx & E). apply str_eqb_eq in E. subst. exact Hx.
  - intros H. exists n. split; [exact H|apply str_eqb_refl].
Qed.

Lemma starts_spec p : forall n, starts p n = true <-> exists t, n = p ++ t.
Proof.
  induction p as [|a p IH]; intros n; cbn [starts].
  - split; [intros _; exists n; reflexivity|reflexivity].
  - destruct n as [|b n].
    + split; [discriminate|intros (t & E); discriminate].
    + rewrite andb_true_iff, IH. split.
      * intros (E & t & ->). apply Ascii.eqb_eq in E. subst. exists t. reflexivity.
      * intros (t & E). cbn [app] in E. injection E as -> ->. split; [apply Ascii.eqb_refl|exists t; reflexivity].
Qed.

Lemma contains_spec p : forall n, contains p n = true <-> exists a b, n = a ++ p ++ b.
Proof.
  induction n as [|c n IH]; cbn [contains]; rewrite orb_true_iff.
  - split.
    + intros [H|H]; [|discriminate]. apply starts_spec in H. destruct H as (t & E). exists [], t. exact E.
    + intros (a & b & E). left. apply starts_spec. destruct a; [|discriminate]. exists b. exact E.
  - split.
    + intros [H|H].
      * apply starts_spec in H. destruct H as (t & E). exists [], t. exact E.
      * apply IH in H. destruct H as (a & b & ->). exists (c :: a), b. reflexivity.
    + intros (a & b & E). destruct a as [|x a].
      * left. apply starts_spec. exists b. exact E.
      * right. apply IH. cbn [app] in E. injection E as _ ->. exists a, b. reflexivity.
Qed.

(* the boolean function on names is the list of the property text *)
Lemma reserved_name_b_iff n : reserved_name_b n = true <-> reserved_name n.
Proof.
  unfold reserved_name_b, reserved_name. rewrite !orb_true_iff, in_b_In, starts_spec, contains_spec. tauto.
Qed.

Lemma reserved_exact_listing :
  reserved_exact = map L ["types.ts"; "types.d.ts"; "commands.ts"; "commands.d.ts"; "events.ts"; "events.d.ts";
                          "index.ts"; "index.d.ts"; "schemas.ts"; "schemas.d.ts"; "models.ts"; "models.d.ts";
                          "bindings.ts"; "bindings.d.ts"; ".typecache"; "dependency-graph.txt"; "dependency-graph.dot"]%string.
Proof. vm_compute. reflexivity. Qed.

Lemma strip_prefix_spec d : forall q r, strip_prefix d q = Some r <-> q = d ++ r.
Proof.
  induction d as [|x d IH]; intros q r; cbn [strip_prefix app].
  - split; intros H; congruence.
  - destruct q as [|y q]; [split; discriminate|].
    destruct (str_eqb x y) eqn:E.
    + apply str_eqb_eq in E. subst y. rewrite IH. split; intros H; congruence.
    + apply str_eqb_neq in E. split; [discriminate|]. intros H. injection H as H _. congruence.
Qed.

Lemma reserved_b_iff out q : reserved_b out q = true <-> reserved out q.
Proof.
  unfold reserved_b, reserved. destruct (strip_prefix out q) as [r|] eqn:S.
  - apply strip_prefix_spec in S. subst q. destruct r as [|n [|m r]].
    + split; [discriminate|]. intros (n & E & _). apply app_inv_head in E. discriminate.
    + rewrite reserved_name_b_iff. split.
      * intros H. exists n. auto.
      * intros (m & E & H). apply app_inv_head in E. injection E as <-. exact H.
    + split; [discriminate|]. intros (k & E & _). apply app_inv_head in E. discriminate.
  - split; [discriminate|]. intros (n & E & _).
    assert (strip_prefix out q = Some [n]) as C by (apply strip_prefix_spec; exact E). congruence.
Qed.

(* what cleanup may select is reserved *)
Lemma patterns_reserved : forallb (fun x => in_b x reserved_exact) generated_patterns = true.
Proof. vm_compute. reflexivity. Qed.

Lemma is_generated_reserved m n :
  is_generated_file m n = true -> in_b n m = false -> reserved_name_b n = true.
Proof.
  unfold is_generated_file, reserved_name_b. intros H Hm. rewrite Hm, orb_false_r in H.
  apply orb_true_iff in H. destruct H as [H|H].
  - apply in_b_In in H. pose proof patterns_reserved as P. rewrite forallb_forall in P. rewrite (P _ H). reflexivity.
  - apply andb_prop in H. destruct H as [H _]. rewrite <- orb_assoc, H. apply orb_true_r.
Qed.

Lemma own_names_reserved :
  forallb reserved_name_b [n_types; n_commands; n_events; n_index; n_txt; n_dot; n_cache] = true.
Proof. vm_compute. reflexivity. Qed.

Lemma own_reserved n : In n [n_types; n_commands; n_events; n_index; n_txt; n_dot; n_cache] -> reserved_name n.
Proof. intros H. apply reserved_name_b_iff. pose proof own_names_reserved as P. rewrite forallb_forall in P. apply P, H. Qed.

Lemma probe_not_reserved : reserved_name_b n_probe = false.
Proof. vm_compute. reflexivity. Qed.

Lemma probe_path_not_reserved out : ~ reserved out (out ++ [n_probe]).
Proof.
  intros (n & E & H). apply app_inv_head in E. injection E as <-.
  apply reserved_name_b_iff in H. rewrite probe_not_reserved in H. discriminate.
Qed.

(* ------------------------------------------------------------------ names again: sources *)
Definition own_names : list str := [n_types; n_commands; n_events; n_index; n_txt; n_dot; n_cache].

Lemma own_not_rs : forallb (fun n => negb (ends_rs n)) (n_probe :: own_names ++ generated_patterns) = true.
Proof. vm_compute. reflexivity. Qed.

Lemma last_snoc (out : path) n : last (out ++ [n]) [] = n.
Proof. apply last_last. Qed.

Lemma is_source_child proj out n : is_source proj (out ++ [n]) = true -> ends_rs n = true.
Proof. unfold is_source. rewrite last_snoc. intros H. apply andb_prop in H. apply H. Qed.

Lemma not_rs_not_source proj out n : ends_rs n = false -> is_source proj (out ++ [n]) = false.
Proof. unfold is_source. rewrite last_snoc. intros ->. apply andb_false_r. Qed.

Lemma listed_not_rs n : In n (n_probe :: own_names ++ generated_patterns) -> ends_rs n = false.
Proof.
  intros H. pose proof own_not_rs as P. rewrite forallb_forall in P. apply P in H. apply negb_true_iff in H. exact H.
Qed.

(* ------------------------------------------------------------------ the generator *)
(* A_own: the seven files the tool writes; B_out: the output directory and its ancestors *)
Definition A_own (out : path) : path -> Prop := fun q => exists n, q = out ++ [n] /\ In n own_names.
Definition B_out (out : path) : path -> Prop := fun q => is_prefix q out = true.

Lemma w_ok out n c : In n own_names -> step_ok (A_own out) (B_out out) (w out n c).
Proof.
  intros R s s' H. unfold w in H. eapply Eff_weaken; [| |apply (write_Eff _ _ _ _ H)].
  - intros q <-. exists n. auto.
  - intros q [].
Qed.

Lemma mkdir_ok out : step_ok (A_own out) (B_out out) (fun s => mkdir_all s out).
Proof.
  intros s s' H. eapply Eff_weaken; [| |apply (mkdir_all_Eff _ _ _ H)].
  - intros q [].
  - intros q Hq. exact Hq.
Qed.

Ltac own := unfold own_names; cbn [In]; tauto.

Lemma writer_plan_ok out a : Forall (step_ok (A_own out) (B_out out)) (writer_plan out a).
Proof.
  unfold writer_plan. apply Forall_app. split.
  - repeat apply Forall_cons; [apply mkdir_ok|apply w_ok; own|apply w_ok; own|apply Forall_nil].
  - apply Forall_app. split.
    + destruct (k_events a); [apply Forall_cons; [apply w_ok; own|apply Forall_nil]|apply Forall_nil].
    + apply Forall_cons; [apply w_ok; own|apply Forall_nil].
Qed.

Lemma viz_plan_ok out a : Forall (step_ok (A_own out) (B_out out)) (viz_plan out a).
Proof. unfold viz_plan. repeat apply Forall_cons; try apply Forall_nil; apply w_ok; own. Qed.

Lemma cache_save_Eff out a s : Eff (A_own out) (B_out out) s (cache_save out a s).
Proof.
  unfold cache_save. destruct (mkdir_all s out) as [s1|] eqn:M; [|apply Eff_refl].
  eapply Eff_trans; [apply (mkdir_ok out _ _ M)|].
  destruct (write s1 (out ++ [n_cache]) (k_cache a)) as [s2|] eqn:Wr; [|apply Eff_refl].
  apply (w_ok out n_cache (k_cache a)); [own|exact Wr].
Qed.

Lemma generate_core_Eff c a s : Eff (A_own (c_out c)) (B_out (c_out c)) s (fst (generate_core c a s)).
Proof.
  unfold generate_core.
  set (ops := writer_plan (c_out c) a ++ (if c_viz c then viz_plan (c_out c) a else [])).
  assert (Forall (step_ok (A_own (c_out c)) (B_out (c_out c))) ops) as F.
  { apply Forall_app. split; [apply writer_plan_ok|]. destruct (c_viz c); [apply viz_plan_ok|apply Forall_nil]. }
  pose proof (seq_Eff _ _ _ F s) as E. destruct (seq ops s) as [s1 ok]. cbn [fst] in E.
  destruct ok; cbn [fst]; [|exact E].
  eapply Eff_trans; [exact E|apply cache_save_Eff].
Qed.

Lemma run_generate_Eff c a s : Eff (A_own (c_out c)) (B_out (c_out c)) s (fst (run_generate c a s)).
Proof.
  unfold run_generate.
  destruct (negb (c_lib_ok c)); [apply Eff_refl|].
  destruct (negb (exists_b s (c_proj c))); [apply Eff_refl|].
  destruct (negb (a_ok a)); [apply Eff_refl|].
  destruct (negb (a_cmds a)); [apply Eff_refl|].
  destruct (negb (c_force c) && up_to_date c a s); [apply Eff_refl|].
  pose proof (generate_core_Eff c a s) as E. destruct (generate_core c a s) as [s' ok]. exact E.
Qed.

(* ------------------------------------------------------------------ init *)
Lemma init_save_Eff i s s1 : init_save i s = Some s1 -> Eff (eq (i_target i)) none s s1.
Proof.
  unfold init_save. destruct (is_tauri_conf (i_target i)).
  - destruct (is_file s (i_target i) && i_parses i); [apply write_Eff|discriminate].
  - destruct (exists_b s (i_target i) && negb (i_force i)); [discriminate|apply write_Eff].
Qed.

Lemma run_init_Eff i c a s :
  Eff (fun q => A_own (c_out c) q \/ i_target i = q) (B_out (c_out c)) s (fst (run_init i c a s)).
Proof.
  unfold run_init. destruct (negb (c_lib_ok c) || negb (exists_b s (c_proj c))); [apply Eff_refl|].
  destruct (init_save i s) as [s1|] eqn:I; [|apply Eff_refl].
  eapply Eff_trans.
  - eapply Eff_weaken; [| |apply (init_save_Eff _ _ _ I)]; [intros q H; right; exact H|intros q []].
  - eapply Eff_weaken; [| |apply run_generate_Eff]; [intros q H; left; exact H|auto].
Qed.

(* ------------------------------------------------------------------ build script *)
(* A_cln: what cleanup may remove, by name: one of the twelve exact names, or a .ts name with an affix *)
Definition affix (n : str) : bool := starts (L "generated_") n || contains (L "_generated") n.
Definition A_cln (out : path) : path -> Prop :=
  fun q => exists n, q = out ++ [n] /\ (in_b n generated_patterns = true \/ (affix n = true /\ ends_ts n = true)).

Lemma is_generated_cases m n :
  is_generated_file m n = true -> in_b n m = false ->
  in_b n generated_patterns = true \/ (affix n = true /\ ends_ts n = true).
Proof.
  unfold is_generated_file, affix. intros H Hm. rewrite Hm, orb_false_r in H.
  apply orb_true_iff in H. destruct H as [H|H]; [left; exact H|right; apply andb_prop, H].
Qed.

Lemma cleanup_spec out cur s :
  forall q, lookup (cleanup_old_files out cur s) q = lookup s q
            \/ (lookup (cleanup_old_files out cur s) q = None /\ A_cln out q /\ is_file s q = true).
Proof.
  unfold cleanup_old_files.
  assert (forall n, In n (child_files s out) -> is_file s (out ++ [n]) = true) as HC.
  { intros n H. unfold child_files in H. apply in_flat_map in H. destruct H as (e & _ & H).
    destruct (strip_prefix out (fst e)) as [[|m [|k r]]|] eqn:S; try contradiction.
    destruct (is_file s (fst e)) eqn:F; [|contradiction]. destruct H as [<-|[]].
    apply strip_prefix_spec in S. rewrite <- S. exact F. }
  revert HC. generalize (child_files s out) as names. intros names.
  assert (forall acc, (forall n, In n names -> is_file s (out ++ [n]) = true) ->
            forall q, lookup (fold_left (fun acc n => if is_generated_file cur n && negb (in_b n cur)
                                                       then del acc (out ++ [n]) else acc) names acc) q = lookup acc q
                      \/ (lookup (fold_left (fun acc n => if is_generated_file cur n && negb (in_b n cur)
                                                           then del acc (out ++ [n]) else acc) names acc) q = None
                          /\ A_cln out q /\ is_file s q = true)) as G.
  { induction names as [|n names IH]; intros acc HC q; cbn [fold_left]; [left; reflexivity|].
    assert (forall m, In m names -> is_file s (out ++ [m]) = true) as HC' by (intros m Hm; apply HC; right; exact Hm).
    destruct (is_generated_file cur n && negb (in_b n cur)) eqn:C.
    - destruct (IH (del acc (out ++ [n])) HC' q) as [E|E]; [|right; exact E].
      rewrite lookup_del in E. destruct (path_eqb (out ++ [n]) q) eqn:Q; [|left; exact E].
      apply path_eqb_eq in Q. subst q. right. split; [exact E|]. split; [|apply HC; left; reflexivity].
      apply andb_prop in C. destruct C as [C1 C2]. apply negb_true_iff in C2.
      exists n. split; [reflexivity|]. eapply is_generated_cases; eauto.
    - apply IH, HC'. }
  intros HC. apply G, HC.
Qed.

Definition A_build (out : path) : path -> Prop := fun q => A_own out q \/ A_cln out q.

Lemma cleanup_Eff out cur s : Eff (A_build out) (B_out out) s (cleanup_old_files out cur s).
Proof.
  eapply Eff_weaken; [| |apply (Eff_of_removals (A_cln out)), cleanup_spec]; [|intros q []].
  intros q H. right. exact H.
Qed.

(* the probe: a fresh entry is created and removed again, an existing one is left alone;
   apart from creating the output directory the preparation changes nothing at all *)
Lemma probe_roundtrip s p c s2 :
  lookup s p = None -> write s p c = Some s2 ->
  exists s3, remove_file s2 p = Some s3 /\ forall q, lookup s3 q = lookup s q.
Proof.
  intros N Wr. unfold write in Wr. destruct p as [|x p]; [discriminate|]. set (pp := x :: p) in *.
  destruct (is_dir s (parent pp) && negb (is_dir s pp)); [|discriminate]. injection Wr as <-.
  exists (del (set s pp (File c)) pp). split.
  - unfold remove_file, is_file. rewrite lookup_set, path_eqb_refl. reflexivity.
  - intros q. rewrite lookup_del. destruct (path_eqb pp q) eqn:E.
    + apply path_eqb_eq in E. subst q. symmetry. exact N.
    + rewrite lookup_set, E. reflexivity.
Qed.

Lemma Eff_of_lookup_eq A B s s' : (forall q, lookup s' q = lookup s q) -> Eff A B s s'.
Proof.
  intros H. repeat split; red; intros q Hq.
  - unfold file_at. rewrite H. reflexivity.
  - rewrite H. exact Hq.
  - left. rewrite <- H. exact Hq.
Qed.

Lemma prepare_Eff out s s1 : prepare_output_directory out s = Some s1 -> Eff none (B_out out) s s1.
Proof.
  unfold prepare_output_directory. intros H.
  assert (exists s0, (if exists_b s out then Some s else mkdir_all s out) = Some s0 /\
                     Eff none (B_out out) s s0) as (s0 & E0 & F0).
  { destruct (exists_b s out).
    - exists s. split; [reflexivity|apply Eff_refl].
    - destruct (mkdir_all s out) as [s0|] eqn:M; [|discriminate]. exists s0. split; [reflexivity|].
      apply (mkdir_all_Eff _ _ _ M). }
  rewrite E0 in H. destruct (exists_b s0 (out ++ [n_probe])) eqn:X.
  - injection H as <-. exact F0.
  - destruct (write s0 (out ++ [n_probe]) []) as [s2|] eqn:Wr; [|discriminate]. injection H as <-.
    assert (lookup s0 (out ++ [n_probe]) = None) as N.
    { unfold exists_b in X. destruct (out ++ [n_probe]) as [|x p]; [discriminate|].
      destruct (lookup s0 (x :: p)); [discriminate|reflexivity]. }
    destruct (probe_roundtrip _ _ _ _ N Wr) as (s3 & R & Hs3). rewrite R.
    eapply Eff_trans; [exact F0|apply Eff_of_lookup_eq, Hs3].
Qed.

Lemma finalize_Eff out files s : Eff (A_build out) (B_out out) s (fst (finalize_generation out files s)).
Proof.
  unfold finalize_generation. destruct (prepare_output_directory out s) as [s1|] eqn:P; cbn [fst]; [|apply Eff_refl].
  eapply Eff_trans; [|apply cleanup_Eff].
  eapply Eff_weaken; [| |apply (prepare_Eff _ _ _ P)]; [intros q []|auto].
Qed.

Lemma Eff_out_build out s s' : Eff (A_own out) (B_out out) s s' -> Eff (A_build out) (B_out out) s s'.
Proof. apply Eff_weaken; [intros q Hq; left; exact Hq|auto]. Qed.

Lemma run_build_Eff d c a s : Eff (A_build (c_out c)) (B_out (c_out c)) s (fst (run_build d c a s)).
Proof.
  unfold run_build. destruct (negb d); [apply Eff_refl|].
  destruct (negb (exists_b s (c_proj c)) || negb (a_ok a)); [apply Eff_refl|].
  destruct (negb (a_cmds a)); cbn [negb].
  { pose proof (finalize_Eff (c_out c) [] s) as F. destruct (finalize_generation (c_out c) [] s). exact F. }
  destruct (negb (c_force c) && up_to_date c a s); cbn [negb].
  { pose proof (finalize_Eff (c_out c) (child_files s (c_out c)) s) as F.
    destruct (finalize_generation (c_out c) (child_files s (c_out c)) s). exact F. }
  destruct (negb (c_lib_ok c)); cbn [negb fst]; [apply Eff_refl|].
  pose proof (generate_core_Eff c a s) as G. destruct (generate_core c a s) as [s1 ok]. cbn [fst] in G.
  destruct ok; cbn [negb fst]; [|apply Eff_out_build, G].
  pose proof (finalize_Eff (c_out c) (written_names a) s1) as F.
  destruct (finalize_generation (c_out c) (written_names a) s1) as [s2 ok2]. cbn [fst] in *.
  eapply Eff_trans; [apply Eff_out_build, G|exact F].
Qed.

(* ------------------------------------------------------------------ one run *)
(* a name ending in .ts does not end in .rs: cleanup never selects a project source *)
Lemma ts_not_rs n : ends_ts n = true -> ends_rs n = false.
Proof.
  unfold ends_ts, ends_rs. generalize (rev n) as l. intros l.
  change (rev (L ".ts")) with [("s")%char; ("t")%char; (".")%char].
  change (rev (L ".rs")) with [("s")%char; ("r")%char; (".")%char].
  destruct l as [|a [|b l]]; cbn [starts]; intros H.
  - discriminate.
  - rewrite andb_false_r in H. discriminate.
  - apply andb_prop in H. destruct H as [_ H]. apply andb_prop in H. destruct H as [H _].
    apply Ascii.eqb_eq in H. subst b. apply andb_false_iff. right. reflexivity.
Qed.

(* everything a run may touch *)
Definition touch (r : run) (q : path) : Prop := may_change r q \/ init_target r = Some q.

Lemma own_may_change r q : A_own (out_of r) q -> may_change r q.
Proof.
  intros (n & -> & H). split.
  - exists n. split; [reflexivity|]. apply own_reserved. exact H.
  - apply not_rs_not_source, listed_not_rs. right. apply in_or_app. left. exact H.
Qed.

Lemma cln_may_change r q : A_cln (out_of r) q -> may_change r q.
Proof.
  intros (n & -> & H). split.
  - exists n. split; [reflexivity|]. apply reserved_name_b_iff. unfold reserved_name_b. destruct H as [H|[H _]].
    + apply in_b_In in H. pose proof patterns_reserved as P. rewrite forallb_forall in P. rewrite (P _ H). reflexivity.
    + unfold affix in H. rewrite <- orb_assoc, H. apply orb_true_r.
  - apply not_rs_not_source. destruct H as [H|[_ H]].
    + apply listed_not_rs. right. apply in_or_app. right. apply in_b_In, H.
    + apply ts_not_rs, H.
Qed.

Lemma run_api_Eff c a s : Eff (A_own (c_out c)) (B_out (c_out c)) s (fst (run_api c a s)).
Proof.
  unfold run_api.
  destruct (negb (c_lib_ok c)); [apply Eff_refl|].
  destruct (negb (exists_b s (c_proj c))); [apply Eff_refl|].
  destruct (negb (a_ok a)); [apply Eff_refl|].
  destruct (negb (a_cmds a)); [apply Eff_refl|].
  pose proof (seq_Eff _ _ _ (writer_plan_ok (c_out c) a) s) as E.
  destruct (seq (writer_plan (c_out c) a) s) as [s' ok]. exact E.
Qed.

Lemma exec_Eff r s : Eff (touch r) (B_out (out_of r)) s (fst (exec r s)).
Proof.
  unfold exec. destruct (r_entry r) as [|i|d|] eqn:E.
  - eapply Eff_weaken; [| |apply run_generate_Eff]; [|auto].
    intros q H. left. apply own_may_change, H.
  - eapply Eff_weaken; [| |apply run_init_Eff]; [|auto].
    intros q [H|H]; [left; apply own_may_change, H|right; unfold init_target; rewrite E; congruence].
  - eapply Eff_weaken; [| |apply run_build_Eff]; [|auto].
    intros q [H|H]; left; [apply own_may_change, H|apply cln_may_change, H].
  - eapply Eff_weaken; [| |apply run_api_Eff]; [|auto].
    intros q H. left. apply own_may_change, H.
Qed.

Lemma exec_frame r s q :
  ~ may_change r q -> init_target r <> Some q -> file_at (fst (exec r s)) q = file_at s q.
Proof. intros R I. destruct (exec_Eff r s) as (F & _). apply F. intros [H|H]; contradiction. Qed.

(* ------------------------------------------------------------------ histories *)
Lemma fs_after_cons r runs s : fs_after (r :: runs) s = fs_after runs (fst (exec r s)).
Proof. reflexivity. Qed.

Theorem frame_history : forall runs s q,
  (forall r, In r runs -> ~ may_change r q /\ init_target r <> Some q) ->
  file_at (fs_after runs s) q = file_at s q.
Proof.
  induction runs as [|r runs IH]; intros s q H; [reflexivity|].
  rewrite fs_after_cons, IH; [|intros r' Hr'; apply H; right; exact Hr'].
  destruct (H r (or_introl eq_refl)) as [R I]. apply exec_frame; assumption.
Qed.

Theorem dirs_history : forall runs s q,
  (lookup s q = Some Dir -> lookup (fs_after runs s) q = Some Dir) /\
  (lookup (fs_after runs s) q = Some Dir ->
   lookup s q = Some Dir \/ exists r, In r runs /\ is_prefix q (out_of r) = true).
Proof.
  induction runs as [|r runs IH]; intros s q.
  - split; [auto|left; assumption].
  - rewrite fs_after_cons. destruct (exec_Eff r s) as (_ & M & N). destruct (IH (fst (exec r s)) q) as [I1 I2]. split.
    + intros H. apply I1, M, H.
    + intros H. destruct (I2 H) as [H1|(r' & Hr' & P)].
      * destruct (N q H1) as [H2|H2]; [left; exact H2|right; exists r; split; [left; reflexivity|exact H2]].
      * right. exists r'. split; [right; exact Hr'|exact P].
Qed.

(* init alone: only the file it was pointed at, plus what the following generate may *)
Theorem init_frame i c a s q :
  ~ (reserved (c_out c) q /\ is_source (c_proj c) q = false) -> q <> i_target i ->
  file_at (fst (run_init i c a s)) q = file_at s q.
Proof.
  intros R T. destruct (run_init_Eff i c a s) as (F & _). apply F. intros [H|H]; [|congruence].
  apply R. apply (own_may_change {| r_entry := Generate; r_cfg := c; r_ana := a |}), H.
Qed.

(* the probe path in particular: whatever sits there stays *)
Lemma probe_untouched r s : init_target r <> Some (out_of r ++ [n_probe]) ->
  file_at (fst (exec r s)) (out_of r ++ [n_probe]) = file_at s (out_of r ++ [n_probe]).
Proof.
  intros I. apply exec_frame; [|exact I]. intros [R _]. exact (probe_path_not_reserved _ R).
Qed.

(* ------------------------------------------------------------------ the witnesses of the two repaired defects *)
Definition wit_cfg : cfg := {| c_out := [L "gen"]; c_proj := [L "src-tauri"]; c_lib_ok := true; c_force := false; c_viz := false |}.
Definition wit_ana : ana := {| a_ok := true; a_cmds := true; k_types := L "T"; k_commands := L "C"; k_events := None;
                               k_index := L "I"; k_txt := L "x"; k_dot := L "d"; k_cache := L "H" |}.
Definition wit_run : run := {| r_entry := Build true; r_cfg := wit_cfg; r_ana := wit_ana |}.
Definition wit_fs : fs :=
  [([L "src-tauri"], Dir); ([L "gen"], Dir); ([L "gen"; L ".write_test"], File (L "my notes"));
   ([L "gen"; L "notes.ts"], File (L "user")); ([L "gen"; L "models.ts"], File (L "old"))].

(* formerly C16-1: the foreign .write_test survives a build run that really generates and cleans *)
Lemma write_test_kept :
  file_at (fst (exec wit_run wit_fs)) [L "gen"; L ".write_test"] = Some (L "my notes") /\
  file_at (fst (exec wit_run wit_fs)) [L "gen"; L "types.ts"] = Some (L "T") /\
  file_at (fst (exec wit_run wit_fs)) [L "gen"; L "models.ts"] = None /\
  snd (exec wit_run wit_fs) = BuildOk.
Proof. vm_compute. repeat split; reflexivity. Qed.

Definition wit2_cfg : cfg := {| c_out := [L "src-tauri"; L "src"]; c_proj := [L "src-tauri"]; c_lib_ok := true; c_force := false; c_viz := false |}.
Definition wit2_run : run := {| r_entry := Build true; r_cfg := wit2_cfg; r_ana := wit_ana |}.
Definition wit2_fs : fs :=
  [([L "src-tauri"], Dir); ([L "src-tauri"; L "src"], Dir);
   ([L "src-tauri"; L "src"; L "main.rs"], File (L "mod generated_cmds;"));
   ([L "src-tauri"; L "src"; L "generated_cmds.rs"], File (L "#[tauri::command] fn ping() {}"));
   ([L "src-tauri"; L "src"; L "old_generated.ts"], File (L "stale"))].

(* formerly C16-2: generated_cmds.rs survives; a stale generated-looking .ts file is still cleaned *)
Lemma sources_kept :
  file_at (fst (exec wit2_run wit2_fs)) [L "src-tauri"; L "src"; L "generated_cmds.rs"] = Some (L "#[tauri::command] fn ping() {}") /\
  file_at (fst (exec wit2_run wit2_fs)) [L "src-tauri"; L "src"; L "old_generated.ts"] = None /\
  snd (exec wit2_run wit2_fs) = BuildOk.
Proof. vm_compute. repeat split; reflexivity. Qed.

Lemma not_may_change_by_b r q : reserved_b (out_of r) q && negb (is_source (proj_of r) q) = false -> ~ may_change r q.
Proof.
  intros H [R S]. apply reserved_b_iff in R. rewrite R, S in H. discriminate.
Qed.

Lemma cleanup_selects_reserved m n :
  is_generated_file m n = true -> in_b n m = false -> reserved_name n.
Proof. intros H1 H2. apply reserved_name_b_iff. eapply is_generated_reserved; eauto. Qed.

(* ... and, after the repair, never a project source *)
Lemma cleanup_spares_sources m n proj out :
  is_generated_file m n = true -> in_b n m = false -> is_source proj (out ++ [n]) = false.
Proof.
  intros H1 H2. apply not_rs_not_source. destruct (is_generated_cases _ _ H1 H2) as [H|[_ H]].
  - apply listed_not_rs. right. apply in_or_app. right. apply in_b_In, H.
  - apply ts_not_rs, H.
Qed.
