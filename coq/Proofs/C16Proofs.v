(* C16 - proofs: frame property of every entry point on the abstract file system. *)
From Coq Require Import String Ascii List Bool Arith Lia.
Require Import TT.Model.Str TT.Proofs.StrFacts TT.Model.C16Fs TT.Spec.C16Reserved.
Import ListNotations.
Local Open Scope list_scope.

(* ------------------------------------------------------------------ paths, lookup *)
Lemma path_eqb_eq a b : path_eqb a b = true <-> a = b.
Proof. unfold path_eqb. destruct (list_eq_dec (list_eq_dec ascii_dec) a b); split; intros; congruence. Qed.
Lemma path_eqb_refl a : path_eqb a a = true.
Proof. apply path_eqb_eq. reflexivity. Qed.
Lemma path_eqb_neq a b : path_eqb a b = false <-> a <> b.
Proof. unfold path_eqb. destruct (list_eq_dec (list_eq_dec ascii_dec) a b); split; intros; congruence. Qed.

Lemma lookup_del s p q : lookup (del s p) q = if path_eqb p q then None else lookup s q.
Proof.
  induction s as [|[x n] s IH]; cbn [del filter lookup fst].
  - destruct (path_eqb p q); reflexivity.
  - destruct (path_eqb x p) eqn:Hxp; cbn [negb].
    + apply path_eqb_eq in Hxp. subst x. fold (del s p). rewrite IH.
      destruct (path_eqb p q); reflexivity.
    + cbn [lookup]. fold (del s p). rewrite IH.
      destruct (path_eqb x q) eqn:Hxq; [|reflexivity].
      apply path_eqb_eq in Hxq. subst x.
      destruct (path_eqb p q) eqn:Hpq; [|reflexivity].
      apply path_eqb_eq in Hpq. subst p. rewrite path_eqb_refl in Hxp. discriminate.
Qed.

Lemma lookup_set s p n q : lookup (set s p n) q = if path_eqb p q then Some n else lookup s q.
Proof.
  unfold set. cbn [lookup]. destruct (path_eqb p q) eqn:H; [reflexivity|].
  rewrite lookup_del, H. reflexivity.
Qed.

Lemma is_file_file_at s p : is_file s p = false <-> file_at s p = None.
Proof. unfold is_file, file_at. destruct (lookup s p) as [[c|]|]; split; intros; congruence. Qed.

(* ------------------------------------------------------------------ effects *)
(* A: regular files that may change; B: directories that may appear *)
Definition frame (A : path -> Prop) (s s' : fs) := forall q, ~ A q -> file_at s' q = file_at s q.
Definition dirs_mono (s s' : fs) := forall q, lookup s q = Some Dir -> lookup s' q = Some Dir.
Definition dirs_new (B : path -> Prop) (s s' : fs) := forall q, lookup s' q = Some Dir -> lookup s q = Some Dir \/ B q.
Definition Eff (A B : path -> Prop) (s s' : fs) := frame A s s' /\ dirs_mono s s' /\ dirs_new B s s'.

Lemma Eff_refl A B s : Eff A B s s.
Proof. repeat split; red; intros; auto. Qed.

Lemma Eff_trans A B s1 s2 s3 : Eff A B s1 s2 -> Eff A B s2 s3 -> Eff A B s1 s3.
Proof.
  intros (F1 & M1 & N1) (F2 & M2 & N2). repeat split; red; intros q H.
  - rewrite (F2 q H). apply F1. exact H.
  - apply M2, M1, H.
  - destruct (N2 q H) as [H2|H2]; [apply N1; exact H2|right; exact H2].
Qed.

Lemma Eff_weaken (A A' B B' : path -> Prop) s s' :
  (forall q, A q -> A' q) -> (forall q, B q -> B' q) -> Eff A B s s' -> Eff A' B' s s'.
Proof.
  intros HA HB (F & M & N). repeat split; red; intros q H.
  - apply F. intro HAq. apply H, HA, HAq.
  - apply M, H.
  - destruct (N q H) as [H1|H1]; [left; exact H1|right; apply HB, H1].
Qed.

Definition none : path -> Prop := fun _ => False.

(* a state change that is pointwise either nothing or the removal of a regular file in A *)
Lemma Eff_of_removals (A : path -> Prop) s s' :
  (forall q, lookup s' q = lookup s q \/ (lookup s' q = None /\ A q /\ is_file s q = true)) ->
  Eff A none s s'.
Proof.
  intros H. repeat split; red; intros q Hq.
  - destruct (H q) as [E|(E & HA & _)]; [unfold file_at; rewrite E; reflexivity|contradiction].
  - destruct (H q) as [E|(_ & _ & F)]; [rewrite E; exact Hq|].
    unfold is_file in F. rewrite Hq in F. discriminate.
  - destruct (H q) as [E|(E & _)]; [left; rewrite <- E; exact Hq|congruence].
Qed.

Lemma write_Eff s p c s' : write s p c = Some s' -> Eff (eq p) none s s'.
Proof.
  unfold write. destruct p as [|x p]; [discriminate|]. set (pp := x :: p).
  destruct (is_dir s (parent pp) && negb (is_dir s pp)) eqn:C; [|discriminate].
  intros E. injection E as <-. apply andb_prop in C. destruct C as [_ C].
  apply negb_true_iff in C.
  assert (ND : lookup s pp <> Some Dir).
  { intro H. unfold is_dir, pp in C. fold pp in C. rewrite H in C. discriminate. }
  repeat split; red; intros q Hq.
  - unfold file_at. rewrite lookup_set. destruct (path_eqb pp q) eqn:E; [|reflexivity].
    apply path_eqb_eq in E. contradiction.
  - rewrite lookup_set. destruct (path_eqb pp q) eqn:E; [|exact Hq].
    apply path_eqb_eq in E. subst q. contradiction.
  - rewrite lookup_set in Hq. destruct (path_eqb pp q); [discriminate|left; exact Hq].
Qed.

Lemma remove_file_Eff s p s' : remove_file s p = Some s' -> Eff (eq p) none s s'.
Proof.
  unfold remove_file. destruct (is_file s p) eqn:F; [|discriminate]. intros E. injection E as <-.
  eapply Eff_weaken; [| |apply (Eff_of_removals (eq p))]; auto.
  intros q. rewrite lookup_del. destruct (path_eqb p q) eqn:E; [|left; reflexivity].
  apply path_eqb_eq in E. subst q. right. auto.
Qed.

(* ------------------------------------------------------------------ prefixes *)
Lemma is_prefix_app a b : is_prefix a (a ++ b) = true.
Proof. induction a as [|x a IH]; cbn [is_prefix app]; [reflexivity|]. rewrite str_eqb_refl, IH. reflexivity. Qed.
Lemma is_prefix_refl a : is_prefix a a = true.
Proof. rewrite <- (app_nil_r a) at 2. apply is_prefix_app. Qed.

Lemma mkdir_go_spec : forall rest pre s s', mkdir_go s pre rest = Some s' ->
  forall q, lookup s' q = lookup s q
            \/ (lookup s q = None /\ lookup s' q = Some Dir /\ is_prefix q (pre ++ rest) = true).
Proof.
  induction rest as [|c rest IH]; intros pre s s' H q; cbn [mkdir_go] in H.
  - injection H as <-. left. reflexivity.
  - assert (Eapp : (pre ++ [c]) ++ rest = pre ++ c :: rest) by (rewrite <- app_assoc; reflexivity).
    destruct (lookup s (pre ++ [c])) as [[x|]|] eqn:L; [discriminate| |].
    + specialize (IH _ _ _ H q). rewrite Eapp in IH. exact IH.
    + specialize (IH _ _ _ H q). rewrite Eapp in IH. rewrite lookup_set in IH.
      destruct (path_eqb (pre ++ [c]) q) eqn:E.
      * apply path_eqb_eq in E. subst q. right. split; [exact L|]. split.
        -- destruct IH as [IH|(IH & _)]; [exact IH|discriminate].
        -- rewrite <- Eapp. apply is_prefix_app.
      * exact IH.
Qed.

Lemma mkdir_all_Eff s p s' : mkdir_all s p = Some s' -> Eff none (fun q => is_prefix q p = true) s s'.
Proof.
  unfold mkdir_all. intros H. pose proof (mkdir_go_spec _ _ _ _ H) as S. cbn [app] in S.
  repeat split; red; intros q Hq.
  - unfold file_at. destruct (S q) as [E|(E1 & E2 & _)]; [rewrite E; reflexivity|rewrite E1, E2; reflexivity].
  - destruct (S q) as [E|(E1 & _)]; [rewrite E; exact Hq|congruence].
  - destruct (S q) as [E|(_ & _ & P)]; [left; rewrite <- E; exact Hq|right; exact P].
Qed.

(* ------------------------------------------------------------------ plans *)
Definition step_ok (A B : path -> Prop) (op : step) := forall s s', op s = Some s' -> Eff A B s s'.

Lemma seq_Eff A B ops : Forall (step_ok A B) ops -> forall s, Eff A B s (fst (seq ops s)).
Proof.
  induction 1 as [|op ops Hop _ IH]; intros s; cbn [seq fst]; [apply Eff_refl|].
  destruct (op s) as [s1|] eqn:E; [|apply Eff_refl].
  eapply Eff_trans; [apply Hop, E|apply IH].
Qed.

(* ------------------------------------------------------------------ names *)
Lemma in_b_In n l : in_b n l = true <-> In n l.
Proof.
  unfold in_b. rewrite existsb_exists. split.
  - intros (x & Hx & E). apply str_eqb_eq in E. subst. exact Hx.
  - intros H. exists n. split; [exact H|apply str_eqb_refl].
Qed.

Lemma starts_spec p : forall n, starts p n = true <-> exists t, n = p ++ t.
Proof.
  induction p as [|a p IH]; intros n; cbn [starts].
  - split; [intros _; exists n; reflexivity|reflexivity].
  - destruct n as [|b n].
    + split; [discriminate|intros (t & E); discriminate].
    + rewrite andb_true_iff, IH. split.
      * intros (E & t & ->). apply Ascii.eqb_eq in E. subst. exists t. reflexivity.
      * intros (t & E). cbn [app] in E. injection E as -> ->. split; [apply Ascii.eqb_refl|exists t; reflexivity].
Qed.

Lemma contains_spec p : forall n, contains p n = true <-> exists a b, n = a ++ p ++ b.
Proof.
  induction n as [|c n IH]; cbn [contains]; rewrite orb_true_iff.
  - split.
    + intros [H|H]; [|discriminate]. apply starts_spec in H. destruct H as (t & E). exists [], t. exact E.
    + intros (a & b & E). left. apply starts_spec. destruct a; [|discriminate]. exists b. exact E.
  - split.
    + intros [H|H].
      * apply starts_spec in H. destruct H as (t & E). exists [], t. exact E.
      * apply IH in H. destruct H as (a & b & ->). exists (c :: a), b. reflexivity.
    + intros (a & b & E). destruct a as [|x a].
      * left. apply starts_spec. exists b. exact E.
      * right. apply IH. cbn [app] in E. injection E as _ ->. exists a, b. reflexivity.
Qed.

(* the boolean function on names is the list of the property text *)
Lemma reserved_name_b_iff n : reserved_name_b n = true <-> reserved_name n.
Proof.
  unfold reserved_name_b, reserved_name. rewrite !orb_true_iff, in_b_In, starts_spec, contains_spec. tauto.
Qed.

Lemma reserved_exact_listing :
  reserved_exact = map L ["types.ts"; "types.d.ts"; "commands.ts"; "commands.d.ts"; "events.ts"; "events.d.ts";
                          "index.ts"; "index.d.ts"; "schemas.ts"; "schemas.d.ts"; "models.ts"; "models.d.ts";
                          "bindings.ts"; "bindings.d.ts"; ".typecache"; "dependency-graph.txt"; "dependency-graph.dot"]%string.
Proof. vm_compute. reflexivity. Qed.

Lemma strip_prefix_spec d : forall q r, strip_prefix d q = Some r <-> q = d ++ r.
Proof.
  induction d as [|x d IH]; intros q r; cbn [strip_prefix app].
  - split; intros H; congruence.
  - destruct q as [|y q]; [split; discriminate|].
    destruct (str_eqb x y) eqn:E.
    + apply str_eqb_eq in E. subst y. rewrite IH. split; intros H; congruence.
    + apply str_eqb_neq in E. split; [discriminate|]. intros H. injection H as H _. congruence.
Qed.

Lemma reserved_b_iff out q : reserved_b out q = true <-> reserved out q.
Proof.
  unfold reserved_b, reserved. destruct (strip_prefix out q) as [r|] eqn:S.
  - apply strip_prefix_spec in S. subst q. destruct r as [|n [|m r]].
    + split; [discriminate|]. intros (n & E & _). apply app_inv_head in E. discriminate.
    + rewrite reserved_name_b_iff. split.
      * intros H. exists n. auto.
      * intros (m & E & H). apply app_inv_head in E. injection E as <-. exact H.
    + split; [discriminate|]. intros (k & E & _). apply app_inv_head in E. discriminate.
  - split; [discriminate|]. intros (n & E & _).
    assert (strip_prefix out q = Some [n]) as C by (apply strip_prefix_spec; exact E). congruence.
Qed.

(* what cleanup may select is reserved *)
Lemma patterns_reserved : forallb (fun x => in_b x reserved_exact) generated_patterns = true.
Proof. vm_compute. reflexivity. Qed.

Lemma is_generated_reserved m n :
  is_generated_file m n = true -> in_b n m = false -> reserved_name_b n = true.
Proof.
  unfold is_generated_file, reserved_name_b. intros H Hm. rewrite Hm, orb_false_r in H.
  rewrite !orb_true_iff in H. rewrite !orb_true_iff. destruct H as [[H|H]|H]; auto.
  left. left. apply in_b_In in H. pose proof patterns_reserved as P. rewrite forallb_forall in P. apply P, H.
Qed.

Lemma own_names_reserved :
  forallb reserved_name_b [n_types; n_commands; n_events; n_index; n_txt; n_dot; n_cache] = true.
Proof. vm_compute. reflexivity. Qed.

Lemma own_reserved n : In n [n_types; n_commands; n_events; n_index; n_txt; n_dot; n_cache] -> reserved_name n.
Proof. intros H. apply reserved_name_b_iff. pose proof own_names_reserved as P. rewrite forallb_forall in P. apply P, H. Qed.

Lemma probe_not_reserved : reserved_name_b n_probe = false.
Proof. vm_compute. reflexivity. Qed.

Lemma probe_path_not_reserved out : ~ reserved out (out ++ [n_probe]).
Proof.
  intros (n & E & H). apply app_inv_head in E. injection E as <-.
  apply reserved_name_b_iff in H. rewrite probe_not_reserved in H. discriminate.
Qed.

(* ------------------------------------------------------------------ names again: sources *)
Definition own_names : list str := [n_types; n_commands; n_events; n_index; n_txt; n_dot; n_cache].

Lemma own_not_rs : forallb (fun n => negb (ends_rs n)) (n_probe :: own_names ++ generated_patterns) = true.
Proof. vm_compute. reflexivity. Qed.

Lemma last_snoc (out : path) n : last (out ++ [n]) [] = n.
Proof. apply last_last. Qed.

Lemma is_source_child proj out n : is_source proj (out ++ [n]) = true -> ends_rs n = true.
Proof. unfold is_source. rewrite last_snoc. intros H. apply andb_prop in H. apply H. Qed.

Lemma not_rs_not_source proj out n : ends_rs n = false -> is_source proj (out ++ [n]) = false.
Proof. unfold is_source. rewrite last_snoc. intros ->. apply andb_false_r. Qed.

Lemma listed_not_rs n : In n (n_probe :: own_names ++ generated_patterns) -> ends_rs n = false.
Proof.
  intros H. pose proof own_not_rs as P. rewrite forallb_forall in P. apply P in H. apply negb_true_iff in H. exact H.
Qed.

(* ------------------------------------------------------------------ the generator *)
(* A_own: the seven files the tool writes; B_out: the output directory and its ancestors *)
Definition A_own (out : path) : path -> Prop := fun q => exists n, q = out ++ [n] /\ In n own_names.
Definition B_out (out : path) : path -> Prop := fun q => is_prefix q out = true.

Lemma w_ok out n c : In n own_names -> step_ok (A_own out) (B_out out) (w out n c).
Proof.
  intros R s s' H. unfold w in H. eapply Eff_weaken; [| |apply (write_Eff _ _ _ _ H)].
  - intros q <-. exists n. auto.
  - intros q [].
Qed.

Lemma mkdir_ok out : step_ok (A_own out) (B_out out) (fun s => mkdir_all s out).
Proof.
  intros s s' H. eapply Eff_weaken; [| |apply (mkdir_all_Eff _ _ _ H)].
  - intros q [].
  - intros q Hq. exact Hq.
Qed.

Ltac own := unfold own_names; cbn [In]; tauto.

Lemma writer_plan_ok out a : Forall (step_ok (A_own out) (B_out out)) (writer_plan out a).
Proof.
  unfold writer_plan. apply Forall_app. split.
  - repeat apply Forall_cons; [apply mkdir_ok|apply w_ok; own|apply w_ok; own|apply Forall_nil].
  - apply Forall_app. split.
    + destruct (k_events a); [apply Forall_cons; [apply w_ok; own|apply Forall_nil]|apply Forall_nil].
    + apply Forall_cons; [apply w_ok; own|apply Forall_nil].
Qed.

Lemma viz_plan_ok out a : Forall (step_ok (A_own out) (B_out out)) (viz_plan out a).
Proof. unfold viz_plan. repeat apply Forall_cons; try apply Forall_nil; apply w_ok; own. Qed.

Lemma cache_save_Eff out a s : Eff (A_own out) (B_out out) s (cache_save out a s).
Proof.
  unfold cache_save. destruct (mkdir_all s out) as [s1|] eqn:M; [|apply Eff_refl].
  eapply Eff_trans; [apply (mkdir_ok out _ _ M)|].
  destruct (write s1 (out ++ [n_cache]) (k_cache a)) as [s2|] eqn:Wr; [|apply Eff_refl].
  apply (w_ok out n_cache (k_cache a)); [own|exact Wr].
Qed.

Lemma generate_core_Eff c a s : Eff (A_own (c_out c)) (B_out (c_out c)) s (fst (generate_core c a s)).
Proof.
  unfold generate_core.
  set (ops := writer_plan (c_out c) a ++ (if c_viz c then viz_plan (c_out c) a else [])).
  assert (Forall (step_ok (A_own (c_out c)) (B_out (c_out c))) ops) as F.
  { apply Forall_app. split; [apply writer_plan_ok|]. destruct (c_viz c); [apply viz_plan_ok|apply Forall_nil]. }
  pose proof (seq_Eff _ _ _ F s) as E. destruct (seq ops s) as [s1 ok]. cbn [fst] in E.
  destruct ok; cbn [fst]; [|exact E].
  eapply Eff_trans; [exact E|apply cache_save_Eff].
Qed.

Lemma run_generate_Eff c a s : Eff (A_own (c_out c)) (B_out (c_out c)) s (fst (run_generate c a s)).
Proof.
  unfold run_generate.
  destruct (negb (c_lib_ok c)); [apply Eff_refl|].
  destruct (negb (exists_b s (c_proj c))); [apply Eff_refl|].
  destruct (negb (a_ok a)); [apply Eff_refl|].
  destruct (negb (a_cmds a)); [apply Eff_refl|].
  destruct (negb (c_force c) && cache_hit c a s); [apply Eff_refl|].
  pose proof (generate_core_Eff c a s) as E. destruct (generate_core c a s) as [s' ok]. exact E.
Qed.

(* ------------------------------------------------------------------ init *)
Lemma init_save_Eff i s s1 : init_save i s = Some s1 -> Eff (eq (i_target i)) none s s1.
Proof.
  unfold init_save. destruct (is_tauri_conf (i_target i)).
  - destruct (is_file s (i_target i) && i_parses i); [apply write_Eff|discriminate].
  - destruct (exists_b s (i_target i) && negb (i_force i)); [discriminate|apply write_Eff].
Qed.

Lemma run_init_Eff i c a s :
  Eff (fun q => A_own (c_out c) q \/ i_target i = q) (B_out (c_out c)) s (fst (run_init i c a s)).
Proof.
  unfold run_init. destruct (init_save i s) as [s1|] eqn:I; [|apply Eff_refl].
  eapply Eff_trans.
  - eapply Eff_weaken; [| |apply (init_save_Eff _ _ _ I)]; [intros q H; right; exact H|intros q []].
  - eapply Eff_weaken; [| |apply run_generate_Eff]; [intros q H; left; exact H|auto].
Qed.

(* ------------------------------------------------------------------ build script *)
(* A_cln: what cleanup may remove, by name *)
Definition A_cln (out : path) : path -> Prop :=
  fun q => exists n, q = out ++ [n] /\ (in_b n generated_patterns = true \/ gen_affix n = true).

Lemma is_generated_cases m n :
  is_generated_file m n = true -> in_b n m = false -> in_b n generated_patterns = true \/ gen_affix n = true.
Proof.
  unfold is_generated_file, gen_affix. intros H Hm. rewrite Hm, orb_false_r in H.
  rewrite !orb_true_iff in H. rewrite orb_true_iff. tauto.
Qed.

Lemma cleanup_spec out cur s :
  forall q, lookup (cleanup_old_files out cur s) q = lookup s q
            \/ (lookup (cleanup_old_files out cur s) q = None /\ A_cln out q /\ is_file s q = true).
Proof.
  unfold cleanup_old_files.
  assert (forall n, In n (child_files s out) -> is_file s (out ++ [n]) = true) as HC.
  { intros n H. unfold child_files in H. apply in_flat_map in H. destruct H as (e & _ & H).
    destruct (strip_prefix out (fst e)) as [[|m [|k r]]|] eqn:S; try contradiction.
    destruct (is_file s (fst e)) eqn:F; [|contradiction]. destruct H as [<-|[]].
    apply strip_prefix_spec in S. rewrite <- S. exact F. }
  revert HC. generalize (child_files s out) as names. intros names.
  assert (forall acc, (forall n, In n names -> is_file s (out ++ [n]) = true) ->
            forall q, lookup (fold_left (fun acc n => if is_generated_file cur n && negb (in_b n cur)
                                                       then del acc (out ++ [n]) else acc) names acc) q = lookup acc q
                      \/ (lookup (fold_left (fun acc n => if is_generated_file cur n && negb (in_b n cur)
                                                           then del acc (out ++ [n]) else acc) names acc) q = None
                          /\ A_cln out q /\ is_file s q = true)) as G.
  { induction names as [|n names IH]; intros acc HC q; cbn [fold_left]; [left; reflexivity|].
    assert (forall m, In m names -> is_file s (out ++ [m]) = true) as HC' by (intros m Hm; apply HC; right; exact Hm).
    destruct (is_generated_file cur n && negb (in_b n cur)) eqn:C.
    - destruct (IH (del acc (out ++ [n])) HC' q) as [E|E]; [|right; exact E].
      rewrite lookup_del in E. destruct (path_eqb (out ++ [n]) q) eqn:Q; [|left; exact E].
      apply path_eqb_eq in Q. subst q. right. split; [exact E|]. split; [|apply HC; left; reflexivity].
      apply andb_prop in C. destruct C as [C1 C2]. apply negb_true_iff in C2.
      exists n. split; [reflexivity|]. eapply is_generated_cases; eauto.
    - apply IH, HC'. }
  intros HC. apply G, HC.
Qed.

Definition A_build (out : path) : path -> Prop :=
  fun q => A_own out q \/ out ++ [n_probe] = q \/ A_cln out q.

Lemma cleanup_Eff out cur s : Eff (A_build out) (B_out out) s (cleanup_old_files out cur s).
Proof.
  eapply Eff_weaken; [| |apply (Eff_of_removals (A_cln out)), cleanup_spec]; [|intros q []].
  intros q H. right. right. exact H.
Qed.

Lemma prepare_Eff out s s1 : prepare_output_directory out s = Some s1 -> Eff (A_build out) (B_out out) s s1.
Proof.
  unfold prepare_output_directory. intros H.
  assert (exists s0, (if exists_b s out then Some s else mkdir_all s out) = Some s0 /\
                     Eff (A_build out) (B_out out) s s0) as (s0 & E0 & F0).
  { destruct (exists_b s out).
    - exists s. split; [reflexivity|apply Eff_refl].
    - destruct (mkdir_all s out) as [s0|] eqn:M; [|discriminate]. exists s0. split; [reflexivity|].
      eapply Eff_weaken; [| |apply (mkdir_ok out _ _ M)]; [intros q Hq; left; exact Hq|auto]. }
  rewrite E0 in H. destruct (write s0 (out ++ [n_probe]) (L "test")) as [s2|] eqn:Wr; [|discriminate].
  injection H as <-. eapply Eff_trans; [exact F0|].
  assert (Eff (A_build out) (B_out out) s0 s2) as F2.
  { eapply Eff_weaken; [| |apply (write_Eff _ _ _ _ Wr)]; [intros q Hq; right; left; exact Hq|intros q []]. }
  destruct (remove_file s2 (out ++ [n_probe])) as [s3|] eqn:R; [|exact F2].
  eapply Eff_trans; [exact F2|].
  eapply Eff_weaken; [| |apply (remove_file_Eff _ _ _ R)]; [intros q Hq; right; left; exact Hq|intros q []].
Qed.

Lemma finalize_Eff out files s : Eff (A_build out) (B_out out) s (fst (finalize_generation out files s)).
Proof.
  unfold finalize_generation. destruct (prepare_output_directory out s) as [s1|] eqn:P; cbn [fst]; [|apply Eff_refl].
  eapply Eff_trans; [apply (prepare_Eff _ _ _ P)|apply cleanup_Eff].
Qed.

Lemma Eff_out_build out s s' : Eff (A_own out) (B_out out) s s' -> Eff (A_build out) (B_out out) s s'.
Proof. apply Eff_weaken; [intros q Hq; left; exact Hq|auto]. Qed.

Lemma run_build_Eff d c a s : Eff (A_build (c_out c)) (B_out (c_out c)) s (fst (run_build d c a s)).
Proof.
  unfold run_build. destruct (negb d); [apply Eff_refl|].
  destruct (negb (exists_b s (c_proj c)) || negb (a_ok a)); [apply Eff_refl|].
  destruct (negb (a_cmds a)); cbn [negb].
  { pose proof (finalize_Eff (c_out c) [] s) as F. destruct (finalize_generation (c_out c) [] s). exact F. }
  destruct (negb (c_force c) && cache_hit c a s); cbn [negb].
  { pose proof (finalize_Eff (c_out c) (child_files s (c_out c)) s) as F.
    destruct (finalize_generation (c_out c) (child_files s (c_out c)) s). exact F. }
  destruct (negb (c_lib_ok c)); cbn [negb fst]; [apply Eff_refl|].
  pose proof (generate_core_Eff c a s) as G. destruct (generate_core c a s) as [s1 ok]. cbn [fst] in G.
  destruct ok; cbn [negb fst]; [|apply Eff_out_build, G].
  pose proof (finalize_Eff (c_out c) (written_names a) s1) as F.
  destruct (finalize_generation (c_out c) (written_names a) s1) as [s2 ok2]. cbn [fst] in *.
  eapply Eff_trans; [apply Eff_out_build, G|exact F].
Qed.

(* a build run creates regular files only under the seven own names: anywhere else,
   where no regular file was, none is afterwards (the probe is written and removed) *)
Lemma removal_keeps_none s s' q :
  (lookup s' q = lookup s q \/ lookup s' q = None) -> file_at s q = None -> file_at s' q = None.
Proof. unfold file_at. intros [E|E] H; rewrite E; [exact H|reflexivity]. Qed.

Lemma prepare_none out s s1 q :
  prepare_output_directory out s = Some s1 -> file_at s q = None -> file_at s1 q = None.
Proof.
  unfold prepare_output_directory. intros H N.
  assert (exists s0, (if exists_b s out then Some s else mkdir_all s out) = Some s0 /\ file_at s0 q = None) as (s0 & E0 & N0).
  { destruct (exists_b s out); [exists s; auto|].
    destruct (mkdir_all s out) as [s0|] eqn:M; [|discriminate]. exists s0. split; [reflexivity|].
    destruct (mkdir_all_Eff _ _ _ M) as (F & _). rewrite F; [exact N|intros []]. }
  rewrite E0 in H.
  destruct (write s0 (out ++ [n_probe]) (L "test")) as [s2|] eqn:Wr; [|discriminate].
  injection H as <-.
  assert (lookup s2 (out ++ [n_probe]) = Some (File (L "test"))) as L2.
  { unfold write in Wr. destruct (out ++ [n_probe]) as [|x p] eqn:E; [discriminate|].
    destruct (is_dir s0 (parent (x :: p)) && negb (is_dir s0 (x :: p))); [|discriminate].
    injection Wr as <-. rewrite lookup_set, path_eqb_refl. reflexivity. }
  unfold remove_file, is_file. rewrite L2.
  destruct (path_eqb (out ++ [n_probe]) q) eqn:Q.
  - apply path_eqb_eq in Q. subst q. unfold file_at. rewrite lookup_del, path_eqb_refl. reflexivity.
  - apply path_eqb_neq in Q. apply (removal_keeps_none s2).
    + left. rewrite lookup_del. destruct (path_eqb (out ++ [n_probe]) q) eqn:Q'; [|reflexivity].
      apply path_eqb_eq in Q'. contradiction.
    + destruct (write_Eff _ _ _ _ Wr) as (F & _). rewrite F; [exact N0|exact Q].
Qed.

Lemma finalize_none out files s q :
  file_at s q = None -> file_at (fst (finalize_generation out files s)) q = None.
Proof.
  intros H. unfold finalize_generation. destruct (prepare_output_directory out s) as [s1|] eqn:P; cbn [fst]; [|exact H].
  apply (removal_keeps_none s1); [|apply (prepare_none _ _ _ _ P H)].
  destruct (cleanup_spec out files s1 q) as [E|(E & _)]; auto.
Qed.

Lemma run_build_none d c a s q :
  ~ A_own (c_out c) q -> file_at s q = None -> file_at (fst (run_build d c a s)) q = None.
Proof.
  intros NA H. unfold run_build. destruct (negb d); [exact H|].
  destruct (negb (exists_b s (c_proj c)) || negb (a_ok a)); [exact H|].
  destruct (negb (a_cmds a)); cbn [negb].
  { pose proof (finalize_none (c_out c) [] s q H) as F. destruct (finalize_generation (c_out c) [] s). exact F. }
  destruct (negb (c_force c) && cache_hit c a s); cbn [negb].
  { pose proof (finalize_none (c_out c) (child_files s (c_out c)) s q H) as F.
    destruct (finalize_generation (c_out c) (child_files s (c_out c)) s). exact F. }
  destruct (negb (c_lib_ok c)); cbn [negb fst]; [exact H|].
  pose proof (generate_core_Eff c a s) as (G & _). destruct (generate_core c a s) as [s1 ok]. cbn [fst] in G.
  assert (file_at s1 q = None) as H1 by (rewrite (G _ NA); exact H).
  destruct ok; cbn [negb fst]; [|exact H1].
  pose proof (finalize_none (c_out c) (written_names a) s1 q H1) as F.
  destruct (finalize_generation (c_out c) (written_names a) s1). exact F.
Qed.

(* ------------------------------------------------------------------ one run *)
(* everything a run may touch, both classes included *)
Definition touch (r : run) (q : path) : Prop :=
  may_change r q \/ init_target r = Some q
  \/ (is_build r = true /\ q = out_of r ++ [n_probe])
  \/ (is_build r = true /\ exists n, q = out_of r ++ [n] /\ is_source (proj_of r) q = true /\ gen_affix n = true).

Lemma own_may_change r q : A_own (out_of r) q -> may_change r q.
Proof.
  intros (n & -> & H). split.
  - exists n. split; [reflexivity|]. apply own_reserved. exact H.
  - apply not_rs_not_source, listed_not_rs. right. apply in_or_app. left. exact H.
Qed.

Lemma cln_reserved out q : A_cln out q -> reserved out q.
Proof.
  intros (n & -> & H). exists n. split; [reflexivity|]. apply reserved_name_b_iff.
  unfold reserved_name_b. destruct H as [H|H].
  - apply in_b_In in H. pose proof patterns_reserved as P. rewrite forallb_forall in P. rewrite (P _ H). reflexivity.
  - unfold gen_affix in H. rewrite <- orb_assoc, H. apply orb_true_r.
Qed.

Lemma cln_touch r q : is_build r = true -> A_cln (out_of r) q -> touch r q.
Proof.
  intros Bd H. pose proof (cln_reserved _ _ H) as R. destruct H as (n & -> & H).
  destruct (is_source (proj_of r) (out_of r ++ [n])) eqn:S.
  - right. right. right. split; [exact Bd|]. exists n. split; [reflexivity|]. split; [exact S|].
    destruct H as [H|H]; [|exact H]. apply is_source_child in S.
    apply in_b_In in H. rewrite (listed_not_rs n) in S; [discriminate|].
    right. apply in_or_app. right. exact H.
  - left. split; assumption.
Qed.

Lemma exec_Eff r s : Eff (touch r) (B_out (out_of r)) s (fst (exec r s)).
Proof.
  unfold exec. destruct (r_entry r) as [|i|d] eqn:E.
  - eapply Eff_weaken; [| |apply run_generate_Eff]; [|auto].
    intros q H. left. apply own_may_change, H.
  - eapply Eff_weaken; [| |apply run_init_Eff]; [|auto].
    intros q [H|H]; [left; apply own_may_change, H|right; left; unfold init_target; rewrite E; congruence].
  - assert (is_build r = true) as Bd by (unfold is_build; rewrite E; reflexivity).
    eapply Eff_weaken; [| |apply run_build_Eff]; [|auto].
    intros q [H|[H|H]].
    + left. apply own_may_change, H.
    + right. right. left. split; [exact Bd|]. symmetry. exact H.
    + apply cln_touch; assumption.
Qed.

Lemma exec_frame_all r s q : ~ touch r q -> file_at (fst (exec r s)) q = file_at s q.
Proof. intros H. destruct (exec_Eff r s) as (F & _). apply F, H. Qed.

Lemma lookup_In s q x : lookup s q = Some x -> In (q, x) s.
Proof.
  induction s as [|[p n] s IH]; cbn [lookup]; [discriminate|].
  destruct (path_eqb p q) eqn:E.
  - apply path_eqb_eq in E. subst p. intros H. injection H as ->. left. reflexivity.
  - intros H. right. apply IH, H.
Qed.

Lemma is_file_child s out n : is_file s (out ++ [n]) = true -> In n (child_files s out).
Proof.
  intros F. unfold child_files. apply in_flat_map.
  unfold is_file in F. destruct (lookup s (out ++ [n])) as [[c|]|] eqn:Lk; try discriminate.
  exists (out ++ [n], File c). split; [apply lookup_In, Lk|]. cbn [fst].
  assert (strip_prefix out (out ++ [n]) = Some [n]) as S by (apply strip_prefix_spec; reflexivity).
  rewrite S. unfold is_file. rewrite Lk. left. reflexivity.
Qed.

Lemma exec_frame r s q :
  kf_C16 r s = false ->
  ~ may_change r q -> init_target r <> Some q ->
  file_at (fst (exec r s)) q = file_at s q.
Proof.
  intros K R I. apply orb_false_iff in K. destruct K as [K1 K2].
  destruct (is_build r) eqn:Bd.
  2:{ apply exec_frame_all. unfold touch. rewrite Bd.
      intros [H|[H|[[H _]|[H _]]]]; [contradiction|contradiction|discriminate|discriminate]. }
  unfold kf_C16_write_test in K1. unfold kf_C16_source_cleanup in K2. rewrite Bd in K1, K2. cbn [andb] in K1, K2.
  destruct (file_at s q) as [c|] eqn:Fq.
  - (* a regular file is there: it is neither the probe nor a source the cleanup takes *)
    rewrite <- Fq. apply exec_frame_all. unfold touch. intros [H|[H|[[_ H]|[_ (n & -> & S & G)]]]]; try contradiction.
    + subst q. apply is_file_file_at in K1. congruence.
    + assert (is_file s (out_of r ++ [n]) = true) as F by (unfold is_file, file_at in *; destruct (lookup s (out_of r ++ [n])) as [[x|]|]; congruence).
      apply is_file_child in F.
      assert (existsb (fun n0 => is_source (proj_of r) (out_of r ++ [n0]) && gen_affix n0) (child_files s (out_of r)) = true) as C.
      { apply existsb_exists. exists n. split; [exact F|]. rewrite S, G. reflexivity. }
      congruence.
  - (* nothing is there: nothing appears *)
    unfold exec. destruct r as [e c a]. unfold is_build in Bd. cbn [r_entry r_cfg r_ana] in *.
    destruct e as [|i|d]; try discriminate. apply run_build_none; [|exact Fq].
    intro H. apply R. apply (own_may_change {| r_entry := Build d; r_cfg := c; r_ana := a |}), H.
Qed.

(* ------------------------------------------------------------------ histories *)
Lemma fs_after_cons r runs s : fs_after (r :: runs) s = fs_after runs (fst (exec r s)).
Proof. reflexivity. Qed.

Theorem frame_history : forall runs s q,
  kf_C16_history runs s = false ->
  (forall r, In r runs -> ~ may_change r q /\ init_target r <> Some q) ->
  file_at (fs_after runs s) q = file_at s q.
Proof.
  induction runs as [|r runs IH]; intros s q K H; [reflexivity|].
  rewrite fs_after_cons. cbn [kf_C16_history] in K. apply orb_false_iff in K. destruct K as [K1 K2].
  rewrite IH; [|exact K2|intros r' Hr'; apply H; right; exact Hr'].
  destruct (H r (or_introl eq_refl)) as [R I]. apply exec_frame; assumption.
Qed.

(* without the class premise: the probe path and generated-looking sources of a build run are the only further paths *)
Theorem frame_history_all : forall runs s q,
  (forall r, In r runs -> ~ touch r q) -> file_at (fs_after runs s) q = file_at s q.
Proof.
  induction runs as [|r runs IH]; intros s q H; [reflexivity|].
  rewrite fs_after_cons, IH; [|intros r' Hr'; apply H; right; exact Hr'].
  apply exec_frame_all, H. left. reflexivity.
Qed.

(* the CLI paths are in neither class: generate and init never touch a project source or a foreign file *)
Theorem frame_cli : forall r s q,
  is_build r = false -> ~ may_change r q -> init_target r <> Some q ->
  file_at (fst (exec r s)) q = file_at s q.
Proof.
  intros r s q Bd R I. apply exec_frame; try assumption.
  unfold kf_C16, kf_C16_write_test, kf_C16_source_cleanup. rewrite Bd. reflexivity.
Qed.

Theorem dirs_history : forall runs s q,
  (lookup s q = Some Dir -> lookup (fs_after runs s) q = Some Dir) /\
  (lookup (fs_after runs s) q = Some Dir ->
   lookup s q = Some Dir \/ exists r, In r runs /\ is_prefix q (out_of r) = true).
Proof.
  induction runs as [|r runs IH]; intros s q.
  - split; [auto|left; assumption].
  - rewrite fs_after_cons. destruct (exec_Eff r s) as (_ & M & N). destruct (IH (fst (exec r s)) q) as [I1 I2]. split.
    + intros H. apply I1, M, H.
    + intros H. destruct (I2 H) as [H1|(r' & Hr' & P)].
      * destruct (N q H1) as [H2|H2]; [left; exact H2|right; exists r; split; [left; reflexivity|exact H2]].
      * right. exists r'. split; [right; exact Hr'|exact P].
Qed.

(* init alone: only the file it was pointed at, plus what the following generate may *)
Theorem init_frame i c a s q :
  ~ (reserved (c_out c) q /\ is_source (c_proj c) q = false) -> q <> i_target i ->
  file_at (fst (run_init i c a s)) q = file_at s q.
Proof.
  intros R T. destruct (run_init_Eff i c a s) as (F & _). apply F. intros [H|H]; [|congruence].
  apply R. apply (own_may_change {| r_entry := Generate; r_cfg := c; r_ana := a |}), H.
Qed.

(* ------------------------------------------------------------------ the recorded defects, inside Coq *)
Definition wit_cfg : cfg := {| c_out := [L "gen"]; c_proj := [L "src-tauri"]; c_lib_ok := true; c_force := false; c_viz := false |}.
Definition wit_ana : ana := {| a_ok := true; a_cmds := true; k_types := L "T"; k_commands := L "C"; k_events := None;
                               k_index := L "I"; k_txt := L "x"; k_dot := L "d"; k_cache := L "H" |}.
Definition wit_run : run := {| r_entry := Build true; r_cfg := wit_cfg; r_ana := wit_ana |}.
Definition wit_fs : fs :=
  [([L "src-tauri"], Dir); ([L "gen"], Dir); ([L "gen"; L ".write_test"], File (L "my notes"));
   ([L "gen"; L "notes.ts"], File (L "user")); ([L "gen"; L "models.ts"], File (L "old"))].

Lemma write_test_refuted :
  exists r s q c, is_build r = true /\ ~ may_change r q /\ init_target r <> Some q /\
                  file_at s q = Some c /\ file_at (fst (exec r s)) q = None.
Proof.
  exists wit_run, wit_fs, [L "gen"; L ".write_test"], (L "my notes").
  split; [reflexivity|]. split.
  - intros [H _]. apply reserved_b_iff in H. vm_compute in H. discriminate.
  - split; [discriminate|]. split; vm_compute; reflexivity.
Qed.

Lemma wit_in_class : kf_C16_write_test wit_run wit_fs = true /\ kf_C16_source_cleanup wit_run wit_fs = false.
Proof. vm_compute. split; reflexivity. Qed.

(* output directory = source directory, holding generated_cmds.rs *)
Definition wit2_cfg : cfg := {| c_out := [L "src-tauri"; L "src"]; c_proj := [L "src-tauri"]; c_lib_ok := true; c_force := false; c_viz := false |}.
Definition wit2_run : run := {| r_entry := Build true; r_cfg := wit2_cfg; r_ana := wit_ana |}.
Definition wit2_fs : fs :=
  [([L "src-tauri"], Dir); ([L "src-tauri"; L "src"], Dir);
   ([L "src-tauri"; L "src"; L "main.rs"], File (L "mod generated_cmds;"));
   ([L "src-tauri"; L "src"; L "generated_cmds.rs"], File (L "#[tauri::command] fn ping() {}"))].

Lemma source_cleanup_refuted :
  exists r s q c, is_build r = true /\ is_source (proj_of r) q = true /\ init_target r <> Some q /\
                  file_at s q = Some c /\ file_at (fst (exec r s)) q = None.
Proof.
  exists wit2_run, wit2_fs, [L "src-tauri"; L "src"; L "generated_cmds.rs"], (L "#[tauri::command] fn ping() {}").
  split; [reflexivity|]. split; [vm_compute; reflexivity|]. split; [discriminate|]. split; vm_compute; reflexivity.
Qed.

Lemma wit2_in_class : kf_C16_write_test wit2_run wit2_fs = false /\ kf_C16_source_cleanup wit2_run wit2_fs = true.
Proof. vm_compute. split; reflexivity. Qed.

(* the statement without the class premise is false of the faithful model *)
Definition frame_unconditional_statement : Prop :=
  forall runs s q,
    (forall r, In r runs -> ~ may_change r q /\ init_target r <> Some q) ->
    file_at (fs_after runs s) q = file_at s q.

Lemma frame_unconditional_refuted : ~ frame_unconditional_statement.
Proof.
  intros H. specialize (H [wit_run] wit_fs [L "gen"; L ".write_test"]).
  assert (file_at (fs_after [wit_run] wit_fs) [L "gen"; L ".write_test"] = None) as E1 by (vm_compute; reflexivity).
  assert (file_at wit_fs [L "gen"; L ".write_test"] = Some (L "my notes")) as E2 by (vm_compute; reflexivity).
  rewrite E1, E2 in H. enough (None = Some (L "my notes")) by discriminate. apply H.
  intros r [<-|[]]. split.
  - intros [R _]. apply reserved_b_iff in R. vm_compute in R. discriminate.
  - discriminate.
Qed.

Lemma not_may_change_by_b r q : reserved_b (out_of r) q && negb (is_source (proj_of r) q) = false -> ~ may_change r q.
Proof.
  intros H [R S]. apply reserved_b_iff in R. rewrite R, S in H. discriminate.
Qed.

Lemma cleanup_selects_reserved m n :
  is_generated_file m n = true -> in_b n m = false -> reserved_name n.
Proof. intros H1 H2. apply reserved_name_b_iff. eapply is_generated_reserved; eauto. Qed.
