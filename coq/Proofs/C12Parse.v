(* C12, string level, part 1: the token stream of the events module (two imports, then the
   listener template once per record, with holes for the function identifier, the event name and the
   payload type) parses - with the specification parser of Spec/TsModule.v and the observation
   find_listen of Spec/C12Spec.v - back to exactly the listener records, for every list of records. *)
From Coq Require Import String Ascii List Arith Lia Bool.
Require Import TT.Model.Str TT.Spec.TsLex TT.Spec.TsModule TT.Spec.TsObs TT.Model.Pipeline TT.Model.Events TT.Spec.C12Spec.
Require Import TT.Proofs.StrFacts.
Import ListNotations.
Local Open Scope list_scope.

Inductive pty := PPrim (p : str) | PCustom (n : str).
Definition pty_text (t : pty) : str := match t with PPrim p => p | PCustom n => L "types." ++ n end.
Definition pty_toks (t : pty) : list tk := match t with PPrim p => [KId p] | PCustom n => [KId (L "types"); P "."; KId n] end.
Definition pty_ty (t : pty) : ty := match t with PPrim p => TyRef [p] [] | PCustom n => TyRef [L "types"; n] [] end.
Definition SQ : ascii := "'"%char.
Definition body_toks (ev : str) (t : pty) : list tk :=
  [I "return"; I "listen"; P "<"] ++ pty_toks t ++
  [P ">"; P "("; KStr SQ ev; P ","; P "("; I "event"; P ")"; P "=>"; P "{"; I "handler"; P "("; I "event"; P "."; I "payload"; P ")"; P ";"; P "}"; P ")"; P ";"].
Definition listener_toks (name ev : str) (t : pty) : list tk :=
  [I "export"; I "async"; I "function"; KId name; P "("; I "handler"; P ":"; P "("; I "payload"; P ":"] ++ pty_toks t ++
  [P ")"; P "=>"; I "void"; P ")"; P ":"; I "Promise"; P "<"; I "UnlistenFn"; P ">"; P "{"] ++ body_toks ev t ++ [P "}"].
Definition listener_item (name ev : str) (t : pty) : item :=
  IFunction true name [(L "handler", false, TyFun [(L "payload", false, pty_ty t)] (TyRef [L "void"] []))]
            (Some (TyRef [L "Promise"] [TyRef [L "UnlistenFn"] []])) (body_toks ev t).



Lemma ident_not_single k c : is_ts_identifier k = true -> is_id_start c = false -> str_eqb k [c] = false.
Proof.
  intros Hk Hc. apply str_eqb_neq. intro E. subst k. cbn [is_ts_identifier] in Hk. rewrite Hc in Hk. discriminate Hk.
Qed.

(* ---- the function-item branch of p_item, with its sub-parsers as premises ---- *)
Lemma p_item_function name r4 ps r' t r7 body r8 :
  pparams r4 = Some (ps, P ":" :: r') -> ptype r' = Some (t, P "{" :: r7) ->
  p_balanced (S (List.length r7)) 0 r7 [] = Some (body, r8) ->
  p_item (I "export" :: I "async" :: I "function" :: KId name :: P "(" :: r4) = Some (IFunction true name ps (Some t) body, r8).
Proof.
  intros H1 H2 H3.
  change (p_item (I "export" :: I "async" :: I "function" :: KId name :: P "(" :: r4)) with
    (match pparams r4 with
     | Some (ps, r5) =>
         let '(ret, r6) := match r5 with
                           | col :: r' => if tk_is ":" col then match ptype r' with Some (t, r'') => (Some (Some t), r'') | None => (None, r') end
                                          else (Some None, r5)
                           | [] => (Some None, r5) end in
         match ret, expect "{" r6 with
         | Some ret, Some r7 => match p_balanced (S (List.length r7)) 0 r7 [] with
                                | Some (body, r8) => Some (IFunction true name ps ret body, r8)
                                | None => None end
         | _, _ => None end
     | None => None end).
  rewrite H1.
  change (tk_is ":" (P ":")) with true. cbv beta iota. rewrite H2.
  change (expect "{" (P "{" :: r7)) with (Some r7). cbv beta iota. rewrite H3. reflexivity.
Qed.

(* ---- balanced bodies ---- *)
Definition opens (t : tk) : bool := tk_is "{" t || tk_is "(" t || tk_is "[" t.
Definition closes (t : tk) : bool := tk_is "}" t || tk_is ")" t || tk_is "]" t.
Definition is_kerr (t : tk) : bool := match t with KErr _ => true | _ => false end.
Fixpoint walk (d : nat) (b : list tk) : option nat :=
  match b with
  | [] => Some d
  | c :: r => if opens c then walk (S d) r
              else if closes c then match d with 0 => None | S d' => walk d' r end
              else if is_kerr c then None else walk d r
  end.
Lemma p_balanced_step n d c r acc :
  p_balanced (S n) d (c :: r) acc =
  if opens c then p_balanced n (S d) r (c :: acc)
  else if closes c then match d with 0 => if tk_is "}" c then Some (rev acc, r) else None | S d' => p_balanced n d' r (c :: acc) end
  else match c with KErr _ => None | _ => p_balanced n d r (c :: acc) end.
Proof. reflexivity. Qed.
Lemma p_balanced_walk : forall b d d' n tail acc, walk d b = Some d' -> List.length b <= n ->
  p_balanced (n + List.length tail) d (b ++ tail) acc = p_balanced (n - List.length b + List.length tail) d' tail (rev b ++ acc).
Proof.
  induction b as [|c r IH]; intros d d' n tail acc Hw Hn.
  - cbn [walk] in Hw. inversion Hw; subst. cbn [List.length rev app]. rewrite Nat.sub_0_r. reflexivity.
  - cbn [List.length] in Hn. destruct n as [|n]; [lia|]. cbn [walk] in Hw.
    change (S n + List.length tail) with (S (n + List.length tail)). change ((c :: r) ++ tail) with (c :: r ++ tail).
    rewrite p_balanced_step. cbn [List.length rev Nat.sub]. rewrite <- app_assoc. cbn [app].
    destruct (opens c); [apply IH; [exact Hw|lia]|].
    destruct (closes c); [destruct d as [|d0]; [discriminate Hw|apply IH; [exact Hw|lia]]|].
    destruct c; try discriminate Hw; (apply IH; [exact Hw|lia]).
Qed.
Lemma p_balanced_body b rest : walk 0 b = Some 0 ->
  p_balanced (S (List.length (b ++ P "}" :: rest))) 0 (b ++ P "}" :: rest) [] = Some (b, rest).
Proof.
  intro Hw. rewrite app_length. cbn [List.length].
  replace (S (List.length b + S (List.length rest))) with (S (List.length b) + List.length (P "}" :: rest)) by (cbn [List.length]; lia).
  rewrite (p_balanced_walk b 0 0 _ _ [] Hw) by lia.
  replace (S (List.length b) - List.length b) with 1 by lia. cbn [List.length Nat.add p_balanced].
  change (tk_is "{" (P "}") || tk_is "(" (P "}") || tk_is "[" (P "}")) with false.
  change (tk_is "}" (P "}") || tk_is ")" (P "}") || tk_is "]" (P "}")) with true. cbv beta iota.
  change (tk_is "}" (P "}")) with true. cbv beta iota. rewrite app_nil_r, rev_involutive. reflexivity.
Qed.
Lemma walk_app d b1 b2 : walk d (b1 ++ b2) = match walk d b1 with Some d' => walk d' b2 | None => None end.
Proof.
  revert d. induction b1 as [|c r IH]; intro d; [reflexivity|]. change ((c :: r) ++ b2) with (c :: (r ++ b2)). cbn [walk].
  destruct (opens c); [apply IH|]. destruct (closes c); [destruct d; [reflexivity|apply IH]|]. destruct (is_kerr c); [reflexivity|apply IH].
Qed.
Lemma walk_ident d n : is_ts_identifier n = true -> walk d [KId n] = Some d.
Proof.
  intro Hn. cbn [walk]. unfold opens, closes, tk_is. 
  change (L "{") with ["{"%char]. change (L "(") with ["("%char]. change (L "[") with ["["%char].
  change (L "}") with ["}"%char]. change (L ")") with [")"%char]. change (L "]") with ["]"%char].
  rewrite !(ident_not_single n) by (exact Hn || reflexivity). reflexivity.
Qed.
Definition pty_ok (t : pty) : bool :=
  match t with
  | PPrim p => named p ["string"; "number"; "boolean"; "void"; "unknown"]%string
  | PCustom n => is_ts_identifier n && negb (str_eqb n (L "listen")) end.
Lemma walk_body ev t : pty_ok t = true -> walk 0 (body_toks ev t) = Some 0.
Proof.
  destruct t as [p|n]; intro H.
  - unfold pty_ok, named in H. cbn [existsb] in H.
    repeat (apply orb_true_iff in H; destruct H as [H|H]; [apply str_eqb_eq in H; subst p; vm_compute; reflexivity|]). discriminate H.
  - apply andb_true_iff in H. destruct H as [Hn _]. unfold body_toks, pty_toks.
    change (walk 0 ([I "return"; I "listen"; P "<"] ++ [KId (L "types"); P "."; KId n] ++
       [P ">"; P "("; KStr SQ ev; P ","; P "("; I "event"; P ")"; P "=>"; P "{"; I "handler"; P "("; I "event"; P "."; I "payload"; P ")"; P ";"; P "}"; P ")"; P ";"]))
      with (walk 0 ([I "return"; I "listen"; P "<"; KId (L "types"); P "."] ++ [KId n] ++
       [P ">"; P "("; KStr SQ ev; P ","; P "("; I "event"; P ")"; P "=>"; P "{"; I "handler"; P "("; I "event"; P "."; I "payload"; P ")"; P ";"; P "}"; P ")"; P ";"])).
    rewrite walk_app. change (walk 0 [I "return"; I "listen"; P "<"; KId (L "types"); P "."]) with (Some 0).
    cbv beta iota. rewrite walk_app, (walk_ident 0 n Hn). vm_compute. reflexivity.
Qed.

(* ---- sub-parsers on the template's parameter list and return type ---- *)
Definition params_toks (t : pty) : list tk :=
  [I "handler"; P ":"; P "("; I "payload"; P ":"] ++ pty_toks t ++ [P ")"; P "=>"; I "void"; P ")"].
Definition handler_params (t : pty) : list (str * bool * ty) :=
  [(L "handler", false, TyFun [(L "payload", false, pty_ty t)] (TyRef [L "void"] []))].
Lemma pty_prim_cases t : pty_ok t = true ->
  (exists p, t = PPrim p /\ In p (map L ["string"; "number"; "boolean"; "void"; "unknown"]%string)) \/
  (exists n, t = PCustom n /\ is_ts_identifier n = true /\ str_eqb n (L "listen") = false).
Proof.
  destruct t as [p|n]; intro H.
  - left. exists p. split; [reflexivity|]. unfold pty_ok, named in H. apply existsb_exists in H. destruct H as [x [Hx He]].
    apply str_eqb_eq in He. subst p. apply in_map. exact Hx.
  - right. exists n. apply andb_true_iff in H. destruct H as [H1 H2]. apply negb_true_iff in H2. auto.
Qed.
Lemma pparams_handler t r : pty_ok t = true ->
  pparams (params_toks t ++ P ":" :: r) = Some (handler_params t, P ":" :: r).
Proof.
  intro H. destruct (pty_prim_cases t H) as [[p [-> Hp]]|[n [-> _]]].
  - cbn [map In] in Hp. repeat (destruct Hp as [<-|Hp]; [vm_compute; reflexivity|]). destruct Hp.
  - vm_compute. reflexivity.
Qed.
Lemma ptype_promise r : ptype ([I "Promise"; P "<"; I "UnlistenFn"; P ">"] ++ P "{" :: I "return" :: r)
  = Some (TyRef [L "Promise"] [TyRef [L "UnlistenFn"] []], P "{" :: I "return" :: r).
Proof. vm_compute. reflexivity. Qed.

Theorem p_item_listener name ev t rest : pty_ok t = true ->
  p_item (listener_toks name ev t ++ rest) = Some (listener_item name ev t, rest).
Proof.
  intro H. unfold listener_item.
  assert (E : listener_toks name ev t ++ rest =
    I "export" :: I "async" :: I "function" :: KId name :: P "(" ::
     (params_toks t ++ P ":" :: ([I "Promise"; P "<"; I "UnlistenFn"; P ">"] ++ P "{" :: I "return" :: (List.tl (body_toks ev t) ++ P "}" :: rest)))).
  { destruct t; reflexivity. }
  rewrite E. eapply p_item_function.
  - apply pparams_handler, H.
  - apply ptype_promise.
  - assert (E2 : I "return" :: List.tl (body_toks ev t) ++ P "}" :: rest = body_toks ev t ++ P "}" :: rest) by (destruct t; reflexivity).
    rewrite E2. apply p_balanced_body. apply walk_body, H.
Qed.

(* ---- what the observation layer reads from such an item ---- *)
Lemma count_id_app (f : string) a b : count_id f (a ++ b) = count_id f a + count_id f b.
Proof. induction a as [|c r IH]; [reflexivity|]. change ((c :: r) ++ b) with (c :: (r ++ b)). destruct c; simpl count_id; rewrite IH; lia. Qed.
Lemma count_listen ev t : pty_ok t = true -> count_id "listen" (body_toks ev t) = 1.
Proof.
  intro H. destruct (pty_prim_cases t H) as [[p [-> Hp]]|[n [-> [_ Hn]]]].
  - cbn [map In] in Hp. repeat (destruct Hp as [<-|Hp]; [vm_compute; reflexivity|]). destruct Hp.
  - change (body_toks ev (PCustom n)) with
      ([I "return"; I "listen"; P "<"; KId (L "types"); P "."] ++ [KId n] ++
       [P ">"; P "("; KStr SQ ev; P ","; P "("; I "event"; P ")"; P "=>"; P "{"; I "handler"; P "("; I "event"; P "."; I "payload"; P ")"; P ";"; P "}"; P ")"; P ";"]).
    rewrite !count_id_app. change (count_id "listen" [KId n]) with ((if str_eqb n (L "listen") then 1 else 0) + 0). rewrite Hn. vm_compute. reflexivity.
Qed.
Lemma find_listen_body ev t : pty_ok t = true ->
  find_listen (S (List.length (body_toks ev t))) (body_toks ev t) = Some ([pty_ty t], ev).
Proof.
  intro H. destruct (pty_prim_cases t H) as [[p [-> Hp]]|[n [-> _]]].
  - cbn [map In] in Hp. repeat (destruct Hp as [<-|Hp]; [vm_compute; reflexivity|]). destruct Hp.
  - vm_compute. reflexivity.
Qed.
Definition listener_lst (name ev : str) (t : pty) : lst :=
  {| ls_name := name; ls_params := handler_params t; ls_listens := 1; ls_call := Some ([pty_ty t], ev) |}.
Lemma lsts_listener name ev t : pty_ok t = true -> lsts [listener_item name ev t] = [listener_lst name ev t].
Proof.
  intro H. unfold lsts, listener_item. cbn [flat_map app]. rewrite (count_listen ev t H). cbn [Nat.eqb].
  rewrite (find_listen_body ev t H). reflexivity.
Qed.

(* ---- the whole token stream ---- *)
Record lrec := { r_name : str; r_ev : str; r_ty : pty }.
Definition rec_toks (r : lrec) := listener_toks (r_name r) (r_ev r) (r_ty r).
Definition rec_item (r : lrec) := listener_item (r_name r) (r_ev r) (r_ty r).
Definition rec_lst (r : lrec) := listener_lst (r_name r) (r_ev r) (r_ty r).
Definition rec_ok (r : lrec) : bool := pty_ok (r_ty r).
Definition header_toks : list tk :=
  [I "import"; P "{"; I "listen"; P ","; I "type"; I "UnlistenFn"; P ","; I "type"; I "Event"; P "}"; I "from"; S1 "@tauri-apps/api/event"; P ";";
   I "import"; P "*"; I "as"; I "types"; I "from"; S1 "./types"; P ";"].
Definition header_items : list item :=
  [IImport false [(false, L "listen"); (true, L "UnlistenFn"); (true, L "Event")] None (L "@tauri-apps/api/event");
   IImport false [] (Some (L "types")) (L "./types")].
Definition module_toks (rs : list lrec) : list tk := header_toks ++ flat_map rec_toks rs.

Lemma p_items_listeners : forall rs n acc, forallb rec_ok rs = true -> List.length rs < n ->
  p_items n (flat_map rec_toks rs) acc = Some (rev acc ++ map rec_item rs).
Proof.
  induction rs as [|r rs IH]; intros n acc H Hn.
  - destruct n; [lia|]. cbn [flat_map p_items map]. rewrite app_nil_r. reflexivity.
  - cbn [forallb] in H. apply andb_true_iff in H. destruct H as [Hr Hrs]. cbn [List.length] in Hn.
    destruct n as [|n]; [lia|]. cbn [flat_map]. unfold rec_toks at 1.
    assert (E : forall tl, p_items (S n) (listener_toks (r_name r) (r_ev r) (r_ty r) ++ tl) acc =
                           match p_item (listener_toks (r_name r) (r_ev r) (r_ty r) ++ tl) with
                           | Some (it, r') => p_items n r' (it :: acc) | None => None end) by (intro tl; reflexivity).
    rewrite E, (p_item_listener _ _ _ _ Hr). rewrite (IH n _ Hrs) by lia. cbn [rev map]. rewrite <- app_assoc. reflexivity.
Qed.
Definition header2 : list tk := [I "import"; P "*"; I "as"; I "types"; I "from"; S1 "./types"; P ";"].
Lemma header_item1 rest : p_item (header_toks ++ rest) = Some (nth 0 header_items (IExportStar []), header2 ++ rest).
Proof. vm_compute. reflexivity. Qed.
Lemma header_item2 rest : p_item (header2 ++ rest) = Some (nth 1 header_items (IExportStar []), rest).
Proof. vm_compute. reflexivity. Qed.
Lemma p_items_step n l acc : l <> [] -> p_items (S n) l acc = match p_item l with Some (it, r) => p_items n r (it :: acc) | None => None end.
Proof. destruct l; [congruence|reflexivity]. Qed.
Lemma header_parse rest n acc : p_items (S (S n)) (header_toks ++ rest) acc = p_items n rest (rev header_items ++ acc).
Proof.
  rewrite p_items_step by discriminate. rewrite header_item1.
  rewrite p_items_step by discriminate. rewrite header_item2. reflexivity.
Qed.

Lemma no_err_listener name ev t : has_err (listener_toks name ev t) = false.
Proof. destruct t; reflexivity. Qed.
Lemma has_err_app a b : has_err (a ++ b) = has_err a || has_err b.
Proof. unfold has_err. apply existsb_app. Qed.
Lemma no_err_module rs : has_err (module_toks rs) = false.
Proof.
  unfold module_toks. rewrite has_err_app. change (has_err header_toks) with false. cbn [orb].
  induction rs as [|r rs IH]; [reflexivity|]. cbn [flat_map]. rewrite has_err_app, IH. unfold rec_toks. rewrite no_err_listener. reflexivity.
Qed.
Lemma flat_len rs : List.length rs <= List.length (flat_map rec_toks rs).
Proof. induction rs as [|r rs IH]; [cbn; lia|]. cbn [flat_map]. rewrite app_length. assert (1 <= List.length (rec_toks r)) by (unfold rec_toks, listener_toks; simpl; lia). simpl in *. lia. Qed.

(* the token stream of the module parses to the two imports followed by one function item per record *)
Theorem parse_module_toks rs : forallb rec_ok rs = true ->
  p_items (S (List.length (module_toks rs))) (module_toks rs) [] = Some (header_items ++ map rec_item rs).
Proof.
  intro H. unfold module_toks. rewrite app_length. change (List.length header_toks) with 20.
  change (S (20 + List.length (flat_map rec_toks rs))) with (S (S (19 + List.length (flat_map rec_toks rs)))).
  rewrite header_parse. rewrite p_items_listeners; [reflexivity|exact H|]. pose proof (flat_len rs). lia.
Qed.
Lemma lsts_app a b : lsts (a ++ b) = lsts a ++ lsts b.
Proof. unfold lsts. apply flat_map_app. Qed.
Lemma lsts_items rs : forallb rec_ok rs = true -> lsts (map rec_item rs) = map rec_lst rs.
Proof.
  induction rs as [|r rs IH]; intro H; [reflexivity|]. cbn [forallb] in H. apply andb_true_iff in H. destruct H as [Hr Hrs].
  cbn [map]. change (rec_item r :: map rec_item rs) with ([rec_item r] ++ map rec_item rs).
  rewrite lsts_app, (IH Hrs). unfold rec_item at 1. rewrite (lsts_listener _ _ _ Hr). reflexivity.
Qed.
Theorem lsts_module rs : forallb rec_ok rs = true -> lsts (header_items ++ map rec_item rs) = map rec_lst rs.
Proof. intro H. rewrite lsts_app, (lsts_items rs H). reflexivity. Qed.

(* the payload strings the event parser can produce for literals, unit and "nothing evident", and a
   custom name, rendered by parse_type_structure / visitor / add_types_prefix *)
Lemma payload_ts_leaves :
  payload_ts (L "String") = L "string" /\ payload_ts (L "i32") = L "number" /\ payload_ts (L "f64") = L "number" /\
  payload_ts (L "bool") = L "boolean" /\ payload_ts (L "()") = L "void" /\ payload_ts unknown = L "unknown" /\
  payload_ts (L "User") = L "types.User".
Proof. vm_compute. repeat split; reflexivity. Qed.

(* ---- link to the model's text (by evaluation only; the for-all lexing statement is not proved) ---- *)
Definition pty_of_text (s : str) : pty := if starts (L "types.") s then PCustom (skipn 6 s) else PPrim s.
Definition model_recs (l : evs) : list lrec :=
  map (fun e => {| r_name := listener_name (fst e); r_ev := fst e; r_ty := pty_of_text (payload_ts (snd e)) |}) (dedup_first l).
(* what remains between the model's text and the token theorem: character-level lexing of the template *)
Definition lex_statement : Prop :=
  forall l : evs, (forall e, In e l -> legal_event_name (fst e) = true) -> forallb rec_ok (model_recs l) = true ->
  lex_module (events_text l) = module_toks (model_recs l).
