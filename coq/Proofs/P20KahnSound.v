(* The run-time oracle of C20's build-order half decides the Prop-level statement:
   kahn_ok_b ns deps res = true  <->  kahn_spec ns deps res
   (for duplicate-free node enumerations and dependency lists closed over the nodes). *)
From Coq Require Import List Arith Lia Bool Permutation.
Require Import TT.Model.Base TT.Model.Topo TT.Model.Kahn TT.Spec.P20.
Require Import TT.Proofs.TopoProofs TT.Proofs.KahnProofs TT.Proofs.Bridge TT.Proofs.C20Extra TT.Proofs.P20Sound.
Import ListNotations.

Section P20KahnSound.
Context {node : Type} {ED : EqDec node}.
Local Notation dep := (node * node)%type.
Local Notation before := (@KahnProofs.before node).
Local Notation topo_order := (@KahnProofs.topo_order node).
Local Notation closed := (@KahnProofs.closed node).
Local Notation acyclic := (@Bridge.acyclic node).
Local Notation path := (@Bridge.path node).
Local Notation reach := (@TopoProofs.reach node ED).

Definition kahn_spec (ns : list node) (deps : list dep) (res : option (list node)) : Prop :=
  match res with
  | Some l => acyclic deps /\ topo_order ns deps l
  | None => ~ acyclic deps
  end.

Lemma graph_of_deps_eq ns deps : graph_of_deps ns deps = Bridge.graph_of ns deps.
Proof. reflexivity. Qed.

Lemma dep_edge ns deps a b : NoDup ns -> closed ns deps -> In (a, b) deps ->
  TopoProofs.edge (Bridge.graph_of ns deps) a b.
Proof.
  intros Hnd Hc Hd. unfold TopoProofs.edge. rewrite deps_graph_of; [apply uses_in; exact Hd | exact Hnd |].
  apply (Hc (a, b) Hd).
Qed.

Lemma path_reach ns deps a b : NoDup ns -> closed ns deps -> path deps a b -> reach (Bridge.graph_of ns deps) a b.
Proof.
  intros Hnd Hc. induction 1 as [a b Hd|a b c Hd _ IH].
  - eapply reach_step; [apply dep_edge; eassumption | apply reach_refl].
  - eapply reach_step; [apply dep_edge; eassumption | exact IH].
Qed.

Lemma acyclic_b_spec ns deps : NoDup ns -> closed ns deps -> (acyclic_b ns deps = true <-> acyclic deps).
Proof.
  intros Hnd Hc. unfold acyclic_b. rewrite forallb_forall, graph_of_deps_eq. split.
  - intros H n Hp.
    assert (exists b, In (n, b) deps /\ reach (Bridge.graph_of ns deps) b n) as (b & Hd & Hr).
    { inversion Hp as [a b Hd|a b c Hd Hp']; subst.
      - exists n. split; [exact Hd | apply reach_refl].
      - exists b. split; [exact Hd | apply (path_reach ns deps b n Hnd Hc Hp')]. }
    specialize (H (n, b) Hd). cbn [fst snd] in H. apply negb_true_iff in H.
    apply (reach_b_spec (Bridge.graph_of ns deps) b n) in Hr. congruence.
  - intros Hac [a b] Hd. cbn [fst snd]. apply negb_true_iff.
    destruct (reach_b (Bridge.graph_of ns deps) b a) eqn:E; [|reflexivity]. exfalso.
    apply reach_b_spec in E. apply (reach_path ns deps b a Hnd Hc) in E as [->|Hp].
    + apply (Hac a). apply path_one. exact Hd.
    + apply (Hac a). eapply path_cons; eassumption.
Qed.

Lemma before_idx v u (l : list node) : before v u l -> idx_before l v u.
Proof.
  intros (l1 & l2 & l3 & ->). exists (length l1), (length l1 + S (length l2)). split; [|split; [|lia]].
  - rewrite nth_error_app2 by lia. rewrite Nat.sub_diag. reflexivity.
  - rewrite nth_error_app2 by lia. replace (length l1 + S (length l2) - length l1) with (S (length l2)) by lia.
    cbn [nth_error]. rewrite nth_error_app2 by lia. rewrite Nat.sub_diag. reflexivity.
Qed.

Lemma kahn_list_ok_b_spec ns deps l : NoDup ns ->
  (kahn_list_ok_b ns deps l = true <-> topo_order ns deps l).
Proof.
  intros Hnd. unfold kahn_list_ok_b, KahnProofs.topo_order.
  rewrite !andb_true_iff, nodup_b_spec, Nat.eqb_eq, !forallb_forall. split.
  - intros [[[Hl Hlen] Hin] Hord]. split.
    + apply Permutation_sym. apply NoDup_Permutation_bis; [exact Hnd | lia |].
      intros x Hx. apply (kmemb_true x l). apply Hin. exact Hx.
    + intros d Hd. specialize (Hord d Hd). apply before_b_idx in Hord as (i & j & Hi & Hj & Hlt).
      eapply nth_before; eassumption.
  - intros [Hperm Hord].
    assert (Hl : NoDup l) by (eapply Permutation_NoDup; [apply Permutation_sym; exact Hperm | exact Hnd]).
    split; [split; [split; [exact Hl | apply Permutation_length; exact Hperm]|]|].
    + intros x Hx. apply (kmemb_true x l). eapply Permutation_in; [apply Permutation_sym; exact Hperm | exact Hx].
    + intros d Hd. apply idx_before_b; [exact Hl|]. apply before_idx. apply Hord. exact Hd.
Qed.

Theorem kahn_ok_b_spec ns deps res : NoDup ns -> closed ns deps ->
  (kahn_ok_b ns deps res = true <-> kahn_spec ns deps res).
Proof.
  intros Hnd Hc. unfold kahn_ok_b, kahn_spec. destruct res as [l|].
  - rewrite andb_true_iff, (acyclic_b_spec ns deps Hnd Hc), (kahn_list_ok_b_spec ns deps l Hnd). tauto.
  - rewrite negb_true_iff. pose proof (acyclic_b_spec ns deps Hnd Hc) as H.
    destruct (acyclic_b ns deps); split; intros H'; try discriminate; try reflexivity.
    + exfalso. apply H'. apply H. reflexivity.
    + intros Ha. apply H in Ha. discriminate.
Qed.

(* the model's own answer always passes the oracle *)
Corollary kahn_passes_oracle order deps : NoDup order -> closed order deps ->
  kahn_ok_b order deps (match kahn order deps with Ok l => Some l | _ => None end) = true.
Proof.
  intros Hnd Hc. apply (kahn_ok_b_spec order deps _ Hnd Hc). unfold kahn_spec.
  destruct (kahn order deps) as [l| r |] eqn:E.
  - split.
    + apply (kahn_ok_iff order deps Hnd Hc). exists l. exact E.
    + apply (kahn_ok_valid order deps l Hnd Hc E).
  - intros Ha. apply (kahn_ok_iff order deps Hnd Hc) in Ha as (l & Hl). congruence.
  - exfalso. apply (kahn_never_out_of_fuel order deps Hnd Hc). exact E.
Qed.
End P20KahnSound.
