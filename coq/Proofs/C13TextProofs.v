(* C13 round 7: order independence, noise and transformations at the text level (Model/C13Text.v), and the
   closed form of the plain declaration order (types by name, commands by path). *)
From Coq Require Import List Arith Lia Bool Permutation.
Require Import TT.Model.Base TT.Model.Str TT.Spec.TsLex TT.Model.Topo TT.Model.C13Order TT.Model.C13Text TT.Spec.C13Rel.
Require Import TT.Proofs.C13SortInv TT.Proofs.C13Proofs TT.Proofs.C13Extra TT.Proofs.C13Trans TT.Proofs.C13Rank.
Import ListNotations.

(* ---------------- equalities ---------------- *)
Theorem text_order_independent : forall k p zod w w', text_files k zod w p = text_files k zod w' p.
Proof. intros. unfold text_files. rewrite (order_independent p zod w w'). reflexivity. Qed.
Theorem viz_text_independent : forall k p w w', viz_text_of k w p = viz_text_of k w' p.
Proof. intros. unfold viz_text_of. rewrite (viz_independent p w w'). reflexivity. Qed.
Theorem text_noise : forall k p p' zod w, denoise p = denoise p' -> text_files k zod w p = text_files k zod w p'.
Proof. intros k p p' zod w H. unfold text_files. rewrite (noise_equiv p p' zod w H). reflexivity. Qed.
Theorem text_noise_file : forall k f p zod w w', noise_file f = true ->
  text_files k zod w p = text_files k zod w' (f :: p) /\ viz_text_of k w p = viz_text_of k w' (f :: p).
Proof. intros k f p zod w w' H. unfold text_files, viz_text_of.
  rewrite (noise_file_eq f p zod w w' H), (noise_file_viz_eq f p w w' H). split; reflexivity. Qed.

(* ---------------- plain types.ts / commands.ts as blocks ---------------- *)
Lemma concat_map_app {A B} (f g : A -> list B) : forall (a : list A), flat_map f a = concat (map f a).
Proof. intros. apply flat_map_concat_map. Qed.
Theorem types_plain_blocks k o :
  x_types_plain (render_out k false o) = chan_import (o_cmds k o) ++ concat (types_blocks k o).
Proof. unfold render_out, x_types_plain, types_blocks, Pipeline.types_toks, chan_import.
  rewrite concat_app, <- !flat_map_concat_map. reflexivity. Qed.

Lemma existsb_perm {A} (f : A -> bool) l l' : Permutation l l' -> existsb f l = existsb f l'.
Proof. induction 1 as [|x l l' _ IH|x y l|l l' l'' _ IH1 _ IH2]; cbn [existsb]; auto.
  - rewrite IH. reflexivity. - destruct (f x), (f y); reflexivity. - congruence. Qed.

Theorem out_perm_text k a b : out_perm a b -> text_perm k a b.
Proof. destruct a as [o|], b as [o'|]; cbn [out_perm text_perm]; auto. intros (Ht & Hc & _ & Hi).
  assert (Hs : Permutation (o_structs k o) (o_structs k o')) by (apply Permutation_flat_map; exact Ht).
  assert (Hm : Permutation (o_cmds k o) (o_cmds k o')) by (apply Permutation_flat_map; exact Hc).
  repeat split.
  - unfold types_blocks. apply Permutation_app; apply Permutation_map; assumption.
  - unfold chan_import. rewrite (existsb_perm _ _ _ Hm). reflexivity.
  - unfold commands_blocks. apply Permutation_map. exact Hm.
  - rewrite Hi. reflexivity. Qed.

Theorem text_transformations : forall k p p', tsteps p p' -> kf_dupdef p = false -> kf_dupevent p = false ->
  forall zod w w', text_perm k (gen zod w p) (gen zod w' p').
Proof. intros k p p' H Hd He zod w w'. apply out_perm_text. apply transformations; assumption. Qed.

(* ---------------- the closed form of the plain order ---------------- *)
Lemma used_incl_names w p : incl (used (index w p) p) (names_of p).
Proof. intros n Hn. apply used_in in Hn as [Hd _]. unfold defined in Hd.
  destruct (lookup (index w p) n) as [d|] eqn:E; [|discriminate]. unfold lookup in E.
  apply find_some in E as [Hin Hq]. apply Nat.eqb_eq in Hq. apply in_rev in Hin.
  assert (Hin' : In d (flat_map file_types p)) by (eapply Permutation_in; [apply index_perm|exact Hin]).
  unfold names_of. apply in_flat_map. exists d. split; auto. left. exact Hq. Qed.

Definition index_sorted (p : project) : list tdef := flat_map file_types (files_sorted p).
Definition commands_sorted (p : project) : list cmd := flat_map file_cmds (files_sorted p).
Theorem types_plain_closed_form w p :
  option_map o_types (gen false w p) =
  match commands_sorted p with
  | [] => None
  | _ => Some (type_decls_plain (index_sorted p) (sort_names (used (index_sorted p) p)) ++
               flat_map param_decl (commands_sorted p))
  end.
Proof. unfold gen, gen_raw, types_file, commands_sorted, index_sorted.
  assert (Hc : commands (repaired w p) p = flat_map file_cmds (files_sorted p)) by (unfold commands; rewrite files_repaired; reflexivity).
  assert (Hi : index (repaired w p) p = flat_map file_types (files_sorted p)) by (unfold index; rewrite files_repaired; reflexivity).
  rewrite (used_order_repaired w p (used (index (repaired w p) p) p) (used_incl_names _ p)).
  rewrite Hc, Hi. destruct (flat_map file_cmds (files_sorted p)); reflexivity. Qed.
Theorem commands_closed_form zod w p :
  option_map o_commands (gen zod w p) =
  match commands_sorted p with
  | [] => None
  | cs => Some ((if zod then [DHooks] else []) ++ map (fun c => DWrapper (c_name c)) cs)
  end.
Proof. unfold gen, gen_raw, commands_file, commands_sorted.
  assert (Hc : commands (repaired w p) p = flat_map file_cmds (files_sorted p)) by (unfold commands; rewrite files_repaired; reflexivity).
  rewrite Hc. destruct (flat_map file_cmds (files_sorted p)); reflexivity. Qed.
