(* C11: message literals with escapes. The five sequential replace calls of parse_message_from_content,
   applied to the SOURCE text of a literal, compute the literal's value on the sub-language below. *)
From Coq Require Import String Ascii List Arith Lia Bool NArith.
Require Import TT.Model.Str TT.Model.C11Validator TT.Spec.C11Spec TT.Proofs.C11Proofs TT.Proofs.C11Scan.
Import ListNotations.
Local Open Scope char_scope.
Local Open Scope list_scope.

(* source text of a literal body as a list of atoms: a plain byte, or backslash + e *)
Inductive atom := Plain (c : ascii) | Esc (e : ascii).
Definition atext (a : atom) : str := match a with Plain c => [c] | Esc e => [bs; e] end.
Definition text (l : list atom) : str := flat_map atext l.
(* the value Rust gives the literal *)
Definition aval (a : atom) : ascii :=
  match a with
  | Plain c => c
  | Esc e => if Ascii.eqb e "n" then nl else if Ascii.eqb e "t" then tab else e     (* escaped quotes and the escaped backslash stand for themselves *)
  end.
Definition value (l : list atom) : str := map aval l.
(* the sub-language: plain bytes are anything but backslash and double quote; escapes are backslash followed by
   double quote, single quote, n, t, backslash *)
Definition atom_ok (a : atom) : bool :=
  match a with
  | Plain c => negb (Ascii.eqb c bs) && negb (Ascii.eqb c dq)
  | Esc e => Ascii.eqb e dq || Ascii.eqb e sq || Ascii.eqb e "n" || Ascii.eqb e "t" || Ascii.eqb e bs
  end.
(* ... and an escaped backslash is not directly followed by a plain n, t or single quote (class C11-6 for n and t;
   for the single quote the chain still computes the right value, but not atom by atom) *)
Definition starts_with (x : ascii) (l : list atom) : bool :=
  match l with Plain c :: _ => Ascii.eqb c x | _ => false end.
Fixpoint safe (x : ascii) (l : list atom) : bool :=
  match l with
  | [] => true
  | Esc e :: r => negb (Ascii.eqb e bs && starts_with x r) && safe x r
  | Plain _ :: r => safe x r
  end.
Definition lit_ok (l : list atom) : bool :=
  forallb atom_ok l && safe dq l && safe sq l && safe "n" l && safe "t" l.

(* one replace step  backslash x -> y  on atoms *)
Definition step (x y : ascii) (a : atom) : atom := match a with Esc e => if Ascii.eqb e x then Plain y else a | _ => a end.
Definition no_bs (a : atom) : bool := match a with Plain c => negb (Ascii.eqb c bs) | Esc _ => true end.

Lemma starts2 : forall x c r, starts [bs; x] (c :: r) = Ascii.eqb bs c && match r with d :: _ => Ascii.eqb x d | [] => false end.
Proof. intros x c [|d r]; cbn [starts]; [rewrite andb_false_r; reflexivity|]. rewrite andb_true_r. reflexivity. Qed.

Lemma replace_step : forall x y, Ascii.eqb x bs = false -> forall l fuel,
  forallb no_bs l = true -> safe x l = true -> List.length (text l) < fuel ->
  replace_all fuel [bs; x] [y] (text l) = text (map (step x y) l).
Proof. intros x y Hx. induction l as [|a l IH]; intros fuel Hn Hs Hf; (destruct fuel as [|f]; [lia|]).
  - reflexivity.
  - cbn [forallb] in Hn. apply andb_true_iff in Hn as [Ha Hn]. destruct a as [c|e].
    + cbn [no_bs] in Ha. apply negb_true_iff in Ha. cbn [safe] in Hs.
      cbn [text flat_map atext app map step]. fold (text l). fold (text (map (step x y) l)).
      cbn [replace_all]. rewrite starts2, Ascii.eqb_sym, Ha. cbn [andb].
      rewrite IH by (auto; cbn [text flat_map atext app List.length] in Hf; fold (text l) in Hf; lia). reflexivity.
    + cbn [safe] in Hs. apply andb_true_iff in Hs as [Hb Hs]. apply negb_true_iff in Hb.
      cbn [text flat_map atext app map step]. fold (text l). fold (text (map (step x y) l)).
      assert (Hlen : List.length (text l) + 2 < S f) by (cbn [text flat_map atext app List.length] in Hf; fold (text l) in Hf; lia).
      cbn [replace_all]. rewrite starts2, Ascii.eqb_refl. cbn [andb].
      destruct (Ascii.eqb x e) eqn:Exe.
      * apply Ascii.eqb_eq in Exe. subst e. rewrite Ascii.eqb_refl. cbn [skipn List.length app].
        rewrite IH by (auto; lia). reflexivity.
      * rewrite Ascii.eqb_sym, Exe. destruct f as [|f]; [lia|]. cbn [atext app]. cbn [replace_all]. rewrite starts2.
        destruct (Ascii.eqb bs e) eqn:Ebe.
        { apply Ascii.eqb_eq in Ebe. subst e. rewrite Ascii.eqb_refl in Hb. cbn [andb] in Hb.
          assert (Hno : match text l with d :: _ => Ascii.eqb x d | [] => false end = false).
          { destruct l as [|[c|e'] l']; [reflexivity| |].
            - cbn [starts_with] in Hb. cbn [text flat_map atext app]. rewrite Ascii.eqb_sym. exact Hb.
            - cbn [text flat_map atext app]. exact Hx. }
          rewrite Hno. cbn [andb]. rewrite IH by (auto; lia). reflexivity. }
        { cbn [andb]. rewrite IH by (auto; lia). reflexivity. } Qed.

(* the last step (two backslashes become one) when only escaped backslashes are left *)
Definition only_bs (a : atom) : bool := match a with Plain c => negb (Ascii.eqb c bs) | Esc e => Ascii.eqb e bs end.
Lemma replace_last : forall l fuel, forallb only_bs l = true -> List.length (text l) < fuel ->
  replace_all fuel [bs; bs] [bs] (text l) = value l.
Proof. induction l as [|a l IH]; intros fuel Hn Hf; (destruct fuel as [|f]; [lia|]); [reflexivity|].
  cbn [forallb] in Hn. apply andb_true_iff in Hn as [Ha Hn]. destruct a as [c|e]; cbn [only_bs] in Ha.
  - apply negb_true_iff in Ha. cbn [text flat_map atext app value map aval]. fold (text l). fold (value l).
    cbn [replace_all]. rewrite starts2, Ascii.eqb_sym, Ha. cbn [andb].
    rewrite IH by (auto; cbn [text flat_map atext app List.length] in Hf; fold (text l) in Hf; lia). reflexivity.
  - apply Ascii.eqb_eq in Ha. subst e. cbn [text flat_map atext app value map aval]. fold (text l). fold (value l).
    cbn [replace_all]. rewrite starts2, !Ascii.eqb_refl. cbn [andb skipn List.length app].
    change (Ascii.eqb bs "n") with false. change (Ascii.eqb bs "t") with false. cbv iota.
    rewrite IH by (auto; cbn [text flat_map atext app List.length] in Hf; fold (text l) in Hf; lia). reflexivity. Qed.

(* ------------------------------------------------------------------ the five steps composed *)
Lemma no_bs_step : forall x y l, Ascii.eqb y bs = false -> forallb no_bs l = true -> forallb no_bs (map (step x y) l) = true.
Proof. intros x y l Hy. induction l as [|a l IH]; intros H; [reflexivity|]. cbn [forallb map] in *.
  apply andb_true_iff in H as [Ha Hl]. rewrite (IH Hl), andb_true_r. destruct a as [c|e]; [exact Ha|].
  cbn [step]. destruct (Ascii.eqb e x); [cbn [no_bs]; rewrite Hy|]; reflexivity. Qed.
Lemma starts_with_step : forall x x' y l, Ascii.eqb y x = false ->
  starts_with x (map (step x' y) l) = true -> starts_with x l = true.
Proof. intros x x' y [|[c|e] l] Hy H; cbn [map step starts_with] in *; try exact H.
  destruct (Ascii.eqb e x'); cbn [starts_with] in H; [rewrite Hy in H|]; discriminate. Qed.
Lemma safe_step : forall x x' y l, Ascii.eqb y x = false -> safe x l = true -> safe x (map (step x' y) l) = true.
Proof. intros x x' y l Hy. induction l as [|a l IH]; intros H; [reflexivity|]. destruct a as [c|e]; cbn [safe map step] in *.
  - apply IH. exact H.
  - apply andb_true_iff in H as [Hb Hs]. destruct (Ascii.eqb e x'); cbn [safe]; [apply IH; exact Hs|].
    rewrite (IH Hs), andb_true_r. apply negb_true_iff. apply negb_true_iff in Hb.
    destruct (Ascii.eqb e bs); [|reflexivity]. cbn [andb] in *.
    destruct (starts_with x (map (step x' y) l)) eqn:E; [|reflexivity].
    rewrite (starts_with_step x x' y l Hy E) in Hb. discriminate. Qed.

Definition s4 (a : atom) : atom := step "t" tab (step "n" nl (step sq sq (step dq dq a))).
Lemma s4_ok : forall a, atom_ok a = true -> only_bs (s4 a) = true /\ aval (s4 a) = aval a.
Proof. intros [c|e] H; cbn [atom_ok] in H.
  - apply andb_true_iff in H as [H1 _]. split; [exact H1|reflexivity].
  - destruct (Ascii.eqb_spec e dq) as [E|]; [subst; split; reflexivity|].
    destruct (Ascii.eqb_spec e sq) as [E|]; [subst; split; reflexivity|].
    destruct (Ascii.eqb_spec e "n") as [E|]; [subst; split; reflexivity|].
    destruct (Ascii.eqb_spec e "t") as [E|]; [subst; split; reflexivity|].
    destruct (Ascii.eqb_spec e bs) as [E|]; [subst; split; reflexivity|]. discriminate H. Qed.
Lemma atom_ok_no_bs : forall l, forallb atom_ok l = true -> forallb no_bs l = true.
Proof. induction l as [|a l IH]; intros H; [reflexivity|]. cbn [forallb] in *. apply andb_true_iff in H as [Ha Hl].
  rewrite (IH Hl), andb_true_r. destruct a as [c|e]; [|reflexivity]. cbn [atom_ok no_bs] in *. apply andb_true_iff in Ha as [H1 _]. exact H1. Qed.

Ltac side4 := first [ lia | assumption | (repeat (apply no_bs_step; [reflexivity|]); assumption) | (repeat (apply safe_step; [reflexivity|]); assumption) ].
(* on the sub-language the sequential replace chain computes the value of the literal *)
Theorem unescape_atoms : forall l, lit_ok l = true -> unescape (text l) = value l.
Proof. intros l H. unfold lit_ok in H. repeat (apply andb_true_iff in H as [H ?]).
  rename H into Hok. pose proof (atom_ok_no_bs l Hok) as Hn.
  unfold unescape, repl.
  rewrite (replace_step dq dq eq_refl l) by side4.
  rewrite (replace_step sq sq eq_refl) by side4.
  rewrite (replace_step "n" nl eq_refl) by side4.
  rewrite (replace_step "t" tab eq_refl) by side4.
  rewrite !map_map. fold s4.
  rewrite replace_last.
  - unfold value. rewrite map_map. apply map_ext_in. intros a Ha. rewrite forallb_forall in Hok. apply (s4_ok a (Hok a Ha)).
  - apply forallb_forall. intros b Hb. apply in_map_iff in Hb as [a [<- Ha]]. rewrite forallb_forall in Hok. apply (s4_ok a (Hok a Ha)).
  - lia. Qed.

(* ------------------------------------------------------------------ the closing-quote scan and parse_message *)
Lemma scan_atoms : forall l i R, forallb atom_ok l = true ->
  scan_close dq (text l ++ dq :: R) i false = Some (i + List.length (text l)).
Proof. induction l as [|a l IH]; intros i R H.
  - cbn [text flat_map app scan_close List.length]. change (is_cont dq) with false. change (Ascii.eqb dq "\") with false.
    rewrite Ascii.eqb_refl. cbv iota. rewrite Nat.add_0_r. reflexivity.
  - cbn [forallb] in H. apply andb_true_iff in H as [Ha Hl]. destruct a as [c|e]; cbn [atom_ok] in Ha.
    + apply andb_true_iff in Ha as [H1 H2]. apply negb_true_iff in H1. apply negb_true_iff in H2. unfold bs in H1.
      cbn [text flat_map atext app scan_close List.length]. fold (text l). rewrite H1, H2.
      destruct (is_cont c); rewrite (IH (S i) R Hl); f_equal; lia.
    + cbn [text flat_map atext app scan_close List.length]. fold (text l).
      change (is_cont bs) with false. change (Ascii.eqb bs "\") with true. cbv iota.
      assert (Hc : is_cont e = false).
      { destruct (Ascii.eqb_spec e dq) as [E|]; [subst; reflexivity|]. destruct (Ascii.eqb_spec e sq) as [E|]; [subst; reflexivity|].
        destruct (Ascii.eqb_spec e "n") as [E|]; [subst; reflexivity|]. destruct (Ascii.eqb_spec e "t") as [E|]; [subst; reflexivity|].
        destruct (Ascii.eqb_spec e bs) as [E|]; [subst; reflexivity|]. discriminate Ha. }
      rewrite Hc. rewrite (IH (S (S i)) R Hl). f_equal. lia. Qed.

(* a message literal of the sub-language, wherever it stands in the content and whatever follows it,
   is returned with exactly its value *)
Theorem parse_message_atoms : forall T P l R, fs (L "message") T = Some (P, L " = " ++ dq :: text l ++ dq :: R) ->
  lit_ok l = true -> parse_message T = Ok (Some (value l)).
Proof. intros T P l R H Hl. unfold parse_message. rewrite find_sub_fs, H.
  change (L "message" ++ L " = " ++ dq :: text l ++ dq :: R) with (L "message " ++ "=" :: (" " :: dq :: text l ++ dq :: R)).
  rewrite after_char_app by reflexivity.
  change (wtrim_l (" " :: dq :: text l ++ dq :: R)) with (dq :: text l ++ dq :: R).
  change (Ascii.eqb dq dq || Ascii.eqb dq sq) with true. cbv iota.
  assert (Hok : forallb atom_ok l = true) by (unfold lit_ok in Hl; repeat (apply andb_true_iff in Hl as [Hl ?]); exact Hl).
  rewrite scan_atoms by exact Hok. cbn [plus].
  unfold slice_to, boundary. rewrite app_length. cbn [List.length].
  replace (Nat.eqb (List.length (text l)) (List.length (text l) + S (List.length R))) with false by (symmetry; apply Nat.eqb_neq; lia).
  rewrite nth_error_app_len. change (negb (is_cont dq)) with true. cbv iota. rewrite firstn_app_len. cbn [obind].
  rewrite unescape_atoms by exact Hl. reflexivity. Qed.

(* ------------------------------------------------------------------ the sub-language inside the canonical / loop theorems *)
Lemma atom_esc_not_cont : forall e, atom_ok (Esc e) = true -> is_cont e = false.
Proof. intros e Ha. cbn [atom_ok] in Ha.
  destruct (Ascii.eqb_spec e dq) as [E|]; [subst; reflexivity|]. destruct (Ascii.eqb_spec e sq) as [E|]; [subst; reflexivity|].
  destruct (Ascii.eqb_spec e "n") as [E|]; [subst; reflexivity|]. destruct (Ascii.eqb_spec e "t") as [E|]; [subst; reflexivity|].
  destruct (Ascii.eqb_spec e bs) as [E|]; [subst; reflexivity|]. discriminate Ha. Qed.
Lemma closes_go_atoms : forall l rest, forallb atom_ok l = true -> closes_go (text l ++ rest) false = closes_go rest false.
Proof. induction l as [|a l IH]; intros rest H; [reflexivity|].
  cbn [forallb] in H. apply andb_true_iff in H as [Ha Hl]. destruct a as [c|e].
  - cbn [atom_ok] in Ha. apply andb_true_iff in Ha as [H1 H2]. apply negb_true_iff in H1. apply negb_true_iff in H2.
    cbn [text flat_map atext app closes_go]. fold (text l). rewrite H1, H2. destruct (is_cont c); apply IH; exact Hl.
  - pose proof (atom_esc_not_cont e Ha) as Hc.
    cbn [text flat_map atext app closes_go]. fold (text l). change (is_cont bs) with false. rewrite Ascii.eqb_refl. cbv iota.
    rewrite Hc. apply IH. exact Hl. Qed.
Lemma closes_atoms : forall l, forallb atom_ok l = true -> closes (text l) = true.
Proof. intros l H. unfold closes. rewrite <- (app_nil_r (text l)), closes_go_atoms by exact H. reflexivity. Qed.
(* the value the specification (rust_body_value) gives the literal is the atoms' value *)
Lemma rust_value_atoms : forall l, forallb atom_ok l = true -> rust_body_value (text l ++ [dq]) = Some (value l).
Proof. induction l as [|a l IH]; intros H.
  - cbn [text flat_map app rust_body_value]. rewrite Ascii.eqb_refl. reflexivity.
  - cbn [forallb] in H. apply andb_true_iff in H as [Ha Hl]. specialize (IH Hl). destruct a as [c|e].
    + cbn [atom_ok] in Ha. apply andb_true_iff in Ha as [H1 H2]. apply negb_true_iff in H1. apply negb_true_iff in H2.
      cbn [text flat_map atext app rust_body_value value map aval]. fold (text l). fold (value l). rewrite H1, H2, IH. reflexivity.
    + cbn [text flat_map atext app rust_body_value value map]. fold (text l). fold (value l).
      change (Ascii.eqb bs dq) with false. rewrite Ascii.eqb_refl. cbv iota. rewrite IH. cbn [atom_ok] in Ha. cbn [aval].
      destruct (Ascii.eqb_spec e dq) as [E|]; [subst; reflexivity|]. destruct (Ascii.eqb_spec e sq) as [E|]; [subst; reflexivity|].
      destruct (Ascii.eqb_spec e "n") as [E|]; [subst; reflexivity|]. destruct (Ascii.eqb_spec e "t") as [E|]; [subst; reflexivity|].
      destruct (Ascii.eqb_spec e bs) as [E|]; [subst; reflexivity|]. discriminate Ha. Qed.

(* a literal of the sub-language whose source text has no closing parenthesis and none of the seven keywords is a
   message the canonical and the loop theorems accept, the message they return is the literal's value, and that
   is also the value the specification side assigns to the declared literal *)
Theorem atoms_in_loop : forall l, lit_ok l = true -> lacks ")" (text l) = true ->
  forallb (fun kw => negb (contains kw (text l))) kws = true ->
  okm (Some (text l)) /\ option_map unescape (Some (text l)) = Some (value l) /\ lit_value (text l) = value l.
Proof. intros l Hl Hp Hk.
  assert (Hok : forallb atom_ok l = true) by (pose proof Hl as Hl'; unfold lit_ok in Hl'; repeat (apply andb_true_iff in Hl' as [Hl' ?]); exact Hl').
  split; [|split].
  - cbn [okm]. unfold body_ok. rewrite Hp, (closes_atoms l Hok), Hk. reflexivity.
  - cbn [option_map]. rewrite (unescape_atoms l Hl). reflexivity.
  - unfold lit_value. rewrite (rust_value_atoms l Hok). reflexivity. Qed.
