(* C11, scanning half: on the token string printed for a canonical single length(..) / range(..) validator
   the substring scanners of validator_parser.rs return exactly the declared components. *)
From Coq Require Import String Ascii List Arith Lia Bool NArith.
Require Import TT.Model.Str TT.Model.C11Validator TT.Spec.C11Spec TT.Proofs.C11Proofs.
Import ListNotations.
Local Open Scope char_scope.
Local Open Scope list_scope.

(* ------------------------------------------------------------------ find_sub without fuel and accumulator *)
Fixpoint fs (pat s : str) : option (str * str) :=
  if starts pat s then Some ([], skipn (List.length pat) s)
  else match s with
       | c :: r => match fs pat r with Some (a, b) => Some (c :: a, b) | None => None end
       | [] => None end.
Definition pre (x : str) (o : option (str * str)) : option (str * str) :=
  match o with Some (a, b) => Some (x ++ a, b) | None => None end.

Lemma fs_unfold pat s : fs pat s =
  if starts pat s then Some ([], skipn (List.length pat) s)
  else match s with c :: r => pre [c] (fs pat r) | [] => None end.
Proof. destruct s as [|c r]; cbn [fs]; [reflexivity|]. destruct (starts pat (c :: r)); [reflexivity|].
  destruct (fs pat r) as [[a b]|]; reflexivity. Qed.

Lemma find_sub_go_fs : forall s fuel pat acc, List.length s < fuel ->
  find_sub_go fuel pat acc s = pre (rev acc) (fs pat s).
Proof. induction s as [|c r IH]; intros fuel pat acc Hf; (destruct fuel as [|f]; [lia|]); cbn [find_sub_go fs].
  - destruct (starts pat []); cbn [pre]; rewrite ?app_nil_r; reflexivity.
  - destruct (starts pat (c :: r)); [cbn [pre]; rewrite app_nil_r; reflexivity|].
    rewrite IH by (cbn [List.length] in Hf; lia). destruct (fs pat r) as [[a b]|]; cbn [pre rev]; [|reflexivity].
    rewrite <- app_assoc. reflexivity. Qed.
Lemma find_sub_fs : forall (p : string) s, find_sub p s = fs (L p) s.
Proof. intros p s. unfold find_sub. rewrite find_sub_go_fs by lia. destruct (fs (L p) s) as [[a b]|]; reflexivity. Qed.

Lemma starts_app_cases : forall x p y, starts p (x ++ y) = true ->
  starts p x = true \/ exists p2, p = x ++ p2 /\ starts p2 y = true.
Proof. induction x as [|c x IH]; intros p y H.
  - right. exists p. split; [reflexivity|exact H].
  - destruct p as [|a p]; [left; reflexivity|]. cbn [app starts] in *. apply andb_true_iff in H as [Ha Hp].
    destruct (IH p y Hp) as [Hl|[p2 [-> Hr]]].
    + left. rewrite Ha, Hl. reflexivity.
    + right. exists p2. apply Ascii.eqb_eq in Ha. subst a. split; [reflexivity|exact Hr]. Qed.

Fixpoint suffixes (x : str) : list str := match x with [] => [] | c :: r => (c :: r) :: suffixes r end.
(* no non-empty suffix of x is a prefix of pat: an occurrence of pat cannot start inside x and end after it *)
Definition clean (pat x : str) : bool := forallb (fun t => negb (starts t pat)) (suffixes x).

Lemma fs_none_starts pat c r : fs pat (c :: r) = None -> starts pat (c :: r) = false /\ fs pat r = None.
Proof. cbn [fs]. destruct (starts pat (c :: r)); [discriminate|]. destruct (fs pat r) as [[a b]|]; [discriminate|]. auto. Qed.

(* a stretch of text without occurrence and without overlap is skipped, whatever follows *)
Lemma fs_app_clean : forall x pat y, fs pat x = None -> clean pat x = true -> fs pat (x ++ y) = pre x (fs pat y).
Proof. induction x as [|c x IH]; intros pat y Hn Hc.
  - cbn [app pre]. destruct (fs pat y) as [[a b]|]; reflexivity.
  - apply fs_none_starts in Hn as [Hs Hn]. cbn [clean suffixes forallb] in Hc. apply andb_true_iff in Hc as [Hh Hc].
    cbn [app fs]. destruct (starts pat (c :: x ++ y)) eqn:E.
    + exfalso. destruct (starts_app_cases (c :: x) pat y E) as [Hl|[p2 [-> _]]].
      * rewrite Hl in Hs. discriminate.
      * rewrite starts_app in Hh. discriminate.
    + rewrite (IH pat y Hn Hc). destruct (fs pat y) as [[a b]|]; reflexivity. Qed.

Definition has (c : ascii) (s : str) : bool := existsb (Ascii.eqb c) s.
(* an opaque stretch without occurrence, followed by a character that is not in the pattern *)
Lemma fs_app_q : forall x pat q y, fs pat x = None -> has q pat = false ->
  fs pat (x ++ q :: y) = pre x (fs pat (q :: y)).
Proof. induction x as [|c x IH]; intros pat q y Hn Hq.
  - cbn [app pre]. destruct (fs pat (q :: y)) as [[a b]|]; reflexivity.
  - apply fs_none_starts in Hn as [Hs Hn]. cbn [app]. rewrite (fs_unfold pat (c :: x ++ q :: y)).
    destruct (starts pat (c :: x ++ q :: y)) eqn:E.
    + exfalso. destruct (starts_app_cases (c :: x) pat (q :: y) E) as [Hl|[p2 [-> Hr]]].
      * rewrite Hl in Hs. discriminate.
      * destruct p2 as [|a p2].
        { rewrite app_nil_r in Hs. rewrite <- (app_nil_r (c :: x)) in Hs at 2. rewrite starts_app in Hs. discriminate. }
        { cbn [starts] in Hr. apply andb_true_iff in Hr as [Ha _]. apply Ascii.eqb_eq in Ha. subst a.
          unfold has in Hq. rewrite existsb_app in Hq. cbn [existsb] in Hq. rewrite Ascii.eqb_refl in Hq.
          rewrite orb_true_r in Hq. discriminate. }
    + rewrite (IH pat q y Hn Hq). destruct (fs pat (q :: y)) as [[a b]|]; reflexivity. Qed.

Lemma starts_has : forall p s c, starts p s = true -> has c p = true -> has c s = true.
Proof. induction p as [|a p IH]; intros s c Hs Hc; [discriminate Hc|]. destruct s as [|b s]; [discriminate Hs|].
  cbn [starts] in Hs. apply andb_true_iff in Hs as [Ha Hp]. apply Ascii.eqb_eq in Ha. subst b.
  unfold has in *. cbn [existsb] in *. apply orb_true_iff in Hc as [Hc|Hc]; [rewrite Hc; reflexivity|].
  rewrite (IH s c Hp Hc). apply orb_true_r. Qed.
(* a pattern with a character that the text lacks does not occur in it *)
Lemma fs_none_lacks : forall c pat x, has c pat = true -> has c x = false -> fs pat x = None.
Proof. induction x as [|b x IH]; intros Hp Hx.
  - cbn [fs]. destruct (starts pat []) eqn:E; [|reflexivity]. rewrite (starts_has pat [] c E Hp) in Hx. discriminate.
  - cbn [fs]. destruct (starts pat (b :: x)) eqn:E; [rewrite (starts_has pat _ c E Hp) in Hx; discriminate|].
    unfold has in Hx. cbn [existsb] in Hx. apply orb_false_iff in Hx as [_ Hx]. rewrite (IH Hp Hx). reflexivity. Qed.

(* ------------------------------------------------------------------ find_char / after_char *)
Definition lacks (c : ascii) (x : str) : bool := forallb (fun b => negb (Ascii.eqb b c)) x.
Lemma find_char_app : forall x c y, lacks c x = true -> find_char c (x ++ c :: y) = Some (List.length x).
Proof. induction x as [|b x IH]; intros c y H; cbn [app find_char List.length].
  - rewrite Ascii.eqb_refl. reflexivity.
  - cbn [lacks forallb] in H. apply andb_true_iff in H as [Hb Hx]. apply negb_true_iff in Hb. rewrite Hb.
    rewrite (IH c y Hx). reflexivity. Qed.
Lemma find_char_none : forall x c, lacks c x = true -> find_char c x = None.
Proof. induction x as [|b x IH]; intros c H; cbn [find_char]; [reflexivity|].
  cbn [lacks forallb] in H. apply andb_true_iff in H as [Hb Hx]. apply negb_true_iff in Hb. rewrite Hb, (IH c Hx). reflexivity. Qed.
Lemma firstn_app_len {A} : forall (x y : list A), firstn (List.length x) (x ++ y) = x.
Proof. induction x as [|a x IH]; intros y; cbn [firstn List.length app]; [reflexivity|]. rewrite IH. reflexivity. Qed.
Lemma after_char_app : forall x c y, lacks c x = true -> after_char c (x ++ c :: y) = Some (x, y).
Proof. intros x c y H. unfold after_char. rewrite find_char_app by exact H. rewrite firstn_app_len.
  change (S (List.length x)) with (List.length x + 1) at 1 || idtac.
  replace (skipn (S (List.length x)) (x ++ c :: y)) with y; [reflexivity|].
  clear H. induction x as [|a x IH]; cbn [skipn List.length app]; auto. Qed.

Lemma lacks_has c x : lacks c x = true -> has c x = false.
Proof. induction x as [|b x IH]; intros H; [reflexivity|]. cbn [lacks forallb] in H. apply andb_true_iff in H as [Hb Hx].
  unfold has. cbn [existsb]. apply negb_true_iff in Hb. rewrite Ascii.eqb_sym, Hb. exact (IH Hx). Qed.

(* ------------------------------------------------------------------ number literals *)
Lemma fs_none_num : forall pat a, existsb (fun c => negb (is_num_char c)) pat = true ->
  forallb is_num_char a = true -> fs pat a = None.
Proof. intros pat a Hp Ha. apply existsb_exists in Hp as [c [Hin Hc]]. apply negb_true_iff in Hc.
  apply (fs_none_lacks c).
  - unfold has. apply existsb_exists. exists c. split; [exact Hin|apply Ascii.eqb_refl].
  - unfold has. destruct (existsb (Ascii.eqb c) a) eqn:E; [|reflexivity].
    apply existsb_exists in E as [b [Hb Hcb]]. apply Ascii.eqb_eq in Hcb. subst b.
    rewrite forallb_forall in Ha. rewrite (Ha c Hb) in Hc. discriminate. Qed.
Lemma num_lacks : forall c a, is_num_char c = false -> forallb is_num_char a = true -> lacks c a = true.
Proof. intros c a Hc Ha. unfold lacks. apply forallb_forall. intros b Hb. rewrite forallb_forall in Ha.
  destruct (Ascii.eqb_spec b c) as [->|]; [rewrite (Ha c Hb) in Hc; discriminate|reflexivity]. Qed.
Lemma num_text_parts a : num_text a = true -> forallb is_num_char a = true /\ a <> [].
Proof. unfold num_text. intros H. apply andb_true_iff in H as [Hn Ha]. split; [exact Ha|]. destruct a; [discriminate|discriminate]. Qed.

Lemma wtrim_l_head c r : is_ws c = false -> wtrim_l (c :: r) = c :: r.
Proof. intros H. cbn [wtrim_l]. rewrite H. reflexivity. Qed.
(* trim() of a number literal with one blank on either side *)
Lemma wtrim_num : forall a pad, num_text a = true -> (pad = [] \/ pad = L " ") -> wtrim (L " " ++ a ++ pad) = a.
Proof. intros a pad Ha Hpad. apply num_text_parts in Ha as [Hall Hne].
  assert (Hws : forall c, In c a -> is_ws c = false).
  { intros c Hc. rewrite forallb_forall in Hall. apply num_not_ws. apply Hall. exact Hc. }
  unfold wtrim. change (L " " ++ a ++ pad) with (" " :: a ++ pad). cbn [wtrim_l]. change (is_ws " ") with true. cbv iota.
  destruct a as [|x a]; [contradiction|]. cbn [app]. rewrite wtrim_l_head by (apply Hws; left; reflexivity).
  change (x :: a ++ pad) with ((x :: a) ++ pad). rewrite rev_app_distr.
  assert (Hr : wtrim_l (rev pad ++ rev (x :: a)) = rev (x :: a)).
  { assert (Hh : exists y r, rev (x :: a) = y :: r /\ is_ws y = false).
    { destruct (rev (x :: a)) as [|y r] eqn:E.
      - apply (f_equal (@List.length ascii)) in E. rewrite rev_length in E. discriminate.
      - exists y, r. split; [reflexivity|]. apply Hws. apply in_rev. rewrite E. left. reflexivity. }
    destruct Hh as [y [r [E Hy]]]. rewrite E.
    destruct Hpad as [->| ->]; cbn [rev app L list_ascii_of_string wtrim_l]; [|change (is_ws " ") with true; cbv iota];
      rewrite Hy; reflexivity. }
  rewrite Hr, rev_involutive. reflexivity. Qed.

(* ------------------------------------------------------------------ canonical contents *)
(* key = value pieces joined by [ , ]; every value is followed by an explicit rest (nil for the last one) *)
Fixpoint cont (ps : list (string * str)) : str :=
  match ps with
  | [] => []
  | (k, v) :: r => L k ++ L " = " ++ v ++ match r with [] => [] | _ => L " , " ++ cont r end
  end.
Definition opt_list {A} (o : option A) : list A := match o with Some x => [x] | None => [] end.
Definition qlit (b : str) : str := dq :: b ++ [dq].
(* the six orders of three (optional) arguments *)
Definition perm3 {A} (o : nat) (x y z : list A) : list A :=
  match o with 0 => x ++ y ++ z | 1 => x ++ z ++ y | 2 => y ++ x ++ z | 3 => y ++ z ++ x | 4 => z ++ x ++ y | _ => z ++ y ++ x end.
Definition pieces (o : nat) (omin omax omsg : option str) : list (string * str) :=
  perm3 o (map (fun a => ("min"%string, a)) (opt_list omin)) (map (fun a => ("max"%string, a)) (opt_list omax))
          (map (fun b => ("message"%string, qlit b)) (opt_list omsg)).
(* the value the specification gives the literal with body b (b itself when b is outside the subset of
   rust_body_value; the scanners never look at the declared value) *)
Definition lit_value (b : str) : str := match rust_body_value (b ++ [dq]) with Some v => v | None => b end.
Definition canon_args (o : nat) (omin omax omsg : option str) : list arg :=
  perm3 o (map (fun a => AMin (Num false a)) (opt_list omin)) (map (fun a => AMax (Num false a)) (opt_list omax))
          (map (fun b => AMsg (qlit b) (lit_value b)) (opt_list omsg)).
Definition canon_item (isrange : bool) (args : list arg) : item := if isrange then IRange args else ILength args.
Definition kwof (isrange : bool) : string := if isrange then "range"%string else "length"%string.

Lemma tokens_canon : forall r o omin omax omsg,
  items_tokens [canon_item r (canon_args o omin omax omsg)] = L (kwof r) ++ L " (" ++ cont (pieces o omin omax omsg) ++ L ")".
Proof. intros [|] [|[|[|[|[|o]]]]] [a|] [b|] [m|]; unfold items_tokens, tok_string, qlit;
  cbn [canon_item canon_args pieces perm3 opt_list map app sep_toks item_toks args_group arg_toks num_toks tok_go tok_one
       joint_of orb kwof cont L list_ascii_of_string comma];
  repeat (rewrite <- ?app_assoc; cbn [app]); rewrite ?app_nil_r; reflexivity. Qed.

(* ------------------------------------------------------------------ the sub-domain *)
Definition kws : list string := ["email"; "url"; "length"; "range"; "min"; "max"; "message"]%string.
(* message body = the SOURCE text between the quotes of the literal, escapes included. The closing-quote scan
   must end at the literal's own closing quote: every double quote of the body is escaped and the body does
   not end inside an escape (closes); no closing parenthesis; no validator keyword *)
Fixpoint closes_go (s : str) (escaped : bool) : bool :=
  match s with
  | [] => negb escaped
  | b :: s' => if is_cont b then closes_go s' escaped
               else if escaped then closes_go s' false
               else if Ascii.eqb b bs then closes_go s' true
               else if Ascii.eqb b dq then false
               else closes_go s' false
  end.
Definition closes (b : str) : bool := closes_go b false.
Definition body_ok (b : str) : bool := lacks ")" b && closes b && forallb (fun kw => negb (contains kw b)) kws.
(* the plain bodies of the earlier rounds: no quote, no backslash, no closing parenthesis, no validator keyword *)
Definition plain_char (c : ascii) : bool := negb (Ascii.eqb c dq) && negb (Ascii.eqb c bs) && negb (Ascii.eqb c ")").
Definition plain_body (b : str) : bool := forallb plain_char b && forallb (fun kw => negb (contains kw b)) kws.
Definition okn (o : option str) : Prop := match o with Some a => num_text a = true | None => True end.
Definition okm (o : option str) : Prop := match o with Some b => body_ok b = true | None => True end.

Lemma fs_is_none p a : fs p a = None -> fs p a = None.
Proof. auto. Qed.
Lemma body_ok_fs b : body_ok b = true ->
  lacks ")" b = true /\ closes b = true /\ forall kw, In kw kws -> fs (L kw) b = None.
Proof. unfold body_ok. intros H. apply andb_true_iff in H as [Hc Hk]. apply andb_true_iff in Hc as [Hp Hc].
  split; [exact Hp|]. split; [exact Hc|].
  intros kw Hin. rewrite forallb_forall in Hk. specialize (Hk kw Hin). apply negb_true_iff in Hk.
  unfold contains in Hk. rewrite find_sub_fs in Hk. destruct (fs (L kw) b); [discriminate|reflexivity]. Qed.

Ltac side := first [ reflexivity | assumption | (apply fs_none_num; [reflexivity | assumption]) ].
Ltac chew := cbn [fs starts Ascii.eqb Bool.eqb andb pre app L list_ascii_of_string cont pieces perm3 opt_list map skipn List.length qlit kwof negb].
Ltac go := repeat (chew; match goal with
   | |- context [fs ?p (?a ++ [])] => rewrite (app_nil_r a); rewrite (fs_is_none p a) by side
   | |- context [fs ?p (?a ++ ?q :: ?y)] => rewrite (fs_app_q a p q y) by side
   | |- context [fs ?p ?a] => is_var a; rewrite (fs_is_none p a) by side
   end); chew.
Ltac norm := cbn [cont pieces perm3 opt_list map app qlit kwof negb]; rewrite ?app_nil_r; repeat (rewrite <- ?app_assoc; cbn [app L list_ascii_of_string]).
(* brings the hypotheses about the optional components into the forms the side conditions use *)
Ltac prep :=
  repeat match goal with
  | H : okn (Some _) |- _ => cbn [okn] in H; pose proof (num_text_parts _ H) as [? ?]
  | H : okn None |- _ => clear H
  | H : okm (Some _) |- _ => cbn [okm] in H; apply body_ok_fs in H as [? [? ?]]
  | H : okm None |- _ => clear H
  end.
Ltac kwfacts Hk :=
  pose proof (Hk "email"%string ltac:(cbn; tauto)) as Hk_email;
  pose proof (Hk "url"%string ltac:(cbn; tauto)) as Hk_url;
  pose proof (Hk "length"%string ltac:(cbn; tauto)) as Hk_length;
  pose proof (Hk "range"%string ltac:(cbn; tauto)) as Hk_range;
  pose proof (Hk "min"%string ltac:(cbn; tauto)) as Hk_min;
  pose proof (Hk "max"%string ltac:(cbn; tauto)) as Hk_max;
  pose proof (Hk "message"%string ltac:(cbn; tauto)) as Hk_message.

Lemma no_kw_tokens : forall (p : string) r o omin omax omsg, okn omin -> okn omax -> okm omsg ->
  In p ["email"; "url"; kwof (negb r)]%string ->
  fs (L p) (L (kwof r) ++ L " (" ++ cont (pieces o omin omax omsg) ++ L ")") = None.
Proof. intros p r o omin omax omsg Hmin Hmax Hmsg Hp.
  destruct o as [|[|[|[|[|o]]]]]; destruct omsg as [m|]; prep; try (match goal with H : forall kw, In kw kws -> _ |- _ => kwfacts H end);
  destruct r, omin as [a|], omax as [b|]; prep;
  cbn [In kwof negb] in Hp; (destruct Hp as [<-|[<-|[<-|[]]]]); norm; go; reflexivity. Qed.

(* ------------------------------------------------------------------ the scanners on canonical contents *)
Lemma plain_lacks : forall b, forallb plain_char b = true ->
  lacks ")" b = true /\ lacks dq b = true /\ lacks bs b = true.
Proof. intros b H. unfold lacks. repeat split; apply forallb_forall; intros c Hc; rewrite forallb_forall in H;
  specialize (H c Hc); unfold plain_char in H; apply andb_true_iff in H as [H12 H3]; apply andb_true_iff in H12 as [H1 H2]; assumption. Qed.

Lemma lacks_paren_cont : forall o omin omax omsg, okn omin -> okn omax -> okm omsg ->
  lacks ")" (cont (pieces o omin omax omsg)) = true.
Proof. intros o omin omax omsg Hmin Hmax Hmsg.
  destruct o as [|[|[|[|[|o]]]]]; destruct omsg as [m|]; prep; try (match goal with H : lacks ")" _ = true |- _ => unfold lacks in H end);
  destruct omin as [a|], omax as [b|]; prep;
  repeat match goal with H : forallb is_num_char ?x = true |- _ =>
    lazymatch goal with H' : forallb (fun b => negb (Ascii.eqb b ")")) x = true |- _ => fail | _ => idtac end;
    pose proof (num_lacks ")" x eq_refl H) as ?Hn; unfold lacks in * end;
  unfold lacks; norm; repeat (cbn [forallb Ascii.eqb Bool.eqb negb andb]; rewrite ?forallb_app);
  repeat match goal with H : forallb _ _ = true |- _ => rewrite H; clear H end; reflexivity. Qed.

Lemma paren_content_ok : forall r C, lacks ")" C = true ->
  paren_content (kwof r) (L (kwof r) ++ L " (" ++ C ++ L ")") = Some C.
Proof. intros r C H. unfold paren_content. rewrite find_sub_fs, fs_unfold, starts_app. cbv iota. rewrite skipn_app_len.
  replace (L (kwof r) ++ L " (" ++ C ++ L ")") with ((L (kwof r) ++ L " ") ++ "(" :: (C ++ L ")"))
    by (rewrite <- app_assoc; reflexivity).
  rewrite after_char_app by (destruct r; reflexivity).
  change (C ++ L ")") with (C ++ ")" :: []). rewrite find_char_app by exact H. rewrite firstn_app_len. reflexivity. Qed.

Lemma contains_kw : forall r rest, contains (kwof r) (L (kwof r) ++ rest) = true.
Proof. intros r rest. unfold contains. rewrite find_sub_fs, fs_unfold, starts_app. reflexivity. Qed.

Lemma bound_text_none : forall (k : string) T, fs (L k) T = None -> bound_text k T = None.
Proof. intros k T H. unfold bound_text. rewrite find_sub_fs, H. reflexivity. Qed.
Lemma bound_text_last : forall (k : string) T P a, fs (L k) T = Some (P, L " = " ++ a) ->
  lacks "=" (L k ++ L " ") = true -> num_text a = true -> bound_text k T = Some a.
Proof. intros k T P a H Hk Ha. unfold bound_text. rewrite find_sub_fs, H.
  replace (L k ++ L " = " ++ a) with ((L k ++ L " ") ++ "=" :: (L " " ++ a ++ [])) by (rewrite <- app_assoc, app_nil_r; reflexivity).
  rewrite after_char_app by exact Hk.
  destruct (num_text_parts a Ha) as [Hall _].
  rewrite find_char_none.
  - rewrite wtrim_num by (auto). reflexivity.
  - rewrite app_nil_r. unfold lacks. change (L " " ++ a) with (" " :: a). cbn [forallb]. fold (lacks "," a).
    rewrite (num_lacks "," a eq_refl Hall). reflexivity. Qed.
Lemma bound_text_mid : forall (k : string) T P a R, fs (L k) T = Some (P, L " = " ++ a ++ L " , " ++ R) ->
  lacks "=" (L k ++ L " ") = true -> num_text a = true -> bound_text k T = Some a.
Proof. intros k T P a R H Hk Ha. unfold bound_text. rewrite find_sub_fs, H.
  replace (L k ++ L " = " ++ a ++ L " , " ++ R) with ((L k ++ L " ") ++ "=" :: (L " " ++ a ++ L " , " ++ R))
    by (rewrite <- app_assoc; reflexivity).
  rewrite after_char_app by exact Hk.
  destruct (num_text_parts a Ha) as [Hall _].
  replace (L " " ++ a ++ L " , " ++ R) with ((L " " ++ a ++ L " ") ++ "," :: (L " " ++ R))
    by (rewrite <- !app_assoc; reflexivity).
  rewrite find_char_app.
  - rewrite firstn_app_len. rewrite wtrim_num by (auto). reflexivity.
  - unfold lacks. change (L " " ++ a ++ L " ") with (" " :: a ++ L " "). cbn [forallb]. rewrite forallb_app.
    fold (lacks "," a). rewrite (num_lacks "," a eq_refl Hall). reflexivity. Qed.

Ltac bound_tac :=
  norm;
  first [ apply bound_text_none; go; reflexivity
        | eapply bound_text_last; [go; reflexivity | reflexivity | assumption]
        | eapply bound_text_mid; [go; reflexivity | reflexivity | assumption] ].

Lemma bounds_canon : forall o omin omax omsg, okn omin -> okn omax -> okm omsg ->
  bound_text "min" (cont (pieces o omin omax omsg)) = omin /\ bound_text "max" (cont (pieces o omin omax omsg)) = omax.
Proof. intros o omin omax omsg Hmin Hmax Hmsg.
  destruct o as [|[|[|[|[|o]]]]]; destruct omsg as [m|]; prep; try (match goal with H : forall kw, In kw kws -> _ |- _ => kwfacts H end);
  destruct omin as [a|], omax as [b|]; prep; split; bound_tac. Qed.

(* ------------------------------------------------------------------ parse_message on a plain literal *)
Lemma scan_closes : forall m e i r, closes_go m e = true ->
  scan_close dq (m ++ dq :: r) i e = Some (i + List.length m).
Proof. induction m as [|c m IH]; intros e i r H.
  - cbn [closes_go] in H. destruct e; [discriminate H|].
    cbn [app scan_close List.length]. change (is_cont dq) with false. change (Ascii.eqb dq bs) with false.
    rewrite Ascii.eqb_refl. cbv iota. rewrite Nat.add_0_r. reflexivity.
  - cbn [closes_go] in H. unfold bs in H. cbn [app scan_close List.length].
    destruct (is_cont c); [rewrite (IH _ (S i) r H); f_equal; lia|].
    destruct e; [rewrite (IH _ (S i) r H); f_equal; lia|].
    destruct (Ascii.eqb c "\"); [rewrite (IH _ (S i) r H); f_equal; lia|].
    destruct (Ascii.eqb c dq); [discriminate H|]. rewrite (IH _ (S i) r H); f_equal; lia. Qed.

Lemma replace_all_id : forall s fuel p rep, lacks bs s = true -> replace_all fuel (bs :: p) rep s = s.
Proof. induction s as [|c s IH]; intros fuel p rep H; destruct fuel as [|f]; try reflexivity; cbn [replace_all starts].
  cbn [lacks forallb] in H. apply andb_true_iff in H as [Hc Hs]. apply negb_true_iff in Hc.
  rewrite Ascii.eqb_sym, Hc. cbn [andb]. rewrite (IH f p rep Hs). reflexivity. Qed.
Lemma unescape_plain : forall m, lacks bs m = true -> unescape m = m.
Proof. intros m H. unfold unescape, repl. repeat (rewrite (replace_all_id m) by exact H). reflexivity. Qed.

(* the plain bodies are an instance: the scan closes, and unescape leaves them alone *)
Lemma closes_plain : forall m, forallb plain_char m = true -> closes m = true.
Proof. unfold closes. induction m as [|c m IH]; intros H; [reflexivity|].
  cbn [forallb] in H. apply andb_true_iff in H as [Hc Hm]. unfold plain_char in Hc.
  apply andb_true_iff in Hc as [H12 _]. apply andb_true_iff in H12 as [H1 H2].
  apply negb_true_iff in H1. apply negb_true_iff in H2.
  cbn [closes_go]. rewrite H1, H2. destruct (is_cont c); exact (IH Hm). Qed.
Lemma plain_body_ok : forall b, plain_body b = true -> body_ok b = true /\ unescape b = b.
Proof. intros b H. unfold plain_body in H. apply andb_true_iff in H as [Hc Hk].
  destruct (plain_lacks b Hc) as [Hp [_ Hb]]. split; [|apply unescape_plain; exact Hb].
  unfold body_ok. rewrite Hp, (closes_plain b Hc), Hk. reflexivity. Qed.

Lemma nth_error_app_len {A} : forall (x : list A) q r, nth_error (x ++ q :: r) (List.length x) = Some q.
Proof. induction x as [|a x IH]; intros q r; cbn [app List.length nth_error]; auto. Qed.

Lemma parse_message_none : forall T, fs (L "message") T = None -> parse_message T = Ok None.
Proof. intros T H. unfold parse_message. rewrite find_sub_fs, H. reflexivity. Qed.
Lemma parse_message_at : forall T P m R, fs (L "message") T = Some (P, L " = " ++ dq :: m ++ dq :: R) ->
  closes m = true -> parse_message T = Ok (Some (unescape m)).
Proof. intros T P m R H Hm. unfold parse_message. rewrite find_sub_fs, H.
  change (L "message" ++ L " = " ++ dq :: m ++ dq :: R) with (L "message " ++ "=" :: (" " :: dq :: m ++ dq :: R)).
  rewrite after_char_app by reflexivity.
  change (wtrim_l (" " :: dq :: m ++ dq :: R)) with (dq :: m ++ dq :: R).
  change (Ascii.eqb dq dq || Ascii.eqb dq sq) with true. cbv iota.
  rewrite (scan_closes m false 0 R Hm). cbn [plus].
  unfold slice_to, boundary. rewrite app_length. cbn [List.length].
  replace (Nat.eqb (List.length m) (List.length m + S (List.length R))) with false by (symmetry; apply Nat.eqb_neq; lia).
  rewrite nth_error_app_len. change (negb (is_cont dq)) with true. cbv iota. rewrite firstn_app_len. cbn [obind].
  reflexivity. Qed.

Lemma message_canon : forall o omin omax omsg, okn omin -> okn omax -> okm omsg ->
  parse_message (cont (pieces o omin omax omsg)) = Ok (option_map unescape omsg).
Proof. intros o omin omax omsg Hmin Hmax Hmsg.
  destruct o as [|[|[|[|[|o]]]]]; destruct omsg as [m|]; prep; destruct omin as [a|], omax as [b|]; prep; norm; cbn [option_map];
  first [ apply parse_message_none; go; reflexivity
        | eapply parse_message_at; [go; reflexivity | assumption] ]. Qed.

(* ------------------------------------------------------------------ the scanning half on canonical validators *)
Definition onum (numf : str -> option str) (o : option str) : option str := match o with Some a => numf a | None => None end.

Theorem scan_exact_canon : forall dispf r o omin omax omsg, okn omin -> okn omax -> okm omsg ->
  parse_validator_attributes dispf [AValidate [canon_item r (canon_args o omin omax omsg)]] =
  Ok (Some (let c := {| c_min := onum (if r then dispf else parse_u64) omin;
                        c_max := onum (if r then dispf else parse_u64) omax; c_msg := option_map unescape omsg |} in
            {| v_length := if r then None else Some c; v_range := if r then Some c else None;
               v_email := false; v_url := false |})).
Proof. intros dispf r o omin omax omsg Hmin Hmax Hmsg.
  unfold parse_validator_attributes. cbn [map attr_view va_fold]. rewrite tokens_canon.
  pose proof (no_kw_tokens "email" r o omin omax omsg Hmin Hmax Hmsg ltac:(cbn; tauto)) as He.
  pose proof (no_kw_tokens "url" r o omin omax omsg Hmin Hmax Hmsg ltac:(cbn; tauto)) as Hu.
  pose proof (no_kw_tokens (kwof (negb r)) r o omin omax omsg Hmin Hmax Hmsg ltac:(cbn; tauto)) as Ho.
  pose proof (lacks_paren_cont o omin omax omsg Hmin Hmax Hmsg) as Hp.
  destruct (bounds_canon o omin omax omsg Hmin Hmax Hmsg) as [Bmin Bmax].
  pose proof (message_canon o omin omax omsg Hmin Hmax Hmsg) as Bmsg.
  set (C := cont (pieces o omin omax omsg)) in *. set (T := L (kwof r) ++ L " (" ++ C ++ L ")") in *.
  assert (Hhit : forall numf, parse_constraint (kwof r) numf T =
            Ok (Some {| c_min := onum numf omin; c_max := onum numf omax; c_msg := option_map unescape omsg |})).
  { intros numf. unfold parse_constraint. unfold T at 1. rewrite contains_kw. unfold T. rewrite paren_content_ok by exact Hp.
    rewrite Bmin, Bmax, Bmsg. cbn [obind]. unfold onum. destruct omin, omax; reflexivity. }
  assert (Hmiss : forall numf, parse_constraint (kwof (negb r)) numf T = Ok None).
  { intros numf. unfold parse_constraint, contains. rewrite find_sub_fs, Ho. reflexivity. }
  unfold va_step, contains. rewrite !find_sub_fs, He, Hu.
  destruct r; cbn [kwof negb] in *; rewrite Hhit, Hmiss; cbn [obind va_fold]; reflexivity. Qed.

(* ------------------------------------------------------------------ arrays: the element schema is always bare *)
Lemma render_skip_bare : forall t v, render_type t v true false = bare_schema t.
Proof. induction t as [p|t IH|t IH|n]; intros v; cbn [render_type bare_schema].
  - unfold render_primitive, apply_string_validators, apply_range_validator.
    destruct (str_eqb p (L "string")); [reflexivity|]. destruct (str_eqb p (L "number")); reflexivity.
  - rewrite IH. reflexivity.
  - rewrite IH. reflexivity.
  - reflexivity. Qed.

(* for EVERY element type: the chain of a Vec field is z.array(<bare element schema>) followed by the
   length methods (and the Option wrappers) - no validator ever reaches the element *)
Theorem array_elements_bare : forall inner v k,
  build_schema (opts k (TsArr inner)) (Some v) =
  L "z.array(" ++ bare_schema inner ++ L ")" ++ flat_map show_meth (length_meths v ++ repeat MOptional k).
Proof. intros inner v k. unfold build_schema. rewrite render_opts. cbn [render_type]. rewrite render_skip_bare.
  unfold apply_length_validator, length_meths. rewrite !flat_map_app.
  destruct (v_length v) as [c|]; rewrite ?apply_cstr_show; cbn [flat_map app]; rewrite <- ?app_assoc; reflexivity. Qed.

(* reading back: generic in the (closed) base text *)
Lemma read_chain_base : forall (base : str) (mk : list meth -> schema),
  7 <= List.length base ->
  (forall F T, read_schema (S (S (S (S (S (S (S (S F)))))))) (base ++ T) =
     match read_meths (S (S (S (S (S (S (S F))))))) T with Some (ms, s4) => Some (mk ms, s4) | None => None end) ->
  forall ms, forallb meth_ok ms = true -> read_chain (base ++ flat_map show_meth ms) = Some (mk ms).
Proof. intros base mk Hlen Hrs ms Hok. unfold read_chain.
  assert (E : exists f0, List.length (base ++ flat_map show_meth ms) = S (S (S (S (S (S (S (List.length ms + f0)))))))).
  { rewrite app_length. pose proof (len_show ms) as Hl.
    exists (List.length base - 7 + (List.length (flat_map show_meth ms) - List.length ms)). lia. }
  destruct E as [f0 E]. rewrite E, Hrs. rewrite <- (app_nil_r (flat_map show_meth ms)).
  replace (S (S (S (S (S (S (S (List.length ms + f0))))))))
    with (S (List.length ms + S (S (S (S (S (S f0))))))) by lia.
  rewrite read_meths_show by (auto; reflexivity). reflexivity. Qed.

Definition arr_of (s : schema) (ms : list meth) : schema := Sch (L "z.array") [s] ms.
Theorem render_exact_arrays : forall v k, va_ok v = true ->
  let ms := length_meths v ++ repeat MOptional k in
  read_chain (build_schema (opts k (TsArr (TsPrim (L "number")))) (Some v)) = Some (arr_of (Sch (L "z.coerce.number") [] []) ms) /\
  read_chain (build_schema (opts k (TsArr (TsPrim (L "boolean")))) (Some v)) = Some (arr_of (Sch (L "z.coerce.boolean") [] []) ms) /\
  read_chain (build_schema (opts k (TsArr (TsOpt (TsPrim (L "number"))))) (Some v)) = Some (arr_of (Sch (L "z.coerce.number") [] [MOptional]) ms) /\
  read_chain (build_schema (opts k (TsArr (TsArr (TsPrim (L "string"))))) (Some v)) =
    Some (arr_of (Sch (L "z.array") [Sch (L "z.string") [] []] []) ms) /\
  read_chain (build_schema (opts k (TsArr (TsArr (TsOpt (TsPrim (L "number")))))) (Some v)) =
    Some (arr_of (Sch (L "z.array") [Sch (L "z.coerce.number") [] [MOptional]] []) ms).
Proof. intros v k Hv ms. unfold va_ok in Hv. apply andb_true_iff in Hv as [Hl _].
  assert (HL : forallb meth_ok ms = true).
  { unfold ms, length_meths. rewrite forallb_app, optional_ok. destruct (v_length v); [rewrite cstr_meths_ok by exact Hl|]; reflexivity. }
  rewrite !array_elements_bare. fold ms.
  repeat split.
  - exact (read_chain_base (L "z.array(z.coerce.number())") (arr_of (Sch (L "z.coerce.number") [] [])) ltac:(cbn; lia) ltac:(reflexivity) ms HL).
  - exact (read_chain_base (L "z.array(z.coerce.boolean())") (arr_of (Sch (L "z.coerce.boolean") [] [])) ltac:(cbn; lia) ltac:(reflexivity) ms HL).
  - exact (read_chain_base (L "z.array(z.coerce.number().optional())") (arr_of (Sch (L "z.coerce.number") [] [MOptional])) ltac:(cbn; lia) ltac:(reflexivity) ms HL).
  - exact (read_chain_base (L "z.array(z.array(z.string()))") (arr_of (Sch (L "z.array") [Sch (L "z.string") [] []] [])) ltac:(cbn; lia) ltac:(reflexivity) ms HL).
  - exact (read_chain_base (L "z.array(z.array(z.coerce.number().optional()))") (arr_of (Sch (L "z.array") [Sch (L "z.coerce.number") [] [MOptional]] [])) ltac:(cbn; lia) ltac:(reflexivity) ms HL).
Qed.

(* ------------------------------------------------------------------ both halves together, canonical validators *)
Definition canon_cstr (dispf : str -> option str) (r : bool) (omin omax omsg : option str) : cstr :=
  {| c_min := onum (if r then dispf else parse_u64) omin; c_max := onum (if r then dispf else parse_u64) omax; c_msg := option_map unescape omsg |}.
Definition canon_va (dispf : str -> option str) (r : bool) (omin omax omsg : option str) : vattrs :=
  {| v_length := if r then None else Some (canon_cstr dispf r omin omax omsg);
     v_range := if r then Some (canon_cstr dispf r omin omax omsg) else None; v_email := false; v_url := false |}.
Definition canon_field (t : ty) (r : bool) (o : nat) (omin omax omsg : option str) : field :=
  {| f_ty := t; f_attrs := [AValidate [canon_item r (canon_args o omin omax omsg)]] |}.
Definition opt_ty (k : nat) (t : ty) : ty := Nat.iter k TyOpt t.
Lemma tstruct_opt_ty : forall k t, tstruct_of (opt_ty k t) = opts k (tstruct_of t).
Proof. induction k as [|k IH]; intros t; [reflexivity|]. change (opt_ty (S k) t) with (TyOpt (opt_ty k t)).
  cbn [tstruct_of]. rewrite IH. reflexivity. Qed.

Lemma field_chain_canon : forall dispf t r o omin omax omsg, okn omin -> okn omax -> okm omsg ->
  field_chain dispf (canon_field t r o omin omax omsg) =
  Ok (Some (canon_va dispf r omin omax omsg), build_schema (tstruct_of t) (Some (canon_va dispf r omin omax omsg))).
Proof. intros dispf t r o omin omax omsg Hmin Hmax Hmsg. unfold field_chain, canon_field. cbn [f_attrs f_ty].
  rewrite scan_exact_canon by assumption. reflexivity. Qed.

(* declared canonical length(..) / range(..) on a String / numeric / Vec<String> field under k Options:
   no panic, the parsed attributes are the declared ones, and the emitted chain reads back as exactly
   min / max (printed bound of the declared literal) with the declared message *)
Theorem exact_canon : forall dispf k o omin omax omsg, okn omin -> okn omax -> okm omsg ->
  (va_ok (canon_va dispf false omin omax omsg) = true ->
   exists chain, field_chain dispf (canon_field (opt_ty k TyString) false o omin omax omsg)
                   = Ok (Some (canon_va dispf false omin omax omsg), chain) /\
     read_chain chain = Some (Sch (L "z.string") [] (cstr_meths (canon_cstr dispf false omin omax omsg) ++ repeat MOptional k))) /\
  (va_ok (canon_va dispf true omin omax omsg) = true ->
   exists chain, field_chain dispf (canon_field (opt_ty k TyNum) true o omin omax omsg)
                   = Ok (Some (canon_va dispf true omin omax omsg), chain) /\
     read_chain chain = Some (Sch (L "z.coerce.number") [] (cstr_meths (canon_cstr dispf true omin omax omsg) ++ repeat MOptional k))) /\
  (va_ok (canon_va dispf false omin omax omsg) = true ->
   exists chain, field_chain dispf (canon_field (opt_ty k (TyVec TyString)) false o omin omax omsg)
                   = Ok (Some (canon_va dispf false omin omax omsg), chain) /\
     read_chain chain = Some (Sch (L "z.array") [Sch (L "z.string") [] []]
                                  (cstr_meths (canon_cstr dispf false omin omax omsg) ++ repeat MOptional k))).
Proof. intros dispf k o omin omax omsg Hmin Hmax Hmsg. split; [|split]; intros Hv; eexists; (split; [apply field_chain_canon; assumption|]);
  rewrite tstruct_opt_ty; cbn [tstruct_of]; destruct (render_exact _ k Hv) as [Hs [Hn Ha]].
  - exact Hs.
  - exact Hn.
  - exact Ha. Qed.

(* ------------------------------------------------------------------ the run-time oracle, reflected *)
From Coq Require Import ZArith.
Lemma str_eqb_eq : forall a b : str, str_eqb a b = true <-> a = b.
Proof. intros a b. unfold str_eqb. destruct (list_eq_dec ascii_dec a b); split; intros H; auto; discriminate. Qed.
Lemma ostr_eqb_eq : forall a b, ostr_eqb a b = true <-> a = b.
Proof. intros [a|] [b|]; cbn [ostr_eqb]; try (split; intros H; discriminate || reflexivity).
  rewrite str_eqb_eq. split; [intros ->; reflexivity|intros H; inversion H; reflexivity]. Qed.
Lemma dec_eqb_eq : forall a b, dec_eqb a b = true <-> a = b.
Proof. intros [n1 d1 e1] [n2 d2 e2]. unfold dec_eqb. cbn [d_neg d_digits d_exp].
  rewrite !andb_true_iff, Bool.eqb_true_iff, str_eqb_eq, Z.eqb_eq.
  split; [intros [[-> ->] ->]; reflexivity|intros H; inversion H; auto]. Qed.
Lemma cons_eqb_eq : forall a b, cons_eqb a b = true <-> a = b.
Proof. intros [x|x|d x|d x] [y|y|e y|e y]; cbn [cons_eqb]; try (split; intros H; discriminate);
  rewrite ?andb_true_iff, ?dec_eqb_eq, ?ostr_eqb_eq;
  (split; [intros H; try destruct H; subst; reflexivity|intros H; inversion H; auto]). Qed.
Lemma list_eqb_eq {A} (eq : A -> A -> bool) : (forall a b, eq a b = true <-> a = b) ->
  forall l1 l2, list_eqb eq l1 l2 = true <-> l1 = l2.
Proof. intros Heq. induction l1 as [|a l1 IH]; intros [|b l2]; cbn [list_eqb]; try (split; intros H; discriminate || reflexivity).
  rewrite andb_true_iff, Heq, IH. split; [intros [-> ->]; reflexivity|intros H; inversion H; auto]. Qed.

Definition of_kind (k : nat) (l : list cons) : list cons := filter (fun c => Nat.eqb (cons_kind c) k) l.
Lemma of_kind_big : forall k l, 4 <= k -> of_kind k l = [].
Proof. intros k l Hk. unfold of_kind. induction l as [|c l IH]; [reflexivity|]. cbn [filter].
  replace (Nat.eqb (cons_kind c) k) with false; [exact IH|]. symmetry. apply Nat.eqb_neq. destruct c; cbn [cons_kind]; lia. Qed.
Lemma same_cons_iff : forall ex got, same_cons ex got = true <-> forall k, of_kind k ex = of_kind k got.
Proof. intros ex got. unfold same_cons. rewrite forallb_forall. split.
  - intros H k. destruct (le_lt_dec 4 k) as [Hk|Hk]; [rewrite !of_kind_big by exact Hk; reflexivity|].
    apply (list_eqb_eq cons_eqb cons_eqb_eq). apply H.
    destruct k as [|[|[|[|k]]]]; cbn [In]; auto; lia.
  - intros H k _. apply (list_eqb_eq cons_eqb cons_eqb_eq). apply H. Qed.

(* what the oracle decides, as a proposition: the chain reads as a schema of the right base whose nested
   schemas carry no constraint and whose own methods denote, kind by kind, exactly the expected constraints
   (equal exact decimals, equal message bytes) *)
Definition C11_holds (f : field) (chain : str) : Prop :=
  exists ex base inner ms got,
    expected f = Some ex /\ read_chain chain = Some (Sch base inner ms) /\
    base_ok (kind_of (f_ty f)) base inner = true /\ Forall (fun s => no_cons_schema s = true) inner /\
    meths_cons ms = Some got /\ forall k, of_kind k ex = of_kind k got.

Theorem oracle_exact : forall f chain, c11_field_ok f chain = true <-> C11_holds f chain.
Proof. intros f chain. unfold c11_field_ok, C11_holds. split.
  - destruct (expected f) as [ex|]; [|discriminate]. destruct (read_chain chain) as [[base inner ms]|]; [|discriminate].
    intros H. apply andb_true_iff in H as [H12 H3]. apply andb_true_iff in H12 as [H1 H2].
    destruct (meths_cons ms) as [got|] eqn:Em; [|discriminate].
    exists ex, base, inner, ms, got.
    split; [reflexivity|]. split; [reflexivity|]. split; [exact H1|].
    split; [apply Forall_forall; rewrite forallb_forall in H2; exact H2|].
    split; [exact Em|]. apply same_cons_iff. exact H3.
  - intros [ex [base [inner [ms [got [-> [-> [H1 [H2 [-> H3]]]]]]]]]].
    rewrite H1. rewrite (proj2 (same_cons_iff ex got) H3).
    replace (forallb no_cons_schema inner) with true; [reflexivity|].
    symmetry. apply forallb_forall. apply Forall_forall. exact H2. Qed.
