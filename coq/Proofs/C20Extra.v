(* Corollaries of the DFS theorem used by Properties/C20.v:
   transitive ordering on acyclic graphs, and the refutation of the
   transitive reading on cyclic graphs. *)
From Coq Require Import List Arith Lia Bool.
Require Import TT.Model.Base TT.Model.Topo TT.Proofs.TopoProofs.
Import ListNotations.

Section Extra.
Context {node : Type} {ED : EqDec node}.
Local Notation graph := (Topo.graph node).

Inductive reach1 (g : graph) : node -> node -> Prop :=
| r1_one a b : edge g a b -> reach1 g a b
| r1_step a b c : edge g a b -> reach1 g b c -> reach1 g a c.

Definition acyclic (g : graph) : Prop := forall n, ~ reach1 g n n.

Lemma reach_reach1 g a b : reach g a b -> a = b \/ reach1 g a b.
Proof. induction 1 as [a|a b c He Hr IH]; [left; reflexivity|].
  right. destruct IH as [->|IH]; [constructor 1; assumption|econstructor 2; eassumption]. Qed.

Lemma reach1_reach g a b : reach1 g a b -> reach g a b.
Proof. induction 1 as [a b He|a b c He Hr IH]; [apply reach_edge; assumption|].
  eapply reach_step; eassumption. Qed.

Lemma reach1_snoc g a b c : reach1 g a b -> edge g b c -> reach1 g a c.
Proof. induction 1 as [a b He|a b c' He Hr IH]; intros Hc.
  - econstructor 2; [eassumption|constructor 1; assumption].
  - econstructor 2; [eassumption|apply IH; assumption]. Qed.

Lemma reach1_trans g a b c : reach1 g a b -> reach1 g b c -> reach1 g a c.
Proof. induction 1 as [a b He|a b c' He Hr IH]; intros Hc.
  - econstructor 2; eassumption.
  - econstructor 2; [eassumption|apply IH; assumption]. Qed.

Definition idx_before (out : list node) (v u : node) : Prop :=
  exists i j, nth_error out i = Some v /\ nth_error out j = Some u /\ i < j.

Theorem topo_acyclic_transitive fuel g req out :
  acyclic g -> topo_sort fuel g req = Some out ->
  forall u v, In u out -> reach1 g u v -> idx_before out v u.
Proof.
  intros Hac Hs. destruct (topo_correct _ _ _ _ Hs) as (Hnd & Hex & Hord).
  assert (Hbase : forall u v, In u out -> edge g u v -> idx_before out v u).
  { intros u v Hu He. apply Hord; auto. intros Hr.
    apply reach_reach1 in Hr as [->|Hr].
    - apply (Hac u). constructor 1; assumption.
    - apply (Hac u). econstructor 2; eassumption. }
  intros u v Hu Hr. revert Hu. induction Hr as [a b He|a b c He Hr IH]; intros Hu.
  - apply Hbase; assumption.
  - assert (Hb : In b out).
    { apply Hex. apply Hex in Hu as (r & Hr1 & Hr2). exists r; split; auto.
      eapply reach_trans; [eassumption|apply reach_edge; assumption]. }
    destruct (Hbase a b Hu He) as (i & j & Hi & Hj & Hij).
    destruct (IH Hb) as (i' & j' & Hi' & Hj' & Hij').
    assert (j' = i).
    { apply (proj1 (NoDup_nth_error out) Hnd).
      - apply nth_error_Some. rewrite Hj'. discriminate.
      - rewrite Hj', Hi. reflexivity. }
    subst j'. exists i', j. repeat split; auto. lia.
Qed.
End Extra.

(* On a cyclic graph the *transitive* reading fails for any DFS with cycle
   cutting: a -> u, a -> w, u -> a, started at a, emits u, w, a although u
   reaches w and w does not reach u (they share no cycle). *)
Lemma transitive_on_cyclic_refuted :
  exists (g : Topo.graph nat) req out u w,
    topo_sort (S (length (universe g req))) g req = Some out /\
    reach g u w /\ ~ reach g w u /\ idx_before out u w.
Proof.
  exists [(0, [1; 2]); (1, [0])], [0], [1; 2; 0], 1, 2.
  split; [vm_compute; reflexivity|]. split.
  - eapply reach_step with (b := 0); [unfold edge; simpl; auto|].
    eapply reach_step with (b := 2); [unfold edge; simpl; auto|apply reach_refl].
  - split.
    + intros H. inversion H as [|a b c He Hr]; subst. unfold edge in He. simpl in He. exact He.
    + exists 0, 1. repeat split; auto.
Qed.
