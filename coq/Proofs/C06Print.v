(* C06, string level: the token the specification lexer (Spec/TsLex.v) reads at a key or literal
   position, decoded by the reader of Spec/C06Keys.v, is the printed name - for every byte string *)
From Coq Require Import String Ascii.
From Coq Require Import List Arith Lia Bool.
Require Import TT.Model.Str TT.Model.C06Print TT.Spec.TsLex TT.Spec.TsModule TT.Spec.C06Keys.
Import ListNotations.
Local Open Scope char_scope.
Local Open Scope list_scope.

Definition all_bytes : list ascii := map (fun n => ascii_of_nat n) (seq 0 256).
Lemma all_bytes_complete c : In c all_bytes.
Proof. unfold all_bytes. apply in_map_iff. exists (nat_of_ascii c). split; [apply ascii_nat_embedding|].
  apply in_seq. pose proof (nat_ascii_bounded c). lia. Qed.

(* per-character facts: decoding an escaped character, and how the string scanner walks over it *)
Definition esc_fact (c : ascii) : bool :=
  match esc1 c with
  | [x] => Ascii.eqb x c && negb (Ascii.eqb c DQ) && negb (n_of c =? 10)%nat && negb (Ascii.eqb c BS)
  | [b; e] => Ascii.eqb b BS && negb (Ascii.eqb b DQ) && negb (n_of b =? 10)%nat &&
              Ascii.eqb (if Ascii.eqb e "n" then ascii_of_nat 10 else if Ascii.eqb e "r" then ascii_of_nat 13
                         else if Ascii.eqb e "t" then ascii_of_nat 9 else e) c
  | _ => false
  end.
Lemma esc_fact_all : forallb esc_fact all_bytes = true.
Proof. vm_compute. reflexivity. Qed.
Lemma esc_cases c :
  (esc1 c = [c] /\ Ascii.eqb c DQ = false /\ (n_of c =? 10)%nat = false /\ Ascii.eqb c BS = false) \/
  (exists e, esc1 c = [BS; e] /\
     (if Ascii.eqb e "n" then ascii_of_nat 10 else if Ascii.eqb e "r" then ascii_of_nat 13
      else if Ascii.eqb e "t" then ascii_of_nat 9 else e) = c).
Proof. pose proof (proj1 (forallb_forall _ _) esc_fact_all c (all_bytes_complete c)) as F. unfold esc_fact in F.
  destruct (esc1 c) as [|x [|e [|y l]]]; try discriminate.
  - left. repeat (apply andb_true_iff in F as [F ?]). apply Ascii.eqb_eq in F. subst x.
    repeat split; try (apply negb_true_iff; assumption).
  - right. repeat (apply andb_true_iff in F as [F ?]). apply Ascii.eqb_eq in F. subst x. exists e. split; [reflexivity|].
    apply Ascii.eqb_eq. assumption. Qed.

Lemma js_unescape_cons_plain c r : Ascii.eqb c BS = false -> js_unescape (c :: r) = c :: js_unescape r.
Proof. intros H. cbn [js_unescape]. unfold BS in H. rewrite H. reflexivity. Qed.
Lemma js_unescape_esc e r : js_unescape (BS :: e :: r) =
  (if Ascii.eqb e "n" then ascii_of_nat 10 else if Ascii.eqb e "r" then ascii_of_nat 13
   else if Ascii.eqb e "t" then ascii_of_nat 9 else e) :: js_unescape r.
Proof. reflexivity. Qed.

(* decoding inverts escaping, every byte string *)
Theorem unescape_escape s : js_unescape (escape_js s) = s.
Proof. induction s as [|c s IH]; [reflexivity|]. unfold escape_js in *. cbn [flat_map].
  destruct (esc_cases c) as [(E & _ & _ & Hb)|(e & E & Hd)]; rewrite E; cbn [app].
  - rewrite (js_unescape_cons_plain c _ Hb), IH. reflexivity.
  - rewrite js_unescape_esc, Hd, IH. reflexivity. Qed.

(* the lexer's string scanner stops exactly at the closing quote of an escaped literal *)
Lemma scan_escape s : forall acc rest,
  scan_str DQ (escape_js s ++ DQ :: rest) acc = Some (rev acc ++ escape_js s, rest).
Proof. induction s as [|c s IH]; intros acc rest.
  - cbn [escape_js flat_map app scan_str]. unfold DQ. rewrite Ascii.eqb_refl, app_nil_r. reflexivity.
  - unfold escape_js in *. cbn [flat_map]. rewrite <- app_assoc.
    destruct (esc_cases c) as [(E & Hq & Hn & Hb)|(e & E & _)]; rewrite E; cbn [app].
    + cbn [scan_str]. unfold DQ, BS in *. rewrite Hq, Hn, Hb. rewrite IH. cbn [rev]. rewrite <- app_assoc. reflexivity.
    + cbn [scan_str]. change (Ascii.eqb BS DQ) with false. change (n_of BS =? 10)%nat with false. change (Ascii.eqb BS "\") with true.
      cbv iota. rewrite IH. cbn [rev]. rewrite <- !app_assoc. reflexivity. Qed.

Lemma lexm_quote f r : lexm (S f) (DQ :: r) =
  match scan_str DQ r [] with Some (b, r') => KStr DQ b :: lexm f r' | None => [KErr (L "unterminated string")] end.
Proof. reflexivity. Qed.

(* a quoted key or an enum literal: one string token whose decoded body is the name *)
Theorem lex_literal f name rest :
  lexm (S f) (literal_text name ++ rest) = KStr DQ (escape_js name) :: lexm f rest /\
  js_unescape (escape_js name) = name.
Proof. split; [|apply unescape_escape]. unfold literal_text. cbn [app]. rewrite lexm_quote, <- app_assoc. cbn [app].
  rewrite scan_escape. reflexivity. Qed.

(* a bare key: one identifier token *)
Definition ident_bytes (name : str) : bool :=
  match name with c :: _ => is_id_start c | [] => false end && forallb is_id_char name.
Definition start_fact (c : ascii) : bool := implb (is_id_start c) (negb (is_ws c) && negb (Ascii.eqb c "/")).
Lemma start_fact_all : forallb start_fact all_bytes = true.
Proof. vm_compute. reflexivity. Qed.
Lemma span_ident name d rest : forallb is_id_char name = true -> is_id_char d = false ->
  span is_id_char (name ++ d :: rest) = (name, d :: rest).
Proof. intros Hn Hd. induction name as [|c name IH].
  - cbn [app span]. rewrite Hd. reflexivity.
  - cbn [forallb] in Hn. apply andb_true_iff in Hn as [Hc Hn]. cbn [app span]. rewrite Hc, (IH Hn). reflexivity. Qed.
Theorem lex_bare f name d rest : ident_bytes name = true -> is_id_char d = false ->
  lexm (S f) (name ++ d :: rest) = KId name :: lexm f (d :: rest).
Proof. unfold ident_bytes. intros H Hd. apply andb_true_iff in H as [Hs Hn]. destruct name as [|c name]; [discriminate|].
  pose proof (proj1 (forallb_forall _ _) start_fact_all c (all_bytes_complete c)) as F. unfold start_fact in F.
  rewrite Hs in F. cbn [implb] in F. apply andb_true_iff in F as [Fw Fs]. apply negb_true_iff in Fw. apply negb_true_iff in Fs.
  pose proof (span_ident (c :: name) d rest Hn Hd) as Hsp.
  cbn [app] in *. cbn [lexm]. rewrite Fw, Fs, Hs. cbn [andb]. rewrite Hsp. reflexivity. Qed.

(* the key as the reader of C06Keys sees it *)
Definition key_of_tok (t : tk) : option key :=
  match t with KId s => Some (KeyId s) | KStr _ s => Some (KeyStr s) | KNum s => Some (KeyNum s) | _ => None end.

(* whichever form ts_key chooses (bare only for names made of identifier bytes - every name accepted by
   is_identifier_name is: ASCII letters, digits, underscore, dollar, or bytes of non-ASCII characters),
   the token before the colon decodes to the name *)
Theorem key_token f bare name rest : (bare = true -> ident_bytes name = true) ->
  exists t k, lexm (S f) (key_text_of bare name ++ ":" :: rest) = t :: lexm f (":" :: rest) /\
              key_of_tok t = Some k /\ key_text k = name.
Proof. intros Hb. destruct bare.
  - exists (KId name), (KeyId name). split; [|split; reflexivity]. cbn [key_text_of]. apply lex_bare; [apply Hb; reflexivity|reflexivity].
  - exists (KStr DQ (escape_js name)), (KeyStr (escape_js name)). split; [|split; [reflexivity|]].
    + cbn [key_text_of]. apply (lex_literal f name (":" :: rest)).
    + cbn [key_text]. apply unescape_escape. Qed.

(* ------------------------------------------------------------------ the enum alias template:
   export type N = <lit> | <lit> | ... ;   (partials/enum.tera) *)
Definition union_text (names : list str) : str :=
  match names with
  | [] => []
  | n :: more => literal_text n ++ flat_map (fun m => L " | " ++ literal_text m) more
  end.
Definition union_toks (names : list str) : list tk :=
  match names with
  | [] => []
  | n :: more => KStr DQ (escape_js n) :: flat_map (fun m => [P "|"; KStr DQ (escape_js m)]) more
  end.

Lemma lexm_ws f r : lexm (S f) (" " :: r) = lexm f r.
Proof. reflexivity. Qed.
Lemma lexm_bar f r : lexm (S f) ("|" :: " " :: r) = P "|" :: lexm f (" " :: r).
Proof. reflexivity. Qed.

Lemma sep_unfold (x : str) : L " | " ++ x = " " :: "|" :: " " :: x.
Proof. reflexivity. Qed.
Lemma lex_more more : forall f rest,
  lexm (4 * List.length more + f) (flat_map (fun m => L " | " ++ literal_text m) more ++ rest)
  = flat_map (fun m => [P "|"; KStr DQ (escape_js m)]) more ++ lexm f rest.
Proof. induction more as [|m more IH]; intros f rest; [reflexivity|].
  cbn [List.length flat_map]. replace (4 * S (List.length more) + f) with (S (S (S (S (4 * List.length more + f))))) by lia.
  rewrite <- !app_assoc. rewrite sep_unfold. rewrite lexm_ws, lexm_bar, lexm_ws.
  destruct (lex_literal (4 * List.length more + f) m (flat_map (fun m0 => L " | " ++ literal_text m0) more ++ rest)) as [Hl _].
  rewrite Hl, IH. reflexivity. Qed.

(* text -> tokens, every list of names *)
Theorem lex_union names f rest : names <> [] ->
  lexm (S (4 * (List.length names - 1) + f)) (union_text names ++ rest) = union_toks names ++ lexm f rest.
Proof. destruct names as [|n more]; [congruence|]. intros _. cbn [union_text union_toks List.length].
  rewrite <- app_assoc.
  destruct (lex_literal (4 * List.length more + f) n (flat_map (fun m => L " | " ++ literal_text m) more ++ rest)) as [Hl _].
  replace (S (List.length more) - 1) with (List.length more) by lia.
  rewrite Hl, lex_more. reflexivity. Qed.

(* tokens -> type -> literals (Spec/TsModule.v p_type_body, Spec/C06Keys.v lits_of_ty) *)
Section Parse.
Variable rec : list tk -> RT ty.

Lemma postfix_lit q s a r : tk_is "[" a = false ->
  p_postfix rec (KStr q s :: a :: r) = Some (TyLit s, a :: r).
Proof. intros Ha. unfold p_postfix. cbn [p_primary List.length p_suffix]. destruct r as [|b r']; [reflexivity|]. rewrite Ha. reflexivity. Qed.

Lemma alts_lits more : forall n acc a rest, List.length more < n -> tk_is "[" a = false -> tk_is "|" a = false ->
  p_alts rec n (flat_map (fun s => [P "|"; KStr DQ s]) more ++ a :: rest) acc = Some (rev acc ++ map TyLit more, a :: rest).
Proof. induction more as [|s more IH]; intros n acc a rest Hn Ha Hb.
  - destruct n; [cbn in Hn; lia|]. cbn [flat_map app p_alts map]. rewrite Hb, app_nil_r. reflexivity.
  - destruct n; [cbn in Hn; lia|]. cbn [List.length] in Hn. cbn [flat_map app p_alts]. change (tk_is "|" (P "|")) with true. cbv iota.
    destruct more as [|s2 more'].
    + cbn [flat_map app]. rewrite (postfix_lit DQ s a rest Ha).
      specialize (IH n (TyLit s :: acc) a rest). cbn [flat_map app List.length] in IH. rewrite IH by (cbn; lia || assumption); try assumption.
      cbn [rev map]. rewrite <- app_assoc. reflexivity.
    + cbn [flat_map app]. rewrite (postfix_lit DQ s (P "|") _ eq_refl).
      specialize (IH n (TyLit s :: acc) a rest). cbn [flat_map app] in IH. rewrite IH; try assumption; [|cbn [List.length] in *; lia].
      cbn [rev map]. rewrite <- app_assoc. reflexivity. Qed.
End Parse.

Lemma mapM_lits bodies : mapM (fun t => match t with TyLit s => Some (js_unescape s) | _ => None end) (map TyLit bodies) = Some (map js_unescape bodies).
Proof. induction bodies as [|b l IH]; [reflexivity|]. cbn [map mapM]. rewrite IH. reflexivity. Qed.
Lemma map_unescape names : map js_unescape (map escape_js names) = names.
Proof. induction names as [|n l IH]; [reflexivity|]. cbn [map]. rewrite unescape_escape, IH. reflexivity. Qed.

(* the literal list the reader extracts from the tokens of the alias right-hand side is the list of names *)
Lemma flat_len (l : list str) : List.length (flat_map (fun s => [P "|"; KStr DQ s]) l) = 2 * List.length l.
Proof. induction l as [|x l IH]; [reflexivity|]. cbn [flat_map app List.length]. rewrite IH. lia. Qed.
Lemma union_reads_back_rec rec names rest : names <> [] ->
  exists t, p_type_body rec (union_toks names ++ P ";" :: rest) = Some (t, P ";" :: rest) /\ lits_of_ty t = Some names.
Proof. destruct names as [|n more]; [congruence|]. intros _. cbn [union_toks].
  unfold p_type_body. cbn [app]. change (tk_is "|" (KStr DQ (escape_js n))) with false. cbv iota.
  assert (flat_map (fun m => [P "|"; KStr DQ (escape_js m)]) more = flat_map (fun s => [P "|"; KStr DQ s]) (map escape_js more)) as Hfm.
  { clear. induction more as [|m l IH]; [reflexivity|]. cbn [flat_map map]. rewrite IH. reflexivity. }
  rewrite Hfm.
  destruct more as [|m more'].
  - cbn [map flat_map app]. rewrite (postfix_lit rec DQ (escape_js n) (P ";") rest eq_refl).
    cbn [List.length p_alts]. change (tk_is "|" (P ";")) with false. cbv iota. cbn [rev].
    exists (TyLit (escape_js n)). split; [reflexivity|]. cbn [lits_of_ty]. rewrite unescape_escape. reflexivity.
  - cbn [map flat_map app]. rewrite (postfix_lit rec DQ (escape_js n) (P "|") _ eq_refl).
    pose proof (alts_lits rec (map escape_js (m :: more'))
                  (S (List.length (P "|" :: KStr DQ (escape_js m) :: flat_map (fun s => [P "|"; KStr DQ s]) (map escape_js more') ++ P ";" :: rest)))
                  [] (P ";") rest) as Ha.
    cbn [map flat_map app] in Ha. rewrite Ha; [| |reflexivity|reflexivity].
    + cbn [rev app map]. exists (TyUnion (TyLit (escape_js n) :: TyLit (escape_js m) :: map TyLit (map escape_js more'))).
      split; [reflexivity|]. cbn [lits_of_ty mapM]. rewrite mapM_lits, !unescape_escape, map_unescape. reflexivity.
    + cbn [List.length]. rewrite app_length, flat_len, !map_length. cbn [List.length]. lia. Qed.

Lemma p_type_S f l : p_type (S f) l = p_type_body (p_type f) l.
Proof. reflexivity. Qed.
Theorem union_reads_back names rest : names <> [] ->
  exists t, ptype (union_toks names ++ P ";" :: rest) = Some (t, P ";" :: rest) /\ lits_of_ty t = Some names.
Proof. intros H. unfold ptype, TYF. rewrite p_type_S. apply union_reads_back_rec. exact H. Qed.
