From Coq Require Import String Ascii ZArith.
From Coq Require Import List Arith Lia Bool.
Require Import TT.Model.Str TT.Proofs.StrFacts TT.Model.C07TypeParse.
Import ListNotations.
Local Open Scope char_scope.
Local Open Scope list_scope.

(* ---------- identifiers ---------- *)
Definition special (c : ascii) : bool :=
  Ascii.eqb c "<" || Ascii.eqb c ">" || Ascii.eqb c "(" || Ascii.eqb c ")" || Ascii.eqb c "," || is_space c || Ascii.eqb c "&"
  || Ascii.eqb c "[" || Ascii.eqb c "]".
Definition plain (c : ascii) : Prop := special c = false.
Definition ident (n : str) : Prop := n <> [] /\ Forall plain n.

Lemma plain_facts c : plain c ->
  Ascii.eqb c "<" = false /\ Ascii.eqb c ">" = false /\ Ascii.eqb c "(" = false /\ Ascii.eqb c ")" = false /\
  Ascii.eqb c "," = false /\ is_space c = false /\ Ascii.eqb c "&" = false /\ Ascii.eqb c "[" = false /\ Ascii.eqb c "]" = false.
Proof. unfold plain, special. intros H.
  repeat (apply orb_false_elim in H as [H ?]). repeat split; auto. Qed.

Lemma plain_neq_special a o : plain a -> special o = true -> Ascii.eqb a o = false /\ Ascii.eqb o a = false.
Proof. unfold plain. intros Ha Ho. split; destruct (Ascii.eqb_spec a o); destruct (Ascii.eqb_spec o a); subst; try congruence. Qed.

(* ---------- equation lemmas for the printer ---------- *)
Lemma tts_path_nil n : tts (RPath n []) = n. Proof. reflexivity. Qed.
Lemma tts_path_cons n a l : tts (RPath n (a :: l)) = n ++ "<" :: join (L ", ") (map tts (a :: l)) ++ [">"].
Proof. reflexivity. Qed.
Lemma tts_ref t : tts (RRef t) = "&" :: tts t. Proof. reflexivity. Qed.
Lemma tts_unit : tts (RTuple []) = ["("; ")"]. Proof. reflexivity. Qed.
Lemma tts_tuple a l : tts (RTuple (a :: l)) = "(" :: join (L ", ") (map tts (a :: l)) ++ [")"].
Proof. reflexivity. Qed.

(* ---------- nested induction ---------- *)
Section RtyInd.
  Variable P : rty -> Prop.
  Hypothesis HP : forall n args, Forall P args -> P (RPath n args).
  Hypothesis HR : forall t, P t -> P (RRef t).
  Hypothesis HT : forall l, Forall P l -> P (RTuple l).
  Fixpoint rty_ind' (t : rty) : P t :=
    match t with
    | RPath n args => HP n args ((fix go l : Forall P l := match l with [] => Forall_nil _ | x :: l' => Forall_cons _ (rty_ind' x) (go l') end) args)
    | RRef t => HR t (rty_ind' t)
    | RTuple l => HT l ((fix go l : Forall P l := match l with [] => Forall_nil _ | x :: l' => Forall_cons _ (rty_ind' x) (go l') end) l)
    end.
End RtyInd.

(* ---------- well-formedness = the documented type language ---------- *)
Local Open Scope string_scope.
Definition unary_names := ["Option"; "Vec"; "HashSet"; "BTreeSet"].
Definition map_names := ["HashMap"; "BTreeMap"].
Local Close Scope string_scope.

Definition arity_ok (n : str) (args : list rty) : Prop :=
  (one_of n unary_names = true -> List.length args <= 1) /\
  (one_of n map_names = true -> args = [] \/ exists k v, args = [k; v] /\ multi k = false) /\
  (is_name n "Result" = true -> List.length args <= 2).

Fixpoint wf (t : rty) : Prop :=
  match t with
  | RPath n args => ident n /\ arity_ok n args /\ (fix go l := match l with [] => True | x :: l' => wf x /\ go l' end) args
  | RRef t => wf t
  | RTuple l => (fix go l := match l with [] => True | x :: l' => wf x /\ go l' end) l
  end.
Lemma wf_list l : (fix go l := match l with [] => True | x :: l' => wf x /\ go l' end) l <-> Forall wf l.
Proof. induction l; simpl; split; intros; auto. constructor; tauto. inversion H; subst; tauto. Qed.

(* ---------- tightness: printed types carry no outer white space ---------- *)
Definition tight (w : str) : Prop := w <> [] /\ trim_l w = w /\ trim_l (rev w) = rev w.
Definition nsp (c : ascii) : Prop := is_space c = false.
Lemma trim_tight w : tight w -> trim w = w.
Proof. intros (_ & H1 & H2). unfold trim. rewrite H1, H2. apply rev_involutive. Qed.
Lemma trim_sp_tight w : tight w -> trim (" " :: w) = w.
Proof. intros (_ & H1 & H2). unfold trim. cbn [trim_l is_space Ascii.eqb Bool.eqb andb]. rewrite H1, H2. apply rev_involutive. Qed.
Lemma trim_l_nsp c w : nsp c -> trim_l (c :: w) = c :: w.
Proof. unfold nsp; intros H; simpl; rewrite H; reflexivity. Qed.
Lemma tight_wrap c c' w : nsp c -> nsp c' -> tight (c :: w ++ [c']).
Proof. intros Hc Hc'. split; [discriminate|]. split. apply trim_l_nsp; auto.
  change (c :: w ++ [c']) with ((c :: w) ++ [c']). rewrite rev_app_distr. simpl rev at 1.
  apply trim_l_nsp; auto. Qed.
Lemma tight_cons c w : nsp c -> tight w -> tight (c :: w).
Proof. intros Hc (Hn & H1 & H2). split; [discriminate|]. split. apply trim_l_nsp; auto.
  simpl. destruct (rev w) as [|x r] eqn:E.
  - exfalso. apply Hn. rewrite <- (rev_involutive w), E. reflexivity.
  - simpl in *. destruct (is_space x) eqn:Ex; auto.
    exfalso. pose proof (trim_l_len r) as Hlen. rewrite H2 in Hlen. simpl in Hlen. lia. Qed.
Lemma plain_nsp c : plain c -> nsp c.
Proof. intros H. apply plain_facts in H. unfold nsp. tauto. Qed.
Lemma tight_ident n : ident n -> tight n.
Proof. intros [Hn Hp]. destruct n as [|c n]; [congruence|]. clear Hn.
  revert c Hp. induction n as [|c' n IH]; intros c Hp; inversion Hp; subst.
  - split; [discriminate|]. split; apply trim_l_nsp; apply plain_nsp; auto.
  - apply tight_cons. apply plain_nsp; auto. apply IH; auto. Qed.

Lemma tts_tight t : wf t -> tight (tts t).
Proof. induction t as [n args IH|t IH|l IH] using rty_ind'; intros Hw; simpl in Hw.
  - destruct Hw as (Hn & _ & Ha). destruct args as [|a args]. { rewrite tts_path_nil. apply tight_ident; auto. }
    rewrite tts_path_cons. destruct Hn as [Hn Hp]. destruct n as [|c n]; [congruence|].
    inversion Hp; subst.
    set (J := join (L ", ") (map tts (a :: args))).
    replace ((c :: n) ++ "<" :: J ++ [">"]) with (c :: (n ++ "<" :: J) ++ [">"])
      by (simpl; rewrite <- app_assoc; reflexivity).
    apply tight_wrap; [apply plain_nsp; auto | reflexivity].
  - rewrite tts_ref. apply tight_cons; [reflexivity | auto].
  - destruct l as [|a l]. + rewrite tts_unit. apply (tight_wrap "(" ")" []); reflexivity.
    + rewrite tts_tuple. apply tight_wrap; reflexivity.
Qed.

(* ---------- comma-freeness ---------- *)
Definition nocomma (w : str) : Prop := Forall (fun c => Ascii.eqb c "," = false) w.
Lemma nocomma_app a b : nocomma a -> nocomma b -> nocomma (a ++ b).
Proof. intros; apply Forall_app; auto. Qed.
Lemma nocomma_ident n : Forall plain n -> nocomma n.
Proof. intros H. eapply Forall_impl; [|exact H]. intros c Hc. apply plain_facts in Hc. tauto. Qed.

Lemma nocomma_cons c w : Ascii.eqb c "," = false -> nocomma w -> nocomma (c :: w).
Proof. intros; constructor; auto. Qed.
Lemma nocomma_one c : Ascii.eqb c "," = false -> nocomma [c].
Proof. intros; repeat constructor; auto. Qed.

Lemma multi_nocomma t : wf t -> multi t = false -> nocomma (tts t).
Proof. induction t as [n args IH|t IH|l IH] using rty_ind'; intros Hw Hm; simpl in Hw, Hm.
  - destruct Hw as ((_ & Hp) & _ & Ha). apply wf_list in Ha. apply orb_false_elim in Hm as [Hlen Hex].
    destruct args as [|a [|b args]].
    + rewrite tts_path_nil; apply nocomma_ident; auto.
    + rewrite tts_path_cons. simpl map. rewrite join_one. simpl in Hex. apply orb_false_elim in Hex as [Hma _].
      inversion IH; subst. inversion Ha; subst.
      apply nocomma_app. apply nocomma_ident; auto. apply nocomma_cons; [reflexivity|].
      apply nocomma_app; auto. apply nocomma_one; reflexivity.
    + simpl in Hlen. discriminate.
  - rewrite tts_ref. apply nocomma_cons; [reflexivity|]. auto.
  - apply wf_list in Hw. apply orb_false_elim in Hm as [Hlen Hex].
    destruct l as [|a [|b l]].
    + rewrite tts_unit. apply nocomma_cons; [reflexivity|]. apply nocomma_one; reflexivity.
    + rewrite tts_tuple. simpl map. rewrite join_one. simpl in Hex. apply orb_false_elim in Hex as [Hma _].
      inversion IH; subst. inversion Hw; subst.
      apply nocomma_cons; [reflexivity|]. apply nocomma_app; auto. apply nocomma_one; reflexivity.
    + simpl in Hlen. discriminate.
Qed.

Lemma find_char_nocomma w r : nocomma w -> find_char "," (w ++ "," :: r) = Some (List.length w).
Proof. induction 1 as [|c w Hc Hw IH]; simpl; auto. rewrite Hc, IH. reflexivity. Qed.
Lemma find_char_none w : nocomma w -> find_char "," w = None.
Proof. induction 1 as [|c w Hc Hw IH]; simpl; auto. rewrite Hc, IH. reflexivity. Qed.

Lemma split_naive_go_nocomma w : nocomma w -> forall cur r,
  split_naive_go "," cur (w ++ r) = split_naive_go "," (rev w ++ cur) r.
Proof. induction 1 as [|c w Hc Hw IH]; intros cur r; simpl; auto. rewrite Hc, IH. rewrite <- app_assoc. reflexivity. Qed.

Lemma split_naive_join : forall ws w cur, nocomma w -> Forall nocomma ws ->
  split_naive_go "," cur (join (L ", ") (w :: ws)) = (rev cur ++ w) :: map (cons " ") ws.
Proof. induction ws as [|w' ws IH]; intros w cur Hw Hws.
  - rewrite join_one. rewrite <- (app_nil_r w) at 1. rewrite split_naive_go_nocomma by auto. simpl.
    rewrite rev_app_distr, rev_involutive. reflexivity.
  - rewrite join_cons2. rewrite split_naive_go_nocomma by auto. inversion Hws; subst.
    cbn [L list_ascii_of_string app split_naive_go Ascii.eqb Bool.eqb andb].
    rewrite rev_app_distr, rev_involutive. f_equal.
    change (","%char :: " "%char :: nil) with (L ", ").
    rewrite (IH w' [" "]) by auto. reflexivity.
Qed.

(* angle-depth splitter passes over a comma-free printed type and returns to its depth *)
Local Open Scope Z_scope.
Lemma split2_pass t : wf t -> multi t = false -> forall d pre r,
  split2_go d pre (tts t ++ r) = split2_go d (rev (tts t) ++ pre) r.
Proof. induction t as [n args IH|t IH|l IH] using rty_ind'; intros Hw Hm d pre r; simpl in Hw, Hm.
  - destruct Hw as ((_ & Hp) & _ & Ha). apply wf_list in Ha. apply orb_false_elim in Hm as [Hlen Hex].
    assert (Hid : forall n, Forall plain n -> forall d pre r, split2_go d pre (n ++ r) = split2_go d (rev n ++ pre) r).
    { clear. induction 1 as [|c n Hc Hn IHn]; intros d pre r; simpl; auto.
      apply plain_facts in Hc. destruct Hc as (H1 & H2 & _ & _ & H5 & _). rewrite H1, H2, H5. simpl.
      rewrite IHn. rewrite <- app_assoc. reflexivity. }
    destruct args as [|a [|b args]]; [rewrite tts_path_nil; apply Hid; auto| |discriminate].
    rewrite tts_path_cons. simpl map. rewrite join_one. simpl in Hex. apply orb_false_elim in Hex as [Hma _].
    inversion IH as [|? ? IHa _]; subst. inversion Ha; subst.
    rewrite <- app_assoc. rewrite Hid by auto. cbn [app split2_go Ascii.eqb Bool.eqb andb].
    rewrite <- app_assoc. rewrite IHa by auto. cbn [app split2_go Ascii.eqb Bool.eqb andb].
    replace (d + 1 - 1) with d by lia.
    f_equal. rewrite rev_app_distr. simpl rev. rewrite rev_app_distr. simpl. repeat rewrite <- app_assoc. simpl. reflexivity.
  - rewrite tts_ref. cbn [app split2_go Ascii.eqb Bool.eqb andb]. rewrite IH by auto. simpl. rewrite <- app_assoc. reflexivity.
  - apply wf_list in Hw. apply orb_false_elim in Hm as [Hlen Hex].
    destruct l as [|a [|b l]]; [rewrite tts_unit; reflexivity| |discriminate].
    rewrite tts_tuple. simpl map. rewrite join_one. simpl in Hex. apply orb_false_elim in Hex as [Hma _].
    inversion IH as [|? ? IHa _]; subst. inversion Hw; subst.
    cbn [app split2_go Ascii.eqb Bool.eqb andb]. rewrite <- app_assoc. rewrite IHa by auto.
    cbn [app split2_go Ascii.eqb Bool.eqb andb]. f_equal. simpl rev. rewrite rev_app_distr. simpl. repeat rewrite <- app_assoc. reflexivity.
Qed.
Local Close Scope Z_scope.

Lemma split2_kv k v : wf k -> wf v -> multi k = false ->
  split2_angle (tts k ++ L ", " ++ tts v) = Some (tts k, tts v).
Proof. intros Hk Hv Hm. unfold split2_angle. rewrite split2_pass by auto.
  cbn [L list_ascii_of_string app split2_go Ascii.eqb Bool.eqb andb Z.eqb].
  rewrite app_nil_r, rev_involutive. rewrite trim_tight by (apply tts_tight; auto).
  rewrite trim_sp_tight by (apply tts_tight; auto). reflexivity. Qed.

(* ---------- prefix / suffix tests on printed types ---------- *)
Lemma starts_tag : forall p n o r, Forall plain p -> Forall plain n -> special o = true ->
  starts (p ++ [o]) (n ++ o :: r) = str_eqb n p.
Proof. induction p as [|a p IH]; intros n o r Hp Hn Ho.
  - destruct n as [|c n]; simpl. + rewrite Ascii.eqb_refl. reflexivity.
    + inversion Hn; subst. destruct (plain_neq_special c o) as [_ ->]; auto.
  - inversion Hp; subst. destruct n as [|c n]; simpl.
    + destruct (plain_neq_special a o) as [-> _]; auto.
    + inversion Hn; subst. rewrite str_eqb_cons. rewrite IH by auto.
      rewrite (Ascii.eqb_sym a c). reflexivity. Qed.

Lemma starts_tag_none : forall p n o, Forall plain n -> special o = true -> starts (p ++ [o]) n = false.
Proof. induction p as [|a p IH]; intros n o Hn Ho; destruct n as [|c n]; simpl; auto; inversion Hn; subst.
  - destruct (plain_neq_special c o) as [_ ->]; auto.
  - rewrite IH by auto. apply andb_false_r. Qed.

Lemma starts1_plain o c r : plain c -> special o = true -> starts [o] (c :: r) = false.
Proof. intros Hc Ho. simpl. destruct (plain_neq_special c o) as [_ ->]; auto. Qed.

Lemma wrapped_path (tag : string) p n J : L tag = p ++ ["<"] -> String.length tag = S (List.length p) ->
  Forall plain p -> Forall plain n ->
  wrapped tag (n ++ "<" :: J ++ [">"]) = if str_eqb n p then Some J else None.
Proof. intros Ht Hl Hp Hn. unfold wrapped. rewrite Ht. rewrite starts_tag by auto.
  replace (n ++ "<" :: J ++ [">"]) with ((n ++ "<" :: J) ++ [">"]) at 1 by (rewrite <- app_assoc; reflexivity).
  rewrite ends_with_snoc. rewrite andb_true_r.
  destruct (str_eqb n p) eqn:E; auto. apply str_eqb_eq in E. subst n. rewrite Hl.
  replace (p ++ "<" :: J ++ [">"]) with ((p ++ ["<"]) ++ J ++ [">"]) by (rewrite <- app_assoc; reflexivity).
  replace (S (List.length p)) with (List.length (p ++ ["<"])) by (rewrite app_length; simpl; lia).
  f_equal. apply (mid_wrap (p ++ ["<"]) J [">"]). Qed.

Lemma wrapped_ident (tag : string) p n : L tag = p ++ ["<"] -> Forall plain n -> wrapped tag n = None.
Proof. intros Ht Hn. unfold wrapped. rewrite Ht. rewrite starts_tag_none by auto. reflexivity. Qed.

(* ---------- transparency of printed types for the depth-aware splitter ---------- *)
Definition transp (k : Z) (w : str) : Prop :=
  forall d pre r, (k <= d)%Z -> top_go d pre (w ++ r) = top_go d (rev w ++ pre) r.

Lemma transp_mono k k' w : (k <= k')%Z -> transp k w -> transp k' w.
Proof. unfold transp; intros Hk H d pre r Hd; apply H; lia. Qed.
Lemma transp_nil k : transp k [].
Proof. red; intros; reflexivity. Qed.
Lemma transp_app k a b : transp k a -> transp k b -> transp k (a ++ b).
Proof. unfold transp; intros Ha Hb d pre r Hd.
  rewrite <- app_assoc, Ha, Hb by auto. rewrite rev_app_distr, <- app_assoc. reflexivity. Qed.
Lemma plain_step c d pre s : plain c -> top_go d pre (c :: s) = top_go d (c :: pre) s.
Proof. intros H. apply plain_facts in H as (H1 & H2 & H3 & H4 & H5 & H6 & H7 & H8 & H9).
  cbn [top_go]. unfold opener, closer. rewrite H1, H2, H3, H4, H5, H8, H9. reflexivity. Qed.
Lemma transp_plain k w : Forall plain w -> transp k w.
Proof. induction 1 as [|c w Hc Hw IH]; [apply transp_nil|].
  red; intros d pre r Hd. change ((c :: w) ++ r) with (c :: (w ++ r)).
  rewrite plain_step by auto. rewrite IH by auto. simpl. rewrite <- app_assoc. reflexivity. Qed.
Lemma transp_sep : transp 1 (L ", ").
Proof. red; intros d pre r Hd. cbn. destruct (d =? 0)%Z eqn:E; [apply Z.eqb_eq in E; lia|]. reflexivity. Qed.
Lemma transp_space k w : transp k w -> transp k (" " :: w).
Proof. intros H d pre r Hd. change ((" " :: w) ++ r) with (" " :: (w ++ r)). cbn [top_go]. cbn [opener closer Ascii.eqb Bool.eqb orb andb].
  rewrite H by auto. simpl. rewrite <- app_assoc. reflexivity. Qed.
Lemma transp_join ws : Forall (transp 0) ws -> transp 1 (join (L ", ") ws).
Proof. induction 1 as [|w ws Hw Hws IH]; [apply transp_nil|].
  destruct ws as [|w' ws'].
  - rewrite join_one. eapply transp_mono; [|eauto]; lia.
  - rewrite join_cons2. apply transp_app. eapply transp_mono; [|eauto]; lia.
    apply transp_app. apply transp_sep. apply IH. Qed.
Lemma transp_wrap o c body : opener o = true -> closer c = true -> opener c = false ->
  transp 1 body -> transp 0 (o :: body ++ [c]).
Proof. intros Ho Hc Hoc Hb. red; intros d pre r Hd.
  change ((o :: body ++ [c]) ++ r) with (o :: ((body ++ [c]) ++ r)). cbn [top_go]. rewrite Ho.
  rewrite <- app_assoc. rewrite Hb by lia. cbn [app top_go]. rewrite Hoc, Hc.
  replace (d + 1 - 1)%Z with d by lia.
  cbn [rev]. rewrite rev_app_distr. cbn [rev app]. rewrite <- !app_assoc. reflexivity. Qed.

Lemma Forall_map_tts (P : str -> Prop) l :
  Forall (fun t => wf t -> P (tts t)) l -> Forall wf l -> Forall P (map tts l).
Proof. induction 1; intros Hw; inversion Hw; subst; simpl; constructor; auto. Qed.

Lemma tts_transp t : wf t -> transp 0 (tts t).
Proof. induction t as [n args IH|t IH|l IH] using rty_ind'; intros Hw; simpl in Hw.
  - destruct Hw as ((Hn & Hp) & _ & Ha). apply wf_list in Ha.
    destruct args as [|a args]. { rewrite tts_path_nil. apply transp_plain; auto. }
    rewrite tts_path_cons.
    apply transp_app. apply transp_plain; auto.
    apply transp_wrap; auto. apply transp_join. apply Forall_map_tts; auto.
  - rewrite tts_ref.
    red; intros d pre r Hd. change (("&" :: tts t) ++ r) with ("&" :: (tts t ++ r)).
    cbn [top_go]. cbn [opener closer Ascii.eqb Bool.eqb orb andb].
    rewrite (IH Hw) by lia. simpl. rewrite <- app_assoc. reflexivity.
  - apply wf_list in Hw. destruct l as [|a l].
    + rewrite tts_unit. red; intros d pre r Hd. cbn. replace (d + 1 - 1)%Z with d by lia. reflexivity.
    + rewrite tts_tuple.
      apply transp_wrap; auto. apply transp_join. apply Forall_map_tts; auto.
Qed.

Lemma top_none w : transp 0 w -> find_top w = None.
Proof. intros H. unfold find_top. rewrite <- (app_nil_r w). rewrite H by lia. reflexivity. Qed.
Lemma top_first w r : transp 0 w -> find_top (w ++ "," :: r) = Some (w, r).
Proof. intros H. unfold find_top. rewrite H by lia. cbn. rewrite app_nil_r, rev_involutive. reflexivity. Qed.

Lemma join_space_cons (w : str) ws : " " :: join (L ", ") (w :: ws) = join (L ", ") ((" " :: w) :: ws).
Proof. destruct ws; reflexivity. Qed.
Lemma split_top_join : forall ws w fuel, transp 0 w -> Forall (transp 0) ws -> List.length ws < fuel ->
  split_top fuel (join (L ", ") (w :: ws)) = w :: map (cons " ") ws.
Proof. induction ws as [|w' ws IH]; intros w fuel Hw Hws Hf; (destruct fuel as [|f]; [lia|]).
  - rewrite join_one. cbn [split_top]. rewrite top_none by auto. reflexivity.
  - rewrite join_cons2. cbn [L list_ascii_of_string app]. cbn [split_top]. rewrite top_first by auto.
    inversion Hws; subst. rewrite join_space_cons. rewrite IH; auto.
    + apply transp_space; auto.
    + simpl in Hf. lia.
Qed.
Lemma join_len_ge (w : str) ws : List.length ws <= List.length (join (L ", ") (w :: ws)).
Proof. revert w. induction ws as [|w' ws IH]; intros w; [simpl; lia|].
  rewrite join_cons2, !app_length. specialize (IH w'). simpl in *. lia. Qed.
Lemma split_top_level_join w ws : transp 0 w -> Forall (transp 0) ws ->
  split_top_level (join (L ", ") (w :: ws)) = w :: map (cons " ") ws.
Proof. intros Hw Hws. unfold split_top_level. apply split_top_join; auto. pose proof (join_len_ge w ws). lia. Qed.

(* ---------- intended structure ---------- *)
Local Open Scope string_scope.
Fixpoint sem (t : rty) : tstruct :=
  match t with
  | RRef t => sem t
  | RTuple [] => TPrim (L "void")
  | RTuple l => TTuple (map sem l)
  | RPath n [] => match prim_of n with Some p => TPrim p | None => TCustom n end
  | RPath n (a :: rest) =>
      if is_name n "Option" then match rest with [] => TOpt (sem a) | _ => TCustom (tts t) end
      else if is_name n "Result" then TRes (sem a)
      else if is_name n "Vec" then match rest with [] => TArr (sem a) | _ => TCustom (tts t) end
      else if is_name n "HashMap" || is_name n "BTreeMap" then
             match rest with [v] => TMap (sem a) (sem v) | _ => TCustom (tts t) end
      else if is_name n "HashSet" || is_name n "BTreeSet" then
             match rest with [] => TSet (sem a) | _ => TCustom (tts t) end
      else TCustom (tts t)
  end.
Local Close Scope string_scope.

Lemma sem_path_cons n a rest : sem (RPath n (a :: rest)) =
      if is_name n "Option" then match rest with [] => TOpt (sem a) | _ => TCustom (tts (RPath n (a :: rest))) end
      else if is_name n "Result" then TRes (sem a)
      else if is_name n "Vec" then match rest with [] => TArr (sem a) | _ => TCustom (tts (RPath n (a :: rest))) end
      else if is_name n "HashMap" || is_name n "BTreeMap" then
             match rest with [v] => TMap (sem a) (sem v) | _ => TCustom (tts (RPath n (a :: rest))) end
      else if is_name n "HashSet" || is_name n "BTreeSet" then
             match rest with [] => TSet (sem a) | _ => TCustom (tts (RPath n (a :: rest))) end
      else TCustom (tts (RPath n (a :: rest))).
Proof. reflexivity. Qed.

Fixpoint height (t : rty) : nat :=
  match t with
  | RPath _ args => S (fold_right (fun x m => Nat.max (height x) m) 0 args)
  | RRef t => S (height t)
  | RTuple l => S (fold_right (fun x m => Nat.max (height x) m) 0 l)
  end.
Lemma max_fold_le (l : list rty) x : In x l -> height x <= fold_right (fun x m => Nat.max (height x) m) 0 l.
Proof. induction l; simpl; intros []; subst; try lia. specialize (IHl H). lia. Qed.

Lemma mapM_parse f l : Forall (fun t => parse f (tts t) = Some (sem t)) l ->
  mapM (parse f) (map tts l) = Some (map sem l).
Proof. induction 1; simpl; auto. rewrite H, IHForall. reflexivity. Qed.

Lemma one_of_absent s names c : In c s -> Forall (fun x => ~ In c (L x)) names -> one_of s names = false.
Proof. intros Hc Hn. unfold one_of. induction Hn as [|x names Hx Hn IH]; simpl; auto.
  rewrite IH. rewrite orb_false_r. apply str_eqb_neq. intro E. subst s. auto. Qed.

(* ---------- one unfolding of the parser ---------- *)
Lemma parse_S f s0 : parse (S f) s0 =
    let s := trim s0 in
    if starts (L "&") s then parse f (skipn 1 s) else
    match wrapped "Option<" s with Some inner => option_map TOpt (parse f inner) | None =>
    match wrapped "Result<" s with
    | Some inner =>
        let ok := match find_top inner with Some (a, _) => trim a | None => inner end in
        option_map TRes (parse f ok)
    | None =>
    match wrapped "Vec<" s with Some inner => option_map TArr (parse f inner) | None =>
    match (match wrapped "HashMap<" s with
           | Some inner => match top2 inner with Some kv => Some kv | None => None end
           | None => None end),
          (match wrapped "BTreeMap<" s with
           | Some inner => top2 inner
           | None => None end) with
    | Some (k, v), _ | None, Some (k, v) =>
        match parse f k, parse f v with Some k', Some v' => Some (TMap k' v') | _, _ => None end
    | None, None =>
    match (match wrapped "HashSet<" s with Some i => Some i | None => wrapped "BTreeSet<" s end) with
    | Some inner => option_map TSet (parse f inner)
    | None =>
    if starts (L "(") s && ends_with ")"%char s then
      let inner := mid 1 1 s in
      if all_blank inner then Some (TPrim (L "void"))
      else option_map TTuple (mapM (parse f) (map trim (split_top_level inner)))
    else match prim_of s with Some p => Some (TPrim p) | None => Some (TCustom s) end
    end end end end end.
Proof. reflexivity. Qed.

Lemma existsb_false_Forall {A} (f : A -> bool) l : existsb f l = false -> Forall (fun x => f x = false) l.
Proof. induction l; simpl; intros; constructor. apply orb_false_elim in H; tauto. apply IHl. apply orb_false_elim in H; tauto. Qed.

Ltac absent := repeat (constructor; [simpl; intuition discriminate|]); constructor.
Lemma prim_of_angle s : In "<" s -> prim_of s = None.
Proof. intros Hin. unfold prim_of.
  rewrite (one_of_absent s _ "<" Hin) by absent.
  rewrite (one_of_absent s _ "<" Hin) by absent.
  rewrite (one_of_absent s _ "<" Hin) by absent.
  rewrite (one_of_absent s _ "<" Hin) by absent. reflexivity. Qed.

Ltac names_false :=
  repeat match goal with
  | |- context [str_eqb (L ?a) (L ?b)] => change (str_eqb (L a) (L b)) with false
  | |- context [is_name (L ?a) ?b] => change (is_name (L a) b) with false
  end.

Theorem parse_tts_faithful : forall t, wf t ->
  forall fuel, height t < fuel -> parse fuel (tts t) = Some (sem t).
Proof.
  induction t as [n args IH|t IH|l IH] using rty_ind'; intros Hw fuel Hf;
    (destruct fuel as [|f]; [lia|]); rewrite parse_S; cbv zeta;
    rewrite (trim_tight _ (tts_tight _ Hw)).
  - (* path *)
    simpl in Hw. destruct Hw as ((Hne & Hp) & (Har1 & Har2 & Har3) & Ha). apply wf_list in Ha.
    destruct n as [|c n']; [congruence|]. set (n := c :: n') in *.
    assert (Hc : plain c) by (inversion Hp; auto).
    destruct args as [|a rest].
    + rewrite tts_path_nil.
      assert (Hamp : starts (L "&") n = false) by (apply (starts1_plain "&"); auto).
      assert (Hpar : starts (L "(") n = false) by (apply (starts1_plain "("); auto).
      rewrite Hamp.
      rewrite (wrapped_ident "Option<" (L "Option")), (wrapped_ident "Result<" (L "Result")),
              (wrapped_ident "Vec<" (L "Vec")), (wrapped_ident "HashMap<" (L "HashMap")),
              (wrapped_ident "BTreeMap<" (L "BTreeMap")), (wrapped_ident "HashSet<" (L "HashSet")),
              (wrapped_ident "BTreeSet<" (L "BTreeSet")) by auto.
      rewrite Hpar. simpl andb. cbv iota. simpl sem. destruct (prim_of n); reflexivity.
    + rewrite tts_path_cons. set (J := join (L ", ") (map tts (a :: rest))).
      set (s := n ++ "<" :: J ++ [">"]).
      assert (Hamp : starts (L "&") s = false) by (apply (starts1_plain "&"); auto).
      assert (Hpar : starts (L "(") s = false) by (apply (starts1_plain "("); auto).
      assert (Hprim : prim_of s = None) by (apply prim_of_angle; unfold s; apply in_or_app; right; left; auto).
      assert (HIH : Forall (fun t => parse f (tts t) = Some (sem t)) (a :: rest)).
      { rewrite Forall_forall in *. intros x Hx. apply IH; auto.
        simpl in Hf. pose proof (max_fold_le (a :: rest) x Hx). simpl in H. lia. }
      rewrite Hamp. unfold s.
      rewrite (wrapped_path "Option<" (L "Option")), (wrapped_path "Result<" (L "Result")),
              (wrapped_path "Vec<" (L "Vec")), (wrapped_path "HashMap<" (L "HashMap")),
              (wrapped_path "BTreeMap<" (L "BTreeMap")), (wrapped_path "HashSet<" (L "HashSet")),
              (wrapped_path "BTreeSet<" (L "BTreeSet")) by (auto; repeat constructor).
      fold s. inversion HIH as [|? ? HIa HIrest]; subst. inversion Ha as [|? ? Hwa Hwrest]; subst.
      destruct (str_eqb n (L "Option")) eqn:EO.
      { apply str_eqb_eq in EO.
        assert (rest = []) by (destruct rest; auto; exfalso; assert (one_of n unary_names = true) by (rewrite EO; reflexivity); specialize (Har1 H); simpl in Har1; lia).
        subst rest. unfold J. simpl map. rewrite join_one. rewrite HIa.
        rewrite sem_path_cons. unfold is_name. rewrite EO. reflexivity. }
      destruct (str_eqb n (L "Result")) eqn:ER.
      { apply str_eqb_eq in ER.
        assert (Hok : (match find_top J with Some (a0, _) => trim a0 | None => J end) = tts a).
        { unfold J. destruct rest as [|e rest'].
          - simpl map. rewrite join_one. rewrite top_none by (apply tts_transp; auto). reflexivity.
          - change (map tts (a :: e :: rest')) with (tts a :: tts e :: map tts rest'). rewrite join_cons2.
            cbn [L list_ascii_of_string app]. rewrite top_first by (apply tts_transp; auto).
            apply trim_tight. apply tts_tight; auto. }
        rewrite Hok, HIa.
        rewrite sem_path_cons. unfold is_name. rewrite EO.
        replace (str_eqb n (L "Result")) with true by (symmetry; apply str_eqb_eq; exact ER). reflexivity. }
      destruct (str_eqb n (L "Vec")) eqn:EV.
      { apply str_eqb_eq in EV.
        assert (rest = []) by (destruct rest; auto; exfalso; assert (one_of n unary_names = true) by (rewrite EV; reflexivity); specialize (Har1 H); simpl in Har1; lia).
        subst rest. unfold J. simpl map. rewrite join_one. rewrite HIa.
        rewrite sem_path_cons. unfold is_name. rewrite EO, ER.
        replace (str_eqb n (L "Vec")) with true by (symmetry; apply str_eqb_eq; exact EV). reflexivity. }
      assert (Hmapcase : forall v, rest = [v] ->
                top2 J = Some (tts a, tts v) /\ parse f (tts v) = Some (sem v)).
      { intros v ->. split.
        - unfold J, top2. change (map tts [a; v]) with [tts a; tts v]. rewrite join_cons2, join_one.
          inversion Hwrest; subst. cbn [L list_ascii_of_string app]. rewrite top_first by (apply tts_transp; auto).
          rewrite trim_tight by (apply tts_tight; auto). rewrite trim_sp_tight by (apply tts_tight; auto). reflexivity.
        - inversion HIrest; auto. }
      destruct (str_eqb n (L "HashMap")) eqn:EH.
      { apply str_eqb_eq in EH.
        assert (Hm : one_of n map_names = true) by (rewrite EH; reflexivity).
        destruct (Har2 Hm) as [|(k & v & E & Hmk)]; [discriminate|]. inversion E; subst k rest.
        destruct (Hmapcase v eq_refl) as [Hs Hv]. rewrite Hs, HIa, Hv.
        rewrite sem_path_cons. unfold is_name. rewrite EO, ER, EV.
        replace (str_eqb n (L "HashMap")) with true by (symmetry; apply str_eqb_eq; exact EH). reflexivity. }
      destruct (str_eqb n (L "BTreeMap")) eqn:EB.
      { apply str_eqb_eq in EB.
        assert (Hm : one_of n map_names = true) by (rewrite EB; reflexivity).
        destruct (Har2 Hm) as [|(k & v & E & Hmk)]; [discriminate|]. inversion E; subst k rest.
        destruct (Hmapcase v eq_refl) as [Hs Hv]. rewrite Hs, HIa, Hv.
        rewrite sem_path_cons. unfold is_name. rewrite EO, ER, EV, EH.
        replace (str_eqb n (L "BTreeMap")) with true by (symmetry; apply str_eqb_eq; exact EB). reflexivity. }
      destruct (str_eqb n (L "HashSet")) eqn:ES.
      { apply str_eqb_eq in ES.
        assert (rest = []) by (destruct rest; auto; exfalso; assert (one_of n unary_names = true) by (rewrite ES; reflexivity); specialize (Har1 H); simpl in Har1; lia).
        subst rest. unfold J. simpl map. rewrite join_one. rewrite HIa.
        rewrite sem_path_cons. unfold is_name. rewrite EO, ER, EV, EH, EB.
        replace (str_eqb n (L "HashSet")) with true by (symmetry; apply str_eqb_eq; exact ES). reflexivity. }
      destruct (str_eqb n (L "BTreeSet")) eqn:ET.
      { apply str_eqb_eq in ET.
        assert (rest = []) by (destruct rest; auto; exfalso; assert (one_of n unary_names = true) by (rewrite ET; reflexivity); specialize (Har1 H); simpl in Har1; lia).
        subst rest. unfold J. simpl map. rewrite join_one. rewrite HIa.
        rewrite sem_path_cons. unfold is_name. rewrite EO, ER, EV, EH, EB, ES.
        replace (str_eqb n (L "BTreeSet")) with true by (symmetry; apply str_eqb_eq; exact ET). reflexivity. }
      rewrite Hpar, Hprim. simpl andb. cbv iota.
      rewrite sem_path_cons. unfold is_name. rewrite EO, ER, EV, EH, EB, ES, ET. simpl orb. cbv iota.
      rewrite tts_path_cons. reflexivity.
  - (* ref *)
    rewrite tts_ref. cbn [L list_ascii_of_string starts Ascii.eqb Bool.eqb andb skipn].
    simpl in Hw, Hf. apply IH; auto. lia.
  - (* tuple *)
    simpl in Hw. apply wf_list in Hw.
    destruct l as [|a l].
    + reflexivity.
    + rewrite tts_tuple. set (J := join (L ", ") (map tts (a :: l))).
      assert (Hends : ends_with ")" ("(" :: J ++ [")"]) = true).
      { change ("(" :: J ++ [")"]) with (("(" :: J) ++ [")"]). apply ends_with_snoc. }
      assert (Hend2 : ends_with ">" ("(" :: J ++ [")"]) = false).
      { change ("(" :: J ++ [")"]) with (("(" :: J) ++ [")"]). apply ends_with_snoc_ne. discriminate. }
      unfold wrapped.
      cbn [L list_ascii_of_string starts Ascii.eqb Bool.eqb andb]. rewrite Hends. cbv iota.
      assert (Hmid : mid 1 1 ("(" :: J ++ [")"]) = J) by (apply (mid_wrap ["("] J [")"])).
      rewrite Hmid.
      assert (HIH : Forall (fun t => parse f (tts t) = Some (sem t)) (a :: l)).
      { rewrite Forall_forall in *. intros x Hx. apply IH; auto.
        simpl in Hf. pose proof (max_fold_le (a :: l) x Hx). simpl in H. lia. }
      assert (Hnb : all_blank J = false).
      { unfold J. inversion Hw; subst. destruct (tts_tight a H1) as (Hne & Ht & _).
        destruct (tts a) as [|x r] eqn:E; [congruence|].
        destruct l; [simpl map; rewrite join_one | change (map tts (a :: r0 :: l)) with (tts a :: tts r0 :: map tts l); rewrite join_cons2];
          rewrite E; simpl; simpl in Ht; destruct (is_space x); auto; exfalso;
          pose proof (trim_l_len r) as Hlen; rewrite Ht in Hlen; simpl in Hlen; lia. }
      rewrite Hnb. unfold J.
      assert (Htp : Forall (transp 0) (map tts (a :: l))).
      { apply Forall_forall. intros w Hwin. apply in_map_iff in Hwin as (x & <- & Hx). apply tts_transp.
        rewrite Forall_forall in Hw. auto. }
      change (map tts (a :: l)) with (tts a :: map tts l) in *. inversion Htp; subst.
      rewrite split_top_level_join by auto. cbn [map].
      assert (Hwa : wf a) by (inversion Hw; auto).
      assert (Hwl : Forall wf l) by (inversion Hw; auto).
      rewrite trim_tight by (apply tts_tight; auto).
      assert (Htr : map trim (map (cons " ") (map tts l)) = map tts l).
      { clear -Hwl. induction Hwl; simpl; auto. rewrite trim_sp_tight by (apply tts_tight; auto). f_equal; auto. }
      rewrite Htr. change (tts a :: map tts l) with (map tts (a :: l)).
      rewrite mapM_parse by auto. reflexivity.
Qed.

