(* C18 deepening round 7: the relational token-level clause as a for-all theorem at the sites whose text
   is an unqualified TypeScript type. Token level, C10 name space:
     lex_module (plain m t) = tks m t                      (C10LexTy.LX_plain, pr of the tree)
     tks m t = map (swm m) (tks [] t)                      (structural induction on the TypeStructure)
     subst_tokens true m l = map (swm m) l                 (replace_all on a stream without colon, dot and
                                                            with the only < after Record is pointwise)
   Side conditions: targets among string / number / boolean (map_ok), every key of the table a legal
   name that is not taken (keys_ok: a plain identifier, not a primitive, not Record, null, ...), the
   structure in C10's domain (dom). *)
From Coq Require Import String Ascii.
From Coq Require Import List Arith Lia Bool.
Require Import TT.Model.Str TT.Proofs.StrFacts TT.Model.TypeParse TT.Spec.TsLex TT.Spec.TsModule TT.Spec.TsObs.
Require Import TT.Spec.C10Shape TT.Model.C10Zod TT.Spec.C10Check TT.Proofs.C10Proofs TT.Proofs.C10ParseTy TT.Proofs.C10LexTy.
Require Import TT.Spec.C18Spec.
Import ListNotations.
Local Open Scope char_scope.
Local Open Scope list_scope.

(* ---- replace_all with a one-token pattern is pointwise ---- *)
Definition sw1 (p : tk) (rep : list tk) (x : tk) : list tk := if tk_eqb p x then rep else [x].
Fixpoint gd (guard : bool) (p : tk) (l : list tk) : bool :=
  match l with
  | [] => true
  | x :: r => negb (is_colon x) && negb (guard && (tk_eqb p x && next_is_lt r)) && gd guard p r
  end.

Lemma replace_single guard p rep : forall l fuel, List.length l < fuel -> gd guard p l = true ->
  replace_all guard [p] rep l false fuel = flat_map (sw1 p rep) l.
Proof.
  induction l as [|x r IH]; intros fuel Hf Hg; (destruct fuel as [|f]; [cbn [List.length] in Hf; lia|]).
  - reflexivity.
  - cbn [gd] in Hg. apply andb_true_iff in Hg as [Hg Hr]. apply andb_true_iff in Hg as [Hc Hn].
    apply negb_true_iff in Hc. apply negb_true_iff in Hn. cbn [List.length] in Hf.
    cbn [replace_all tk_starts List.length skipn flat_map]. unfold sw1 at 1. rewrite andb_true_r.
    destruct (tk_eqb p x) eqn:E; cbn [andb orb] in *.
    + rewrite Hn. cbn [negb]. rewrite IH by (assumption || lia). reflexivity.
    + rewrite Hc. rewrite IH by (assumption || lia). reflexivity.
Qed.

Definition isdot (x : tk) : bool := tk_eqb (kp ".") x.
Definition nodot (l : list tk) : bool := forallb (fun y => negb (isdot y)) l.
Lemma replace_dotted g a c rep : forall fuel l ac, nodot l = true ->
  replace_all g (a :: kp "." :: c) rep l ac fuel = l.
Proof.
  induction fuel as [|f IH]; intros l ac Hl; [reflexivity|]. destruct l as [|x r]; [reflexivity|].
  unfold nodot in Hl. cbn [forallb] in Hl. apply andb_true_iff in Hl as [_ Hr].
  assert (Hs : tk_starts (a :: kp "." :: c) (x :: r) = false).
  { cbn [tk_starts]. destruct r as [|y r']; [apply andb_false_r|]. cbn [forallb] in Hr. apply andb_true_iff in Hr as [Hy _].
    apply negb_true_iff in Hy. unfold isdot in Hy. rewrite Hy. cbn [andb]. apply andb_false_r. }
  cbn [replace_all]. rewrite Hs. cbn [andb]. rewrite IH by exact Hr. reflexivity.
Qed.

(* ---- streams of TypeScript type text: no colon, no dot, < only after Record ---- *)
Definition sw (n tg : str) (x : tk) : tk := if tk_eqb (KId n) x then KId tg else x.
Definition okp (x : tk) : bool := negb (is_colon x) && negb (isdot x).
Definition recd : tk := KId (L "Record").
Fixpoint J (l : list tk) : bool :=
  match l with [] => true | x :: r => okp x && (negb (next_is_lt r) || tk_eqb recd x) && J r end.

Lemma tk_eqb_recd x : tk_eqb recd x = true -> x = recd.
Proof. destruct x; try discriminate. unfold recd. cbn [tk_eqb]. intros H. apply str_eqb_eq in H. subst. reflexivity. Qed.

Lemma J_gd n l : str_eqb n (L "Record") = false -> J l = true -> gd true (KId n) l = true.
Proof.
  intros Hn. induction l as [|x r IH]; [reflexivity|]. cbn [J gd]. intros H.
  apply andb_true_iff in H as [H Hr]. apply andb_true_iff in H as [Ho Hlt].
  unfold okp in Ho. apply andb_true_iff in Ho as [Hc _]. rewrite Hc, (IH Hr). cbn [andb]. rewrite andb_true_r.
  apply negb_true_iff. destruct (next_is_lt r); [|apply andb_false_r]. cbn [negb orb] in Hlt.
  apply tk_eqb_recd in Hlt. subst x. unfold recd. cbn [tk_eqb]. rewrite Hn. reflexivity.
Qed.
Lemma J_nodot l : J l = true -> nodot l = true.
Proof.
  induction l as [|x r IH]; [reflexivity|]. cbn [J]. intros H.
  apply andb_true_iff in H as [H Hr]. apply andb_true_iff in H as [Ho _]. unfold okp in Ho. apply andb_true_iff in Ho as [_ Hd].
  unfold nodot. cbn [forallb]. rewrite Hd. exact (IH Hr).
Qed.
Lemma next_is_lt_sw n tg r : next_is_lt (map (sw n tg) r) = next_is_lt r.
Proof. destruct r as [|y r']; [reflexivity|]. cbn [map next_is_lt]. unfold sw. destruct y; cbn [tk_eqb]; try reflexivity.
  destruct (str_eqb n s); reflexivity. Qed.
Lemma okp_sw n tg x : okp x = true -> okp (sw n tg x) = true.
Proof. unfold sw. destruct (tk_eqb (KId n) x); [reflexivity|auto]. Qed.
Lemma J_sw n tg l : str_eqb n (L "Record") = false -> J l = true -> J (map (sw n tg) l) = true.
Proof.
  intros Hn. induction l as [|x r IH]; [reflexivity|]. cbn [J map]. intros H.
  apply andb_true_iff in H as [H Hr]. apply andb_true_iff in H as [Ho Hlt].
  rewrite (okp_sw n tg x Ho), (IH Hr), next_is_lt_sw. cbn [andb]. rewrite andb_true_r.
  destruct (next_is_lt r); [|reflexivity]. cbn [negb orb] in *. apply tk_eqb_recd in Hlt. subst x.
  unfold sw, recd. cbn [tk_eqb]. rewrite Hn. cbn [tk_eqb]. apply str_eqb_refl.
Qed.
Lemma flat_map_sw n tg l : flat_map (sw1 (KId n) [KId tg]) l = map (sw n tg) l.
Proof. induction l as [|x r IH]; [reflexivity|]. cbn [flat_map map]. rewrite IH. unfold sw1, sw. destruct (tk_eqb (KId n) x); reflexivity. Qed.

(* ---- lexing a name, a target, and the qualified name ---- *)
Lemma lex_id1 n : is_ts_identifier n = true -> lex_module n = [KId n].
Proof.
  intros H. unfold lex_module. destruct n as [|c r] eqn:E; [discriminate|]. rewrite <- E in *.
  rewrite <- (app_nil_r n) at 2. rewrite lex_ident by (auto; exact I). subst n. reflexivity.
Qed.
Lemma try_dot c r : Ascii.eqb "." c = false -> try_punct ("." :: c :: r) = Some (["."], c :: r).
Proof.
  intros E. unfold try_punct, puncts3, puncts2, puncts1. cbn [find L list_ascii_of_string starts].
  eval_head ".". cbn [andb]. rewrite E. cbn [andb skipn existsb orb]. eval_head ".". reflexivity.
Qed.
Lemma lex_qualified n : is_ts_identifier n = true -> lex_module (L "types." ++ n) = [KId (L "types"); kp "."; KId n].
Proof.
  intros H. unfold lex_module. destruct n as [|c r] eqn:E; [discriminate|]. rewrite <- E in *.
  change (L "types." ++ n) with (L "types" ++ "." :: n). rewrite app_length. cbn [List.length L list_ascii_of_string plus].
  rewrite lex_ident; [|reflexivity|reflexivity].
  assert (Hc : is_id_start c = true) by (subst n; cbn [is_ts_identifier] in H; apply andb_true_iff in H; tauto).
  destruct (id_start_facts c Hc) as (_ & _ & _ & _ & _ & _ & _).
  rewrite E at 1. rewrite lex_punct; try reflexivity.
  - rewrite <- E. rewrite <- (app_nil_r n) at 1. rewrite lex_ident by (auto; exact I). reflexivity.
  - apply try_dot. apply Ascii.eqb_neq. intros <-. discriminate Hc.
Qed.
