(* C18 deepening round 7: the relational token-level clause as a for-all theorem at the sites whose text
   is an unqualified TypeScript type. Token level, C10 name space:
     lex_module (plain m t) = tks m t                      (C10LexTy.LX_plain, pr of the tree)
     tks m t = map (swm m) (tks [] t)                      (structural induction on the TypeStructure)
     subst_tokens true m l = map (swm m) l                 (replace_all on a stream without colon, dot and
                                                            with the only < after Record is pointwise)
   Side conditions: targets among string / number / boolean (map_ok), every key of the table a legal
   name that is not taken (keys_ok: a plain identifier, not a primitive, not Record, null, ...), the
   structure in C10's domain (dom). *)
From Coq Require Import String Ascii.
From Coq Require Import List Arith Lia Bool.
Require Import TT.Model.Str TT.Proofs.StrFacts TT.Model.TypeParse TT.Spec.TsLex TT.Spec.TsModule TT.Spec.TsObs.
Require Import TT.Spec.C10Shape TT.Model.C10Zod TT.Spec.C10Check TT.Proofs.C10Proofs TT.Proofs.C10ParseTy TT.Proofs.C10LexTy.
Require Import TT.Spec.C18Spec.
Require TT.Proofs.C05Proofs.
Import ListNotations.
Local Open Scope char_scope.
Local Open Scope list_scope.

(* ---- replace_all with a one-token pattern is pointwise ---- *)
Definition sw1 (p : tk) (rep : list tk) (x : tk) : list tk := if tk_eqb p x then rep else [x].
Fixpoint gd (guard : bool) (p : tk) (l : list tk) : bool :=
  match l with
  | [] => true
  | x :: r => negb (is_colon x) && negb (guard && (tk_eqb p x && next_is_lt r)) && gd guard p r
  end.

Lemma replace_single guard p rep : forall l fuel, List.length l < fuel -> gd guard p l = true ->
  replace_all guard [p] rep l false fuel = flat_map (sw1 p rep) l.
Proof.
  induction l as [|x r IH]; intros fuel Hf Hg; (destruct fuel as [|f]; [cbn [List.length] in Hf; lia|]).
  - reflexivity.
  - cbn [gd] in Hg. apply andb_true_iff in Hg as [Hg Hr]. apply andb_true_iff in Hg as [Hc Hn].
    apply negb_true_iff in Hc. apply negb_true_iff in Hn. cbn [List.length] in Hf.
    cbn [replace_all tk_starts List.length skipn flat_map]. unfold sw1 at 1. rewrite andb_true_r.
    destruct (tk_eqb p x) eqn:E; cbn [andb orb] in *.
    + rewrite Hn. cbn [negb]. rewrite IH by (assumption || lia). reflexivity.
    + rewrite Hc. rewrite IH by (assumption || lia). reflexivity.
Qed.

Definition isdot (x : tk) : bool := tk_eqb (kp ".") x.
Definition nodot (l : list tk) : bool := forallb (fun y => negb (isdot y)) l.
Lemma replace_dotted g a c rep : forall fuel l ac, nodot l = true ->
  replace_all g (a :: kp "." :: c) rep l ac fuel = l.
Proof.
  induction fuel as [|f IH]; intros l ac Hl; [reflexivity|]. destruct l as [|x r]; [reflexivity|].
  unfold nodot in Hl. cbn [forallb] in Hl. apply andb_true_iff in Hl as [_ Hr].
  assert (Hs : tk_starts (a :: kp "." :: c) (x :: r) = false).
  { cbn [tk_starts]. destruct r as [|y r']; [apply andb_false_r|]. cbn [forallb] in Hr. apply andb_true_iff in Hr as [Hy _].
    apply negb_true_iff in Hy. unfold isdot in Hy. rewrite Hy. cbn [andb]. apply andb_false_r. }
  cbn [replace_all]. rewrite Hs. cbn [andb]. rewrite IH by exact Hr. reflexivity.
Qed.

(* ---- streams of TypeScript type text: no colon, no dot, < only after Record ---- *)
Definition sw (n tg : str) (x : tk) : tk := if tk_eqb (KId n) x then KId tg else x.
Definition okp (x : tk) : bool := negb (is_colon x) && negb (isdot x).
Definition recd : tk := KId (L "Record").
Fixpoint J (l : list tk) : bool :=
  match l with [] => true | x :: r => okp x && (negb (next_is_lt r) || tk_eqb recd x) && J r end.

Lemma tk_eqb_recd x : tk_eqb recd x = true -> x = recd.
Proof. destruct x; try discriminate. unfold recd. cbn [tk_eqb]. intros H. apply str_eqb_eq in H. subst. reflexivity. Qed.

Lemma J_gd n l : str_eqb n (L "Record") = false -> J l = true -> gd true (KId n) l = true.
Proof.
  intros Hn. induction l as [|x r IH]; [reflexivity|]. cbn [J gd]. intros H.
  apply andb_true_iff in H as [H Hr]. apply andb_true_iff in H as [Ho Hlt].
  unfold okp in Ho. apply andb_true_iff in Ho as [Hc _]. rewrite Hc, (IH Hr). cbn [andb]. rewrite andb_true_r.
  apply negb_true_iff. destruct (next_is_lt r); [|apply andb_false_r]. cbn [negb orb] in Hlt.
  apply tk_eqb_recd in Hlt. subst x. unfold recd. cbn [tk_eqb]. rewrite Hn. reflexivity.
Qed.
Lemma J_nodot l : J l = true -> nodot l = true.
Proof.
  induction l as [|x r IH]; [reflexivity|]. cbn [J]. intros H.
  apply andb_true_iff in H as [H Hr]. apply andb_true_iff in H as [Ho _]. unfold okp in Ho. apply andb_true_iff in Ho as [_ Hd].
  unfold nodot. cbn [forallb]. rewrite Hd. exact (IH Hr).
Qed.
Lemma next_is_lt_sw n tg r : next_is_lt (map (sw n tg) r) = next_is_lt r.
Proof. destruct r as [|y r']; [reflexivity|]. cbn [map next_is_lt]. unfold sw. destruct y; cbn [tk_eqb]; try reflexivity.
  destruct (str_eqb n s); reflexivity. Qed.
Lemma okp_sw n tg x : okp x = true -> okp (sw n tg x) = true.
Proof. unfold sw. destruct (tk_eqb (KId n) x); [reflexivity|auto]. Qed.
Lemma J_sw n tg l : str_eqb n (L "Record") = false -> J l = true -> J (map (sw n tg) l) = true.
Proof.
  intros Hn. induction l as [|x r IH]; [reflexivity|]. cbn [J map]. intros H.
  apply andb_true_iff in H as [H Hr]. apply andb_true_iff in H as [Ho Hlt].
  rewrite (okp_sw n tg x Ho), (IH Hr), next_is_lt_sw. cbn [andb]. rewrite andb_true_r.
  destruct (next_is_lt r); [|reflexivity]. cbn [negb orb] in *. apply tk_eqb_recd in Hlt. subst x.
  unfold sw, recd. cbn [tk_eqb]. rewrite Hn. cbn [tk_eqb]. apply str_eqb_refl.
Qed.
Lemma flat_map_sw n tg l : flat_map (sw1 (KId n) [KId tg]) l = map (sw n tg) l.
Proof. induction l as [|x r IH]; [reflexivity|]. cbn [flat_map map]. rewrite IH. unfold sw1, sw. destruct (tk_eqb (KId n) x); reflexivity. Qed.

(* ---- lexing a name, a target, and the qualified name ---- *)
Lemma lexm_nil f : 0 < f -> lexm f [] = [].
Proof. destruct f; [lia|reflexivity]. Qed.
Lemma ident_len n : is_ts_identifier n = true -> 0 < List.length n.
Proof. destruct n; [discriminate|cbn [List.length]; lia]. Qed.
Lemma lex_id1 n : is_ts_identifier n = true -> lex_module n = [KId n].
Proof.
  intros H. unfold lex_module.
  assert (Hx : lexm (S (List.length n)) (n ++ []) = KId n :: lexm (List.length n) []) by (apply lex_ident; auto).
  rewrite app_nil_r in Hx. rewrite Hx, lexm_nil by (apply ident_len; exact H). reflexivity.
Qed.
Lemma try_dot c r : Ascii.eqb "." c = false -> try_punct ("." :: c :: r) = Some (["."], c :: r).
Proof.
  intros E. unfold try_punct, puncts3, puncts2, puncts1. cbn [find L list_ascii_of_string starts].
  eval_head ".". cbn [andb]. rewrite E. cbn [andb skipn existsb orb]. eval_head ".". reflexivity.
Qed.
Lemma lex_qualified n : is_ts_identifier n = true -> lex_module (L "types." ++ n) = [KId (L "types"); kp "."; KId n].
Proof.
  intros H. unfold lex_module.
  change (L "types." ++ n) with (L "types" ++ "." :: n). rewrite app_length. cbn [List.length L list_ascii_of_string plus].
  rewrite lex_ident; [|reflexivity|reflexivity].
  assert (Hx : forall f, lexm (S f) n = KId n :: lexm f []).
  { intros f. rewrite <- (app_nil_r n) at 1. apply lex_ident; auto. }
  destruct n as [|c r] eqn:E; [discriminate|].
  assert (Hc : is_id_start c = true) by (cbn [is_ts_identifier] in H; apply andb_true_iff in H; tauto).
  rewrite lex_punct; try reflexivity.
  - rewrite Hx. reflexivity.
  - apply try_dot. apply Ascii.eqb_neq. intros <-. discriminate Hc.
Qed.

(* ---- the table on tokens ---- *)
Definition keys_ok (m : mapping) : bool := forallb (fun kv => name_ok (fst kv)) m.
Definition swm (m : mapping) (x : tk) : tk := fold_left (fun x kv => sw (fst kv) (snd kv) x) m x.

Lemma name_not_taken n x : name_ok n = true -> In x taken_names -> str_eqb n (L x) = false.
Proof.
  intros Hn Hx. destruct (str_eqb n (L x)) eqn:E; [|reflexivity]. exfalso.
  unfold name_ok in Hn. destruct n as [|c r]; [discriminate|]. apply andb_true_iff in Hn as [_ Hn]. apply negb_true_iff in Hn.
  assert (in_names (c :: r) taken_names = true) by (unfold in_names; apply existsb_exists; exists x; auto). congruence.
Qed.
Lemma lookup_taken m x : keys_ok m = true -> In x taken_names -> lookup m (L x) = None.
Proof.
  intros Hk Hx. induction m as [|[k v] m IH]; [reflexivity|]. unfold keys_ok in Hk. cbn [forallb fst] in Hk. apply andb_true_iff in Hk as [Hk Hm].
  cbn [lookup]. rewrite (name_not_taken k x Hk Hx). exact (IH Hm).
Qed.
Lemma prim_taken x : In x prim_names -> In x taken_names.
Proof. cbn. intuition. Qed.
Lemma prim3_taken v : in_names v ["string"; "number"; "boolean"]%string = true -> exists x, In x taken_names /\ v = L x.
Proof. intros H. apply in_names_cases in H. destruct H as [x [Hin ->]]. exists x. split; [|reflexivity]. cbn in Hin |- *. intuition. Qed.
Lemma swm_kp m p : swm m (KP p) = KP p.
Proof. induction m as [|[k v] m IH]; [reflexivity|]. exact IH. Qed.
Lemma swm_id m : keys_ok m = true -> map_ok m = true -> forall x, swm m (KId x) = KId (cname m x).
Proof.
  induction m as [|[k v] m IH]; intros Hk Hm x; [reflexivity|].
  pose proof Hk as Hk0. unfold keys_ok in Hk. cbn [forallb fst] in Hk. apply andb_true_iff in Hk as [Hkn Hk].
  unfold map_ok in Hm. cbn [forallb snd] in Hm. apply andb_true_iff in Hm as [Hv Hm].
  change (swm ((k, v) :: m) (KId x)) with (swm m (sw k v (KId x))). unfold sw, cname. cbn [tk_eqb lookup].
  destruct (str_eqb k x).
  - rewrite (IH Hk Hm). unfold cname. destruct (prim3_taken v Hv) as [y [Hy ->]]. rewrite (lookup_taken m y Hk Hy). reflexivity.
  - apply (IH Hk Hm).
Qed.
Lemma swm_taken m x : keys_ok m = true -> map_ok m = true -> In x taken_names -> swm m (KId (L x)) = KId (L x).
Proof. intros Hk Hm Hx. rewrite swm_id by assumption. unfold cname. rewrite lookup_taken by assumption. reflexivity. Qed.

Lemma subst_one_J n tg l : name_ok n = true -> in_names tg ["string"; "number"; "boolean"]%string = true -> J l = true ->
  subst_one true n tg l = map (sw n tg) l.
Proof.
  intros Hn Ht HJ. unfold subst_one. destruct (idn_name n Hn) as [Hid _].
  assert (Htg : lex_module tg = [KId tg]).
  { apply in_names_cases in Ht. destruct Ht as [x [Hin ->]]. cbn in Hin. destruct Hin as [<-|[<-|[<-|[]]]]; reflexivity. }
  rewrite Htg, (lex_id1 n Hid), (lex_qualified n Hid). unfold replace_tokens.
  rewrite replace_dotted by (apply J_nodot; exact HJ).
  rewrite replace_single; [apply flat_map_sw|lia|]. apply J_gd; [|exact HJ].
  apply (name_not_taken n "Record"%string Hn). cbn. tauto.
Qed.
Theorem subst_tokens_pointwise : forall m l, keys_ok m = true -> map_ok m = true -> J l = true ->
  subst_tokens true m l = map (swm m) l.
Proof.
  induction m as [|[k v] m IH]; intros l Hk Hm HJ.
  - cbn. symmetry. erewrite map_ext; [apply map_id|reflexivity].
  - pose proof Hk as Hk0. unfold keys_ok in Hk. cbn [forallb fst] in Hk. apply andb_true_iff in Hk as [Hkn Hk].
    pose proof Hm as Hm0. unfold map_ok in Hm. cbn [forallb snd] in Hm. apply andb_true_iff in Hm as [Hv Hm].
    change (subst_tokens true ((k, v) :: m) l) with (subst_tokens true m (subst_one true k v l)).
    rewrite (subst_one_J k v l Hkn Hv HJ). rewrite IH; auto.
    + rewrite map_map. apply map_ext. reflexivity.
    + apply J_sw; [|exact HJ]. apply (name_not_taken k "Record"%string Hkn). cbn. tauto.
Qed.

(* ---- the token rendering of a TypeStructure under a table ---- *)
Fixpoint tks (m : mapping) (t : tstruct) : list tk :=
  match t with
  | TPrim p => [KId p]
  | TArr u | TSet u => tks m u ++ [kp "["; kp "]"]
  | TMap k v => recd :: kp "<" :: tks m k ++ kp "," :: tks m v ++ [kp ">"]
  | TTuple [] => [KId (L "void")]
  | TTuple l => kp "[" :: sepk (kp ",") (map (tks m) l) ++ [kp "]"]
  | TOpt u => tks m u ++ [kp "|"; KId (L "null")]
  | TRes u => tks m u
  | TCustom n => [KId (cname m n)]
  end.

Lemma pr_tks m : map_ok m = true -> forall t, dom t = true -> pr (ts_ty_of m t) = tks m t.
Proof.
  intros Hm. induction t as [p|u IH|k v IHk IHv|u IH|l IH|u IH|u IH|n] using ts_ind2; cbn [dom]; intros Hd.
  - reflexivity.
  - cbn [ts_ty_of tks]. rewrite pr_arr_of by (apply (nf_ts m Hm u Hd)). rewrite IH by exact Hd. reflexivity.
  - apply andb_true_iff in Hd. destruct Hd as [Hk Hv]. destruct (key_ok_dom _ Hk) as [Hk1 _]. cbn [ts_ty_of tks].
    assert (pr (TyRef [L "Record"] [ts_ty_of m k; ts_ty_of m v]) =
            KId (L "Record") :: kp "<" :: pr (ts_ty_of m k) ++ kp "," :: pr (ts_ty_of m v) ++ [kp ">"]) as -> by (cbn [pr map sepk]; rewrite <- app_assoc; reflexivity).
    rewrite IHk, IHv by assumption. reflexivity.
  - cbn [ts_ty_of tks]. rewrite pr_arr_of by (apply (nf_ts m Hm u Hd)). rewrite IH by exact Hd. reflexivity.
  - destruct l as [|a l']; [reflexivity|]. remember (a :: l') as l0 eqn:El.
    assert (pr (ts_ty_of m (TTuple l0)) = kp "[" :: sepk (kp ",") (map pr (map (ts_ty_of m) l0)) ++ [kp "]"]) as -> by (subst; reflexivity).
    assert (tks m (TTuple l0) = kp "[" :: sepk (kp ",") (map (tks m) l0) ++ [kp "]"]) as -> by (subst; reflexivity).
    rewrite map_map. f_equal. f_equal. f_equal. apply map_ext_in. intros x Hx. rewrite Forall_forall in IH. apply IH; [exact Hx|].
    rewrite forallb_forall in Hd. apply Hd; exact Hx.
  - cbn [ts_ty_of tks]. rewrite pr_opt_of by (apply (nf_ts m Hm u Hd)). rewrite IH by exact Hd. reflexivity.
  - cbn [ts_ty_of tks]. apply IH; exact Hd.
  - cbn [ts_ty_of tks]. rewrite custom_ty_prim by exact Hm. reflexivity.
Qed.

Lemma map_sepk (f : tk -> tk) s l : map f (sepk s l) = sepk (f s) (map (map f) l).
Proof. induction l as [|a r IH]; [reflexivity|]. destruct r as [|b r']; [reflexivity|].
  change (sepk s (a :: b :: r')) with (a ++ s :: sepk s (b :: r')). rewrite map_app. cbn [map]. rewrite IH. reflexivity. Qed.

(* the substitution lemma on tokens: rendering with the table = the table applied to the rendering without *)
Theorem tks_swm m : keys_ok m = true -> map_ok m = true -> forall t, dom t = true -> map (swm m) (tks [] t) = tks m t.
Proof.
  intros Hk Hm. induction t as [p|u IH|k v IHk IHv|u IH|l IH|u IH|u IH|n] using ts_ind2; cbn [dom]; intros Hd.
  - cbn [tks map]. apply in_names_cases in Hd. destruct Hd as [x [Hin ->]]. rewrite swm_taken; auto. apply prim_taken; exact Hin.
  - cbn [tks]. rewrite map_app, IH by exact Hd. cbn [map]. unfold kp. rewrite !swm_kp. reflexivity.
  - apply andb_true_iff in Hd. destruct Hd as [Hkk Hv]. destruct (key_ok_dom _ Hkk) as [Hk1 _]. cbn [tks map].
    rewrite map_app. cbn [map]. rewrite map_app. cbn [map]. rewrite IHk, IHv by assumption. unfold kp, recd. rewrite !swm_kp.
    rewrite (swm_taken m "Record"%string) by (auto; cbn; tauto). reflexivity.
  - cbn [tks]. rewrite map_app, IH by exact Hd. cbn [map]. unfold kp. rewrite !swm_kp. reflexivity.
  - destruct l as [|a l'].
    + cbn [tks map]. rewrite (swm_taken m "void"%string) by (auto; cbn; tauto). reflexivity.
    + remember (a :: l') as l0 eqn:El.
      assert (forall m', tks m' (TTuple l0) = kp "[" :: sepk (kp ",") (map (tks m') l0) ++ [kp "]"]) as E by (intros; subst; reflexivity).
      rewrite !E. cbn [map]. rewrite map_app, map_sepk. cbn [map]. unfold kp. rewrite !swm_kp. f_equal. f_equal. f_equal.
      rewrite map_map. apply map_ext_in. intros x Hx. rewrite Forall_forall in IH. apply IH; [exact Hx|].
      rewrite forallb_forall in Hd. apply Hd; exact Hx.
  - cbn [tks]. rewrite map_app, IH by exact Hd. cbn [map]. unfold kp. rewrite !swm_kp.
    rewrite (swm_taken m "null"%string) by (auto; cbn; tauto). reflexivity.
  - cbn [tks]. apply IH; exact Hd.
  - cbn [tks map]. rewrite swm_id by assumption. reflexivity.
Qed.

(* ---- the streams satisfy the invariant ---- *)
Lemma J_app a b : J a = true -> J b = true -> next_is_lt b = false -> J (a ++ b) = true.
Proof.
  intros Ha Hb Hlt. induction a as [|x a' IH]; [exact Hb|]. cbn [J app] in *.
  apply andb_true_iff in Ha as [Ha Hr]. apply andb_true_iff in Ha as [Ho Hx]. rewrite Ho, (IH Hr). cbn [andb]. rewrite andb_true_r.
  destruct a' as [|y a'']; [cbn [app]; rewrite Hlt; reflexivity|exact Hx].
Qed.
Lemma nlt_tks m : forall t r, next_is_lt (tks m t ++ r) = false.
Proof.
  induction t as [p|u IH|k v IHk IHv|u IH|l IH|u IH|u IH|n] using ts_ind2; intros r; cbn [tks]; try reflexivity.
  - rewrite <- app_assoc. apply IH.
  - rewrite <- app_assoc. apply IH.
  - destruct l; reflexivity.
  - rewrite <- app_assoc. apply IH.
  - apply IH.
Qed.
Lemma nlt_sepk m b l r : next_is_lt (sepk (kp ",") (map (tks m) (b :: l)) ++ r) = false.
Proof. destruct l as [|c l']; [apply nlt_tks|]. change (map (tks m) (b :: c :: l')) with (tks m b :: map (tks m) (c :: l')).
  change (sepk (kp ",") (tks m b :: map (tks m) (c :: l'))) with (tks m b ++ kp "," :: sepk (kp ",") (map (tks m) (c :: l'))).
  rewrite <- app_assoc. apply nlt_tks. Qed.
Lemma J_sepk m l : Forall (fun t => J (tks m t) = true) l -> J (sepk (kp ",") (map (tks m) l)) = true.
Proof.
  induction 1 as [|a r Ha Hr IH]; [reflexivity|]. destruct r as [|b r']; [exact Ha|].
  change (sepk (kp ",") (map (tks m) (a :: b :: r'))) with (tks m a ++ kp "," :: sepk (kp ",") (map (tks m) (b :: r'))).
  apply J_app; [exact Ha| |reflexivity]. cbn [J]. rewrite IH. pose proof (nlt_sepk m b r' []) as H. rewrite app_nil_r in H. rewrite H. reflexivity.
Qed.
Lemma J_tks m : forall t, J (tks m t) = true.
Proof.
  induction t as [p|u IH|k v IHk IHv|u IH|l IH|u IH|u IH|n] using ts_ind2; cbn [tks]; try reflexivity.
  - apply J_app; [exact IH|reflexivity|reflexivity].
  - change (recd :: kp "<" :: tks m k ++ kp "," :: tks m v ++ [kp ">"]) with ([recd; kp "<"] ++ (tks m k ++ kp "," :: tks m v ++ [kp ">"])).
    apply J_app; [reflexivity| |apply nlt_tks]. apply J_app; [exact IHk| |reflexivity].
    cbn [J]. rewrite nlt_tks. rewrite J_app; [reflexivity|exact IHv|reflexivity|reflexivity].
  - apply J_app; [exact IH|reflexivity|reflexivity].
  - destruct l as [|a l']; [reflexivity|]. cbn [J]. rewrite nlt_sepk. rewrite J_app; [reflexivity|apply J_sepk; exact IH|reflexivity|reflexivity].
  - apply J_app; [exact IH|reflexivity|reflexivity].
  - exact IH.
Qed.

(* ---- the lexer reads exactly these tokens from the text of the plain renderer ---- *)
Lemma lex_plain m t : map_ok m = true -> dom t = true -> lex_module (plain m t) = tks m t.
Proof.
  intros Hm Hd. unfold lex_module.
  destruct (LX_plain m Hm t Hd [] (S (List.length (plain m t)))) as [f' [Hf' E]]; [exact I|constructor|rewrite app_nil_r; lia|].
  rewrite app_nil_r in E. rewrite E. rewrite lexm_nil by exact Hf'. rewrite app_nil_r. apply pr_tks; assumption.
Qed.

Theorem rel_tokens m t : keys_ok m = true -> map_ok m = true -> dom t = true ->
  lex_module (plain m t) = subst_tokens true m (lex_module (plain [] t)) /\ has_err (lex_module (plain m t)) = false.
Proof.
  intros Hk Hm Hd. rewrite (lex_plain m t Hm Hd), (lex_plain [] t eq_refl Hd). split.
  - rewrite subst_tokens_pointwise by (auto; apply J_tks). symmetry. apply tks_swm; assumption.
  - rewrite <- (pr_tks m Hm t Hd). apply has_err_pr.
Qed.

(* ---- no identifier N or NSchema of a mapped N is left ---- *)
Definition fixed_ids : list string := ["string"; "number"; "boolean"; "void"; "null"; "Record"]%string.
Lemma in_sepk (z s : tk) l : In z (sepk s l) -> z = s \/ exists a, In a l /\ In z a.
Proof.
  induction l as [|a r IH]; [intros []|]. destruct r as [|b r'].
  - intros H. right. exists a. split; [left; reflexivity|exact H].
  - change (sepk s (a :: b :: r')) with (a ++ s :: sepk s (b :: r')). intros H. apply in_app_or in H. destruct H as [H|[H|H]].
    + right. exists a. split; [left; reflexivity|exact H].
    + left. symmetry. exact H.
    + destruct (IH H) as [H1|[c [Hc Hz]]]; [left; exact H1|]. right. exists c. split; [right; exact Hc|exact Hz].
Qed.
Lemma ids_tks m (P : str -> Prop) : (forall x, In x fixed_ids -> P (L x)) ->
  forall t, dom t = true -> (forall n, In n (C05Proofs.customs t) -> P (cname m n)) -> forall y, In (KId y) (tks m t) -> P y.
Proof.
  intros HF. unfold kp, recd in *.
  induction t as [p|u IH|k v IHk IHv|u IH|l IH|u IH|u IH|n] using ts_ind2; cbn [dom tks C05Proofs.customs]; unfold kp, recd; intros Hd Hc y Hy.
  - destruct Hy as [Hy|[]]. inversion Hy; subst. apply in_names_cases in Hd. destruct Hd as [x [Hin ->]]. apply HF. cbn in Hin |- *. intuition.
  - apply in_app_or in Hy. destruct Hy as [Hy|[Hy|[Hy|[]]]]; try discriminate Hy. apply IH; auto.
  - apply andb_true_iff in Hd. destruct Hd as [Hkk Hv]. destruct (key_ok_dom _ Hkk) as [Hk1 _].
    destruct Hy as [Hy|[Hy|Hy]]; try discriminate Hy.
    + inversion Hy; subst. apply (HF "Record"%string). cbn. tauto.
    + apply in_app_or in Hy. destruct Hy as [Hy|[Hy|Hy]]; try discriminate Hy.
      * apply IHk; auto. intros n Hn. apply Hc. apply in_or_app. left; exact Hn.
      * apply in_app_or in Hy. destruct Hy as [Hy|[Hy|[]]]; try discriminate Hy.
        apply IHv; auto. intros n Hn. apply Hc. apply in_or_app. right; exact Hn.
  - apply in_app_or in Hy. destruct Hy as [Hy|[Hy|[Hy|[]]]]; try discriminate Hy. apply IH; auto.
  - destruct l as [|a l'].
    + destruct Hy as [Hy|[]]. inversion Hy; subst. apply (HF "void"%string). cbn. tauto.
    + remember (a :: l') as l0 eqn:El.
      assert (tks m (TTuple l0) = KP (L "[") :: sepk (KP (L ",")) (map (tks m) l0) ++ [KP (L "]")]) as E by (subst; reflexivity).
      assert (In (KId y) (KP (L "[") :: sepk (KP (L ",")) (map (tks m) l0) ++ [KP (L "]")])) as Hy' by (subst; exact Hy).
      clear Hy E. destruct Hy' as [Hy|Hy]; try discriminate Hy. apply in_app_or in Hy. destruct Hy as [Hy|[Hy|[]]]; try discriminate Hy.
      apply in_sepk in Hy. destruct Hy as [Hy|[toks [Ht Hy]]]; try discriminate Hy.
      apply in_map_iff in Ht. destruct Ht as [x [<- Hx]]. rewrite Forall_forall in IH. apply (IH x Hx); auto.
      * rewrite forallb_forall in Hd. apply Hd; exact Hx.
      * intros n Hn. apply Hc. apply in_flat_map. exists x. split; assumption.
  - apply in_app_or in Hy. destruct Hy as [Hy|[Hy|[Hy|[]]]]; try discriminate Hy; [apply IH; auto|].
    inversion Hy; subst. apply (HF "null"%string). cbn. tauto.
  - apply IH; auto.
  - destruct Hy as [Hy|[]]. inversion Hy; subst. apply Hc. left; reflexivity.
Qed.

Lemma occ_none hd : forall toks ac, (forall y, In (KId y) toks -> y <> hd /\ y <> hd ++ L "Schema") -> occurs_bare hd toks ac = false.
Proof.
  induction toks as [|a r IH]; intros ac H; [reflexivity|]. cbn [occurs_bare]. rewrite IH by (intros y Hy; apply H; right; exact Hy).
  rewrite orb_false_r. destruct a; try apply andb_false_r. destruct (H s (or_introl eq_refl)) as [H1 H2].
  apply str_eqb_neq in H1, H2. rewrite H1, H2. apply andb_false_r.
Qed.
Lemma not_schema_fixed n x : In x fixed_ids -> L x <> n ++ L "Schema".
Proof.
  intros Hin E. apply (f_equal (@rev ascii)) in E. rewrite rev_app_distr in E.
  cbn in Hin. destruct Hin as [<-|[<-|[<-|[<-|[<-|[<-|[]]]]]]]; cbn [rev app L list_ascii_of_string] in E; discriminate E.
Qed.
Lemma fixed_taken x : In x fixed_ids -> In x taken_names.
Proof. cbn. intuition. Qed.
Lemma lookup_key_ok m : keys_ok m = true -> forall n tg, lookup m n = Some tg -> name_ok n = true.
Proof.
  induction m as [|[k v] m IH]; intros Hk n tg; [discriminate|]. unfold keys_ok in Hk. cbn [forallb fst] in Hk. apply andb_true_iff in Hk as [Hkn Hk].
  cbn [lookup]. destruct (str_eqb k n) eqn:E; [apply str_eqb_eq in E; subst; auto|apply IH; exact Hk].
Qed.

(* the side condition of the oracle's "no longer referred to" test at type sites: the test also looks for
   the identifier NSchema, so an unmapped project type that is literally called NSchema is excluded *)
Definition noschema (m : mapping) (t : tstruct) : bool :=
  forallb (fun kv => negb (existsb (fun c => str_eqb c (fst kv ++ L "Schema")) (C05Proofs.customs t))) m.

Theorem no_refs m t n tg : keys_ok m = true -> map_ok m = true -> dom t = true ->
  (forall c, In c (C05Proofs.customs t) -> c <> n ++ L "Schema") -> lookup m n = Some tg ->
  refers_to n (tks m t) = false.
Proof.
  intros Hk Hm Hd Hns Hl. pose proof (lookup_key_ok m Hk n tg Hl) as Hn. destruct (idn_name n Hn) as [Hid _].
  unfold refers_to. rewrite (lex_id1 n Hid). apply occ_none.
  assert (HF : forall x, In x fixed_ids -> L x <> n /\ L x <> n ++ L "Schema").
  { intros x Hx. split; [|apply not_schema_fixed; exact Hx]. pose proof (name_not_taken n x Hn (fixed_taken x Hx)) as H.
    apply str_eqb_neq in H. congruence. }
  apply (ids_tks m (fun y => y <> n /\ y <> n ++ L "Schema") HF t Hd).
  intros c Hc. unfold cname. destruct (lookup m c) as [v|] eqn:E.
  - destruct (lookup_target0 m Hm c v E) as [->|[->| ->]]; [apply (HF "string"%string)|apply (HF "number"%string)|apply (HF "boolean"%string)]; cbn; tauto.
  - split; [intros ->; congruence|apply Hns; exact Hc].
Qed.
