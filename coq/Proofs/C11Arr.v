(* C11, arrays of every readable element type: the chain printed for a Vec field reads back as
   z.array(<element schema>) with exactly the length methods, for EVERY element type built from the four
   primitives, Option, Vec and identifier-named custom types (induction over read_schema with symbolic fuel). *)
From Coq Require Import String Ascii List Arith Lia Bool NArith.
Require Import TT.Model.Str TT.Model.C11Validator TT.Spec.C11Spec TT.Proofs.C11Proofs TT.Proofs.C11Scan.
Import ListNotations.
Local Open Scope char_scope.
Local Open Scope list_scope.

(* element types whose bare schema the reader understands *)
Fixpoint readable (t : tstruct) : bool :=
  match t with
  | TsPrim p => str_eqb p (L "string") || str_eqb p (L "number") || str_eqb p (L "boolean") || str_eqb p (L "void")
  | TsOpt i | TsArr i => readable i
  | TsCustom n => forallb is_ident_char n
  end.
Definition add_meths (s : schema) (ms : list meth) : schema := match s with Sch b i m => Sch b i (m ++ ms) end.
Fixpoint schema_of (t : tstruct) : schema :=
  match t with
  | TsPrim p => Sch (if str_eqb p (L "string") then L "z.string" else if str_eqb p (L "number") then L "z.coerce.number"
                     else if str_eqb p (L "boolean") then L "z.coerce.boolean" else L "z.void") [] []
  | TsOpt i => add_meths (schema_of i) [MOptional]
  | TsArr i => Sch (L "z.array") [schema_of i] []
  | TsCustom n => Sch (n ++ L "Schema") [] []
  end.
(* fuel that read_schema needs on the bare schema of t *)
Fixpoint need (t : tstruct) : nat :=
  match t with TsPrim _ => 4 | TsOpt i => S (need i) | TsArr i => need i + 3 | TsCustom _ => 2 end.

(* ------------------------------------------------------------------ small facts *)
Lemma seqb_eq : forall a b : str, str_eqb a b = true <-> a = b.
Proof. intros a b. unfold str_eqb. destruct (list_eq_dec ascii_dec a b) as [E|E]; split; intros H; auto; discriminate. Qed.
Lemma seqb_neq : forall a b : str, a <> b -> str_eqb a b = false.
Proof. intros a b H. unfold str_eqb. destruct (list_eq_dec ascii_dec a b) as [E|E]; [contradiction|reflexivity]. Qed.

Lemma ident_facts : forall c, is_ident_char c = true -> is_ws c = false /\ Ascii.eqb ")" c = false.
Proof. intros [[] [] [] [] [] [] [] []]; vm_compute; intros H; first [discriminate H | split; reflexivity]. Qed.

Lemma add_meths_add : forall s a b, add_meths (add_meths s a) b = add_meths s (a ++ b).
Proof. intros [b0 i m] a b. cbn [add_meths]. rewrite app_assoc. reflexivity. Qed.
Lemma add_meths_nil : forall s, add_meths s [] = s.
Proof. intros [b0 i m]. cbn [add_meths]. rewrite app_nil_r. reflexivity. Qed.

(* the text after a schema inside our chains: nothing, or the closing parenthesis of the enclosing array *)
Definition closing (T : str) : Prop := T = [] \/ exists r, T = ")" :: r.
Lemma closing_dot : forall T, closing T -> tok "." T = None.
Proof. intros T [->|[r ->]]; reflexivity. Qed.

Definition ihead (s : str) : Prop := exists c r, s = c :: r /\ is_ident_char c = true.
Definition stopper (s : str) : Prop := s = [] \/ exists c r, s = c :: r /\ is_ident_char c = false.

Lemma show_head : forall m, exists r, show_meth m = "." :: r.
Proof. intros [x|x|n mo|n mo|]; cbn [show_meth L list_ascii_of_string app]; eexists; reflexivity. Qed.
Lemma meths_stopper : forall ms T, closing T -> stopper (flat_map show_meth ms ++ T).
Proof. intros [|m ms] T HT.
  - cbn [flat_map app]. destruct HT as [->|[r ->]]; [left; reflexivity|].
    right. exists ")", r. split; reflexivity.
  - right. destruct (show_head m) as [r E]. cbn [flat_map]. rewrite E. cbn [app].
    exists ".", ((r ++ flat_map show_meth ms) ++ T). split; reflexivity. Qed.

Lemma span_stop (p : ascii -> bool) : forall n s, forallb p n = true ->
  (s = [] \/ exists c r, s = c :: r /\ p c = false) -> span p (n ++ s) = (n, s).
Proof. induction n as [|x n IH]; intros s Hn Hs.
  - cbn [app]. destruct Hs as [->|[c [r [-> Hc]]]]; cbn [span]; [reflexivity|]. rewrite Hc. reflexivity.
  - cbn [forallb] in Hn. apply andb_true_iff in Hn as [Hx Hn]. cbn [app span]. rewrite Hx, (IH s Hn Hs). reflexivity. Qed.

Lemma wtrim_ihead : forall s rest, ihead s -> wtrim_l (s ++ rest) = s ++ rest.
Proof. intros s rest [c [r [-> Hc]]]. cbn [app wtrim_l]. destruct (ident_facts c Hc) as [Hw _]. rewrite Hw. reflexivity. Qed.
Lemma tok_rparen_ihead : forall s rest, ihead s -> tok ")" (s ++ rest) = None.
Proof. intros s rest Hs. apply (tok_fail ")" _ (s ++ rest)); [apply wtrim_ihead; exact Hs|].
  destruct Hs as [c [r [-> Hc]]]. destruct (ident_facts c Hc) as [_ He].
  cbn [L list_ascii_of_string app starts]. rewrite He. reflexivity. Qed.

(* ------------------------------------------------------------------ one-step equations of the reader *)
Section ArgsWith.
Variable rs : str -> option (schema * str).
Fixpoint read_args_with (k : nat) (s : str) : option (list schema * str) :=
  match k with 0 => None | S k' =>
    match rs s with Some (x, s1) =>
      match tok "," s1 with
      | Some s2 => match read_args_with k' s2 with Some (xs, s3) => Some (x :: xs, s3) | None => None end
      | None => match tok ")" s1 with Some s2 => Some ([x], s2) | None => None end
      end
    | None => None end
  end.
End ArgsWith.

Lemma read_args_S : forall rs k s, read_args_with rs (S k) s =
  match rs s with Some (x, s1) =>
    match tok "," s1 with
    | Some s2 => match read_args_with rs k s2 with Some (xs, s3) => Some (x :: xs, s3) | None => None end
    | None => match tok ")" s1 with Some s2 => Some ([x], s2) | None => None end
    end
  | None => None end.
Proof. reflexivity. Qed.

Lemma read_schema_S : forall f s, read_schema (S f) s =
  let '(id, s1) := span is_ident_char (wtrim_l s) in
  match id with
  | [] => None
  | _ :: _ =>
    if str_eqb id (L "z") then
      match read_path f s1 with
      | Some (path, s2) =>
        match (match tok ")" s2 with Some r => Some (@nil schema, r) | None => read_args_with (read_schema f) f s2 end) with
        | Some (inner, s3) =>
            match read_meths f s3 with Some (ms, s4) => Some (Sch (id ++ path) inner ms, s4) | None => None end
        | None => None end
      | None => None end
    else match read_meths f s1 with Some (ms, s2) => Some (Sch id [] ms, s2) | None => None end
  end.
Proof. reflexivity. Qed.

Lemma read_schema_other : forall f s id s1, span is_ident_char (wtrim_l s) = (id, s1) -> id <> [] ->
  str_eqb id (L "z") = false ->
  read_schema (S f) s = match read_meths f s1 with Some (ms, s2) => Some (Sch id [] ms, s2) | None => None end.
Proof. intros f s id s1 E Hne Hz. rewrite read_schema_S, E. destruct id as [|a b]; [contradiction|].
  cbv beta iota. rewrite Hz. reflexivity. Qed.

Lemma read_schema_array : forall f X, read_schema (S (S (S f))) (L "z.array(" ++ X) =
  match (match tok ")" X with Some r => Some (@nil schema, r)
         | None => read_args_with (read_schema (S (S f))) (S (S f)) X end) with
  | Some (inner, s3) =>
      match read_meths (S (S f)) s3 with Some (ms, s4) => Some (Sch (L "z.array") inner ms, s4) | None => None end
  | None => None end.
Proof. reflexivity. Qed.

Lemma read_schema_array_done : forall f X x R ms T,
  read_schema (S (S f)) X = Some (x, ")" :: R) -> tok ")" X = None -> read_meths (S (S f)) R = Some (ms, T) ->
  read_schema (S (S (S f))) (L "z.array(" ++ X) = Some (Sch (L "z.array") [x] ms, T).
Proof. intros f X x R ms T H1 H2 H3. rewrite read_schema_array, H2, read_args_S, H1. cbv beta iota.
  assert (Hc : tok "," (")" :: R) = None) by reflexivity.
  assert (Hp : tok ")" (")" :: R) = Some R) by reflexivity.
  rewrite Hc, Hp. cbv beta iota. rewrite H3. reflexivity. Qed.

(* closed base texts *)
Lemma rs4_string : forall F T, read_schema (S (S (S (S F)))) (L "z.string()" ++ T) =
  match read_meths (S (S (S F))) T with Some (ms, s4) => Some (Sch (L "z.string") [] ms, s4) | None => None end.
Proof. reflexivity. Qed.
Lemma rs4_number : forall F T, read_schema (S (S (S (S F)))) (L "z.coerce.number()" ++ T) =
  match read_meths (S (S (S F))) T with Some (ms, s4) => Some (Sch (L "z.coerce.number") [] ms, s4) | None => None end.
Proof. reflexivity. Qed.
Lemma rs4_boolean : forall F T, read_schema (S (S (S (S F)))) (L "z.coerce.boolean()" ++ T) =
  match read_meths (S (S (S F))) T with Some (ms, s4) => Some (Sch (L "z.coerce.boolean") [] ms, s4) | None => None end.
Proof. reflexivity. Qed.
Lemma rs4_void : forall F T, read_schema (S (S (S (S F)))) (L "z.void()" ++ T) =
  match read_meths (S (S (S F))) T with Some (ms, s4) => Some (Sch (L "z.void") [] ms, s4) | None => None end.
Proof. reflexivity. Qed.

Lemma closed_base : forall (base nm : str),
  (forall F T, read_schema (S (S (S (S F)))) (base ++ T) =
     match read_meths (S (S (S F))) T with Some (ms, s4) => Some (Sch nm [] ms, s4) | None => None end) ->
  forall ms fuel T, forallb meth_ok ms = true -> tok "." T = None -> 4 + List.length ms <= fuel ->
  read_schema fuel (base ++ flat_map show_meth ms ++ T) = Some (Sch nm [] ms, T).
Proof. intros base nm H ms fuel T Hok HT Hf. destruct fuel as [|[|[|[|f]]]]; try lia. rewrite H.
  replace (S (S (S f))) with (S (List.length ms + (S (S f) - List.length ms))) by lia.
  rewrite read_meths_show by assumption. reflexivity. Qed.

(* ------------------------------------------------------------------ the four primitives *)
Lemma prim_cases : forall p, readable (TsPrim p) = true ->
  (bare_schema (TsPrim p) = L "z.string()" /\ schema_of (TsPrim p) = Sch (L "z.string") [] []) \/
  (bare_schema (TsPrim p) = L "z.coerce.number()" /\ schema_of (TsPrim p) = Sch (L "z.coerce.number") [] []) \/
  (bare_schema (TsPrim p) = L "z.coerce.boolean()" /\ schema_of (TsPrim p) = Sch (L "z.coerce.boolean") [] []) \/
  (bare_schema (TsPrim p) = L "z.void()" /\ schema_of (TsPrim p) = Sch (L "z.void") [] []).
Proof. intros p H. cbn [readable] in H. rewrite !orb_true_iff, !seqb_eq in H.
  destruct H as [[[->| ->]| ->]| ->]; [left|right; left|right; right; left|right; right; right]; split; vm_compute; reflexivity. Qed.

Lemma bare_head : forall t, readable t = true -> ihead (bare_schema t).
Proof. induction t as [p|i IH|i IH|n]; intros Hr.
  - destruct (prim_cases p Hr) as [[Hb _]|[[Hb _]|[[Hb _]|[Hb _]]]]; rewrite Hb; exists "z"; eexists; split; reflexivity.
  - cbn [readable] in Hr. destruct (IH Hr) as [c [r [E Hc]]]. cbn [bare_schema]. rewrite E.
    exists c, (r ++ L ".optional()"). split; [reflexivity|exact Hc].
  - exists "z". eexists. split; [cbn [bare_schema]; reflexivity|reflexivity].
  - cbn [readable] in Hr. cbn [bare_schema]. destruct n as [|a n].
    + exists "S". eexists. split; reflexivity.
    + cbn [forallb] in Hr. apply andb_true_iff in Hr as [Ha _]. exists a, (n ++ L "Schema"). split; [reflexivity|exact Ha]. Qed.

(* ------------------------------------------------------------------ the reader on every readable bare schema *)
Lemma read_bare : forall t, readable t = true -> forall ms fuel T, forallb meth_ok ms = true -> closing T ->
  need t + List.length ms <= fuel ->
  read_schema fuel (bare_schema t ++ flat_map show_meth ms ++ T) = Some (add_meths (schema_of t) ms, T).
Proof. induction t as [p|i IH|i IH|n]; intros Hr ms fuel T Hok HT Hf.
  - cbn [need] in Hf. pose proof (closing_dot T HT) as Hd.
    destruct (prim_cases p Hr) as [[Hb Hs]|[[Hb Hs]|[[Hb Hs]|[Hb Hs]]]]; rewrite Hb, Hs; cbn [add_meths app].
    + exact (closed_base _ _ rs4_string ms fuel T Hok Hd Hf).
    + exact (closed_base _ _ rs4_number ms fuel T Hok Hd Hf).
    + exact (closed_base _ _ rs4_boolean ms fuel T Hok Hd Hf).
    + exact (closed_base _ _ rs4_void ms fuel T Hok Hd Hf).
  - cbn [readable] in Hr. cbn [need] in Hf. cbn [bare_schema schema_of].
    assert (Hok' : forallb meth_ok (MOptional :: ms) = true) by exact Hok.
    assert (Hf' : need i + List.length (MOptional :: ms) <= fuel) by (cbn [List.length]; lia).
    pose proof (IH Hr (MOptional :: ms) fuel T Hok' HT Hf') as H.
    cbn [flat_map show_meth] in H. rewrite <- app_assoc in H.
    rewrite <- app_assoc, add_meths_add. exact H.
  - cbn [readable] in Hr. cbn [need] in Hf. cbn [bare_schema schema_of add_meths app].
    destruct fuel as [|[|[|f]]]; try lia.
    rewrite <- !app_assoc.
    change (L ")" ++ flat_map show_meth ms ++ T) with (")" :: flat_map show_meth ms ++ T).
    apply (read_schema_array_done f _ (schema_of i) (flat_map show_meth ms ++ T) ms T).
    + assert (Hc : closing (")" :: flat_map show_meth ms ++ T)) by (right; eexists; reflexivity).
      assert (Hf' : need i + List.length (@nil meth) <= S (S f)) by (cbn [List.length]; lia).
      pose proof (IH Hr [] (S (S f)) _ eq_refl Hc Hf') as H.
      cbn [flat_map app] in H. rewrite add_meths_nil in H. exact H.
    + apply tok_rparen_ihead. apply bare_head. exact Hr.
    + replace (S (S f)) with (S (List.length ms + (S f - List.length ms))) by lia.
      apply read_meths_show; [exact Hok|apply closing_dot; exact HT].
  - cbn [readable] in Hr. cbn [need] in Hf. cbn [bare_schema schema_of add_meths app].
    destruct fuel as [|f]; [lia|].
    assert (Hid : forallb is_ident_char (n ++ L "Schema") = true) by (rewrite forallb_app, Hr; reflexivity).
    assert (Hlen : List.length (n ++ L "Schema") = List.length n + 6) by (rewrite app_length; reflexivity).
    assert (Hh : ihead (n ++ L "Schema")) by (apply (bare_head (TsCustom n)); exact Hr).
    rewrite (read_schema_other f _ (n ++ L "Schema") (flat_map show_meth ms ++ T)).
    + replace f with (S (List.length ms + (f - 1 - List.length ms))) by lia.
      rewrite read_meths_show by (try exact Hok; apply closing_dot; exact HT). reflexivity.
    + rewrite wtrim_ihead by exact Hh. apply span_stop; [exact Hid|]. apply meths_stopper. exact HT.
    + intros E. rewrite E in Hlen. cbn [List.length] in Hlen. lia.
    + apply seqb_neq. intros E. rewrite E in Hlen. cbn [List.length L list_ascii_of_string] in Hlen. lia. Qed.

Lemma need_le : forall t, need t <= S (List.length (bare_schema t)).
Proof. induction t as [p|i IH|i IH|n]; cbn [need bare_schema].
  - destruct (str_eqb p (L "string")); [cbn [L list_ascii_of_string List.length]; lia|].
    destruct (str_eqb p (L "number")); [cbn [L list_ascii_of_string List.length]; lia|].
    destruct (str_eqb p (L "boolean")); [cbn [L list_ascii_of_string List.length]; lia|].
    destruct (str_eqb p (L "void")); [cbn [L list_ascii_of_string List.length]; lia|].
    rewrite app_length. cbn [L list_ascii_of_string List.length]. lia.
  - rewrite app_length. cbn [L list_ascii_of_string List.length]. lia.
  - rewrite !app_length. cbn [L list_ascii_of_string List.length]. lia.
  - rewrite app_length. cbn [L list_ascii_of_string List.length]. lia. Qed.

(* ------------------------------------------------------------------ the theorems *)
Theorem read_chain_bare : forall t ms, readable t = true -> forallb meth_ok ms = true ->
  read_chain (bare_schema t ++ flat_map show_meth ms) = Some (add_meths (schema_of t) ms).
Proof. intros t ms Hr Hok. unfold read_chain.
  assert (Hf : need t + List.length ms <= S (List.length (bare_schema t ++ flat_map show_meth ms))).
  { rewrite app_length. pose proof (need_le t). pose proof (len_show ms). lia. }
  pose proof (read_bare t Hr ms _ [] Hok (or_introl eq_refl) Hf) as H.
  rewrite app_nil_r in H. rewrite H. reflexivity. Qed.

Theorem render_exact_arrays_all : forall inner v k, readable inner = true -> va_ok v = true ->
  read_chain (build_schema (opts k (TsArr inner)) (Some v)) =
  Some (arr_of (schema_of inner) (length_meths v ++ repeat MOptional k)).
Proof. intros inner v k Hr Hv. unfold va_ok in Hv. apply andb_true_iff in Hv as [Hl _].
  assert (HL : forallb meth_ok (length_meths v ++ repeat MOptional k) = true).
  { unfold length_meths. rewrite forallb_app, optional_ok. destruct (v_length v); [rewrite cstr_meths_ok by exact Hl|]; reflexivity. }
  rewrite array_elements_bare.
  pose proof (read_chain_bare (TsArr inner) _ Hr HL) as H.
  cbn [bare_schema] in H. rewrite <- !app_assoc in H. exact H. Qed.

(* elements never carry a constraint *)
Lemma ncs_eq : forall b i m, no_cons_schema (Sch b i m) = forallb is_optional m && forallb no_cons_schema i.
Proof. intros b i m. reflexivity. Qed.

Theorem schema_of_no_cons : forall t, no_cons_schema (schema_of t) = true.
Proof. induction t as [p|i IH|i IH|n]; cbn [schema_of].
  - rewrite ncs_eq. reflexivity.
  - destruct (schema_of i) as [b inn m]. rewrite ncs_eq in IH. cbn [add_meths]. rewrite ncs_eq, forallb_app.
    apply andb_true_iff in IH as [H1 H2]. rewrite H1, H2. reflexivity.
  - rewrite ncs_eq. cbn [forallb]. rewrite IH. reflexivity.
  - rewrite ncs_eq. reflexivity. Qed.

(* Vec<Option<Vec<Option<Item>>>> under one Option, with a minimal length and a message *)
Example arrays_all_example :
  let inner := TsOpt (TsArr (TsOpt (TsCustom (L "Item")))) in
  let v := {| v_length := Some {| c_min := Some (L "1"); c_max := None; c_msg := Some (L "need one") |};
              v_range := None; v_email := false; v_url := false |} in
  readable inner = true /\ va_ok v = true /\
  build_schema (opts 1 (TsArr inner)) (Some v) =
    L "z.array(z.array(ItemSchema.optional()).optional()).min(1, { message: ""need one"" }).optional()" /\
  read_chain (build_schema (opts 1 (TsArr inner)) (Some v)) =
    Some (arr_of (Sch (L "z.array") [Sch (L "ItemSchema") [] [MOptional]] [MOptional])
                 [MMin (L "1") (Some (L "need one")); MOptional]).
Proof. cbv zeta. split; [vm_compute; reflexivity|]. split; [vm_compute; reflexivity|]. split; [vm_compute; reflexivity|].
  rewrite render_exact_arrays_all by (vm_compute; reflexivity). vm_compute. reflexivity. Qed.

