(* C19 - the run-time oracles of Spec/C19Spec.v: reflection lemmas (oracle = true exactly when
   the Prop-level statement holds) and the model passes its own oracles for every input. *)
From Coq Require Import String Ascii List Bool Arith Lia Setoid.
Require Import TT.Model.C19Config TT.Spec.C19Spec TT.Proofs.C19ConfigProofs.
Import ListNotations.
Local Open Scope string_scope.

(* ---------------------------------------------------------------- induction over documents *)
Section JsonInd.
  Variable Pj : json -> Prop.
  Hypothesis Hnull : Pj JNull.
  Hypothesis Hbool : forall b, Pj (JBool b).
  Hypothesis Hnum : forall n, Pj (JNum n).
  Hypothesis Hstr : forall s, Pj (JStr s).
  Hypothesis Harr : forall l, Forall Pj l -> Pj (JArr l).
  Hypothesis Hobj : forall kvs, Forall (fun kv => Pj (snd kv)) kvs -> Pj (JObj kvs).
  Fixpoint json_ind2 (j : json) : Pj j :=
    match j with
    | JNull => Hnull | JBool b => Hbool b | JNum n => Hnum n | JStr s => Hstr s
    | JArr l => Harr l ((fix go (l : list json) : Forall Pj l :=
                           match l with
                           | [] => Forall_nil _
                           | x :: r => Forall_cons x (json_ind2 x) (go r)
                           end) l)
    | JObj kvs => Hobj kvs ((fix go (l : list (string * json)) : Forall (fun kv => Pj (snd kv)) l :=
                               match l with
                               | [] => Forall_nil _
                               | (k, v) :: r => Forall_cons (k, v) (json_ind2 v) (go r)
                               end) kvs)
    end.
End JsonInd.

(* ---------------------------------------------------------------- json_eqb decides equality *)
Definition arr_eqb := fix go (l1 l2 : list json) : bool :=
  match l1, l2 with
  | [], [] => true
  | u :: r1, w :: r2 => json_eqb u w && go r1 r2
  | _, _ => false
  end.
Definition obj_eqb := fix go (l1 l2 : list (string * json)) : bool :=
  match l1, l2 with
  | [], [] => true
  | (k1, u) :: r1, (k2, w) :: r2 => String.eqb k1 k2 && json_eqb u w && go r1 r2
  | _, _ => false
  end.
Lemma json_eqb_arr x y : json_eqb (JArr x) (JArr y) = arr_eqb x y.
Proof. reflexivity. Qed.
Lemma json_eqb_obj x y : json_eqb (JObj x) (JObj y) = obj_eqb x y.
Proof. reflexivity. Qed.

Lemma arr_eqb_eq x : Forall (fun u => forall w, json_eqb u w = true <-> u = w) x ->
  forall y, arr_eqb x y = true <-> x = y.
Proof.
  induction 1 as [|u r Hu Hr IH]; intros [|w y].
  - split; reflexivity.
  - split; discriminate.
  - split; discriminate.
  - change (arr_eqb (u :: r) (w :: y)) with (json_eqb u w && arr_eqb r y).
    rewrite andb_true_iff, (Hu w), (IH y). split.
    + intros [-> ->]. reflexivity.
    + intros E. inversion E. split; reflexivity.
Qed.

Lemma obj_eqb_eq x : Forall (fun kv : string * json => forall w, json_eqb (snd kv) w = true <-> snd kv = w) x ->
  forall y, obj_eqb x y = true <-> x = y.
Proof.
  induction 1 as [|[k u] r Hu Hr IH]; intros [|[k2 w] y].
  - split; reflexivity.
  - split; discriminate.
  - split; discriminate.
  - change (obj_eqb ((k, u) :: r) ((k2, w) :: y)) with (String.eqb k k2 && json_eqb u w && obj_eqb r y).
    cbn [snd] in Hu.
    rewrite !andb_true_iff, String.eqb_eq, (Hu w), (IH y). split.
    + intros [[-> ->] ->]. reflexivity.
    + intros E. inversion E. repeat split; reflexivity.
Qed.

Theorem json_eqb_eq a : forall b, json_eqb a b = true <-> a = b.
Proof.
  induction a as [|x|x|x|l Hl|kvs Hk] using json_ind2; intros b.
  - destruct b; cbn [json_eqb]; split; intros E; try discriminate E; reflexivity.
  - destruct b as [|y| | | |]; cbn [json_eqb]; try (split; intros E; discriminate E).
    rewrite Bool.eqb_true_iff. split; [intros ->; reflexivity|intros E; inversion E; reflexivity].
  - destruct b as [| |y| | |]; cbn [json_eqb]; try (split; intros E; discriminate E).
    rewrite String.eqb_eq. split; [intros ->; reflexivity|intros E; inversion E; reflexivity].
  - destruct b as [| | |y| |]; cbn [json_eqb]; try (split; intros E; discriminate E).
    rewrite String.eqb_eq. split; [intros ->; reflexivity|intros E; inversion E; reflexivity].
  - destruct b as [| | | |y|]; try (split; intros E; discriminate E).
    rewrite json_eqb_arr, (arr_eqb_eq l Hl y). split; [intros ->; reflexivity|intros E; inversion E; reflexivity].
  - destruct b as [| | | | |y]; try (split; intros E; discriminate E).
    rewrite json_eqb_obj, (obj_eqb_eq kvs Hk y). split; [intros ->; reflexivity|intros E; inversion E; reflexivity].
Qed.

Lemma ojson_eqb_eq a b : ojson_eqb a b = true <-> a = b.
Proof.
  destruct a as [x|], b as [y|]; cbn [ojson_eqb]; try (split; intros E; try discriminate E; reflexivity).
  rewrite (json_eqb_eq x y). split; [intros ->; reflexivity|intros E; inversion E; reflexivity].
Qed.

(* ---------------------------------------------------------------- config_eqb and eff_eqb decide equality *)
Lemma strs_eqb_eq a : forall b, strs_eqb a b = true <-> a = b.
Proof.
  induction a as [|x r IH]; intros [|y s]; cbn [strs_eqb]; try (split; intros E; try discriminate E; reflexivity).
  rewrite andb_true_iff, String.eqb_eq, (IH s). split; [intros [-> ->]; reflexivity|intros E; inversion E; split; reflexivity].
Qed.
Lemma pairs_eqb_eq a : forall b, pairs_eqb a b = true <-> a = b.
Proof.
  induction a as [|[k v] r IH]; intros [|[k2 v2] s]; cbn [pairs_eqb]; try (split; intros E; try discriminate E; reflexivity).
  rewrite !andb_true_iff, !String.eqb_eq, (IH s).
  split; [intros [[-> ->] ->]; reflexivity|intros E; inversion E; repeat split; reflexivity].
Qed.
Lemma obool_eqb_eq a b : obool_eqb a b = true <-> a = b.
Proof. destruct a as [[|]|], b as [[|]|]; cbn; split; intros E; try discriminate E; reflexivity. Qed.
Lemma opt_eqb_eq {A} (e : A -> A -> bool) (He : forall x y, e x y = true <-> x = y) a b :
  opt_eqb e a b = true <-> a = b.
Proof.
  destruct a as [x|], b as [y|]; cbn [opt_eqb]; try (split; intros E; try discriminate E; reflexivity).
  rewrite (He x y). split; [intros ->; reflexivity|intros E; inversion E; reflexivity].
Qed.

Theorem config_eqb_eq a b : config_eqb a b = true <-> a = b.
Proof.
  destruct a as [pp op vl vb vd ip tm ep ipat pc fc fo], b as [pp2 op2 vl2 vb2 vd2 ip2 tm2 ep2 ipat2 pc2 fc2 fo2].
  unfold config_eqb.
  cbn [project_path output_path validation_library verbose visualize_deps include_private type_mappings
       exclude_patterns include_patterns default_parameter_case default_field_case force].
  rewrite !andb_true_iff, !String.eqb_eq, !obool_eqb_eq,
    (opt_eqb_eq pairs_eqb pairs_eqb_eq), !(opt_eqb_eq strs_eqb strs_eqb_eq).
  split.
  - intros H. repeat match goal with H : _ /\ _ |- _ => destruct H end. subst. reflexivity.
  - intros E. inversion E. repeat split; reflexivity.
Qed.

Theorem eff_eqb_iff a b : eff_eqb a b = true <-> eff_norm a = eff_norm b.
Proof.
  destruct a as [p o l v lv z fo], b as [p2 o2 l2 v2 lv2 z2 fo2]. unfold eff_eqb, eff_norm.
  cbn [e_project e_output e_lib e_verbose e_log_verbose e_visualize e_force].
  rewrite !andb_true_iff, !String.eqb_eq, !Bool.eqb_true_iff.
  split.
  - intros H. repeat match goal with H : _ /\ _ |- _ => destruct H end. subst. f_equal; assumption.
  - intros E. inversion E. repeat split; reflexivity.
Qed.

(* ---------------------------------------------------------------- round-trip oracles *)
Theorem roundtrip_b_iff c l : roundtrip_b c l = true <-> l = Some (normalise c).
Proof.
  unfold roundtrip_b. destruct l as [c2|]; [|split; discriminate].
  rewrite config_eqb_eq. split; [intros ->; reflexivity|intros E; inversion E; reflexivity].
Qed.
Theorem flat_roundtrip_b_iff c l : flat_roundtrip_b c l = true <-> l = Some c.
Proof.
  unfold flat_roundtrip_b. destruct l as [c2|]; [|split; discriminate].
  rewrite config_eqb_eq. split; [intros ->; reflexivity|intros E; inversion E; reflexivity].
Qed.
Theorem roundtrip_lres_b_iff f c l : roundtrip_lres_b f c l = true <-> roundtrip_lres_P f c l.
Proof.
  unfold roundtrip_lres_b, roundtrip_lres_P. destruct (validate f c).
  - destruct l; split; intros E; try discriminate E; reflexivity.
  - destruct l as [c2| |]; try (split; intros E; discriminate E).
    rewrite config_eqb_eq. split; [intros ->; reflexivity|intros E; inversion E; reflexivity].
Qed.

(* ---------------------------------------------------------------- the path enumeration *)
Definition paths_arr (n : nat) := fix go (i : nat) (l : list json) : list (list pel) :=
  match l with [] => [] | v :: r => (map (cons (PIdx i)) (paths n v) ++ go (S i) r)%list end.
Lemma paths_S n j : paths (S n) j =
  [] :: match j with
        | JObj kvs => flat_map (fun kv => map (cons (PKey (fst kv))) (paths n (snd kv))) kvs
        | JArr l => paths_arr n 0 l
        | _ => []
        end.
Proof. reflexivity. Qed.

Lemma paths_arr_in n q l : forall i, In q (paths_arr n i l) ->
  exists k q' v, q = PIdx k :: q' /\ In v l /\ In q' (paths n v).
Proof.
  induction l as [|v r IH]; intros i H; [contradiction|].
  change (paths_arr n i (v :: r)) with (map (cons (PIdx i)) (paths n v) ++ paths_arr n (S i) r)%list in H.
  apply in_app_or in H. destruct H as [H|H].
  - apply in_map_iff in H. destruct H as (q' & <- & Hq). exists i, q', v. split; [reflexivity|]. split; [left; reflexivity|exact Hq].
  - destruct (IH (S i) H) as (k & q' & w & E & Hw & Hq). exists k, q', w. split; [exact E|]. split; [right; exact Hw|exact Hq].
Qed.

Lemma paths_arr_complete n q' v l : forall k i, nth_error l i = Some v -> In q' (paths n v) ->
  In (PIdx (k + i) :: q') (paths_arr n k l).
Proof.
  induction l as [|w r IH]; intros k i Hn Hq; [destruct i; discriminate|].
  change (paths_arr n k (w :: r)) with (map (cons (PIdx k)) (paths n w) ++ paths_arr n (S k) r)%list.
  apply in_or_app. destruct i as [|i].
  - left. cbn in Hn. inversion Hn; subst w. rewrite Nat.add_0_r. apply in_map. exact Hq.
  - right. cbn in Hn. replace (k + S i) with (S k + i) by lia. apply IH; assumption.
Qed.

Lemma paths_len fuel : forall j q, In q (paths fuel j) -> length q <= fuel.
Proof.
  induction fuel as [|n IH]; intros j q H.
  - destruct H as [<-|[]]. cbn. lia.
  - rewrite paths_S in H. destruct H as [<-|H]; [cbn; lia|].
    destruct j as [| | | |l|kvs]; try contradiction.
    + destruct (paths_arr_in n q l 0 H) as (k & q' & v & -> & _ & Hq). cbn. apply IH in Hq. lia.
    + apply in_flat_map in H. destruct H as (kv & _ & H). apply in_map_iff in H. destruct H as (q' & <- & Hq).
      cbn. apply IH in Hq. lia.
Qed.

Lemma lookup_in {A} k (kvs : list (string * A)) v : lookup k kvs = Some v -> In (k, v) kvs.
Proof.
  induction kvs as [|[k2 v2] r IH]; cbn [lookup]; [discriminate|].
  destruct (String.eqb_spec k k2) as [->|Hn]; intros E; [inversion E; left; reflexivity|right; apply IH; exact E].
Qed.

(* every path of length at most fuel that leads somewhere is enumerated *)
Lemma paths_complete fuel : forall j q v, get q j = Some v -> length q <= fuel -> In q (paths fuel j).
Proof.
  induction fuel as [|n IH]; intros j q v Hg Hl.
  - destruct q; [left; reflexivity|cbn in Hl; lia].
  - rewrite paths_S. destruct q as [|[k|i] q]; [left; reflexivity| |]; right; cbn in Hl.
    + destruct j as [| | | |l|kvs]; try discriminate Hg. rewrite get_key in Hg.
      destruct (lookup k kvs) as [w|] eqn:El; [|discriminate Hg].
      apply in_flat_map. exists (k, w). split; [apply lookup_in; exact El|].
      cbn [fst snd]. apply in_map. apply (IH w q v Hg). lia.
    + destruct j as [| | | |l|kvs]; try discriminate Hg. cbn [get] in Hg.
      destruct (nth_error l i) as [w|] eqn:En; [|discriminate Hg].
      apply (paths_arr_complete n q w l 0 i En). apply (IH w q v Hg). lia.
Qed.

(* ---------------------------------------------------------------- the preservation oracle *)
Theorem preserved_b_iff fuel before after : preserved_b fuel before after = true <-> preserved_P fuel before after.
Proof.
  unfold preserved_b, preserved_P. rewrite forallb_forall. split.
  - intros H q Hl Ho.
    assert (In q (paths fuel before ++ paths fuel after)%list \/ (get q before = None /\ get q after = None)) as [Hin|[-> ->]].
    { destruct (get q before) as [v|] eqn:Eb; [left; apply in_or_app; left; exact (paths_complete fuel before q v Eb Hl)|].
      destruct (get q after) as [v|] eqn:Ea; [left; apply in_or_app; right; exact (paths_complete fuel after q v Ea Hl)|].
      right. split; reflexivity. }
    + specialize (H q Hin). rewrite Ho in H. cbn in H. apply ojson_eqb_eq. exact H.
    + reflexivity.
  - intros H q Hin. destruct (outside_section q) eqn:Eo; [|reflexivity]. cbn. apply ojson_eqb_eq.
    apply H; [|exact Eo]. apply in_app_or in Hin. destruct Hin as [Hin|Hin]; exact (paths_len fuel _ q Hin).
Qed.

(* no path that leads somewhere is longer than the document is deep *)
Definition depth_arr := fix go (l : list json) : nat := match l with [] => 0 | v :: r => Nat.max (depth v) (go r) end.
Definition depth_obj := fix go (l : list (string * json)) : nat :=
  match l with [] => 0 | (_, v) :: r => Nat.max (depth v) (go r) end.
Lemma depth_arr_in l v : In v l -> depth v <= depth_arr l.
Proof.
  induction l as [|w r IH]; [contradiction|]. intros [->|H].
  - change (depth_arr (v :: r)) with (Nat.max (depth v) (depth_arr r)). lia.
  - change (depth_arr (w :: r)) with (Nat.max (depth w) (depth_arr r)). specialize (IH H). lia.
Qed.
Lemma depth_obj_in l k v : In (k, v) l -> depth v <= depth_obj l.
Proof.
  induction l as [|[k2 w] r IH]; [contradiction|]. intros [E|H].
  - inversion E; subst. change (depth_obj ((k, v) :: r)) with (Nat.max (depth v) (depth_obj r)). lia.
  - change (depth_obj ((k2, w) :: r)) with (Nat.max (depth w) (depth_obj r)). specialize (IH H). lia.
Qed.
Lemma get_depth q : forall j v, get q j = Some v -> length q <= depth j.
Proof.
  induction q as [|[k|i] q IH]; intros j v Hg; [cbn; lia| |].
  - destruct j as [| | | |l|kvs]; try discriminate Hg. rewrite get_key in Hg.
    destruct (lookup k kvs) as [w|] eqn:El; [|discriminate Hg].
    change (depth (JObj kvs)) with (S (depth_obj kvs)). cbn [length].
    pose proof (depth_obj_in kvs k w (lookup_in k kvs w El)). specialize (IH w v Hg). lia.
  - destruct j as [| | | |l|kvs]; try discriminate Hg. cbn [get] in Hg.
    destruct (nth_error l i) as [w|] eqn:En; [|discriminate Hg].
    change (depth (JArr l)) with (S (depth_arr l)). cbn [length].
    pose proof (depth_arr_in l w (nth_error_In l i En)). specialize (IH w v Hg). lia.
Qed.

(* with fuel above the depth of both documents the oracle decides preservation at every path *)
Theorem preserved_b_iff_all fuel before after : depth before <= fuel -> depth after <= fuel ->
  (preserved_b fuel before after = true <-> preserved_all_P before after).
Proof.
  intros Hb Ha. rewrite preserved_b_iff. unfold preserved_P, preserved_all_P. split.
  - intros H q Ho. destruct (get q before) as [v|] eqn:Eb.
    + rewrite <- Eb. apply H; [|exact Ho]. pose proof (get_depth q before v Eb). lia.
    + destruct (get q after) as [v|] eqn:Ea; [|reflexivity].
      rewrite <- Ea, <- Eb. apply H; [|exact Ho]. pose proof (get_depth q after v Ea). lia.
  - intros H q _ Ho. exact (H q Ho).
Qed.

(* the model passes the preservation oracle: every document, every settings value, any fuel *)
Theorem oracle_preserved_model fuel c doc doc' : save_doc c doc = Some doc' -> preserved_b fuel doc doc' = true.
Proof.
  intros Hs. apply preserved_b_iff. intros q _ Ho. symmetry. exact (preserve c doc doc' q Hs Ho).
Qed.

(* ---------------------------------------------------------------- the library-level oracle *)
Theorem lib_ok_b_iff f c dref after l : lib_ok_b f c dref after l = true <-> lib_ok_P f c dref after l.
Proof.
  unfold lib_ok_b, lib_ok_P. destruct (saveable dref).
  - destruct after as [a|].
    + rewrite andb_true_iff, preserved_b_iff, roundtrip_lres_b_iff. split.
      * intros [H1 H2]. exists a. split; [reflexivity|]. split; assumption.
      * intros (a2 & E & H1 & H2). inversion E; subst a2. split; assumption.
    + split; [discriminate|]. intros (a & E & _). discriminate E.
  - destruct after; split; intros E; try discriminate E; reflexivity.
Qed.

Lemma validate_normalise f c : validate f (normalise c) = validate f c.
Proof. reflexivity. Qed.

(* save then load in the model, judged by the whole library oracle *)
Theorem oracle_lib_model f c d :
  let after := save_doc c d in
  let f' := match after with Some d' => fs_put f "tauri.conf.json" (NDoc (Some d')) | None => f end in
  lib_ok_b f' c d after (from_tauri_config f' "tauri.conf.json") = true.
Proof.
  cbv zeta. destruct (save_doc c d) as [d'|] eqn:Es.
  - unfold lib_ok_b.
    assert (saveable d = true) as ->.
    { destruct (saveable d) eqn:E; [reflexivity|]. apply (save_refused_iff c) in E. congruence. }
    rewrite (oracle_preserved_model 40 c d d' Es). cbn [andb].
    apply roundtrip_lres_b_iff. unfold roundtrip_lres_P, from_tauri_config.
    rewrite fs_get_put_same. rewrite (roundtrip c d d' Es). rewrite validate_normalise.
    destruct (validate _ c); reflexivity.
  - unfold lib_ok_b. apply (save_refused_iff c) in Es. rewrite Es. reflexivity.
Qed.

(* ---------------------------------------------------------------- the precedence oracles *)
Lemma ran_ok_iff f e o :
  match o with
  | ORan e' => eff_eqb e e'
  | ONoCommands => match fs_get f (e_project e) with Some NProj => false | _ => true end
  | ORejected _ => false
  end = true <-> ran_ok_P f e o.
Proof.
  destruct o as [u| |e']; cbn [ran_ok_P].
  - split; [discriminate|contradiction].
  - destruct (fs_get f (e_project e)) as [[| | |]|]; split; intros H; try discriminate; try reflexivity.
    exfalso. apply H. reflexivity.
  - apply eff_eqb_iff.
Qed.

Lemma rejected_iff o : match o with ORejected true => true | _ => false end = true <-> o = ORejected true.
Proof. destruct o as [[|]| |e]; split; intros E; try discriminate E; reflexivity. Qed.

Theorem generate_ok_b_iff f fl o : generate_ok_b f fl o = true <-> generate_ok_P f fl o.
Proof.
  unfold generate_ok_b, generate_ok_P. cbv zeta.
  destruct (spec_invalid f (spec_eff f fl)); [apply rejected_iff|apply ran_ok_iff].
Qed.

Theorem generate_c_ok_b_iff f fl p o : generate_c_ok_b f fl p o = true <-> generate_c_ok_P f fl p o.
Proof.
  unfold generate_c_ok_b, generate_c_ok_P. cbv zeta.
  destruct (fs_get f p) as [[| |[d|]|]|]; try apply rejected_iff.
  destruct (from_flat d); [|apply rejected_iff].
  destruct (spec_invalid f (spec_eff_c fl d)); [apply rejected_iff|apply ran_ok_iff].
Qed.

(* the model passes the precedence oracle for every set of files and every flag set; a
   refusal of the model leaves the file system as it was, which is what ORejected true says *)
Theorem oracle_generate_model f fl :
  generate_ok_b f fl (obs_of_result (run_generate f fl)) = true
  /\ (forall e f', run_generate f fl = RReject e f' -> f' = f).
Proof.
  split.
  - apply generate_ok_b_iff. unfold generate_ok_P. pose proof (generate_spec f fl) as H.
    destruct (spec_invalid f (spec_eff f fl)).
    + destruct H as [e ->]. reflexivity.
    + destruct H as [[-> Hn]|(f' & -> & _)]; cbn [obs_of_result ran_ok_P]; [exact Hn|reflexivity].
  - intros e f' H. pose proof (generate_spec f fl) as Hs.
    destruct (spec_invalid f (spec_eff f fl)).
    + destruct Hs as [e2 E]. rewrite E in H. inversion H. reflexivity.
    + destruct Hs as [[E _]|(f2 & E & _)]; rewrite E in H; discriminate H.
Qed.

Theorem oracle_generate_c_model f fl p :
  generate_c_ok_b f fl p (obs_of_result (run_generate_c f fl p)) = true.
Proof.
  apply generate_c_ok_b_iff. unfold generate_c_ok_P.
  destruct (fs_get f p) as [[| |[d|]|]|] eqn:Eg;
    try (unfold run_generate_c, from_file_unvalidated; rewrite Eg; reflexivity).
  destruct (from_flat d) as [c0|] eqn:Ed.
  - pose proof (generate_c_spec f fl p d c0 Eg Ed) as H.
    destruct (spec_invalid f (spec_eff_c fl d)).
    + destruct H as [e ->]. reflexivity.
    + destruct H as [[-> Hn]|(f' & -> & _)]; cbn [obs_of_result ran_ok_P]; [exact Hn|reflexivity].
  - unfold run_generate_c, from_file_unvalidated. rewrite Eg, Ed. reflexivity.
Qed.

(* ---------------------------------------------------------------- the build-script oracle *)
Lemma eff_eqb_build_refl e : eff_eqb_build e e = true.
Proof. unfold eff_eqb_build. rewrite !String.eqb_refl, !Bool.eqb_reflx. reflexivity. Qed.

(* the model of the build script, project detection included, passes its oracle wherever
   the oracle does not demand a refusal (that is outside C19-9 and with usable settings) *)
Theorem oracle_build_model f : build_invalid_detect f = false ->
  build_ok_detect_b f (obs_of_result (run_build_detect f)) = true.
Proof.
  intros Hi. unfold build_ok_detect_b. rewrite Hi. unfold build_invalid_detect in Hi.
  unfold run_build_detect.
  destruct (build_root f) as [r|] eqn:Hr; [|reflexivity].
  apply orb_false_iff in Hi. destruct Hi as [Hk _].
  pose proof Hk as Hk2. unfold kf_build_fallback_detect in Hk2. rewrite Hr in Hk2.
  pose proof (build_precedence_at f _ _ Hk2) as Hp.
  assert (spec_eff_build_detect f = spec_eff_build_at f (build_conf_path f r) (r ++ "typegen.json")) as Hs
    by (unfold spec_eff_build_detect; rewrite Hr; reflexivity).
  rewrite Hs, <- Hp. cbv zeta.
  set (c := build_config_at f (build_conf_path f r) (r ++ "typegen.json")).
  cbn [eff_of e_project].
  destruct (fs_get f (project_path c)) as [[| | |]|] eqn:Eg; cbn [obs_of_result]; try rewrite Eg; try reflexivity.
  apply eff_eqb_build_refl.
Qed.

(* ---------------------------------------------------------------- the init oracles *)
Theorem init_ok_b_iff f il bref o after : init_ok_b f il bref o after = true <-> init_ok_P f il bref o after.
Proof.
  unfold init_ok_b, init_ok_P. destruct (init_invalid f il); [apply rejected_iff|].
  destruct (fs_get f (init_target il)) as [[| |[d|]|]|]; try apply rejected_iff.
  destruct (saveable d); [|apply rejected_iff].
  assert (forall a, preserved_b 40 bref a && roundtrip_b (init_config il) (load_doc a) = true <->
                    preserved_P 40 bref a /\ load_doc a = Some (normalise (init_config il))) as Ha.
  { intros a. rewrite andb_true_iff, preserved_b_iff, roundtrip_b_iff. reflexivity. }
  destruct o as [u| |e].
  - split; [discriminate|contradiction].
  - destruct after as [a|].
    + rewrite Ha. split; [intros H; exists a; split; [reflexivity|exact H]|intros (a2 & E & H); inversion E; subst; exact H].
    + split; [discriminate|intros (a2 & E & _); discriminate E].
  - destruct after as [a|].
    + rewrite Ha. split; [intros H; exists a; split; [reflexivity|exact H]|intros (a2 & E & H); inversion E; subst; exact H].
    + split; [discriminate|intros (a2 & E & _); discriminate E].
Qed.

Theorem init_file_ok_b_iff f il force o after :
  init_file_ok_b f il force o after = true <-> init_file_ok_P f il force o after.
Proof.
  unfold init_file_ok_b, init_file_ok_P. cbv zeta. destruct (init_invalid f il); [apply rejected_iff|].
  destruct (fs_exists f (or_else (i_output il) "tauri.conf.json") && negb force); [apply rejected_iff|].
  destruct o as [u| |e].
  - rewrite andb_true_iff, negb_true_iff. reflexivity.
  - destruct after as [a|].
    + rewrite flat_roundtrip_b_iff. split; [intros H; exists a; split; [reflexivity|exact H]|intros (a2 & E & H); inversion E; subst; exact H].
    + split; [discriminate|intros (a2 & E & _); discriminate E].
  - destruct after as [a|].
    + rewrite flat_roundtrip_b_iff. split; [intros H; exists a; split; [reflexivity|exact H]|intros (a2 & E & H); inversion E; subst; exact H].
    + split; [discriminate|intros (a2 & E & _); discriminate E].
Qed.

(* the generation that follows a successful save of init is never refused: its settings
   were validated against the same paths, and writing a document removes no path *)
Lemma fs_exists_put f t n p : fs_exists f p = true -> fs_exists (fs_put f t n) p = true.
Proof.
  unfold fs_exists. destruct (String.eqb_spec (norm p) (norm t)) as [E|Hn].
  - intros _. unfold fs_get, fs_put. rewrite E. rewrite lookup_insert_same. reflexivity.
  - rewrite (fs_get_put_other f t p n Hn). exact (fun H => H).
Qed.

Lemma init_generation_runs f il t n : validate f (init_config il) = None ->
  exists e f', (run_generate (fs_put f t n) (init_flags il) = RNoCommands e f' \/ run_generate (fs_put f t n) (init_flags il) = RRun e f').
Proof.
  intros Hv. unfold run_generate. set (f1 := fs_put f t n).
  set (c := apply_flags (init_flags il) (search f1 cands)).
  assert (validate f1 c = None) as ->.
  { unfold validate in *. change (validation_library c) with (init_lib il). change (project_path c) with (init_project il).
    cbn [init_config validation_library project_path] in Hv.
    destruct (lib_ok (init_lib il)); [|discriminate].
    destruct (fs_exists f (init_project il)) eqn:Ee; [|discriminate].
    unfold f1. rewrite (fs_exists_put f t n _ Ee). reflexivity. }
  destruct (fs_get f1 (project_path c)) as [[| | |]|]; eexists; eexists; try (left; reflexivity). right. reflexivity.
Qed.

Lemma doc_at_result_fs r t :
  doc_at r t = match fs_get (result_fs r) t with Some (NDoc (Some d)) => Some d | _ => None end.
Proof. destruct r; reflexivity. Qed.

(* init -o <standalone file> in the model passes its oracle for every file system, flag set and force *)
Theorem oracle_init_file_model f il force :
  norm (init_generated il) <> norm (or_else (i_output il) "tauri.conf.json") ->
  init_file_ok_b f il force (obs_of_result (run_init_file f il force))
    (doc_at (run_init_file f il force) (or_else (i_output il) "tauri.conf.json")) = true.
Proof.
  intros Hn. apply init_file_ok_b_iff. unfold init_file_ok_P. cbv zeta.
  destruct (init_invalid f il) eqn:Hi.
  { destruct (init_file_reject_first f il force Hi) as [->|[e ->]]; reflexivity. }
  destruct (fs_exists f (or_else (i_output il) "tauri.conf.json") && negb force) eqn:He.
  { unfold run_init_file. rewrite He. reflexivity. }
  destruct (init_writable f (or_else (i_output il) "tauri.conf.json")) eqn:Hw.
  - destruct (init_file_document f il force Hi He Hw Hn) as [Hd Hr].
    assert (validate f (init_config il) = None) as Hv.
    { destruct (validate f (init_config il)) eqn:E; [|reflexivity].
      assert (init_invalid f il = true) by (apply init_invalid_validate; congruence). congruence. }
    assert (doc_at (run_init_file f il force) (or_else (i_output il) "tauri.conf.json") = Some (flat_json (init_config il))) as Hdoc.
    { rewrite doc_at_result_fs, Hd. reflexivity. }
    rewrite Hdoc. unfold run_init_file. rewrite He, Hv, Hw.
    destruct (init_generation_runs f il (or_else (i_output il) "tauri.conf.json") (NDoc (Some (flat_json (init_config il)))) Hv)
      as (e & f' & [->| ->]); cbn [obs_of_result]; eexists; (split; [reflexivity|exact Hr]).
  - destruct (init_file_unwritable f il force Hw) as [->|[e ->]]; cbn [obs_of_result]; split; reflexivity.
Qed.

(* init on a tauri.conf.json target in the model passes its oracle (the reference reading
   being the document itself) *)
Theorem oracle_init_model f il :
  norm (init_generated il) <> norm (init_target il) ->
  forall bref, (forall d, fs_get f (init_target il) = Some (NDoc (Some d)) -> bref = d) ->
  init_ok_b f il bref (obs_of_result (run_init f il)) (doc_at (run_init f il) (init_target il)) = true.
Proof.
  intros Hn bref Hb. apply init_ok_b_iff. unfold init_ok_P.
  destruct (init_invalid f il) eqn:Hi.
  { destruct (init_reject_first f il Hi) as [e ->]. reflexivity. }
  assert (validate f (init_config il) = None) as Hv.
  { destruct (validate f (init_config il)) eqn:E; [|reflexivity].
    assert (init_invalid f il = true) by (apply init_invalid_validate; congruence). congruence. }
  destruct (fs_get f (init_target il)) as [[| |[d|]|]|] eqn:Eg;
    try (unfold run_init; rewrite Hv, Eg; reflexivity).
  rewrite (Hb d eq_refl).
  destruct (save_doc (init_config il) d) as [d'|] eqn:Es.
  - assert (saveable d = true) as ->.
    { destruct (saveable d) eqn:E; [reflexivity|]. apply (save_refused_iff (init_config il)) in E. congruence. }
    pose proof (init_document f il d d' Hi Eg Es Hn) as Hd.
    assert (doc_at (run_init f il) (init_target il) = Some d') as Hdoc.
    { rewrite doc_at_result_fs, Hd. reflexivity. }
    rewrite Hdoc. unfold run_init. rewrite Hv, Eg, Es.
    destruct (init_generation_runs f il (init_target il) (NDoc (Some d')) Hv) as (e & f' & [->| ->]); cbn [obs_of_result];
      exists d'; (split; [reflexivity|]); (split; [apply preserved_b_iff; exact (oracle_preserved_model 40 _ d d' Es)|exact (roundtrip _ d d' Es)]).
  - apply (save_refused_iff (init_config il)) in Es as Hs. rewrite Hs. unfold run_init. rewrite Hv, Eg, Es. reflexivity.
Qed.
