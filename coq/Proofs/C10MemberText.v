(* C10 deepening round 7: the member-level statements with both sides read from the printed text of the
   member line (schema expression with the template's second .optional(); declared type). *)
From Coq Require Import String Ascii.
From Coq Require Import List Arith Lia Bool.
Require Import TT.Model.Str TT.Proofs.StrFacts TT.Model.TypeParse TT.Spec.TsLex TT.Spec.TsModule TT.Spec.TsObs.
Require Import TT.Spec.C10Shape TT.Model.C10Zod TT.Model.C10ZodText TT.Spec.C10Check TT.Proofs.C10Proofs TT.Proofs.C10Items.
Require Import TT.Proofs.C10ParseTy TT.Proofs.C10LexTy TT.Proofs.C10ParseEx TT.Proofs.C10LexEx TT.Proofs.LexFacts.
Import ListNotations.
Local Open Scope list_scope.

Section WithMap.
  Variable m : mapping.
  Hypothesis Hm : map_ok m = true.

  Lemma parse_field_text f : dom (m_ty f) = true -> enest (zex_of m (m_ty f) false) < 64 ->
    parse_ex (zod_field_text m f) = Some (snd (zod_field m f)).
  Proof. intros Hd Hn. unfold zod_field_text, zod_field, build_schema. cbn [snd]. apply parse_build; assumption. Qed.

  Lemma parse_param_text f : dom (m_ty f) = true -> enest (zex_of m (m_ty f) false) < 64 ->
    parse_ex (zod_param_text m f) = Some (snd (zod_param m f)).
  Proof.
    intros Hd Hn. unfold zod_param_text, zod_param, build_param_schema. cbn [snd]. destruct (m_opt f).
    - assert (lexes B (zbuild m (m_ty f) false ++ L ".optional()") (pe (link (zex_of m (m_ty f) false) "optional"))) as Hl.
      { rewrite pe_link. apply (lexes_app B B); [apply LZ; assumption|apply lit_optional|intros r _; reflexivity]. }
      unfold parse_ex. rewrite (lexes_module B _ _ Hl I). rewrite has_err_clean by apply clean_pe.
      rewrite pexpr_pe; [reflexivity| |].
      + unfold link. cbn [nfx]. split; [reflexivity|]. split; [|exact I]. cbn [nfx]. split; [apply chain_zex|].
        split; [apply nfx_zex; assumption|reflexivity].
      + unfold link. cbn [enest fold_right]. lia.
    - rewrite app_nil_r. apply parse_build; assumption.
  Qed.

  Lemma parse_plain_member_text f : dom (m_ty f) = true -> nest (ts_ty_of m (m_ty f)) < TYF ->
    parse_ty (plain_member_text m f) = Some (snd (plain_member m f)).
  Proof. intros Hd Hn. unfold plain_member_text, plain_member. cbn [snd]. apply parse_plain; assumption. Qed.

  (* both sides of one member read from the printed line *)
  Lemma field_agree_text f : clean (m_ty f) -> flag_ok f ->
    nest (ts_ty_of m (m_ty f)) < TYF -> enest (zex_of m (m_ty f) false) < 64 ->
    exists a b, parse_ex (zod_field_text m f) = Some a /\ parse_ty (plain_member_text m f) = Some b /\
                shape_agree (zshape a) (mk_opt false (m_opt f) (tshape b)) = true.
  Proof.
    intros Hc Hf Hn He. pose proof Hc as [Hd _]. exists (snd (zod_field m f)), (snd (plain_member m f)).
    split; [apply parse_field_text; assumption|]. split; [apply parse_plain_member_text; assumption|]. exact (field_agree m Hm f Hc Hf).
  Qed.
  Lemma param_agree_text f : clean (m_ty f) -> flag_ok f ->
    nest (ts_ty_of m (m_ty f)) < TYF -> enest (zex_of m (m_ty f) false) < 64 ->
    exists a b, parse_ex (zod_param_text m f) = Some a /\ parse_ty (plain_member_text m f) = Some b /\
                shape_agree (zshape a) (mk_opt false (m_opt f) (tshape b)) = true.
  Proof.
    intros Hc Hf Hn He. pose proof Hc as [Hd _]. exists (snd (zod_param m f)), (snd (plain_member m f)).
    split; [apply parse_param_text; assumption|]. split; [apply parse_plain_member_text; assumption|]. exact (param_agree m Hm f Hc Hf).
  Qed.
End WithMap.
