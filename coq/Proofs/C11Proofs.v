(* C11 lemmas: escape/read round trip, bare schemas, independence of fields, refutation witnesses,
   and the reading-back of rendered chains. *)
From Coq Require Import String Ascii List Arith Lia Bool NArith ZArith.
Require Import TT.Model.Str TT.Model.C11Validator TT.Spec.C11Spec.
Import ListNotations.
Local Open Scope char_scope.
Local Open Scope list_scope.

(* ------------------------------------------------------------------ escape_js_string, character-wise *)
Definition esc1 (c : ascii) : str :=
  if Ascii.eqb c bs then [bs; bs] else if Ascii.eqb c dq then [bs; dq] else if Ascii.eqb c nl then [bs; "n"]
  else if Ascii.eqb c cr then [bs; "r"] else if Ascii.eqb c tab then [bs; "t"] else [c].

Lemma flat_map_flat_map {A} (f g : A -> list A) (s : list A) :
  flat_map g (flat_map f s) = flat_map (fun x => flat_map g (f x)) s.
Proof. induction s as [|a s IH]; cbn [flat_map]; auto. rewrite flat_map_app, IH. reflexivity. Qed.

Lemma escape_charwise s : escape_js_string s = flat_map esc1 s.
Proof. unfold escape_js_string, replace1. rewrite !flat_map_flat_map. apply flat_map_ext. intros c.
  unfold esc1.
  destruct (Ascii.eqb_spec c bs) as [->|H1]; [reflexivity|].
  destruct (Ascii.eqb_spec c dq) as [->|H2]; [reflexivity|].
  destruct (Ascii.eqb_spec c nl) as [->|H3]; [reflexivity|].
  destruct (Ascii.eqb_spec c cr) as [->|H4]; [reflexivity|].
  destruct (Ascii.eqb_spec c tab) as [->|H5]; [reflexivity|].
  cbn [flat_map app]. rewrite (proj2 (Ascii.eqb_neq c dq) H2). cbn [flat_map app].
  rewrite (proj2 (Ascii.eqb_neq c nl) H3). cbn [flat_map app]. rewrite (proj2 (Ascii.eqb_neq c cr) H4). cbn [flat_map app].
  rewrite (proj2 (Ascii.eqb_neq c tab) H5). reflexivity. Qed.

Lemma js_read_esc e x rest :
  js_esc e = Some x ->
  js_read dq (bs :: e :: rest) = match js_read dq rest with Some (v, r) => Some (x :: v, r) | None => None end.
Proof. intros H. cbn [js_read]. change (Ascii.eqb bs dq) with false. change (Ascii.eqb bs nl || Ascii.eqb bs cr) with false.
  change (Ascii.eqb bs bs) with true. cbv iota. rewrite H. destruct (js_read dq rest) as [[v r]|]; reflexivity. Qed.

Lemma js_read_plain c rest :
  Ascii.eqb c dq = false -> Ascii.eqb c nl = false -> Ascii.eqb c cr = false -> Ascii.eqb c bs = false ->
  js_read dq (c :: rest) = match js_read dq rest with Some (v, r) => Some (c :: v, r) | None => None end.
Proof. intros H1 H2 H3 H4. cbn [js_read]. rewrite H1, H2, H3, H4. reflexivity. Qed.

(* reading the escaped body up to the closing quote gives back the message and the text after the quote *)
Lemma js_read_escape : forall m rest, js_read dq (escape_js_string m ++ dq :: rest) = Some (m, rest).
Proof. intros m rest. rewrite escape_charwise. induction m as [|c m IH].
  - cbn [flat_map app js_read]. change (Ascii.eqb dq dq) with true. reflexivity.
  - cbn [flat_map]. unfold esc1 at 1.
    destruct (Ascii.eqb_spec c bs) as [->|H1].
    { cbn [app]. rewrite (js_read_esc bs bs) by reflexivity. rewrite IH. reflexivity. }
    destruct (Ascii.eqb_spec c dq) as [->|H2].
    { cbn [app]. rewrite (js_read_esc dq dq) by reflexivity. rewrite IH. reflexivity. }
    destruct (Ascii.eqb_spec c nl) as [->|H3].
    { cbn [app]. rewrite (js_read_esc "n" nl) by reflexivity. rewrite IH. reflexivity. }
    destruct (Ascii.eqb_spec c cr) as [->|H4].
    { cbn [app]. rewrite (js_read_esc "r" cr) by reflexivity. rewrite IH. reflexivity. }
    destruct (Ascii.eqb_spec c tab) as [->|H5].
    { cbn [app]. rewrite (js_read_esc "t" tab) by reflexivity. rewrite IH. reflexivity. }
    cbn [app]. rewrite js_read_plain by (apply Ascii.eqb_neq; auto). rewrite IH. reflexivity.
Qed.

Theorem escape_roundtrip : forall m : str, read_str (dq :: escape_js_string m ++ [dq]) = Some (m, []).
Proof. intros m. unfold read_str. change (Ascii.eqb dq dq || Ascii.eqb dq sq) with true. cbv iota.
  apply js_read_escape. Qed.

(* ------------------------------------------------------------------ no validators: the bare schema *)
Definition no_validate (attrs : list attr) : bool :=
  forallb (fun a => match a with ANotValidate => true | _ => false end) attrs.

Lemma va_fold_none dispf : forall attrs v,
  no_validate attrs = true -> va_fold dispf v false (map attr_view attrs) = Ok None.
Proof. induction attrs as [|a attrs IH]; intros v H; [reflexivity|].
  cbn [no_validate forallb] in H. apply andb_true_iff in H as [Ha Hr].
  destruct a; try discriminate. cbn [map attr_view va_fold]. apply IH. exact Hr. Qed.

Lemma render_none : forall t skip key,
  key = false -> render_type t None skip key = bare_schema t.
Proof. induction t as [p|t IH|t IH|n]; intros skip key ->; cbn [render_type bare_schema].
  - unfold render_primitive, apply_string_validators, apply_range_validator.
    destruct (str_eqb p (L "string")); [destruct skip; reflexivity|].
    destruct (str_eqb p (L "number")); [destruct skip; reflexivity|]. reflexivity.
  - rewrite IH by reflexivity. reflexivity.
  - rewrite IH by reflexivity. unfold apply_length_validator. destruct skip; reflexivity.
  - reflexivity. Qed.

Theorem none_bare dispf : forall f,
  no_validate (f_attrs f) = true ->
  field_chain dispf f = Ok (None, bare_schema (tstruct_of (f_ty f))).
Proof. intros f H. unfold field_chain, parse_validator_attributes. rewrite va_fold_none by exact H.
  cbn [obind]. unfold build_schema. rewrite render_none by reflexivity. reflexivity. Qed.

(* ------------------------------------------------------------------ fields are processed independently *)
Theorem chain_of_own_field dispf : forall fs i,
  nth_error (struct_chains dispf fs) i = option_map (field_chain dispf) (nth_error fs i).
Proof. intros fs i. unfold struct_chains. apply nth_error_map. Qed.

Theorem chain_ignores_other_fields dispf : forall fs gs i f,
  nth_error fs i = Some f -> nth_error gs i = Some f ->
  nth_error (struct_chains dispf fs) i = nth_error (struct_chains dispf gs) i.
Proof. intros fs gs i f H1 H2. rewrite !chain_of_own_field, H1, H2. reflexivity. Qed.

(* ------------------------------------------------------------------ refutation witnesses, one per class *)
(* an f64 stand-in that is exact on unsigned integer texts (all the witnesses need), and the one rounding
   IEEE double performs on 2^53 + 1 *)
Definition dispf_small (s : str) : option str :=
  if str_eqb s (L "9007199254740993") then Some (L "9007199254740992")
  else match s with [] => None | _ => if forallb is_digit s then Some (show_N (n_of_digits s)) else None end.

Definition fails_b (f : field) : bool :=
  in_domain f &&
  match field_chain dispf_small f with Panic => true | Ok (_, chain) => negb (c11_field_ok f chain) end.
(* in the domain, and the faithful model panics or emits a chain the oracle rejects *)
Definition fails (f : field) : Prop := fails_b f = true.
Definition fld (t : ty) (items : list item) : field := {| f_ty := t; f_attrs := [AValidate items] |}.
Definition m_ (s : string) : arg := AMsg (dq :: L s ++ [dq]) (L s).       (* a literal without escapes *)
Definition n_ (s : string) : num := Num false (L s).

Definition w1 := fld TyNum [IRange [AMin (Num true (L "5")); AMax (n_ "10")]].
Definition w2 := fld TyString [ILength [AMin (n_ "1"); AMax (n_ "10"); m_ "bad (len)"]].
Definition w3 := fld TyString [ILength [AMin (n_ "1"); m_ "not an email"]].
Definition w4 := fld TyString [ILength [m_ "at min = 3, ok"; AMax (n_ "5")]].
Definition e_acute : str := [ascii_of_N 195; ascii_of_N 169].
Definition w5 := fld TyString [ILength [AMin (n_ "1"); AMsg (dq :: e_acute ++ [dq]) e_acute]].
Definition w5b := fld TyString [ILength [AMin (n_ "1"); AMsg (dq :: e_acute ++ L "a""") (e_acute ++ L "a")]].
Definition w6 := fld TyString [ILength [AMin (n_ "1"); AMsg (L """a\\nb""") (L "a\nb")]].
Definition w7 := fld (TyVec (TyOpt TyString)) [ILength [AMin (n_ "2")]].
Definition w8 := fld TyString [IEmail (Some [m_ "m"])].
Definition w9 := fld TyNum [IRange [AMin (n_ "9007199254740993")]].
Definition w10 := fld TyString [ILength [AEqual (n_ "5")]].

Lemma kf1_refuted : kf_neg_bound w1 = true /\ fails w1.
Proof. split; vm_compute; reflexivity. Qed.
Lemma kf2_refuted : kf_paren_in_literal w2 = true /\ fails w2.
Proof. split; vm_compute; reflexivity. Qed.
Lemma kf3_refuted : kf_email_url_substring w3 = true /\ fails w3.
Proof. split; vm_compute; reflexivity. Qed.
Lemma kf4_refuted : kf_keyword_in_text w4 = true /\ fails w4.
Proof. split; vm_compute; reflexivity. Qed.
(* repaired (char_indices): a multi-byte message is neither cut nor a panic; it is reproduced exactly *)
Definition holds_b (f : field) : bool :=
  in_domain f && lits_consistent f && negb (kf_any dispf_small f) &&
  match field_chain dispf_small f with Panic => false | Ok (_, chain) => c11_field_ok f chain end.
Lemma fixed5_ok : holds_b w5 = true /\ holds_b w5b = true.
Proof. split; vm_compute; reflexivity. Qed.
Lemma kf6_refuted : kf_escape_chain w6 = true /\ fails w6.
Proof. split; vm_compute; reflexivity. Qed.
(* repaired (Optional arm passes skip_validation through): the bound stays on the array *)
Lemma fixed7_ok : holds_b w7 = true /\
  field_chain dispf_small w7 = Ok (Some {| v_length := Some {| c_min := Some (L "2"); c_max := None; c_msg := None |};
                                          v_range := None; v_email := false; v_url := false |},
                                   L "z.array(z.string().optional()).min(2)").
Proof. split; vm_compute; reflexivity. Qed.
Lemma kf8_refuted : kf_flag_message w8 = true /\ fails w8.
Proof. split; vm_compute; reflexivity. Qed.
Lemma kf9_refuted : kf_f64_inexact dispf_small w9 = true /\ fails w9.
Proof. split; vm_compute; reflexivity. Qed.

Lemma kf10_refuted : kf_length_equal w10 = true /\ fails w10.
Proof. split; vm_compute; reflexivity. Qed.

(* each witness lies in its own class only (the classes are independent triggers); the repaired ones in none *)
Lemma witnesses_separate :
  map (kf_flags dispf_small) [w1; w2; w3; w4; w6; w8; w9; w10] =
  [[true; false; false; false; false; false; false; false];
   [false; true; false; false; false; false; false; false];
   [false; false; true; false; false; false; false; false];
   [false; false; false; true; false; false; false; false];
   [false; false; false; false; true; false; false; false];
   [false; false; false; false; false; true; false; false];
   [false; false; false; false; false; false; true; false];
   [false; false; false; false; false; false; false; true]]
  /\ map (kf_any dispf_small) [w5; w5b; w7] = [false; false; false].
Proof. split; vm_compute; reflexivity. Qed.

(* the argument order and message text the seed C11-6 needs: message first, a word that is no keyword of
   the scanners (equal), then a bound - outside every class and exact on the faithful model *)
Definition g4 := fld (TyOpt TyString) [ILength [m_ "must not be equal to 5, or = 6"; ACode (L """size"""); AMax (n_ "5")]].
(* a clean field of each kind, for the non-vacuity examples *)
Definition g1 := fld (TyOpt TyString)
  [ILength [AMin (n_ "1"); AMax (n_ "50"); AMsg (L """say \""hi\"" \\ there (1, 2 = 3""") (L "say ""hi"" \ there (1, 2 = 3")]; IEmail None].
Definition g2 := fld TyNum [IRange [AMin (n_ "0"); AMax (n_ "100"); m_ "0 to 100"]].
Definition g3 := fld (TyVec TyString) [ILength [AMax (n_ "8")]; IOther (L "required") None].
Lemma clean_examples :
  forallb (fun f => in_domain f && negb (kf_any dispf_small f) &&
                    match field_chain dispf_small f with Ok (_, chain) => c11_field_ok f chain | Panic => false end)
          [g1; g2; g3; g4] = true.
Proof. vm_compute. reflexivity. Qed.

(* ------------------------------------------------------------------ reading back what schema_builder prints *)
Lemma starts_app : forall p r, starts p (p ++ r) = true.
Proof. induction p as [|a p IH]; intros r; cbn [starts app]; [reflexivity|]. rewrite Ascii.eqb_refl, IH. reflexivity. Qed.
Lemma skipn_app_len {A} : forall (p r : list A), skipn (List.length p) (p ++ r) = r.
Proof. induction p as [|a p IH]; intros r; cbn [skipn List.length app]; auto. Qed.
Lemma length_L : forall p : string, List.length (L p) = String.length p.
Proof. induction p as [|c p IH]; cbn; auto. Qed.

Lemma tok_skip : forall (p : string) s r, wtrim_l s = L p ++ r -> tok p s = Some r.
Proof. intros p s r H. unfold tok. rewrite H, starts_app, <- length_L, skipn_app_len. reflexivity. Qed.
Lemma tok_fail : forall (p : string) s t, wtrim_l s = t -> starts (L p) t = false -> tok p s = None.
Proof. intros p s t H1 H2. unfold tok. rewrite H1, H2. reflexivity. Qed.

Lemma span_app (p : ascii -> bool) : forall n c r,
  forallb p n = true -> p c = false -> span p (n ++ c :: r) = (n, c :: r).
Proof. induction n as [|x n IH]; intros c r Hn Hc; cbn [span app].
  - rewrite Hc. reflexivity.
  - cbn [forallb] in Hn. apply andb_true_iff in Hn as [Hx Hn]. rewrite Hx, (IH c r Hn Hc). reflexivity. Qed.

Lemma num_not_ws : forall x, is_num_char x = true -> is_ws x = false.
Proof. intros [[] [] [] [] [] [] [] []]; vm_compute; intros H; try reflexivity; discriminate H. Qed.

Definition num_text (n : str) : bool := negb (Nat.eqb (List.length n) 0) && forallb is_num_char n.

Lemma read_num_ok : forall n c r, num_text n = true -> is_num_char c = false ->
  read_num (n ++ c :: r) = Some (n, c :: r).
Proof. intros n c r Hn Hc. unfold num_text in Hn. apply andb_true_iff in Hn as [Hne Hall].
  destruct n as [|x n]; [discriminate Hne|]. unfold read_num.
  assert (Hx : is_ws x = false). { cbn [forallb] in Hall. apply andb_true_iff in Hall as [Hx _]. apply num_not_ws; exact Hx. }
  replace (wtrim_l ((x :: n) ++ c :: r)) with ((x :: n) ++ c :: r) by (cbn [app wtrim_l]; rewrite Hx; reflexivity).
  rewrite (span_app is_num_char (x :: n) c r Hall Hc). reflexivity. Qed.

Lemma read_msg_obj_ok : forall m rest,
  read_msg_obj (L " { message: """ ++ escape_js_string m ++ L """ }" ++ rest) = Some (m, rest).
Proof. intros m rest. unfold read_msg_obj.
  erewrite tok_skip by (cbn [L list_ascii_of_string app wtrim_l]; reflexivity).
  erewrite tok_skip by (cbn [L list_ascii_of_string app wtrim_l]; reflexivity).
  erewrite tok_skip by (cbn [L list_ascii_of_string app wtrim_l]; reflexivity).
  assert (Hw : forall t, wtrim_l (" " :: dq :: t) = dq :: t) by reflexivity.
  unfold dq in Hw. rewrite Hw. clear Hw.
  unfold read_str. change (Ascii.eqb """" dq || Ascii.eqb """" sq) with true. cbv iota.
  change ("""" :: " " :: "}" :: rest) with (dq :: L " }" ++ rest).
  rewrite js_read_escape.
  erewrite tok_skip by (cbn [L list_ascii_of_string app wtrim_l]; reflexivity). reflexivity. Qed.

Lemma read_bound_args_ok : forall n mo r, num_text n = true ->
  read_bound_args (n ++ with_msg mo ++ L ")" ++ r) = Some (n, mo, r).
Proof. intros n mo r Hn. unfold read_bound_args. destruct mo as [m|].
  - unfold with_msg.
    replace (n ++ (L ", { message: """ ++ escape_js_string m ++ L """ }") ++ L ")" ++ r)
      with (n ++ "," :: (L " { message: """ ++ escape_js_string m ++ L """ }" ++ L ")" ++ r))
      by (cbn [L list_ascii_of_string app]; rewrite <- !app_assoc; reflexivity).
    rewrite read_num_ok by (auto; reflexivity).
    erewrite tok_fail by reflexivity.
    erewrite tok_skip by reflexivity.
    rewrite read_msg_obj_ok.
    erewrite tok_skip by reflexivity. reflexivity.
  - cbn [with_msg app L list_ascii_of_string].
    rewrite read_num_ok by (auto; reflexivity).
    erewrite tok_skip by reflexivity. reflexivity. Qed.

(* the text schema_builder prints for one method *)
Definition show_meth (m : meth) : str :=
  match m with
  | MEmail _ => L ".email()" | MUrl _ => L ".url()"
  | MMin n mo => L ".min(" ++ n ++ with_msg mo ++ L ")"
  | MMax n mo => L ".max(" ++ n ++ with_msg mo ++ L ")"
  | MOptional => L ".optional()" end.
Definition meth_ok (m : meth) : bool :=
  match m with
  | MEmail None | MUrl None | MOptional => true
  | MEmail (Some _) | MUrl (Some _) => false
  | MMin n _ | MMax n _ => num_text n end.

Lemma read_meths_step : forall m f r, meth_ok m = true ->
  read_meths (S f) (show_meth m ++ r) =
  match read_meths f r with Some (ms, s) => Some (m :: ms, s) | None => None end.
Proof. intros m f r Hm. destruct m as [[x|]|[x|]|n mo|n mo|]; try discriminate Hm; cbn [show_meth meth_ok] in *.
  - reflexivity.
  - reflexivity.
  - replace ((L ".min(" ++ n ++ with_msg mo ++ L ")") ++ r) with ("." :: "m" :: "i" :: "n" :: "(" :: (n ++ with_msg mo ++ L ")" ++ r))
      by (cbn [L list_ascii_of_string app]; rewrite <- !app_assoc; reflexivity).
    cbn [read_meths]. erewrite tok_skip by reflexivity.
    change (span is_ident_char ("m" :: "i" :: "n" :: "(" :: (n ++ with_msg mo ++ L ")" ++ r)))
      with (L "min", "(" :: (n ++ with_msg mo ++ L ")" ++ r)).
    cbv iota beta. erewrite tok_skip by reflexivity.
    change (read_meth (L "min") (n ++ with_msg mo ++ L ")" ++ r))
      with (match read_bound_args (n ++ with_msg mo ++ L ")" ++ r) with Some (n0, m0, r0) => Some (MMin n0 m0, r0) | None => None end).
    rewrite read_bound_args_ok by exact Hm. reflexivity.
  - replace ((L ".max(" ++ n ++ with_msg mo ++ L ")") ++ r) with ("." :: "m" :: "a" :: "x" :: "(" :: (n ++ with_msg mo ++ L ")" ++ r))
      by (cbn [L list_ascii_of_string app]; rewrite <- !app_assoc; reflexivity).
    cbn [read_meths]. erewrite tok_skip by reflexivity.
    change (span is_ident_char ("m" :: "a" :: "x" :: "(" :: (n ++ with_msg mo ++ L ")" ++ r)))
      with (L "max", "(" :: (n ++ with_msg mo ++ L ")" ++ r)).
    cbv iota beta. erewrite tok_skip by reflexivity.
    change (read_meth (L "max") (n ++ with_msg mo ++ L ")" ++ r))
      with (match read_bound_args (n ++ with_msg mo ++ L ")" ++ r) with Some (n0, m0, r0) => Some (MMax n0 m0, r0) | None => None end).
    rewrite read_bound_args_ok by exact Hm. reflexivity.
  - reflexivity. Qed.

Lemma read_meths_show : forall ms f r, forallb meth_ok ms = true -> tok "." r = None ->
  read_meths (S (List.length ms + f)) (flat_map show_meth ms ++ r) = Some (ms, r).
Proof. induction ms as [|m ms IH]; intros f r Hok Hr.
  - cbn [flat_map app List.length plus read_meths]. rewrite Hr. reflexivity.
  - cbn [forallb] in Hok. apply andb_true_iff in Hok as [Hm Hms].
    cbn [flat_map List.length plus]. rewrite <- app_assoc. rewrite read_meths_step by exact Hm.
    rewrite IH by assumption. reflexivity. Qed.

(* the methods a parsed ValidatorAttributes value stands for *)
Definition cstr_meths (c : cstr) : list meth :=
  (match c_min c with Some n => [MMin n (c_msg c)] | None => [] end) ++
  (match c_max c with Some n => [MMax n (c_msg c)] | None => [] end).
Definition length_meths (v : vattrs) : list meth := match v_length v with Some c => cstr_meths c | None => [] end.
Definition string_meths (v : vattrs) : list meth :=
  (if v_email v then [MEmail None] else []) ++ (if v_url v then [MUrl None] else []) ++ length_meths v.
Definition number_meths (v : vattrs) : list meth := match v_range v with Some c => cstr_meths c | None => [] end.
Definition cstr_ok (c : cstr) : bool :=
  (match c_min c with Some n => num_text n | None => true end) && (match c_max c with Some n => num_text n | None => true end).
(* every printed bound is a plain number text (true of Display for u64 and for finite f64) *)
Definition va_ok (v : vattrs) : bool :=
  (match v_length v with Some c => cstr_ok c | None => true end) && (match v_range v with Some c => cstr_ok c | None => true end).

Lemma apply_cstr_show : forall s c, apply_cstr s c = s ++ flat_map show_meth (cstr_meths c).
Proof. intros s [[mn|] [mx|] msg]; unfold apply_cstr, cstr_meths; cbn [c_min c_max c_msg flat_map app show_meth];
  rewrite ?app_nil_r, <- ?app_assoc; reflexivity. Qed.
Lemma cstr_meths_ok : forall c, cstr_ok c = true -> forallb meth_ok (cstr_meths c) = true.
Proof. intros [[mn|] [mx|] msg]; unfold cstr_ok, cstr_meths; cbn [c_min c_max c_msg app forallb meth_ok]; intros H;
  rewrite ?andb_true_r in *; auto. Qed.

Definition opts (k : nat) (t : tstruct) : tstruct := Nat.iter k TsOpt t.
Lemma render_opts : forall k t v, render_type (opts k t) v false false =
  render_type t v false false ++ flat_map show_meth (repeat MOptional k).
Proof. induction k as [|k IH]; intros t v.
  - cbn [opts Nat.iter nat_rect repeat flat_map]. rewrite app_nil_r. reflexivity.
  - change (opts (S k) t) with (TsOpt (opts k t)). cbn [render_type]. rewrite IH.
    cbn [repeat]. rewrite repeat_cons, flat_map_app, <- app_assoc. reflexivity. Qed.

Lemma build_string : forall v k, build_schema (opts k (TsPrim (L "string"))) (Some v) =
  L "z.string()" ++ flat_map show_meth (string_meths v ++ repeat MOptional k).
Proof. intros v k. unfold build_schema. rewrite render_opts. cbn [render_type].
  unfold render_primitive. change (str_eqb (L "string") (L "string")) with true. cbv iota.
  unfold apply_string_validators, apply_length_validator, string_meths, length_meths.
  rewrite !flat_map_app, !app_assoc.
  destruct (v_email v), (v_url v), (v_length v) as [c|]; rewrite ?apply_cstr_show;
    cbn [flat_map app show_meth]; rewrite ?app_nil_r, <- ?app_assoc; reflexivity. Qed.
Lemma build_number : forall v k, build_schema (opts k (TsPrim (L "number"))) (Some v) =
  L "z.coerce.number()" ++ flat_map show_meth (number_meths v ++ repeat MOptional k).
Proof. intros v k. unfold build_schema. rewrite render_opts. cbn [render_type].
  unfold render_primitive. change (str_eqb (L "number") (L "string")) with false.
  change (str_eqb (L "number") (L "number")) with true. cbv iota.
  unfold apply_range_validator, number_meths. rewrite !flat_map_app, !app_assoc.
  destruct (v_range v) as [c|]; rewrite ?apply_cstr_show; cbn [flat_map app]; rewrite ?app_nil_r, <- ?app_assoc; reflexivity. Qed.
Lemma build_array_string : forall v k, build_schema (opts k (TsArr (TsPrim (L "string")))) (Some v) =
  L "z.array(z.string())" ++ flat_map show_meth (length_meths v ++ repeat MOptional k).
Proof. intros v k. unfold build_schema. rewrite render_opts. cbn [render_type].
  unfold render_primitive. change (str_eqb (L "string") (L "string")) with true. cbv iota.
  unfold apply_string_validators, apply_length_validator, length_meths. rewrite !flat_map_app, !app_assoc.
  destruct (v_length v) as [c|]; rewrite ?apply_cstr_show; cbn [flat_map app]; rewrite ?app_nil_r, <- ?app_assoc; reflexivity. Qed.

Lemma build_array_opt_string : forall v k, build_schema (opts k (TsArr (TsOpt (TsPrim (L "string"))))) (Some v) =
  L "z.array(z.string().optional())" ++ flat_map show_meth (length_meths v ++ repeat MOptional k).
Proof. intros v k. unfold build_schema. rewrite render_opts. cbn [render_type].
  unfold render_primitive. change (str_eqb (L "string") (L "string")) with true. cbv iota.
  unfold apply_string_validators, apply_length_validator, length_meths. rewrite !flat_map_app, !app_assoc.
  destruct (v_length v) as [c|]; rewrite ?apply_cstr_show; cbn [flat_map app]; rewrite ?app_nil_r, <- ?app_assoc; reflexivity. Qed.
Lemma read_schema_array_opt_string : forall F T, read_schema (S (S (S (S (S F))))) (L "z.array(z.string().optional())" ++ T) =
  match read_meths (S (S (S (S F)))) T with
  | Some (ms, s4) => Some (Sch (L "z.array") [Sch (L "z.string") [] [MOptional]] ms, s4) | None => None end.
Proof. reflexivity. Qed.
Lemma read_schema_string : forall F T, read_schema (S (S (S F))) (L "z.string()" ++ T) =
  match read_meths (S (S F)) T with Some (ms, s4) => Some (Sch (L "z.string") [] ms, s4) | None => None end.
Proof. reflexivity. Qed.
Lemma read_schema_number : forall F T, read_schema (S (S (S (S F)))) (L "z.coerce.number()" ++ T) =
  match read_meths (S (S (S F))) T with Some (ms, s4) => Some (Sch (L "z.coerce.number") [] ms, s4) | None => None end.
Proof. reflexivity. Qed.
Lemma read_schema_array_string : forall F T, read_schema (S (S (S (S (S F))))) (L "z.array(z.string())" ++ T) =
  match read_meths (S (S (S (S F)))) T with
  | Some (ms, s4) => Some (Sch (L "z.array") [Sch (L "z.string") [] []] ms, s4) | None => None end.
Proof. reflexivity. Qed.

Lemma len_show : forall ms, List.length ms <= List.length (flat_map show_meth ms).
Proof. induction ms as [|m ms IH]; cbn [flat_map List.length]; [lia|]. rewrite app_length.
  assert (1 <= List.length (show_meth m)) by (destruct m as [?|?|? ?|? ?|]; cbn [show_meth L list_ascii_of_string app List.length]; lia).
  lia. Qed.

Lemma read_chain_string : forall ms, forallb meth_ok ms = true ->
  read_chain (L "z.string()" ++ flat_map show_meth ms) = Some (Sch (L "z.string") [] ms).
Proof. intros ms Hok. unfold read_chain.
  assert (E : exists f0, List.length (L "z.string()" ++ flat_map show_meth ms) = S (S (S (List.length ms + f0)))).
  { rewrite app_length. pose proof (len_show ms) as Hl. cbn [L list_ascii_of_string List.length].
    exists (7 + (List.length (flat_map show_meth ms) - List.length ms)). lia. }
  destruct E as [f0 E]. rewrite E. rewrite read_schema_string.
  rewrite <- (app_nil_r (flat_map show_meth ms)).
  replace (S (S (S (List.length ms + f0)))) with (S (List.length ms + S (S f0))) by lia.
  rewrite read_meths_show by (auto; reflexivity). reflexivity. Qed.
Lemma read_chain_number : forall ms, forallb meth_ok ms = true ->
  read_chain (L "z.coerce.number()" ++ flat_map show_meth ms) = Some (Sch (L "z.coerce.number") [] ms).
Proof. intros ms Hok. unfold read_chain.
  assert (E : exists f0, List.length (L "z.coerce.number()" ++ flat_map show_meth ms) = S (S (S (S (List.length ms + f0))))).
  { rewrite app_length. pose proof (len_show ms) as Hl. cbn [L list_ascii_of_string List.length].
    exists (13 + (List.length (flat_map show_meth ms) - List.length ms)). lia. }
  destruct E as [f0 E]. rewrite E. rewrite read_schema_number.
  rewrite <- (app_nil_r (flat_map show_meth ms)).
  replace (S (S (S (S (List.length ms + f0))))) with (S (List.length ms + S (S (S f0)))) by lia.
  rewrite read_meths_show by (auto; reflexivity). reflexivity. Qed.
Lemma read_chain_array_string : forall ms, forallb meth_ok ms = true ->
  read_chain (L "z.array(z.string())" ++ flat_map show_meth ms) = Some (Sch (L "z.array") [Sch (L "z.string") [] []] ms).
Proof. intros ms Hok. unfold read_chain.
  assert (E : exists f0, List.length (L "z.array(z.string())" ++ flat_map show_meth ms) = S (S (S (S (S (List.length ms + f0)))))).
  { rewrite app_length. pose proof (len_show ms) as Hl. cbn [L list_ascii_of_string List.length].
    exists (14 + (List.length (flat_map show_meth ms) - List.length ms)). lia. }
  destruct E as [f0 E]. rewrite E. rewrite read_schema_array_string.
  rewrite <- (app_nil_r (flat_map show_meth ms)).
  replace (S (S (S (S (S (List.length ms + f0)))))) with (S (List.length ms + S (S (S (S f0))))) by lia.
  rewrite read_meths_show by (auto; reflexivity). reflexivity. Qed.

Lemma read_chain_array_opt_string : forall ms, forallb meth_ok ms = true ->
  read_chain (L "z.array(z.string().optional())" ++ flat_map show_meth ms) =
  Some (Sch (L "z.array") [Sch (L "z.string") [] [MOptional]] ms).
Proof. intros ms Hok. unfold read_chain.
  assert (E : exists f0, List.length (L "z.array(z.string().optional())" ++ flat_map show_meth ms) = S (S (S (S (S (List.length ms + f0)))))).
  { rewrite app_length. pose proof (len_show ms) as Hl. cbn [L list_ascii_of_string List.length].
    exists (25 + (List.length (flat_map show_meth ms) - List.length ms)). lia. }
  destruct E as [f0 E]. rewrite E. rewrite read_schema_array_opt_string.
  rewrite <- (app_nil_r (flat_map show_meth ms)).
  replace (S (S (S (S (S (List.length ms + f0)))))) with (S (List.length ms + S (S (S (S f0))))) by lia.
  rewrite read_meths_show by (auto; reflexivity). reflexivity. Qed.

Lemma optional_ok : forall k, forallb meth_ok (repeat MOptional k) = true.
Proof. induction k; cbn [repeat forallb meth_ok]; auto. Qed.

(* Every ValidatorAttributes value whose bounds are number texts is rendered to a chain that reads back
   as exactly its constraints (every message, through escape_js_string, included), under any number of Option wrappers *)
Theorem render_exact : forall v k, va_ok v = true ->
  read_chain (build_schema (opts k (TsPrim (L "string"))) (Some v)) = Some (Sch (L "z.string") [] (string_meths v ++ repeat MOptional k)) /\
  read_chain (build_schema (opts k (TsPrim (L "number"))) (Some v)) = Some (Sch (L "z.coerce.number") [] (number_meths v ++ repeat MOptional k)) /\
  read_chain (build_schema (opts k (TsArr (TsPrim (L "string")))) (Some v)) =
    Some (Sch (L "z.array") [Sch (L "z.string") [] []] (length_meths v ++ repeat MOptional k)).
Proof. intros v k Hv. unfold va_ok in Hv. apply andb_true_iff in Hv as [Hl Hr].
  assert (HL : forallb meth_ok (length_meths v) = true).
  { unfold length_meths. destruct (v_length v); [apply cstr_meths_ok; exact Hl|reflexivity]. }
  assert (HR : forallb meth_ok (number_meths v) = true).
  { unfold number_meths. destruct (v_range v); [apply cstr_meths_ok; exact Hr|reflexivity]. }
  split; [|split].
  - rewrite build_string. apply read_chain_string. unfold string_meths. rewrite !forallb_app, HL, optional_ok.
    destruct (v_email v), (v_url v); reflexivity.
  - rewrite build_number. apply read_chain_number. rewrite forallb_app, HR, optional_ok. reflexivity.
  - rewrite build_array_string. apply read_chain_array_string. rewrite forallb_app, HL, optional_ok. reflexivity.
Qed.

(* C11-7 repaired, for every ValidatorAttributes value: on Vec<Option<String>> the element schema stays bare *)
Theorem render_exact_option_element : forall v k, va_ok v = true ->
  read_chain (build_schema (opts k (TsArr (TsOpt (TsPrim (L "string"))))) (Some v)) =
    Some (Sch (L "z.array") [Sch (L "z.string") [] [MOptional]] (length_meths v ++ repeat MOptional k)).
Proof. intros v k Hv. unfold va_ok in Hv. apply andb_true_iff in Hv as [Hl Hr].
  assert (HL : forallb meth_ok (length_meths v) = true).
  { unfold length_meths. destruct (v_length v); [apply cstr_meths_ok; exact Hl|reflexivity]. }
  rewrite build_array_opt_string. apply read_chain_array_opt_string. rewrite forallb_app, HL, optional_ok. reflexivity. Qed.
