From Coq Require Import String Ascii.
From Coq Require Import List Arith Lia Bool.
Require Import TT.Model.Str TT.Model.TypeParse TT.Spec.TsLex TT.Spec.TsModule TT.Spec.TsObs TT.Model.Pipeline TT.Model.Events TT.Spec.C12Spec.
Require Import TT.Proofs.StrFacts.
Import ListNotations.
Local Open Scope list_scope.

(* the payload classes, as a test on the core of the payload *)
Definition kfp (c : expr) (env : renv) (sy : symtab) : bool :=
  match c with
  | XPath [x] =>
      match lookup x sy with
      | None => true
      | Some u => match rlookup x env with
                  | Some (KEv t) => (negb (simple_type t) && str_eqb u (type_name t)) || negb (str_eqb u (type_name t))
                  | Some KCtor => true
                  | Some KOpaque => true
                  | None => true end
      end
  | _ => false end.
Lemma kf_payload_kfp s : kf_payload s = kfp (pcore s) (s_env s) (s_sy s).
Proof.
  unfold kf_payload, kf_name_fallback, kf_last_segment, kf_ctor_guess, kf_scope, kfp.
  destruct (pcore s) as [r m a|segs|b nm|l|pth|u|f a|es|ss|th el|arms|ss|ss|ss|x|x|]; try reflexivity.
  - destruct segs as [|x [|y r]]; try reflexivity.
    destruct (lookup x (s_sy s)) as [u|]; destruct (rlookup x (s_env s)) as [[t| |]|]; try reflexivity.
    cbn [orb]. destruct (negb (simple_type t) && str_eqb u (type_name t)); reflexivity.
Qed.
(* a shape syn cannot produce: a struct expression with an empty path *)
Definition degenerate (c : expr) : bool := match c with XStruct [] => true | _ => false end.

Definition payload_ok (p : expr) (env : renv) (sy : symtab) : Prop :=
  match evident_type p env with
  | Some t => infer_payload p sy = type_name t \/ (t = QTuple [] /\ infer_payload p sy = L "()")
  | None => infer_payload p sy = unknown end.

Lemma core_ref d u : core (S (S d)) (XRef u) = core (S d) u. Proof. reflexivity. Qed.

Lemma payload_core : forall p env sy,
  kfp (core (S (xdepth p)) p) env sy = false -> degenerate (core (S (xdepth p)) p) = false -> payload_ok p env sy.
Proof.
  induction p as [r IHr m args|segs|b nm|l|path|u IHu|f args|es|ss|th el|arms|ss|ss|ss|x|x|]; intros env sy Hk Hd;
    unfold payload_ok; cbn [evident_type infer_payload]; try reflexivity.
  - (* method call *)
    destruct (str_eqb m (L "clone")) eqn:Em; [|reflexivity].
    apply IHr.
    + change (xdepth (XMethod r m args)) with (S (xdepth r)) in Hk. cbn [core] in Hk. rewrite Em in Hk. exact Hk.
    + change (xdepth (XMethod r m args)) with (S (xdepth r)) in Hd. cbn [core] in Hd. rewrite Em in Hd. exact Hd.
  - (* path *)
    cbn [xdepth core] in Hk, Hd. destruct segs as [|x [|y r]].
    + reflexivity.
    + cbn [kfp] in Hk. destruct (lookup x sy) as [u|] eqn:El; [|discriminate Hk].
      destruct (rlookup x env) as [[t| |]|] eqn:Er; try discriminate Hk.
      apply orb_false_iff in Hk. destruct Hk as [_ Hk]. apply negb_false_iff in Hk. apply str_eqb_eq in Hk. left. exact Hk.
    + reflexivity.
  - (* literal *) destruct l; try (left; reflexivity). reflexivity.
  - (* struct *) destruct path as [|a r]; [discriminate Hd|]. left. reflexivity.
  - (* reference *)
    apply IHu.
    + change (xdepth (XRef u)) with (S (xdepth u)) in Hk. rewrite core_ref in Hk. exact Hk.
    + change (xdepth (XRef u)) with (S (xdepth u)) in Hd. rewrite core_ref in Hd. exact Hd.
  - (* tuple *) destruct es as [|e0 r]; [right; split; reflexivity|]. reflexivity.
Qed.

(* every documented site outside the payload classes carries the right payload string *)
Theorem payload_site : forall s, kf_payload s = false -> degenerate (pcore s) = false ->
  payload_ok (s_payload s) (s_env s) (s_sy s).
Proof. intros s Hk Hd. rewrite kf_payload_kfp in Hk. apply payload_core; assumption. Qed.

Require Import TT.Proofs.C12Proofs TT.Proofs.C12Exact.

(* project level: on an in-domain project whose documented event names lie outside the naming
   classes, the listeners generated from the walker's events are in bijection with the documented
   names, subscribed to them, under legal pairwise distinct identifiers; and every listener whose
   site lies outside the payload classes carries the payload string of its evident type *)
Theorem listeners_project : forall p, in_domain p = true ->
  let names := site_names (project_sites p) in
  (forall n, In n names -> kf_collision names n = false) ->
  let ls := model_listeners (project_events p) in
  map ml_event ls = first_names names /\ NoDup (map ml_event ls) /\
  (forall n, In n names -> exists x, In x ls /\ ml_event x = n /\ forall y, In y ls -> ml_event y = n -> y = x) /\
  (forall x, In x ls -> is_legal_binding_name (ml_ident x) = true) /\
  NoDup (map ml_ident ls) /\
  (forall n t, In (n, t) (project_events p) -> exists s, In s (project_sites p) /\ s_name s = n /\
     t = infer_payload (s_payload s) (s_sy s) /\
     (kf_payload s = false -> degenerate (pcore s) = false -> payload_ok (s_payload s) (s_env s) (s_sy s))).
Proof.
  intros p Hd names H4 ls.
  pose proof (event_names_exact p Hd) as Hn.
  pose proof (listeners_partial (project_events p)) as L. cbv zeta in L. rewrite Hn in L.
  specialize (L H4). destruct L as [A [B [C [D E]]]].
  repeat (split; [assumption|]).
  intros n t Hin. rewrite (walker_exact p Hd) in Hin. apply in_map_iff in Hin. destruct Hin as [s [Hs Hin]].
  unfold ev_of in Hs. inversion Hs; subst. exists s. repeat split; auto. apply payload_site.
Qed.
