(* C01: the plain-mode commands.ts at TEXT level: the wrapper item (signature and body) and the whole file. *)
From Coq Require Import String Ascii.
From Coq Require Import List Arith Bool Lia.
Require Import TT.Model.Str TT.Model.TypeParse TT.Model.Pipeline.
Require Import TT.Spec.TsLex TT.Spec.TsModule TT.Spec.TsObs TT.Spec.C01Wf TT.Model.C01Emit.
Require Import TT.Proofs.LexFacts TT.Proofs.C01Holes TT.Proofs.C01Skeleton TT.Proofs.C01TypeHole TT.Proofs.C01Lex TT.Proofs.C01HoleLex.
Require Import TT.Proofs.C01Wrapper TT.Proofs.C01Text TT.Proofs.C01Prefix.
Import ListNotations.
Local Open Scope list_scope.
Local Open Scope char_scope.

Definition id_next (r : str) : Prop := exists c r', r = c :: r' /\ is_id_start c = true.

Lemma ptext_leaf_head n : leaf_ok n = true -> starts_type (ptext_leaf n).
Proof. intros Hl. unfold ptext_leaf. destruct (name_in n atp_globals).
  - pose proof (leaf_is_ident n Hl) as Hi. destruct n as [|c r]; [discriminate|]. cbn [ident] in Hi. apply andb_true_iff in Hi as [Hc _].
    exists c, r. split; [reflexivity|left; exact Hc].
  - exists "t", (L "ypes." ++ n). split; [reflexivity|left; reflexivity]. Qed.
Lemma ptext_head g : forall t, leaves_ok g t = true -> starts_type (ptext g t).
Proof. induction t as [s|t IH|k v IHk IHv|t IH|l IHl|t IH|t IH|s] using tstruct_ind'; intros Hl.
  - apply ptext_leaf_head. exact Hl.
  - cbn [ptext]. apply starts_type_app, IH. exact Hl.
  - apply (render_head g (TMap k v) Hl).
  - cbn [ptext]. apply starts_type_app, IH. exact Hl.
  - apply (render_head g (TTuple l) Hl).
  - cbn [ptext]. destruct (head_map t); [apply (render_head g (TOpt t) Hl)|]. apply starts_type_app, IH. exact Hl.
  - cbn [ptext]. apply IH. exact Hl.
  - apply ptext_leaf_head. exact Hl. Qed.

Lemma clex_ret g c : leaves_ok g (ret_struct c) = true -> clex Pc (Hole HType (ret_text g c)) (ptoks g (ret_struct c)).
Proof. intros Hl. split; [apply ret_text_lexes; exact Hl|]. unfold chunk_lex. cbn [chunk_text].
  apply (lexes_module Pc); [apply ret_text_lexes; exact Hl|exact Logic.I]. Qed.
Lemma ret_text_head g c : leaves_ok g (ret_struct c) = true -> starts_type (ret_text g c).
Proof. intros Hl. unfold ret_text. change (render_m g (pts match cc_ret c with Some t => qtts t | None => L "()" end)) with (render_m g (ret_struct c)).
  rewrite (add_types_prefix3_render g _ Hl). apply ptext_head. exact Hl. Qed.

Lemma clex_params_open : clex id_next (F "params: types.") [KId (L "params"); P ":"; KId (L "types"); P "."].
Proof. split; [|reflexivity].
  change (chunk_text (F "params: types.")) with (pieces_text [W (L "params"); Sp [":"; " "]] ++ L "types" ++ ["."]).
  apply (lexes_app any id_next _ _ [KId (L "params"); P ":"] [KId (L "types"); P "."]); [apply (lexes_pieces any); reflexivity| |intros; exact Logic.I].
  apply (lexes_app bnd id_next _ _ [KId (L "types")] [P "."]); [apply lexes_ident; [reflexivity|auto]|apply lexes_dot; auto|intros x _; reflexivity]. Qed.
Lemma clex_promise_open : clex starts_type (F "): Promise<") [P ")"; P ":"; KId (L "Promise"); P "<"].
Proof. split; [|reflexivity].
  change (chunk_text (F "): Promise<")) with ([")"; ":"; " "] ++ L "Promise" ++ ["<"]).
  apply (lexes_app any starts_type _ _ [P ")"; P ":"] [KId (L "Promise"); P "<"]); [apply (lexes_sp any [")"; ":"; " "]); reflexivity| |intros; exact Logic.I].
  apply (lexes_app bnd starts_type _ _ [KId (L "Promise")] [P "<"]); [apply lexes_ident; [reflexivity|auto]|apply lexes_lt2|intros x _; reflexivity]. Qed.
Lemma gt_ok_space x : gt_ok (" " :: x).
Proof. split; [discriminate|intros E; discriminate]. Qed.
Lemma clex_body_open : clex any (F "> { return invoke(") [P ">"; P "{"; KId (L "return"); KId (L "invoke"); P "("].
Proof. apply clex_fixed. intros Q.
  change (L "> { return invoke(") with ([">"] ++ pieces_text [Sp [" "; "{"; " "]; W (L "return"); Sp [" "]; W (L "invoke"); Sp ["("]]).
  apply (lexes_app gt_ok Q _ _ [P ">"] [P "{"; KId (L "return"); KId (L "invoke"); P "("]); [apply lexes_gt2; auto|apply (lexes_pieces Q); reflexivity|intros x _; apply gt_ok_space]. Qed.
Lemma clex_comma_params : clex bnd (F ", params") [P ","; KId (L "params")].
Proof. split; [|reflexivity]. change (chunk_text (F ", params")) with ([","; " "] ++ L "params").
  apply (lexes_app any bnd _ _ [P ","] [KId (L "params")]); [apply (lexes_sp any [","; " "]); reflexivity|apply lexes_ident; [reflexivity|auto]|intros; exact Logic.I]. Qed.

Theorem wrapper_cslex g c :
  is_binding_name (fn_ts c) = true -> is_ident_name (ty_ts c ++ L "Params") = true -> str_body_ok SQ (cmd_name c) = true ->
  leaves_ok g (ret_struct c) = true -> cslex any (wrapper_chunks g c) (cmd_wrapper_toks g c).
Proof. intros Hn Hp Hc Hl. unfold wrapper_chunks, cmd_wrapper_toks, wrapper_toks, wrapper_body, wrapper_params, cmd_has.
  assert (forall has : bool, cslex any ([F "): Promise<"; Hole HType (ret_text g c); F "> { return invoke("; Hole (HStr SQ) (cmd_name c)] ++
                                         (if has then [F ", params"] else []) ++ [F "); } "])
            ([P ")"; P ":"; KId (L "Promise"); P "<"] ++ ptoks g (ret_struct c) ++ [P ">"; P "{"] ++
             ([KId (L "return"); KId (L "invoke"); P "("; KStr SQ (cmd_name c)] ++ (if has then [P ","; KId (L "params")] else []) ++ [P ")"; P ";"]) ++ [P "}"])) as Htail.
  { intros has.
    assert (cslex any ((if has then [F ", params"] else []) ++ [F "); } "]) ((if has then [P ","; KId (L "params")] else []) ++ [P ")"; P ";"; P "}"])) as Hend.
    { assert (cslex any [F "); } "] [P ")"; P ";"; P "}"]) as He.
      { eapply cslex_eq; [apply (cslex_cons any any _ [] [P ")"; P ";"; P "}"]); [apply (clex_pieces any [Sp [")"; ";"; " "; "}"; " "]]); reflexivity|apply cslex_nil|intros; exact Logic.I]|reflexivity]. }
      destruct has; [|exact He]. apply (cslex_cons bnd any _ _ [P ","; KId (L "params")]); [apply clex_comma_params|exact He|intros x _; reflexivity]. }
    eapply cslex_eq.
    - apply (cslex_cons starts_type any _ _ [P ")"; P ":"; KId (L "Promise"); P "<"]); [apply clex_promise_open| |].
      + apply (cslex_cons Pc any _ _ (ptoks g (ret_struct c))); [apply clex_ret; exact Hl| |].
        * apply (cslex_cons any any _ _ [P ">"; P "{"; KId (L "return"); KId (L "invoke"); P "("]); [apply clex_body_open| |intros; exact Logic.I].
          apply (cslex_cons any any _ _ [KStr SQ (cmd_name c)]); [apply clex_str; [right; reflexivity|exact Hc]|exact Hend|intros; exact Logic.I].
        * intros x _. rewrite text_cons. change (chunk_text (F "> { return invoke(")) with (">" :: " " :: L "{ return invoke(").
          cbn [app]. apply Pc_gt, Pc_cons; [reflexivity|discriminate].
      + intros x _. rewrite text_cons. cbn [chunk_text]. rewrite <- app_assoc. apply starts_type_app, ret_text_head. exact Hl.
    - cbn [app]. rewrite <- !app_assoc. cbn [app]. destruct has; reflexivity. }
  assert (cslex any [F "export async function "; Hole HFn (fn_ts c); F "("] [KId (L "export"); KId (L "async"); KId (L "function"); KId (fn_ts c); P "("]) as Hhead.
  { eapply cslex_eq.
    - apply (cslex_cons any any _ _ [KId (L "export"); KId (L "async"); KId (L "function")]);
        [apply (clex_pieces any [W (L "export"); Sp [" "]; W (L "async"); Sp [" "]; W (L "function"); Sp [" "]]); reflexivity| |intros; exact Logic.I].
      apply (cslex_cons bnd any _ _ [KId (fn_ts c)]); [apply (clex_hole HFn); [exact Logic.I|exact Hn]| |intros x _; reflexivity].
      apply (cslex_cons any any _ _ [P "("]); [apply (clex_pieces any [Sp ["("]]); reflexivity|apply cslex_nil|intros; exact Logic.I].
    - reflexivity. }
  destruct (nonempty (c_values c) || nonempty (c_channels c)); cbn [has_params].
  - apply (cslex_app any any); [exact Hhead| |intros; exact Logic.I].
    apply (cslex_app bnd any); [|apply (Htail true)|intros x _; reflexivity].
    eapply cslex_eq.
    + apply (cslex_cons id_next bnd _ _ [KId (L "params"); P ":"; KId (L "types"); P "."]); [apply clex_params_open| |].
      * apply (cslex_cons bnd bnd _ [] [KId (ty_ts c ++ L "Params")]); [apply (clex_hole HKey); [exact Hp|cbn [hole_ok]; unfold key_text_ok; rewrite Hp; reflexivity]|apply cslex_nil|intros x Hx; exact Hx].
      * intros x _. rewrite text_cons. cbn [chunk_text].
        pose proof (ident_name_ident _ Hp) as Hi. destruct (ty_ts c ++ L "Params") as [|a r]; [discriminate|].
        cbn [ident] in Hi. apply andb_true_iff in Hi as [Ha _]. eexists. eexists. split; [reflexivity|exact Ha].
    + reflexivity.
  - apply (cslex_app any any); [exact Hhead| |intros; exact Logic.I].
    apply (cslex_app any any [] _ []); [apply cslex_nil|apply (Htail false)|intros; exact Logic.I]. Qed.

Definition wrapper_in_budget (g : c_cfg) (c : c_cmd) : bool :=
  plain_ident (cmd_name c) && negb (kf_reserved_fn (cmd_name c)) && ret_in_budget g c.
Theorem wrapper_item_text_ok g c : wrapper_in_budget g c = true -> item_text_ok (wrapper_chunks g c).
Proof. intros H. unfold wrapper_in_budget in H. apply andb_true_iff in H as [H Hb]. apply andb_true_iff in H as [Hn Hk]. apply negb_true_iff in Hk.
  exists (cmd_wrapper_toks g c).
  destruct (wrapper_tokens_ok g c [] Hn Hk Hb) as [_ [_ [_ [_ Htok]]]].
  split.
  - apply wrapper_cslex.
    + exact (fn_hole _ Hn Hk).
    + apply plain_is_ident_name, plain_app; [apply pascal_plain; exact Hn|reflexivity].
    + exact (str_hole_ident _ Hn).
    + unfold ret_in_budget in Hb. apply andb_true_iff in Hb as [Hl _]. exact Hl.
  - split; [unfold cmd_wrapper_toks, wrapper_toks; discriminate|]. split; [exact Htok|].
    intros rest. destruct (wrapper_tokens_ok g c rest Hn Hk Hb) as [ps [t [E [Hok _]]]]. eexists. split; eassumption. Qed.

(* ---------------------------------------------------------------- the imports and the whole file *)
Lemma lexes_sp_star_sp (Q : str -> Prop) : lexes Q (L " * ") [P "*"].
Proof. intros r f _ Hf. change (List.length (L " * " ++ r)) with (S (S (S (List.length r)))) in Hf.
  destruct f as [|[|[|f]]]; try lia. exists f. split; [lia|reflexivity]. Qed.
Definition types_import : list chunk := [F "import * as types from './types'; "].
Lemma types_import_text_ok : item_text_ok types_import.
Proof. set (ts := [KId (L "import"); P "*"; KId (L "as"); KId (L "types"); KId (L "from"); KStr SQ (L "./types"); P ";"]).
  exists ts. split; [|split; [discriminate|split; [reflexivity|]]].
  - eapply cslex_eq; [apply (cslex_cons any any _ [] ts); [|apply cslex_nil|intros; exact Logic.I]|apply app_nil_r].
    apply clex_fixed. intros Q.
    change (L "import * as types from './types'; ")
      with (L "import" ++ L " * " ++ pieces_text [W (L "as"); Sp [" "]; W (L "types"); Sp [" "]; W (L "from"); Sp [" "]] ++ ("'" :: L "./types" ++ ["'"]) ++ [";"; " "]).
    apply (lexes_app bnd Q _ _ [KId (L "import")] [P "*"; KId (L "as"); KId (L "types"); KId (L "from"); KStr SQ (L "./types"); P ";"]);
      [apply lexes_ident; [reflexivity|auto]| |intros x _; reflexivity].
    apply (lexes_app any Q _ _ [P "*"] [KId (L "as"); KId (L "types"); KId (L "from"); KStr SQ (L "./types"); P ";"]); [apply lexes_sp_star_sp| |intros; exact Logic.I].
    apply (lexes_app any Q _ _ [KId (L "as"); KId (L "types"); KId (L "from")] [KStr SQ (L "./types"); P ";"]); [apply (lexes_pieces any); reflexivity| |intros; exact Logic.I].
    apply (lexes_app any Q _ _ [KStr SQ (L "./types")] [P ";"]); [apply lexes_str_body; [right; reflexivity|reflexivity]|apply (lexes_sp Q [";"; " "]); reflexivity|intros; exact Logic.I].
  - intros rest. eexists. split; reflexivity. Qed.
Lemma invoke_import_text_ok cmds : item_text_ok (invoke_import cmds).
Proof. unfold invoke_import. destruct (any_channels cmds).
  - set (ts := [KId (L "import"); P "{"; KId (L "invoke"); P ","; KId (L "Channel"); P "}"; KId (L "from"); KStr SQ (L "@tauri-apps/api/core"); P ";"]).
    exists ts. split; [|split; [discriminate|split; [reflexivity|]]].
    + eapply cslex_eq; [apply (cslex_cons any any _ [] ts); [|apply cslex_nil|intros; exact Logic.I]|apply app_nil_r].
      apply clex_fixed. intros Q.
      change (L "import { invoke, Channel } from '@tauri-apps/api/core'; ")
        with (pieces_text [W (L "import"); Sp [" "; "{"; " "]; W (L "invoke"); Sp [","; " "]; W (L "Channel"); Sp [" "; "}"; " "]; W (L "from"); Sp [" "]] ++
              ("'" :: L "@tauri-apps/api/core" ++ ["'"]) ++ [";"; " "]).
      apply (lexes_app any Q _ _ [KId (L "import"); P "{"; KId (L "invoke"); P ","; KId (L "Channel"); P "}"; KId (L "from")] [KStr SQ (L "@tauri-apps/api/core"); P ";"]);
        [apply (lexes_pieces any); reflexivity| |intros; exact Logic.I].
      apply (lexes_app any Q _ _ [KStr SQ (L "@tauri-apps/api/core")] [P ";"]); [apply lexes_str_body; [right; reflexivity|reflexivity]|apply (lexes_sp Q [";"; " "]); reflexivity|intros; exact Logic.I].
    + intros rest. eexists. split; reflexivity.
  - set (ts := [KId (L "import"); P "{"; KId (L "invoke"); P "}"; KId (L "from"); KStr SQ (L "@tauri-apps/api/core"); P ";"]).
    exists ts. split; [|split; [discriminate|split; [reflexivity|]]].
    + eapply cslex_eq; [apply (cslex_cons any any _ [] ts); [|apply cslex_nil|intros; exact Logic.I]|apply app_nil_r].
      apply clex_fixed. intros Q.
      change (L "import { invoke } from '@tauri-apps/api/core'; ")
        with (pieces_text [W (L "import"); Sp [" "; "{"; " "]; W (L "invoke"); Sp [" "; "}"; " "]; W (L "from"); Sp [" "]] ++
              ("'" :: L "@tauri-apps/api/core" ++ ["'"]) ++ [";"; " "]).
      apply (lexes_app any Q _ _ [KId (L "import"); P "{"; KId (L "invoke"); P "}"; KId (L "from")] [KStr SQ (L "@tauri-apps/api/core"); P ";"]);
        [apply (lexes_pieces any); reflexivity| |intros; exact Logic.I].
      apply (lexes_app any Q _ _ [KStr SQ (L "@tauri-apps/api/core")] [P ";"]); [apply lexes_str_body; [right; reflexivity|reflexivity]|apply (lexes_sp Q [";"; " "]); reflexivity|intros; exact Logic.I].
    + intros rest. eexists. split; reflexivity. Qed.

(* C01_skeleton_full_statement for the plain-mode commands.ts: both imports followed by ANY selection of the wrappers in
   ANY order, for every project whose command names are [A-Za-z][A-Za-z0-9_]* outside the reserved-word class and whose
   return types have identifier leaves and nesting below 63 *)
Theorem plain_commands_text_ok g cmds items :
  forallb (wrapper_in_budget g) cmds = true ->
  (forall cs, In cs items -> In cs (fl_required (plain_commands g cmds)) \/ In cs (fl_optional (plain_commands g cmds))) ->
  c01_ok (text (fl_prefix (plain_commands g cmds) ++ concat items)) = true.
Proof. intros Hb Hin. cbn [plain_commands fl_prefix].
  change (text ((invoke_import cmds ++ [F "import * as types from './types'; "]) ++ concat items))
    with (text ((invoke_import cmds ++ types_import) ++ concat items)).
  replace ((invoke_import cmds ++ types_import) ++ concat items) with (concat (invoke_import cmds :: types_import :: items))
    by (cbn [concat]; rewrite app_assoc; reflexivity).
  apply items_c01_ok. constructor; [apply invoke_import_text_ok|]. constructor; [apply types_import_text_ok|].
  rewrite Forall_forall. intros cs Hcs. destruct (Hin cs Hcs) as [H|H]; cbn [plain_commands fl_required fl_optional] in H; [|destruct H].
  apply in_map_iff in H as [c [<- Hc]]. rewrite forallb_forall in Hb. apply wrapper_item_text_ok, Hb, Hc. Qed.

Lemma plain_commands_example :
  forallb (wrapper_in_budget g0) ex_wcmds = true /\ c01_ok (text (all_chunks (plain_commands g0 ex_wcmds))) = true.
Proof. vm_compute. split; reflexivity. Qed.

(* ---------------------------------------------------------------- index.ts at text level *)
Lemma star_item_text_ok m : str_body_ok SQ m = true -> item_text_ok [F "export * from "; Hole (HStr SQ) m; F "; "].
Proof. intros Hm. exists (star_toks m). split; [|split; [discriminate|split; [cbn [star_toks forallb tok_ok]; rewrite Hm; reflexivity|]]].
  - eapply cslex_eq.
    + apply (cslex_cons any any _ _ [KId (L "export"); P "*"; KId (L "from")]); [| |intros; exact Logic.I].
      * apply clex_fixed. intros Q. change (L "export * from ") with (L "export" ++ L " * " ++ pieces_text [W (L "from"); Sp [" "]]).
        apply (lexes_app bnd Q _ _ [KId (L "export")] [P "*"; KId (L "from")]); [apply lexes_ident; [reflexivity|auto]| |intros x _; reflexivity].
        apply (lexes_app any Q _ _ [P "*"] [KId (L "from")]); [apply lexes_sp_star_sp|apply (lexes_pieces Q); reflexivity|intros; exact Logic.I].
      * apply (cslex_cons any any _ _ [KStr SQ m]); [apply clex_str; [right; reflexivity|exact Hm]| |intros; exact Logic.I].
        apply (cslex_cons any any _ [] [P ";"]); [apply (clex_pieces any [Sp [";"; " "]]); reflexivity|apply cslex_nil|intros; exact Logic.I].
    + reflexivity.
  - intros rest. eexists. split; [apply p_item_star|reflexivity]. Qed.
Theorem index_text_ok b items :
  (forall cs, In cs items -> In cs (fl_required (index_file b))) -> c01_ok (text (fl_prefix (index_file b) ++ concat items)) = true.
Proof. intros Hin. cbn [index_file fl_prefix app]. apply items_c01_ok. rewrite Forall_forall. intros cs Hcs. specialize (Hin cs Hcs).
  cbn [index_file fl_required] in Hin. apply in_map_iff in Hin as [f [<- Hf]]. apply star_item_text_ok.
  destruct b; cbn [In] in Hf; repeat (destruct Hf as [<-|Hf]; [reflexivity|]); destruct Hf. Qed.

(* ---------------------------------------------------------------- the hole predicate alone is not enough *)
(* C01_skeleton_full_statement takes hole_ok of every hole as its premise. A type hole is judged on its own text; a
   type_mappings target that ends in a line comment is a good hole on its own (the lexer drops the comment) and swallows
   the rest of the wrapper line in place. So the statement with hole_ok premises is false; the theorems above use the
   budget predicates (identifier leaves) instead, which exclude such a mapping target. *)
Definition g_comment : c_cfg := {| g_zod := false; g_param_case := L "camelCase"; g_field_case := L "snake_case"; g_mappings := [(L "Foo", L "A //")] |}.
Definition c_comment : c_cmd := {| cc_name := L "f"; cc_serde := []; cc_params := []; cc_ret := Some (T0 "Foo") |}.
Lemma skeleton_hole_premise_refuted :
  ~ (forall g ss cmds evs f items,
      (forall cs, In cs items -> In cs (fl_required (gen_file g ss cmds evs f)) \/ In cs (fl_optional (gen_file g ss cmds evs f))) ->
      (forall h, In h (holes (fl_prefix (gen_file g ss cmds evs f) ++ List.concat items)) -> hole_ok (fst h) (snd h) = true) ->
      c01_ok (text (fl_prefix (gen_file g ss cmds evs f) ++ List.concat items)) = true).
Proof. intros H. specialize (H g_comment [] [c_comment] [] FCommands [wrapper_chunks g_comment c_comment]).
  assert (c01_ok (text (fl_prefix (gen_file g_comment [] [c_comment] [] FCommands) ++ concat [wrapper_chunks g_comment c_comment])) = true) as E.
  { apply H.
    - intros cs [<-|[]]. left. left. reflexivity.
    - intros h Hin. vm_compute in Hin. destruct Hin as [<-|[<-|[<-|[]]]]; vm_compute; reflexivity. }
  vm_compute in E. discriminate. Qed.
