(* C05: the depth-2 sweep of the model (3763 types x 5 sites x 2 modes), the enumeration the quick
   tier runs against the implementation. Several minutes of vm_compute; kept out of the closure of
   Properties/C05.v (coqchk re-evaluates without the VM) and compiled by the thorough tier. *)
From Coq Require Import String Ascii.
From Coq Require Import List Arith Bool.
Require Import TT.Model.Str TT.Model.TypeParse TT.Model.C05Emit TT.Spec.C05Spec TT.Spec.C05Known TT.Proofs.C05Sweep.
Import ListNotations.

Lemma sweep_sound_depth2 : sweep sound_at (spines 2) = true.
Proof. vm_compute. reflexivity. Qed.
Lemma sweep_exact_depth2 : sweep exact_at (spines 2) = true.
Proof. vm_compute. reflexivity. Qed.
Lemma sweep_domain_depth2 : forallb dom_b (spines 2) = true /\ List.length (spines 2) = 3763.
Proof. vm_compute. split; reflexivity. Qed.

