(* C05: the repaired parser (Model/C05Parse.v) returns the intended structure of every well-formed
   printed type, with no class premise. Transparency calculus for the depth-aware scanner. *)
From Coq Require Import String Ascii ZArith.
From Coq Require Import List Arith Lia Bool.
Require Import TT.Model.Str TT.Proofs.StrFacts TT.Model.TypeParse TT.Proofs.TypeParseProofs TT.Model.C05Parse.
Import ListNotations.
Local Open Scope char_scope.
Local Open Scope list_scope.

(* ---------- names without square brackets (the scanner also counts [ and ]) ---------- *)
Definition nb (c : ascii) : Prop := Ascii.eqb c "[" = false /\ Ascii.eqb c "]" = false.
Fixpoint nobr (t : rty) : Prop :=
  match t with
  | RPath n args => Forall nb n /\ (fix go l := match l with [] => True | x :: l' => nobr x /\ go l' end) args
  | RRef t => nobr t
  | RTuple l => (fix go l := match l with [] => True | x :: l' => nobr x /\ go l' end) l
  end.
Lemma nobr_list l : (fix go l := match l with [] => True | x :: l' => nobr x /\ go l' end) l <-> Forall nobr l.
Proof. induction l; simpl; split; intros; auto. constructor; tauto. inversion H; subst; tauto. Qed.

(* ---------- transparency ---------- *)
Local Open Scope Z_scope.
Definition transp (k : Z) (w : str) : Prop :=
  forall d pre r, k <= d -> top2_go d pre (w ++ r) = top2_go d (rev w ++ pre) r.

Lemma transp_nil k : transp k []. Proof. intros d pre r _. reflexivity. Qed.
Lemma transp_app k w1 w2 : transp k w1 -> transp k w2 -> transp k (w1 ++ w2).
Proof. intros H1 H2 d pre r Hd. rewrite <- app_assoc. rewrite H1 by auto. rewrite H2 by auto.
  rewrite rev_app_distr. rewrite <- app_assoc. reflexivity. Qed.
Lemma transp_mono k k' w : k <= k' -> transp k w -> transp k' w.
Proof. intros Hk H d pre r Hd. apply H. lia. Qed.
Definition inert (c : ascii) : Prop := opener c = false /\ closer c = false /\ Ascii.eqb c "," = false.
Lemma transp_inert k c : inert c -> transp k [c].
Proof. intros (H1 & H2 & H3) d pre r _. cbn [app top2_go rev]. rewrite H1, H2, H3. reflexivity. Qed.
Lemma transp_inerts k w : Forall inert w -> transp k w.
Proof. induction 1 as [|c w Hc Hw IH]; [apply transp_nil|]. change (c :: w) with ([c] ++ w).
  apply transp_app; [apply transp_inert; auto | exact IH]. Qed.
Lemma transp_comma : transp 1 [","].
Proof. intros d pre r Hd. cbn [app top2_go rev]. change (opener ",") with false. change (closer ",") with false.
  cbv iota. rewrite Ascii.eqb_refl. replace (d =? 0) with false by (symmetry; apply Z.eqb_neq; lia). reflexivity. Qed.
Lemma transp_wrap k o c body : opener o = true -> opener c = false -> closer c = true ->
  transp (k + 1) body -> transp k (o :: body ++ [c]).
Proof. intros Ho Hc1 Hc2 Hb d pre r Hd. cbn [app top2_go]. rewrite Ho. rewrite <- app_assoc.
  rewrite Hb by lia. cbn [app top2_go]. rewrite Hc1, Hc2. replace (d + 1 - 1) with d by lia.
  f_equal. cbn [rev]. rewrite rev_app_distr. cbn [rev app]. repeat rewrite <- app_assoc. reflexivity. Qed.

Lemma plain_nb_inert c : plain c -> nb c -> inert c.
Proof. intros Hp (H1 & H2). apply plain_facts in Hp. destruct Hp as (A & B & C & D & E & _).
  unfold inert, opener, closer. rewrite A, B, C, D, E, H1, H2. auto. Qed.

Lemma transp_join ws : Forall (transp 0) ws -> transp 1 (join (L ", ") ws).
Proof. induction 1 as [|x ws Hx Hws IH]; [apply transp_nil|]. destruct ws as [|y ws].
  - rewrite join_one. eapply transp_mono; [|exact Hx]. lia.
  - rewrite join_cons2. apply transp_app; [eapply transp_mono; [|exact Hx]; lia|].
    apply transp_app; [|exact IH]. change (L ", ") with ([","] ++ [" "]).
    apply transp_app; [exact transp_comma | apply transp_inert; repeat split; reflexivity]. Qed.

Lemma transp_tts : forall t, wf t -> nobr t -> transp 0 (tts t).
Proof.
  induction t as [n args IH|t IH|l IH] using rty_ind'; intros Hw Hb.
  - cbn [wf] in Hw. cbn [nobr] in Hb. destruct Hw as ((_ & Hp) & _ & Ha). destruct Hb as (Hn & Hbs).
    apply wf_list in Ha. apply nobr_list in Hbs.
    assert (Hid : transp 0 n).
    { apply transp_inerts. rewrite Forall_forall in *. intros c Hc. apply plain_nb_inert; auto. }
    destruct args as [|a args]; [rewrite tts_path_nil; exact Hid|].
    rewrite tts_path_cons. apply transp_app; [exact Hid|].
    apply transp_wrap; try reflexivity. apply transp_join.
    rewrite Forall_forall in *. intros w Hwin. apply in_map_iff in Hwin as (x & <- & Hx). apply IH; auto.
  - rewrite tts_ref. change ("&" :: tts t) with (["&"] ++ tts t). apply transp_app.
    + apply transp_inert. repeat split; reflexivity.
    + apply IH; auto.
  - change (wf (RTuple l)) with ((fix go l := match l with [] => True | x :: l' => wf x /\ go l' end) l) in Hw.
    change (nobr (RTuple l)) with ((fix go l := match l with [] => True | x :: l' => nobr x /\ go l' end) l) in Hb.
    apply wf_list in Hw. apply nobr_list in Hb. destruct l as [|a l].
    + rewrite tts_unit. apply (transp_wrap 0 "(" ")" []); try reflexivity. apply transp_nil.
    + rewrite tts_tuple. apply transp_wrap; try reflexivity. apply transp_join.
      rewrite Forall_forall in *. intros w Hwin. apply in_map_iff in Hwin as (x & <- & Hx). apply IH; auto.
Qed.

(* ---------- the three uses of the scanner ---------- *)
Lemma top_comma_cut w R : transp 0 w -> top_comma (w ++ "," :: R) = Some (w, R).
Proof. intros H. unfold top_comma. rewrite H by lia. cbn [top2_go]. change (opener ",") with false.
  change (closer ",") with false. cbv iota. rewrite Ascii.eqb_refl. cbn [andb Z.eqb].
  rewrite app_nil_r, rev_involutive. reflexivity. Qed.
Lemma top_comma_none w : transp 0 w -> top_comma w = None.
Proof. intros H. unfold top_comma. rewrite <- (app_nil_r w). rewrite H by lia. reflexivity. Qed.
Local Close Scope Z_scope.

Lemma split_top_join : forall l a sp f, Forall inert sp -> transp 0%Z (tts a) -> Forall (fun x => transp 0%Z (tts x)) l ->
  List.length l < f ->
  split_top f (sp ++ join (L ", ") (map tts (a :: l))) = (sp ++ tts a) :: map (cons " ") (map tts l).
Proof.
  induction l as [|b l IH]; intros a sp f Hsp Ha Hl Hf; (destruct f as [|f]; [simpl in Hf; lia|]).
  - cbn [map]. rewrite join_one. cbn [split_top].
    rewrite top_comma_none by (apply transp_app; [apply transp_inerts; auto | auto]). reflexivity.
  - change (map tts (a :: b :: l)) with (tts a :: tts b :: map tts l). rewrite join_cons2.
    cbn [split_top]. rewrite app_assoc. cbn [L list_ascii_of_string app].
    rewrite top_comma_cut by (apply transp_app; [apply transp_inerts; auto | auto]).
    inversion Hl as [|? ? Hb Hl']; subst.
    change (" " :: join [","; " "] (tts b :: map tts l)) with ([" "] ++ join (L ", ") (map tts (b :: l))).
    rewrite (IH b [" "] f); [reflexivity | repeat constructor | exact Hb | exact Hl' | simpl in Hf; lia].
Qed.

Lemma join_len_elems (ws : list str) x : List.length ws <= List.length (join (L ", ") (x :: ws)).
Proof. revert x. induction ws as [|y ws IH]; intros x; [simpl; lia|]. rewrite join_cons2.
  rewrite !app_length. specialize (IH y). simpl List.length in *. lia. Qed.

Lemma tuple_parts_join a l : Forall wf (a :: l) -> Forall nobr (a :: l) ->
  tuple_parts (join (L ", ") (map tts (a :: l))) = map tts (a :: l).
Proof. intros Hw Hb. unfold tuple_parts, split_top_level.
  assert (Ht : Forall (fun x => transp 0%Z (tts x)) (a :: l)).
  { rewrite Forall_forall in *. intros x Hx. apply transp_tts; auto. }
  inversion Ht as [|? ? Ha Hl]; subst.
  rewrite (split_top_join l a [] _ (Forall_nil _) Ha Hl).
  - cbn [app map]. inversion Hw as [|? ? Hwa Hwl]; subst. rewrite trim_tight by (apply tts_tight; auto). f_equal.
    clear -Hwl. induction Hwl as [|x xs Hx _ IH]; [reflexivity|]. cbn [map].
    rewrite trim_sp_tight by (apply tts_tight; auto). rewrite IH. reflexivity.
  - change (map tts (a :: l)) with (tts a :: map tts l). pose proof (join_len_elems (map tts l) (tts a)) as H.
    rewrite map_length in H. cbn [app]. lia.
Qed.

Lemma result_ok_join a rest : wf a -> nobr a -> Forall wf rest ->
  result_ok (join (L ", ") (map tts (a :: rest))) = tts a.
Proof. intros Hw Hb Hr. unfold result_ok. destruct rest as [|e rest].
  - cbn [map]. rewrite join_one. rewrite top_comma_none by (apply transp_tts; auto). reflexivity.
  - change (map tts (a :: e :: rest)) with (tts a :: tts e :: map tts rest). rewrite join_cons2.
    cbn [L list_ascii_of_string app]. rewrite top_comma_cut by (apply transp_tts; auto).
    apply trim_tight. apply tts_tight; auto. Qed.

Lemma map_kv_join k v : wf k -> nobr k -> wf v ->
  map_kv (join (L ", ") (map tts [k; v])) = Some (tts k, tts v).
Proof. intros Hk Hb Hv. unfold map_kv. change (map tts [k; v]) with [tts k; tts v]. rewrite join_cons2, join_one.
  cbn [L list_ascii_of_string app]. rewrite top_comma_cut by (apply transp_tts; auto).
  rewrite trim_tight by (apply tts_tight; auto). rewrite trim_sp_tight by (apply tts_tight; auto). reflexivity. Qed.

(* ---------- one unfolding of the repaired parser ---------- *)
Lemma parse2_S f s0 : parse2 (S f) s0 =
    let s := trim s0 in
    if starts (L "&") s then parse2 f (skipn 1 s) else
    match wrapped "Option<" s with Some inner => option_map TOpt (parse2 f inner) | None =>
    match wrapped "Result<" s with
    | Some inner => option_map TRes (parse2 f (result_ok inner))
    | None =>
    match wrapped "Vec<" s with Some inner => option_map TArr (parse2 f inner) | None =>
    match (match wrapped "HashMap<" s with
           | Some inner => match map_kv inner with Some kv => Some kv | None => None end
           | None => None end),
          (match wrapped "BTreeMap<" s with
           | Some inner => map_kv inner
           | None => None end) with
    | Some (k, v), _ | None, Some (k, v) =>
        match parse2 f k, parse2 f v with Some k', Some v' => Some (TMap k' v') | _, _ => None end
    | None, None =>
    match (match wrapped "HashSet<" s with Some i => Some i | None => wrapped "BTreeSet<" s end) with
    | Some inner => option_map TSet (parse2 f inner)
    | None =>
    if starts (L "(") s && ends_with ")"%char s then
      let inner := mid 1 1 s in
      if all_blank inner then Some (TPrim (L "void"))
      else option_map TTuple (mapM (parse2 f) (tuple_parts inner))
    else match prim_of s with Some p => Some (TPrim p) | None => Some (TCustom s) end
    end end end end end.
Proof. reflexivity. Qed.

Lemma mapM_parse2 f l : Forall (fun t => parse2 f (tts t) = Some (sem t)) l ->
  mapM (parse2 f) (map tts l) = Some (map sem l).
Proof. induction 1; simpl; auto. rewrite H, IHForall. reflexivity. Qed.

Theorem parse2_tts_faithful : forall t, wf t -> nobr t ->
  forall fuel, height t < fuel -> parse2 fuel (tts t) = Some (sem t).
Proof.
  induction t as [n args IH|t IH|l IH] using rty_ind'; intros Hw Hb fuel Hf;
    (destruct fuel as [|f]; [lia|]); rewrite parse2_S; cbv zeta;
    rewrite (trim_tight _ (tts_tight _ Hw)).
  - (* path *)
    cbn [wf] in Hw. cbn [nobr] in Hb. destruct Hw as ((Hne & Hp) & (Har1 & Har2 & Har3) & Ha). apply wf_list in Ha.
    destruct Hb as (_ & Hbs). apply nobr_list in Hbs.
    destruct n as [|c n']; [congruence|]. set (n := c :: n') in *.
    assert (Hc : plain c) by (inversion Hp; auto).
    destruct args as [|a rest].
    + rewrite tts_path_nil.
      assert (Hamp : starts (L "&") n = false) by (apply (starts1_plain "&"); auto).
      assert (Hpar : starts (L "(") n = false) by (apply (starts1_plain "("); auto).
      rewrite Hamp.
      rewrite (wrapped_ident "Option<" (L "Option")), (wrapped_ident "Result<" (L "Result")),
              (wrapped_ident "Vec<" (L "Vec")), (wrapped_ident "HashMap<" (L "HashMap")),
              (wrapped_ident "BTreeMap<" (L "BTreeMap")), (wrapped_ident "HashSet<" (L "HashSet")),
              (wrapped_ident "BTreeSet<" (L "BTreeSet")) by auto.
      rewrite Hpar. simpl andb. cbv iota. simpl sem. destruct (prim_of n); reflexivity.
    + rewrite tts_path_cons. set (J := join (L ", ") (map tts (a :: rest))).
      set (s := n ++ "<" :: J ++ [">"]).
      assert (Hamp : starts (L "&") s = false) by (apply (starts1_plain "&"); auto).
      assert (Hpar : starts (L "(") s = false) by (apply (starts1_plain "("); auto).
      assert (Hprim : prim_of s = None) by (apply prim_of_angle; unfold s; apply in_or_app; right; left; auto).
      assert (HIH : Forall (fun t => parse2 f (tts t) = Some (sem t)) (a :: rest)).
      { rewrite Forall_forall in *. intros x Hx. apply IH; auto.
        simpl in Hf. pose proof (max_fold_le (a :: rest) x Hx). simpl in H. lia. }
      rewrite Hamp. unfold s.
      rewrite (wrapped_path "Option<" (L "Option")), (wrapped_path "Result<" (L "Result")),
              (wrapped_path "Vec<" (L "Vec")), (wrapped_path "HashMap<" (L "HashMap")),
              (wrapped_path "BTreeMap<" (L "BTreeMap")), (wrapped_path "HashSet<" (L "HashSet")),
              (wrapped_path "BTreeSet<" (L "BTreeSet")) by (auto; repeat constructor).
      fold s. inversion HIH as [|? ? HIa HIrest]; subst. inversion Ha as [|? ? Hwa Hwrest]; subst.
      inversion Hbs as [|? ? Hba Hbrest]; subst.
      destruct (str_eqb n (L "Option")) eqn:EO.
      { apply str_eqb_eq in EO.
        assert (rest = []) by (destruct rest; auto; exfalso; assert (one_of n unary_names = true) by (rewrite EO; reflexivity); specialize (Har1 H); simpl in Har1; lia).
        subst rest. unfold J. simpl map. rewrite join_one. rewrite HIa.
        rewrite sem_path_cons. unfold is_name. rewrite EO. reflexivity. }
      destruct (str_eqb n (L "Result")) eqn:ER.
      { apply str_eqb_eq in ER. unfold J. rewrite result_ok_join by auto. rewrite HIa.
        rewrite sem_path_cons. unfold is_name. rewrite EO.
        replace (str_eqb n (L "Result")) with true by (symmetry; apply str_eqb_eq; exact ER). reflexivity. }
      destruct (str_eqb n (L "Vec")) eqn:EV.
      { apply str_eqb_eq in EV.
        assert (rest = []) by (destruct rest; auto; exfalso; assert (one_of n unary_names = true) by (rewrite EV; reflexivity); specialize (Har1 H); simpl in Har1; lia).
        subst rest. unfold J. simpl map. rewrite join_one. rewrite HIa.
        rewrite sem_path_cons. unfold is_name. rewrite EO, ER.
        replace (str_eqb n (L "Vec")) with true by (symmetry; apply str_eqb_eq; exact EV). reflexivity. }
      assert (Hmapcase : forall v, rest = [v] ->
                map_kv J = Some (tts a, tts v) /\ parse2 f (tts v) = Some (sem v)).
      { intros v ->. split.
        - unfold J. inversion Hwrest; subst. apply map_kv_join; auto.
        - inversion HIrest; auto. }
      destruct (str_eqb n (L "HashMap")) eqn:EH.
      { apply str_eqb_eq in EH.
        assert (Hm : one_of n map_names = true) by (rewrite EH; reflexivity).
        destruct (Har2 Hm) as [|(k & v & E & Hmk)]; [discriminate|]. inversion E; subst k rest.
        destruct (Hmapcase v eq_refl) as [Hs Hv]. rewrite Hs, HIa, Hv.
        rewrite sem_path_cons. unfold is_name. rewrite EO, ER, EV.
        replace (str_eqb n (L "HashMap")) with true by (symmetry; apply str_eqb_eq; exact EH). reflexivity. }
      destruct (str_eqb n (L "BTreeMap")) eqn:EB.
      { apply str_eqb_eq in EB.
        assert (Hm : one_of n map_names = true) by (rewrite EB; reflexivity).
        destruct (Har2 Hm) as [|(k & v & E & Hmk)]; [discriminate|]. inversion E; subst k rest.
        destruct (Hmapcase v eq_refl) as [Hs Hv]. rewrite Hs, HIa, Hv.
        rewrite sem_path_cons. unfold is_name. rewrite EO, ER, EV, EH.
        replace (str_eqb n (L "BTreeMap")) with true by (symmetry; apply str_eqb_eq; exact EB). reflexivity. }
      destruct (str_eqb n (L "HashSet")) eqn:ES.
      { apply str_eqb_eq in ES.
        assert (rest = []) by (destruct rest; auto; exfalso; assert (one_of n unary_names = true) by (rewrite ES; reflexivity); specialize (Har1 H); simpl in Har1; lia).
        subst rest. unfold J. simpl map. rewrite join_one. rewrite HIa.
        rewrite sem_path_cons. unfold is_name. rewrite EO, ER, EV, EH, EB.
        replace (str_eqb n (L "HashSet")) with true by (symmetry; apply str_eqb_eq; exact ES). reflexivity. }
      destruct (str_eqb n (L "BTreeSet")) eqn:ET.
      { apply str_eqb_eq in ET.
        assert (rest = []) by (destruct rest; auto; exfalso; assert (one_of n unary_names = true) by (rewrite ET; reflexivity); specialize (Har1 H); simpl in Har1; lia).
        subst rest. unfold J. simpl map. rewrite join_one. rewrite HIa.
        rewrite sem_path_cons. unfold is_name. rewrite EO, ER, EV, EH, EB, ES.
        replace (str_eqb n (L "BTreeSet")) with true by (symmetry; apply str_eqb_eq; exact ET). reflexivity. }
      rewrite Hpar, Hprim. simpl andb. cbv iota.
      rewrite sem_path_cons. unfold is_name. rewrite EO, ER, EV, EH, EB, ES, ET. simpl orb. cbv iota.
      rewrite tts_path_cons. reflexivity.
  - (* ref *)
    rewrite tts_ref. cbn [L list_ascii_of_string starts Ascii.eqb Bool.eqb andb skipn].
    cbn [wf] in Hw. cbn [nobr] in Hb. simpl in Hf. apply IH; auto. lia.
  - (* tuple *)
    change (wf (RTuple l)) with ((fix go l := match l with [] => True | x :: l' => wf x /\ go l' end) l) in Hw.
    change (nobr (RTuple l)) with ((fix go l := match l with [] => True | x :: l' => nobr x /\ go l' end) l) in Hb.
    apply wf_list in Hw. apply nobr_list in Hb.
    destruct l as [|a l].
    + reflexivity.
    + rewrite tts_tuple. set (J := join (L ", ") (map tts (a :: l))).
      assert (Hends : ends_with ")" ("(" :: J ++ [")"]) = true).
      { change ("(" :: J ++ [")"]) with (("(" :: J) ++ [")"]). apply ends_with_snoc. }
      assert (Hend2 : ends_with ">" ("(" :: J ++ [")"]) = false).
      { change ("(" :: J ++ [")"]) with (("(" :: J) ++ [")"]). apply ends_with_snoc_ne. discriminate. }
      unfold wrapped.
      cbn [L list_ascii_of_string starts Ascii.eqb Bool.eqb andb]. rewrite Hends. cbv iota.
      assert (Hmid : mid 1 1 ("(" :: J ++ [")"]) = J) by (apply (mid_wrap ["("] J [")"])).
      rewrite Hmid.
      assert (HIH : Forall (fun t => parse2 f (tts t) = Some (sem t)) (a :: l)).
      { rewrite Forall_forall in *. intros x Hx. apply IH; auto.
        simpl in Hf. pose proof (max_fold_le (a :: l) x Hx). simpl in H. lia. }
      assert (Hnb : all_blank J = false).
      { unfold J. inversion Hw; subst. destruct (tts_tight a H1) as (Hne & Ht & _).
        destruct (tts a) as [|x r] eqn:E; [congruence|].
        destruct l; [simpl map; rewrite join_one | change (map tts (a :: r0 :: l)) with (tts a :: tts r0 :: map tts l); rewrite join_cons2];
          rewrite E; simpl; simpl in Ht; destruct (is_space x); auto; exfalso;
          pose proof (trim_l_len r) as Hlen; rewrite Ht in Hlen; simpl in Hlen; lia. }
      rewrite Hnb. unfold J. rewrite tuple_parts_join by auto.
      rewrite mapM_parse2 by auto. reflexivity.
Qed.
