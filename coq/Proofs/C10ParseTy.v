(* C10 deepening, TypeScript side, token level: a canonical token printer [pr] for the type trees the
   plain renderer denotes, and the round trip  p_type f (pr t ++ rest) = Some (t, rest)  through the
   specification parser of TT.Spec.TsModule, for every normal-form tree whose nesting fits the fuel. *)
From Coq Require Import String Ascii.
From Coq Require Import List Arith Lia Bool.
Require Import TT.Model.Str TT.Proofs.StrFacts TT.Spec.TsLex TT.Spec.TsModule TT.Spec.TsObs.
Import ListNotations.
Local Open Scope list_scope.

Definition kp (s : string) : tk := KP (L s).
Fixpoint sepk (s : tk) (l : list (list tk)) : list tk :=
  match l with [] => [] | [x] => x | x :: r => x ++ s :: sepk s r end.

Fixpoint pr (t : ty) : list tk :=
  match t with
  | TyRef [n] [] => [KId n]
  | TyRef [n] args => KId n :: kp "<" :: sepk (kp ",") (map pr args) ++ [kp ">"]
  | TyArr x => pr x ++ [kp "["; kp "]"]
  | TyTuple l => kp "[" :: sepk (kp ",") (map pr l) ++ [kp "]"]
  | TyUnion l => sepk (kp "|") (map pr l)
  | _ => []
  end.

(* identifiers the type parser reads as a plain name *)
Definition idn (n : str) : Prop := is_ts_identifier n = true /\ str_eqb n (L "typeof") = false.
Definition post_level (t : ty) : bool :=
  match t with TyRef _ _ | TyArr _ | TyTuple _ => true | _ => false end.

Fixpoint nf (t : ty) : Prop :=
  match t with
  | TyRef [n] args => idn n /\ (fix go (l : list ty) : Prop := match l with [] => True | x :: r => nf x /\ go r end) args
  | TyArr x => nf x /\ post_level x = true
  | TyTuple l => l <> [] /\ (fix go (l : list ty) : Prop := match l with [] => True | x :: r => nf x /\ go r end) l
  | TyUnion l => 2 <= List.length l /\
                 (fix go (l : list ty) : Prop := match l with [] => True | x :: r => (nf x /\ post_level x = true) /\ go r end) l
  | _ => False
  end.
Fixpoint nest (t : ty) : nat :=
  match t with
  | TyRef _ [] => 0
  | TyRef _ args => S (fold_right (fun x acc => Nat.max (nest x) acc) 0 args)
  | TyArr x => nest x
  | TyTuple l => S (fold_right (fun x acc => Nat.max (nest x) acc) 0 l)
  | TyUnion l => fold_right (fun x acc => Nat.max (nest x) acc) 0 l
  | _ => 0
  end.
Definition maxnest (l : list ty) : nat := fold_right (fun x acc => Nat.max (nest x) acc) 0 l.

Lemma nf_list_Forall l : (fix go (l : list ty) : Prop := match l with [] => True | x :: r => nf x /\ go r end) l <-> Forall nf l.
Proof. induction l as [|x r IH]; split; intros H; auto. destruct H; constructor; tauto. inversion H; subst; tauto. Qed.
Lemma nfp_list_Forall l :
  (fix go (l : list ty) : Prop := match l with [] => True | x :: r => (nf x /\ post_level x = true) /\ go r end) l
  <-> Forall (fun x => nf x /\ post_level x = true) l.
Proof. induction l as [|x r IH]; split; intros H; auto. destruct H; constructor; tauto. inversion H; subst; tauto. Qed.

(* ---- induction over the nested type, only through the constructors of normal forms ---- *)
Section TyInd.
  Variable P : ty -> Prop.
  Hypothesis Href : forall p args, Forall P args -> P (TyRef p args).
  Hypothesis Harr : forall x, P x -> P (TyArr x).
  Hypothesis Htup : forall l, Forall P l -> P (TyTuple l).
  Hypothesis Huni : forall l, Forall P l -> P (TyUnion l).
  Hypothesis Hlit : forall s, P (TyLit s).
  Hypothesis Htof : forall p, P (TyTypeof p).
  Hypothesis Hfun : forall ps r, P (TyFun ps r).
  Hypothesis Hobj : forall ms ix, P (TyObj ms ix).
  Fixpoint ty_ind2 (t : ty) : P t :=
    let go := fix go (l : list ty) : Forall P l :=
                match l with [] => Forall_nil _ | x :: r => Forall_cons _ (ty_ind2 x) (go r) end in
    match t with
    | TyRef p args => Href p args (go args)
    | TyArr x => Harr x (ty_ind2 x)
    | TyTuple l => Htup l (go l)
    | TyUnion l => Huni l (go l)
    | TyLit s => Hlit s | TyTypeof p => Htof p | TyFun ps r => Hfun ps r | TyObj ms ix => Hobj ms ix
    end.
End TyInd.

(* ---- token tests ---- *)
Lemma ident_not_single k c : is_ts_identifier k = true -> is_id_start c = false -> str_eqb k [c] = false.
Proof. intros Hk Hc. unfold str_eqb. destruct (list_eq_dec ascii_dec k [c]) as [->|]; [|reflexivity].
  cbn [is_ts_identifier forallb] in Hk. rewrite Hc in Hk. discriminate. Qed.
Lemma tk_is_id (s : string) c k : L s = [c] -> is_id_start c = false -> is_ts_identifier k = true -> tk_is s (KId k) = false.
Proof. intros Hs Hc Hk. unfold tk_is. rewrite Hs. apply ident_not_single; assumption. Qed.

(* what may follow a complete type / a complete postfix-level type *)
Definition stop_post (rest : list tk) : Prop :=
  match rest with [] => True | c :: _ => tk_is "[" c = false /\ tk_is "." c = false /\ tk_is "<" c = false end.
Definition stop (rest : list tk) : Prop :=
  match rest with [] => True | c :: _ => tk_is "|" c = false /\ tk_is "[" c = false /\ tk_is "." c = false /\ tk_is "<" c = false end.
Lemma stop_stop_post rest : stop rest -> stop_post rest.
Proof. destruct rest; cbn; tauto. Qed.

Lemma p_path_stop n acc l : match l with c :: _ => tk_is "." c = false | [] => True end -> p_path n acc l = (rev acc, l).
Proof.
  intros H. destruct n; [reflexivity|]. cbn [p_path]. destruct l as [|c r]; [reflexivity|].
  destruct c as [s|q b|s|b|d|w]; try reflexivity. destruct r as [|c2 r2]; [reflexivity|].
  destruct c2; try reflexivity. unfold tk_is in H. rewrite H. reflexivity.
Qed.

Lemma p_suffix_stop n t l : match l with c :: _ => tk_is "[" c = false | [] => True end -> p_suffix n t l = (t, l).
Proof.
  intros H. destruct n; [reflexivity|]. cbn [p_suffix]. destruct l as [|a r]; [reflexivity|].
  destruct r as [|b r']; [reflexivity|]. rewrite H. reflexivity.
Qed.
Lemma p_suffix_arr n t r : p_suffix (S n) t (kp "[" :: kp "]" :: r) = p_suffix n (TyArr t) r.
Proof. reflexivity. Qed.

Lemma p_primary_tuple rec c r1 : tk_is "]" c = false ->
  p_primary rec (kp "[" :: c :: r1) =
  match p_tylist rec "]" (S (List.length (c :: r1))) (c :: r1) [] with Some (ts, r2) => Some (TyTuple ts, r2) | None => None end.
Proof. intros H. unfold kp. cbn [p_primary]. assert (tk_is "(" (KP (L "[")) = false) as -> by reflexivity.
  assert (tk_is "[" (KP (L "[")) = true) as -> by reflexivity. rewrite H. reflexivity. Qed.

Section Round.
  Variable f : nat.
  Let rec := p_type f.

  (* the comma separated list inside <..> or [..] *)
  Lemma p_tylist_ok (close : string) (cl : ascii) :
    L close = [cl] -> is_id_start cl = false ->
    tk_is "|" (kp close) = false -> tk_is "[" (kp close) = false -> tk_is "." (kp close) = false -> tk_is "<" (kp close) = false ->
    tk_is "," (kp close) = false -> tk_is close (kp ",") = false -> tk_is close (kp close) = true ->
    forall args, args <> [] ->
    Forall (fun a => forall rest, stop rest -> rec (pr a ++ rest) = Some (a, rest)) args ->
    forall n acc rest, List.length args <= n ->
    p_tylist rec close n (sepk (kp ",") (map pr args) ++ kp close :: rest) acc = Some (rev acc ++ args, rest).
  Proof.
    intros Hcl Hcs H1 H2 H3 H4 H5 H6 H7.
    induction args as [|a r IH]; intros Hne HF n acc rest Hn; [congruence|].
    inversion HF as [|? ? Ha Hr]; subst. destruct n as [|n]; [cbn in Hn; lia|].
    destruct r as [|b r'].
    - cbn [map sepk p_tylist]. rewrite Ha by (cbn; auto). rewrite H5, H7. reflexivity.
    - change (sepk (kp ",") (map pr (a :: b :: r'))) with (pr a ++ kp "," :: sepk (kp ",") (map pr (b :: r'))).
      rewrite <- app_assoc. cbn [app p_tylist]. rewrite Ha by (cbn; repeat split; reflexivity).
      assert (tk_is "," (kp ",") = true) as -> by reflexivity.
      rewrite IH; [|discriminate|exact Hr|cbn in Hn |- *; lia].
      cbn [rev]. rewrite <- app_assoc. reflexivity.
  Qed.

  (* the alternatives after the first one *)
  Lemma p_alts_ok : forall alts n acc rest,
    Forall (fun a => forall rest, stop_post rest -> p_postfix rec (pr a ++ rest) = Some (a, rest)) alts ->
    List.length alts < n -> stop rest ->
    p_alts rec n (flat_map (fun a => kp "|" :: pr a) alts ++ rest) acc = Some (rev acc ++ alts, rest).
  Proof.
    induction alts as [|a r IH]; intros n acc rest HF Hn Hs.
    - destruct n; [lia|]. cbn [flat_map app p_alts]. rewrite app_nil_r.
      destruct rest as [|c rest']; [reflexivity|]. destruct Hs as [Hb _]. rewrite Hb. reflexivity.
    - inversion HF as [|? ? Ha Hr]; subst. destruct n; [cbn in Hn; lia|].
      cbn [flat_map]. rewrite <- app_assoc. cbn [app p_alts].
      assert (tk_is "|" (kp "|") = true) as -> by reflexivity.
      rewrite Ha.
      + rewrite IH; [|exact Hr|cbn in Hn; lia|exact Hs]. cbn [rev]. rewrite <- app_assoc. reflexivity.
      + destruct r as [|b r']; cbn [flat_map app].
        * apply stop_stop_post. exact Hs.
        * cbn. repeat split; reflexivity.
  Qed.
End Round.

Lemma sepk_bar l a : a :: l <> [] ->
  sepk (kp "|") (map pr (a :: l)) = pr a ++ flat_map (fun x => kp "|" :: pr x) l.
Proof.
  intros _. revert a. induction l as [|b r IH]; intros a; [cbn; rewrite app_nil_r; reflexivity|].
  change (sepk (kp "|") (map pr (a :: b :: r))) with (pr a ++ kp "|" :: sepk (kp "|") (map pr (b :: r))).
  rewrite IH. reflexivity.
Qed.

Lemma pr_head_id_or_br t : nf t -> exists c r, pr t = c :: r /\ tk_is "|" c = false /\ tk_is "]" c = false.
Proof.
  induction t as [p args IH|x IH|l IH|l IH|s|p|ps r|ms ix] using ty_ind2; cbn [nf]; try tauto.
  - destruct p as [|n [|? ?]]; try tauto. intros [[Hn _] _]. destruct args; eexists; eexists; (split; [reflexivity|]);
      split; [apply (tk_is_id "|" "|"%char)|apply (tk_is_id "]" "]"%char)|apply (tk_is_id "|" "|"%char)|apply (tk_is_id "]" "]"%char)]; auto.
  - intros [Hx _]. destruct (IH Hx) as [c [r [E Hc]]]. exists c, (r ++ [kp "["; kp "]"]). cbn [pr]. rewrite E. split; [reflexivity|exact Hc].
  - intros _. eexists; eexists; split; [reflexivity|split; reflexivity].
  - intros [Hl Hg]. apply nfp_list_Forall in Hg. destruct l as [|a l']; [cbn in Hl; lia|].
    inversion Hg as [|? ? [Ha _] _]; subst. inversion IH as [|? ? IHa _]; subst. destruct (IHa Ha) as [c [r [E Hc]]].
    cbn [pr]. rewrite sepk_bar by discriminate. rewrite E. eexists; eexists; split; [reflexivity|exact Hc].
Qed.

Lemma sepk_len (s : tk) (l : list (list tk)) : List.length l <= S (List.length (sepk s l)).
Proof.
  induction l as [|x r IH]; [cbn; lia|]. destruct r as [|y r']; [cbn; lia|].
  change (sepk s (x :: y :: r')) with (x ++ s :: sepk s (y :: r')). rewrite app_length. cbn [List.length] in *. lia.
Qed.
Lemma alts_len (l : list ty) : List.length l <= List.length (flat_map (fun a => kp "|" :: pr a) l).
Proof. induction l as [|a r IH]; [cbn; lia|]. cbn [flat_map List.length]. rewrite app_length. cbn [List.length]. lia. Qed.

(* ---- the round trip ---- *)
Definition brs (k : nat) : list tk := concat (repeat [kp "["; kp "]"] k).
Lemma brs_S k : brs (S k) = kp "[" :: kp "]" :: brs k. Proof. reflexivity. Qed.
Lemma brs_len k : List.length (brs k) = 2 * k.
Proof. induction k; [reflexivity|]. rewrite brs_S. cbn [List.length]. rewrite IHk. lia. Qed.
Lemma iter_succ_r {A} (g : A -> A) k x : Nat.iter (S k) g x = Nat.iter k g (g x).
Proof. induction k as [|k IH]; [reflexivity|]. simpl in *. f_equal. exact IH. Qed.
Lemma p_suffix_brs : forall k n t rest, k <= n -> match rest with c :: _ => tk_is "[" c = false | [] => True end ->
  p_suffix n t (brs k ++ rest) = (Nat.iter k TyArr t, rest).
Proof.
  induction k as [|k IH]; intros n t rest Hn Hs.
  - cbn [brs repeat concat app]. apply p_suffix_stop; exact Hs.
  - destruct n; [lia|]. rewrite brs_S. cbn [app]. rewrite p_suffix_arr. rewrite IH by (try lia; exact Hs).
    rewrite iter_succ_r. reflexivity.
Qed.
Lemma after_prim_ok k rest : stop_post rest ->
  match brs k ++ rest with c :: _ => tk_is "." c = false /\ tk_is "<" c = false | [] => True end.
Proof. intros Hs. destruct k; [|split; reflexivity]. cbn. destruct rest; [exact I|]. cbn in Hs. tauto. Qed.

Definition RT (t : ty) : Prop :=
  nf t ->
  (forall f rest, nest t < f -> stop rest -> p_type f (pr t ++ rest) = Some (t, rest)) /\
  (post_level t = true -> forall f rest k, nest t <= f -> stop_post rest ->
     p_postfix (p_type f) (pr t ++ brs k ++ rest) = Some (Nat.iter k TyArr t, rest)).

Lemma type_of_postfix t : nf t -> post_level t = true ->
  (forall f rest, nest t <= f -> stop_post rest -> p_postfix (p_type f) (pr t ++ rest) = Some (t, rest)) ->
  forall f rest, nest t < f -> stop rest -> p_type f (pr t ++ rest) = Some (t, rest).
Proof.
  intros Hnf Hp H f rest Hf Hs. destruct f as [|f]; [lia|]. cbn [p_type]. unfold p_type_body.
  destruct (pr_head_id_or_br t Hnf) as [c [r [E [Hc _]]]]. rewrite E. cbn [app]. rewrite Hc. rewrite (app_comm_cons r rest c), <- E.
  rewrite H by (try lia; apply stop_stop_post; exact Hs).
  pose proof (p_alts_ok f [] (S (List.length rest)) [] rest (Forall_nil _)) as Ha. cbn [flat_map app rev] in Ha.
  rewrite Ha by (try (cbn; lia); exact Hs). reflexivity.
Qed.

Lemma maxnest_le l x : In x l -> nest x <= maxnest l.
Proof. induction l as [|a r IH]; cbn; [tauto|]. intros [->|H]; [lia|]. specialize (IH H). unfold maxnest in IH. lia. Qed.

Lemma k0 (t : ty) rest : pr t ++ brs 0 ++ rest = pr t ++ rest. Proof. reflexivity. Qed.

Lemma round_trip : forall t, RT t.
Proof.
  induction t as [p args IH|x IH|l IH|l IH|s|p|ps r|ms ix] using ty_ind2; unfold RT; cbn [nf]; try tauto.
  - (* reference, possibly generic *)
    destruct p as [|n [|? ?]]; try tauto. intros [[Hid Htof] Hargs]. apply nf_list_Forall in Hargs.
    assert (Hpost : forall f rest k, nest (TyRef [n] args) <= f -> stop_post rest ->
                    p_postfix (p_type f) (pr (TyRef [n] args) ++ brs k ++ rest) = Some (Nat.iter k TyArr (TyRef [n] args), rest)).
    { intros f rest k Hf Hs. unfold p_postfix. destruct args as [|a args'].
      - cbn [pr app p_primary]. rewrite Htof. pose proof (after_prim_ok k rest Hs) as Hap.
        rewrite p_path_stop by (destruct (brs k ++ rest) as [|c ?]; [exact I|apply Hap]). cbn [rev app].
        assert (p_suffix (List.length (brs k ++ rest)) (TyRef [n] []) (brs k ++ rest) = (Nat.iter k TyArr (TyRef [n] []), rest)) as Hsu.
        { apply p_suffix_brs; [rewrite app_length, brs_len; lia|]. destruct rest as [|c ?]; [exact I|apply Hs]. }
        destruct (brs k ++ rest) as [|c rest'] eqn:E; [rewrite Hsu; reflexivity|].
        destruct Hap as [_ H3]. rewrite H3. rewrite Hsu. reflexivity.
      - remember (a :: args') as args eqn:Ea.
        assert (pr (TyRef [n] args) = KId n :: kp "<" :: sepk (kp ",") (map pr args) ++ [kp ">"]) as -> by (subst; reflexivity).
        cbn [app p_primary]. rewrite Htof. rewrite p_path_stop by reflexivity. cbn [rev app].
        assert (tk_is "<" (kp "<") = true) as -> by reflexivity.
        rewrite <- app_assoc. cbn [app].
        assert (nest (TyRef [n] args) = S (maxnest args)) as Hn by (subst; reflexivity). rewrite Hn in Hf.
        destruct f as [|f]; [lia|].
        rewrite (p_tylist_ok (S f) ">" ">"%char) with (acc := []); try reflexivity.
        + cbn [rev app]. rewrite p_suffix_brs; [reflexivity|rewrite app_length, brs_len; lia|destruct rest as [|c ?]; [exact I|apply Hs]].
        + subst; discriminate.
        + rewrite Forall_forall in *. intros x Hx rest0 Hs0. destruct (IH x Hx (Hargs x Hx)) as [H1 _].
          apply H1; [|exact Hs0]. pose proof (maxnest_le args x Hx). lia.
        + rewrite app_length. pose proof (sepk_len (kp ",") (map pr args)). rewrite map_length in *. lia. }
    split; [|intros _; exact Hpost].
    apply type_of_postfix; [cbn [nf]; split; [split; assumption|apply nf_list_Forall; assumption]|reflexivity|].
    intros f rest Hf Hs. rewrite <- k0. apply (Hpost f rest 0); assumption.
  - (* array suffix *)
    intros [Hx Hpx]. destruct (IH Hx) as [_ IHp]. specialize (IHp Hpx).
    assert (Hpost : forall f rest k, nest (TyArr x) <= f -> stop_post rest ->
                    p_postfix (p_type f) (pr (TyArr x) ++ brs k ++ rest) = Some (Nat.iter k TyArr (TyArr x), rest)).
    { intros f rest k Hf Hs. cbn [pr nest] in *. rewrite <- app_assoc.
      change ([kp "["; kp "]"] ++ brs k ++ rest) with (brs (S k) ++ rest).
      rewrite IHp by assumption. rewrite iter_succ_r. reflexivity. }
    split; [|intros _; exact Hpost].
    apply type_of_postfix; [cbn [nf]; tauto|reflexivity|].
    intros f rest Hf Hs. rewrite <- k0. apply (Hpost f rest 0); assumption.
  - (* tuple *)
    intros [Hne Hl]. apply nf_list_Forall in Hl.
    assert (Hpost : forall f rest k, nest (TyTuple l) <= f -> stop_post rest ->
                    p_postfix (p_type f) (pr (TyTuple l) ++ brs k ++ rest) = Some (Nat.iter k TyArr (TyTuple l), rest)).
    { intros f rest k Hf Hs. unfold p_postfix. destruct l as [|a l']; [congruence|].
      remember (a :: l') as l0 eqn:El.
      assert (pr (TyTuple l0) = kp "[" :: sepk (kp ",") (map pr l0) ++ [kp "]"]) as -> by reflexivity.
      assert (nest (TyTuple l0) = S (maxnest l0)) as Hn by reflexivity. rewrite Hn in Hf.
      destruct f as [|f]; [lia|].
      cbn [app]. rewrite <- app_assoc. cbn [app].
      remember (sepk (kp ",") (map pr l0) ++ kp "]" :: brs k ++ rest) as R eqn:ER.
      assert (HR : exists c r1, R = c :: r1 /\ tk_is "]" c = false).
      { destruct (pr_head_id_or_br a) as [c [r [E [_ Hc]]]]. { subst l0. inversion Hl; assumption. }
        subst R l0. destruct l' as [|b l'']; cbn [map sepk]; rewrite E; eexists; eexists; (split; [reflexivity|exact Hc]). }
      destruct HR as [c [r1 [EC Hc]]]. rewrite EC. rewrite (p_primary_tuple _ c r1 Hc). rewrite <- EC. subst R.
      rewrite (p_tylist_ok (S f) "]" "]"%char) with (acc := []); try reflexivity.
      + cbn [rev app]. rewrite p_suffix_brs; [reflexivity|rewrite app_length, brs_len; lia|destruct rest as [|c0 ?]; [exact I|apply Hs]].
      + subst; discriminate.
      + rewrite Forall_forall in *. intros x Hx rest0 Hs0. destruct (IH x Hx (Hl x Hx)) as [H1 _].
        apply H1; [|exact Hs0]. pose proof (maxnest_le l0 x Hx). lia.
      + rewrite app_length. pose proof (sepk_len (kp ",") (map pr l0)). rewrite map_length in *. lia. }
    split; [|intros _; exact Hpost].
    apply type_of_postfix; [cbn [nf]; split; [assumption|apply nf_list_Forall; assumption]|reflexivity|].
    intros f rest Hf Hs. rewrite <- k0. apply (Hpost f rest 0); assumption.
  - (* union *)
    intros [Hlen Hl]. apply nfp_list_Forall in Hl. split; [|discriminate].
    intros f rest Hf Hs. destruct l as [|a [|b l'']]; try (cbn in Hlen; lia).
    assert (nest (TyUnion (a :: b :: l'')) = maxnest (a :: b :: l'')) as Hn by reflexivity. rewrite Hn in Hf.
    destruct f as [|f]; [lia|]. cbn [p_type pr]. rewrite sepk_bar by discriminate. unfold p_type_body.
    rewrite Forall_forall in Hl, IH.
    assert (HPF : forall x, In x (a :: b :: l'') -> forall rest0, stop_post rest0 -> p_postfix (p_type f) (pr x ++ rest0) = Some (x, rest0)).
    { intros x Hx rest0 Hs0. destruct (Hl x Hx) as [Hnx Hpx]. destruct (IH x Hx Hnx) as [_ H2].
      rewrite <- k0. apply (H2 Hpx f rest0 0); [|exact Hs0]. pose proof (maxnest_le _ x Hx). lia. }
    destruct (pr_head_id_or_br a) as [c [r [E [Hc _]]]]. { apply Hl. left; reflexivity. }
    rewrite <- app_assoc. rewrite E. cbn [app]. rewrite Hc. rewrite (app_comm_cons r _ c), <- E.
    rewrite HPF; [|left; reflexivity|cbn; repeat split; reflexivity].
    rewrite (p_alts_ok f (b :: l'')) with (acc := []).
    + reflexivity.
    + apply Forall_forall. intros x Hx. apply HPF. right; exact Hx.
    + rewrite app_length. pose proof (alts_len (b :: l'')). lia.
    + exact Hs.
Qed.

(* the statement used by the string-level theorems *)
Theorem ptype_pr t : nf t -> nest t < TYF -> ptype (pr t) = Some (t, []).
Proof.
  intros Hnf Hn. destruct (round_trip t Hnf) as [H _]. specialize (H TYF [] Hn I). rewrite app_nil_r in H. exact H.
Qed.
