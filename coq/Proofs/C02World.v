(* C02: from the premise of the property text (closed world) to the side condition of the
   model-level theorem (every mentioned custom name is declared). Uses, read-only, the theorems of
   the C07 worker about the repaired parser and harvester (parse_tts_faithful, harvest_names). *)
From Coq Require Import String Ascii.
From Coq Require Import List Arith Lia Bool.
Require Import TT.Model.Str TT.Model.C07TypeParse TT.Model.C07Harvest TT.Model.Pipeline.
Require Import TT.Spec.TsLex TT.Spec.TsModule TT.Spec.TsObs TT.Spec.C02Closed TT.Model.C02Model TT.Spec.C02Domain.
Require Import TT.Proofs.C02Reflect TT.Proofs.C02Proofs.
Require TT.Proofs.C07TypeParseProofs TT.Proofs.C07HarvestProofs TT.Proofs.C07Agree.
Module TP := TT.Proofs.C07TypeParseProofs.
Module HP := TT.Proofs.C07HarvestProofs.
Import ListNotations.
Local Open Scope list_scope.

(* ---------------- nested induction on the type syntax ---------------- *)
Section QtyInd.
  Variable P : qty -> Prop.
  Hypothesis HP_ : forall segs n angle args, Forall P args -> P (QPath segs n angle args).
  Hypothesis HR_ : forall t, P t -> P (QRef t).
  Hypothesis HT_ : forall l, Forall P l -> P (QTuple l).
  Fixpoint qty_ind' (t : qty) : P t :=
    match t with
    | QPath segs n angle args => HP_ segs n angle args ((fix go l : Forall P l := match l with [] => Forall_nil _ | x :: l' => Forall_cons _ (qty_ind' x) (go l') end) args)
    | QRef t => HR_ t (qty_ind' t)
    | QTuple l => HT_ l ((fix go l : Forall P l := match l with [] => Forall_nil _ | x :: l' => Forall_cons _ (qty_ind' x) (go l') end) l)
    end.
End QtyInd.

Lemma ident_ok : forall n, ident_b n = true -> TP.ident n.
Proof. intros n H. unfold ident_b in H. apply andb_true_iff in H. destruct H as [Hn Hf]. split.
  - destruct n; [discriminate|discriminate].
  - rewrite forallb_forall in Hf. apply Forall_forall. intros c Hc. specialize (Hf c Hc). apply negb_true_iff in Hf. exact Hf. Qed.

Lemma imp_b : forall a b : bool, negb a || b = true -> a = true -> b = true.
Proof. intros [|] [|]; simpl; auto; discriminate. Qed.

Lemma arity_ok_b : forall n args, arity_b n args = true -> TP.arity_ok n args.
Proof. intros n args H. unfold arity_b in H. rewrite !andb_true_iff in H. destruct H as [[H1 H2] H3]. split; [|split].
  - intros Hu. apply Nat.leb_le. eapply imp_b; eauto.
  - intros Hm. pose proof (imp_b _ _ H2 Hm) as Hk. destruct args as [|k [|v [|w r]]]; try discriminate.
    + left. reflexivity.
    + right. exists k, v. split; [reflexivity|]. apply negb_true_iff. exact Hk.
  - intros Hr. apply Nat.leb_le. eapply imp_b; eauto. Qed.

Lemma forallb_Forall : forall {A} (f : A -> bool) l, forallb f l = true -> Forall (fun x => f x = true) l.
Proof. intros A f l H. apply Forall_forall. rewrite forallb_forall in H. exact H. Qed.

Lemma map_tts_ext : forall l, Forall (fun q => q_ok q = true -> qtts q = tts (to_rty7 q)) l -> forallb q_ok l = true ->
  map qtts l = map tts (map to_rty7 l).
Proof. induction l as [|a l IH]; intros HF Hb; [reflexivity|]. inversion HF; subst. cbn [forallb] in Hb. apply andb_true_iff in Hb.
  destruct Hb as [Ha Hl]. cbn [map]. f_equal; auto. Qed.

Lemma q_ok_facts : forall q, q_ok q = true ->
  TP.wf (to_rty7 q) /\ HP.heads_known (to_rty7 q) /\ qtts q = tts (to_rty7 q).
Proof. induction q as [segs n angle args IH|t IH|l IH] using qty_ind'; intros H.
  - cbn [q_ok] in H. rewrite !andb_true_iff in H. destruct H as [[[[[Hs Ha] Hi] Har] Hc] Hl].
    destruct segs; [|discriminate]. clear Hs.
    assert (Forall (fun q => TP.wf (to_rty7 q)) args /\ Forall (fun q => HP.heads_known (to_rty7 q)) args /\
            Forall (fun q => q_ok q = true -> qtts q = tts (to_rty7 q)) args) as [Hw [Hk Ht]].
    { rewrite forallb_forall in Hl. rewrite Forall_forall in IH. repeat split; apply Forall_forall; intros x Hx; destruct (IH x Hx (Hl x Hx)) as [A [B C]]; auto. }
    pose proof (map_tts_ext args Ht Hl) as Hm.
    cbn [to_rty7]. destruct args as [|a rest].
    + cbn [is_nil negb] in Ha, Hc. apply eqb_prop in Ha. subst angle. cbn [map]. split; [|split].
      * cbn [TP.wf]. split; [apply ident_ok; exact Hi|]. split; [apply arity_ok_b; exact Har|exact Logic.I].
      * exact Logic.I.
      * reflexivity.
    + cbn [is_nil negb] in Ha, Hc. apply eqb_prop in Ha. subst angle. apply eqb_prop in Hc. split; [|split].
      * cbn [TP.wf]. split; [apply ident_ok; exact Hi|]. split; [apply arity_ok_b; exact Har|].
        apply TP.wf_list. apply Forall_forall. intros r Hr. apply in_map_iff in Hr. destruct Hr as [q [<- Hq]].
        rewrite Forall_forall in Hw. apply Hw. exact Hq.
      * change (HP.heads_known (RPath n (to_rty7 a :: map to_rty7 rest))). cbn [HP.heads_known]. split; [exact Hc|].
        apply (HP.hk_list (to_rty7 a :: map to_rty7 rest)). apply Forall_forall. intros r Hr.
        change (In r (map to_rty7 (a :: rest))) in Hr. apply in_map_iff in Hr. destruct Hr as [q [<- Hq]].
        rewrite Forall_forall in Hk. apply Hk. exact Hq.
      * cbn [qtts app]. rewrite Hm. reflexivity.
  - cbn [q_ok to_rty7] in *. destruct (IH H) as [A [B C]]. split; [exact A|]. split; [exact B|]. cbn [qtts tts]. rewrite C. reflexivity.
  - cbn [q_ok] in H.
    assert (Forall (fun q => TP.wf (to_rty7 q)) l /\ Forall (fun q => HP.heads_known (to_rty7 q)) l /\
            Forall (fun q => q_ok q = true -> qtts q = tts (to_rty7 q)) l) as [Hw [Hk Ht]].
    { rewrite forallb_forall in H. rewrite Forall_forall in IH. repeat split; apply Forall_forall; intros x Hx; destruct (IH x Hx (H x Hx)) as [A [B C]]; auto. }
    pose proof (map_tts_ext l Ht H) as Hm. cbn [to_rty7]. split; [|split].
    + cbn [TP.wf]. apply TP.wf_list. apply Forall_forall. intros r Hr. apply in_map_iff in Hr. destruct Hr as [q [<- Hq]].
      rewrite Forall_forall in Hw. apply Hw. exact Hq.
    + cbn [HP.heads_known]. apply HP.hk_list. apply Forall_forall. intros r Hr. apply in_map_iff in Hr. destruct Hr as [q [<- Hq]].
      rewrite Forall_forall in Hk. apply Hk. exact Hq.
    + destruct l as [|a r]; [reflexivity|]. cbn [qtts]. rewrite Hm. reflexivity. Qed.

(* ---------------- the three readers of one printed type ---------------- *)
Lemma pts_sem : forall q, q_ok q = true -> pts (qtts q) = TP.sem (to_rty7 q).
Proof. intros q H. destruct (q_ok_facts q H) as [Hw [_ Ht]]. unfold pts, parse_type_structure. rewrite Ht.
  rewrite (TP.parse_tts_faithful _ Hw); [reflexivity|]. pose proof (TT.Proofs.C07Agree.height_le_len _ Hw). lia. Qed.

Lemma harvest_q : forall q, q_ok q = true -> forall x, In x (extract_type_names (qtts q)) <-> In x (names (to_rty7 q)).
Proof. intros q H. destruct (q_ok_facts q H) as [Hw [Hk Ht]]. unfold extract_type_names. rewrite Ht.
  apply HP.harvest_names; auto. pose proof (TT.Proofs.C07Agree.height_le_len _ Hw). lia. Qed.

Ltac eval_is_name_in H :=
  repeat match type of H with
  | context[is_name (L ?a) ?b] => let v := eval vm_compute in (is_name (L a) b) in change (is_name (L a) b) with v in H
  end; cbn [orb] in H.

Lemma in_qnames_arg : forall segs n angle args a x, In a args -> In x (qnames a) -> In x (qnames (QPath segs n angle args)).
Proof. intros. cbn [qnames]. apply in_or_app. right. apply in_flat_map. exists a. auto. Qed.

Lemma cust_raw_qnames : forall q, q_ok q = true -> forall x, In x (cust_raw (TP.sem (to_rty7 q))) -> In x (qnames q).
Proof. induction q as [segs n angle args IH|t IH|l IH] using qty_ind'; intros H x Hx.
  - pose proof H as H0. cbn [q_ok] in H. rewrite !andb_true_iff in H. destruct H as [[[[[Hs Ha] Hi] Har] Hc] Hl].
    rewrite forallb_forall in Hl. rewrite Forall_forall in IH. cbn [to_rty7] in Hx. destruct args as [|a rest].
    + cbn [map TP.sem] in Hx. cbn [is_nil negb] in Hc. apply eqb_prop in Hc. destruct (prim_of n) eqn:Ep.
      * destruct Hx.
      * destruct Hx as [<-|[]]. cbn [qnames flat_map]. unfold is_std. rewrite Ep, Hc. left. reflexivity.
    + cbn [is_nil negb] in Hc. apply eqb_prop in Hc. cbn [map] in Hx, Har. rewrite TP.sem_path_cons in Hx.
      assert (forall y, In y (cust_raw (TP.sem (to_rty7 a))) -> In y (qnames (QPath segs n angle (a :: rest)))) as Ha1.
      { intros y Hy. eapply in_qnames_arg; [left; reflexivity|]. apply IH; [left; reflexivity|apply Hl; left; reflexivity|exact Hy]. }
      destruct (HP.one_of_known n Hc) as [E|[E|[E|[E|[E|[E|E]]]]]]; subst n; eval_is_name_in Hx.
      * destruct rest as [|b r]; [|vm_compute in Har; discriminate]. cbn [map cust_raw] in Hx. auto.
      * cbn [cust_raw] in Hx. auto.
      * destruct rest as [|b r]; [|vm_compute in Har; discriminate]. cbn [map cust_raw] in Hx. auto.
      * destruct rest as [|b [|c r]]; try (vm_compute in Har; discriminate). cbn [map cust_raw] in Hx.
        apply in_app_or in Hx. destruct Hx as [Hx|Hx]; [auto|].
        eapply in_qnames_arg; [right; left; reflexivity|]. apply IH; [right; left; reflexivity|apply Hl; right; left; reflexivity|exact Hx].
      * destruct rest as [|b [|c r]]; try (vm_compute in Har; discriminate). cbn [map cust_raw] in Hx.
        apply in_app_or in Hx. destruct Hx as [Hx|Hx]; [auto|].
        eapply in_qnames_arg; [right; left; reflexivity|]. apply IH; [right; left; reflexivity|apply Hl; right; left; reflexivity|exact Hx].
      * destruct rest as [|b r]; [|vm_compute in Har; discriminate]. cbn [map cust_raw] in Hx. auto.
      * destruct rest as [|b r]; [|vm_compute in Har; discriminate]. cbn [map cust_raw] in Hx. auto.
  - cbn [q_ok to_rty7 TP.sem qnames] in *. auto.
  - cbn [q_ok] in H. rewrite forallb_forall in H. rewrite Forall_forall in IH. cbn [to_rty7] in Hx. destruct l as [|a r].
    + cbn [map TP.sem cust_raw] in Hx. destruct Hx.
    + cbn [map] in Hx. change (In x (cust_raw (TTuple (map TP.sem (map to_rty7 (a :: r)))))) in Hx. cbn [cust_raw] in Hx.
      apply in_flat_map in Hx. destruct Hx as [t [Ht Hxt]]. apply in_map_iff in Ht. destruct Ht as [r0 [<- Hr0]].
      apply in_map_iff in Hr0. destruct Hr0 as [q [<- Hq]]. cbn [qnames]. apply in_flat_map. exists q. split; [exact Hq|]. apply IH; auto. Qed.

Lemma qnames_names : forall q, q_ok q = true -> forall x, In x (qnames q) -> custom_name x = true -> In x (names (to_rty7 q)).
Proof. induction q as [segs n angle args IH|t IH|l IH] using qty_ind'; intros H x Hx Hcn.
  - cbn [q_ok] in H. rewrite !andb_true_iff in H. destruct H as [[[[[Hs Ha] Hi] Har] Hc] Hl].
    rewrite forallb_forall in Hl. rewrite Forall_forall in IH. cbn [qnames] in Hx. cbn [to_rty7]. destruct args as [|a rest].
    + cbn [flat_map] in Hx. rewrite app_nil_r in Hx. destruct (is_std n); [destruct Hx|]. destruct Hx as [<-|[]].
      cbn [map names]. rewrite Hcn. left. reflexivity.
    + cbn [is_nil negb] in Hc. apply eqb_prop in Hc. unfold is_std in Hx. rewrite Hc, orb_true_r in Hx. cbn [app] in Hx.
      cbn [map]. rewrite HP.names_path_cons. apply in_flat_map in Hx. destruct Hx as [q [Hq Hxq]].
      apply in_flat_map. exists (to_rty7 q). split; [change (In (to_rty7 q) (map to_rty7 (a :: rest))); apply in_map; exact Hq|]. apply IH; auto.
  - cbn [q_ok to_rty7 names qnames] in *. auto.
  - cbn [q_ok] in H. rewrite forallb_forall in H. rewrite Forall_forall in IH. cbn [qnames] in Hx. cbn [to_rty7 names].
    apply in_flat_map in Hx. destruct Hx as [q [Hq Hxq]]. apply in_flat_map. exists (to_rty7 q). split; [apply in_map; exact Hq|]. apply IH; auto. Qed.

(* ---------------- small facts ---------------- *)
Lemma customs_facts : forall m t n, In n (customs m t) -> In n (cust_raw t) /\ mapped m n = false.
Proof. intros m. induction t as [s|u IH|k v IHk IHv|u IH|l IH|u IH|u IH|c] using ts_ind'; intros n H; cbn [customs cust_raw] in *; auto.
  - destruct H.
  - apply in_app_or in H. destruct H as [H|H]; [destruct (IHk _ H)|destruct (IHv _ H)]; split; auto; apply in_or_app; auto.
  - apply in_flat_map in H. destruct H as [y [Hy Hn]]. rewrite Forall_forall in IH. destruct (IH y Hy n Hn). split; auto.
    apply in_flat_map. exists y. auto.
  - destruct (mapped m c) eqn:E; [destruct H|]. destruct H as [<-|[]]. split; [left; reflexivity|exact E]. Qed.

Lemma dedup_In : forall l x, In x (dedup l) <-> In x l.
Proof. induction l as [|y r IH]; intros x; cbn [dedup]; [tauto|]. destruct (mem y r) eqn:E.
  - rewrite IH. split; [intros H; right; exact H|]. intros H. destruct H as [<-|H]; [apply mem_In; exact E|exact H].
  - cbn [In]. rewrite IH. tauto. Qed.

Lemma filter_nil : forall {A} (f : A -> bool) l, (forall x, In x l -> f x = false) -> filter f l = [].
Proof. induction l as [|a l IH]; intros H; [reflexivity|]. cbn [filter]. rewrite (H a (or_introl eq_refl)). apply IH. intros x Hx. apply H. right. exact Hx. Qed.

Lemma filter_length_lt : forall (P1 P2 : str -> bool) U, (forall u, P2 u = true -> P1 u = true) ->
  (exists y, In y U /\ P1 y = true /\ P2 y = false) -> List.length (filter P2 U) < List.length (filter P1 U).
Proof. intros P1 P2 U Himp. assert (forall V, List.length (filter P2 V) <= List.length (filter P1 V)) as Hle.
  { induction V as [|a V IH]; [auto|]. cbn [filter]. destruct (P2 a) eqn:E2.
    - rewrite (Himp a E2). cbn [List.length]. lia.
    - destruct (P1 a); cbn [List.length]; lia. }
  induction U as [|a U IH]; intros [y [Hy [H1 H2]]]; [destruct Hy|]. cbn [filter]. destruct Hy as [<-|Hy].
  - rewrite H1, H2. cbn [List.length]. specialize (Hle U). lia.
  - assert (List.length (filter P2 U) < List.length (filter P1 U)) as Hlt by (apply IH; exists y; auto).
    destruct (P2 a) eqn:E2; [rewrite (Himp a E2); cbn [List.length]; lia|]. destruct (P1 a); cbn [List.length]; lia. Qed.

Lemma filter_len_le : forall {A} (f : A -> bool) l, List.length (filter f l) <= List.length l.
Proof. induction l as [|a l IH]; [auto|]. cbn [filter]. destruct (f a); simpl; lia. Qed.

(* ---------------- the monotone closure reaches its fixed point ---------------- *)
Section Grow.
  Variable step : str -> list str.
  Variable U : list str.
  Hypothesis step_U : forall x y, In y (step x) -> In y U.
  Definition newof (seen : list str) : list str := filter (fun x => negb (mem x seen)) (dedup (flat_map step seen)).
  Definition stable (seen : list str) : Prop := forall x y, In x seen -> In y (step x) -> In y seen.
  Definition missing (seen : list str) : nat := List.length (filter (fun u => negb (mem u seen)) U).

  Lemma grow_incl : forall k seen x, In x seen -> In x (grow step k seen).
  Proof. induction k as [|k IH]; intros seen x H; cbn [grow]; [exact H|]. apply IH. apply in_or_app. left. exact H. Qed.

  Lemma new_nil_stable : forall seen, newof seen = [] -> stable seen.
  Proof. intros seen H x y Hx Hy. destruct (mem y seen) eqn:E; [apply mem_In; exact E|]. exfalso.
    assert (In y (newof seen)) as Hin.
    { unfold newof. apply filter_In. split; [|rewrite E; reflexivity]. apply dedup_In. apply in_flat_map. exists x. auto. }
    rewrite H in Hin. destruct Hin. Qed.

  Lemma stable_new_nil : forall seen, stable seen -> newof seen = [].
  Proof. intros seen H. unfold newof. apply filter_nil. intros y Hy. apply (proj1 (dedup_In _ _)) in Hy. apply in_flat_map in Hy.
    destruct Hy as [x [Hx Hxy]]. apply negb_false_iff. apply mem_In. eapply H; eauto. Qed.

  Lemma stable_grow : forall k seen, stable seen -> grow step k seen = seen.
  Proof. induction k as [|k IH]; intros seen H; cbn [grow]; [reflexivity|]. fold (newof seen). rewrite (stable_new_nil _ H), app_nil_r. apply IH. exact H. Qed.

  Lemma missing_decr : forall seen, newof seen <> [] -> missing (seen ++ newof seen) < missing seen.
  Proof. intros seen H. unfold missing. apply filter_length_lt.
    - intros u Hu. apply negb_true_iff in Hu. apply negb_true_iff. apply mem_false_not_In in Hu. apply mem_false_not_In.
      intros Hin. apply Hu. apply in_or_app. left. exact Hin.
    - destruct (newof seen) as [|y r] eqn:E; [congruence|]. exists y.
      assert (In y (newof seen)) as Hy by (rewrite E; left; reflexivity). unfold newof in Hy. apply filter_In in Hy. destruct Hy as [Hd Hn].
      apply (proj1 (dedup_In _ _)) in Hd. apply in_flat_map in Hd. destruct Hd as [x [Hx Hxy]]. split; [eapply step_U; eauto|]. split; [exact Hn|].
      apply negb_false_iff. apply mem_In. apply in_or_app. right. left. reflexivity. Qed.

  Lemma grow_stable : forall k seen, missing seen <= k -> stable (grow step k seen).
  Proof. induction k as [|k IH]; intros seen Hm.
    - cbn [grow]. intros x y Hx Hy. assert (In y U) as HyU by (eapply step_U; eauto).
      destruct (mem y seen) eqn:E; [apply mem_In; exact E|]. exfalso. unfold missing in Hm.
      assert (In y (filter (fun u => negb (mem u seen)) U)) as Hin by (apply filter_In; split; [exact HyU|rewrite E; reflexivity]).
      destruct (filter (fun u => negb (mem u seen)) U) as [|a0 l0]; [destruct Hin|simpl in Hm; lia].
    - cbn [grow]. fold (newof seen). destruct (newof seen) as [|y r] eqn:E.
      + rewrite app_nil_r. pose proof (new_nil_stable _ E) as Hs. rewrite (stable_grow k _ Hs). exact Hs.
      + apply IH. assert (newof seen <> []) as Hne by (rewrite E; discriminate). pose proof (missing_decr _ Hne) as Hlt. rewrite E in Hlt. lia. Qed.

  Lemma missing_le : forall seen, missing seen <= List.length U.
  Proof. intros seen. unfold missing. apply filter_len_le. Qed.

  Lemma grow_all : forall (Q : str -> Prop) k seen, (forall x, In x seen -> Q x) -> (forall x y, In y (step x) -> Q y) ->
    forall x, In x (grow step k seen) -> Q x.
  Proof. intros Q. induction k as [|k IH]; intros seen H0 Hs x Hx; cbn [grow] in Hx; [auto|]. eapply IH; [|exact Hs|exact Hx].
    intros z Hz. apply in_app_or in Hz. destruct Hz as [Hz|Hz]; [auto|]. apply filter_In in Hz. destruct Hz as [Hz _].
    apply (proj1 (dedup_In _ _)) in Hz. apply in_flat_map in Hz. destruct Hz as [w [_ Hw]]. eapply Hs; eauto. Qed.
End Grow.

(* ---------------- facts about the item list ---------------- *)
Lemma info_in_type_name : forall l n r, info_in n l = Some r -> In n (flat_map (fun it => match it with RStruct n _ _ _ | REnum n _ => [n] | _ => [] end) l).
Proof. induction l as [|it l IH]; intros n r H; cbn [info_in] in H; [discriminate|]. cbn [flat_map]. apply in_or_app.
  destruct it as [m s nm fs|m s| | ]; try (right; eapply IH; exact H).
  - destruct s; [|right; eapply IH; exact H]. destruct (str_eqb n m) eqn:E; [|right; eapply IH; exact H].
    apply str_eqb_eq in E. subst. left. left. reflexivity.
  - destruct s; [|right; eapply IH; exact H]. destruct (str_eqb n m) eqn:E; [|right; eapply IH; exact H].
    apply str_eqb_eq in E. subst. left. left. reflexivity. Qed.

Lemma info_in_fields : forall l n b fs f, info_in n l = Some (b, fs) -> In f fs ->
  In f (flat_map (fun it => match it with RStruct _ true true fs => filter (fun f => negb (sf_skip f)) fs | _ => [] end) l).
Proof. induction l as [|it l IH]; intros n b fs f H Hf; cbn [info_in] in H; [discriminate|]. cbn [flat_map]. apply in_or_app.
  destruct it as [m s nm fs0|m s| | ]; try (right; eapply IH; eauto; fail).
  - destruct s; [|right; eapply IH; eauto]. destruct (str_eqb n m); [|right; eapply IH; eauto].
    destruct nm; [|discriminate]. inversion H; subst. left. exact Hf.
  - destruct s; [|right; eapply IH; eauto]. destruct (str_eqb n m); [|right; eapply IH; eauto]. inversion H; subst. destruct Hf. Qed.

Lemma type_names_len : forall l, List.length (flat_map (fun it => match it with RStruct n _ _ _ | REnum n _ => [n] | _ => [] end) l) <= List.length l.
Proof. induction l as [|it l IH]; [auto|]. cbn [flat_map]. rewrite app_length. destruct it; simpl; lia. Qed.

(* what a record of the walk over a function body says *)
Definition shape (r : emit_rec) : Prop :=
  match er_prov r with
  | Some pr => er_str r = prov_str pr
  | None => match er_pl r with
            | PVar _ => True | PStruct _ => False
            | PUnit => er_str r = S_ "()" | PStr => er_str r = S_ "String" | PInt => er_str r = S_ "i32" | PBool => er_str r = S_ "bool"
            | POther => er_str r = S_ "unknown" end
  end.
Lemma emit_record_shape : forall sy e, shape (emit_record sy e).
Proof. intros sy e. unfold emit_record, shape. destruct (em_payload e) as [n| | | | |n|] eqn:E; cbn [er_prov er_str er_pl]; try reflexivity.
  destruct (sy_lookup n sy); cbn [er_prov er_str er_pl]; [reflexivity|exact Logic.I]. Qed.
Lemma walk_shape : forall b sy r, In r (walk sy b) -> shape r.
Proof. induction b as [|st b IH]; intros sy r H; cbn [walk] in H; [destruct H|]. destruct st as [v i|v t|e].
  - eapply IH. exact H.
  - eapply IH. exact H.
  - apply in_app_or in H. destruct H as [H|H]; [|eapply IH; exact H]. destruct (recv_ok (em_recv e)); [|destruct H].
    destruct H as [<-|[]]. apply emit_record_shape. Qed.

(* ---------------- the closed world gives the side condition ---------------- *)
Section World.
  Variable p : proj.
  Hypothesis Hwf : wf p = true.
  Hypothesis Hdom : dom p = true.
  Hypothesis Hcw : closed_world p = true.
  Hypothesis Hhead : kf_event_head p = false.
  Let m := pj_maps p.
  Let disc := discovered p.
  Let K := List.length (pj_items p).

  Lemma dom_q : forall q, In q (site_qtys p) -> q_ok q = true.
  Proof. unfold dom in Hdom. rewrite !andb_true_iff in Hdom. destruct Hdom as [[H _] _]. rewrite forallb_forall in H. exact H. Qed.
  Lemma dom_tn : forall n, In n (type_names p) -> custom_name n = true /\ ident_b n = true.
  Proof. unfold dom in Hdom. rewrite !andb_true_iff in Hdom. destruct Hdom as [[_ H] _]. rewrite forallb_forall in H.
    intros n Hn. apply andb_true_iff. apply H. exact Hn. Qed.
  Lemma dom_pl : forall n, In n (payload_names p) -> ident_b n = true.
  Proof. unfold dom in Hdom. rewrite !andb_true_iff in Hdom. destruct Hdom as [_ H]. rewrite forallb_forall in H. exact H. Qed.
  Lemma cw : forall n, In n (flat_map qnames (site_qtys p) ++ payload_names p) -> has_info p n = true \/ mapped m n = true.
  Proof. unfold closed_world in Hcw. rewrite forallb_forall in Hcw. intros n Hn. apply orb_true_iff. apply Hcw. exact Hn. Qed.

  Lemma has_info_tn : forall n, has_info p n = true -> In n (type_names p).
  Proof. intros n H. unfold has_info, info in H. destruct (info_in n (pj_items p)) eqn:E; [|discriminate]. eapply info_in_type_name. exact E. Qed.

  (* the core: a custom name of the structure of a site type is defined and harvested *)
  Lemma name_ok : forall q n, In q (site_qtys p) -> In n (customs m (pts (qtts q))) ->
    has_info p n = true /\ In n (cust_raw (pts (qtts q))) /\ In n (extract_type_names (qtts q)).
  Proof. intros q n Hq Hn. pose proof (dom_q q Hq) as Hok. destruct (customs_facts _ _ _ Hn) as [Hraw Hunm].
    assert (In n (qnames q)) as Hqn by (apply cust_raw_qnames; [exact Hok|rewrite <- (pts_sem q Hok); exact Hraw]).
    assert (has_info p n = true) as Hi.
    { destruct (cw n) as [H|H]; [|exact H|fold m in Hunm; congruence]. apply in_or_app. left. apply in_flat_map. exists q. auto. }
    split; [exact Hi|]. split; [exact Hraw|]. apply harvest_q; [exact Hok|]. apply qnames_names; auto.
    apply dom_tn. apply has_info_tn. exact Hi. Qed.

  (* discovered *)
  Lemma hdeps_info : forall x y, In y (hdeps p x) -> has_info p y = true.
  Proof. intros x y H. unfold hdeps in H. apply filter_In in H. tauto. Qed.
  Lemma disc_info : forall x, In x disc -> has_info p x = true.
  Proof. unfold disc, discovered. apply grow_all.
    - intros x Hx. apply (proj1 (dedup_In _ _)) in Hx. apply filter_In in Hx. tauto.
    - exact hdeps_info. Qed.
  Lemma disc_root : forall n, has_info p n = true -> In n (harvest_roots p) -> In n disc.
  Proof. intros n Hi Hr. unfold disc, discovered. apply grow_incl. apply dedup_In. apply filter_In. auto. Qed.
  Lemma K_bound : List.length (type_names p) <= K.
  Proof. unfold K, type_names. apply type_names_len. Qed.
  Lemma disc_closed : forall x y, In x disc -> In y (hdeps p x) -> In y disc.
  Proof. unfold disc, discovered. apply (grow_stable (hdeps p) (type_names p)).
    - intros x y H. apply has_info_tn. eapply hdeps_info. exact H.
    - pose proof (missing_le (type_names p) (dedup (filter (has_info p) (harvest_roots p)))). pose proof K_bound. fold K. lia. Qed.

  (* used *)
  Definition roots1 : list str := dedup (flat_map (fun c => flat_map cust_raw (cmd_site_ts c)) (cmds p)).
  Definition roots2 : list str := dedup (flat_map (fun e => cust_raw (pts (snd e))) (events p)).
  Definition G (r : list str) : list str := grow (sdeps p disc) K r.
  Lemma used_intro : forall x r, (r = roots1 \/ r = roots2) -> In x disc -> In x (G r) -> In x (used p).
  Proof. intros x r Hr Hd Hg. unfold used. fold disc. fold K. apply dedup_In. apply in_or_app.
    destruct Hr as [-> | ->]; [left|right]; apply filter_In; (split; [exact Hg|apply mem_In; exact Hd]). Qed.
  Lemma used_elim : forall x, In x (used p) -> In x disc /\ (In x (G roots1) \/ In x (G roots2)).
  Proof. intros x H. unfold used in H. fold disc in H. fold K in H. apply (proj1 (dedup_In _ _)) in H. apply in_app_or in H.
    destruct H as [H|H]; apply filter_In in H; destruct H as [Hg Hd]; apply mem_In in Hd; split; auto. Qed.
  Lemma sdeps_tn : forall x y, In y (sdeps p disc x) -> In y (type_names p).
  Proof. intros x y H. unfold sdeps in H. destruct (mem x disc); [|destruct H]. apply filter_In in H. destruct H as [_ H].
    apply mem_In in H. apply has_info_tn. apply disc_info. exact H. Qed.
  Lemma G_closed : forall r x y, In x (G r) -> In y (sdeps p disc x) -> In y (G r).
  Proof. intros r. unfold G. apply (grow_stable (sdeps p disc) (type_names p) sdeps_tn).
    pose proof (missing_le (type_names p) r). pose proof K_bound. lia. Qed.

  (* sites of commands *)
  Lemma cmd_site_declared : forall c q, In c (cmds p) -> In q (site_qtys p) ->
    In (pts (qtts q)) (cmd_site_ts c) -> In (extract_type_names (qtts q)) (map (fun s => extract_type_names s)
      (map (fun ch => qtts (snd ch)) (chans c) ++ map (fun x => qtts (snd x)) (vparams c) ++ [ret_str c])) ->
    forall n, In n (customs m (pts (qtts q))) -> In n (used p).
  Proof. intros c q Hc Hq Hsite Hh n Hn. destruct (name_ok q n Hq Hn) as [Hi [Hraw Hhv]].
    assert (In n disc) as Hd.
    { apply disc_root; [exact Hi|]. unfold harvest_roots. apply in_or_app. left. apply in_flat_map. exists c. split; [exact Hc|].
      apply in_map_iff in Hh. destruct Hh as [s [Es Hs]]. rewrite <- Es in Hhv. apply in_app_or in Hs. destruct Hs as [Hs|Hs].
      - apply in_or_app. left. apply in_map_iff in Hs. destruct Hs as [ch [<- Hch]]. apply in_flat_map. exists ch. auto.
      - apply in_or_app. right. apply in_app_or in Hs. destruct Hs as [Hs|[<-|[]]].
        + apply in_or_app. left. apply in_map_iff in Hs. destruct Hs as [x [<- Hx]]. apply in_flat_map. exists x. auto.
        + apply in_or_app. right. exact Hhv. }
    apply (used_intro n roots1); [left; reflexivity|exact Hd|]. unfold G. apply grow_incl. unfold roots1. apply dedup_In.
    apply in_flat_map. exists c. split; [exact Hc|]. apply in_flat_map. exists (pts (qtts q)). auto. Qed.

  Lemma in_site_cmd : forall c q, In c (cmds p) ->
    In q (map snd (vparams c) ++ map snd (chans c) ++ match c_ret c with Some t => [t] | None => [] end) -> In q (site_qtys p).
  Proof. intros c q Hc Hq. unfold site_qtys. apply in_or_app. left. apply in_flat_map. exists c. auto. Qed.

  Lemma pts_unit_customs : customs m (pts (S_ "()")) = [].
  Proof. reflexivity. Qed.

  Lemma decl_declared : forall t n, In t (decl_site_ts p) -> In n (customs m t) -> In n (used p).
  Proof. intros t n Ht Hn. unfold decl_site_ts in Ht. apply in_app_or in Ht. destruct Ht as [Ht|Ht].
    - apply in_flat_map in Ht. destruct Ht as [c [Hc Ht]]. pose proof Ht as Ht0. unfold cmd_site_ts in Ht. apply in_app_or in Ht. destruct Ht as [Ht|Ht].
      + apply in_map_iff in Ht. destruct Ht as [x [<- Hx]]. apply (cmd_site_declared c (snd x)); auto.
        * apply (in_site_cmd c); [exact Hc|]. apply in_or_app. left. apply in_map. exact Hx.
        * apply in_map. apply in_or_app. right. apply in_or_app. left. apply in_map_iff. exists x. auto.
      + apply in_app_or in Ht. destruct Ht as [[<-|[]]|Ht].
        * unfold ret_str in *. destruct (c_ret c) as [t|] eqn:Er.
          -- apply (cmd_site_declared c t); auto.
             ++ apply (in_site_cmd c); [exact Hc|]. apply in_or_app. right. apply in_or_app. right. rewrite Er. left. reflexivity.
             ++ apply in_map. apply in_or_app. right. apply in_or_app. right. unfold ret_str. rewrite Er. left. reflexivity.
          -- rewrite pts_unit_customs in Hn. destruct Hn.
        * apply in_map_iff in Ht. destruct Ht as [ch [<- Hch]]. apply (cmd_site_declared c (snd ch)); auto.
          -- apply (in_site_cmd c); [exact Hc|]. apply in_or_app. right. apply in_or_app. left. apply in_map. exact Hch.
          -- apply in_map. apply in_or_app. left. apply in_map_iff. exists ch. auto.
    - apply in_flat_map in Ht. destruct Ht as [n' [Hn' Ht]]. apply in_map_iff in Ht. destruct Ht as [f [<- Hf]].
      unfold field_ts in *. destruct (used_elim n' Hn') as [Hd' Hg'].
      assert (In (sf_ty f) (site_qtys p)) as Hq.
      { unfold site_qtys. apply in_or_app. right. apply in_or_app. left. apply in_map. unfold fields_of, info in Hf.
        destruct (info_in n' (pj_items p)) as [[b fs]|] eqn:E; [|destruct Hf]. unfold serde_fields. eapply info_in_fields; eauto. }
      destruct (name_ok (sf_ty f) n Hq Hn) as [Hi [Hraw Hhv]].
      assert (In n disc) as Hd.
      { apply (disc_closed n'); [exact Hd'|]. unfold hdeps. apply filter_In. split; [|exact Hi]. apply in_flat_map. exists f. auto. }
      assert (In n (sdeps p disc n')) as Hs.
      { unfold sdeps. apply mem_In in Hd'. rewrite Hd'. apply filter_In. split; [|apply mem_In; exact Hd]. apply in_flat_map. exists f. auto. }
      destruct Hg' as [Hg|Hg]; [apply (used_intro n roots1)|apply (used_intro n roots2)]; auto; eapply G_closed; eauto. Qed.

  (* ---------------- event payloads ---------------- *)
  Lemma pts_ident : forall s, ident_b s = true -> pts s = match prim_of s with Some pr => TPrim pr | None => TCustom s end.
  Proof. intros s Hi. assert (TP.wf (RPath s [])) as Hw.
    { cbn [TP.wf]. split; [apply ident_ok; exact Hi|]. split; [|exact Logic.I]. split; [intros _; simpl; lia|]. split; [intros _; left; reflexivity|intros _; simpl; lia]. }
    unfold pts, parse_type_structure. change s with (tts (RPath s [])) at 1 2.
    rewrite (TP.parse_tts_faithful _ Hw); [reflexivity|]. pose proof (TT.Proofs.C07Agree.height_le_len _ Hw). lia. Qed.
  Lemma harvest_ident : forall s, ident_b s = true -> custom_name s = true -> In s (extract_type_names s).
  Proof. intros s Hi Hc. assert (TP.wf (RPath s [])) as Hw.
    { cbn [TP.wf]. split; [apply ident_ok; exact Hi|]. split; [|exact Logic.I]. split; [intros _; simpl; lia|]. split; [intros _; left; reflexivity|intros _; simpl; lia]. }
    unfold extract_type_names. change s with (tts (RPath s [])) at 2 3.
    apply (HP.harvest_names (S (List.length (tts (RPath s [])))) (RPath s [])); [pose proof (TT.Proofs.C07Agree.height_le_len _ Hw); lia|exact Hw|exact Logic.I|].
    cbn [names]. rewrite Hc. left. reflexivity. Qed.

  Lemma events_recs : forall e, In e (events p) -> exists r, In r (emit_recs p) /\ shape r /\ e = (er_name r, er_str r).
  Proof. intros e H. unfold events in H. apply in_map_iff in H. destruct H as [r [<- Hr]]. exists r. split; [exact Hr|]. split; [|reflexivity].
    unfold emit_recs in Hr. apply in_flat_map in Hr. destruct Hr as [it [_ Hr]]. destruct it; try destruct Hr. eapply walk_shape. exact Hr. Qed.

  (* a payload string that is a name of the closed world *)
  Lemma name_payload : forall e s, In e (events p) -> snd e = s -> ident_b s = true ->
    (prim_of s = None -> has_info p s = true \/ mapped m s = true) ->
    forall n, In n (customs m (pts s)) -> In n (used p).
  Proof. intros e s He Es Hi Hcws n Hn. rewrite (pts_ident s Hi) in Hn. destruct (prim_of s) eqn:Ep; [destruct Hn|].
    cbn [customs] in Hn. destruct (mapped m s) eqn:Em; [destruct Hn|]. destruct Hn as [<-|[]].
    assert (has_info p s = true) as Hinfo by (destruct (Hcws eq_refl) as [H|H]; [exact H|congruence]).
    destruct (dom_tn s (has_info_tn s Hinfo)) as [Hcn _].
    assert (In s disc) as Hd.
    { apply disc_root; [exact Hinfo|]. unfold harvest_roots. apply in_or_app. right. apply in_flat_map. exists e. split; [exact He|].
      rewrite Es. apply harvest_ident; auto. }
    apply (used_intro s roots2); [right; reflexivity|exact Hd|]. unfold G. apply grow_incl. unfold roots2. apply dedup_In.
    apply in_flat_map. exists e. split; [exact He|]. rewrite Es, (pts_ident s Hi), Ep. left. reflexivity. Qed.

  Lemma type_name_cases : forall t, q_ok t = true -> generic_head t = false ->
    type_name t = S_ "unknown" \/ (ident_b (type_name t) = true /\ (prim_of (type_name t) = None -> In (type_name t) (qnames t))).
  Proof. induction t as [segs nm angle args|t IH|l]; intros Hok Hg.
    - right. cbn [q_ok] in Hok. rewrite !andb_true_iff in Hok. destruct Hok as [[[[[Hs Ha] Hi] Har] Hc] Hl].
      cbn [generic_head] in Hg. subst angle. cbn [type_name]. split; [exact Hi|]. intros Ep.
      destruct args; [|discriminate]. cbn [is_nil negb] in Hc. apply eqb_prop in Hc. cbn [qnames flat_map]. unfold is_std. rewrite Ep, Hc. left. reflexivity.
    - cbn [q_ok generic_head type_name qnames] in *. auto.
    - left. reflexivity. Qed.

  Lemma unknown_customs : forall n, In n (customs m (pts (S_ "unknown"))) -> In n prims8.
  Proof. intros n H. change (pts (S_ "unknown")) with (TCustom (S_ "unknown")) in H. cbn [customs] in H.
    destruct (mapped m (S_ "unknown")); [destruct H|]. destruct H as [<-|[]]. apply mem_In. reflexivity. Qed.

  Lemma event_declared : forall t n, In t (event_site_ts p) -> In n (customs m t) -> In n prims8 \/ In n (used p).
  Proof. intros t n Ht Hn. unfold event_site_ts in Ht. apply in_map_iff in Ht. destruct Ht as [e [<- He]].
    destruct (events_recs e He) as [r [Hr [Hsh Ee]]]. assert (snd e = er_str r) as Es by (rewrite Ee; reflexivity).
    rewrite Es in Hn. unfold shape in Hsh. destruct (er_prov r) as [[t|s]|] eqn:Epr.
    - (* the entry comes from a declared type: parameter or typed let *)
      cbn [prov_str] in Hsh. rewrite Hsh in Hn, Es.
      assert (In t (site_qtys p)) as Hq.
      { unfold site_qtys. apply in_or_app. right. apply in_or_app. right. apply in_flat_map. exists r. split; [exact Hr|]. rewrite Epr. left. reflexivity. }
      assert (generic_head t = false) as Hgh.
      { unfold kf_event_head in Hhead. destruct (generic_head t) eqn:E; [|reflexivity]. exfalso.
        assert (existsb (fun r => match er_prov r with Some (FromTy t) => generic_head t | _ => false end) (emit_recs p) = true) as Hc.
        { apply existsb_exists. exists r. split; [exact Hr|]. rewrite Epr. exact E. }
        rewrite Hc in Hhead. discriminate. }
      destruct (type_name_cases t (dom_q t Hq) Hgh) as [Eu|[Hi Hqn]].
      + rewrite Eu in Hn. left. apply unknown_customs. exact Hn.
      + right. apply (name_payload e (type_name t)); auto. intros Ep. apply cw. apply in_or_app. left. apply in_flat_map. exists t. auto.
    - (* the entry is a name taken from a struct literal or a path call *)
      cbn [prov_str] in Hsh. rewrite Hsh in Hn, Es.
      assert (In s (payload_names p)) as Hs.
      { unfold payload_names. apply in_flat_map. exists r. split; [exact Hr|]. rewrite Epr. left. reflexivity. }
      right. apply (name_payload e s); auto; [apply dom_pl; exact Hs|]. intros _. apply cw. apply in_or_app. right. exact Hs.
    - (* no entry *)
      assert (match er_pl r with PVar _ => False | POther => False | _ => True end) as Hwfr.
      { unfold wf in Hwf. rewrite !andb_true_iff in Hwf. destruct Hwf as [_ H]. rewrite forallb_forall in H. specialize (H r Hr).
        rewrite Epr in H. destruct (er_pl r); try exact Logic.I; discriminate. }
      destruct (er_pl r) eqn:Epl; [destruct Hwfr| | | | |destruct Hsh|destruct Hwfr]; rewrite Hsh in Hn.
      + change (pts (S_ "()")) with (TPrim (L "void")) in Hn. destruct Hn.
      + change (pts (S_ "String")) with (TPrim (L "string")) in Hn. destruct Hn.
      + change (pts (S_ "i32")) with (TPrim (L "number")) in Hn. destruct Hn.
      + change (pts (S_ "bool")) with (TPrim (L "boolean")) in Hn. destruct Hn. Qed.

  Theorem world_refs_declared : refs_declared p = true.
  Proof. unfold refs_declared. apply andb_true_iff. split; apply forallb_forall; intros t Ht; apply forallb_forall; intros n Hn.
    - apply mem_In. eapply decl_declared; eauto.
    - apply orb_true_iff. destruct (event_declared t n Ht Hn) as [H|H]; [left|right]; apply mem_In; exact H. Qed.
End World.

Theorem C02_closed_world : forall p zod,
  wf p = true -> dom p = true -> closed_world p = true -> kf_C02 p zod = false ->
  closed (gen p zod) /\ exports_nodup (gen p zod).
Proof. intros p zod Hwf Hdom Hcw Hkf. apply C02_model_closed; auto. apply world_refs_declared; auto.
  unfold kf_C02 in Hkf. rewrite !orb_false_iff in Hkf. tauto. Qed.
