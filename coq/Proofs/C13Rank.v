(* C13 round 7: ranking by position in a sorted list of names is ordering by name, so the repaired file loop
   is the stable sort of the files by path; adding a file that holds only noise changes nothing at all
   (equality of every generated file and of both graph files, not only the same multiset). *)
From Coq Require Import List Arith Lia Bool Permutation Sorted.
Require Import TT.Model.Base TT.Model.Topo TT.Model.C13Order TT.Spec.C13Rel.
Require Import TT.Proofs.C13SortInv TT.Proofs.C13Proofs TT.Proofs.C13Extra.
Import ListNotations.

(* ---------------- rank in a sorted list = number of smaller elements ---------------- *)
Definition cnt_lt (k : nat) (l : list nat) : nat := length (filter (fun x => Nat.ltb x k) l).

Lemma cnt_lt_zero k l : Forall (fun y => Nat.leb k y = true) l -> cnt_lt k l = 0.
Proof. unfold cnt_lt. induction 1 as [|y r Hy _ IH]; cbn [filter length]; auto.
  apply Nat.leb_le in Hy. replace (Nat.ltb y k) with false; auto. symmetry. apply Nat.ltb_ge. exact Hy. Qed.

Lemma rank_sorted W k : StronglySorted (fun a b => Nat.leb a b = true) W -> In k W -> rank W k = cnt_lt k W.
Proof. induction 1 as [|x r Hr IH Hx]; intros Hin. contradiction. cbn [rank]. unfold cnt_lt. cbn [filter].
  destruct (Nat.eqb x k) eqn:E.
  - apply Nat.eqb_eq in E. subst x. rewrite Nat.ltb_irrefl. symmetry. apply cnt_lt_zero. exact Hx.
  - apply Nat.eqb_neq in E. destruct Hin as [Hin|Hin]; [contradiction|].
    assert (Hlt : Nat.ltb x k = true).
    { apply Nat.ltb_lt. rewrite Forall_forall in Hx. specialize (Hx k Hin). apply Nat.leb_le in Hx. lia. }
    rewrite Hlt. cbn [length]. f_equal. apply IH. exact Hin. Qed.

Lemma cnt_lt_perm k l l' : Permutation l l' -> cnt_lt k l = cnt_lt k l'.
Proof. unfold cnt_lt. induction 1 as [|x l l' _ IH|x y l|l l' l'' _ IH1 _ IH2]; cbn [filter]; auto.
  - destruct (Nat.ltb x k); cbn [length]; auto.
  - destruct (Nat.ltb x k), (Nat.ltb y k); cbn [length]; auto.
  - congruence. Qed.

Lemma sort_names_sorted l : StronglySorted (fun a b => Nat.leb a b = true) (sort_names l).
Proof. unfold sort_names. apply (isort_sorted Nat.leb).
  - intros a b. destruct (Nat.leb a b) eqn:E; auto. right. apply Nat.leb_le. apply Nat.leb_gt in E. lia.
  - intros a b c H1 H2. apply Nat.leb_le in H1, H2. apply Nat.leb_le. lia. Qed.

Lemma rank_sort_names l k : In k l -> rank (sort_names l) k = cnt_lt k l.
Proof. intros Hin. assert (Hp : Permutation l (sort_names l)) by (apply isort_perm).
  rewrite rank_sorted; [|apply sort_names_sorted|eapply Permutation_in; eauto].
  apply cnt_lt_perm. apply Permutation_sym. exact Hp. Qed.

Lemma filter_length_strict {A} (f g : A -> bool) l y :
  (forall a, f a = true -> g a = true) -> In y l -> f y = false -> g y = true ->
  length (filter f l) < length (filter g l).
Proof. intros H. induction l as [|a l IH]; intros Hin Hf Hg. contradiction. cbn [filter].
  destruct Hin as [->|Hin].
  - rewrite Hf, Hg. cbn [length]. pose proof (filter_length_mono f g l H). lia.
  - specialize (IH Hin Hf Hg). destruct (f a) eqn:E.
    + rewrite (H a E). cbn [length]. lia.
    + destruct (g a); cbn [length]; lia. Qed.

(* monotonicity of ranks: among the members of l, comparing ranks in sorted l is comparing names *)
Lemma cnt_lt_leb l a b : In a l -> In b l -> Nat.leb (cnt_lt a l) (cnt_lt b l) = Nat.leb a b.
Proof. intros Ha Hb. destruct (Nat.leb a b) eqn:E.
  - apply Nat.leb_le in E. apply Nat.leb_le. unfold cnt_lt. apply filter_length_mono.
    intros x Hx. apply Nat.ltb_lt in Hx. apply Nat.ltb_lt. lia.
  - apply Nat.leb_gt in E. apply Nat.leb_gt. unfold cnt_lt. apply (filter_length_strict _ _ l b); auto.
    + intros x Hx. apply Nat.ltb_lt in Hx. apply Nat.ltb_lt. lia.
    + apply Nat.ltb_irrefl.
    + apply Nat.ltb_lt. exact E. Qed.

Lemma rank_leb_names l a b : In a l -> In b l ->
  Nat.leb (rank (sort_names l) a) (rank (sort_names l) b) = Nat.leb a b.
Proof. intros Ha Hb. rewrite !rank_sort_names by assumption. apply cnt_lt_leb; assumption. Qed.

(* ---------------- the sort only looks at the comparison on the members ---------------- *)
Lemma insert_ext_in {A} (leb leb' : A -> A -> bool) x l :
  (forall y, In y l -> leb x y = leb' x y) -> insert leb x l = insert leb' x l.
Proof. induction l as [|y r IH]; intros H; cbn [insert]; auto. rewrite (H y) by (left; auto).
  destruct (leb' x y); auto. f_equal. apply IH. intros z Hz. apply H. right; auto. Qed.
Lemma isort_ext_in {A} (leb leb' : A -> A -> bool) l :
  (forall a b, In a l -> In b l -> leb a b = leb' a b) -> isort leb l = isort leb' l.
Proof. induction l as [|x r IH]; intros H; cbn [isort]; auto.
  rewrite IH by (intros a b Ha Hb; apply H; right; auto).
  apply insert_ext_in. intros y Hy. apply H; [left; auto|right].
  eapply Permutation_in; [apply Permutation_sym, isort_perm|exact Hy]. Qed.

(* ---------------- the repaired file loop: files in path order, stable ---------------- *)
Definition pleb (a b : file) : bool := Nat.leb (fst a) (fst b).
Definition files_sorted (p : project) : list file := isort pleb p.

Theorem files_repaired w p : files_in_order (repaired w p) p = files_sorted p.
Proof. unfold files_in_order, order_by, files_sorted. cbn [repaired w_files].
  rewrite (sort_names_invariant (map fst (files_in_order w p)) (map fst p))
    by (apply Permutation_map, files_perm).
  apply isort_ext_in. intros a b Ha Hb. unfold pleb. apply rank_leb_names; apply in_map; assumption. Qed.

(* the same for the name orders: ranking by the sorted names of the project is ordering by name *)
Theorem used_order_repaired w p l : incl l (names_of p) ->
  order_by ident (w_used (repaired w p)) l = sort_names l.
Proof. intros Hi. unfold order_by, sort_names. cbn [repaired w_used]. rewrite ns_eq.
  apply isort_ext_in. intros a b Ha Hb. unfold ident. apply rank_leb_names; apply Hi; assumption. Qed.

(* ---------------- gen_raw and viz_raw only read these parts of their arguments ---------------- *)
Lemma gen_raw_cong zod W W' p p' :
  commands W p = commands W' p' -> events W p = events W' p' -> index W p = index W' p' ->
  cmd_roots p = cmd_roots p' -> ev_roots p = ev_roots p' ->
  w_used W = w_used W' -> w_req W = w_req W' -> w_deps W = w_deps W' ->
  gen_raw zod W p = gen_raw zod W' p'.
Proof. intros Hc He Hi Hcr Her Hu Hq Hd.
  assert (Hus : forall idx, used idx p = used idx p') by (intros; unfold used; rewrite Hcr, Her; reflexivity).
  assert (Hz : forall idx, zod_order W idx p = zod_order W' idx p').
  { intros. unfold zod_order, zod_graph, discovered, dep_order, w_dep_list. rewrite Hus, Hcr, Her, Hq, Hd. reflexivity. }
  unfold gen_raw, types_file, commands_file, events_file, index_file. rewrite Hc, He, Hi, Hus, Hz, Hu. reflexivity. Qed.

Lemma viz_raw_cong W W' p p' :
  commands W p = commands W' p' -> index W p = index W' p' ->
  cmd_roots p = cmd_roots p' -> ev_roots p = ev_roots p' ->
  w_deps W = w_deps W' -> w_res W = w_res W' -> w_dmap W = w_dmap W' ->
  viz_raw W p = viz_raw W' p'.
Proof. intros Hc Hi Hcr Her Hd Hr Hm.
  assert (Hch : forall f idx ds n k, chain f W idx ds n k = chain f W' idx ds n k).
  { induction f as [|f IH]; intros; cbn [chain]; auto. f_equal. destruct (memb n ds); auto.
    unfold dep_order, w_dep_list. rewrite Hd. apply flat_map_ext. intros a. rewrite IH. reflexivity. }
  unfold viz_raw, discovered, dep_order, w_dep_list. rewrite Hc, Hi, Hcr, Her, Hd, Hr, Hm.
  f_equal. apply flat_map_ext. intros a. apply Hch. Qed.

(* ---------------- a file holding only noise ---------------- *)
Lemma loop_noise_file {B} (h : file -> list B) f p : h f = [] ->
  flat_map h (files_sorted (f :: p)) = flat_map h (files_sorted p).
Proof. intros H. unfold files_sorted. cbn [isort]. apply flat_map_insert_nil. exact H. Qed.

Lemma names_of_noise_file f p : file_types f = [] -> names_of (f :: p) = names_of p.
Proof. intros H. unfold names_of. cbn [flat_map]. rewrite H. reflexivity. Qed.

Theorem noise_file_eq : forall f p zod w w', noise_file f = true -> gen zod w p = gen zod w' (f :: p).
Proof. intros f p zod w w' H. destruct (noise_file_contrib f H) as (H1 & H2 & H3).
  unfold gen. pose proof (names_of_noise_file f p H3) as Hn.
  apply gen_raw_cong.
  - unfold commands. rewrite !files_repaired. symmetry. apply loop_noise_file. exact H1.
  - unfold events. rewrite !files_repaired. symmetry. apply loop_noise_file. exact H2.
  - unfold index. rewrite !files_repaired. symmetry. apply loop_noise_file. exact H3.
  - unfold cmd_roots, all_cmds. cbn [flat_map]. rewrite H1. reflexivity.
  - unfold ev_roots, all_events. cbn [flat_map]. rewrite H2. reflexivity.
  - cbn [repaired w_used]. rewrite Hn, !ns_eq. reflexivity.
  - cbn [repaired w_req]. rewrite Hn, !ns_eq. reflexivity.
  - cbn [repaired w_deps]. rewrite Hn, !ns_eq. apply map_ext. intros n. rewrite !ns_eq. reflexivity. Qed.

Theorem noise_file_viz_eq : forall f p w w', noise_file f = true -> viz w p = viz w' (f :: p).
Proof. intros f p w w' H. destruct (noise_file_contrib f H) as (H1 & H2 & H3).
  unfold viz. pose proof (names_of_noise_file f p H3) as Hn.
  apply viz_raw_cong.
  - unfold commands. rewrite !files_repaired. symmetry. apply loop_noise_file. exact H1.
  - unfold index. rewrite !files_repaired. symmetry. apply loop_noise_file. exact H3.
  - unfold cmd_roots, all_cmds. cbn [flat_map]. rewrite H1. reflexivity.
  - unfold ev_roots, all_events. cbn [flat_map]. rewrite H2. reflexivity.
  - cbn [repaired w_deps]. rewrite Hn, !ns_eq. apply map_ext. intros n. rewrite !ns_eq. reflexivity.
  - cbn [repaired w_res]. rewrite Hn, !ns_eq. reflexivity.
  - cbn [repaired w_dmap]. rewrite Hn, !ns_eq. reflexivity. Qed.

(* ---------------- any number of noise-only files, anywhere in the project ---------------- *)
Section FilterSort.
Context {A : Type}.
Variable leb : A -> A -> bool.
Hypothesis leb_total : forall a b, leb a b = true \/ leb b a = true.
Hypothesis leb_trans : forall a b c, leb a b = true -> leb b c = true -> leb a c = true.
Variable keep : A -> bool.

Lemma insert_head x m : (forall z, In z m -> leb x z = true) -> insert leb x m = x :: m.
Proof. destruct m as [|z m]; intros H; cbn [insert]; auto. rewrite (H z) by (left; auto). reflexivity. Qed.

Lemma filter_insert x l : StronglySorted (le leb) l ->
  filter keep (insert leb x l) = if keep x then insert leb x (filter keep l) else filter keep l.
Proof. induction 1 as [|y r Hr IH Hy]; cbn [insert filter].
  - destruct (keep x); reflexivity.
  - destruct (leb x y) eqn:E.
    + cbn [filter]. destruct (keep x) eqn:Qx, (keep y) eqn:Qy; cbn [insert]; try rewrite E; auto.
      symmetry. apply insert_head. intros z Hz. apply filter_In in Hz as [Hz _].
      rewrite Forall_forall in Hy. apply (leb_trans x y z E). apply Hy. exact Hz.
    + cbn [filter]. rewrite IH. destruct (keep x) eqn:Qx, (keep y) eqn:Qy; cbn [insert]; try rewrite E; auto. Qed.

Lemma filter_isort l : filter keep (isort leb l) = isort leb (filter keep l).
Proof. induction l as [|x r IH]; cbn [isort filter]; auto.
  rewrite filter_insert by (apply isort_sorted; assumption). rewrite IH.
  destruct (keep x); reflexivity. Qed.
End FilterSort.

Definition real_file (f : file) : bool := negb (noise_file f).
Definition strip_noise_files (p : project) : project := filter real_file p.

Lemma loop_strip {B} (h : file -> list B) p : (forall f, noise_file f = true -> h f = []) ->
  flat_map h (files_sorted (strip_noise_files p)) = flat_map h (files_sorted p).
Proof. intros H. unfold files_sorted, strip_noise_files.
  rewrite <- (filter_isort pleb).
  - apply flat_map_filter_nil. intros a Ha. apply H. unfold real_file in Ha. destruct (noise_file a); auto; discriminate.
  - intros a b. unfold pleb. destruct (Nat.leb (fst a) (fst b)) eqn:E; auto. right. apply Nat.leb_le. apply Nat.leb_gt in E. lia.
  - intros a b c H1 H2. unfold pleb in *. apply Nat.leb_le in H1, H2. apply Nat.leb_le. lia. Qed.

Lemma list_strip {B} (h : file -> list B) p : (forall f, noise_file f = true -> h f = []) ->
  flat_map h (strip_noise_files p) = flat_map h p.
Proof. intros H. apply flat_map_filter_nil. intros a Ha. apply H. unfold real_file in Ha. destruct (noise_file a); auto; discriminate. Qed.

Theorem noise_files_eq : forall p zod w w', gen zod w p = gen zod w' (strip_noise_files p).
Proof. intros p zod w w'.
  assert (H1 : forall f, noise_file f = true -> file_cmds f = []) by (intros f H; apply noise_file_contrib; auto).
  assert (H2 : forall f, noise_file f = true -> file_events f = []) by (intros f H; apply noise_file_contrib; auto).
  assert (H3 : forall f, noise_file f = true -> file_types f = []) by (intros f H; apply noise_file_contrib; auto).
  assert (Hn : names_of (strip_noise_files p) = names_of p) by (unfold names_of; rewrite (list_strip file_types p H3); reflexivity).
  unfold gen. apply gen_raw_cong.
  - unfold commands. rewrite !files_repaired. symmetry. apply loop_strip. exact H1.
  - unfold events. rewrite !files_repaired. symmetry. apply loop_strip. exact H2.
  - unfold index. rewrite !files_repaired. symmetry. apply loop_strip. exact H3.
  - unfold cmd_roots, all_cmds. rewrite (list_strip file_cmds p H1). reflexivity.
  - unfold ev_roots, all_events. rewrite (list_strip file_events p H2). reflexivity.
  - cbn [repaired w_used]. rewrite Hn, !ns_eq. reflexivity.
  - cbn [repaired w_req]. rewrite Hn, !ns_eq. reflexivity.
  - cbn [repaired w_deps]. rewrite Hn, !ns_eq. apply map_ext. intros n. rewrite !ns_eq. reflexivity. Qed.

Corollary noise_files_equiv : forall p p' zod w w', strip_noise_files p = strip_noise_files p' -> gen zod w p = gen zod w' p'.
Proof. intros p p' zod w w' H. rewrite (noise_files_eq p zod w w), (noise_files_eq p' zod w' w), H. reflexivity. Qed.

Require Import TT.Proofs.TopoProofs.
(* ---------------- the two class predicates decide what they are named after ---------------- *)
Lemma has_dup_false_iff l : has_dup l = false <-> NoDup l.
Proof. split; [apply has_dup_NoDup|]. induction 1 as [|x l Hx _ IH]; cbn [has_dup]; auto.
  apply orb_false_iff. split; auto. apply memb_false. exact Hx. Qed.
Theorem kf_dupdef_spec p : kf_dupdef p = false <-> NoDup (map t_name (all_types p)).
Proof. unfold kf_dupdef. apply has_dup_false_iff. Qed.
Theorem kf_dupevent_spec p : kf_dupevent p = false <-> consistent (all_events p).
Proof. split; [apply dupevent_consistent|]. intros Hc. unfold kf_dupevent. fold (all_events p).
  destruct (existsb _ (all_events p)) eqn:E; auto. exfalso.
  apply existsb_exists in E as (a & Ha & E). apply existsb_exists in E as (b & Hb & E).
  apply andb_true_iff in E as [E1 E2]. apply Nat.eqb_eq in E1. apply negb_true_iff in E2. apply Nat.eqb_neq in E2.
  apply E2. apply Hc; auto. Qed.
