(* C12: composition - the oracle has no complaint about the model's files, for every in-domain project
   outside the classes whose sites satisfy the (boolean) text-level side conditions of full_dom. *)
From Coq Require Import String Ascii List Arith Lia Bool.
Require Import TT.Model.Str TT.Spec.TsLex TT.Spec.TsModule TT.Spec.TsObs TT.Model.Pipeline TT.Model.Events TT.Spec.C12Spec.
Require Import TT.Proofs.StrFacts TT.Proofs.C12Proofs TT.Proofs.C12Exact TT.Proofs.C12Parse TT.Proofs.C12Lex TT.Proofs.C12Legal.
Import ListNotations.
Local Open Scope list_scope.

(* ---- the restriction, as a boolean predicate on the project ---- *)
Definition site_text (mp : list (str * str)) (s : site) : str :=
  payload_ts (mapped_rust mp (infer_payload (s_payload s) (s_sy s))).
(* the rendered payload text of the site has one of the two shapes and denotes the expected type *)
Definition site_payload_ok (mp : list (str * str)) (s : site) : bool :=
  pty_ok (pty_of_text (site_text mp s)) &&
  ty_eqb (expected_payload_m mp (s_payload s) (s_env s)) (pty_ty (pty_of_text (site_text mp s))).
Definition full_dom (p : project) : bool :=
  forallb (fun s => legal_event_name (s_name s) && site_payload_ok (p_mappings p) s) (project_sites p).

(* ---- small list facts ---- *)
Lemma dedup_in l n : In n (dedup l) <-> In n l.
Proof.
  induction l as [|x r IH]; [tauto|]. cbn [dedup]. destruct (existsb (str_eqb x) r) eqn:E.
  - rewrite IH. split; [right; assumption|]. intros [<-|H]; [|exact H].
    apply existsb_exists in E. destruct E as [y [Hy Hxy]]. apply str_eqb_eq in Hxy. subst y. exact Hy.
  - cbn [In]. rewrite IH. tauto.
Qed.
Lemma dedup_nil l : dedup l = [] -> l = [].
Proof. intro H. destruct l as [|x r]; [reflexivity|]. exfalso. assert (In x (dedup (x :: r))) by (apply dedup_in; left; reflexivity). rewrite H in H0. destruct H0. Qed.
Lemma nodup_inj {A} (f : A -> str) : forall l x y, NoDup (map f l) -> In x l -> In y l -> f x = f y -> x = y.
Proof.
  induction l as [|z r IH]; intros x y Hn Hx Hy E; [destruct Hx|]. cbn [map] in Hn. inversion Hn as [|? ? Hz Hr]; subst.
  destruct Hx as [->|Hx], Hy as [->|Hy]; auto.
  - exfalso. apply Hz. rewrite E. apply in_map, Hy.
  - exfalso. apply Hz. rewrite <- E. apply in_map, Hx.
Qed.
Lemma filter_unique {A} (f : A -> str) : forall l x, NoDup (map f l) -> In x l ->
  filter (fun y => str_eqb (f y) (f x)) l = [x].
Proof.
  induction l as [|z r IH]; intros x Hn Hx; [destruct Hx|]. cbn [map] in Hn. inversion Hn as [|? ? Hz Hr]; subst. cbn [filter].
  destruct Hx as [->|Hx].
  - rewrite str_eqb_refl. f_equal. clear IH Hn Hr. induction r as [|w r IH]; [reflexivity|]. cbn [filter].
    destruct (str_eqb (f w) (f x)) eqn:E; [exfalso; apply Hz; apply str_eqb_eq in E; rewrite <- E; left; reflexivity|].
    apply IH. intro H. apply Hz. right. exact H.
  - destruct (str_eqb (f z) (f x)) eqn:E; [exfalso; apply Hz; apply str_eqb_eq in E; rewrite E; apply in_map, Hx|]. apply IH; assumption.
Qed.
Lemma has_dup_nodup l : NoDup l -> has_dup l = false.
Proof.
  induction 1 as [|x r Hx _ IH]; [reflexivity|]. cbn [has_dup]. rewrite IH, orb_false_r.
  apply not_true_iff_false. intro E. apply existsb_exists in E. destruct E as [y [Hy Hxy]]. apply str_eqb_eq in Hxy. subst y. contradiction.
Qed.
Lemma filter_map {A B} (g : A -> B) (q : B -> bool) l : filter q (map g l) = map g (filter (fun x => q (g x)) l).
Proof. induction l as [|x r IH]; [reflexivity|]. cbn [map filter]. destruct (q (g x)); cbn [map]; rewrite IH; reflexivity. Qed.

Lemma ty_eqb_refl_pty t : ty_eqb (pty_ty t) (pty_ty t) = true.
Proof. destruct t as [p|n]; cbn [pty_ty ty_eqb]. - destruct (list_eq_dec (list_eq_dec ascii_dec) [p] [p]); [reflexivity|congruence].
  - destruct (list_eq_dec (list_eq_dec ascii_dec) [L "types"; n] [L "types"; n]); [reflexivity|congruence]. Qed.

Lemma check_name_single mp ss ls n l t t' :
  filter (subscribed_to n) ls = [l] -> ls_listens l = 1 -> is_legal_binding_name (ls_name l) = true ->
  listener_payloads l = Some (t, t') ->
  existsb (fun w => ty_eqb w t && ty_eqb w t')
    (map (fun s0 => expected_payload_m mp (s_payload s0) (s_env s0)) (filter (fun s0 => str_eqb (s_name s0) n) ss)) = true ->
  existsb (fun l0 => str_eqb (ls_name l0) (ls_name l) && negb (subscribed_to n l0)) ls = false ->
  check_name mp ss ls n = [].
Proof. intros H1 H2 H3 H4 H5 H6. unfold check_name. rewrite H1, H2, H3, H4, H5, H6. reflexivity. Qed.

Lemma declared_items rs : flat_map (fun it => match item_name it with Some n => [n] | None => [] end) (map rec_item rs) = map r_name rs.
Proof. induction rs as [|r rs IH]; [reflexivity|]. cbn [map flat_map]. rewrite IH. reflexivity. Qed.

(* ---- records of the model's (mapped) event list ---- *)
Section Compose.
  Variable mp : list (str * str).
  Variable ss : list site.
  Let l' : evs := map_events mp (map ev_of ss).
  Let recs : list lrec := model_recs l'.
  Let ls : list lst := map rec_lst recs.
  Let names : list str := site_names ss.

  Lemma l'_names : map fst l' = names.
  Proof. unfold l', map_events, names, site_names. rewrite !map_map. reflexivity. Qed.
  Lemma recs_evs : map r_ev recs = first_names names.
  Proof. unfold recs, model_recs. rewrite map_map. cbn [r_ev]. rewrite <- l'_names. apply dedup_first_names. Qed.
  Lemma recs_names : map r_name recs = map listener_name (first_names names).
  Proof. unfold recs, model_recs. rewrite map_map. cbn [r_name]. rewrite <- l'_names, <- dedup_first_names, map_map. reflexivity. Qed.
  (* every record stems from a site of that name *)
  Lemma rec_site r : In r recs -> exists s, In s ss /\ s_name s = r_ev r /\ r_ty r = pty_of_text (site_text mp s) /\ r_name r = listener_name (s_name s).
  Proof.
    intro H. unfold recs, model_recs in H. apply in_map_iff in H. destruct H as [e [<- He]].
    apply dedup_first_incl in He. unfold l', map_events in He. apply in_map_iff in He. destruct He as [e0 [<- He0]].
    apply in_map_iff in He0. destruct He0 as [s [<- Hs]]. exists s. cbn [r_ev r_ty r_name fst snd ev_of]. unfold site_text. auto.
  Qed.

  Hypothesis Hsites : forallb (fun s => legal_event_name (s_name s) && site_payload_ok mp s) ss = true.
  Hypothesis Hcol : forall n, In n names -> kf_collision names n = false.

  Lemma site_facts s : In s ss -> legal_event_name (s_name s) = true /\ pty_ok (pty_of_text (site_text mp s)) = true /\
    ty_eqb (expected_payload_m mp (s_payload s) (s_env s)) (pty_ty (pty_of_text (site_text mp s))) = true.
  Proof.
    intro H. rewrite forallb_forall in Hsites. specialize (Hsites s H). apply andb_true_iff in Hsites. destruct Hsites as [H1 H2].
    unfold site_payload_ok in H2. apply andb_true_iff in H2. tauto.
  Qed.
  Lemma recs_ok : forallb rec_ok recs = true.
  Proof.
    apply forallb_forall. intros r Hr. destruct (rec_site r Hr) as [s [Hs [_ [Ht _]]]]. unfold rec_ok. rewrite Ht. apply (site_facts s Hs).
  Qed.
  Lemma l'_legal : forall e, In e l' -> legal_event_name (fst e) = true.
  Proof.
    intros e He. unfold l', map_events in He. apply in_map_iff in He. destruct He as [e0 [<- He0]].
    apply in_map_iff in He0. destruct He0 as [s [<- Hs]]. cbn [fst ev_of]. apply (site_facts s Hs).
  Qed.
  Lemma nodup_evs : NoDup (map r_ev recs). Proof. rewrite recs_evs. apply first_names_nodup. Qed.
  Lemma nodup_idents : NoDup (map r_name recs).
  Proof.
    rewrite recs_names. apply nodup_map_inj; [apply first_names_nodup|]. intros a b Ha Hb Hab.
    apply (proj1 (first_names_in _ _)) in Ha. apply (proj1 (first_names_in _ _)) in Hb.
    destruct (list_eq_dec ascii_dec a b) as [E|N]; [exact E|]. exfalso.
    specialize (Hcol b Hb). unfold kf_collision in Hcol.
    assert (existsb (fun m => negb (str_eqb m b) && str_eqb (listener_name m) (listener_name b)) names = true) as Hex.
    { apply existsb_exists. exists a. split; [exact Ha|]. apply andb_true_iff. split.
      - apply negb_true_iff. apply str_eqb_neq. exact N.
      - apply str_eqb_eq. exact Hab. }
    congruence.
  Qed.

  Lemma subscribed_rec n r : subscribed_to n (rec_lst r) = str_eqb (r_ev r) n.
  Proof. reflexivity. Qed.

  (* the per-name check of the oracle *)
  Lemma check_name_ok n : In n names -> check_name mp ss ls n = [].
  Proof.
    intro Hn. assert (Hn' : In n (map r_ev recs)) by (rewrite recs_evs; apply first_names_in; exact Hn).
    apply in_map_iff in Hn'. destruct Hn' as [r [Hrn Hr]].
    assert (Hmine : filter (subscribed_to n) ls = [rec_lst r]).
    { unfold ls. rewrite filter_map. subst n.
      rewrite (filter_ext _ (fun y => str_eqb (r_ev y) (r_ev r))) by (intro y; reflexivity).
      rewrite (filter_unique r_ev recs r nodup_evs Hr). reflexivity. }
    destruct (rec_site r Hr) as [s [Hs [Hsn [Ht Hrname]]]]. destruct (site_facts s Hs) as [_ [_ Hty]].
    apply (check_name_single mp ss ls n (rec_lst r) (pty_ty (r_ty r)) (pty_ty (r_ty r))); [exact Hmine|reflexivity| |reflexivity| |].
    - change (ls_name (rec_lst r)) with (r_name r). rewrite Hrname. apply listener_name_legal.
    - apply existsb_exists. exists (expected_payload_m mp (s_payload s) (s_env s)). split.
      + apply in_map_iff. exists s. split; [reflexivity|]. apply filter_In. split; [exact Hs|]. apply str_eqb_eq. congruence.
      + rewrite Ht, Hty. reflexivity.
    - apply not_true_iff_false. intro E. apply existsb_exists in E. destruct E as [l0 [Hl0 E]].
      apply andb_true_iff in E. destruct E as [E1 E2]. unfold ls in Hl0. apply in_map_iff in Hl0. destruct Hl0 as [r0 [<- Hr0]].
      apply str_eqb_eq in E1. change (r_name r0 = r_name r) in E1.
      assert (r0 = r) by (apply (nodup_inj r_name recs); [exact nodup_idents|exact Hr0|exact Hr|exact E1]). subst r0.
      rewrite subscribed_rec, Hrn, str_eqb_refl in E2. discriminate E2.
  Qed.

  Lemma checks_ok : flat_map (check_name mp ss ls) (dedup names) = [].
  Proof.
    assert (H : forall l, (forall n, In n l -> In n names) -> flat_map (check_name mp ss ls) l = []).
    { induction l as [|x r IH]; intro Hl; [reflexivity|]. cbn [flat_map]. rewrite (check_name_ok x (Hl x (or_introl eq_refl))).
      apply IH. intros n Hn. apply Hl. right. exact Hn. }
    apply H. intros n Hn. apply dedup_in. exact Hn.
  Qed.
  Lemma no_spurious : flat_map (fun l => match listener_event l with
                                 | Some n => if existsb (str_eqb n) (dedup names) then [] else [cmp "listener-without-emit" n]
                                 | None => [cmp "listener-shape" (ls_name l)] end) ls = [].
  Proof.
    unfold ls. assert (H : forall rs, (forall r, In r rs -> In r recs) ->
      flat_map (fun l => match listener_event l with
                         | Some n => if existsb (str_eqb n) (dedup names) then [] else [cmp "listener-without-emit" n]
                         | None => [cmp "listener-shape" (ls_name l)] end) (map rec_lst rs) = []).
    { induction rs as [|r rs IH]; intro Hl; [reflexivity|]. cbn [map flat_map].
      cbv beta. change (listener_event (rec_lst r)) with (Some (r_ev r)). cbv iota.
      assert (E : existsb (str_eqb (r_ev r)) (dedup names) = true).
      { apply existsb_exists. exists (r_ev r). split; [|apply str_eqb_refl]. apply dedup_in.
        apply (proj1 (first_names_in _ _)). rewrite <- recs_evs. apply in_map, Hl. left. reflexivity. }
      rewrite E. cbn [app]. apply IH. intros r0 H0. apply Hl. right. exact H0. }
    apply H. auto.
  Qed.
  Lemma exports_module : exports (header_items ++ map rec_item recs) = map r_name recs.
  Proof. unfold exports, declared. rewrite flat_map_app. change (flat_map _ header_items) with (@nil str). cbn [app]. apply declared_items. Qed.

  (* the oracle on the text the model prints for these sites *)
  Theorem oracle_text_ok ix : ss <> [] -> oracle_m mp ss (Some (events_text l')) ix = [].
  Proof.
    intro Hne. unfold oracle_m. destruct (dedup (site_names ss)) as [|n0 rest] eqn:Ed.
    - apply dedup_nil in Ed. unfold site_names in Ed. destruct ss; [congruence|discriminate Ed].
    - rewrite <- Ed. destruct (events_text_parses l' l'_legal recs_ok) as [Ep _]. rewrite Ep. fold recs.
      rewrite (lsts_module recs recs_ok). fold ls. fold names.
      rewrite checks_ok, no_spurious, exports_module, (has_dup_nodup _ nodup_idents). reflexivity.
  Qed.
End Compose.

(* ---- the project-level statement ---- *)
Theorem full_on_domain : forall p, in_domain p = true -> kf_project p = false -> full_dom p = true -> model_complaints p = [].
Proof.
  intros p Hd Hk Hf. unfold kf_project in Hk. apply orb_false_iff in Hk. destruct Hk as [Hk Hcol].
  apply orb_false_iff in Hk. destruct Hk as [Hnc _].
  assert (Hcol' : forall n, In n (site_names (project_sites p)) -> kf_collision (site_names (project_sites p)) n = false).
  { intros n Hn. destruct (kf_collision (site_names (project_sites p)) n) eqn:E; [|reflexivity].
    assert (existsb (kf_collision (site_names (project_sites p))) (site_names (project_sites p)) = true) by (apply existsb_exists; exists n; auto). congruence. }
  unfold model_complaints, generate. rewrite (walker_exact p Hd).
  destruct (p_has_command p) eqn:Hc.
  - destruct (project_sites p) as [|s0 rest] eqn:Es.
    + vm_compute. reflexivity.
    + cbn [map is_nil]. cbn [o_events_ts o_generated o_index_reexports_events model_index].
      rewrite <- Es in *. change (ev_of s0 :: map ev_of rest) with (map ev_of (s0 :: rest)). rewrite <- Es.
      apply oracle_text_ok; [exact Hf|exact Hcol'|rewrite Es; discriminate].
  - unfold kf_no_command in Hnc. rewrite Hc in Hnc. cbn [negb andb] in Hnc. apply negb_false_iff in Hnc.
    destruct (project_sites p) as [|s0 rest]; [|discriminate Hnc]. vm_compute. reflexivity.
Qed.

(* the event-name half of full_dom follows from in_domain: only the payload-text condition remains *)
Definition payload_dom (p : project) : bool := forallb (site_payload_ok (p_mappings p)) (project_sites p).
Lemma full_dom_of_payload_dom p : in_domain p = true -> payload_dom p = true -> full_dom p = true.
Proof.
  intros Hd Hp. unfold full_dom, payload_dom in *. rewrite forallb_forall in *. intros s Hs.
  rewrite (project_sites_legal p Hd s Hs), (Hp s Hs). reflexivity.
Qed.
Theorem full_on_payload_dom : forall p, in_domain p = true -> kf_project p = false -> payload_dom p = true -> model_complaints p = [].
Proof. intros p Hd Hk Hp. apply full_on_domain; [exact Hd|exact Hk|apply full_dom_of_payload_dom; assumption]. Qed.
