(* C13: every sequence of source transformations (reorder, move, split, merge, relist, rename) keeps the
   multiset of items, hence changes at most the order of declarations. *)
From Coq Require Import List Arith Lia Bool Permutation.
Require Import TT.Model.Base TT.Model.Topo TT.Model.C13Order TT.Spec.C13Rel.
Require Import TT.Proofs.C13SortInv TT.Proofs.C13Proofs.
Import ListNotations.

Lemma all_items_app p q : all_items (p ++ q) = all_items p ++ all_items q.
Proof. unfold all_items. apply flat_map_app. Qed.
Lemma all_items_cons f p : all_items (f :: p) = snd f ++ all_items p.
Proof. reflexivity. Qed.

Lemma move_shape {A} (l1 l2 M m1 m2 P : list A) x :
  Permutation ((l1 ++ x :: l2) ++ M ++ (m1 ++ m2) ++ P) ((l1 ++ l2) ++ M ++ (m1 ++ x :: m2) ++ P).
Proof. rewrite <- !app_assoc. cbn [app]. apply Permutation_app_head.
  replace (l2 ++ M ++ m1 ++ m2 ++ P) with ((l2 ++ M ++ m1) ++ m2 ++ P) by (rewrite <- !app_assoc; reflexivity).
  replace (l2 ++ M ++ m1 ++ x :: m2 ++ P) with ((l2 ++ M ++ m1) ++ x :: m2 ++ P) by (rewrite <- !app_assoc; reflexivity).
  apply Permutation_middle. Qed.

Lemma tstep_items p q : tstep p q -> Permutation (all_items p) (all_items q).
Proof. intros H. destruct H as [pre k l l' post Hp|pre k l1 x l2 mid k' m1 m2 post|pre k l1 x l2 mid k' m1 m2 post
                               |pre k k' l1 l2 post|pre k k' l1 l2 post|p p' Hp|pre k k' l post];
  rewrite ?all_items_app, ?all_items_cons, ?all_items_app, ?all_items_cons; cbn [snd].
  - apply Permutation_app_head. apply Permutation_app_tail. exact Hp.
  - apply Permutation_app_head. apply move_shape.
  - apply Permutation_app_head. apply Permutation_sym. apply move_shape.
  - rewrite <- app_assoc. apply Permutation_refl.
  - rewrite <- app_assoc. apply Permutation_refl.
  - unfold all_items. apply Permutation_flat_map. exact Hp.
  - apply Permutation_refl.
Qed.

Lemma tsteps_items p q : tsteps p q -> Permutation (all_items p) (all_items q).
Proof. induction 1 as [p|p q r H _ IH]. apply Permutation_refl. eapply perm_trans; [apply tstep_items; exact H|exact IH]. Qed.

Theorem transformations : forall p p', tsteps p p' -> kf_dupdef p = false -> kf_dupevent p = false ->
  forall zod w w', out_perm (gen zod w p) (gen zod w' p').
Proof. intros p p' H Hd He zod w w'. apply move_perm; auto. apply tsteps_items. exact H. Qed.
