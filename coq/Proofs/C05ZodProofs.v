(* C05 / C18: the Zod-mode parameter and field schema sites.
   On the EXPRESSION TREE of the schema (Model/C10Zod.zex_of, the tree the C10 development relates to
   the builder's text) the reading Spec/C05Spec.zshape gives exactly the README shape, for every
   structure without Option / set / Result (the pinned deviations C05-6/7/8). The only missing link to
   the text is the parse  parse_ex (build_schema m ts) = Some (zex_of m ts false), which is taken
   as an explicit hypothesis (zod_parse_link); everything else is proved. *)
From Coq Require Import String Ascii.
From Coq Require Import List Arith Lia Bool.
Require Import TT.Model.Str TT.Proofs.StrFacts TT.Model.TypeParse TT.Spec.TsType TT.Model.Render TT.Proofs.RenderProofs.
Require Import TT.Spec.TsLex TT.Spec.TsModule.
Require TT.Model.C10Zod TT.Spec.C10Check.
Require Import TT.Model.C05Emit TT.Spec.C05Spec TT.Spec.C05Known TT.Proofs.TypeParseProofs.
Require Import TT.Model.C05Parse TT.Proofs.C05ParseProofs TT.Proofs.C05Proofs TT.Proofs.C05PrefixProofs.
Import ListNotations.
Local Open Scope list_scope.

(* ---- the two developments model the same builder ---- *)
Lemma lookup_eq m n : C10Zod.lookup m n = lookup m n.
Proof. induction m as [|[k v] m IH]; [reflexivity|]. cbn [C10Zod.lookup lookup]. rewrite IH. reflexivity. Qed.
Lemma zcustom_eq m n : C10Zod.zcustom m n = zcustom m n.
Proof. unfold C10Zod.zcustom, zcustom. rewrite lookup_eq. reflexivity. Qed.
Lemma zbuild_eq m : forall t k, C10Zod.zbuild m t k = zbuild m t k.
Proof.
  induction t as [p|u IH|k0 v IHk IHv|u IH|l IH|u IH|u IH|n] using ts_ind'; intros k;
    cbn [C10Zod.zbuild zbuild]; rewrite ?IH, ?IHk, ?IHv; reflexivity.
Qed.

(* ---- equations of the reading on the builder's trees ---- *)
Lemma zs_id f n : n <> [] -> zshape (S f) (EId (n ++ L "Schema")) = Some (TsName n []).
Proof. intros Hn. cbn [zshape]. unfold ends_schema. rewrite strip_suffix_app.
  destruct n; [congruence|reflexivity]. Qed.
Lemma zs_string f : zshape (S f) (C10Zod.zcall "string" []) = Some (TsName (L "string") []). Proof. reflexivity. Qed.
Lemma zs_number f : zshape (S f) (C10Zod.zcall "number" []) = Some (TsName (L "number") []). Proof. reflexivity. Qed.
Lemma zs_boolean f : zshape (S f) (C10Zod.zcall "boolean" []) = Some (TsName (L "boolean") []). Proof. reflexivity. Qed.
Lemma zs_void f : zshape (S f) (C10Zod.zcall "void" []) = Some (TsName (L "void") []). Proof. reflexivity. Qed.
Lemma zs_cnumber f : zshape (S f) (C10Zod.zcoerce "number") = Some (TsName (L "number") []). Proof. reflexivity. Qed.
Lemma zs_cboolean f : zshape (S f) (C10Zod.zcoerce "boolean") = Some (TsName (L "boolean") []). Proof. reflexivity. Qed.
Lemma zs_array f x : zshape (S f) (C10Zod.zcall "array" [x]) = option_map TsArray (zshape f x). Proof. reflexivity. Qed.
Lemma zs_record f k v : zshape (S f) (C10Zod.zcall "record" [k; v]) =
  match zshape f k, zshape f v with Some a, Some b => Some (TsApp (L "Record") [] a [b]) | _, _ => None end.
Proof. reflexivity. Qed.
Lemma zs_tuple f l : zshape (S f) (C10Zod.zcall "tuple" [EArr l]) = option_map TsTuple (mapM (zshape f) l).
Proof. reflexivity. Qed.

(* ---- structures the schema builder renders without its pinned deviations ---- *)
Definition zod_clean (t : tstruct) : bool := negb (has_opt t || has_set t || has_res t).
Fixpoint tdepth (t : tstruct) : nat :=
  match t with
  | TPrim _ | TCustom _ => 1
  | TArr u | TSet u | TOpt u | TRes u => S (tdepth u)
  | TMap k v => S (Nat.max (tdepth k) (tdepth v))
  | TTuple l => S (fold_right (fun x m => Nat.max (tdepth x) m) 0 l)
  end.
Lemma tdepth_in l x : In x l -> tdepth x <= fold_right (fun x m => Nat.max (tdepth x) m) 0 l.
Proof. induction l; simpl; intros []; subst; try lia. specialize (IHl H). lia. Qed.

Lemma mapM_some {A B} (f : A -> option B) (g : A -> B) l : Forall (fun x => f x = Some (g x)) l -> mapM f l = Some (map g l).
Proof. induction 1 as [|x l Hx _ IH]; [reflexivity|]. cbn [mapM map]. rewrite Hx, IH. reflexivity. Qed.

Lemma prim4_cases p : prim4 p = true ->
  p = L "void" \/ p = L "string" \/ p = L "number" \/ p = L "boolean".
Proof. unfold prim4, one_of. cbn [existsb]. intros H.
  repeat (apply orb_true_iff in H as [H|H]); try discriminate; apply str_eqb_eq in H; auto. Qed.

(* the reading of the builder's tree is the README shape (with the table applied) *)
Lemma zshape_zex m : forall t, ts_ok (msubst m t) -> names_ok (msubst m t) -> zod_clean (msubst m t) = true ->
  forall key f, tdepth t < f -> zshape f (C10Zod.zex_of m t key) = Some (shape (msubst m t)).
Proof.
  induction t as [p|u IH|k v IHk IHv|u IH|l IH|u IH|u IH|n] using ts_ind';
    intros Hok Hn Hc key f Hf; (destruct f as [|f]; [lia|]).
  - (* primitive *)
    cbn [msubst ts_ok names_ok] in *. cbn [C10Zod.zex_of shape].
    destruct (prim4_cases p Hn) as [-> | [-> | [-> | ->]]]; [| |destruct key|]; reflexivity.
  - (* array *)
    cbn [msubst ts_ok names_ok] in *. unfold zod_clean in *. cbn [has_opt has_set has_res] in Hc.
    cbn [C10Zod.zex_of shape]. rewrite zs_array. rewrite IH; auto. cbn [tdepth] in Hf. lia.
  - (* map *)
    cbn [msubst ts_ok names_ok] in *. unfold zod_clean in *. cbn [has_opt has_set has_res] in Hc.
    destruct Hok as [Hk Hv]. destruct Hn as [Hnk Hnv]. cbn [tdepth] in Hf.
    apply negb_true_iff in Hc. apply orb_false_elim in Hc as [Hc Hr]. apply orb_false_elim in Hc as [Ho Hs].
    apply orb_false_elim in Ho as [Hok1 Hov]. apply orb_false_elim in Hs as [Hsk Hsv]. apply orb_false_elim in Hr as [Hrk Hrv].
    cbn [C10Zod.zex_of shape]. rewrite zs_record.
    rewrite IHk, IHv; auto; try lia; rewrite ?Hok1, ?Hov, ?Hsk, ?Hsv, ?Hrk, ?Hrv; reflexivity.
  - (* set: excluded *)
    cbn [msubst] in Hc. unfold zod_clean in Hc. cbn [has_opt has_set has_res] in Hc. rewrite orb_true_r in Hc. discriminate.
  - (* tuple *)
    destruct l as [|a l]; [reflexivity|].
    change (msubst m (TTuple (a :: l))) with (TTuple (map (msubst m) (a :: l))) in *.
    set (k := a :: l) in *.
    assert (Hok' : Forall ts_ok (map (msubst m) k)) by (apply ts_ok_list; exact Hok).
    assert (Hn' : Forall names_ok (map (msubst m) k)) by (apply names_ok_list; exact Hn).
    unfold zod_clean in Hc. cbn [has_opt has_set has_res] in Hc.
    apply negb_true_iff in Hc. apply orb_false_elim in Hc as [Hc Hr]. apply orb_false_elim in Hc as [Ho Hs].
    apply existsb_false_Forall in Ho. apply existsb_false_Forall in Hs. apply existsb_false_Forall in Hr.
    change (C10Zod.zex_of m (TTuple k) key) with (C10Zod.zcall "tuple" [EArr (map (fun x => C10Zod.zex_of m x false) k)]).
    rewrite zs_tuple.
    assert (HM : mapM (zshape f) (map (fun x => C10Zod.zex_of m x false) k) = Some (map shape (map (msubst m) k))).
    { rewrite !map_map.
      assert (HF : Forall (fun x => zshape f (C10Zod.zex_of m x false) = Some (shape (msubst m x))) k).
      { rewrite Forall_forall in *. intros x Hx. pose proof (in_map (msubst m) k x Hx) as Hx'. apply IH; auto.
        - unfold zod_clean. rewrite (Ho _ Hx'), (Hs _ Hx'), (Hr _ Hx'). reflexivity.
        - cbn [tdepth] in Hf. pose proof (tdepth_in k x Hx). lia. }
      clear -HF. induction HF as [|x xs Hx _ IHx]; [reflexivity|]. cbn [map mapM]. rewrite Hx, IHx. reflexivity. }
    rewrite HM. unfold k. reflexivity.
  - (* option: excluded *) cbn [msubst] in Hc. discriminate.
  - (* result: excluded *)
    cbn [msubst] in Hc. unfold zod_clean in Hc. cbn [has_opt has_set has_res] in Hc. rewrite orb_true_r in Hc. discriminate.
  - (* declared or mapped name *)
    cbn [C10Zod.zex_of]. unfold C10Zod.zcustom_ex. rewrite lookup_eq. cbn [msubst] in *.
    destruct (lookup m n) as [x|] eqn:Hl.
    + cbn [names_ok shape] in *. destruct (prim4_cases x Hn) as [-> | [-> | [-> | ->]]]; reflexivity.
    + cbn [ts_ok shape] in *. apply zs_id. destruct Hok; auto.
Qed.

(* ---- the missing link: the builder's text parses to the builder's tree ---- *)
Definition zod_link_class (m : mapping) (t : tstruct) : Prop :=
  ts_ok (msubst m t) /\ names_ok (msubst m t) /\ zod_clean (msubst m t) = true /\ tdepth t < 60.
Definition zod_parse_link : Prop :=
  forall m t, zod_link_class m t ->
    C10Check.parse_ex (C10Zod.build_schema m t) = Some (C10Zod.zex_of m t false).

Lemma zod_infer_parse_ex s :
  zod_infer s = match C10Check.parse_ex s with Some e => zshape 64 e | None => None end.
Proof. unfold zod_infer, C10Check.parse_ex. cbv zeta. destruct (has_err (lex_module s)); [reflexivity|].
  destruct (pexpr (lex_module s)) as [[e [|? ?]]|]; reflexivity. Qed.

Definition schema_site (s : site) (md : mode) : bool := negb (site_is_type s md).

(* with the parse of this very schema text as premise *)
Lemma sound_zod_schema_inst m t s md : mapping_ok m -> targets_ok m -> dom_m m t = true ->
  tdepth (sem t) < 64 -> schema_site s md = true -> kf_C05 s md m t = false ->
  C10Check.parse_ex (C10Zod.build_schema m (sem t)) = Some (C10Zod.zex_of m (sem t) false) ->
  exists text, emit_type s md m t = Some text /\ observe (site_is_type s md) text = Some (expected s m t).
Proof.
  intros Hm Ht Hd Hdepth Hs Hk Hinst.
  destruct (dom_m_facts m Hm t Hd) as (Hw & Hok & Hsh). pose proof (dom_m_nobr m t Hd) as Hb.
  pose proof (dom_m_names_ok m Ht t Hd) as Hn.
  unfold schema_site in Hs. apply negb_true_iff in Hs.
  unfold kf_C05, all_classes in Hk. cbn [existsb in_class] in Hk. rewrite Hs in Hk. cbn [andb negb] in Hk.
  apply orb_false_elim in Hk as [_ Hk]. apply orb_false_elim in Hk as [_ Hk].
  apply orb_false_elim in Hk as [Hko Hk]. apply orb_false_elim in Hk as [Hks Hk].
  apply orb_false_elim in Hk as [Hkr _]. apply orb_false_elim in Hko as [Hopt Hparam].
  assert (Hclean : zod_clean (msubst m (sem t)) = true) by (unfold zod_clean; rewrite Hopt, Hks, Hkr; reflexivity).
  assert (Htext : emit_type s md m t = Some (zbuild m (sem t) false)).
  { unfold emit_type, emit_str. rewrite (parse_faithful t Hw Hb). cbn [option_map].
    destruct s, md; try discriminate Hs; cbn [emit_ts]; [rewrite Hparam; rewrite app_nil_r|]; reflexivity. }
  exists (zbuild m (sem t) false). split; [exact Htext|]. rewrite Hs. cbn [observe].
  rewrite zod_infer_parse_ex. rewrite <- zbuild_eq. change (C10Zod.zbuild m (sem t) false) with (C10Zod.build_schema m (sem t)).
  rewrite Hinst. rewrite zshape_zex by (auto; lia). unfold expected.
  assert (Hq : site_qualified s = false) by (destruct s, md; try discriminate Hs; reflexivity).
  rewrite Hq, Hsh. reflexivity.
Qed.

Lemma zod_clean_of_class m t s md : schema_site s md = true -> kf_C05 s md m t = false -> zod_clean (msubst m (sem t)) = true.
Proof. intros Hs Hk. unfold schema_site in Hs. apply negb_true_iff in Hs.
  unfold kf_C05, all_classes in Hk. cbn [existsb in_class] in Hk. rewrite Hs in Hk. cbn [andb negb] in Hk.
  apply orb_false_elim in Hk as [_ Hk]. apply orb_false_elim in Hk as [_ Hk].
  apply orb_false_elim in Hk as [Hko Hk]. apply orb_false_elim in Hk as [Hks Hk].
  apply orb_false_elim in Hk as [Hkr _]. apply orb_false_elim in Hko as [Hopt _].
  unfold zod_clean. rewrite Hopt, Hks, Hkr. reflexivity. Qed.

Theorem sound_zod_schema : zod_parse_link -> forall m t s md, mapping_ok m -> targets_ok m -> dom_m m t = true ->
  tdepth (sem t) < 60 -> schema_site s md = true -> kf_C05 s md m t = false ->
  exists text, emit_type s md m t = Some text /\ observe (site_is_type s md) text = Some (expected s m t).
Proof.
  intros Hlink m t s md Hm Ht Hd Hdepth Hs Hk. apply sound_zod_schema_inst; auto; [lia|].
  apply Hlink. destruct (dom_m_facts m Hm t Hd) as (_ & Hok & _).
  repeat split; auto; [apply dom_m_names_ok; auto | eapply zod_clean_of_class; eauto].
Qed.

(* every site, both modes: the full statement, under the link and the depth premise *)
Theorem sound_all_sites : zod_parse_link -> forall m t s md, mapping_ok m -> targets_ok m -> dom_m m t = true ->
  tdepth (sem t) < 60 -> kf_C05 s md m t = false ->
  exists text, emit_type s md m t = Some text /\ observe (site_is_type s md) text = Some (expected s m t).
Proof.
  intros Hlink m t s md Hm Ht Hd Hdepth Hk. destruct (site_is_type s md) eqn:Hty.
  - rewrite <- Hty. apply sound_ts_sites; auto.
  - rewrite <- Hty. apply sound_zod_schema; auto. unfold schema_site. rewrite Hty. reflexivity.
Qed.

(* ---------------- the link is a theorem of the C10 development ---------------- *)
Require TT.Proofs.C10LexEx TT.Proofs.C10Depth.

Lemma in3_prim4 x : C10Zod.in_names x ["string"; "number"; "boolean"]%string = true -> prim4 x = true /\ idstr x.
Proof. unfold C10Zod.in_names. cbn [existsb]. intros H.
  repeat (apply orb_true_iff in H as [H|H]); try discriminate; apply str_eqb_eq in H; subst x;
    (split; [reflexivity | split; [discriminate | repeat constructor]]). Qed.
Lemma map_ok_targets m : C10Zod.map_ok m = true -> mapping_ok m /\ targets_ok m.
Proof. unfold C10Zod.map_ok, mapping_ok, targets_ok. intros H. rewrite forallb_forall in H.
  split; apply Forall_forall; intros kv Hkv; destruct (in3_prim4 _ (H kv Hkv)); assumption. Qed.
Lemma tdepth_tsdepth : forall t, tdepth t <= S (C10Depth.tsdepth t).
Proof. induction t as [p|u IH|k v IHk IHv|u IH|l IH|u IH|u IH|n] using ts_ind'; cbn [tdepth C10Depth.tsdepth]; try lia.
  apply le_n_S. induction IH as [|x xs Hx _ IHxs]; cbn [fold_right]; lia. Qed.

(* the Zod schema sites, with NO hypothesis about parsing: the builder's text parses to the builder's tree
   by C10LexEx.parse_build (premises of that theorem: targets among string/number/boolean, the structure in
   C10's domain - map keys string/number, names legal and not taken - and the nesting bound) *)
Theorem sound_zod_schema_proved m t s md : C10Zod.map_ok m = true -> dom_m m t = true -> C10Zod.dom (sem t) = true ->
  C10Depth.tsdepth (sem t) < 31 -> schema_site s md = true -> kf_C05 s md m t = false ->
  exists text, emit_type s md m t = Some text /\ observe (site_is_type s md) text = Some (expected s m t).
Proof.
  intros Hmo Hd Hd10 Hdepth Hs Hk. destruct (map_ok_targets m Hmo) as [Hm Ht].
  apply sound_zod_schema_inst; auto.
  - pose proof (tdepth_tsdepth (sem t)). lia.
  - apply (C10LexEx.parse_build m Hmo); auto. apply (C10Depth.budgets m (sem t) false Hmo Hdepth).
Qed.

Theorem sound_all_sites_proved m t s md : C10Zod.map_ok m = true -> dom_m m t = true -> C10Zod.dom (sem t) = true ->
  C10Depth.tsdepth (sem t) < 31 -> kf_C05 s md m t = false ->
  exists text, emit_type s md m t = Some text /\ observe (site_is_type s md) text = Some (expected s m t).
Proof.
  intros Hmo Hd Hd10 Hdepth Hk. destruct (map_ok_targets m Hmo) as [Hm Ht]. destruct (site_is_type s md) eqn:Hty.
  - rewrite <- Hty. apply sound_ts_sites; auto.
  - rewrite <- Hty. apply sound_zod_schema_proved; auto. unfold schema_site. rewrite Hty. reflexivity.
Qed.
