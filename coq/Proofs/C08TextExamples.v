(* C08 round 7: computed facts about the sample of Model/C08Text.v (premises of the text-level theorems are satisfiable). *)
From Coq Require Import String Ascii List Arith Bool.
Require Import TT.Model.Str TT.Spec.TsLex TT.Model.C08Fingerprint TT.Model.C08Run TT.Model.C08Text.
Require Import TT.Proofs.C08RunProofs TT.Proofs.C08FpProofs TT.Proofs.C08TextProofs.
Import ListNotations.
Local Open Scope string_scope.
Local Open Scope list_scope.

Definition tp_user := ex_tp (L "User") (L "user_id").
Definition tp_account := ex_tp (L "Account") (L "user_id").
Definition tp_field := ex_tp (L "User") (L "account_id").
(* the same project with every line number changed: not hashed, and without the graph not in any view *)
Definition tp_lines : tproject :=
  map (fun f => {| tf_path := tf_path f; tf_structs := tf_structs f;
                   tf_fns := map (fun t => {| t_def := t_def t; t_line := L "99" |}) (tf_fns f);
                   tf_events := tf_events f; tf_ndefs := tf_ndefs f |}) tp_user.
Definition ex_tz : config :=
  {| g_lib := L "zod"; g_private := false; g_maps := None; g_pcase := L "camelCase"; g_fcase := L "snake_case";
     g_viz := false; g_force := false; g_ppath := L "src-tauri" |}.

(* two discovery orders and two different projects, one view; the text is not trivial *)
Lemma ex_views_equal :
  view_of ex_w01 tp_user ex_tc = view_of ex_w10 tp_lines ex_tc /\ tp_user <> tp_lines /\
  List.length (types_ts ex_w01 tp_user ex_tc) = 122 /\ commands_ts ex_w01 tp_user ex_tc <> [] /\
  events_ts ex_w01 tp_user ex_tc <> None.
Proof. split; [vm_compute; reflexivity|]. split; [intros H; vm_compute in H; discriminate H|].
  split; [vm_compute; reflexivity|]. split; [vm_compute; discriminate|]. vm_compute. discriminate. Qed.
Lemma ex_views_equal_zod :
  view_of ex_w01 tp_user ex_tz = view_of ex_w10 tp_lines ex_tz /\
  List.length (zod_types_ts ex_w01 tp_user ex_tz) <> 0 /\ List.length (zod_commands_ts ex_w01 tp_user ex_tz) <> 0.
Proof. split; [vm_compute; reflexivity|]. split; vm_compute; discriminate. Qed.
Lemma ex_fp_equal : fp_t ex_w01 tp_user ex_tc = fp_t ex_w10 tp_lines ex_tc /\ g_viz ex_tc = false /\
  unhashed_t ex_w01 tp_user ex_tc = unhashed_t ex_w10 tp_lines ex_tc.
Proof. vm_compute. repeat split. Qed.

(* histories of the text-level machine *)
Notation RunT := (Run tproject config sched fname).
Notation SetSrcT := (SetSrc tproject config sched fname).
Notation DeleteT := (Delete tproject config sched fname).
Definition final_t (p : tproject) (c : config) (ops : list top) := fold_left stepG_t ops (init_t p c, None).
Lemma ex_text_detected :
  let sg := final_t tp_user ex_tc [RunT ex_w01 false; SetSrcT tp_field; DeleteT Types] in
  kf_C08_t ex_w10 sg = [] /\ g_viz (s_cfg (fst sg)) = false /\ fst (run_t ex_w10 false None (fst sg)) = Success.
Proof. vm_compute. repeat split. Qed.
Lemma ex_text_hit :
  let sg := final_t tp_user ex_tc [RunT ex_w01 false; SetSrcT tp_lines] in
  kf_C08_t ex_w10 sg = [] /\ g_viz (s_cfg (fst sg)) = false /\ fst (run_t ex_w10 false None (fst sg)) = UpToDate.
Proof. vm_compute. repeat split. Qed.

(* the injectivity statements at work *)
Definition ex_s (name fld : string) : Pipeline.struct_def :=
  {| Pipeline.s_name := L name; Pipeline.s_serde := Pipeline.s_serde Pipeline.user;
     Pipeline.s_fields := {| Pipeline.f_name := L fld; Pipeline.f_ty := Pipeline.T0 "i32"; Pipeline.f_serde := [] |} :: tl (Pipeline.s_fields Pipeline.user) |}.
Lemma ex_struct_rename : Pipeline.types_toks [ex_s "User" "user_id"] Pipeline.cmds <> Pipeline.types_toks [ex_s "Account" "user_id"] Pipeline.cmds.
Proof. intros H. apply (struct_rename_changes_types_ts [] _ [] _ [] Pipeline.cmds) in H. vm_compute in H. discriminate H. Qed.
Definition ex_f (fld : string) : Pipeline.field := {| Pipeline.f_name := L fld; Pipeline.f_ty := Pipeline.T0 "i32"; Pipeline.f_serde := [] |}.
Lemma ex_field_rename :
  Pipeline.struct_toks (with_fields Pipeline.user (firstn 2 (Pipeline.s_fields Pipeline.user) ++ ex_f "first_name" :: [])) <>
  Pipeline.struct_toks (with_fields Pipeline.user (firstn 2 (Pipeline.s_fields Pipeline.user) ++ ex_f "last_name" :: [])).
Proof. intros H.
  assert (H' : Pipeline.struct_toks (with_fields Pipeline.user (firstn 2 (Pipeline.s_fields Pipeline.user) ++ ex_f "first_name" :: [])) ++ [] =
               Pipeline.struct_toks (with_fields Pipeline.user (firstn 2 (Pipeline.s_fields Pipeline.user) ++ ex_f "last_name" :: [])) ++ []) by (rewrite H; reflexivity).
  apply field_key_changes_struct_toks in H'; try (vm_compute; reflexivity). vm_compute in H'. discriminate H'. Qed.
Definition ex_c0 : Pipeline.fn_def :=
  hd {| Pipeline.fn_name := []; Pipeline.fn_attrs := []; Pipeline.fn_async := false; Pipeline.fn_params := []; Pipeline.fn_ret := None |} Pipeline.cmds.
Lemma ex_command_rename :
  Pipeline.commands_toks ([] ++ ex_c0 :: tl Pipeline.cmds) <> Pipeline.commands_toks ([] ++ renamed (L "fetch_user") ex_c0 :: tl Pipeline.cmds).
Proof. intros H. apply command_rename_changes_commands_ts in H. vm_compute in H. discriminate H. Qed.
Lemma ex_event_rename :
  Events.listener_text (L "ping", L "String") ++ [] <> Events.listener_text (L "pong", L "String") ++ [].
Proof. intros H. apply event_rename_changes_listener in H.
  - vm_compute in H. discriminate H.
  - intros Hin. vm_compute in Hin. intuition discriminate.
  - intros Hin. vm_compute in Hin. intuition discriminate. Qed.
