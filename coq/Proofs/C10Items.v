(* C10 proofs, item level: names and keys of the two item lists; member-level agreement with the
   optional flags; refutation witnesses; the denotation sweep. *)
From Coq Require Import String Ascii.
From Coq Require Import List Arith Lia Bool.
Require Import TT.Model.Str TT.Proofs.StrFacts TT.Model.TypeParse TT.Spec.TsLex TT.Spec.TsModule TT.Spec.TsObs.
Require Import TT.Spec.C10Shape TT.Model.C10Zod TT.Spec.C10Check TT.Proofs.C10Proofs.
Import ListNotations.
Local Open Scope list_scope.

(* ---------------- names ---------------- *)
Lemma type_decls_app a b : type_decls (a ++ b) = type_decls a ++ type_decls b.
Proof. unfold type_decls. apply flat_map_app. Qed.
Lemma type_decls_flat_map {A} (f : A -> list item) l :
  type_decls (flat_map f l) = flat_map (fun x => type_decls (f x)) l.
Proof. induction l as [|x r IH]; [reflexivity|]. cbn [flat_map]. rewrite type_decls_app, IH. reflexivity. Qed.
Lemma type_decls_map {A} (f : A -> item) l :
  type_decls (map f l) = flat_map (fun x => type_decls [f x]) l.
Proof. induction l as [|x r IH]; [reflexivity|]. cbn [map flat_map]. rewrite <- IH. change (f x :: map f r) with ([f x] ++ map f r). apply type_decls_app. Qed.

Definition tdef_name (d : tdef) : str := match d with DStruct s => s_name s | DEnum e => e_name e end.
Definition struct_names (p : proj) : list str :=
  flat_map (fun d => match d with DStruct s => [s_name s] | DEnum _ => [] end) (p_types p).
Definition enum_names (p : proj) : list str :=
  flat_map (fun d => match d with DStruct _ => [] | DEnum e => [e_name e] end) (p_types p).
Definition has_params_obj (c : cdef) : bool := match c_params c, c_chans c with [], [] => false | _, _ => true end.
Definition params_names (p : proj) : list str :=
  flat_map (fun c => if has_params_obj c then [params_name c] else []) (p_cmds p).

Lemma plain_param_decls m c : type_decls (plain_param_items m c) = if has_params_obj c then [params_name c] else [].
Proof. unfold plain_param_items, has_params_obj. destruct (c_params c), (c_chans c); reflexivity. Qed.
Lemma zod_alias_decls m c : type_decls (zod_alias m c) = if has_params_obj c then [params_name c] else [].
Proof. unfold zod_alias, has_params_obj. destruct (c_params c), (c_chans c); reflexivity. Qed.
Lemma zod_param_schema_decls m c : type_decls (zod_param_schema m c) = [].
Proof. unfold zod_param_schema. destruct (c_params c); reflexivity. Qed.

Lemma plain_type_names p : type_decls (plain_items p) = map tdef_name (p_types p) ++ params_names p.
Proof.
  unfold plain_items. rewrite type_decls_app, type_decls_map, type_decls_flat_map. f_equal.
  - induction (p_types p) as [|d r IH]; [reflexivity|]. cbn [flat_map map]. rewrite IH. destruct d as [s|e]; [reflexivity|].
    cbn. destruct (e_variants e) as [|v [|w vs]]; reflexivity.
  - unfold params_names. apply flat_map_ext. intros c. apply plain_param_decls.
Qed.
Lemma zod_type_names p : type_decls (zod_items p) = map tdef_name (p_types p) ++ params_names p.
Proof.
  unfold zod_items. rewrite !type_decls_app, !type_decls_flat_map.
  assert (flat_map (fun x => type_decls (zod_param_schema (p_map p) x)) (p_cmds p) = []) as ->.
  { induction (p_cmds p) as [|c r IH]; [reflexivity|]. cbn [flat_map]. rewrite zod_param_schema_decls, IH. reflexivity. }
  cbn [app]. f_equal.
  - induction (p_types p) as [|d r IH]; [reflexivity|]. cbn [flat_map map]. rewrite IH. destruct d; reflexivity.
  - unfold params_names. apply flat_map_ext. intros c. apply zod_alias_decls.
Qed.

Lemma no_enum_struct_names p : has_enum p = false -> struct_names p = map tdef_name (p_types p).
Proof.
  unfold has_enum, struct_names. induction (p_types p) as [|d r IH]; [reflexivity|].
  cbn [existsb flat_map map]. destruct d as [s|e]; [|discriminate]. cbn [orb]. intros H. rewrite IH by exact H. reflexivity.
Qed.

Lemma names_equal p : type_decls (zod_items p) = type_decls (plain_items p).
Proof. rewrite zod_type_names, plain_type_names. reflexivity. Qed.

Lemma names_iff p n : In n (type_decls (plain_items p)) <-> In n (type_decls (zod_items p)).
Proof. rewrite names_equal. tauto. Qed.

(* every schema constant belongs to a type the plain module declares *)
Definition schema_consts (p : proj) : list str :=
  map (fun d => schema_name (tdef_name d)) (p_types p) ++
  flat_map (fun c => match c_params c with [] => [] | _ => [schema_name (params_name c)] end) (p_cmds p).
Lemma const_order_app a b : const_order (a ++ b) = const_order a ++ const_order b.
Proof. unfold const_order. apply flat_map_app. Qed.
Lemma const_order_flat_map {A} (f : A -> list item) l :
  const_order (flat_map f l) = flat_map (fun x => const_order (f x)) l.
Proof. induction l as [|x r IH]; [reflexivity|]. cbn [flat_map]. rewrite const_order_app, IH. reflexivity. Qed.
Lemma zod_consts p : const_order (zod_items p) = schema_consts p.
Proof.
  unfold zod_items, schema_consts. rewrite !const_order_app, !const_order_flat_map.
  assert (flat_map (fun x => const_order (zod_alias (p_map p) x)) (p_cmds p) = []) as ->.
  { induction (p_cmds p) as [|c r IH]; [reflexivity|]. cbn [flat_map]. rewrite IH, app_nil_r.
    unfold zod_alias. destruct (c_params c), (c_chans c); reflexivity. }
  rewrite app_nil_r. f_equal.
  - induction (p_types p) as [|d r IH]; [reflexivity|]. cbn [flat_map map]. rewrite IH. destruct d; reflexivity.
  - apply flat_map_ext. intros c. unfold zod_param_schema. destruct (c_params c); reflexivity.
Qed.

(* ---------------- keys ---------------- *)
Definition member_keys (ms : list (key * bool * ty)) : list str := map (fun mm => key_text (fst (fst mm))) ms.
Definition zod_object (fs : list (option key * ex)) : ex := zcall "object" [EObj fs].
Lemma zs_object fs : zshape (zod_object fs) =
  ShObj (flat_map (fun p => match fst p with Some k => [(key_text k, zshape (snd p))]
                                             | None => [(L "...", ShBad (L "spread"))] end) fs).
Proof. reflexivity. Qed.

Definition key_str (k : str) : str := key_text (mk_key k).
Lemma keys_fields m (f : mapping -> member -> option key * ex) (Hf : forall x, fst (f m x) = Some (mk_key (m_key x))) fs :
  keys_of (zshape (zod_object (map (f m) fs))) = map (fun x => key_str (m_key x)) fs.
Proof.
  rewrite zs_object. cbn [keys_of]. induction fs as [|x r IH]; [reflexivity|].
  cbn [map flat_map]. rewrite Hf. cbn [app map fst]. f_equal. exact IH.
Qed.
Lemma keys_struct m s :
  keys_of (zshape (zod_object (map (zod_field m) (s_fields s)))) = member_keys (map (plain_member m) (s_fields s)).
Proof. rewrite keys_fields by reflexivity. unfold member_keys. rewrite map_map. reflexivity. Qed.
Lemma keys_params m c :
  keys_of (zshape (zod_object (map (zod_param m) (c_params c)))) ++ member_keys (map (chan_member m ts_ty_of) (c_chans c)) =
  member_keys (map (plain_member m) (c_params c) ++ map (chan_member m ts_ty_of) (c_chans c)).
Proof. rewrite keys_fields by reflexivity. unfold member_keys. rewrite map_app, !map_map. reflexivity. Qed.

(* ---------------- members with their optional flags ---------------- *)
Section Members.
  Variable m : mapping.
  Hypothesis Hm : map_ok m = true.

  Definition clean (t : tstruct) : Prop :=
    dom t = true /\ has_set_t t = false /\ has_res_t t = false /\ union_under_seq t = false.
  (* FieldInfo / ParameterInfo.is_optional is set only for a type written Option<..> *)
  Definition flag_ok (f : member) : Prop := m_opt f = true -> top_opt (m_ty f) = true.

  Lemma type_agree t : clean t ->
    shape_agree (zshape (zex_of m t false)) (tshape (ts_ty_of m t)) = true.
  Proof.
    intros [Hd [Hs [Hr Hu]]]. rewrite zshape_zex, (tshape_ts m Hm) by assumption. apply agree_sh; assumption.
  Qed.

  Lemma field_agree f : clean (m_ty f) -> flag_ok f ->
    shape_agree (zshape (snd (zod_field m f))) (snd (tmember (plain_member m f))) = true.
  Proof.
    intros Hc Hf. pose proof (type_agree _ Hc) as Ha. destruct Hc as [Hd [Hs [Hr Hu]]].
    unfold zod_field, plain_member, tmember. cbn [fst snd].
    destruct (m_opt f) eqn:Eo; [|rewrite mk_opt_ff; exact Ha].
    specialize (Hf Eo). destruct (m_ty f) as [p|u|k v|u|l|u|u|n]; try discriminate.
    cbn [dom has_res_t] in Hd, Hr. destruct (zsh_opt_form m Hm u false Hr Hd) as [a Ea].
    rewrite zshape_zex in Ha |- *. rewrite Ea in Ha |- *. apply agree_add_omit. exact Ha.
  Qed.

  Lemma param_agree f : clean (m_ty f) -> flag_ok f ->
    shape_agree (zshape (snd (zod_param m f))) (snd (tmember (plain_member m f))) = true.
  Proof.
    intros Hc Hf. pose proof (field_agree f Hc Hf) as Ha. unfold zod_param, zod_field in *. cbn [snd] in *.
    destruct (m_opt f) eqn:Eo; [|exact Ha].
    specialize (Hf Eo). destruct (m_ty f) as [p|u|k v|u|l|u|u|n]; try discriminate.
    destruct Hc as [Hd [Hs [Hr Hu]]]. cbn [dom has_res_t] in Hd, Hr.
    destruct (zex_not_z m (TOpt u) false) as [H1 H2]. rewrite zs_link_optional by assumption.
    rewrite zshape_zex in Ha |- *. destruct (zsh_opt_form m Hm u false Hr Hd) as [a Ea]. rewrite Ea in Ha |- *. exact Ha.
  Qed.

  Lemma type_json t : dom t = true -> has_set_t t = false -> has_res_t t = false ->
    nonjson (zshape (zex_of m t false)) = [].
  Proof. intros Hd Hs Hr. rewrite zshape_zex. apply json_sh; assumption. Qed.

  Lemma type_accept t : clean t -> has_opt_t t = false ->
    rejects (zshape (zex_of m t false)) (tshape (ts_ty_of m t)) = [].
  Proof.
    intros [Hd [Hs [Hr Hu]]] Ho. rewrite zshape_zex, (tshape_ts m Hm) by assumption. apply accept_sh; assumption.
  Qed.
End Members.

(* both interface renderers are the same function *)
Lemma ziface_plain m : forall t, ziface m t = plain m t.
Proof.
  induction t as [p|u IH|k v IHk IHv|u IH|l IH|u IH|u IH|n] using ts_ind2; cbn [ziface plain]; try congruence.
  destruct l as [|a l']; [reflexivity|].
  assert (map (ziface m) (a :: l') = map (plain m) (a :: l')) as ->
    by (apply map_ext_in; intros x Hx; rewrite Forall_forall in IH; apply IH; exact Hx).
  reflexivity.
Qed.
(* with validator None the field and the parameter builder coincide *)
Lemma build_param_is_build m t : build_param_schema m t = build_schema m t.
Proof. reflexivity. Qed.

(* ---------------- witnesses ---------------- *)
Definition t_string := TPrim (L "string").
Definition w_set := TSet t_string.
Definition w_res := TRes t_string.
Definition w_prec := TArr (TOpt t_string).
Definition w_opt := TOpt t_string.
Definition shapes_of (t : tstruct) := (zshape (zex_of [] t false), tshape (ts_ty_of [] t)).

Lemma refuted_set : dom w_set = true /\ has_set_t w_set = true /\
  shape_agree (fst (shapes_of w_set)) (snd (shapes_of w_set)) = false /\ nonjson (fst (shapes_of w_set)) = [L "set"].
Proof. vm_compute. repeat split; reflexivity. Qed.
Lemma refuted_res : dom w_res = true /\ has_res_t w_res = true /\
  shape_agree (fst (shapes_of w_res)) (snd (shapes_of w_res)) = false.
Proof. vm_compute. repeat split; reflexivity. Qed.
Lemma refuted_prec : dom w_prec = true /\ union_under_seq w_prec = true /\
  shape_agree (fst (shapes_of w_prec)) (snd (shapes_of w_prec)) = false.
Proof. vm_compute. repeat split; reflexivity. Qed.
Lemma refuted_opt : dom w_opt = true /\ has_opt_t w_opt = true /\
  shape_agree (fst (shapes_of w_opt)) (snd (shapes_of w_opt)) = true /\
  rejects (fst (shapes_of w_opt)) (snd (shapes_of w_opt)) = [RejNull].
Proof. vm_compute. repeat split; reflexivity. Qed.

Definition p_enum : proj :=
  {| p_types := [DEnum {| e_name := L "Status"; e_variants := [L "Active"; L "Done"] |}];
     p_cmds := [{| c_tname := L "Get"; c_params := [{| m_key := L "s"; m_opt := false; m_ty := TCustom (L "Status") |}]; c_chans := [] |}];
     p_map := [] |}.
(* the former witness of the enum class: since the repair both modes declare the same type names
   and the oracle finds nothing *)
Lemma enum_witness : has_enum p_enum = true /\
  type_decls (plain_items p_enum) = [L "Status"; L "GetParams"] /\ type_decls (zod_items p_enum) = [L "Status"; L "GetParams"] /\
  v_tags (compare_modules (plain_items p_enum) (zod_items p_enum)) = [].
Proof. vm_compute. repeat split; reflexivity. Qed.

(* a project outside every class: the oracle finds nothing on the model's modules *)
Definition p_clean : proj :=
  {| p_types := [DStruct {| s_name := L "User"; s_fields :=
        [{| m_key := L "id"; m_opt := false; m_ty := TPrim (L "number") |};
         {| m_key := L "tags"; m_opt := false; m_ty := TArr (TPrim (L "string")) |};
         {| m_key := L "scores"; m_opt := false; m_ty := TMap (TPrim (L "number")) (TTuple [TPrim (L "boolean"); TCustom (L "User")]) |}] |}];
     p_cmds := [{| c_tname := L "Save"; c_params := [{| m_key := L "user"; m_opt := false; m_ty := TCustom (L "User") |}];
                   c_chans := [(L "onEv", TArr (TCustom (L "User")))] |}];
     p_map := [] |}.
Lemma clean_example : proj_dom p_clean = true /\ has_enum p_clean = false /\
  v_tags (compare_modules (plain_items p_clean) (zod_items p_clean)) = [].
Proof. vm_compute. repeat split; reflexivity. Qed.

(* ---------------- denotation sweep: the parser reads the model's trees from the model's strings ---------------- *)
Definition den_ok (m : mapping) (t : tstruct) : bool :=
  (match parse_ty (plain m t) with Some b => ty_eqb (ts_ty_of m t) b | None => false end) &&
  (match parse_ty (ziface m t) with Some b => ty_eqb (ts_ty_of m t) b | None => false end) &&
  (match parse_ex (zvisit m t) with Some b => ex_eqb (zvisit_ex m t) b | None => false end) &&
  (match parse_ex (build_schema m t) with Some b => ex_eqb (zex_of m t false) b | None => false end).
Definition leaves : list tstruct :=
  [TPrim (L "string"); TPrim (L "number"); TPrim (L "boolean"); TPrim (L "void"); TTuple []; TCustom (L "User"); TCustom (L "DateTime")].
Definition wraps (t : tstruct) : list tstruct :=
  [TArr t; TSet t; TOpt t; TRes t; TMap (TPrim (L "string")) t; TMap (TPrim (L "number")) t;
   TTuple [t; TPrim (L "number")]; TTuple [TPrim (L "string"); t]; TTuple [t]].
Fixpoint enum_types (d : nat) : list tstruct :=
  match d with 0 => leaves | S d' => leaves ++ flat_map wraps (enum_types d') end.
Definition sweep_map : mapping := [(L "DateTime", L "string")].
Lemma denotation_sweep :
  forallb (den_ok []) (enum_types 2) = true /\ forallb (den_ok sweep_map) (enum_types 2) = true /\
  List.length (enum_types 2) = 637.
Proof. vm_compute. repeat split; reflexivity. Qed.
