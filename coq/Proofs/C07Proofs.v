(* C07: the selection pipeline over abstract successor functions.
   discovered = work(harvested roots), used = nested(TypeStructure roots) over the discovered types,
   declared = (discovered and used) plus discovered event payload names.
   Main result [pipeline_exact]: if the harvested names, the TypeStructure names and the names of the
   specification agree on defined types, and no type is reachable through the fields of an event payload
   only, the declared list is duplicate free and is exactly the specification's reachable set. *)
From Coq Require Import List Arith Lia Bool Permutation.
Require Import TT.Model.C07Worklist TT.Proofs.WorklistSpike.
Import ListNotations.

Section Pipeline.
Variable node : Type.
Variable eq_dec : forall a b : node, {a = b} + {a <> b}.
Local Notation memb := (C07Worklist.memb eq_dec).
Local Notation memb_true := (WorklistSpike.memb_true node eq_dec).
Local Notation memb_false := (WorklistSpike.memb_false node eq_dec).
Local Notation reach := (@C07Worklist.reach node).
Local Notation target := (@C07Worklist.target node).

Lemma NoDup_app_snoc_gen (l : list node) x : NoDup l -> ~ In x l -> NoDup (l ++ [x]).
Proof. induction l as [|a l IH]; simpl; intros Hnd Hx.
  - constructor; auto.
  - inversion Hnd; subst. constructor.
    + rewrite in_app_iff. simpl. intros [|[|[]]]; auto.
    + apply IH; auto. Qed.

(* ---------- transfer of reachability between two successor functions ---------- *)
Lemma reach_transfer (s1 s2 : node -> list node) (d1 d2 : node -> bool) (D I : node -> Prop) :
  (forall n, d1 n = true -> D n) ->
  (forall a, I a -> d1 a = true -> d2 a = true) ->
  (forall a b, I a -> d1 a = true -> D b -> In b (s1 a) -> In b (s2 a) /\ I b) ->
  forall a c, reach s1 d1 a c -> I a -> D c -> reach s2 d2 a c.
Proof.
  intros HD Hd Hs a c Hr. induction Hr as [a|a b c Hda Hab Hbc IH]; intros HI HDc.
  - constructor.
  - assert (HDb : D b). { inversion Hbc; subst; auto. }
    destruct (Hs a b HI Hda HDb Hab) as [Hab' HIb].
    econstructor 2; [apply Hd; auto|exact Hab'|apply IH; auto].
Qed.

Lemma reach_start_defined (s : node -> list node) (d : node -> bool) a c :
  reach s d a c -> d c = true -> d a = true.
Proof. intros Hr Hc. inversion Hr; subst; auto. Qed.

(* ---------- the nested worklist ---------- *)
Section NestedProofs.
Variable fields : node -> list (list node).
Variable known : node -> bool.
Local Notation succN := (fun n => concat (fields n)).
Local Notation push_step := (C07Worklist.push_step eq_dec known).
Local Notation nested := (C07Worklist.nested eq_dec fields known).

Lemma fold_concat {A B} (f : A -> B -> A) (ls : list (list B)) : forall a,
  fold_left (fun acc l => fold_left f l acc) ls a = fold_left f (concat ls) a.
Proof. induction ls as [|l ls IH]; intros a; simpl; auto. rewrite fold_left_app. apply IH. Qed.

Lemma push_fold : forall names td al td' al',
  fold_left push_step names (td, al) = (td', al') ->
  (forall x, In x al -> In x al') /\ (forall x, In x td -> In x td') /\
  (forall x, In x al' -> In x al \/ (In x names /\ known x = true /\ In x td')) /\
  (forall x, In x td' -> In x td \/ (In x names /\ known x = true /\ In x al')) /\
  (forall x, In x names -> known x = true -> In x al').
Proof.
  induction names as [|y names IH]; intros td al td' al' H; simpl in H.
  - inversion H; subst. repeat split; auto. intros x [].
  - idtac.
    destruct (negb (memb y al) && known y) eqn:E.
    + apply andb_true_iff in E as [E1 E2]. apply negb_true_iff in E1.
      destruct (IH _ _ _ _ H) as (P1 & P2 & P3 & P4 & P5). repeat split.
      * intros x Hx. apply P1; right; auto.
      * intros x Hx. apply P2; right; auto.
      * intros x Hx. destruct (P3 x Hx) as [[<-|Hx']|(Hn & Hk & Ht)]; auto.
        -- right. repeat split; simpl; auto. apply P2; left; auto.
        -- right. repeat split; simpl; auto.
      * intros x Hx. destruct (P4 x Hx) as [[<-|Hx']|(Hn & Hk & Ha)]; auto.
        -- right. repeat split; simpl; auto. apply P1; left; auto.
        -- right. repeat split; simpl; auto.
      * intros x [<-|Hx] Hk; [apply P1; left; auto|apply P5; auto].
    + destruct (IH _ _ _ _ H) as (P1 & P2 & P3 & P4 & P5). repeat split; auto.
      * intros x Hx. destruct (P3 x Hx) as [|(Hn & Hk & Ht)]; auto. right. repeat split; simpl; auto.
      * intros x Hx. destruct (P4 x Hx) as [|(Hn & Hk & Ha)]; auto. right. repeat split; simpl; auto.
      * intros x [<-|Hx] Hk; [|apply P5; auto].
        apply andb_false_iff in E as [E|E]; [|congruence].
        apply negb_false_iff in E. apply memb_true in E. apply P1; auto.
Qed.

Record NInv (init todo processed all : list node) : Prop := {
  n_sound : forall x, In x all -> In x init \/ (known x = true /\ exists r, In r init /\ reach succN known r x);
  n_cover : forall x, In x all -> In x processed \/ In x todo;
  n_closed : forall x y, In x processed -> known x = true -> In y (succN x) -> known y = true -> In y all;
  n_init : forall x, In x init -> In x all;
  n_todo : forall x, In x todo -> In x all
}.

Lemma nested_inv init : forall fuel todo processed all out, NInv init todo processed all ->
  nested fuel todo processed all = Some out -> NInv init [] out out /\ (forall x, In x all -> In x out).
Proof.
  induction fuel as [|f IH]; intros todo processed all out HI Hn; [discriminate|].
  simpl in Hn. destruct todo as [|n rest].
  - inversion Hn; subst. split; auto. destruct HI as [Hs Hc Hcl Hi Ht]. constructor.
    + exact Hs.
    + intros x Hx. left; auto.
    + intros x y Hx Hk Hy Hky. destruct (Hc x Hx) as [Hp|[]]. eapply Hcl; eauto.
    + exact Hi.
    + intros x [].
  - destruct HI as [Hs Hc Hcl Hi Ht].
    destruct (memb n processed) eqn:Em.
    + apply memb_true in Em. eapply IH; eauto. constructor; auto.
      * intros x Hx. destruct (Hc x Hx) as [|[<-|]]; auto.
      * intros x Hx. apply Ht; right; auto.
    + destruct (known n) eqn:Ek.
      * destruct (fold_left _ (fields n) (rest, all)) as [todo' all'] eqn:Ef.
        rewrite fold_concat in Ef. destruct (push_fold _ _ _ _ _ Ef) as (P1 & P2 & P3 & P4 & P5).
        assert (Hn_all : In n all) by (apply Ht; left; auto).
        assert (HI' : NInv init todo' (n :: processed) all'); [|
          destruct (IH todo' (n :: processed) all' out HI' Hn) as [HIo Hmono];
          split; [exact HIo|intros x Hx; apply Hmono; apply P1; exact Hx]].
        constructor.
        -- intros x Hx. destruct (P3 x Hx) as [Hx'|(Hxn & Hxk & _)]; auto.
           right. split; auto.
           destruct (Hs n Hn_all) as [Hni|(_ & r & Hr & Hreach)].
           ++ exists n. split; auto. econstructor 2; eauto. constructor.
           ++ exists r. split; auto. eapply WorklistSpike.reach_trans; eauto. econstructor 2; eauto. constructor.
        -- intros x Hx. destruct (P3 x Hx) as [Hx'|(_ & _ & Hxt)]; auto.
           destruct (Hc x Hx') as [|[<-|]]; [left; right; auto|left; left; auto|right; apply P2; auto].
        -- intros x y [<-|Hx] Hkx Hy Hky; [apply P5; auto|]. apply P1. eapply Hcl; eauto.
        -- intros x Hx. apply P1. auto.
        -- intros x Hx. destruct (P4 x Hx) as [Hx'|(_ & _ & Hxa)]; auto. apply P1. apply Ht; right; auto.
      * eapply IH; eauto. constructor; auto.
        -- intros x Hx. destruct (Hc x Hx) as [|[<-|]]; [left; right; auto|left; left; auto|right; auto].
        -- intros x y [<-|Hx] Hkx Hy Hky; [congruence|]. eapply Hcl; eauto.
        -- intros x Hx. apply Ht; right; auto.
Qed.

(* discover_nested_dependencies computes, among the known names, exactly those reachable from the
   initial names through known names *)
Theorem nested_exact init fuel out : nested fuel init [] init = Some out ->
  (forall x, In x init -> In x out) /\
  forall x, known x = true -> (In x out <-> target succN known init x).
Proof.
  intros Hn. assert (HI : NInv init init [] init).
  { constructor; auto. intros x y []. }
  destruct (nested_inv init fuel init [] init out HI Hn) as [[Hs Hc Hcl Hi _] Hmono]. split; auto.
  intros x Hk. split.
  - intros Hx. destruct (Hs x Hx) as [Hxi|(_ & r & Hr & Hreach)]; split; auto.
    + exists x. split; auto. constructor.
    + exists r; auto.
  - intros (_ & r & Hr & Hreach).
    assert (Hgen : forall a b, reach succN known a b -> known b = true -> In a out -> In b out).
    { induction 1 as [a|a b c Hka Hab Hbc IHr]; intros Hkc Ha; auto.
      apply IHr; auto. assert (Hkb : known b = true) by (inversion Hbc; subst; auto).
      destruct (Hc a Ha) as [Hp|[]]. eapply Hcl; eauto. }
    apply (Hgen r x Hreach Hk). apply Hmono; auto.
Qed.
End NestedProofs.

(* ---------- the event payload addition ---------- *)
Section Events.
Variable disc : list node.
Local Notation add_event := (C07Worklist.add_event eq_dec disc).

Lemma add_event_fold : forall e acc, NoDup acc ->
  NoDup (fold_left add_event e acc) /\
  forall x, In x (fold_left add_event e acc) <-> In x acc \/ (In x e /\ In x disc).
Proof.
  induction e as [|n e IH]; intros acc Hnd; simpl.
  - split; auto. intros x; split; auto. intros [|[[] _]]; auto.
  - unfold C07Worklist.add_event at 2 4. destruct (memb n disc && negb (memb n acc)) eqn:E.
    + apply andb_true_iff in E as [E1 E2]. apply memb_true in E1. apply negb_true_iff in E2. apply memb_false in E2.
      assert (Hnd' : NoDup (acc ++ [n])).
      { apply NoDup_app_snoc_gen; auto. }
      destruct (IH _ Hnd') as [H1 H2]. split; auto. intros x. rewrite H2, in_app_iff. simpl.
      intuition (subst; auto).
    + destruct (IH _ Hnd) as [H1 H2]. split; auto. intros x. rewrite H2.
      assert (Hn : In n disc -> In n acc).
      { intros Hd. apply andb_false_iff in E as [E|E].
        - apply memb_false in E. contradiction.
        - apply negb_false_iff in E. apply memb_true in E. auto. }
      intuition (subst; auto).
Qed.

Lemma add_events_spec : forall events base, NoDup base ->
  NoDup (add_events eq_dec disc events base) /\
  forall x, In x (add_events eq_dec disc events base) <-> In x base \/ (In x disc /\ exists e, In e events /\ In x e).
Proof.
  unfold add_events. induction events as [|e events IH]; intros base Hnd; simpl.
  - split; auto. intros x; split; auto. intros [|[_ (e & [] & _)]]; auto.
  - destruct (add_event_fold e base Hnd) as [H1 H2]. destruct (IH _ H1) as [H3 H4]. split; auto.
    intros x. rewrite H4, H2. split.
    + intros [[|[Hx Hd]]|[Hd (e' & He' & Hx)]]; auto.
      * right. split; auto. exists e; auto.
      * right. split; auto. exists e'; auto.
    + intros [|[Hd (e' & [<-|He'] & Hx)]]; auto. right. split; auto. exists e'; auto.
Qed.
End Events.

(* ---------- the whole selection ---------- *)
Section Whole.
(* implementation side *)
Variable succH : node -> list node.          (* harvested dependency names of a definition *)
Variable defined pushok : node -> bool.
Hypothesis defined_pushok : forall n, defined n = true -> pushok n = true.
Variable rootsH : list node.                 (* harvested from parameters, returns (both arms), channels, events *)
Variable fieldsT : node -> list (list node). (* TypeStructure names, per field *)
Variable rootsT : list node.                 (* TypeStructure names of parameters, returns, channels *)
Variable eventInits : list (list node).      (* TypeStructure names of each event payload *)
Variable perm : list node -> list node.      (* iteration order of the discovered map *)
Hypothesis perm_ok : forall l, NoDup l -> NoDup (perm l) /\ forall x, In x (perm l) <-> In x l.
(* specification side *)
Variable succS : node -> list node.
Variable rootsC rootsE : list node.          (* command roots, event payload roots *)

Definition declared_abs (disc used : list node) (closures : list (list node)) : list node :=
  add_events eq_dec disc closures (filter (fun n => memb n used) (perm disc)).

(* agreement of the three readers on defined names *)
Hypothesis agree_H : forall n y, defined n = true -> defined y = true -> (In y (succH n) <-> In y (succS n)).
Hypothesis agree_T : forall n y, defined n = true -> defined y = true -> (In y (concat (fieldsT n)) <-> In y (succS n)).
Hypothesis roots_T : forall y, defined y = true -> (In y rootsT <-> In y rootsC).
Hypothesis roots_H : forall y, defined y = true -> In y rootsC \/ In y rootsE -> In y rootsH.
Hypothesis events_T : forall y, defined y = true -> ((exists e, In e eventInits /\ In y e) <-> In y rootsE).

Theorem pipeline_exact fuel1 fuel2 disc used closures :
  work eq_dec succH defined pushok fuel1 rootsH [] = Some disc ->
  nested eq_dec fieldsT (fun n => memb n disc) fuel2 rootsT [] rootsT = Some used ->
  (* each closure is what discover_nested_dependencies computes from the payload names of one event *)
  (forall x, memb x disc = true ->
     ((exists cl, In cl closures /\ In x cl) <->
      exists init, In init eventInits /\ target (fun n => concat (fieldsT n)) (fun n => memb n disc) init x)) ->
  NoDup (declared_abs disc used closures) /\
  forall x, In x (declared_abs disc used closures) <-> target succS defined (rootsC ++ rootsE) x.
Proof.
  intros Hw Hn Hcl.
  destruct (work_exact node eq_dec succH defined pushok defined_pushok rootsH fuel1 disc Hw) as [Hnd Hdisc].
  destruct (nested_exact fieldsT (fun n => memb n disc) rootsT fuel2 used Hn) as [Hinit Hused].
  destruct (perm_ok disc Hnd) as [Hpnd Hpin].
  assert (Hbase_nd : NoDup (filter (fun n => memb n used) (perm disc))) by (apply NoDup_filter; auto).
  destruct (add_events_spec disc closures _ Hbase_nd) as [Hdnd Hdin].
  split; [exact Hdnd|].
  assert (Hdisc_def : forall x, In x disc -> defined x = true) by (intros x Hx; apply Hdisc in Hx; apply Hx).
  (* a defined name reachable (specification) from a discovered name is discovered *)
  assert (Hstep : forall a b, In a disc -> In b (succS a) -> defined b = true -> In b disc).
  { intros a b Ha Hb Hdb. apply Hdisc. apply Hdisc in Ha as (Hda & r & Hr & Hreach). split; auto.
    exists r. split; auto. eapply WorklistSpike.reach_trans; [exact Hreach|].
    apply (C07Worklist.reach_step succH defined a b b Hda); [apply agree_H; auto|constructor]. }
  (* from the TypeStructure walk inside the discovered names to the specification *)
  assert (Hdown : forall r x, In x disc -> reach (fun n => concat (fieldsT n)) (fun n => memb n disc) r x ->
                  defined r = true /\ reach succS defined r x).
  { intros r x Hxd Hreach. assert (Hrd : defined r = true).
    { inversion Hreach; subst; auto. apply Hdisc_def. apply memb_true. auto. }
    split; auto.
    apply (reach_transfer (fun n => concat (fieldsT n)) succS (fun n => memb n disc) defined
             (fun n => defined n = true) (fun _ => True)); auto.
    - intros n Hn'. apply Hdisc_def. apply memb_true; auto.
    - intros a _ Ha. apply Hdisc_def. apply memb_true; auto.
    - intros a b _ Ha Hb Hab. split; auto. apply agree_T; auto. apply Hdisc_def. apply memb_true; auto. }
  (* and back, from a defined root that is among the harvested roots *)
  assert (Hup : forall r x, defined x = true -> In r rootsC \/ In r rootsE -> reach succS defined r x ->
                In x disc /\ reach (fun n => concat (fieldsT n)) (fun n => memb n disc) r x).
  { intros r x Hdx Hr Hreach.
    assert (Hrd : defined r = true) by (eapply reach_start_defined; eauto).
    assert (Hrdisc : In r disc).
    { apply Hdisc. split; auto. exists r. split; [apply roots_H; auto|constructor]. }
    assert (HreachH : reach succH defined r x).
    { apply (reach_transfer succS succH defined defined (fun n => defined n = true) (fun _ => True)); auto.
      intros a b _ Ha Hb Hab. split; auto. apply agree_H; auto. }
    split.
    - apply Hdisc. split; auto. exists r. split; [apply roots_H; auto|exact HreachH].
    - apply (reach_transfer succS (fun n => concat (fieldsT n)) defined (fun n => memb n disc)
               (fun n => defined n = true) (fun n => In n disc)); auto.
      + intros a Ha _. apply memb_true; auto.
      + intros a b Ha Hda Hdb Hab. split; [apply agree_T; auto|]. eapply Hstep; eauto. }
  intros x. unfold declared_abs. rewrite Hdin. rewrite filter_In, Hpin. split.
  - intros [[Hxd Hxu]|[Hxd Hex]].
    + (* discovered and used *)
      apply memb_true in Hxu. assert (Hdx := Hdisc_def x Hxd).
      apply Hused in Hxu; [|apply memb_true; auto]. destruct Hxu as (_ & r & Hr & Hreach).
      destruct (Hdown r x Hxd Hreach) as [Hrd HreachS].
      split; auto. exists r. split; auto. apply in_or_app; left. apply roots_T; auto.
    + (* discovered and in the closure of an event payload *)
      assert (Hdx := Hdisc_def x Hxd).
      apply (Hcl x) in Hex; [|apply memb_true; auto]. destruct Hex as (init & Hinit' & _ & r & Hr & Hreach).
      destruct (Hdown r x Hxd Hreach) as [Hrd HreachS].
      split; auto. exists r. split; auto. apply in_or_app; right. apply events_T; auto. exists init; auto.
  - intros (Hdx & r & Hr & Hreach). apply in_app_or in Hr.
    assert (Hrd : defined r = true) by (eapply reach_start_defined; eauto).
    destruct (Hup r x Hdx Hr Hreach) as [Hxdisc HreachN].
    destruct Hr as [Hr|Hr].
    + left. split; auto. apply memb_true. apply Hused; [apply memb_true; auto|]. split; [apply memb_true; auto|].
      exists r. split; [apply roots_T; auto|exact HreachN].
    + right. split; auto. apply (Hcl x); [apply memb_true; auto|].
      apply events_T in Hr; auto. destruct Hr as (init & Hi & Hri). exists init. split; auto.
      split; [apply memb_true; auto|]. exists r. auto.
Qed.
End Whole.
End Pipeline.
