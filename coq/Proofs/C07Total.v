(* C07 / C09: the model never runs out of fuel (both worklists; the sort is total by C20). *)
From Coq Require Import String Ascii.
From Coq Require Import List Arith Lia Bool.
Require Import TT.Model.Base TT.Model.Str TT.Model.C07TypeParse TT.Model.C07Harvest TT.Model.C07Worklist TT.Model.C07Reach TT.Model.Topo.
Require Import TT.Spec.TsObs TT.Spec.C07Spec TT.Proofs.TopoProofs TT.Proofs.WorklistSpike TT.Proofs.C07Proofs TT.Proofs.C07Concrete TT.Proofs.C07Full.
Import ListNotations.

Section NestedTotal.
Variable node : Type.
Variable eq_dec : forall a b : node, {a = b} + {a <> b}.
Variable fields : node -> list (list node).
Variable known : node -> bool.
Variable K : list node.
Hypothesis K_nodup : NoDup K.
Hypothesis K_known : forall x, known x = true -> In x K.
Local Notation memb := (C07Worklist.memb eq_dec).
Local Notation memb_true := (WorklistSpike.memb_true node eq_dec).
Local Notation memb_false := (WorklistSpike.memb_false node eq_dec).
Local Notation push_step := (C07Worklist.push_step eq_dec known).
Local Notation nested := (C07Worklist.nested eq_dec fields known).

Definition missing (l all : list node) : nat := List.length (filter (fun x => negb (memb x all)) l).

Lemma missing_same x all l : ~ In x l -> missing l (x :: all) = missing l all.
Proof. unfold missing. induction l as [|a l IH]; intros Hx; simpl; auto.
  assert (Ha : memb a (x :: all) = memb a all).
  { destruct (memb a all) eqn:E.
    - apply memb_true. right. apply memb_true; auto.
    - apply memb_false. apply memb_false in E. intros [->|H]; [apply Hx; left; auto|contradiction]. }
  rewrite Ha. destruct (negb (memb a all)); simpl; rewrite IH; auto; intros H; apply Hx; right; auto. Qed.

Lemma missing_cons x all l : NoDup l -> In x l -> ~ In x all -> missing l (x :: all) + 1 = missing l all.
Proof. unfold missing. induction l as [|a l IH]; intros Hnd Hin Hx; [contradiction|]. inversion Hnd; subst. simpl.
  destruct (eq_dec a x) as [->|Hne].
  - replace (memb x (x :: all)) with true by (symmetry; apply memb_true; left; auto).
    replace (memb x all) with false by (symmetry; apply memb_false; auto). simpl.
    pose proof (missing_same x all l H1) as Hs. unfold missing in Hs. rewrite Hs. lia.
  - destruct Hin as [->|Hin]; [congruence|].
    assert (Ha : memb a (x :: all) = memb a all).
    { destruct (memb a all) eqn:E.
      - apply memb_true. right. apply memb_true; auto.
      - apply memb_false. apply memb_false in E. intros [H|H]; [congruence|contradiction]. }
    rewrite Ha. specialize (IH H2 Hin Hx). destruct (negb (memb a all)); simpl; lia. Qed.

Lemma push_fold_count : forall names td al td' al',
  fold_left push_step names (td, al) = (td', al') -> List.length td' + missing K al' = List.length td + missing K al.
Proof. induction names as [|y names IH]; intros td al td' al' H; simpl in H; [inversion H; auto|].
  destruct (negb (memb y al) && known y) eqn:E.
  - apply andb_true_iff in E as [E1 E2]. apply negb_true_iff in E1. apply memb_false in E1.
    rewrite (IH _ _ _ _ H). simpl. pose proof (missing_cons y al K K_nodup (K_known y E2) E1). lia.
  - apply (IH _ _ _ _ H). Qed.

Theorem nested_total : forall fuel todo processed all,
  List.length todo + missing K all < fuel -> nested fuel todo processed all <> None.
Proof.
  induction fuel as [|f IH]; intros todo processed all Hf; [lia|]. simpl.
  destruct todo as [|n rest]; [discriminate|]. simpl in Hf.
  destruct (memb n processed).
  - apply IH. lia.
  - destruct (known n).
    + destruct (fold_left _ (fields n) (rest, all)) as [todo' all'] eqn:Ef.
      rewrite fold_concat in Ef. apply push_fold_count in Ef. apply IH. lia.
    + apply IH. lia.
Qed.
End NestedTotal.

Lemma sum_le_gen {A} (f g : A -> nat) l : (forall x, f x <= g x) -> list_sum (map f l) <= list_sum (map g l).
Proof. intros H. induction l; simpl; auto. specialize (H a). lia. Qed.

Section ModelTotal.
Variable o : orders.
Hypothesis Ho : ord_ok o.
Variable p : project.
Hypothesis Hnd : NoDup (top_names p).

Lemma o_len s k l : List.length (o s k l) <= List.length l.
Proof. destruct (Ho s k l) as [H1 H2]. apply NoDup_incl_length; auto. intros x Hx. apply H2; auto. Qed.

Lemma discovered_total : exists disc, discovered o p = Some disc.
Proof.
  unfold discovered.
  destruct (work str_dec (fun n => o S_DEPS n (deps_of p n)) (resolvable p) (indexed p) (big_fuel p) (o S_ROOTS [] (harvest_roots p)) [])
    as [d|] eqn:E; [eauto|]. exfalso. revert E.
  apply (work_total str str_dec _ (resolvable p) (indexed p) (top_names p) Hnd (resolvable_in_top p)).
  unfold pot, big_fuel. simpl. unfold top_names. rewrite map_map.
  pose proof (o_len S_ROOTS [] (harvest_roots p)).
  pose proof (sum_le_gen (fun d => List.length (o S_DEPS (d_name d) (deps_of p (d_name d))))
                         (fun d => S (List.length (deps_of p (d_name d)))) (defs p)
                         (fun d => Nat.le_trans _ _ _ (o_len S_DEPS _ _) (Nat.le_succ_diag_r _))).
  lia.
Qed.

Lemma used_total disc : discovered o p = Some disc -> exists used, used_types o p disc = Some used.
Proof.
  intros Hd. unfold discovered in Hd.
  destruct (work_exact str str_dec _ _ _ (resolvable_indexed p) _ _ _ Hd) as [Hdn _].
  unfold used_types.
  destruct (nested str_dec (fields_ts o p) (fun n => smemb n disc) _ _ [] _) as [u|] eqn:E; [eauto|]. exfalso. revert E.
  apply (nested_total str str_dec (fields_ts o p) (fun n => smemb n disc) disc Hdn).
  - intros x Hx. apply smemb_true; auto.
  - unfold missing. pose proof (filter_len (fun x => negb (C07Worklist.memb str_dec x (o S_USED [] (used_roots p)))) disc). lia.
Qed.

Lemma mapM_total {A B} (f : A -> option B) l : (forall x, In x l -> exists y, f x = Some y) -> exists ys, mapM f l = Some ys.
Proof. induction l as [|a l IH]; intros H; simpl; [eauto|].
  destruct (H a (or_introl eq_refl)) as (b & ->). destruct IH as (bs & ->); [intros; apply H; right; auto|]. eauto. Qed.

Lemma closure_total disc e : discovered o p = Some disc -> exists cl, event_closure o p disc e = Some cl.
Proof.
  intros Hd. unfold discovered in Hd.
  destruct (work_exact str str_dec _ _ _ (resolvable_indexed p) _ _ _ Hd) as [Hdn _].
  unfold event_closure. cbv zeta.
  destruct (nested str_dec (fields_ts o p) (fun n => smemb n disc) _ (o S_EVENT e (ts_of e)) [] _) as [u|] eqn:E; [simpl; eauto|].
  exfalso. revert E.
  apply (nested_total str str_dec (fields_ts o p) (fun n => smemb n disc) disc Hdn).
  - intros x Hx. apply smemb_true; auto.
  - unfold missing. pose proof (filter_len (fun x => negb (C07Worklist.memb str_dec x (o S_EVENT e (ts_of e)))) disc). lia.
Qed.

Theorem declared_total : exists decl, C07Reach.declared o p = Some decl.
Proof. unfold C07Reach.declared. destruct discovered_total as (disc & Hd). rewrite Hd.
  destruct (used_total disc Hd) as (used & Hu). rewrite Hu.
  destruct (mapM_total (event_closure o p disc) (events p)) as (cls & Hc); [intros e _; apply closure_total; auto|].
  rewrite Hc. eauto. Qed.

Theorem emitted_zod_total : exists out, emitted_zod o p = Some out.
Proof. unfold emitted_zod. destruct discovered_total as (disc & Hd). rewrite Hd.
  destruct declared_total as (decl & Hdecl). rewrite Hdecl.
  destruct (topo_total (dep_graph o p disc) (o S_REQ [] decl)) as (sorted & Hs). rewrite Hs. eauto. Qed.
End ModelTotal.

Lemma domain_nodup p : in_domain p = true -> NoDup (top_names p).
Proof. intros Hdom. unfold in_domain in Hdom. apply andb_true_iff in Hdom as [Hdom _]. apply andb_true_iff in Hdom as [Hdom _].
  apply andb_true_iff in Hdom as [Hdom _]. apply andb_true_iff in Hdom as [_ Hn]. apply andb_true_iff in Hn as [_ Hn]. unfold nodup_b in Hn.
  apply negb_true_iff in Hn. apply has_dup_nodup; auto. Qed.
