(* proofs about TT.Model.Render *)
From Coq Require Import String Ascii.
From Coq Require Import List Arith Lia Bool.
Require Import TT.Model.Str TT.Proofs.StrFacts TT.Model.TypeParse TT.Spec.TsType TT.Proofs.TsTypeProofs.
Import ListNotations.
Local Open Scope char_scope.
Local Open Scope list_scope.
Require Import TT.Model.Render.
Lemma ts_ok_list l : (fix go l := match l with [] => True | x :: l' => ts_ok x /\ go l' end) l <-> Forall ts_ok l.
Proof. induction l; simpl; split; intros; auto. constructor; tauto. inversion H; subst; tauto. Qed.

Section TsInd.
  Variable P : tstruct -> Prop.
  Hypothesis Hprim : forall p, P (TPrim p).
  Hypothesis Harr : forall u, P u -> P (TArr u).
  Hypothesis Hmap : forall k v, P k -> P v -> P (TMap k v).
  Hypothesis Hset : forall u, P u -> P (TSet u).
  Hypothesis Htup : forall l, Forall P l -> P (TTuple l).
  Hypothesis Hopt : forall u, P u -> P (TOpt u).
  Hypothesis Hres : forall u, P u -> P (TRes u).
  Hypothesis Hcus : forall n, P (TCustom n).
  Fixpoint ts_ind' (t : tstruct) : P t :=
    match t with
    | TPrim p => Hprim p | TArr u => Harr u (ts_ind' u) | TMap k v => Hmap k v (ts_ind' k) (ts_ind' v)
    | TSet u => Hset u (ts_ind' u)
    | TTuple l => Htup l ((fix go l : Forall P l := match l with [] => Forall_nil _ | x :: l' => Forall_cons _ (ts_ind' x) (go l') end) l)
    | TOpt u => Hopt u (ts_ind' u) | TRes u => Hres u (ts_ind' u) | TCustom n => Hcus n
    end.
End TsInd.

(* -- A. the lexer sees exactly the intended tokens -- *)
Definition bnd (r : str) : Prop := match r with [] => True | c :: _ => is_idc c = false end.

Lemma lex_go_bnd cur r : bnd r -> lex_go cur r = flush cur (lex_go [] r).
Proof. destruct r as [|c r]; simpl; intros H. - destruct cur; reflexivity. - rewrite H. reflexivity. Qed.

Lemma lex_go_idc n : Forall (fun c => is_idc c = true) n -> forall cur r, lex_go cur (n ++ r) = lex_go (rev n ++ cur) r.
Proof. induction 1 as [|c n Hc Hn IH]; intros cur r; simpl; auto. rewrite Hc, IH. rewrite <- app_assoc. reflexivity. Qed.

Lemma lex_ident n r : idstr n -> bnd r -> lex_go [] (n ++ r) = LT (TId n) :: lex_go [] r.
Proof. intros [Hne Hid] Hr. rewrite lex_go_idc by auto. rewrite app_nil_r. rewrite lex_go_bnd by auto.
  unfold flush. destruct (rev n) eqn:E.
  - exfalso. apply Hne. rewrite <- (rev_involutive n), E. reflexivity.
  - rewrite <- E, rev_involutive. reflexivity. Qed.

Lemma idstr_L_Record : idstr (L "Record"). Proof. split; [discriminate|repeat constructor]. Qed.
Lemma idstr_L_null : idstr (L "null"). Proof. split; [discriminate|repeat constructor]. Qed.
Lemma idstr_L_void : idstr (L "void"). Proof. split; [discriminate|repeat constructor]. Qed.

Lemma render_tuple a l : render (TTuple (a :: l)) = "[" :: join (L ", ") (map render (a :: l)) ++ ["]"].
Proof. reflexivity. Qed.
Lemma toks_tuple a l : toks (TTuple (a :: l)) = TLBr :: sep_by TComma (map toks (a :: l)) ++ [TRBr].
Proof. reflexivity. Qed.

Lemma render_map k v : render (TMap k v) = L "Record" ++ "<" :: (render k ++ "," :: " " :: (render v ++ [">"])).
Proof. simpl. repeat rewrite <- app_assoc. reflexivity. Qed.
Lemma toks_map k v : toks (TMap k v) = TId (L "Record") :: TLt :: toks k ++ TComma :: toks v ++ [TGt].
Proof. reflexivity. Qed.
Lemma lex_punct c t cur' r : is_idc c = false -> punct c = Some (Some t) -> cur' = [] ->
  lex_go cur' (c :: r) = LT t :: lex_go [] r.
Proof. intros H1 H2 ->. simpl. rewrite H1, H2. reflexivity. Qed.
Lemma lex_space r : lex_go [] (" " :: r) = lex_go [] r.
Proof. reflexivity. Qed.

Lemma lex_render : forall t, ts_ok t -> forall r, bnd r ->
  lex_go [] (render t ++ r) = map LT (toks t) ++ lex_go [] r.
Proof.
  induction t as [p|u IH|k v IHk IHv|u IH|l IH|u IH|u IH|n] using ts_ind'; intros Hok r Hr; simpl in Hok.
  - simpl. apply lex_ident; auto.
  - simpl render. simpl toks. rewrite <- app_assoc. rewrite IH by (auto; reflexivity).
    rewrite map_app. rewrite <- app_assoc. reflexivity.
  - destruct Hok as [Hk Hv]. rewrite render_map, toks_map.
    rewrite <- app_assoc. rewrite lex_ident by (try apply idstr_L_Record; reflexivity).
    cbn [app]. rewrite (lex_punct "<" TLt) by reflexivity.
    rewrite <- app_assoc. rewrite IHk by (auto; reflexivity).
    cbn [app]. rewrite (lex_punct "," TComma) by reflexivity. rewrite lex_space.
    rewrite <- app_assoc. rewrite IHv by (auto; reflexivity).
    cbn [app]. rewrite (lex_punct ">" TGt) by reflexivity.
    cbn [map]. rewrite !map_app. cbn [map]. rewrite ?map_app. cbn [map app]. repeat (rewrite <- app_assoc; cbn [app]). reflexivity.
  - simpl render. simpl toks. rewrite <- app_assoc. rewrite IH by (auto; reflexivity).
    rewrite map_app. rewrite <- app_assoc. reflexivity.
  - apply ts_ok_list in Hok. destruct l as [|a l].
    + simpl. apply (lex_ident (L "void")); auto. apply idstr_L_void.
    + rewrite render_tuple, toks_tuple.
      (* induction over the elements *)
      assert (Hgen : forall es, es <> [] -> Forall (fun t => ts_ok t -> forall r, bnd r -> lex_go [] (render t ++ r) = map LT (toks t) ++ lex_go [] r) es ->
                Forall ts_ok es -> forall r', bnd r' ->
                lex_go [] (join (L ", ") (map render es) ++ r') = map LT (sep_by TComma (map toks es)) ++ lex_go [] r').
      { clear. induction es as [|e es IHes]; intros Hne HIH Hok r' Hr'; [congruence|].
        inversion HIH as [|? ? He HIH']; subst. inversion Hok as [|? ? Hoe Hok']; subst.
        destruct es as [|e' es].
        - change (map render [e]) with [render e]. change (map toks [e]) with [toks e].
          rewrite join_one, sep_by_one. apply He; auto.
        - change (map render (e :: e' :: es)) with (render e :: render e' :: map render es).
          change (map toks (e :: e' :: es)) with (toks e :: toks e' :: map toks es).
          rewrite join_cons2, sep_by_cons2. repeat rewrite <- app_assoc. rewrite He by (auto; reflexivity).
          change (lex_go [] (L ", " ++ join (L ", ") (render e' :: map render es) ++ r'))
            with (LT TComma :: lex_go [] (join (L ", ") (render e' :: map render es) ++ r')).
          change (render e' :: map render es) with (map render (e' :: es)).
          rewrite IHes by (auto; discriminate). rewrite map_app. cbn [map]. rewrite <- app_assoc. reflexivity. }
      cbn [app]. rewrite (lex_punct "[" TLBr) by reflexivity.
      rewrite <- app_assoc. cbn [app]. rewrite Hgen by (auto; try discriminate; reflexivity).
      rewrite (lex_punct "]" TRBr) by reflexivity.
      cbn [map]. rewrite map_app. cbn [map app]. repeat (rewrite <- app_assoc; cbn [app]). reflexivity.
  - change (render (TOpt u)) with (render u ++ " " :: "|" :: " " :: L "null").
    change (toks (TOpt u)) with (toks u ++ [TBar; TId (L "null")]).
    rewrite <- app_assoc. rewrite IH by (auto; reflexivity).
    cbn [app]. rewrite lex_space. rewrite (lex_punct "|" TBar) by reflexivity. rewrite lex_space.
    rewrite lex_ident by (auto; apply idstr_L_null).
    rewrite map_app. cbn [map]. repeat (rewrite <- app_assoc; cbn [app]). reflexivity.
  - simpl. apply IH; auto.
  - simpl. apply lex_ident; auto.
Qed.

(* -- B. outside the class the tokens are the canonical print of the intended type -- *)
Lemma is_union_shape u : is_union (shape u) = opt_like u.
Proof. induction u using ts_ind'; simpl; auto.
  - destruct l; reflexivity.
  - unfold union_snoc. destruct (shape u); reflexivity. Qed.

Lemma sep_by_snoc {A} (s : A) (l : list (list A)) x : l <> [] -> sep_by s (l ++ [x]) = sep_by s l ++ s :: x.
Proof. induction l as [|y l IH]; intros Hne; [congruence|]. destruct l as [|z l].
  - reflexivity.
  - change ((y :: z :: l) ++ [x]) with (y :: z :: (l ++ [x])). rewrite !sep_by_cons2.
    change (z :: l ++ [x]) with ((z :: l) ++ [x]). rewrite IH by discriminate. rewrite <- app_assoc. reflexivity. Qed.

Lemma pr_union_eq a b more : pr (TsUnion a b more) = sep_by TBar (map pr (a :: b :: more)).
Proof. reflexivity. Qed.

Lemma pr_union_snoc a x : pr (union_snoc a x) = pr a ++ TBar :: pr x.
Proof. unfold union_snoc. destruct a; try reflexivity.
  rewrite !pr_union_eq. change (a1 :: a2 :: more ++ [x]) with ((a1 :: a2 :: more) ++ [x]).
  rewrite map_app. cbn [map]. rewrite sep_by_snoc by discriminate. reflexivity. Qed.

Lemma existsb_false_Forall {A} (f : A -> bool) l : existsb f l = false -> Forall (fun x => f x = false) l.
Proof. induction l; simpl; intros; constructor. apply orb_false_elim in H; tauto. apply IHl. apply orb_false_elim in H; tauto. Qed.

Lemma map_toks_pr l : Forall (fun t => kf_union_under_seq t = false -> toks t = pr (shape t)) l ->
  Forall (fun x => kf_union_under_seq x = false) l -> map toks l = map pr (map shape l).
Proof. induction 1 as [|x xs Hx _ IH]; intros Hk; [reflexivity|]. inversion Hk; subst. cbn [map]. rewrite Hx by auto. f_equal. auto. Qed.

Lemma toks_pr : forall t, kf_union_under_seq t = false -> toks t = pr (shape t).
Proof. induction t as [p|u IH|k v IHk IHv|u IH|l IH|u IH|u IH|n] using ts_ind'; intros Hk; simpl in Hk.
  - reflexivity.
  - apply orb_false_elim in Hk as [Ho Hk]. simpl toks. simpl shape. rewrite pr_array. unfold atom.
    rewrite is_union_shape, Ho. rewrite IH by auto. reflexivity.
  - apply orb_false_elim in Hk as [Hk1 Hk2]. rewrite toks_map. simpl shape. rewrite pr_app_eq.
    cbn [flat_map app map]. rewrite sep_by_cons2, sep_by_one. rewrite IHk, IHv by auto.
    repeat (rewrite <- app_assoc; cbn [app]). reflexivity.
  - apply orb_false_elim in Hk as [Ho Hk]. simpl toks. simpl shape. rewrite pr_array. unfold atom.
    rewrite is_union_shape, Ho. rewrite IH by auto. reflexivity.
  - destruct l as [|a l]; [reflexivity|]. rewrite toks_tuple.
    change (shape (TTuple (a :: l))) with (TsTuple (map shape (a :: l))). rewrite pr_tuple_eq.
    apply existsb_false_Forall in Hk. rewrite (map_toks_pr (a :: l)) by auto. reflexivity.
  - change (toks (TOpt u)) with (toks u ++ [TBar; TId (L "null")]). simpl shape. rewrite pr_union_snoc. rewrite IH by auto. reflexivity.
  - simpl. auto.
  - reflexivity.
Qed.

(* -- C. normal form and size -- *)
Lemma nf_shape : forall t, nf (shape t).
Proof. induction t as [p|u IH|k v IHk IHv|u IH|l IH|u IH|u IH|n] using ts_ind'; simpl; auto.
  - destruct l as [|a l]; [exact I|]. change (nf (TsTuple (map shape (a :: l)))).
    apply (proj2 (nf_list_iff nf (map shape (a :: l)))).
    clear -IH. induction IH; simpl; constructor; auto.
  - unfold union_snoc. destruct (shape u) eqn:E;
      try (split; [split; [exact IH|reflexivity] | split; [split; [exact I|reflexivity] | exact I]]).
    simpl in IH. destruct IH as (Ha & Hb & Hm). split; [tauto|]. split; [tauto|].
    apply (proj2 (nf_list_iff (fun x => nf x /\ is_union x = false) (more ++ [null_t]))).
    apply (proj1 (nf_list_iff (fun x => nf x /\ is_union x = false) more)) in Hm.
    apply Forall_app. split; auto. repeat constructor.
Qed.

Section TsyInd.
  Variable P : tsty -> Prop.
  Hypothesis H1 : forall h t, P (TsName h t).
  Hypothesis H2 : forall h t a args, P a -> Forall P args -> P (TsApp h t a args).
  Hypothesis H3 : forall u, P u -> P (TsArray u).
  Hypothesis H4 : forall l, Forall P l -> P (TsTuple l).
  Hypothesis H5 : forall a b more, P a -> P b -> Forall P more -> P (TsUnion a b more).
  Fixpoint tsty_ind' (t : tsty) : P t :=
    let go := fix go l : Forall P l := match l with [] => Forall_nil _ | x :: l' => Forall_cons _ (tsty_ind' x) (go l') end in
    match t with
    | TsName h tl => H1 h tl | TsApp h tl a args => H2 h tl a args (tsty_ind' a) (go args)
    | TsArray u => H3 u (tsty_ind' u) | TsTuple l => H4 l (go l)
    | TsUnion a b more => H5 a b more (tsty_ind' a) (tsty_ind' b) (go more)
    end.
End TsyInd.

Lemma sum_size_sep (s : tok) l : Forall (fun t => size t <= List.length (pr t)) l ->
  list_sum (map size l) <= List.length (sep_by s (map pr l)).
Proof. induction 1 as [|x l Hx Hl IH]; [simpl; lia|]. destruct l as [|y l].
  - simpl map. rewrite sep_by_one. simpl. lia.
  - change (map pr (x :: y :: l)) with (pr x :: pr y :: map pr l). rewrite sep_by_cons2.
    change (pr y :: map pr l) with (map pr (y :: l)). rewrite app_length. simpl List.length in *. simpl list_sum in *. lia. Qed.

Lemma size_le_len : forall t, size t <= List.length (pr t).
Proof. induction t as [h tl|h tl a args IHa IHargs|u IH|l IH|a b more IHa IHb IHm] using tsty_ind'.
  - simpl. lia.
  - rewrite pr_app_eq.
    assert (H : size a + list_sum (map size args) <= List.length (sep_by TComma (pr a :: map pr args)))
      by (exact (sum_size_sep TComma (a :: args) (Forall_cons _ IHa IHargs))).
    cbn [size]. change (map pr (a :: args)) with (pr a :: map pr args).
    cbn [List.length]. repeat (rewrite app_length; cbn [List.length]). lia.
  - rewrite pr_array. unfold atom. cbn [size]. destruct (is_union u); rewrite app_length; cbn [List.length]; rewrite ?app_length; cbn [List.length]; lia.
  - rewrite pr_tuple_eq. cbn [size List.length]. rewrite app_length. pose proof (sum_size_sep TComma l IH). cbn [List.length]. lia.
  - rewrite pr_union_eq. cbn [size].
    assert (H2 : size b + list_sum (map size more) <= List.length (sep_by TBar (pr b :: map pr more)))
      by (exact (sum_size_sep TBar (b :: more) (Forall_cons _ IHb IHm))).
    change (map pr (a :: b :: more)) with (pr a :: pr b :: map pr more). rewrite sep_by_cons2.
    rewrite app_length. cbn [List.length]. lia.
Qed.

(* ================= C05 (parameter / field / channel sites, plain mode) ================= *)
Theorem render_denotes : forall t, ts_ok t -> kf_union_under_seq t = false ->
  ts_parse_str (render t) = Some (shape t).
Proof. intros t Hok Hk. unfold ts_parse_str, lex.
  rewrite <- (app_nil_r (render t)). rewrite lex_render by (auto; exact I). simpl lex_go. rewrite app_nil_r.
  assert (Hm : forall l, mapM (fun l => match l with LT t => Some t | LErr _ => None end) (map LT l) = Some l).
  { induction l; simpl; auto. rewrite IHl. reflexivity. }
  rewrite Hm. rewrite toks_pr by auto. unfold ts_parse.
  rewrite <- (app_nil_r (pr (shape t))) at 2.
  rewrite parse_union_ok; auto. apply nf_shape. pose proof (size_le_len (shape t)). lia. exact I.
Qed.

(* the class is a genuine failure of the faithful renderer *)
Example render_refuted : ts_parse_str (render (TArr (TOpt (TPrim (L "number"))))) <> Some (shape (TArr (TOpt (TPrim (L "number"))))).
Proof. vm_compute. discriminate. Qed.
