From Coq Require Import String Ascii.
From Coq Require Import List Arith Lia Bool.
Import ListNotations.
Local Open Scope char_scope.
Local Open Scope list_scope.
Definition str := list ascii.

(* ---- model: escape_js_string = five sequential str::replace calls, in the code's order ---- *)
Definition replace1 (c : ascii) (rep : str) (s : str) : str := flat_map (fun x => if Ascii.eqb x c then rep else [x]) s.
Definition bs : ascii := "\".
Definition dq : ascii := """".
Definition nl : ascii := ascii_of_nat 10.
Definition cr : ascii := ascii_of_nat 13.
Definition tab : ascii := ascii_of_nat 9.
Definition escape_js_string (s : str) : str :=
  replace1 tab [bs; "t"] (replace1 cr [bs; "r"] (replace1 nl [bs; "n"] (replace1 dq [bs; dq] (replace1 bs [bs; bs] s)))).

(* ---- spec: how JavaScript reads the body of a double-quoted literal ---- *)
Fixpoint js_value (fuel : nat) (body : str) : option str :=
  match fuel with 0 => None | S f =>
  match body with
  | [] => Some []
  | c :: r =>
      if Ascii.eqb c dq || Ascii.eqb c nl || Ascii.eqb c cr then None            (* would end / break the literal *)
      else if Ascii.eqb c bs then
        match r with
        | e :: r' =>
            let v := if Ascii.eqb e "n" then Some nl else if Ascii.eqb e "r" then Some cr else if Ascii.eqb e "t" then Some tab
                     else if Ascii.eqb e bs then Some bs else if Ascii.eqb e dq then Some dq else None in
            match v, js_value f r' with Some x, Some rest => Some (x :: rest) | _, _ => None end
        | [] => None end
      else option_map (cons c) (js_value f r)
  end end.

(* the five replaces amount to one character-wise map *)
Definition esc1 (c : ascii) : str :=
  if Ascii.eqb c bs then [bs; bs] else if Ascii.eqb c dq then [bs; dq] else if Ascii.eqb c nl then [bs; "n"]
  else if Ascii.eqb c cr then [bs; "r"] else if Ascii.eqb c tab then [bs; "t"] else [c].

Lemma flat_map_flat_map {A} (f g : A -> list A) (s : list A) : flat_map g (flat_map f s) = flat_map (fun x => flat_map g (f x)) s.
Proof. induction s; simpl; auto. rewrite flat_map_app, IHs. reflexivity. Qed.

Lemma escape_charwise s : escape_js_string s = flat_map esc1 s.
Proof. unfold escape_js_string, replace1. rewrite !flat_map_flat_map. apply flat_map_ext. intros c.
  unfold esc1.
  destruct (Ascii.eqb_spec c bs) as [->|H1]; [reflexivity|].
  destruct (Ascii.eqb_spec c dq) as [->|H2]; [reflexivity|].
  destruct (Ascii.eqb_spec c nl) as [->|H3]; [reflexivity|].
  destruct (Ascii.eqb_spec c cr) as [->|H4]; [reflexivity|].
  destruct (Ascii.eqb_spec c tab) as [->|H5]; [reflexivity|].
  simpl. rewrite (proj2 (Ascii.eqb_neq c dq) H2). simpl.
  rewrite (proj2 (Ascii.eqb_neq c nl) H3). simpl. rewrite (proj2 (Ascii.eqb_neq c cr) H4). simpl.
  rewrite (proj2 (Ascii.eqb_neq c tab) H5). reflexivity. Qed.

Lemma js_esc f e x rest :
  (if Ascii.eqb e "n" then Some nl else if Ascii.eqb e "r" then Some cr else if Ascii.eqb e "t" then Some tab
   else if Ascii.eqb e bs then Some bs else if Ascii.eqb e dq then Some dq else None) = Some x ->
  js_value (S f) (bs :: e :: rest) = match js_value f rest with Some r => Some (x :: r) | None => None end.
Proof. intros H. cbn [js_value]. change (Ascii.eqb bs dq || Ascii.eqb bs nl || Ascii.eqb bs cr) with false.
  change (Ascii.eqb bs bs) with true. cbv iota. rewrite H. reflexivity. Qed.

Lemma js_plain f c rest : Ascii.eqb c dq = false -> Ascii.eqb c nl = false -> Ascii.eqb c cr = false -> Ascii.eqb c bs = false ->
  js_value (S f) (c :: rest) = option_map (cons c) (js_value f rest).
Proof. intros H1 H2 H3 H4. cbn [js_value]. rewrite H1, H2, H3, H4. reflexivity. Qed.

(* C11_escape_roundtrip / the string-literal clause of C01 : for EVERY byte string *)
Theorem escape_roundtrip : forall s fuel, 2 * List.length s < fuel -> js_value fuel (escape_js_string s) = Some s.
Proof. intros s. rewrite escape_charwise. induction s as [|c s IH]; intros fuel Hf.
  - destruct fuel; [lia|]. reflexivity.
  - destruct fuel as [|f]; [lia|]. cbn [flat_map]. unfold esc1 at 1. cbn [List.length] in Hf.
    destruct (Ascii.eqb_spec c bs) as [->|H1].
    { cbn [app]. rewrite (js_esc f bs bs) by reflexivity. rewrite IH by lia. reflexivity. }
    destruct (Ascii.eqb_spec c dq) as [->|H2].
    { cbn [app]. rewrite (js_esc f dq dq) by reflexivity. rewrite IH by lia. reflexivity. }
    destruct (Ascii.eqb_spec c nl) as [->|H3].
    { cbn [app]. rewrite (js_esc f "n" nl) by reflexivity. rewrite IH by lia. reflexivity. }
    destruct (Ascii.eqb_spec c cr) as [->|H4].
    { cbn [app]. rewrite (js_esc f "r" cr) by reflexivity. rewrite IH by lia. reflexivity. }
    destruct (Ascii.eqb_spec c tab) as [->|H5].
    { cbn [app]. rewrite (js_esc f "t" tab) by reflexivity. rewrite IH by lia. reflexivity. }
    cbn [app]. rewrite js_plain by (apply Ascii.eqb_neq; auto). rewrite IH by lia. reflexivity.
Qed.
