From Coq Require Import List Arith Lia Bool Permutation.
Import ListNotations.
Require Import TT.Model.Base TT.Model.Topo TT.Model.Kahn TT.Proofs.TopoProofs TT.Proofs.KahnProofs.

Section Bridge.
Context {node : Type} {ED : EqDec node}.

Notation dep := (node * node)%type.
(* the graph Kahn works on: n -> the nodes n uses *)
Definition uses (deps : list dep) (n : node) : list node :=
  map snd (filter (fun d => if eq_dec (fst d) n then true else false) deps).
Definition graph_of (ns : list node) (deps : list dep) : Topo.graph node := map (fun n => (n, uses deps n)) ns.

Inductive path (deps : list dep) : node -> node -> Prop :=
| path_one a b : In (a, b) deps -> path deps a b
| path_cons a b c : In (a, b) deps -> path deps b c -> path deps a c.
Definition acyclic (deps : list dep) : Prop := forall n, ~ path deps n n.

Notation before := (@KahnProofs.before node).
Notation topo_order := (@KahnProofs.topo_order node).
Notation closed := (@KahnProofs.closed node).

Lemma before_irrefl l n : NoDup l -> ~ before n n l.
Proof. intros Hnd (l1 & l2 & l3 & ->). apply NoDup_remove_2 in Hnd. apply Hnd.
  apply in_or_app; right. apply in_or_app; right; left; auto. Qed.

Lemma before_trans l a b c : NoDup l -> before a b l -> before b c l -> before a c l.
Proof. intros Hnd (l1 & l2 & l3 & E1) (m1 & m2 & m3 & E2). subst l.
  (* b occurs once: its two decompositions coincide *)
  assert (Hb : l1 ++ a :: l2 = m1).
  { eapply (KahnProofs.NoDup_split_unique b); [|rewrite <- E2; rewrite <- app_assoc; reflexivity].
    rewrite <- app_assoc. exact Hnd. }
  subst m1. rewrite <- app_assoc in E2. simpl in E2.
  apply app_inv_head in E2. inversion E2 as [E3]. apply app_inv_head in E3. inversion E3; subst.
  exists l1, (l2 ++ b :: m2), m3. rewrite <- !app_assoc. simpl. reflexivity. Qed.

(* a topological order forbids cycles *)
Lemma order_acyclic ns deps L : NoDup ns -> topo_order ns deps L -> acyclic deps.
Proof. intros Hnd [Hperm Hord] n Hp.
  assert (HndL : NoDup L) by (eapply Permutation_NoDup; [apply Permutation_sym; eauto|auto]).
  assert (H : forall a b, path deps a b -> before b a L).
  { induction 1 as [a b Hab|a b c Hab Hbc IH]. apply (Hord (a, b)); auto.
    eapply before_trans; eauto. apply (Hord (a, b)); auto. }
  eapply before_irrefl; eauto. Qed.

(* ... and without cycles the type-ordering routine of the other half produces one *)
Lemma deps_graph_of ns deps n : NoDup ns -> In n ns -> Topo.deps (graph_of ns deps) n = uses deps n.
Proof. intros Hnd Hin. unfold graph_of. induction ns as [|m ns IH]; [contradiction|]. simpl.
  inversion Hnd; subst. destruct (eq_dec n m) as [->|Hn]; auto. destruct Hin as [<-|Hin]; [congruence|]. auto. Qed.
Lemma deps_graph_of_out ns deps n : ~ In n ns -> Topo.deps (graph_of ns deps) n = [].
Proof. intros Hn. unfold graph_of. induction ns as [|m ns IH]; auto. simpl.
  destruct (eq_dec n m) as [->|]; [exfalso; apply Hn; left; auto|]. apply IH. intro; apply Hn; right; auto. Qed.

Lemma uses_in deps a b : In b (uses deps a) <-> In (a, b) deps.
Proof. unfold uses. rewrite in_map_iff. split.
  - intros ([f t] & <- & Hd). apply filter_In in Hd as [Hd Hb]. simpl in *. destruct (eq_dec f a); [subst; auto|discriminate].
  - intros Hd. exists (a, b). split; auto. apply filter_In. split; auto. simpl. destruct (eq_dec a a); congruence. Qed.

Lemma edge_dep ns deps a b : NoDup ns -> closed ns deps -> TopoProofs.edge (graph_of ns deps) a b -> In (a, b) deps.
Proof. intros Hnd Hc He. unfold TopoProofs.edge in He. destruct (in_dec eq_dec a ns) as [Ha|Ha].
  - rewrite deps_graph_of in He by auto. apply uses_in; auto.
  - rewrite deps_graph_of_out in He by auto. contradiction. Qed.

Lemma reach_path ns deps a b : NoDup ns -> closed ns deps ->
  TopoProofs.reach (graph_of ns deps) a b -> a = b \/ path deps a b.
Proof. intros Hnd Hc. induction 1 as [a|a b c Hab Hbc IH]; auto. right.
  apply (edge_dep ns deps a b Hnd Hc) in Hab. destruct IH as [->|Hp]; [constructor; auto | econstructor 2; eauto]. Qed.

Lemma reach_in_ns ns deps a b : NoDup ns -> closed ns deps -> In a ns ->
  TopoProofs.reach (graph_of ns deps) a b -> In b ns.
Proof. intros Hnd Hc Ha Hr. induction Hr as [a|a b c Hab Hbc IH]; auto. apply IH.
  apply (edge_dep ns deps a b Hnd Hc) in Hab. apply (Hc (a, b)); auto. Qed.

Lemma nth_before (l : list node) i j v u : nth_error l i = Some v -> nth_error l j = Some u -> i < j -> before v u l.
Proof. intros Hi Hj Hlt. apply nth_error_split in Hi as (l1 & l2 & -> & Hl1).
  rewrite nth_error_app2 in Hj by lia. destruct (j - length l1) as [|k] eqn:E; [lia|]. simpl in Hj.
  apply nth_error_split in Hj as (m1 & m2 & -> & _). exists l1, m1, m2. reflexivity. Qed.

Lemma acyclic_order ns deps : NoDup ns -> closed ns deps -> acyclic deps -> exists L, topo_order ns deps L.
Proof. intros Hnd Hc Hac.
  destruct (TopoProofs.topo_total (graph_of ns deps) ns) as (out & Hout).
  destruct (TopoProofs.topo_correct _ _ _ _ Hout) as (Hnd' & Hex & Hord).
  exists out. split.
  - apply NoDup_Permutation; auto. intros x. rewrite Hex. split.
    + intros (r & Hr & Hreach). eapply reach_in_ns; eauto.
    + intros Hx. exists x. split; auto. constructor.
  - intros [a b] Hd. simpl.
    assert (Ha : In a ns) by (apply (Hc (a, b)); auto).
    assert (Hain : In a out) by (apply Hex; exists a; split; auto; constructor).
    assert (He : TopoProofs.edge (graph_of ns deps) a b).
    { unfold TopoProofs.edge. rewrite deps_graph_of by auto. apply uses_in; auto. }
    assert (Hnr : ~ TopoProofs.reach (graph_of ns deps) b a).
    { intro Hr. apply (reach_path ns deps b a Hnd Hc) in Hr. destruct Hr as [->|Hp].
      - apply (Hac a). constructor; auto.
      - apply (Hac a). econstructor 2; eauto. }
    destruct (Hord a b Hain He Hnr) as (i & j & Hi & Hj & Hlt). eapply nth_before; eauto.
Qed.

(* ================= C20_kahn_ok_iff ================= *)
Theorem kahn_ok_iff order deps : NoDup order -> closed order deps ->
  ((exists l, Kahn.kahn order deps = Kahn.Ok l) <-> acyclic deps).
Proof. intros Hnd Hc. split.
  - intros (l & Hl). eapply order_acyclic; eauto. eapply KahnProofs.kahn_ok_valid; eauto.
  - intros Hac. apply KahnProofs.kahn_complete; auto. apply acyclic_order; auto.
Qed.
End Bridge.
