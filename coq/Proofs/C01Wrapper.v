(* C01: token-level skeleton of the plain-mode command wrapper of commands.ts
   (ts/templates/partials/command_function.tera):
     export async function NAME ( [params : types . NAMEParams] ) : Promise < RET > { return invoke ( 'cmd' [, params] ) ; }
   Good holes imply that the specification parser accepts the item (signature through pparams / ptype, body through
   p_balanced), that the result is well formed (item_ok, which runs the statement grammar pse over the body) and
   that every token is well formed.
   The return type hole is add_types_prefix3 of the rendered type: its token rendering ptoks puts  types .  in
   front of every leaf that the prefixing reaches (not below Record and tuples, not for the global names). *)
From Coq Require Import String Ascii.
From Coq Require Import List Arith Bool Lia.
Require Import TT.Model.Str TT.Model.TypeParse TT.Model.Pipeline.
Require Import TT.Spec.TsLex TT.Spec.TsModule TT.Spec.TsObs TT.Spec.C01Wf TT.Model.C01Emit.
Require Import TT.Proofs.LexFacts TT.Proofs.C01Holes TT.Proofs.C01Skeleton TT.Proofs.C01TypeHole TT.Proofs.C01Lex.
Import ListNotations.
Local Open Scope list_scope.

(* ---------------------------------------------------------------- types . N as a primary *)
Lemma p_path_dot k n rest acc : p_path (S k) acc (P "." :: KId n :: rest) = p_path k (n :: acc) rest.
Proof. reflexivity. Qed.
Lemma ref_head_types : is_ref_head (L "types") = true.
Proof. vm_compute. reflexivity. Qed.
Lemma prim_types rec n : is_ident_name n = true -> isPrim rec [KId (L "types"); P "."; KId n].
Proof. intros Hn. split.
  - exists (KId (L "types")). eexists. repeat split.
  - intros rest Hs. cbn [app p_primary]. change (str_eqb (L "types") (L "typeof")) with false. cbv iota.
    cbn [List.length]. rewrite p_path_dot.
    rewrite p_path_stop; [|destruct rest; [constructor|apply Hs]]. cbn [rev app].
    exists (TyRef [L "types"; n] []). split.
    + destruct rest as [|c r]; [reflexivity|]. destruct Hs as [_ Hl]. rewrite Hl. reflexivity.
    + cbn [ty_ok path_ok forallb]. rewrite ref_head_types, Hn. reflexivity. Qed.

Lemma leaf_ident_name n : leaf_ok n = true -> is_ident_name n = true.
Proof. unfold leaf_ok. cbn [path_ok]. intros H. apply andb_true_iff in H as [H _]. unfold is_ref_head in H.
  apply andb_true_iff in H as [H _]. exact H. Qed.

(* ---------------------------------------------------------------- token rendering of the prefixed return type *)
Definition atp_globals : list string := ["void"; "string"; "number"; "boolean"; "any"; "unknown"; "null"; "undefined"]%string.
Definition pleaf (n : str) : list tk := if name_in n atp_globals then [KId n] else [KId (L "types"); P "."; KId n].
(* the rendered text starts with  Record<  : add_types_prefix leaves such a text alone unless it ends with a bracket pair *)
Fixpoint head_map (t : tstruct) : bool :=
  match t with TMap _ _ => true | TArr u | TSet u | TOpt u | TRes u => head_map u | _ => false end.
Fixpoint ptoks (g : c_cfg) (t : tstruct) : list tk :=
  match t with
  | TPrim p => pleaf p
  | TCustom n => pleaf (custom_ts g n)
  | TArr u | TSet u => ptoks g u ++ [P "["; P "]"]
  | TMap _ _ | TTuple _ => rtoks g t
  | TOpt u => if head_map u then rtoks g t else ptoks g u ++ [P "|"; KId (L "null")]
  | TRes u => ptoks g u
  end.

Lemma rep_pleaf f n : leaf_ok n = true -> Rep f (pleaf n).
Proof. intros H. unfold pleaf. destruct (name_in n atp_globals).
  - apply rep_leaf. exact H.
  - apply rep_single, prim_types, leaf_ident_name. exact H. Qed.

Theorem ptoks_rep g : forall t f, leaves_ok g t = true -> tdepth t <= f -> Rep f (ptoks g t).
Proof. induction t as [s|t IH|k v IHk IHv|t IH|l IHl|t IH|t IH|s] using tstruct_ind'; intros f Hl Hd.
  - apply rep_pleaf. exact Hl.
  - cbn [ptoks]. apply rep_arr, IH; assumption.
  - apply (render_rep g (TMap k v)); assumption.
  - cbn [ptoks]. apply rep_arr, IH; assumption.
  - apply (render_rep g (TTuple l)); assumption.
  - cbn [ptoks]. destruct (head_map t).
    + apply (render_rep g (TOpt t)); assumption.
    + apply rep_opt, IH; assumption.
  - cbn [ptoks]. apply IH; assumption.
  - apply rep_pleaf. exact Hl. Qed.

(* the prefixed type as a whole type: consumed by ptype up to any stop token *)
Theorem prefixed_ptype g t rest : leaves_ok g t = true -> tdepth t < TYF -> stop rest ->
  exists ty, ptype (ptoks g t ++ rest) = Some (ty, rest) /\ ty_ok ty = true.
Proof. intros Hl Hd Hs. unfold ptype. change TYF with (S 63) in *. apply rep_parse; [|exact Hs]. apply ptoks_rep; [exact Hl|lia]. Qed.

Lemma pleaf_simple n : forallb simple_tk (pleaf n) = true.
Proof. unfold pleaf. destruct (name_in n atp_globals); reflexivity. Qed.
Lemma ptoks_simple g : forall t, forallb simple_tk (ptoks g t) = true.
Proof. induction t as [s|t IH|k v IHk IHv|t IH|l IHl|t IH|t IH|s] using tstruct_ind'.
  - apply pleaf_simple.
  - cbn [ptoks]. rewrite forallb_app, IH. reflexivity.
  - apply (rtoks_simple g (TMap k v)).
  - cbn [ptoks]. rewrite forallb_app, IH. reflexivity.
  - apply (rtoks_simple g (TTuple l)).
  - cbn [ptoks]. destruct (head_map t); [apply (rtoks_simple g (TOpt t))|]. rewrite forallb_app, IH. reflexivity.
  - exact IH.
  - apply pleaf_simple. Qed.
Lemma simple_tok_ok l : forallb simple_tk l = true -> forallb tok_ok l = true.
Proof. induction l as [|t l IH]; [reflexivity|]. cbn [forallb]. intros H. apply andb_true_iff in H as [Ht Hl].
  rewrite (IH Hl). destruct t; try discriminate; reflexivity. Qed.

(* ---------------------------------------------------------------- Name<A, ..> over arbitrary argument types *)
Lemma prim_generic_ty f name elems : leaf_ok name = true -> elems <> [] -> Forall (isTy (p_type (S f))) elems ->
  isPrim (p_type (S f)) (KId name :: P "<" :: sepc elems ++ [P ">"]).
Proof. intros Hname Hne HT. pose proof (leaf_ident name Hname) as Hi. split.
  - exists (KId name). eexists. repeat split; unfold tk_is.
    + apply (ident_not_single name "|"%char); auto.
    + apply (ident_not_single name "]"%char); auto.
  - intros rest Hs.
    cbn [app p_primary]. rewrite (leaf_not_typeof name Hname). rewrite p_path_stop by reflexivity. cbn [rev app].
    change (tk_is "<" (P "<")) with true. cbv iota. rewrite <- app_assoc. cbn [app].
    destruct (tylist_ok (p_type (S f)) ">" eq_refl eq_refl stop_close_gt elems
                (S (List.length (sepc elems ++ P ">" :: rest))) [] rest Hne HT) as [ts [E Hts]].
    { rewrite app_length. pose proof (sepc_len _ _ HT). lia. }
    rewrite E. exists (TyRef [name] ts). split; [reflexivity|]. cbn [ty_ok rev app]. unfold leaf_ok in Hname. rewrite Hname, Hts. reflexivity. Qed.

Lemma stop_rparen r : stop (P ")" :: r).
Proof. repeat split. destruct r; cbn; auto. Qed.
Lemma stop_lbrace r : stop (P "{" :: r).
Proof. repeat split. destruct r; cbn; auto. Qed.

(* a return type: consumed by the type parser one level below the top (it sits inside Promise< >) up to any stop token *)
Definition good_ret (ret : list tk) : Prop :=
  ret <> [] /\ forall rest, stop rest -> exists t, p_type 63 (ret ++ rest) = Some (t, rest) /\ ty_ok t = true.

Lemma promise_ptype ret rest : good_ret ret -> stop rest ->
  exists t, ptype (KId (L "Promise") :: P "<" :: ret ++ P ">" :: rest) = Some (t, rest) /\ ty_ok t = true.
Proof. intros Hr Hs. unfold ptype. change TYF with (S 63).
  destruct (rep_parse 63 (KId (L "Promise") :: P "<" :: sepc [ret] ++ [P ">"]) rest) as [t [E Ht]].
  - apply rep_single. apply (prim_generic_ty 62 (L "Promise") [ret]); [reflexivity|discriminate|].
    constructor; [exact Hr|constructor].
  - exact Hs.
  - cbn [sepc app] in E. rewrite <- app_assoc in E. cbn [app] in E. exists t. split; assumption. Qed.

(* ---------------------------------------------------------------- the template *)
Definition has_params (pty : option str) : bool := match pty with Some _ => true | None => false end.
Definition wrapper_body (has : bool) (cmd : str) : list tk :=
  [KId (L "return"); KId (L "invoke"); P "("; KStr SQ cmd] ++ (if has then [P ","; KId (L "params")] else []) ++ [P ")"; P ";"].
Definition wrapper_params (pty : option str) : list tk :=
  match pty with Some n => [KId (L "params"); P ":"; KId (L "types"); P "."; KId n] | None => [] end.
Definition wrapper_toks (name : str) (pty : option str) (ret : list tk) (cmd : str) : list tk :=
  [KId (L "export"); KId (L "async"); KId (L "function"); KId name; P "("] ++ wrapper_params pty ++
  [P ")"; P ":"; KId (L "Promise"); P "<"] ++ ret ++ [P ">"; P "{"] ++ wrapper_body (has_params pty) cmd ++ [P "}"].

Lemma p_item_fn name l :
  p_item (KId (L "export") :: KId (L "async") :: KId (L "function") :: KId name :: P "(" :: l) =
  match pparams l with
  | Some (ps, r5) =>
      let '(ret, r6) := match r5 with
                        | col :: r' => if tk_is ":" col then match ptype r' with Some (t, r'') => (Some (Some t), r'') | None => (None, r') end
                                       else (Some None, r5)
                        | [] => (Some None, r5) end in
      match ret, expect "{" r6 with
      | Some ret, Some r7 => match p_balanced (S (List.length r7)) 0 r7 [] with
                             | Some (body, r8) => Some (IFunction true name ps ret body, r8)
                             | None => None end
      | _, _ => None end
  | None => None end.
Proof. reflexivity. Qed.

Lemma p_item_fn_ok name l ps r5 t r7 body r8 :
  pparams l = Some (ps, P ":" :: r5) -> ptype r5 = Some (t, P "{" :: r7) ->
  p_balanced (S (List.length r7)) 0 r7 [] = Some (body, r8) ->
  p_item (KId (L "export") :: KId (L "async") :: KId (L "function") :: KId name :: P "(" :: l) = Some (IFunction true name ps (Some t) body, r8).
Proof. intros H1 H2 H3. rewrite p_item_fn, H1. change (tk_is ":" (P ":")) with true. cbv iota. rewrite H2.
  change (expect "{" (P "{" :: r7)) with (Some r7). cbv iota beta. rewrite H3. reflexivity. Qed.

Lemma pparams_none tail : pparams (P ")" :: tail) = Some ([], tail).
Proof. reflexivity. Qed.
Lemma p_params_step k r3 acc :
  p_params ptype (S k) (KId (L "params") :: P ":" :: r3) acc =
  match ptype r3 with
  | Some (t, c2 :: r4) => if tk_is "," c2 then p_params ptype k r4 ((L "params", false, t) :: acc)
                          else if tk_is ")" c2 then Some (rev ((L "params", false, t) :: acc), r4) else None
  | _ => None end.
Proof. reflexivity. Qed.
Lemma pparams_one n tail : is_ident_name n = true ->
  exists t, pparams (KId (L "params") :: P ":" :: KId (L "types") :: P "." :: KId n :: P ")" :: tail) = Some ([(L "params", false, t)], tail) /\
            ty_ok t = true.
Proof. intros Hn. unfold pparams. rewrite p_params_step.
  destruct (rep_parse 63 [KId (L "types"); P "."; KId n] (P ")" :: tail)) as [t [E Ht]].
  - apply rep_single, prim_types. exact Hn.
  - apply stop_rparen.
  - cbn [app] in E. unfold ptype. change TYF with (S 63). rewrite E.
    change (tk_is "," (P ")")) with false. change (tk_is ")" (P ")")) with true. cbv iota.
    exists t. split; [reflexivity|exact Ht]. Qed.

Lemma balanced_body has cmd rest :
  p_balanced (S (List.length (wrapper_body has cmd ++ P "}" :: rest))) 0 (wrapper_body has cmd ++ P "}" :: rest) [] =
  Some (wrapper_body has cmd, rest).
Proof. destruct has; reflexivity. Qed.
(* the statement grammar accepts the body whatever the command name is *)
Lemma body_ok_wrapper has cmd : body_ok (wrapper_body has cmd) = true.
Proof. destruct has; vm_compute; reflexivity. Qed.

Lemma wrapper_toks_shape name pty ret cmd rest :
  wrapper_toks name pty ret cmd ++ rest =
  KId (L "export") :: KId (L "async") :: KId (L "function") :: KId name :: P "(" ::
  wrapper_params pty ++ P ")" :: P ":" :: KId (L "Promise") :: P "<" :: ret ++ P ">" :: P "{" :: (wrapper_body (has_params pty) cmd ++ P "}" :: rest).
Proof. unfold wrapper_toks. cbn [app]. rewrite <- !app_assoc. cbn [app]. f_equal. f_equal. f_equal. f_equal. f_equal. f_equal.
  cbn [app]. f_equal. f_equal. f_equal. f_equal. rewrite <- !app_assoc. cbn [app]. rewrite <- !app_assoc. reflexivity. Qed.

Theorem skeleton_wrapper name pty ret cmd rest :
  is_binding_name name = true -> (forall n, pty = Some n -> is_ident_name n = true) -> good_ret ret ->
  exists ps t,
    p_item (wrapper_toks name pty ret cmd ++ rest) = Some (IFunction true name ps (Some t) (wrapper_body (has_params pty) cmd), rest) /\
    map (fun p => fst (fst p)) ps = (if has_params pty then [L "params"] else []) /\
    item_ok (IFunction true name ps (Some t) (wrapper_body (has_params pty) cmd)) = true.
Proof. intros Hname Hpty Hret. rewrite wrapper_toks_shape.
  set (tail := wrapper_body (has_params pty) cmd ++ P "}" :: rest).
  destruct (promise_ptype ret (P "{" :: tail) Hret (stop_lbrace _)) as [t [Et Ht]].
  destruct pty as [n|]; cbn [wrapper_params app].
  - destruct (pparams_one n (P ":" :: KId (L "Promise") :: P "<" :: ret ++ P ">" :: P "{" :: tail) (Hpty n eq_refl)) as [t1 [E1 Ht1]].
    exists [(L "params", false, t1)], t. split; [|split; [reflexivity|]].
    + apply (p_item_fn_ok name _ _ _ t tail _ rest E1 Et). apply balanced_body.
    + cbn [item_ok forallb]. unfold param_ok. cbn [fst snd]. rewrite Hname, Ht1, Ht, body_ok_wrapper. reflexivity.
  - exists [], t. split; [|split; [reflexivity|]].
    + apply (p_item_fn_ok name _ _ _ t tail _ rest (pparams_none _) Et). apply balanced_body.
    + cbn [item_ok forallb]. rewrite Hname, Ht, body_ok_wrapper. reflexivity. Qed.

Lemma wrapper_toks_clean name pty ret cmd :
  str_body_ok SQ cmd = true -> forallb tok_ok ret = true -> forallb tok_ok (wrapper_toks name pty ret cmd) = true.
Proof. intros Hc Hr. unfold wrapper_toks, wrapper_body, wrapper_params. rewrite !forallb_app, Hr.
  destruct pty; cbn [has_params forallb tok_ok andb]; rewrite Hc; reflexivity. Qed.

(* ---------------------------------------------------------------- on the model's commands *)
Definition ret_struct (c : c_cmd) : tstruct := pts (match cc_ret c with Some t => qtts t | None => L "()" end).
Definition cmd_has (c : c_cmd) : bool := nonempty (c_values c) || nonempty (c_channels c).
Definition cmd_wrapper_toks (g : c_cfg) (c : c_cmd) : list tk :=
  wrapper_toks (fn_ts c) (if cmd_has c then Some (ty_ts c ++ L "Params") else None) (ptoks g (ret_struct c)) (cmd_name c).
(* return types the theorem speaks about: identifier leaves, nesting below 63 (one level is taken by Promise< >) *)
Definition ret_in_budget (g : c_cfg) (c : c_cmd) : bool :=
  leaves_ok g (ret_struct c) && (S (tdepth (ret_struct c)) <? TYF).

Lemma ptoks_good_ret g t : leaves_ok g t = true -> S (tdepth t) < TYF -> good_ret (ptoks g t).
Proof. intros Hl Hd. change TYF with 64 in Hd. apply (rep_isTy 62). apply ptoks_rep; [exact Hl|lia]. Qed.

Lemma plain_app a b : plain_ident a = true -> forallb ascii_idc b = true -> plain_ident (a ++ b) = true.
Proof. intros Ha Hb. destruct a as [|c r]; [discriminate|]. cbn [plain_ident app] in *. apply andb_true_iff in Ha as [Hc Hr].
  rewrite Hc, forallb_app, Hr, Hb. reflexivity. Qed.

Theorem wrapper_tokens_ok g c rest :
  plain_ident (cmd_name c) = true -> kf_reserved_fn (cmd_name c) = false -> ret_in_budget g c = true ->
  exists ps t,
    p_item (cmd_wrapper_toks g c ++ rest) = Some (IFunction true (fn_ts c) ps (Some t) (wrapper_body (cmd_has c) (cmd_name c)), rest) /\
    item_ok (IFunction true (fn_ts c) ps (Some t) (wrapper_body (cmd_has c) (cmd_name c))) = true /\
    forallb tok_ok (cmd_wrapper_toks g c) = true.
Proof. intros Hn Hk Hb. apply andb_true_iff in Hb as [Hl Hd]. apply Nat.ltb_lt in Hd. unfold cmd_wrapper_toks.
  set (pty := if cmd_has c then Some (ty_ts c ++ L "Params") else None).
  assert (has_params pty = cmd_has c) as Hh by (unfold pty; destruct (cmd_has c); reflexivity).
  destruct (skeleton_wrapper (fn_ts c) pty (ptoks g (ret_struct c)) (cmd_name c) rest) as [ps [t [E [_ Hok]]]].
  - exact (fn_hole _ Hn Hk).
  - intros n Hp. unfold pty in Hp. destruct (cmd_has c); [|discriminate]. injection Hp as <-.
    apply plain_is_ident_name, plain_app; [apply pascal_plain; exact Hn|reflexivity].
  - apply ptoks_good_ret; assumption.
  - rewrite Hh in *. exists ps, t. split; [exact E|]. split; [exact Hok|].
    apply wrapper_toks_clean; [exact (str_hole_ident _ Hn)|apply simple_tok_ok, ptoks_simple]. Qed.

(* the token rendering is what the lexer sees of the model's chunk text (sample; at run time lex_compositional and the
   token-for-token correspondence on every case). Return types: none, Result over Vec over Option of a custom type,
   Option of a map (left alone by the prefixing), a tuple below Vec *)
Definition ex_wcmd (ps : list (str * qty)) (r : option qty) : c_cmd := {| cc_name := L "get_user"; cc_serde := []; cc_params := ps; cc_ret := r |}.
Definition ex_wcmds : list c_cmd :=
  [ ex_wcmd [] None;
    ex_wcmd [(L "user_id", T0 "i32")] (Some (T2 "Result" (T1 "Vec" (T1 "Option" (T0 "User"))) (T0 "String")));
    ex_wcmd [(L "on_event", T1 "Channel" (T0 "Item"))] (Some (T1 "Option" (T2 "HashMap" (T0 "String") (T0 "User"))));
    ex_wcmd [] (Some (T1 "Vec" (QTuple [T0 "User"; T0 "i32"])));
    ex_wcmd [] (Some (T1 "Option" (T1 "Vec" (T0 "String")))) ].
Lemma wrapper_tokens_example :
  forallb (fun c => toks_eqb (lexed (wrapper_chunks g0 c)) (cmd_wrapper_toks g0 c) && toks_eqb (toks_of (wrapper_chunks g0 c)) (cmd_wrapper_toks g0 c) &&
                    plain_ident (cmd_name c) && negb (kf_reserved_fn (cmd_name c)) && ret_in_budget g0 c) ex_wcmds = true.
Proof. vm_compute. reflexivity. Qed.
