From Coq Require Import List Arith Lia Bool.
Require Import TT.Model.C07Worklist.
Import ListNotations.

(* Generic model of the two worklists (resolve_types_lazily, discover_nested_dependencies):
   pop a name; skip it if already resolved; if it has a definition, record it and push those of its
   dependencies that have a definition and are not yet resolved. *)
Section Memb.
Variable node : Type.
Variable eq_dec : forall a b : node, {a = b} + {a <> b}.
Local Notation memb := (memb eq_dec).
Lemma memb_true x l : memb x l = true <-> In x l.
Proof. unfold C07Worklist.memb; destruct (in_dec eq_dec x l); split; auto; discriminate. Qed.
Lemma memb_false x l : memb x l = false <-> ~ In x l.
Proof. unfold C07Worklist.memb; destruct (in_dec eq_dec x l); split; auto; try discriminate; tauto. Qed.
End Memb.

Section Worklist.
Variable node : Type.
Variable eq_dec : forall a b : node, {a = b} + {a <> b}.
Local Notation memb_true := (memb_true node eq_dec).
Local Notation memb_false := (memb_false node eq_dec).
Variable succ : node -> list node.      (* names harvested from the fields of n's definition *)
Variable defined : node -> bool.        (* n can be resolved *)
Variable pushok : node -> bool.         (* n has an entry in the definition index *)
Hypothesis defined_pushok : forall n, defined n = true -> pushok n = true.
Variable U : list node.                 (* the definition index: all defined names, no duplicates *)
Hypothesis U_nodup : NoDup U.
Hypothesis U_defined : forall n, defined n = true -> In n U.

Local Notation memb := (memb eq_dec).

Local Notation work := (work eq_dec succ defined pushok).

(* specification: defined names reachable from the roots through defined names *)
Local Notation reach := (reach succ defined).
Local Notation target := (target succ defined).

Lemma reach_trans a b c : reach a b -> reach b c -> reach a c.
Proof. induction 1 as [a|a b c0 Hd Hi Hr IH]; intros H; auto. econstructor 2; eauto. Qed.

Record WInv (roots todo seen : list node) : Prop := {
  w_seen : forall x, In x seen -> target roots x;
  w_todo : forall x, In x todo -> exists r, In r roots /\ reach r x;
  w_closed : forall x y, In x seen -> In y (succ x) -> defined y = true -> In y seen \/ In y todo;
  w_roots : forall r, In r roots -> defined r = true -> In r seen \/ In r todo;
  w_nd : NoDup seen
}.

Lemma work_inv roots : forall fuel todo seen out, WInv roots todo seen ->
  work fuel todo seen = Some out -> WInv roots [] out.
Proof.
  induction fuel as [|f IH]; intros todo seen out HI Hw; [discriminate|].
  simpl in Hw. destruct todo as [|n rest]; [inversion Hw; subst; auto|].
  destruct HI as [Hs Ht Hc Hr Hnd].
  destruct (memb n seen) eqn:Em.
  - apply memb_true in Em. eapply IH; eauto. constructor; auto.
    + intros x Hx. apply Ht; right; auto.
    + intros x y Hx Hy Hd. destruct (Hc x y Hx Hy Hd) as [|[<-|]]; auto.
    + intros r Hr1 Hr2. destruct (Hr r Hr1 Hr2) as [|[<-|]]; auto.
  - apply memb_false in Em. destruct (defined n) eqn:Ed.
    + eapply IH; eauto. destruct (Ht n (or_introl eq_refl)) as (r0 & Hr0 & Hreach0).
      constructor.
      * intros x [<-|Hx]; auto. split; eauto.
      * intros x Hx. apply in_app_or in Hx as [Hx|Hx].
        -- apply filter_In in Hx as [Hx _]. exists r0. split; auto. eapply reach_trans; eauto. eapply reach_step; eauto. constructor.
        -- apply Ht; right; auto.
      * intros x y Hx Hy Hd. destruct (in_dec eq_dec y (n :: seen)) as [|Hny]; auto. right.
        destruct Hx as [<-|Hx].
        -- apply in_or_app; left. apply filter_In. split; auto. rewrite (defined_pushok _ Hd), andb_true_r. apply negb_true_iff. apply memb_false; auto.
        -- destruct (Hc x y Hx Hy Hd) as [|[<-|]]; [exfalso; apply Hny; right; auto | exfalso; apply Hny; left; auto | apply in_or_app; auto].
      * intros r Hr1 Hr2. destruct (Hr r Hr1 Hr2) as [|[<-|]]; [left; right; auto | left; left; auto | right; apply in_or_app; auto].
      * constructor; auto.
    + eapply IH; eauto. constructor; auto.
      * intros x Hx. apply Ht; right; auto.
      * intros x y Hx Hy Hd. destruct (Hc x y Hx Hy Hd) as [|[<-|]]; auto. congruence.
      * intros r Hr1 Hr2. destruct (Hr r Hr1 Hr2) as [|[<-|]]; auto. congruence.
Qed.

(* C07 core: the worklist computes exactly the defined names reachable from the roots *)
Theorem work_exact roots fuel out : work fuel roots [] = Some out ->
  NoDup out /\ forall x, In x out <-> target roots x.
Proof. intros Hw.
  assert (HI : WInv roots roots []).
  { constructor; try (intros; contradiction); auto. intros x Hx. exists x. split; auto. constructor. constructor. }
  pose proof (work_inv roots fuel roots [] out HI Hw) as [Hs _ Hc Hr Hnd]. split; auto.
  intros x; split; auto. intros (Hd & r & Hr1 & Hreach).
  assert (Hgen : forall a b, reach a b -> defined b = true -> (defined a = true -> In a out) -> In b out).
  { induction 1 as [a|a b c Hda Hab Hbc IHr]; intros Hdc Ha; auto.
    apply IHr; auto. intros Hdb. destruct (Hc a b (Ha Hda) Hab Hdb) as [|[]]; auto. }
  apply (Hgen r x Hreach Hd). intros Hdr. destruct (Hr r Hr1 Hdr) as [|[]]; auto.
Qed.

(* termination: the potential |todo| + sum of |succ n| over unresolved index entries decreases *)
Definition pot (todo seen : list node) : nat :=
  length todo + list_sum (map (fun n => if memb n seen then 0 else length (succ n)) U).

Lemma pot_mono n seen (l : list node) :
  list_sum (map (fun m => if memb m (n :: seen) then 0 else length (succ m)) l)
  <= list_sum (map (fun m => if memb m seen then 0 else length (succ m)) l).
Proof. induction l as [|x xs IHx]; simpl; auto.
  destruct (memb x seen) eqn:E.
  - replace (memb x (n :: seen)) with true by (symmetry; apply memb_true; right; apply memb_true; auto). lia.
  - destruct (memb x (n :: seen)); lia. Qed.

Lemma pot_expand_gen n seen (l : list node) : ~ In n seen -> NoDup l -> In n l ->
  list_sum (map (fun m => if memb m (n :: seen) then 0 else length (succ m)) l) + length (succ n)
  <= list_sum (map (fun m => if memb m seen then 0 else length (succ m)) l).
Proof. intros Hn Hnd Hin. induction l as [|u us IH]; [contradiction|].
  inversion Hnd; subst. simpl. destruct Hin as [->|Hin].
  - replace (memb n (n :: seen)) with true by (symmetry; apply memb_true; left; auto).
    replace (memb n seen) with false by (symmetry; apply memb_false; auto).
    pose proof (pot_mono n seen us). lia.
  - specialize (IH H2 Hin).
    destruct (memb u seen) eqn:E.
    + replace (memb u (n :: seen)) with true by (symmetry; apply memb_true; right; apply memb_true; auto). lia.
    + destruct (memb u (n :: seen)); lia.
Qed.
Definition pot_expand n seen Hn Hin := pot_expand_gen n seen U Hn U_nodup Hin.

Lemma filter_len {A} (f : A -> bool) l : length (filter f l) <= length l.
Proof. induction l; simpl; auto. destruct (f a); simpl; lia. Qed.

Theorem work_total : forall fuel todo seen, pot todo seen < fuel -> work fuel todo seen <> None.
Proof.
  induction fuel as [|f IH]; intros todo seen Hp; [lia|].
  simpl. destruct todo as [|n rest]; [discriminate|].
  unfold pot in Hp. simpl in Hp.
  destruct (memb n seen) eqn:Em.
  - apply IH. unfold pot. lia.
  - destruct (defined n) eqn:Ed.
    + apply IH. unfold pot. rewrite app_length.
      apply memb_false in Em. pose proof (pot_expand n seen Em (U_defined n Ed)) as Hpe.
      pose proof (filter_len (fun d => negb (memb d (n :: seen)) && pushok d) (succ n)). lia.
    + apply IH. unfold pot. lia.
Qed.
End Worklist.
