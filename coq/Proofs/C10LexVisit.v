(* C10 deepening, Zod side, character level, type visitor: the specification lexer reads the canonical
   tokens [pe (zvisit_ex m t)] from the string the type visitor prints; with the round trip of C10ParseEx:
   parse_ex (zvisit m t) = Some (zvisit_ex m t)  for every in-domain type within the nesting budget.
   Structural induction, no computation sweep. *)
From Coq Require Import String Ascii.
From Coq Require Import List Arith Lia Bool.
Require Import TT.Model.Str TT.Proofs.StrFacts TT.Model.TypeParse TT.Spec.TsLex TT.Spec.TsModule TT.Spec.TsObs.
Require Import TT.Spec.C10Shape TT.Model.C10Zod TT.Spec.C10Check TT.Proofs.C10Proofs TT.Proofs.C10ParseTy TT.Proofs.C10ParseEx.
Require Import TT.Proofs.LexFacts.
Require Import TT.Proofs.C10LexEx TT.Proofs.C10Depth.
Import ListNotations.
Local Open Scope char_scope.
Local Open Scope list_scope.

Ltac vlit k := apply (lexes_lit _ _ _ k); [cbn; lia|intros r f; reflexivity].
Ltac vbnd_lit := intros r _; reflexivity.

Lemma lit_nullable P : lexes P (L ".nullable()") [kp "."; KId (L "nullable"); kp "("; kp ")"]. Proof. vlit 4. Qed.

Lemma pe_link_nullable e : pe (link e "nullable") = pe e ++ [kp "."; KId (L "nullable"); kp "("; kp ")"].
Proof. cbn [link pe map sepk app]. rewrite <- !app_assoc. reflexivity. Qed.

Section WithMap.
  Variable m : mapping.
  Hypothesis Hm : map_ok m = true.

  Lemma LV : forall t, dom t = true -> lexes B (zvisit m t) (pe (zvisit_ex m t)).
  Proof.
    induction t as [p|u IH|k v IHk IHv|u IH|l IH|u IH|u IH|n] using ts_ind2; cbn [dom]; intros Hd.
    - apply prim_names_shape in Hd. destruct Hd as [->|[->|[->| ->]]]; cbn [zvisit zvisit_ex str_eqb];
        [apply lit_string|apply lit_number|apply lit_boolean|apply lit_void].
    - cbn [zvisit zvisit_ex]. rewrite pe_call1.
      apply (lexes_app (fun _ => True) B); [apply lit_array| |intros; exact I].
      apply (lexes_app B B); [apply IH; exact Hd|apply lit_close|vbnd_lit].
    - apply andb_true_iff in Hd. destruct Hd as [Hk Hv]. destruct (key_ok_dom _ Hk) as [Hk1 _].
      cbn [zvisit zvisit_ex]. rewrite pe_call2.
      apply (lexes_app (fun _ => True) B); [apply lit_record| |intros; exact I].
      apply (lexes_app B B); [apply IHk; exact Hk1| |vbnd_lit].
      apply (lexes_app (fun _ => True) B); [apply lit_comma| |intros; exact I].
      apply (lexes_app B B); [apply IHv; exact Hv|apply lit_close|vbnd_lit].
    - cbn [zvisit zvisit_ex]. rewrite pe_call1.
      apply (lexes_app (fun _ => True) B); [apply lit_array| |intros; exact I].
      apply (lexes_app B B); [apply IH; exact Hd|apply lit_close|vbnd_lit].
    - destruct l as [|a l']; [apply lit_void|].
      remember (a :: l') as l0 eqn:El.
      assert (zvisit m (TTuple l0) = L "z.tuple([" ++ join (L ", ") (map (zvisit m) l0) ++ L "])") as -> by (subst; reflexivity).
      assert (zvisit_ex m (TTuple l0) = zcall "tuple" [EArr (map (zvisit_ex m) l0)]) as -> by (subst; reflexivity).
      rewrite pe_calll.
      apply (lexes_app (fun _ => True) B); [apply lit_tuple| |intros; exact I].
      apply (lexes_app B B); [|apply lit_close2|vbnd_lit].
      rewrite map_map. apply lexes_join; [|subst; discriminate].
      clear El. induction l0 as [|x r IHr]; [constructor|]. cbn [map]. inversion IH; subst. cbn [forallb] in Hd. apply andb_true_iff in Hd. destruct Hd.
      constructor; [auto|apply IHr; assumption].
    - cbn [zvisit zvisit_ex]. rewrite pe_link_nullable. apply (lexes_app B B); [apply IH; exact Hd|apply lit_nullable|vbnd_lit].
    - cbn [zvisit zvisit_ex]. apply IH; exact Hd.
    - cbn [zvisit zvisit_ex]. apply (lex_custom m Hm); exact Hd.
  Qed.

  Lemma chain_visit : forall t, chainlike (zvisit_ex m t) = true.
  Proof.
    induction t as [p|u IH|k v IHk IHv|u IH|l IH|u IH|u IH|n] using ts_ind2; cbn [zvisit_ex]; try reflexivity.
    - repeat match goal with |- context [if ?c then _ else _] => destruct c end; reflexivity.
    - destruct l; reflexivity.
    - exact IH.
    - unfold zcustom_ex. repeat match goal with |- context [match ?c with _ => _ end] => destruct c end; reflexivity.
  Qed.

  Lemma nfx_visit : forall t, dom t = true -> nfx (zvisit_ex m t).
  Proof.
    induction t as [p|u IH|k v IHk IHv|u IH|l IH|u IH|u IH|n] using ts_ind2; cbn [dom]; intros Hd.
    - apply prim_names_shape in Hd. destruct Hd as [->|[->|[->| ->]]].
      + apply (nfx_zcall0 "string"); reflexivity.
      + apply (nfx_zcall0 "number"); reflexivity.
      + apply (nfx_zcall0 "boolean"); reflexivity.
      + apply (nfx_zcall0 "void"); reflexivity.
    - cbn [zvisit_ex]. apply nfx_zcall; [reflexivity|]. constructor; [apply IH; exact Hd|constructor].
    - apply andb_true_iff in Hd. destruct Hd as [Hk Hv]. destruct (key_ok_dom _ Hk) as [Hk1 _].
      cbn [zvisit_ex]. apply nfx_zcall; [reflexivity|]. constructor; [apply IHk; exact Hk1|]. constructor; [apply IHv; exact Hv|constructor].
    - cbn [zvisit_ex]. apply nfx_zcall; [reflexivity|]. constructor; [apply IH; exact Hd|constructor].
    - destruct l as [|a l']; [apply nfx_zcall0; reflexivity|].
      remember (a :: l') as l0. assert (zvisit_ex m (TTuple l0) = zcall "tuple" [EArr (map (zvisit_ex m) l0)]) as -> by (subst; reflexivity).
      apply nfx_zcall; [reflexivity|]. constructor; [|constructor]. cbn [nfx]. apply nfx_list. apply Forall_forall. intros x Hx.
      apply in_map_iff in Hx. destruct Hx as [y [<- Hy]]. rewrite Forall_forall in IH. apply IH; [exact Hy|]. rewrite forallb_forall in Hd. apply Hd; exact Hy.
    - cbn [zvisit_ex]. unfold link. cbn [nfx]. split; [reflexivity|]. split; [|exact I]. cbn [nfx]. split; [apply chain_visit|]. split; [apply IH; exact Hd|reflexivity].
    - cbn [zvisit_ex]. apply IH; exact Hd.
    - cbn [zvisit_ex]. apply (nfx_custom m Hm); exact Hd.
  Qed.

  (* the string-level link for the type visitor *)
  Theorem parse_visit_sec : forall t, dom t = true -> enest (zvisit_ex m t) < 64 ->
    parse_ex (zvisit m t) = Some (zvisit_ex m t).
  Proof.
    intros t Hd Hn. unfold parse_ex. rewrite (lexes_module B _ _ (LV t Hd) I).
    rewrite has_err_clean by apply clean_pe. rewrite pexpr_pe; [reflexivity|apply nfx_visit; exact Hd|exact Hn].
  Qed.
End WithMap.

Theorem parse_visit : forall m, map_ok m = true -> forall t, dom t = true -> enest (zvisit_ex m t) < 64 ->
  parse_ex (zvisit m t) = Some (zvisit_ex m t).
Proof. intros m Hm t Hd Hn. apply parse_visit_sec; assumption. Qed.

Lemma enest_visit_bound m : forall t, enest (zvisit_ex m t) <= 2 * tsdepth t + 3.
Proof.
  induction t as [p|u IH|k v IHk IHv|u IH|l IH|u IH|u IH|n] using ts_ind2; cbn [zvisit_ex tsdepth].
  - repeat match goal with |- context [if ?c then _ else _] => destruct c end; cbn; lia.
  - unfold zcall, zid. cbn [enest fold_right]. lia.
  - unfold zcall, zid. cbn [enest fold_right]. lia.
  - unfold zcall, zid. cbn [enest fold_right]. lia.
  - destruct l as [|a l']; [cbn; lia|]. remember (a :: l') as l0.
    unfold zcall, zid. cbn [enest fold_right]. fold (maxe (map (zvisit_ex m) l0)). fold (maxd l0).
    assert (maxe (map (zvisit_ex m) l0) <= 2 * maxd l0 + 3) as Hmax.
    { apply maxe_map. intros x Hx. rewrite Forall_forall in IH. apply IH; exact Hx. }
    lia.
  - unfold link. cbn [enest fold_right]. lia.
  - lia.
  - pose proof (enest_zcustom m n) as Hc. lia.
Qed.

Lemma visit_budget m t : tsdepth t < 30 -> enest (zvisit_ex m t) < 64.
Proof. intros Hd. pose proof (enest_visit_bound m t) as Hb. lia. Qed.
