(* C18: the clause N is never declared, on the declaration model Model/C18Decl.v. *)
From Coq Require Import String Ascii.
From Coq Require Import List Arith Lia Bool.
Require Import TT.Model.Str TT.Proofs.StrFacts TT.Model.TypeParse TT.Model.C05Parse TT.Model.C05Emit TT.Model.C18Decl.
Import ListNotations.
Local Open Scope list_scope.

Lemma mem_In n l : mem n l = true <-> In n l.
Proof. unfold mem. rewrite existsb_exists. split.
  - intros [x [Hx He]]. apply str_eqb_eq in He. subst. exact Hx.
  - intros H. exists n. split; [exact H|apply str_eqb_refl]. Qed.

(* only project structs and enums are declared *)
Lemma declared_sub m all sites n : In n (declared m all sites) -> In n (map s_name all).
Proof. unfold declared. intros H. apply filter_In in H. tauto. Qed.

(* outside C18-4, for every project, every table, every set of sites: a mapped name is never declared *)
Theorem never_declared m all sites : kf18_own_name_mapped m all = false ->
  forall n tg, lookup m n = Some tg -> ~ In n (declared m all sites).
Proof.
  intros Hk n tg Hl Hin. apply declared_sub in Hin. apply in_map_iff in Hin. destruct Hin as [s [<- Hs]].
  assert (kf18_own_name_mapped m all = true); [|congruence].
  unfold kf18_own_name_mapped. apply existsb_exists. exists s. split; [exact Hs|]. unfold is_key. rewrite Hl. reflexivity.
Qed.

(* the table never changes what is declared (the frame half: nothing else changes) *)
Theorem declared_frame m all sites : declared m all sites = declared [] all sites.
Proof. reflexivity. Qed.

(* ... and inside the class the defect is general: a project struct that a site names directly is declared
   whatever the table says *)
Lemma add_new_mono all acc x y : In y acc -> In y (add_new all acc x).
Proof. unfold add_new. destruct (mem x acc || negb (is_struct all x)); [auto|]. intros H. apply in_or_app. left; exact H. Qed.
Lemma fold_add_mono all l : forall acc y, In y acc -> In y (fold_left (add_new all) l acc).
Proof. induction l as [|x r IH]; intros acc y H; [exact H|]. cbn [fold_left]. apply IH. apply add_new_mono; exact H. Qed.
Lemma step_mono all used y : In y used -> In y (step all used).
Proof.
  unfold step.
  assert (G : forall l acc, In y acc -> In y (fold_left (fun acc n => match find_struct all n with
                          | Some s => fold_left (add_new all) (flat_map refs (s_fields s)) acc
                          | None => acc end) l acc)).
  { induction l as [|n r IH]; intros acc H; [exact H|]. cbn [fold_left]. apply IH.
    destruct (find_struct all n); [apply fold_add_mono; exact H|exact H]. }
  apply G.
Qed.
Lemma iter_mono all : forall k used y, In y used -> In y (iter k all used).
Proof. induction k as [|k IH]; intros used y H; [exact H|]. cbn [iter]. apply IH. apply step_mono; exact H. Qed.
Theorem direct_struct_declared m all sites n :
  In n (flat_map refs sites) -> In n (map s_name all) -> In n (declared m all sites).
Proof.
  intros Hr Hs. unfold declared. apply filter_In. split; [exact Hs|]. apply mem_In. unfold used_types. apply iter_mono; exact Hr.
Qed.

(* nothing else is declared: every declared name is a project struct REACHABLE from a site through field types *)
Inductive reach (all : list sinfo) (roots : list str) : str -> Prop :=
| reach_root n : In n roots -> reach all roots n
| reach_field a s n : reach all roots a -> find_struct all a = Some s -> In n (flat_map refs (s_fields s)) -> reach all roots n.
Section Reach.
  Variable all : list sinfo.
  Variable roots : list str.
  Let R := reach all roots.
  Lemma add_new_reach acc x : (forall y, In y acc -> R y) -> R x -> forall y, In y (add_new all acc x) -> R y.
  Proof. intros Ha Hx y. unfold add_new. destruct (mem x acc || negb (is_struct all x)); [apply Ha|].
    intros H. apply in_app_or in H. destruct H as [H|[<-|[]]]; [apply Ha; exact H|exact Hx]. Qed.
  Lemma fold_add_reach l : forall acc, (forall y, In y acc -> R y) -> (forall x, In x l -> R x) ->
    forall y, In y (fold_left (add_new all) l acc) -> R y.
  Proof. induction l as [|x r IH]; intros acc Ha Hl; [exact Ha|]. cbn [fold_left]. apply IH.
    - apply add_new_reach; [exact Ha|apply Hl; left; reflexivity].
    - intros z Hz. apply Hl. right; exact Hz. Qed.
  Lemma step_reach used : (forall y, In y used -> R y) -> forall y, In y (step all used) -> R y.
  Proof.
    intros Hu. unfold step.
    assert (G : forall l acc, (forall n, In n l -> R n) -> (forall y, In y acc -> R y) ->
                forall y, In y (fold_left (fun acc n => match find_struct all n with
                          | Some s => fold_left (add_new all) (flat_map refs (s_fields s)) acc
                          | None => acc end) l acc) -> R y).
    { induction l as [|n r IH]; intros acc Hl Ha; [exact Ha|]. cbn [fold_left]. apply IH.
      - intros z Hz. apply Hl. right; exact Hz.
      - destruct (find_struct all n) as [s|] eqn:E; [|exact Ha]. apply fold_add_reach; [exact Ha|].
        intros x Hx. apply (reach_field all roots n s x); [apply Hl; left; reflexivity|exact E|exact Hx]. }
    apply G; exact Hu.
  Qed.
  Lemma iter_reach : forall k used, (forall y, In y used -> R y) -> forall y, In y (iter k all used) -> R y.
  Proof. induction k as [|k IH]; intros used Hu; [exact Hu|]. cbn [iter]. apply IH. apply step_reach; exact Hu. Qed.
End Reach.
Theorem declared_reachable m all sites n : In n (declared m all sites) ->
  In n (map s_name all) /\ reach all (flat_map refs sites) n.
Proof.
  unfold declared. intros H. apply filter_In in H. destruct H as [Hs Hm]. split; [exact Hs|]. apply mem_In in Hm.
  unfold used_types in Hm. revert Hm. apply iter_reach. intros y Hy. apply reach_root; exact Hy.
Qed.

(* the run-time oracle is the clause *)
Lemma decl_oracle_exact m names : c18_decl_ok m names = true <->
  forall n tg, In (n, tg) m -> ~ In n names /\ ~ In (n ++ L "Schema") names.
Proof.
  unfold c18_decl_ok. rewrite forallb_forall. split.
  - intros H n tg Hin. specialize (H (n, tg) Hin). cbn [fst] in H. apply andb_true_iff in H as [H1 H2].
    apply negb_true_iff in H1, H2. split; intros Hc; apply mem_In in Hc; congruence.
  - intros H [n tg] Hin. destruct (H n tg Hin) as [H1 H2]. cbn [fst]. apply andb_true_iff. split; apply negb_true_iff; apply not_true_is_false; intros Hc; apply mem_In in Hc; tauto.
Qed.

(* witness inside the class (C18-4): struct Timestamp { secs: i64 } used as a parameter, table Timestamp -> string *)
Definition w18_decl_all : list sinfo := [{| s_name := L "Timestamp"; s_fields := [TPrim (L "number")] |}].
Definition w18_decl_sites : list tstruct := [TCustom (L "Timestamp"); TPrim (L "string")].
Definition w18_decl_table : mapping := [(L "Timestamp", L "string")].
Lemma declared_refuted :
  kf18_own_name_mapped w18_decl_table w18_decl_all = true /\
  lookup w18_decl_table (L "Timestamp") = Some (L "string") /\
  render_m w18_decl_table (TCustom (L "Timestamp")) = L "string" /\
  declared w18_decl_table w18_decl_all w18_decl_sites = [L "Timestamp"] /\
  declared_ts true w18_decl_table w18_decl_all w18_decl_sites = [L "Timestamp"; L "TimestampSchema"] /\
  c18_decl_ok w18_decl_table (declared w18_decl_table w18_decl_all w18_decl_sites) = false.
Proof. vm_compute. repeat split; reflexivity. Qed.

(* premises of never_declared on a non-trivial project: Holder { f0: Vec<(Timestamp, Leaf)> }, Leaf { id: Uuid },
   Unused; the table maps Uuid (not a project type): Holder and Leaf are declared, Uuid is not *)
Definition ex18_decl_all : list sinfo :=
  [{| s_name := L "Holder"; s_fields := [TArr (TTuple [TCustom (L "Timestamp"); TCustom (L "Leaf")])] |};
   {| s_name := L "Leaf"; s_fields := [TCustom (L "Uuid")] |};
   {| s_name := L "Unused"; s_fields := [TCustom (L "Leaf")] |}].
Lemma never_declared_example :
  kf18_own_name_mapped [(L "Uuid", L "number")] ex18_decl_all = false /\
  declared [(L "Uuid", L "number")] ex18_decl_all [TOpt (TCustom (L "Holder"))] = [L "Holder"; L "Leaf"] /\
  c18_decl_ok [(L "Uuid", L "number")] (declared [(L "Uuid", L "number")] ex18_decl_all [TOpt (TCustom (L "Holder"))]) = true.
Proof. vm_compute. repeat split; reflexivity. Qed.

(* the run-time frame oracle on two declaration lists is set equality *)
Lemma decl_frame_oracle_exact a b : c18_decl_frame_ok a b = true <-> (forall x, In x a <-> In x b).
Proof.
  unfold c18_decl_frame_ok. rewrite andb_true_iff, !forallb_forall. split.
  - intros [H1 H2] x. split; intros H; apply mem_In; auto.
  - intros H. split; intros x Hx; apply mem_In; apply H; exact Hx.
Qed.
(* ... and the model satisfies it for every project, table and set of sites *)
Lemma decl_frame_model zod m all sites : c18_decl_frame_ok (declared_ts zod m all sites) (declared_ts zod [] all sites) = true.
Proof. apply decl_frame_oracle_exact. intros x. reflexivity. Qed.
