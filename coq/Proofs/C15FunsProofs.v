(* C15 - panic-freedom (and termination with the stated fuel) of the byte-faithful models, for every
   well-formed input; refutations with computed witnesses for the three defective sites. *)
From Coq Require Import String Ascii.
From Coq Require Import List Arith Bool NArith ZArith Lia.
Require Import TT.Model.C15Utf8 TT.Model.C15Funs TT.Proofs.C15Utf8Facts.
Import ListNotations.
Local Open Scope char_scope.
Local Open Scope list_scope.

Lemma find_head pat c p' s i : pat = c :: p' -> find pat s = Some i -> nth_error s i = Some c.
Proof. intros -> H. pose proof (find_nth _ _ _ 0 H ltac:(simpl; lia)) as N. rewrite Nat.add_0_r in N. exact N. Qed.
Lemma find_at pat s i j c : find pat s = Some i -> nth_error pat j = Some c -> nth_error s (i + j) = Some c.
Proof. intros H Hj. rewrite (find_nth _ _ _ j H); auto. apply nth_error_lt in Hj. exact Hj. Qed.

(* ================= serde_parser.rs ================= *)

Lemma quoted_safe s : wf s = true -> safe (quoted_b s).
Proof. intros Hw. unfold quoted_b.
  destruct (find_char """" s) as [qs|] eqn:E1; [|exact I].
  pose proof (find_char_nth _ _ _ E1) as N1.
  replace (qs + 1) with (S qs) by lia.
  rewrite (slice_from_after s qs _ Hw N1 eq_refl). cbn [bind].
  destruct (find_char """" (skipn (S qs) s)) as [qe|] eqn:E2; [|exact I].
  pose proof (find_char_nth _ _ _ E2) as N2. rewrite nth_error_skipn in N2.
  rewrite (slice_ok s (S qs) (S qs + qe)); [exact I|lia| apply nth_error_lt in N2; lia | |].
  - exact (boundary_succ s qs _ Hw N1 eq_refl).
  - exact (boundary_at s _ _ N2 eq_refl). Qed.

Lemma wf_trim_spaces : forall s, wf s = true -> wf (trim_spaces s) = true.
Proof. induction s as [|b s IH]; intros H; [reflexivity|]. cbn [trim_spaces]. destruct (Ascii.eqb b " "); [apply IH; eapply wf_tail; eauto|exact H]. Qed.

(* find_key: text[from..] starts just after an ASCII key, text[..at] ends at the first byte of the key *)
Lemma find_key_spec text key k0 key' : wf text = true -> key = k0 :: key' -> forallb is_ascii key = true ->
  forall fuel from, List.length text - from < fuel -> from <= List.length text -> boundary text from = true ->
  exists r, find_key_go fuel text key from = Ok r /\ forall rest, r = Some rest -> wf rest = true.
Proof. intros Hw Hk Ha. induction fuel as [|f IH]; intros from Hf Hl Hb; [lia|].
  cbn [find_key_go]. rewrite (slice_from_ok _ _ Hl Hb). cbn [bind].
  destruct (find key (skipn from text)) as [pos|] eqn:E1; [|eexists; split; [reflexivity|discriminate]].
  destruct (find_starts _ _ _ E1) as [S1 _]. rewrite skipn_add in S1.
  assert (N0 : nth_error text (from + pos) = Some k0).
  { rewrite <- nth_error_skipn. eapply find_head; eauto. }
  assert (C0 : is_cont k0 = false).
  { apply ascii_not_cont. subst key. cbn [forallb] in Ha. apply andb_true_iff in Ha. tauto. }
  rewrite (slice_to_at _ _ _ N0 C0). cbn [bind]. cbv zeta.
  assert (Hlen : 1 <= List.length key) by (subst key; simpl; lia).
  destruct (nth_error key (List.length key - 1)) as [c|] eqn:Ec; [|apply nth_error_None in Ec; lia].
  assert (Ac : is_ascii c = true) by (apply (proj1 (forallb_forall _ _) Ha); eapply nth_error_In; eauto).
  assert (Nl : nth_error text (from + pos + (List.length key - 1)) = Some c).
  { rewrite <- nth_error_skipn. rewrite (starts_nth _ _ _ S1); [exact Ec|lia]. }
  pose proof (nth_error_lt _ _ _ Nl) as Hlt.
  assert (Hb' : boundary text (from + pos + List.length key) = true).
  { replace (from + pos + List.length key) with (S (from + pos + (List.length key - 1))) by lia. exact (boundary_succ _ _ _ Hw Nl Ac). }
  assert (REC : exists r, find_key_go f text key (from + pos + List.length key) = Ok r /\ forall rest, r = Some rest -> wf rest = true).
  { apply IH; auto; lia. }
  destruct (match rev (firstn (from + pos) text) with b :: _ => ident_byte b | [] => false end); [exact REC|].
  rewrite (slice_from_ok text (from + pos + List.length key)); [|lia|exact Hb']. cbn [bind].
  destruct (starts (L "=") _ || starts (L "(") _); [|exact REC].
  eexists; split; [reflexivity|]. intros rest H. injection H as <-. apply wf_trim_spaces, wf_skipn, Hw. Qed.

Lemma find_key_b_spec text key k0 key' : wf text = true -> key = k0 :: key' -> forallb is_ascii key = true ->
  exists r, find_key_b text key = Ok r /\ forall rest, r = Some rest -> wf rest = true.
Proof. intros Hw Hk Ha. eapply find_key_spec; eauto; lia. Qed.

Lemma strip_prefix_wf p s r : strip_prefix p s = Some r -> wf s = true -> wf r = true.
Proof. unfold strip_prefix. destruct (starts p s); [|discriminate]. intros H Hw. injection H as <-. apply wf_skipn, Hw. Qed.

Lemma written_value_safe tokens key k0 key' : wf tokens = true -> key = k0 :: key' -> forallb is_ascii key = true ->
  safe (written_value_b tokens key).
Proof. intros Hw Hk Ha. unfold written_value_b.
  destruct (find_key_b_spec tokens key k0 key' Hw Hk Ha) as (r & -> & Hr). cbn [bind].
  destruct r as [rest|]; [|exact I]. pose proof (Hr rest eq_refl) as Hwr.
  assert (Q : forall x, wf x = true -> safe (match strip_prefix (L "=") x with Some t => quoted_b t | None => Ok None end)).
  { intros x Hx. destruct (strip_prefix (L "=") x) as [t|] eqn:E; [|exact I]. apply quoted_safe. eapply strip_prefix_wf; eauto. }
  destruct (strip_prefix (L "(") rest) as [group|] eqn:Eg; [|apply Q, Hwr].
  pose proof (strip_prefix_wf _ _ _ Eg Hwr) as Hwg.
  assert (Hs : exists g, slice_to group (match find_char ")" group with Some i => i | None => List.length group end) = Ok g /\ wf g = true).
  { destruct (find_char ")" group) as [i|] eqn:Ei.
    - pose proof (find_char_nth _ _ _ Ei) as N. rewrite (slice_to_at _ _ _ N eq_refl). eexists; split; [reflexivity|apply wf_firstn, Hwg].
    - rewrite (slice_to_ok group (List.length group)); [|lia|apply boundary_len]. eexists; split; [reflexivity|apply wf_firstn, Hwg]. }
  destruct Hs as (g & -> & Hwgg). cbn [bind].
  destruct (find_key_b_spec g (L "serialize") "s" (L "erialize") Hwgg eq_refl eq_refl) as (r2 & -> & Hr2). cbn [bind].
  destruct r2 as [x|]; [|exact I]. apply Q, Hr2. reflexivity. Qed.

Lemma rename_all_safe t : wf t = true -> safe (rename_all_b t).
Proof. intros Hw. apply (written_value_safe t (L "rename_all") "r" (L "ename_all")); auto. Qed.
Lemma rename_safe t : wf t = true -> safe (rename_b t).
Proof. intros Hw. apply (written_value_safe t (L "rename") "r" (L "ename")); auto. Qed.

Lemma serde_safe t : wf t = true -> safe (serde_b t).
Proof. intros Hw. unfold serde_b. apply safe_bind; [apply rename_safe; auto|]. intros r _.
  apply safe_bind; [apply rename_all_safe; auto|]. intros ra _. exact I. Qed.

Definition rename_witness : str := L "x = ""rename" ++ map ascii_of_nat [227; 128; 128; 227; 128; 128] ++ L "_all""".
(* the former counterexample: now the loop skips it and finds nothing *)
Lemma rename_witness_ok : utf8 rename_witness = true /\
  serde_b rename_witness = Ok {| sa_rename := None; sa_skip := false; sa_rename_all := None |}.
Proof. vm_compute. auto. Qed.

(* ================= validator_parser.rs ================= *)

Lemma msg_site_spec c : wf c = true ->
  exists r, msg_site c = Ok r /\ forall rest i, r = Some (rest, i) -> wf rest = true.
Proof. intros Hw. unfold msg_site.
  destruct (find (L "message") c) as [p|] eqn:E1; [|eexists; split; [reflexivity|discriminate]].
  assert (N0 : nth_error c p = Some "m") by (eapply find_head; [reflexivity|exact E1]).
  rewrite (slice_from_at c p _ N0 eq_refl). cbn [bind].
  destruct (find_char "=" (skipn p c)) as [e|] eqn:E2; [|eexists; split; [reflexivity|discriminate]].
  pose proof (find_char_nth _ _ _ E2) as N2. rewrite nth_error_skipn in N2.
  replace (p + e + 1) with (S (p + e)) by lia.
  rewrite (slice_from_after c _ _ Hw N2 eq_refl). cbn [bind].
  set (ae := trim_start (skipn (S (p + e)) c)).
  assert (Hwa : wf ae = true) by (apply wf_trim_start, wf_skipn, Hw).
  destruct ae as [|q ae'] eqn:Ea; [eexists; split; [reflexivity|discriminate]|].
  destruct (Ascii.eqb q """" || Ascii.eqb q "'") eqn:Eq; [|eexists; split; [reflexivity|discriminate]].
  assert (Aq : is_ascii q = true).
  { apply orb_true_iff in Eq as [Eq|Eq]; apply Ascii.eqb_eq in Eq; subst q; reflexivity. }
  rewrite (slice_from_after (q :: ae') 0 q Hwa eq_refl Aq). cbn [bind skipn].
  destruct (scan q ae' 0 false) as [i|]; [|eexists; split; [reflexivity|discriminate]].
  eexists; split; [reflexivity|]. intros rest i' H. injection H as <- <-. eapply wf_tail; eauto. Qed.

Lemma scan_nth q : forall s i esc j, scan q s i esc = Some j ->
  i <= j /\ exists b, nth_error s (j - i) = Some b /\ is_cont b = false.
Proof. induction s as [|b s IH]; intros i esc j H; [discriminate|]. cbn [scan] in H.
  assert (REC : forall esc', scan q s (S i) esc' = Some j -> i <= j /\ exists b0, nth_error (b :: s) (j - i) = Some b0 /\ is_cont b0 = false).
  { intros esc' H'. destruct (IH _ _ _ H') as (Hle & b0 & Hn & Hc). split; [lia|]. exists b0. split; auto.
    replace (j - i) with (S (j - S i)) by lia. exact Hn. }
  destruct (is_cont b) eqn:Ec; [eapply REC; eauto|].
  destruct esc; [eapply REC; eauto|].
  destruct (Ascii.eqb b "\"); [eapply REC; eauto|].
  destruct (Ascii.eqb b q); [|eapply REC; eauto].
  injection H as <-. split; [lia|]. exists b. rewrite Nat.sub_diag. auto. Qed.

Lemma msg_site_index c rest i : msg_site c = Ok (Some (rest, i)) ->
  exists b, nth_error rest i = Some b /\ is_cont b = false.
Proof. unfold msg_site. destruct (find (L "message") c); [|discriminate].
  destruct (slice_from c n); cbn [bind]; try discriminate.
  destruct (find_char "=" a); [|discriminate]. destruct (slice_from c (n + n0 + 1)); cbn [bind]; try discriminate.
  destruct (trim_start a0) as [|q ae]; [discriminate|]. destruct (Ascii.eqb q """" || Ascii.eqb q "'"); [|discriminate].
  destruct (slice_from (q :: ae) 1) as [| |r]; cbn [bind]; try discriminate.
  destruct (scan q r 0 false) as [j|] eqn:Es; [|discriminate]. intros H. injection H as <- <-.
  destruct (scan_nth _ _ _ _ _ Es) as (_ & b & Hn & Hc). rewrite Nat.sub_0_r in Hn. eauto. Qed.

Lemma msg_safe c : wf c = true -> safe (msg_b c).
Proof. intros Hw. unfold msg_b. destruct (msg_site_spec c Hw) as (r & E & _). rewrite E. cbn [bind].
  destruct r as [[rest i]|]; [|exact I]. destruct (msg_site_index _ _ _ E) as (b & Hn & Hc).
  rewrite (slice_to_at _ _ _ Hn Hc). exact I. Qed.

Lemma bound_safe kw k0 kw' c : kw = k0 :: kw' -> is_cont k0 = false -> wf c = true -> safe (bound_b kw c).
Proof. intros Hkw Hc Hw. unfold bound_b.
  destruct (find kw c) as [p|] eqn:E1; [|exact I].
  pose proof (find_head _ _ _ _ _ Hkw E1) as N0.
  rewrite (slice_from_at c p _ N0 Hc). cbn [bind].
  destruct (find_char "=" (skipn p c)) as [e|] eqn:E2; [|exact I].
  pose proof (find_char_nth _ _ _ E2) as N2. rewrite nth_error_skipn in N2.
  replace (p + e + 1) with (S (p + e)) by lia.
  rewrite (slice_from_after c _ _ Hw N2 eq_refl). cbn [bind].
  destruct (find_char "," (skipn (S (p + e)) c)) as [k|] eqn:E3; [|exact I].
  pose proof (find_char_nth _ _ _ E3) as N3.
  rewrite (slice_to_at _ _ _ N3 eq_refl). exact I. Qed.

Lemma content_spec kw k0 kw' t : kw = k0 :: kw' -> is_cont k0 = false -> wf t = true ->
  exists r, content_b kw t = Ok r /\ forall c, r = Some c -> wf c = true.
Proof. intros Hkw Hc Hw. unfold content_b.
  destruct (find kw t) as [st|] eqn:E1; [|eexists; split; [reflexivity|discriminate]].
  pose proof (find_head _ _ _ _ _ Hkw E1) as N0.
  rewrite (slice_from_at t st _ N0 Hc). cbn [bind].
  destruct (find_char "(" (skipn st t)) as [ps|] eqn:E2; [|eexists; split; [reflexivity|discriminate]].
  pose proof (find_char_nth _ _ _ E2) as N2. rewrite nth_error_skipn in N2.
  rewrite (slice_from_at t _ _ N2 eq_refl). cbn [bind].
  destruct (find_char ")" (skipn (st + ps) t)) as [pe|] eqn:E3; [|eexists; split; [reflexivity|discriminate]].
  pose proof (find_char_nth _ _ _ E3) as N3. rewrite nth_error_skipn in N3.
  assert (Hpe : 1 <= pe).
  { destruct pe as [|pe]; [|lia]. rewrite Nat.add_0_r in N3. rewrite N2 in N3. discriminate. }
  rewrite (slice_ok t (st + ps + 1) (st + ps + pe)).
  - cbn [bind]. eexists; split; [reflexivity|]. intros c H. injection H as <-. apply wf_firstn, wf_skipn, Hw.
  - lia.
  - apply nth_error_lt in N3. lia.
  - replace (st + ps + 1) with (S (st + ps)) by lia. exact (boundary_succ t _ _ Hw N2 eq_refl).
  - exact (boundary_at t _ _ N3 eq_refl). Qed.

Lemma con_safe kw k0 kw' t : kw = k0 :: kw' -> is_cont k0 = false -> wf t = true -> safe (con_b kw t).
Proof. intros Hkw Hc Hw. unfold con_b.
  destruct (contains kw t); [|exact I]. cbn [negb].
  destruct (content_spec kw k0 kw' t Hkw Hc Hw) as (r & E & Hr). rewrite E. cbn [bind].
  destruct r as [c|]; [|exact I]. pose proof (Hr c eq_refl) as Hwc.
  apply safe_bind; [apply (bound_safe (L "min") "m" (L "in")); [reflexivity|reflexivity|exact Hwc]|]. intros mn _.
  apply safe_bind; [apply (bound_safe (L "max") "m" (L "ax")); [reflexivity|reflexivity|exact Hwc]|]. intros mx _.
  apply safe_bind; [apply msg_safe; auto|]. intros msg _. exact I. Qed.

Lemma validator_safe t : wf t = true -> safe (validator_b t).
Proof. intros Hw. unfold validator_b.
  apply safe_bind; [apply (con_safe (L "length") "l" (L "ength")); auto|]. intros l _.
  apply safe_bind; [apply (con_safe (L "range") "r" (L "ange")); auto|]. intros r _. exact I. Qed.

(* the length attribute with min = 1 and the one-character message e-acute, as the token printer prints it *)
Definition msg_witness : str := L "length (min = 1 , message = """ ++ map ascii_of_nat [195; 169] ++ L """)".
(* the former counterexample: the whole message is returned *)
Lemma message_witness_ok : utf8 msg_witness = true /\
  validator_b msg_witness = Ok {| va_email := false; va_url := false;
      va_length := Some {| v_min := Some (L "1"); v_max := None; v_msg := Some (map ascii_of_nat [195; 169]) |};
      va_range := None |}.
Proof. vm_compute. auto. Qed.

(* ================= naming ================= *)

Definition hc (s : str) : bool := match s with c :: _ => is_cont c | [] => false end.
Lemma up_facts : forall c, Bool.eqb (is_ascii (up c)) (is_ascii c) && Bool.eqb (is_cont (up c)) (is_cont c) = true.
Proof. apply byte_sweep. vm_compute. reflexivity. Qed.
Lemma up_ascii c : is_ascii (up c) = is_ascii c.
Proof. pose proof (up_facts c) as H. apply andb_true_iff in H as [H _]. apply eqb_prop in H. exact H. Qed.
Lemma up_cont c : is_cont (up c) = is_cont c.
Proof. pose proof (up_facts c) as H. apply andb_true_iff in H as [_ H]. apply eqb_prop in H. exact H. Qed.
Lemma us_ascii c : is_us c = true -> is_ascii c = true.
Proof. unfold is_us. intros H. apply Ascii.eqb_eq in H. subst. reflexivity. Qed.

Lemma pascal_hc : forall s cap, wf s = true -> hc (pascal cap s) = true -> hc s = true.
Proof. induction s as [|c s IH]; intros cap Hw H; [discriminate|]. cbn [pascal] in H. destruct (is_us c) eqn:Eu.
  - pose proof (IH true (wf_tail _ _ Hw) H) as Hs. destruct s as [|d s']; [discriminate|]. simpl in Hs.
    rewrite (wf_head _ _ _ Hw (us_ascii _ Eu)) in Hs. discriminate.
  - destruct cap; simpl in H; [rewrite up_cont in H|]; exact H. Qed.
Lemma wf_pascal : forall s cap, wf s = true -> wf (pascal cap s) = true.
Proof. induction s as [|c s IH]; intros cap Hw; [reflexivity|]. cbn [pascal]. pose proof (wf_tail _ _ Hw) as Hws.
  destruct (is_us c); [apply IH; auto|].
  assert (Hgen : forall c', is_ascii c' = is_ascii c -> wf (c' :: pascal false s) = true).
  { intros c' Ha. cbn [wf]. rewrite (IH false Hws), andb_true_r.
    destruct (pascal false s) as [|d r] eqn:Ep; [reflexivity|]. destruct (is_ascii c') eqn:Ea; [|reflexivity].
    destruct (is_cont d) eqn:Ed; [|reflexivity]. exfalso.
    assert (Hh : hc s = true) by (apply (pascal_hc s false Hws); rewrite Ep; exact Ed).
    destruct s as [|x s']; [discriminate|]. simpl in Hh. rewrite (wf_head _ _ _ Hw) in Hh; congruence. }
  destruct cap; apply Hgen; [apply up_ascii|reflexivity]. Qed.

Lemma naming_safe r s : safe (naming_b r s).
Proof. destruct r; try exact I. unfold naming_b. destruct (pascal true s); exact I. Qed.
Lemma event_fn_safe s : safe (event_fn_b s).
Proof. exact I. Qed.
Lemma naming_witness_ok :
  naming_b RCamel (L "__") = Ok (L "__") /\
  (let ete := map ascii_of_nat [195; 169; 116; 195; 169] in utf8 ete = true /\ naming_b RCamel ete = Ok ete).
Proof. vm_compute. auto. Qed.

(* compute_variant_name: the CamelCase arm is guarded, the other arms of apply_to_variant do not slice *)
Lemma variant_safe r s : safe (variant_b r s).
Proof. destruct r; try exact I. unfold variant_b. destruct s; exact I. Qed.
(* the crate function itself still panics on the former witness; the call site no longer reaches it *)
Lemma variant_witness_ok :
  let etat := map ascii_of_nat [195; 137; 116; 97; 116] in
  utf8 etat = true /\ apply_to_variant_b RCamel etat = Panic /\ variant_b RCamel etat = Ok etat.
Proof. vm_compute. auto. Qed.

(* ================= type_resolver.rs ================= *)

(* a piece of s that is well formed and strictly shorter *)
Definition piece (s x : str) : Prop := wf x = true /\ List.length x < List.length s.

Lemma wrapped_spec tag n c s : wf s = true -> forallb is_ascii tag = true -> List.length tag = n ->
  nth_error tag (n - 1) = Some c -> c <> ">" -> 0 < n ->
  exists r, wrapped_b tag n s = Ok r /\ forall x, r = Some x -> piece s x.
Proof. intros Hw Ha Hn Hc Hne Hpos. unfold wrapped_b.
  destruct (starts tag s) eqn:E1; [|eexists; split; [reflexivity|discriminate]].
  destruct (ends_with_char ">" s) eqn:E2; [|eexists; split; [reflexivity|discriminate]]. cbn [andb].
  destruct (ends_with_char_nth _ _ E2) as [Nl Hl].
  assert (Nt : nth_error s (n - 1) = Some c) by (rewrite (starts_nth _ _ (n - 1) E1); auto; lia).
  assert (Ac : is_ascii c = true) by (apply (proj1 (forallb_forall _ _) Ha); eapply nth_error_In; eauto).
  assert (Hlt : n - 1 < List.length s - 1).
  { pose proof (starts_len _ _ E1). assert (n - 1 <> List.length s - 1) by (intro E; rewrite E in Nt; congruence). lia. }
  rewrite (slice_ok s n (List.length s - 1)).
  - cbn [bind]. eexists; split; [reflexivity|]. intros x H. injection H as <-. split.
    + apply wf_firstn, wf_skipn, Hw.
    + rewrite firstn_length, skipn_length. lia.
  - lia.
  - lia.
  - replace n with (S (n - 1)) by lia. exact (boundary_succ s _ _ Hw Nt Ac).
  - exact (boundary_at s _ _ Nl eq_refl). Qed.

Lemma wrapped_ok tag n s : wf s = true -> forallb is_ascii tag = true -> List.length tag = n ->
  nth_error tag (n - 1) = Some "<" -> 0 < n ->
  exists r, wrapped_b tag n s = Ok r /\ forall x, r = Some x -> piece s x.
Proof. intros Hw Ha Hn Hc Hp. apply (wrapped_spec tag n "<" s); auto. discriminate. Qed.

Lemma comma_top_nth : forall s d p, comma_top d s = Some p -> nth_error s p = Some ",".
Proof. induction s as [|b s IH]; intros d p H; [discriminate|]. cbn [comma_top] in H.
  destruct (opens b).
  { destruct (comma_top (d + 1) s) as [q|] eqn:E; [|discriminate]. injection H as <-. simpl. eapply IH; eauto. }
  destruct (closes b).
  { destruct (comma_top (d - 1) s) as [q|] eqn:E; [|discriminate]. injection H as <-. simpl. eapply IH; eauto. }
  destruct (Ascii.eqb b "," && (d =? 0)%Z) eqn:Ec.
  { injection H as <-. apply andb_true_iff in Ec as [Ec _]. apply Ascii.eqb_eq in Ec. subst. reflexivity. }
  destruct (comma_top d s) as [q|] eqn:E; [|discriminate]. injection H as <-. simpl. eapply IH; eauto. Qed.
Lemma top_comma_nth s p : find_top_level_comma s = Some p -> nth_error s p = Some ",".
Proof. apply comma_top_nth. Qed.

(* split_top_level: both slices of every round are on boundaries (the comma is ASCII), the loop ends
   within length+1 rounds, and the parts are well-formed pieces *)
Lemma split_top_spec : forall fuel rest, wf rest = true -> List.length rest < fuel ->
  exists parts, split_top_go fuel rest = Ok parts /\
    Forall (fun p => wf p = true /\ List.length p <= List.length rest) parts.
Proof. induction fuel as [|f IH]; intros rest Hw Hf; [lia|]. cbn [split_top_go].
  destruct (find_top_level_comma rest) as [pos|] eqn:E.
  - pose proof (top_comma_nth _ _ E) as N. pose proof (nth_error_lt _ _ _ N) as Hl.
    rewrite (slice_to_at _ _ _ N eq_refl). cbn [bind].
    replace (pos + 1) with (S pos) by lia. rewrite (slice_from_after _ _ _ Hw N eq_refl). cbn [bind].
    destruct (IH (skipn (S pos) rest)) as (t & Et & Ht); [apply wf_skipn, Hw|rewrite skipn_length; lia|].
    rewrite Et. cbn [bind]. eexists; split; [reflexivity|]. constructor.
    + split; [apply wf_firstn, Hw|rewrite firstn_length; lia].
    + pose proof (skipn_length (S pos) rest) as Hsl.
      eapply Forall_impl; [|exact Ht]. cbv beta. intros p [H1 H2]. split; auto. lia.
  - eexists; split; [reflexivity|]. constructor; [split; [exact Hw|lia]|constructor]. Qed.
Lemma split_top_level_spec s : wf s = true ->
  exists parts, split_top_level_b s = Ok parts /\ Forall (fun p => wf p = true /\ List.length p <= List.length s) parts.
Proof. intros Hw. apply split_top_spec; auto. Qed.

Lemma piece_trim s x : piece s x -> piece s (trim x).
Proof. intros [H1 H2]. split; [apply wf_trim, H1|]. pose proof (len_trim x). lia. Qed.
Lemma piece_le s s' x : piece s' x -> List.length s' <= List.length s -> piece s x.
Proof. intros [H1 H2] H. split; auto. lia. Qed.

(* a piece of inner is a piece of anything longer than inner *)
Lemma two_params_spec inner : wf inner = true ->
  exists r, two_params_b inner = Ok r /\
    forall k v, r = Some (k, v) -> (wf k = true /\ List.length k <= List.length inner) /\ (wf v = true /\ List.length v <= List.length inner).
Proof. intros Hw. unfold two_params_b. destruct (find_top_level_comma inner) as [p|] eqn:E; [|eexists; split; [reflexivity|discriminate]].
  pose proof (top_comma_nth _ _ E) as N.
  rewrite (slice_to_at _ _ _ N eq_refl). cbn [bind].
  replace (p + 1) with (S p) by lia. rewrite (slice_from_after _ _ _ Hw N eq_refl). cbn [bind].
  assert (Hk : wf (trim (firstn p inner)) = true /\ List.length (trim (firstn p inner)) <= List.length inner).
  { split; [apply wf_trim, wf_firstn, Hw|]. pose proof (len_trim (firstn p inner)). rewrite firstn_length in *. lia. }
  assert (Hv : wf (trim (skipn (S p) inner)) = true /\ List.length (trim (skipn (S p) inner)) <= List.length inner).
  { split; [apply wf_trim, wf_skipn, Hw|]. pose proof (len_trim (skipn (S p) inner)). rewrite skipn_length in *. lia. }
  set (k0 := trim (firstn p inner)) in *. set (v0 := trim (skipn (S p) inner)) in *.
  eexists; split; [reflexivity|]. intros k v H. injection H as <- <-. split; assumption. Qed.

Lemma result_ok_spec s : wf s = true -> exists r, result_ok_b s = Ok r /\ forall x, r = Some x -> piece s x.
Proof. intros Hw. unfold result_ok_b.
  destruct (wrapped_ok (L "Result<") 7 s Hw eq_refl eq_refl eq_refl ltac:(lia)) as (r & E & Hr). rewrite E. cbn [bind].
  destruct r as [inner|]; [|eexists; split; [reflexivity|discriminate]]. destruct (Hr inner eq_refl) as [Hwi Hli].
  destruct (find_top_level_comma inner) as [c|] eqn:Ec.
  - pose proof (top_comma_nth _ _ Ec) as N. rewrite (slice_to_at _ _ _ N eq_refl). cbn [bind].
    eexists; split; [reflexivity|]. intros x H. injection H as <-. split; [apply wf_trim, wf_firstn, Hwi|].
    pose proof (len_trim (firstn c inner)). rewrite firstn_length in *. lia.
  - eexists; split; [reflexivity|]. intros x H. injection H as <-. split; auto. Qed.

Lemma map_spec s : wf s = true ->
  exists r, map_b s = Ok r /\ forall k v, r = Some (k, v) -> piece s k /\ piece s v.
Proof. intros Hw. unfold map_b.
  destruct (wrapped_ok (L "HashMap<") 8 s Hw eq_refl eq_refl eq_refl ltac:(lia)) as (r & E & Hr). rewrite E. cbn [bind].
  assert (Hin : forall inner, piece s inner -> exists r2, two_params_b inner = Ok r2 /\ forall k v, r2 = Some (k, v) -> piece s k /\ piece s v).
  { intros inner [Hwi Hli]. destruct (two_params_spec inner Hwi) as (r2 & E2 & H2). exists r2. split; auto.
    intros k v Hkv. destruct (H2 k v Hkv) as [[? ?] [? ?]]. split; split; auto; lia. }
  assert (Hb : exists r3, (do b <- wrapped_b (L "BTreeMap<") 9 s; match b with Some inner => two_params_b inner | None => Ok None end) = Ok r3
                 /\ forall k v, r3 = Some (k, v) -> piece s k /\ piece s v).
  { destruct (wrapped_ok (L "BTreeMap<") 9 s Hw eq_refl eq_refl eq_refl ltac:(lia)) as (rb & Eb & Hrb). rewrite Eb. cbn [bind].
    destruct rb as [inner|]; [apply Hin, Hrb; reflexivity|]. eexists; split; [reflexivity|discriminate]. }
  destruct r as [inner|].
  - destruct (Hin inner (Hr inner eq_refl)) as (r2 & E2 & H2). rewrite E2. cbn [bind].
    destruct r2 as [[k v]|]; [|exact Hb]. eexists; split; [reflexivity|]. intros k' v' H. injection H as <- <-. apply H2. reflexivity.
  - cbn [bind]. exact Hb. Qed.

Lemma set_spec s : wf s = true -> exists r, set_b s = Ok r /\ forall x, r = Some x -> piece s x.
Proof. intros Hw. unfold set_b.
  destruct (wrapped_ok (L "HashSet<") 8 s Hw eq_refl eq_refl eq_refl ltac:(lia)) as (r & E & Hr). rewrite E. cbn [bind].
  destruct r as [i|]; [eexists; split; [reflexivity|]; intros x H; injection H as <-; apply Hr; reflexivity|].
  destruct (wrapped_ok (L "BTreeSet<") 9 s Hw eq_refl eq_refl eq_refl ltac:(lia)) as (r2 & E2 & Hr2). eauto. Qed.

Lemma tuple_inner_spec s : wf s = true -> starts (L "(") s = true -> ends_with_char ")" s = true ->
  slice s 1 (List.length s - 1) = Ok (firstn (List.length s - 1 - 1) (skipn 1 s)) /\ 2 <= List.length s.
Proof. intros Hw E1 E2. destruct (ends_with_char_nth _ _ E2) as [Nl Hl].
  assert (N0 : nth_error s 0 = Some "(") by (rewrite (starts_nth _ _ 0 E1); [reflexivity|simpl; lia]).
  assert (Hlen : 2 <= List.length s).
  { destruct (Nat.eq_dec (List.length s - 1) 0) as [E|E]; [rewrite E in Nl; congruence|lia]. }
  split; auto. apply slice_ok; try lia.
  - exact (boundary_succ s 0 _ Hw N0 eq_refl).
  - exact (boundary_at s _ _ Nl eq_refl). Qed.

Lemma tuple_spec s : wf s = true ->
  exists r, tuple_b s = Ok r /\ forall parts, r = Some parts -> Forall (piece s) parts.
Proof. intros Hw. unfold tuple_b.
  destruct (starts (L "(") s) eqn:E1; [|eexists; split; [reflexivity|discriminate]].
  destruct (ends_with_char ")" s) eqn:E2; [|eexists; split; [reflexivity|discriminate]]. cbn [andb].
  destruct (tuple_inner_spec s Hw E1 E2) as [-> Hlen]. cbn [bind].
  set (inner := firstn (List.length s - 1 - 1) (skipn 1 s)).
  assert (Hwi : wf inner = true) by (apply wf_firstn, wf_skipn, Hw).
  assert (Hli : List.length inner < List.length s) by (unfold inner; rewrite firstn_length, skipn_length; lia).
  destruct (trim inner); [eexists; split; [reflexivity|]; intros parts H; injection H as <-; constructor|].
  destruct (split_top_level_spec inner Hwi) as (ps & -> & Hps). cbn [bind].
  eexists; split; [reflexivity|]. intros parts H. injection H as <-.
  apply Forall_map. eapply Forall_impl; [|exact Hps]. simpl. intros p [H1 H2].
  apply piece_trim. split; auto. lia. Qed.

Lemma mapM_safe {A B} (f : A -> outcome B) l : Forall (fun x => safe (f x)) l -> safe (mapM_b f l).
Proof. induction 1 as [|x l Hx _ IH]; [exact I|]. cbn [mapM_b]. apply safe_bind; auto. intros y _.
  apply safe_bind; auto. intros ys _. exact I. Qed.

Lemma strip_amp_spec s inner : strip_prefix (L "&") s = Some inner -> wf s = true -> piece s inner.
Proof. unfold strip_prefix. destruct (starts (L "&") s) eqn:E; [|discriminate]. intros H Hw.
  assert (Hp : piece s (skipn 1 s)).
  { pose proof (starts_len _ _ E) as Hl. change (List.length (L "&")) with 1 in Hl. split; [apply wf_skipn, Hw|]. rewrite skipn_length. lia. }
  injection H as <-. exact Hp. Qed.

Theorem parse_total : forall fuel s, wf s = true -> List.length s < fuel -> safe (parse_b fuel s).
Proof. induction fuel as [|f IH]; intros s0 Hw0 Hf; [lia|]. cbn [parse_b].
  set (s := trim s0). assert (Hw : wf s = true) by apply wf_trim, Hw0.
  assert (Hl : List.length s <= List.length s0) by apply len_trim.
  assert (REC : forall x, piece s x -> safe (parse_b f x)) by (intros x [H1 H2]; apply IH; auto; lia).
  destruct (strip_prefix (L "&") s) as [inner|] eqn:Ea; [apply REC; eapply strip_amp_spec; eauto|].
  destruct (wrapped_ok (L "Option<") 7 s Hw eq_refl eq_refl eq_refl ltac:(lia)) as (r1 & E1 & H1). rewrite E1. cbn [bind].
  destruct r1 as [inner|]; [apply safe_bind; [apply REC, H1; reflexivity|intros; exact I]|].
  destruct (result_ok_spec s Hw) as (r2 & E2 & H2). rewrite E2. cbn [bind].
  destruct r2 as [okt|]; [apply safe_bind; [apply REC, H2; reflexivity|intros; exact I]|].
  destruct (wrapped_ok (L "Vec<") 4 s Hw eq_refl eq_refl eq_refl ltac:(lia)) as (r3 & E3 & H3). rewrite E3. cbn [bind].
  destruct r3 as [inner|]; [apply safe_bind; [apply REC, H3; reflexivity|intros; exact I]|].
  destruct (map_spec s Hw) as (r4 & E4 & H4). rewrite E4. cbn [bind].
  destruct r4 as [[k v]|].
  { destruct (H4 k v eq_refl) as [Hk Hv]. apply safe_bind; [apply REC, Hk|]. intros k' _.
    apply safe_bind; [apply REC, Hv|]. intros; exact I. }
  destruct (set_spec s Hw) as (r5 & E5 & H5). rewrite E5. cbn [bind].
  destruct r5 as [inner|]; [apply safe_bind; [apply REC, H5; reflexivity|intros; exact I]|].
  destruct (tuple_spec s Hw) as (r6 & E6 & H6). rewrite E6. cbn [bind].
  destruct r6 as [parts|].
  { destruct parts as [|p ps]; [exact I|]. apply safe_bind; [|intros; exact I]. apply mapM_safe.
    eapply Forall_impl; [|exact (H6 _ eq_refl)]. simpl. intros x Hx. apply REC, piece_trim, Hx. }
  destruct (prim_of s); exact I. Qed.

Theorem parse_type_structure_safe s : wf s = true -> safe (parse_type_structure_b s).
Proof. intros Hw. apply parse_total; auto. Qed.

(* ================= analysis/mod.rs extract_type_names_recursive ================= *)

Lemma strip_wrapped_spec tag s inner : strip_wrapped tag s = Some inner -> wf s = true -> 0 < List.length tag -> piece s inner.
Proof. unfold strip_wrapped, strip_prefix, strip_suffix. destruct (starts tag s) eqn:E; [|discriminate].
  set (r := skipn (List.length tag) s). destruct (ends_with (L ">") r); [|discriminate]. intros H Hw Hp.
  pose proof (starts_len _ _ E) as Hl.
  assert (Hpc : piece s (firstn (List.length r - List.length (L ">")) r)).
  { split; [apply wf_firstn, wf_skipn, Hw|]. rewrite firstn_length. unfold r. rewrite skipn_length. lia. }
  injection H as <-. exact Hpc. Qed.

Lemma pair_safe (f : str -> outcome (list str)) s inner : piece s inner ->
  (forall x, piece s x -> safe (f x)) -> safe (pair_b f inner).
Proof. intros [Hw Hl] Hf. unfold pair_b. destruct (find_top_level_comma inner) as [c|] eqn:E; [|exact I].
  pose proof (top_comma_nth _ _ E) as N. rewrite (slice_to_at _ _ _ N eq_refl). cbn [bind].
  replace (c + 1) with (S c) by lia. rewrite (slice_from_after _ _ _ Hw N eq_refl). cbn [bind].
  apply safe_bind.
  { apply Hf, piece_trim. split; [apply wf_firstn, Hw|]. rewrite firstn_length. lia. }
  intros x _. apply safe_bind; [|intros; exact I].
  apply Hf, piece_trim. split; [apply wf_skipn, Hw|]. rewrite skipn_length. lia. Qed.

Lemma result_names_safe (f : str -> outcome (list str)) s inner : piece s inner ->
  (forall x, piece s x -> safe (f x)) -> safe (result_names_b f inner).
Proof. intros Hp Hf. unfold result_names_b. destruct (find_top_level_comma inner); [eapply pair_safe; eauto|apply Hf, Hp]. Qed.

Lemma trim_amps_skipn : forall s, exists k, trim_amps s = skipn k s /\ (starts (L "&") s = true -> 1 <= k).
Proof. induction s as [|b s IH]; [exists 0; split; [reflexivity|discriminate]|]. cbn [trim_amps].
  destruct (Ascii.eqb b "&") eqn:E.
  - destruct IH as (k & -> & _). exists (S k). split; [reflexivity|lia].
  - exists 0. split; [reflexivity|]. intros H. change (starts (L "&") (b :: s)) with (Ascii.eqb "&" b && true) in H.
    rewrite Ascii.eqb_sym, E in H. discriminate. Qed.

Theorem names_total : forall fuel s0, wf s0 = true -> List.length s0 < fuel -> safe (names_go fuel s0).
Proof. induction fuel as [|f IH]; intros s0 Hw0 Hf; [lia|]. cbn [names_go].
  set (s := trim s0). assert (Hw : wf s = true) by apply wf_trim, Hw0.
  assert (Hl : List.length s <= List.length s0) by apply len_trim.
  assert (REC : forall x, piece s x -> safe (names_go f x)) by (intros x [H1 H2]; apply IH; auto; lia).
  assert (W1 : forall tag, 0 < List.length tag ->
            safe (match strip_wrapped tag s with Some inner => pair_b (names_go f) inner | None => Ok [] end)).
  { intros tag Hp. destruct (strip_wrapped tag s) as [inner|] eqn:E; [|exact I].
    eapply pair_safe; [eapply strip_wrapped_spec; eauto|exact REC]. }
  assert (W2 : forall tag, 0 < List.length tag ->
            safe (match strip_wrapped tag s with Some inner => names_go f inner | None => Ok [] end)).
  { intros tag Hp. destruct (strip_wrapped tag s) as [inner|] eqn:E; [|exact I]. eapply REC, strip_wrapped_spec; eauto. }
  assert (AMP : starts (L "&") s = true -> safe (names_go f (trim_amps s))).
  { intros Ea. destruct (trim_amps_skipn s) as (k & -> & Hk). specialize (Hk Ea). pose proof (starts_len _ _ Ea) as Hls.
    change (List.length (L "&")) with 1 in Hls. apply REC. split; [apply wf_skipn, Hw|]. rewrite skipn_length. lia. }
  destruct (starts (L "Result<") s).
  { destruct (strip_wrapped (L "Result<") s) as [inner|] eqn:E; [|exact I].
    eapply result_names_safe; [eapply strip_wrapped_spec; eauto; simpl; lia|exact REC]. }
  destruct (starts (L "Option<") s); [apply W2; simpl; lia|].
  destruct (starts (L "Vec<") s); [apply W2; simpl; lia|].
  destruct (starts (L "HashMap<") s) eqn:Eh; cbn [orb]; [apply W1; simpl; lia|].
  destruct (starts (L "BTreeMap<") s) eqn:Eb; [apply W1; simpl; lia|].
  destruct (starts (L "HashSet<") s) eqn:Ehs; cbn [orb]; [apply W2; simpl; lia|].
  destruct (starts (L "BTreeSet<") s) eqn:Ebs; [apply W2; simpl; lia|].
  destruct (starts (L "(") s) eqn:E1; cbn [andb].
  { destruct (ends_with_char ")" s) eqn:E2; cbn [andb].
    { destruct (negb (str_eqb s (L "()"))); cbn [andb].
      { destruct (tuple_inner_spec s Hw E1 E2) as [-> Hlen]. cbn [bind].
        set (inner := firstn (List.length s - 1 - 1) (skipn 1 s)).
        assert (Hwi : wf inner = true) by (apply wf_firstn, wf_skipn, Hw).
        assert (Hli : List.length inner < List.length s) by (unfold inner; rewrite firstn_length, skipn_length; lia).
        destruct (split_top_level_spec inner Hwi) as (ps & -> & Hps). cbn [bind].
        apply safe_bind; [|intros; exact I]. apply mapM_safe.
        eapply Forall_impl; [|exact Hps]. simpl. intros p [H1 H2].
        apply REC, piece_trim. split; auto. lia. }
      destruct (starts (L "&") s) eqn:Ea; [apply AMP; reflexivity|]. destruct (leaf_is_name s); exact I. }
    destruct (starts (L "&") s) eqn:Ea; [apply AMP; reflexivity|]. destruct (leaf_is_name s); exact I. }
  destruct (starts (L "&") s) eqn:Ea; [apply AMP; reflexivity|].
  destruct (leaf_is_name s); exact I. Qed.

Theorem names_safe s : wf s = true -> safe (names_b s).
Proof. intros Hw. apply names_total; auto. Qed.

(* ================= add_types_prefix ================= *)

Lemma ends_with_len p t : ends_with p t = true -> List.length p <= List.length t.
Proof. unfold ends_with. intros H. apply starts_len in H. rewrite !rev_length in H. exact H. Qed.

Theorem prefix_total : forall fuel t, List.length t < fuel -> safe (prefix_go fuel t).
Proof. induction fuel as [|f IH]; intros t Hf; [lia|]. cbn [prefix_go].
  destruct (one_of t _); [exact I|].
  destruct (strip_suffix (L "[]") t) as [base|] eqn:Es.
  { apply safe_bind; [|intros; exact I]. apply IH. unfold strip_suffix in Es.
    destruct (ends_with (L "[]") t) eqn:Ee; [|discriminate]. injection Es as <-.
    pose proof (ends_with_len _ _ Ee) as Hl. change (List.length (L "[]")) with 2 in *. rewrite firstn_length. lia. }
  destruct (starts (L "Record<") t || starts (L "Map<") t); [exact I|].
  assert (SUF : forall p, 0 < List.length p -> ends_with p t = true ->
            forall (k : str -> outcome str), (forall r, safe (k r)) ->
            safe (do base <- unwrap (strip_suffix p t); do r <- prefix_go f base; k r)).
  { intros p Hp E k Hk. unfold strip_suffix. rewrite E. cbn [unwrap bind]. apply safe_bind; [|intros; apply Hk].
    apply IH. rewrite firstn_length. pose proof (ends_with_len _ _ E). lia. }
  destruct (ends_with (L " | null") t) eqn:E1; [apply SUF; auto; [simpl; lia|intros; exact I]|].
  destruct (ends_with (L " | undefined") t) eqn:E2; [apply SUF; auto; [simpl; lia|intros; exact I]|].
  destruct (starts (L "[") t && ends_with_char "]" t); [exact I|].
  destruct (starts (L "types.") t); exact I. Qed.

Theorem prefix_safe t : safe (prefix_b t).
Proof. apply prefix_total. lia. Qed.

(* ================= the key scanner never exhausts its fuel ================= *)

Lemma slice_from_nf s a : slice_from s a <> OutOfFuel.
Proof. unfold slice_from. destruct (_ && _); discriminate. Qed.
Lemma slice_nf s a b : slice s a b <> OutOfFuel.
Proof. unfold slice. destruct (_ && _); discriminate. Qed.
Lemma quoted_nf s : quoted_b s <> OutOfFuel.
Proof. unfold quoted_b. destruct (find_char """" s); [|discriminate].
  pose proof (slice_from_nf s (n + 1)). destruct (slice_from s (n + 1)); cbn [bind]; try congruence; try discriminate.
  destruct (find_char """" a); [|discriminate].
  pose proof (slice_nf s (n + 1) (n + 1 + n0)). destruct (slice s (n + 1) (n + 1 + n0)); cbn [bind]; try congruence; discriminate. Qed.

Lemma rename_nf t : wf t = true -> rename_b t <> OutOfFuel.
Proof. intros Hw. apply safe_not_panic, rename_safe, Hw. Qed.

(* ================= the i32 depth of find_top_level_comma: explicit bound ================= *)

Lemma comma_top_chk_exact : forall s d,
  (Z.abs d + Z.of_nat (List.length s) <= 2147483647)%Z -> comma_top_chk d s = Ok (comma_top d s).
Proof. induction s as [|b s IH]; intros d H; [reflexivity|]. cbn [comma_top_chk comma_top].
  change (List.length (b :: s)) with (S (List.length s)) in H. rewrite Nat2Z.inj_succ in H.
  assert (Hup : i32_ok (d + 1) = true) by (unfold i32_ok; apply andb_true_iff; split; apply Z.leb_le; lia).
  assert (Hdn : i32_ok (d - 1) = true) by (unfold i32_ok; apply andb_true_iff; split; apply Z.leb_le; lia).
  destruct (opens b); [rewrite Hup, IH by lia; reflexivity|].
  destruct (closes b); [rewrite Hdn, IH by lia; reflexivity|].
  destruct (Ascii.eqb b "," && (d =? 0)%Z); [reflexivity|]. rewrite IH by lia. reflexivity. Qed.

(* ================= indexing of syn sequences in the AST walkers: every index is guarded ================= *)

Lemma index_safe {A} (l : list A) i : i < List.length l -> safe (index_b l i).
Proof. intros H. unfold index_b. destruct (nth_error l i) eqn:E; [exact I|]. apply nth_error_None in E. lia. Qed.
Lemma emit_select_safe {A} (emit_to : bool) (args : list A) : safe (emit_select emit_to args).
Proof. unfold emit_select. destruct emit_to.
  - destruct (3 <=? List.length args)%nat eqn:E; [|exact I]. apply Nat.leb_le in E.
    apply safe_bind; [apply index_safe; lia|]. intros n _. apply safe_bind; [apply index_safe; lia|]. intros; exact I.
  - destruct (2 <=? List.length args)%nat eqn:E; [|exact I]. apply Nat.leb_le in E.
    apply safe_bind; [apply index_safe; lia|]. intros n _. apply safe_bind; [apply index_safe; lia|]. intros; exact I. Qed.
Lemma attr_is_command_safe lc segs : safe (attr_is_command_b lc segs).
Proof. unfold attr_is_command_b. apply safe_bind; [|intros; exact I].
  destruct (List.length segs =? 2)%nat eqn:E; [|exact I]. apply Nat.eqb_eq in E.
  apply safe_bind; [apply index_safe; lia|]. intros s0 _. destruct (str_eqb s0 (L "tauri")); [|exact I].
  apply safe_bind; [apply index_safe; lia|]. intros; exact I. Qed.
Lemma tauri_param_safe segs : safe (tauri_param_plain_b segs).
Proof. unfold tauri_param_plain_b. apply safe_bind; [|intros [b|] _; exact I].
  destruct (2 <=? List.length segs)%nat eqn:E; [|exact I]. apply Nat.leb_le in E.
  apply safe_bind; [apply index_safe; lia|]. intros s0 _. destruct (str_eqb s0 (L "tauri")); [|exact I].
  destruct (List.length segs =? 2)%nat eqn:E2.
  { apply safe_bind; [apply index_safe; lia|]. intros; exact I. }
  destruct (List.length segs =? 3)%nat eqn:E3; [|exact I]. apply Nat.eqb_eq in E3.
  apply safe_bind; [apply index_safe; lia|]. intros s1 _. destruct (str_eqb s1 (L "ipc")); [|exact I].
  apply safe_bind; [apply index_safe; lia|]. intros; exact I. Qed.
