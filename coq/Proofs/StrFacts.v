(* proofs about TT.Model.Str *)
From Coq Require Import String Ascii.
From Coq Require Import List Arith Lia Bool.
Import ListNotations.
Local Open Scope char_scope.
Local Open Scope list_scope.
From Coq Require Import ZArith.
Require Import TT.Model.Str.
(* equation lemmas, so that proofs never need [simpl] on these *)
Lemma join_cons2 sep x y l : join sep (x :: y :: l) = x ++ sep ++ join sep (y :: l).
Proof. reflexivity. Qed.
Lemma join_one sep x : join sep [x] = x.
Proof. reflexivity. Qed.

Lemma str_eqb_refl a : str_eqb a a = true.
Proof. unfold str_eqb. destruct (list_eq_dec ascii_dec a a); congruence. Qed.
Lemma str_eqb_eq a b : str_eqb a b = true <-> a = b.
Proof. unfold str_eqb. destruct (list_eq_dec ascii_dec a b); split; congruence. Qed.
Lemma str_eqb_neq a b : str_eqb a b = false <-> a <> b.
Proof. unfold str_eqb. destruct (list_eq_dec ascii_dec a b); split; congruence. Qed.
Lemma str_eqb_cons a b x y : str_eqb (a :: x) (b :: y) = Ascii.eqb a b && str_eqb x y.
Proof. destruct (Ascii.eqb_spec a b) as [->|Hn]; simpl.
  - destruct (str_eqb x y) eqn:E. apply str_eqb_eq in E; subst. apply str_eqb_refl.
    apply str_eqb_neq in E. apply str_eqb_neq. congruence.
  - apply str_eqb_neq. congruence. Qed.

Lemma ends_with_snoc c x : ends_with c (x ++ [c]) = true.
Proof. unfold ends_with. rewrite rev_app_distr. simpl. apply Ascii.eqb_refl. Qed.
Lemma ends_with_snoc_ne c c' x : c <> c' -> ends_with c (x ++ [c']) = false.
Proof. intros. unfold ends_with. rewrite rev_app_distr. simpl. destruct (Ascii.eqb_spec c c'); congruence. Qed.

Lemma mid_wrap p x q : mid (List.length p) (List.length q) (p ++ x ++ q) = x.
Proof. unfold mid. rewrite skipn_app, skipn_all, Nat.sub_diag. simpl.
  rewrite !app_length. replace (List.length p + (List.length x + List.length q) - List.length p - List.length q) with (List.length x) by lia.
  rewrite firstn_app, firstn_all, Nat.sub_diag. simpl. apply app_nil_r. Qed.

Lemma trim_l_len s : List.length (trim_l s) <= List.length s.
Proof. induction s as [|y s IHs]; simpl; auto. destruct (is_space y); simpl; lia. Qed.
